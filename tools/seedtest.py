#!/usr/bin/env python3
"""Confirm a seeded change and run the checks against it.

usage: seedtest.py <seed-id> <patch.diff> <demo.py> <orig-worktree-path> <prop> [<prop> ...]
 1. scratch worktree of /repo HEAD (under /tmp), demo must exit 0 there;
 2. apply the patch there: the 262 stable tests must still pass and the demo must exit 1;
 3. apply the patch to /repo, run ./check <prop> --tier quick for each prop, undo it;
 4. write seeded/<id>/{patch.diff, demo.py, meta.json}; remove the scratch worktree.
"""
import json, os, shutil, subprocess, sys, time

VERIF = os.path.dirname(os.path.dirname(os.path.abspath(__file__)))


def sh(cmd, **kw):
    p = subprocess.run(cmd, shell=isinstance(cmd, str), stdout=subprocess.PIPE, stderr=subprocess.STDOUT,
                       text=True, **kw)
    return p.returncode, p.stdout


def main():
    sid, patch, demo, orig = sys.argv[1:5]
    props = sys.argv[5:]
    patch = os.path.abspath(patch)
    wt = "/tmp/verify_%s_%d" % (sid, os.getpid())
    meta = {"id": sid, "ran": []}
    rc, out = sh("git -C /repo worktree add -q --detach %s HEAD" % wt)
    assert rc == 0, out
    try:
        demo_src = open(demo).read().replace(orig, wt)
        dpath = os.path.join(wt, "demo_seed.py")
        open(dpath, "w").write(demo_src)
        rc0, o0 = sh(["/venv/bin/python", "-W", "ignore", dpath], cwd=wt, timeout=600)
        meta["demo_without_change"] = rc0
        rc, out = sh("git -C %s apply %s" % (wt, patch))
        assert rc == 0, "patch does not apply: " + out
        env = dict(os.environ, PVL_REPO=wt)
        rcb, ob = sh(["/venv/bin/python", os.path.join(VERIF, "tools", "baseline.py")], env=env, timeout=900)
        meta["baseline_with_change"] = ob.strip().splitlines()[-1] if ob.strip() else ""
        meta["baseline_ok"] = (rcb == 0)
        rc1, o1 = sh(["/venv/bin/python", "-W", "ignore", dpath], cwd=wt, timeout=600)
        meta["demo_with_change"] = rc1
        meta["demo_output_tail"] = o1.strip().splitlines()[-3:]
    finally:
        sh("git -C /repo worktree remove --force %s" % wt)
    confirmed = meta["demo_without_change"] == 0 and meta["demo_with_change"] != 0 and meta["baseline_ok"]
    meta["confirmed"] = confirmed
    print(json.dumps(meta, indent=1))
    if not confirmed:
        print("NOT CONFIRMED")
        return 1
    # run the checks against /repo with the change applied
    rc, out = sh("git -C /repo status --porcelain")
    assert out.strip() == "", "/repo not clean: " + out
    rc, out = sh("git -C /repo apply %s" % patch)
    assert rc == 0, out
    results = {}
    try:
        for p in props:
            t0 = time.time()
            rc, out = sh([os.path.join(VERIF, "check"), p, "--tier", "quick"], cwd=VERIF, timeout=3000)
            lines = [l for l in out.splitlines() if l.startswith(("VIOLATION", "OK ", "KNOWN-FINDING", "TIMEOUT"))]
            replay = None
            for l in lines:
                if l.startswith("VIOLATION"):
                    rp = l.split("replay=")[1].split()[0]
                    try:
                        replay = json.load(open(os.path.join(VERIF, rp)))
                    except Exception:
                        replay = None
            results[p] = {"exit": rc, "lines": [l[:200] for l in lines if not l.startswith("KNOWN")],
                          "what": (replay or {}).get("what"), "wall_s": round(time.time() - t0, 1)}
            print(p, rc, [l[:160] for l in lines if not l.startswith("KNOWN")], (replay or {}).get("what"))
    finally:
        sh("git -C /repo checkout -- .")
        # the evidence files just written describe the changed tree: put the committed ones back
        sh("git -C %s checkout -- evidence" % VERIF)
    meta["checks"] = results
    d = os.path.join(VERIF, "seeded", sid)
    os.makedirs(d, exist_ok=True)
    shutil.copy(patch, os.path.join(d, "patch.diff"))
    shutil.copy(demo, os.path.join(d, "demo.py"))
    note = os.path.join(os.path.dirname(demo), "NOTE.md")
    if os.path.exists(note):
        shutil.copy(note, os.path.join(d, "NOTE.md"))
    json.dump(meta, open(os.path.join(d, "meta.json"), "w"), indent=1)
    return 0


if __name__ == "__main__":
    sys.exit(main())
