#!/venv/bin/python
"""Translator for the data-like part of pvl: regenerates
lean/PvlModel/Gen/Tables.lean from the *instances* of the grammar / encoder
classes in /repo's working tree and from CPython's own str/int/float tables.

Every finite function that is tabulated here is tabulated exhaustively
(all 1 114 112 code points) and re-expanded from its run-length form and
compared with the source function before it is emitted.

Usage: extract.py [--repo /repo] [--out <Tables.lean>] [--force]
Prints a JSON summary on stdout.
"""
import sys, os, json, hashlib, importlib, inspect, time, warnings

warnings.simplefilter("ignore")
MAXCP = 0x110000


def ranges_of(pred):
    out = []
    start = None
    for c in range(MAXCP):
        if pred(c):
            if start is None:
                start = c
        else:
            if start is not None:
                out.append((start, c - 1))
                start = None
    if start is not None:
        out.append((start, MAXCP - 1))
    return out


def check_ranges(rs, pred):
    s = set()
    for lo, hi in rs:
        s.update(range(lo, hi + 1))
    for c in range(MAXCP):
        assert (c in s) == bool(pred(c)), c


def cps(s):
    return "[" + ", ".join(str(ord(c)) for c in s) + "]"


def lstr(s):
    """Lean String literal (ASCII only patterns expected)."""
    out = '"'
    for ch in s:
        o = ord(ch)
        if ch == '"':
            out += '\\"'
        elif ch == "\\":
            out += "\\\\"
        elif 32 <= o < 127:
            out += ch
        else:
            out += "\\u{%x}" % o
    return out + '"'


def lbool(b):
    return "true" if b else "false"


def lranges(rs):
    return "[" + ", ".join("(%d, %d)" % r for r in rs) + "]"


def lpairs(pairs):
    return "[" + ", ".join("(%s, %s)" % (cps(a), cps(b)) for a, b in pairs) + "]"


def source_hash(repo):
    h = hashlib.sha256()
    d = os.path.join(repo, "pvl")
    for fn in sorted(os.listdir(d)):
        if fn.endswith(".py"):
            h.update(fn.encode())
            with open(os.path.join(d, fn), "rb") as f:
                h.update(f.read())
    h.update(sys.version.encode())
    with open(__file__, "rb") as f:
        h.update(f.read())
    return h.hexdigest()


def safe(fn, *a):
    try:
        return fn(*a)
    except Exception:
        return None


def grammar_block(lname, g):
    single = lambda t: all(len(x) == 1 for x in t)
    assert single(g.whitespace) and single(g.reserved_characters)
    assert single(g.numeric_start_chars) and single(g.quotes)
    for d in (g.set_delimiters, g.sequence_delimiters, g.units_delimiters):
        assert len(d) == 2 and single(d)

    def allowed(c):
        try:
            return bool(g.char_allowed(chr(c)))
        except Exception:
            return False

    rs = ranges_of(allowed)
    check_ranges(rs, allowed)

    def pat(r):
        return None if r is None else r.pattern

    def opt(p):
        return "none" if p is None else "some " + lstr(p)

    two = lambda d: "(%d, %d)" % (ord(d[0]), ord(d[1]))
    L = []
    L.append("def %s : Grammar where" % lname)
    L.append("  name := %s" % lstr(type(g).__name__))
    L.append("  whitespace := %s" % cps(g.whitespace))
    L.append("  spacing := %s" % cps(g.spacing_characters))
    L.append("  formatEffectors := %s" % cps(g.format_effectors))
    L.append("  reserved := %s" % cps(g.reserved_characters))
    L.append("  numericStart := %s" % cps(g.numeric_start_chars))
    L.append("  delimiters := [%s]" % ", ".join(cps(x) for x in g.delimiters))
    L.append("  comments := %s" % lpairs(g.comments))
    L.append("  noneKw := %s" % cps(g.none_keyword))
    L.append("  trueKw := %s" % cps(g.true_keyword))
    L.append("  falseKw := %s" % cps(g.false_keyword))
    L.append("  groupPref := (%s, %s)" % tuple(cps(x) for x in g.group_pref_keywords))
    L.append("  objectPref := (%s, %s)" % tuple(cps(x) for x in g.object_pref_keywords))
    L.append("  groupKeywords := %s" % lpairs(list(g.group_keywords.items())))
    L.append("  objectKeywords := %s" % lpairs(list(g.object_keywords.items())))
    L.append("  aggKeywords := %s" % lpairs(list(g.aggregation_keywords.items())))
    L.append("  endStatements := [%s]" % ", ".join(cps(x) for x in g.end_statements))
    L.append("  reservedKeywords := [%s]" % ", ".join(cps(x) for x in sorted(g.reserved_keywords)))
    L.append("  quotes := %s" % cps(g.quotes))
    L.append("  setDelims := %s" % two(g.set_delimiters))
    L.append("  seqDelims := %s" % two(g.sequence_delimiters))
    L.append("  unitsDelims := %s" % two(g.units_delimiters))
    L.append("  ndPrePattern := %s" % lstr(g.nondecimal_pre_re.pattern))
    L.append("  ndPattern := %s" % lstr(g.nondecimal_re.pattern))
    L.append("  binPattern := %s" % lstr(g.binary_re.pattern))
    L.append("  octPattern := %s" % lstr(g.octal_re.pattern))
    L.append("  hexPattern := %s" % lstr(g.hex_re.pattern))
    L.append("  leapYmdPattern := %s" % opt(pat(g.leap_second_Ymd_re)))
    L.append("  leapYjPattern := %s" % opt(pat(g.leap_second_Yj_re)))
    L.append("  mFragPattern := %s" % lstr(g._M_frag))
    import datetime
    tz = g.default_timezone
    assert tz is None or tz == datetime.timezone.utc, tz
    L.append("  defaultUtc := %s" % lbool(tz is not None))
    L.append("  dateFormats := [%s]" % ", ".join(cps(x) for x in g.date_formats))
    L.append("  timeFormats := [%s]" % ", ".join(cps(x) for x in g.time_formats))
    L.append("  datetimeFormats := [%s]" % ", ".join(cps(x) for x in g.datetime_formats))
    L.append("  allowed := %s" % lranges(rs))
    return "\n".join(L), rs


def enc_block(lname, cls):
    sig = inspect.signature(cls.__init__)
    p = sig.parameters
    e = cls()

    def dflt(n, alt):
        return p[n].default if n in p else alt

    L = []
    L.append("def %s : EncDefaults where" % lname)
    L.append("  cls := %s" % lstr(cls.__name__))
    L.append("  grammar := %s" % lstr(type(e.grammar).__name__))
    L.append("  decoder := %s" % lstr(type(e.decoder).__name__))
    L.append("  indent := %d" % e.indent)
    L.append("  width := %d" % e.width)
    L.append("  aggregationEnd := %s" % lbool(e.aggregation_end))
    L.append("  endDelimiter := %s" % lbool(e.end_delimiter))
    L.append("  newline := %s" % cps(e.newline))
    L.append("  convertGroupToObject := %s" % lbool(getattr(e, "convert_group_to_object", False)))
    L.append("  tabReplace := %d" % getattr(e, "tab_replace", 0))
    L.append("  symbolSingleQuote := %s" % lbool(getattr(e, "symbol_single_quote", False)))
    L.append("  timeTrailingZ := %s" % lbool(getattr(e, "time_trailing_z", False)))
    return "\n".join(L)


def main():
    args = sys.argv[1:]
    repo = "/repo"
    here = os.path.dirname(os.path.abspath(__file__))
    out = os.path.join(here, "..", "lean", "PvlModel", "Gen", "Tables.lean")
    force = False
    while args:
        a = args.pop(0)
        if a == "--repo":
            repo = args.pop(0)
        elif a == "--out":
            out = args.pop(0)
        elif a == "--force":
            force = True
    out = os.path.abspath(out)
    t0 = time.time()
    h = source_hash(repo)
    side = os.path.join(here, "..", ".cache", "extract.hash")
    if not force and os.path.exists(out) and os.path.exists(side):
        with open(side) as f:
            if f.read().strip() == h + " " + out:
                print(json.dumps({"cached": True, "hash": h, "out": out, "wall_s": 0.0}))
                return 0

    sys.path.insert(0, repo)
    for m in [m for m in sys.modules if m == "pvl" or m.startswith("pvl.")]:
        del sys.modules[m]
    import pvl
    assert os.path.abspath(os.path.dirname(pvl.__file__)) == os.path.abspath(
        os.path.join(repo, "pvl")), pvl.__file__
    from pvl import grammar as G, encoder as E
    import pvl.pvl_validate as PV, pvl.pvl_translate as PT
    import re

    parts = ["-- GENERATED by tools/extract.py from the working tree; do not edit.",
             "import PvlModel.Model.Basic",
             "namespace Pvl.Gen",
             "open Pvl", ""]
    summary = {"cached": False, "hash": h, "out": out, "grammars": {}}
    gs = [("pvl", G.PVLGrammar()), ("odl", G.ODLGrammar()), ("pds", G.PDSGrammar()),
          ("isis", G.ISISGrammar()), ("omni", G.OmniGrammar())]
    for lname, g in gs:
        blk, rs = grammar_block(lname, g)
        parts.append(blk)
        parts.append("")
        summary["grammars"][lname] = {"allowed_ranges": len(rs)}

    for lname, cls in [("encPVL", E.PVLEncoder), ("encODL", E.ODLEncoder),
                       ("encPDS", E.PDSLabelEncoder), ("encISIS", E.ISISEncoder)]:
        parts.append(enc_block(lname, cls))
        parts.append("")

    # dialect rows of pvl_validate and the format table of pvl_translate
    rows = []
    for k, v in PV.dialects.items():
        rows.append("(%s, %s, %s, %s, %s)" % (
            lstr(k), lstr(type(v["parser"]).__name__), lstr(type(v["grammar"]).__name__),
            lstr(type(v["decoder"]).__name__), lstr(type(v["encoder"]).__name__)))
    parts.append("def validateDialects : List (String × String × String × String × String) :=\n  [%s]"
                 % ",\n   ".join(rows))
    rows = []
    for k, v in PT.formats.items():
        enc = getattr(v, "encoder", None)
        rows.append("(%s, %s, %s)" % (lstr(k), lstr(type(v).__name__),
                                      lstr(type(enc).__name__ if enc is not None else "")))
    parts.append("def translateFormats : List (String × String × String) :=\n  [%s]"
                 % ",\n   ".join(rows))
    parts.append("")

    # ---- CPython tables (exhaustive) ----
    isspace = lambda c: chr(c).isspace()
    rs = ranges_of(isspace)
    check_ranges(rs, isspace)
    sre = re.compile(r"\s")
    for c in range(MAXCP):
        assert bool(sre.fullmatch(chr(c))) == isspace(c), ("\\s", c)
    parts.append("def pySpace : Ranges := %s" % lranges(rs))

    isdec = lambda c: chr(c).isdecimal()
    rs = ranges_of(isdec)
    check_ranges(rs, isdec)
    dre = re.compile(r"\d")
    import unicodedata
    for c in range(MAXCP):
        assert bool(dre.fullmatch(chr(c))) == isdec(c), ("\\d", c)
    for lo, hi in rs:
        assert (hi - lo + 1) % 10 == 0, (lo, hi)
        for c in range(lo, hi + 1):
            assert unicodedata.decimal(chr(c)) == (c - lo) % 10, c
            assert int(chr(c)) == (c - lo) % 10
    parts.append("/-- Unicode decimal digits: in each range the digit value is `(c - lo) % 10`"
                 " (checked for every code point by the extractor). -/")
    parts.append("def pyDecimal : Ranges := %s" % lranges(rs))

    isprint = lambda c: chr(c).isprintable()
    rs = ranges_of(isprint)
    check_ranges(rs, isprint)
    parts.append("def pyPrintable : Ranges := %s" % lranges(rs))

    def int_strips(c):
        ch = chr(c)
        return safe(int, ch + "5", 10) == 5 and safe(int, "5" + ch, 10) == 5 and not ch.isdecimal() \
            and ch not in "+-_"

    rs = ranges_of(int_strips)
    check_ranges(rs, int_strips)
    parts.append("def pyIntStrip : Ranges := %s" % lranges(rs))

    def float_strips(c):
        ch = chr(c)
        return safe(float, ch + "5") == 5.0 and safe(float, "5" + ch) == 5.0 and not ch.isdecimal() \
            and ch not in "+-_."

    rs2 = ranges_of(float_strips)
    check_ranges(rs2, float_strips)
    parts.append("def pyFloatStrip : Ranges := %s" % lranges(rs2))

    # casefold restricted to the alphabet of every keyword / delimiter that the code
    # compares through str.casefold()
    alpha = set()
    for _, g in gs:
        words = [g.none_keyword, g.true_keyword, g.false_keyword, *g.end_statements,
                 *g.reserved_keywords, *g.delimiters]
        for k, v in g.aggregation_keywords.items():
            words += [k, v]
        for k, v in list(g.group_keywords.items()) + list(g.object_keywords.items()):
            words += [k, v]
        for w in words:
            alpha.update(w.casefold())
    fold = []
    for c in range(MAXCP):
        f = chr(c).casefold()
        if f and all(x in alpha for x in f):
            fold.append((c, f))
    parts.append("/-- `chr(c).casefold()` for every code point whose fold lies inside the keyword"
                 " alphabet %s; all other code points fold outside it. -/" % lstr("".join(sorted(alpha))))
    parts.append("def pyFoldAlphabet : List Nat := %s" % cps(sorted(alpha)))
    parts.append("def pyCasefold : List (Nat × List Nat) :=\n  [%s]"
                 % ", ".join("(%d, %s)" % (c, cps(f)) for c, f in fold))

    # ASCII-only helpers used after an ASCII guard in the code
    parts.append("def pyAsciiAlpha : Ranges := %s"
                 % lranges(ranges_of(lambda c: c < 128 and chr(c).isalpha())))
    parts.append("def pyAsciiDigit : Ranges := %s"
                 % lranges(ranges_of(lambda c: c < 128 and chr(c).isdigit())))
    for c in range(128):
        u = chr(c).upper()
        assert len(u) == 1
        if u != chr(c):
            assert ord("a") <= c <= ord("z") and ord(u) == c - 32
    # ---- control structure read from the source text (ast): the order in which productions / decoders
    # are tried and which exceptions each loop swallows.  The model was written for this structure;
    # theorems in Props compare it with these tables, so a re-ordering in the code breaks an obligation.
    import ast
    def loops_of(path, cls, fn):
        """for every `for x in (self.a, self.b, ...)` in cls.fn: (names, handler type names of the try inside)"""
        tree = ast.parse(open(path).read())
        out = []
        for c in ast.walk(tree):
            if isinstance(c, ast.ClassDef) and c.name == cls:
                for f in c.body:
                    if isinstance(f, ast.FunctionDef) and f.name == fn:
                        for node in ast.walk(f):
                            if isinstance(node, ast.For) and isinstance(node.iter, ast.Tuple):
                                names = [e.attr for e in node.iter.elts if isinstance(e, ast.Attribute)]
                                handlers = []
                                for t in node.body:
                                    if isinstance(t, ast.Try):
                                        for h in t.handlers:
                                            ty = h.type
                                            if ty is None:
                                                handlers.append("*")
                                            elif isinstance(ty, ast.Tuple):
                                                handlers.append("|".join(getattr(e, "id", "?") for e in ty.elts))
                                            else:
                                                handlers.append(getattr(ty, "id", "?"))
                                out.append((names, handlers))
        return out
    def lstrs(l):
        return "[" + ", ".join(json.dumps(x) for x in l) + "]"
    src = os.path.join(repo, "pvl")
    dec = loops_of(os.path.join(src, "decoder.py"), "PVLDecoder", "decode_simple_value")
    mod = loops_of(os.path.join(src, "parser.py"), "PVLParser", "parse_module")
    val = loops_of(os.path.join(src, "parser.py"), "PVLParser", "parse_value")
    def one(l):
        return l[0] if l else ([], [])
    def func_of(path, cls, fn):
        tree = ast.parse(open(path).read())
        for c in ast.walk(tree):
            if isinstance(c, ast.ClassDef) and c.name == cls:
                for f in c.body:
                    if isinstance(f, ast.FunctionDef) and f.name == fn:
                        return f
        return None

    def test_name(t):
        """`x is None` -> "None"; `isinstance(x, T)` -> the class names, "|"-joined"""
        if isinstance(t, ast.Compare) and len(t.ops) == 1 and isinstance(t.ops[0], ast.Is):
            return "None"
        if isinstance(t, ast.Call) and getattr(t.func, "id", "") == "isinstance" and len(t.args) == 2:
            a = t.args[1]
            els = a.elts if isinstance(a, ast.Tuple) else [a]
            return "|".join(e.attr if isinstance(e, ast.Attribute) else getattr(e, "id", "?") for e in els)
        return "?"

    def ifchain_of(path, cls, fn):
        """the tests of the top-level if / elif chain of cls.fn, in order"""
        f = func_of(path, cls, fn)
        out = []
        node = next((n for n in (f.body if f else []) if isinstance(n, ast.If)), None)
        while node is not None:
            out.append(test_name(node.test))
            node = node.orelse[0] if len(node.orelse) == 1 and isinstance(node.orelse[0], ast.If) else None
        return out

    def attrs_in_order(path, cls, fn, suffix):
        """`self.grammar.<x>` attribute names ending in suffix, in source order"""
        f = func_of(path, cls, fn)
        found = []
        for n in ast.walk(f) if f else []:
            if isinstance(n, ast.Attribute) and n.attr.endswith(suffix):
                found.append((n.lineno, n.col_offset, n.attr))
        return [a for _, _, a in sorted(found)]

    def regex_parts(path, cls, fn):
        """string constants of the first re.fullmatch(...) pattern in cls.fn, in order"""
        f = func_of(path, cls, fn)
        for n in ast.walk(f) if f else []:
            if isinstance(n, ast.Call) and getattr(n.func, "attr", "") == "fullmatch" and n.args:
                pat = n.args[0]
                out = []
                for c in ast.walk(pat):
                    if isinstance(c, ast.Constant) and isinstance(c.value, str):
                        out.append((c.lineno, c.col_offset, c.value))
                    elif isinstance(c, ast.Attribute) and not isinstance(c.value, ast.Name):
                        out.append((c.lineno, c.col_offset, "{" + c.attr + "}"))
                return [v for _, _, v in sorted(out)]
        return []

    parts.append("/-- control structure read from the source with `ast` (see tools/extract.py) -/")
    enc_py = os.path.join(repo, "pvl", "encoder.py")
    dec_py = os.path.join(repo, "pvl", "decoder.py")
    parts.append("def encodeDispatch : List String := %s" % lstrs(ifchain_of(enc_py, "PVLEncoder", "encode_simple_value")))
    parts.append("def encodeDateDispatch : List String := %s" % lstrs(ifchain_of(enc_py, "PVLEncoder", "encode_datetype")))
    parts.append("def datetimeFormatOrder : List String := %s"
                 % lstrs(attrs_in_order(dec_py, "PVLDecoder", "decode_datetime", "_formats")))
    parts.append("def odlZoneRegex : List String := %s" % lstrs(regex_parts(dec_py, "ODLDecoder", "decode_datetime")))
    parts.append("def odlMinuteFrag : String := %s" % json.dumps(getattr(gs[0][1], "_M_frag", "?")))
    parts.append("def decodeCascade : List String := %s" % lstrs(one(dec)[0]))
    parts.append("def decodeCascadeCatches : List String := %s" % lstrs(one(dec)[1]))
    parts.append("def moduleProductions : List String := %s" % lstrs(one(mod)[0]))
    parts.append("def moduleProductionCatches : List String := %s" % lstrs(one(mod)[1]))
    parts.append("def valueProductions : List String := %s" % lstrs(one(val)[0]))
    parts.append("def valueProductionCatches : List String := %s" % lstrs(one(val)[1]))
    parts.append("")
    parts.append("end Pvl.Gen")
    text = "\n".join(parts) + "\n"
    os.makedirs(os.path.dirname(out), exist_ok=True)
    old = None
    if os.path.exists(out):
        with open(out) as f:
            old = f.read()
    # keep mtime stable when only the hash line changed (lake rebuilds on content hash anyway)
    if old != text:
        with open(out, "w") as f:
            f.write(text)
    os.makedirs(os.path.dirname(side), exist_ok=True)
    with open(side, "w") as f:
        f.write(h + " " + out)
    summary["wall_s"] = round(time.time() - t0, 2)
    summary["casefold_entries"] = len(fold)
    print(json.dumps(summary))
    return 0


if __name__ == "__main__":
    sys.exit(main())
