#!/bin/sh
# Re-run every stored seeded change against the checks as they stand now (quick tier, the property it was
# written against).  /repo must be clean and nothing else may be using it.  Prints one line per seeded change;
# exit 1 if any is no longer detected.
cd "$(dirname "$0")/.."
miss=0
T0=$(date +%s)
BUDGET=${SEED_REGRESS_BUDGET_S:-0}   # stop starting new ones after this many seconds (0 = no limit)
for d in seeded/*/; do
  if [ "$BUDGET" -gt 0 ] && [ $(( $(date +%s) - T0 )) -gt "$BUDGET" ]; then echo "budget reached before $d"; break; fi
  id=$(basename $d)
  p=$(python3 -c "import json,sys; m=json.load(open('$d/meta.json')); print(' '.join(k for k,v in m.get('checks',{}).items() if v.get('exit')==1) or ' '.join(m.get('checks',{})))")
  [ -z "$p" ] && { echo "$id: no property recorded"; continue; }
  if ! git -C /repo apply --check "$PWD/$d/patch.diff" 2>/dev/null; then echo "$id: patch no longer applies (code fixed since)"; continue; fi
  git -C /repo apply "$PWD/$d/patch.diff"
  hit=""
  for q in $p; do
    if ./check $q --tier quick 2>&1 | grep -q "^VIOLATION"; then hit="$hit $q"; fi
  done
  git -C /repo checkout -- .
  if [ -n "$hit" ]; then echo "$id: detected by$hit"; else echo "$id: NOT DETECTED (was: $p)"; miss=1; fi
done
git checkout -- evidence
exit $miss
