#!/usr/bin/env python3
"""Re-introduce a defect that a 'fix:' commit of /repo repaired (reverse-apply that commit to the working
tree), run the named checks, restore the tree.  Records seeded/R-<hash>/{patch.diff,meta.json}.
usage: revert_test.py <commit-subject-substring> <prop> [<prop>...]"""
import json, os, subprocess, sys, time
VERIF = os.path.dirname(os.path.dirname(os.path.abspath(__file__)))


def sh(cmd, **kw):
    p = subprocess.run(cmd, shell=isinstance(cmd, str), stdout=subprocess.PIPE, stderr=subprocess.STDOUT, text=True, **kw)
    return p.returncode, p.stdout


def main():
    sub = sys.argv[1]
    props = sys.argv[2:]
    rc, log = sh("git -C /repo log --format='%h %s'")
    hit = [l for l in log.splitlines() if sub in l]
    assert len(hit) == 1, hit
    h, subject = hit[0].split(" ", 1)
    rc, st = sh("git -C /repo status --porcelain")
    assert st.strip() == "", "repo not clean"
    rc, patch = sh("git -C /repo diff %s %s~1" % (h, h))      # reverse patch
    d = os.path.join(VERIF, "seeded", "R-" + h)
    os.makedirs(d, exist_ok=True)
    pf = os.path.join(d, "patch.diff")
    open(pf, "w").write(patch)
    rc, out = sh("git -C /repo apply --3way %s" % pf)
    if rc != 0:
        sh("git -C /repo reset -q ; git -C /repo checkout -- .")
        print("reverse patch does not apply:", out[-300:])
        return 2
    sh("git -C /repo reset -q")
    meta = {"id": "R-" + h, "kind": "reverted fix commit", "commit": h, "subject": subject, "checks": {}}
    try:
        env = dict(os.environ)
        rcb, ob = sh(["/venv/bin/python", os.path.join(VERIF, "tools", "baseline.py")], timeout=900)
        meta["baseline_with_change"] = ob.strip().splitlines()[-1] if ob.strip() else ""
        for p in props:
            t0 = time.time()
            rc, out = sh([os.path.join(VERIF, "check"), p, "--tier", "quick"], cwd=VERIF, timeout=3000)
            lines = [l for l in out.splitlines() if l.startswith(("VIOLATION", "OK ", "TIMEOUT"))]
            what = None
            for l in lines:
                if l.startswith("VIOLATION"):
                    try:
                        what = json.load(open(os.path.join(VERIF, l.split("replay=")[1].split()[0]))).get("what")
                    except Exception:
                        pass
            meta["checks"][p] = {"exit": rc, "lines": [l[:160] for l in lines], "what": what,
                                 "wall_s": round(time.time() - t0, 1)}
            print(h, p, rc, [l[:140] for l in lines], what)
    finally:
        sh("git -C /repo checkout -- .")
    json.dump(meta, open(os.path.join(d, "meta.json"), "w"), indent=1)
    return 0


if __name__ == "__main__":
    sys.exit(main())
