#!/bin/sh
# run every claimed check (quick tier) and print one line each
cd "$(dirname "$0")/.."
for p in C01 C02 C03 C04 C05 C06 C07 C08 C09 C10 C11 C12 C13 C14 C15 C16 C17 C18 C19 C20; do
  ./check $p --tier ${1:-quick} 2>&1 | grep "^OK\|^VIOLATION\|^TIMEOUT" | cut -c1-160
done
