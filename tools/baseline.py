#!/venv/bin/python
"""Runs the repository's pinned test suite with the hook guard OFF and compares the result
with the 262 stable ids (tools/baseline_ids.json, copied from /root/.vp/BASELINE.json).
Exit 0 iff every stable id passes."""
import json, os, subprocess, sys, tempfile, xml.etree.ElementTree as ET

here = os.path.dirname(os.path.abspath(__file__))
ids = json.load(open(os.path.join(here, "baseline_ids.json")))["stable_pass"]
repo = os.environ.get("PVL_REPO", "/repo")
env = dict(os.environ)
env.pop("PVL_VERIF", None)
d = tempfile.mkdtemp(prefix="pvlbase_")
xmlf = os.path.join(d, "junit.xml")
try:
    p = subprocess.run(["/venv/bin/python", "-m", "pytest", "-ra", "-q", "-p", "no:cacheprovider",
                        "--timeout=900", "--continue-on-collection-errors", "--junitxml=" + xmlf],
                       cwd=repo, env=env, stdout=subprocess.PIPE, stderr=subprocess.STDOUT, text=True)
    passed, failed = set(), set()
    for tc in ET.parse(xmlf).getroot().iter("testcase"):
        tid = (tc.get("classname") or "") + "::" + (tc.get("name") or "")
        if tc.find("failure") is not None or tc.find("error") is not None:
            failed.add(tid)
        elif tc.find("skipped") is None:
            passed.add(tid)
    passed -= failed
    missing = [i for i in ids if i not in passed]
    print(p.stdout.strip().splitlines()[-1])
    print("stable ids passing: %d/%d" % (len(ids) - len(missing), len(ids)))
    for m in missing[:20]:
        print("  NOT PASSING:", m)
    sys.exit(1 if missing else 0)
finally:
    import shutil
    shutil.rmtree(d, ignore_errors=True)
