#!/usr/bin/env python3
"""Writes MANIFEST.json from the table below (kept in one place so it stays valid)."""
import json, os
here = os.path.dirname(os.path.abspath(__file__))
root = os.path.dirname(here)
props = [json.loads(l) for l in open(os.path.join(root, "properties.jsonl"))]
claims = json.load(open(os.path.join(here, "claims.json")))
checks, na = [], []
for p in props:
    pid = p["id"]
    c = claims.get(pid)
    if c and c.get("claimed") and c.get("category") == "proof":
        # a property without a theorem in its Props file is not claimed at proof level
        import re
        pf = os.path.join(root, "lean", "PvlModel", "Props", pid + ".lean")
        src = open(pf).read() if os.path.exists(pf) else ""
        if not re.search(r"^\s*theorem\s", src, re.M):
            c = dict(c, category="translation_validation")
    if c and c.get("claimed"):
        checks.append({
            "property_id": pid,
            "quick_cmd": "./check %s --tier quick" % pid,
            "thorough_cmd": "./check %s --tier thorough" % pid,
            "evidence_file": "evidence/%s.json" % pid,
            "replay_cmd_template": "./check %s --replay {path}" % pid,
            "engine": "lean-model",
            "level_claimed": {"category": c["category"], "text": c["text"], "design_ref": c.get("design_ref", "DESIGN.md §5 " + pid)},
            "level_note": c["note"],
            "technique": c["technique"],
        })
    else:
        na.append({"property_id": pid, "reason": (c or {}).get("reason", "check not built yet; see DESIGN.md §5 for the plan")})
m = {
    "version": 1,
    "setup_cmd": "./check setup",
    "hooks": {
        "guard": "PVL_VERIF",
        "enable": "no source hooks are needed: every observation uses the public API (the counting lexer goes through the public lexer_fn parameter); ./check exports PVL_VERIF=1 for uniformity",
        "baseline_off_cmd": "/venv/bin/python tools/baseline.py",
        "source_commits": [],
        "add_only": True,
    },
    "engines": [{
        "name": "lean-model",
        "path": "lean/",
        "serves_properties": [c["property_id"] for c in checks],
        "kind_free_text": "Lean 4 model (PvlModel/Model) with machine-checked property theorems (PvlModel/Props), tables regenerated from /repo by tools/extract.py, and a differential correspondence check (vlib/) that runs the compiled model driver and the real code on the same inputs",
    }],
    "checks": checks,
    "notes": "Every check: extract tables from /repo -> lake build -> #print axioms audit -> correspondence / property predicate on the real code -> evidence. known_findings.json lists recorded findings and fixed: entries.",
    "not_applicable": na,
}
json.dump(m, open(os.path.join(root, "MANIFEST.json"), "w"), indent=1)
print("claimed:", [c["property_id"] for c in checks])
