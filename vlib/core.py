"""Shared machinery of the checks: extraction, Lean build, axiom audit, the model driver,
violations / known findings / evidence.  Everything is rebuilt from /repo's working tree."""
import os, sys, json, re, subprocess, time, random, hashlib, signal, shutil

VERIF = os.path.dirname(os.path.dirname(os.path.abspath(__file__)))
REPO = os.environ.get("PVL_REPO", "/repo")
LEAN = os.path.join(VERIF, "lean")
PY = "/venv/bin/python"
ALLOWED_AXIOMS = {"propext", "Classical.choice", "Quot.sound"}
FORBIDDEN = re.compile(r"\bsorry\b|\badmit\b|^\s*axiom\s|native_decide|bv_decide|implemented_by|"
                       r"\bunsafe\s|maxHeartbeats\s+0|\bextern\b", re.M)

TRUSTED_BASE = [
    "Lean 4.33.0 kernel (thorough tier re-checks the compiled modules with leanchecker)",
    "axioms used by the property theorems: subset of {propext, Classical.choice, Quot.sound} (audited with #print axioms on every run); no native_decide / bv_decide / sorry / own axioms",
    "tools/extract.py (translator for grammar/encoder tables, char_allowed and CPython str/int/float tables; exhaustive over all 1,114,112 code points, re-expanded and compared before emission)",
    "the hand-written Lean model of the code-like parts, tied to /repo by the differential correspondence check of this run (bounded by the generators)",
    "CPython 3.12.1 for the facts the model's Python layer mirrors; python-dateutil, astropy and pint absent as in this sandbox",
    "the Python harness, line protocol and canonicalisation",
]


def repo_on_path():
    if sys.path[0] != REPO:
        sys.path.insert(0, REPO)
    import warnings
    warnings.simplefilter("ignore")


class Timeout(Exception):
    pass


def with_timer(seconds, fn, *a, **kw):
    """Run fn under a time guard (the real code has inputs that never return).  The budget is
    `seconds` of this process's own CPU time (a spinning loader burns CPU; a busy machine does not
    make a fast call look like a hang), with 10x that in wall-clock time as a backstop for a call
    that blocks without computing."""
    def h(sig, frm):
        raise Timeout()
    old = signal.signal(signal.SIGALRM, h)
    oldv = signal.signal(signal.SIGVTALRM, h)
    signal.setitimer(signal.ITIMER_VIRTUAL, seconds)
    signal.setitimer(signal.ITIMER_REAL, seconds * 10)
    try:
        return fn(*a, **kw)
    finally:
        signal.setitimer(signal.ITIMER_VIRTUAL, 0)
        signal.setitimer(signal.ITIMER_REAL, 0)
        signal.signal(signal.SIGALRM, old)
        signal.signal(signal.SIGVTALRM, oldv)


def sh(cmd, cwd=None, timeout=None, env=None):
    p = subprocess.run(cmd, cwd=cwd, stdout=subprocess.PIPE, stderr=subprocess.STDOUT,
                       text=True, timeout=timeout, env=env)
    return p.returncode, p.stdout


class Ctx:
    def __init__(self, prop, tier, seed, clean=True):
        self.prop = prop
        self.tier = tier
        self.seed = seed
        self.rng = random.Random(seed)
        self.t0 = time.time()
        self.notes = []
        self.violations = []      # list of dict(replay=path, tail=str)
        self.known_hits = []      # list of str
        self.broken = []          # names of theorems / correspondences that no longer check
        self.coverage = {}
        self.assumptions = []
        import glob
        # a run starts from an empty replay slot; a replay must of course keep the file it is given
        for f in (glob.glob(os.path.join(VERIF, "replay", "%s_*_%d.json" % (prop, seed))) if clean else []):
            try:
                os.remove(f)
            except OSError:
                pass

    def elapsed(self):
        return time.time() - self.t0

    def thorough(self):
        return self.tier == "thorough"


# ---------------------------------------------------------------- extraction / build / audit

def extract(ctx=None):
    rc, out = sh([PY, os.path.join(VERIF, "tools", "extract.py"), "--repo", REPO], timeout=600)
    last = [l for l in out.splitlines() if l.startswith("{")]
    info = json.loads(last[-1]) if last else {}
    return rc == 0, info, out


def lake_build(targets, timeout=3000):
    env = dict(os.environ)
    rc, out = sh(["lake", "build"] + list(targets), cwd=LEAN, timeout=timeout, env=env)
    errs = [l for l in out.splitlines() if "error" in l]
    return rc == 0, out, errs


def strip_comments(src):
    # remove /- ... -/ (nested) and -- ... comments
    out = []
    i, n, depth = 0, len(src), 0
    while i < n:
        if src.startswith("/-", i):
            depth += 1
            i += 2
        elif depth and src.startswith("-/", i):
            depth -= 1
            i += 2
        elif depth:
            i += 1
        elif src.startswith("--", i):
            j = src.find("\n", i)
            i = n if j < 0 else j
        else:
            out.append(src[i])
            i += 1
    return "".join(out)


def theorems_of(path):
    """Fully qualified names of the theorems declared in a Lean file."""
    src = strip_comments(open(path).read())
    ns, names = [], []
    for line in src.splitlines():
        m = re.match(r"\s*namespace\s+(\S+)", line)
        if m:
            ns.append(m.group(1))
            continue
        m = re.match(r"\s*end\s+(\S+)", line)
        if m and ns and ns[-1] == m.group(1):
            ns.pop()
            continue
        m = re.match(r"\s*(?:@\[[^\]]*\]\s*)?(?:private\s+|protected\s+)?theorem\s+(\S+)", line)
        if m:
            names.append(".".join(ns + [m.group(1)]))
    return names


def lean_sources(mods):
    """Transitive project-local imports of the given modules (file paths)."""
    seen, todo = {}, list(mods)
    while todo:
        m = todo.pop()
        if m in seen:
            continue
        p = os.path.join(LEAN, *m.split(".")) + ".lean"
        if not os.path.exists(p):
            continue
        seen[m] = p
        for line in open(p).read().splitlines():
            mm = re.match(r"\s*import\s+(\S+)", line)
            if mm and (mm.group(1).startswith("PvlModel") or mm.group(1).startswith("Driver")):
                todo.append(mm.group(1))
    return seen


def audit(prop_modules):
    """#print axioms on every theorem of the property modules + forbidden-token grep over every
    project file they import.  Returns (ok, obligations, discharged, problems, theorem_names)."""
    problems = []
    srcs = lean_sources(prop_modules)
    for m, p in srcs.items():
        if m == "PvlModel.Gen.Tables":
            continue
        hit = FORBIDDEN.search(strip_comments(open(p).read()))
        if hit:
            problems.append("forbidden token %r in %s" % (hit.group(0).strip(), m))
    names = []
    for m in prop_modules:
        names += theorems_of(srcs[m]) if m in srcs else []
    os.makedirs(os.path.join(VERIF, ".cache"), exist_ok=True)
    tag = hashlib.md5(" ".join(prop_modules).encode()).hexdigest()[:8]
    f = os.path.join(VERIF, ".cache", "audit_%s.lean" % tag)
    with open(f, "w") as fh:
        for m in prop_modules:
            fh.write("import %s\n" % m)
        for n in names:
            fh.write("#print axioms %s\n" % n)
    rc, out = sh(["lake", "env", "lean", f], cwd=LEAN, timeout=1200)
    discharged = 0
    cur = None
    seen = {}
    text = out.replace("\n  ", " ")
    for line in text.splitlines():
        m = re.match(r"'([^']+)' depends on axioms: \[(.*)\]", line)
        if m:
            ax = {a.strip() for a in m.group(2).split(",") if a.strip()}
            seen[m.group(1)] = ax
            continue
        m = re.match(r"'([^']+)' does not depend on any axioms", line)
        if m:
            seen[m.group(1)] = set()
    for n in names:
        if n not in seen:
            problems.append("theorem %s: no axiom report (does not check)" % n)
        elif not seen[n] <= ALLOWED_AXIOMS:
            problems.append("theorem %s depends on %s" % (n, sorted(seen[n] - ALLOWED_AXIOMS)))
        else:
            discharged += 1
    if rc != 0 and not problems:
        problems.append("audit file failed to elaborate: " + out[-400:])
    return (not problems), len(names), discharged, problems, names


def leanchecker(mods, timeout=3000):
    rc, out = sh(["lake", "env", "leanchecker"] + list(mods), cwd=LEAN, timeout=timeout)
    return rc == 0, out[-600:]


class Driver:
    """The compiled model driver (line protocol)."""
    exe = os.path.join(LEAN, ".lake", "build", "bin", "driver")

    def run(self, lines, timeout=1800):
        data = "\n".join(lines) + "\n"
        p = subprocess.run([self.exe], input=data, stdout=subprocess.PIPE, stderr=subprocess.PIPE,
                           text=True, timeout=timeout)
        out = p.stdout.split("\n")
        if out and out[-1] == "":
            out.pop()
        if p.returncode != 0 or len(out) != len(lines):
            raise RuntimeError("driver failed: rc=%s lines in=%d out=%d err=%s"
                               % (p.returncode, len(lines), len(out), p.stderr[-300:]))
        return out


def cps(s):
    return ",".join(str(ord(c)) for c in s) if s else "-"


def uncps(s):
    return "" if s in ("-", "") else "".join(chr(int(x)) for x in s.split(","))


# ---------------------------------------------------------------- findings / violations / evidence

def load_known():
    p = os.path.join(VERIF, "known_findings.json")
    if not os.path.exists(p):
        return {"findings": [], "fixed": []}
    return json.load(open(p))


def write_replay(ctx, name, payload):
    d = os.path.join(VERIF, "replay")
    os.makedirs(d, exist_ok=True)
    path = os.path.join(d, "%s_%s_%d.json" % (ctx.prop, name, ctx.seed))
    payload = dict(payload)
    payload.update(property=ctx.prop, seed=ctx.seed, tier=ctx.tier)
    with open(path, "w") as f:
        json.dump(payload, f, indent=1, default=str)
    return os.path.relpath(path, VERIF)


def violation(ctx, name, payload, found_input=True):
    path = write_replay(ctx, name, payload)
    ctx.violations.append({"replay": path, "no_input": not found_input,
                           "what": payload.get("what", name)})


def finish(ctx, level, obligations, discharged, checker_cmd, extra_cov, assumptions):
    cov = dict(extra_cov)
    try:   # the level claimed in MANIFEST.json comes from tools/claims.json; evidence uses the same
        claims = json.load(open(os.path.join(VERIF, "tools", "claims.json")))
        level = claims.get(ctx.prop, {}).get("category", level)
    except Exception:
        pass
    if level == "other":
        cov.setdefault("explanation", "property predicate evaluated on the real code for every generated case; "
                                      "see 'rule'")
    if level == "proof" and obligations == 0:
        # no theorem is stated for this property yet: what the run did is validate the model against
        # the code and judge the property's predicate on the real code, so say exactly that
        level = "translation_validation"
        cov.setdefault("explanation", "no property theorem yet; model-vs-implementation correspondence and the "
                                      "property predicate evaluated on the real code for every generated case")
    if level == "translation_validation":
        cov.setdefault("programs", cov.get("evaluations", 0))
        cov.setdefault("disagreements_checked", cov.get("evaluations", 0))
        cov.setdefault("explanation", "theorems cover part of the statement only (listed under 'theorems'); the "
                                      "property as a whole rests on model-vs-implementation correspondence and the "
                                      "property predicate evaluated on the real code for every generated case")
    cov.setdefault("obligations", obligations)
    cov.setdefault("discharged", discharged)
    cov.setdefault("checker_cmd", checker_cmd)
    cov.setdefault("trusted_base", TRUSTED_BASE)
    ev = {
        "property_id": ctx.prop,
        "tier": ctx.tier,
        "seed": ctx.seed,
        "level": level,
        "coverage": cov,
        "assumptions": assumptions,
        "wall_s": round(ctx.elapsed(), 2),
        "violations": len(ctx.violations),
        "known_findings_reconfirmed": ctx.known_hits,
        "notes": ctx.notes,
    }
    os.makedirs(os.path.join(VERIF, "evidence"), exist_ok=True)
    with open(os.path.join(VERIF, "evidence", ctx.prop + ".json"), "w") as f:
        json.dump(ev, f, indent=1, default=str)
    for k in ctx.known_hits:
        print("KNOWN-FINDING: property=%s %s" % (ctx.prop, k))
    for v in ctx.violations:
        tail = " no-failing-input-found" if v["no_input"] else ""
        print("VIOLATION property=%s replay=%s%s" % (ctx.prop, v["replay"], tail))
    if ctx.violations:
        return 1
    print("OK property=%s tier=%s seed=%d obligations=%d/%d evaluations=%s wall=%.1fs"
          % (ctx.prop, ctx.tier, ctx.seed, discharged, obligations,
             cov.get("evaluations"), ctx.elapsed()))
    return 0


def standard_lean_phase(ctx, prop_modules, extra_targets=("driver",)):
    """extract -> build -> audit.  Returns dict(ok, obligations, discharged, problems)."""
    ok, info, out = extract(ctx)
    res = {"ok": True, "obligations": 0, "discharged": 0, "problems": [], "names": []}
    if not ok:
        res["ok"] = False
        res["problems"].append("extractor failed: " + out[-500:])
        return res
    ctx.notes.append("extract: %s" % json.dumps({k: info.get(k) for k in ("cached", "hash", "wall_s")}))
    okb, outb, errs = lake_build(list(prop_modules) + list(extra_targets))
    if not okb:
        res["ok"] = False
        res["problems"].append("lake build failed: " + " | ".join(errs[:6]))
        # still try to count what checks
    oka, nobl, ndis, problems, names = audit(prop_modules) if okb else (False, 0, 0, [], [])
    if okb and not oka:
        res["ok"] = False
        res["problems"] += problems
    res["obligations"], res["discharged"], res["names"] = nobl, ndis, names
    if okb and ctx.thorough():
        okc, outc = leanchecker(prop_modules)
        ctx.notes.append("leanchecker: %s" % ("ok" if okc else "FAILED " + outc))
        if not okc:
            res["ok"] = False
            res["problems"].append("leanchecker rejected the compiled modules: " + outc)
    return res
