"""Development-time differential exploration: model vs real code on generated strings.
usage: python -m vlib.explore <what> [maxlen] [limit]"""
import sys, json, itertools, random, multiprocessing as mp
from . import core
from . import pvlio as io

ALPHA = ["a", "E", "N", "1", "2", "0", "6", "#", "=", "/", "*", '"', "'", "<", ">", "-", "+", "e", ".",
         ":", "(", ")", "{", "}", ",", ";", " ", "\n", "T", "Z", "_", "\x00", "\x01", "\xe9", "٣"]

FRAGS = ["a", "b", "=", " ", "\n", "1", "-5", "+3", "2.5", "1e5", "1E-3", "16#FF#", "2#101#", "-2#1#", "2#-1#",
         "10#9#", "\"x y\"", "'q'", "\"", "'", "(", ")", "{", "}", ",", ";", "<m>", "<", ">", "< km/s >",
         "/* c */", "/*", "*/", "# c\n", "#", "GROUP", "END_GROUP", "OBJECT", "END_OBJECT", "BEGIN_GROUP",
         "BEGIN_OBJECT", "END", "end", "Group", "End_Group", "NULL", "TRUE", "false", "g", "h",
         "2001-01-01", "2001-001", "10:00", "10:00:60", "2001-01-01T10:00:00.5Z", "10:00+01", "10:00-0530",
         "2001-01-01+01", "x-\n y", "-\n", "\t", "\r\n", "*", "/", "a*/", "^P", "N:S", "\x01", "\xe9", "☃"]


def work_parse(args):
    cfg, text = args
    p = io.make_parser(cfg)
    return io.real_parse(p, text, timeout=2.0)


def work_lex(args):
    g, text = args
    return io.real_lex(g, text)


def work_tok(args):
    g, text = args
    return io.real_tokpred(g, text), io.real_decode(g, text)


def gen_strings(alpha, maxlen, limit, rng):
    out = []
    for n in range(0, maxlen + 1):
        for t in itertools.product(alpha, repeat=n):
            out.append("".join(t))
    if limit and len(out) > limit:
        out = rng.sample(out, limit)
    return out


def main():
    what = sys.argv[1]
    maxlen = int(sys.argv[2]) if len(sys.argv) > 2 else 2
    limit = int(sys.argv[3]) if len(sys.argv) > 3 else 0
    rng = random.Random(1)
    drv = core.Driver()
    bad = 0
    if what == "parse":
        texts = gen_strings(FRAGS, maxlen, limit, rng)
        for _ in range(limit or 2000):
            texts.append(" ".join(rng.choice(FRAGS) for _ in range(rng.randrange(1, 12))))
            texts.append("".join(rng.choice(FRAGS) for _ in range(rng.randrange(1, 9))))
        cases = [(c, t) for t in texts for c in io.CONFIGS]
        with mp.Pool(16) as pool:
            reals = pool.map(work_parse, cases, chunksize=200)
        outs = drv.run([io.model_parse_line(c, t) for c, t in cases])
        for (c, t), r, o in zip(cases, reals, outs):
            m = json.loads(o)
            if not io.outcome_equal(r, m):
                bad += 1
                if bad <= 25:
                    print("DIFF", c, repr(t), "\n  real ", json.dumps(r)[:300], "\n  model", json.dumps(m)[:300])
        print("parse cases", len(cases), "bad", bad)
    elif what == "lex":
        texts = gen_strings(ALPHA, maxlen, limit, rng)
        for _ in range(3000):
            texts.append("".join(rng.choice(FRAGS + ALPHA) for _ in range(rng.randrange(1, 10))))
        cases = [(g, t) for t in texts for g in io.DECODERS]
        with mp.Pool(16) as pool:
            reals = pool.map(work_lex, cases, chunksize=500)
        outs = drv.run(["lex %s %s %s" % (io.DECODERS[g][2][0], io.DECODERS[g][2][1], core.cps(t)) for g, t in cases])
        for (g, t), r, o in zip(cases, reals, outs):
            m = json.loads(o)
            mt = {"tokens": [[a, b] for a, b, _ in m["tokens"]], "tail": m["tail"]}
            if mt != r:
                bad += 1
                if bad <= 25:
                    print("DIFF", g, repr(t), "\n  real ", json.dumps(r)[:300], "\n  model", json.dumps(mt)[:300])
        print("lex cases", len(cases), "bad", bad)
    elif what == "tok":
        texts = gen_strings(ALPHA, maxlen, limit, rng) + FRAGS
        for _ in range(3000):
            texts.append("".join(rng.choice(FRAGS + ALPHA) for _ in range(rng.randrange(1, 4))))
        cases = [(g, t) for t in texts for g in io.DECODERS]
        with mp.Pool(16) as pool:
            reals = pool.map(work_tok, cases, chunksize=500)
        lines = []
        for g, t in cases:
            gg, dd = io.DECODERS[g][2]
            lines.append("tokpred %s %s %s" % (gg, dd, core.cps(t)))
            lines.append("decode %s %s %s" % (gg, dd, core.cps(t)))
        outs = drv.run(lines)
        for i, ((g, t), (rp, rd)) in enumerate(zip(cases, reals)):
            mp_ = json.loads(outs[2 * i])
            md = json.loads(outs[2 * i + 1])
            md = io.canon(md) if "t" in md else md
            if mp_ != rp or md != rd:
                bad += 1
                if bad <= 25:
                    diff = {k: (rp[k], mp_[k]) for k in rp if rp[k] != mp_.get(k)}
                    print("DIFF", g, repr(t), diff, "\n  real ", json.dumps(rd)[:200], "\n  model", json.dumps(md)[:200])
        print("tok cases", len(cases), "bad", bad)


if __name__ == "__main__":
    main()
