"""Shared machinery of the loader-side properties (C03-C08, C15, C16, C18, C19):
case generation, parallel evaluation of the real loaders, the model's outcome for the same text."""
import json, itertools, multiprocessing as mp, os, glob
from . import core, gen
from . import pvlio as io

CFGS = list(io.CONFIGS)
ALPHA6 = ["a", "E", "1", "6", "#", "=", "/", "*", '"', "<", ">", "-", "+", "e", ":", "(", ")", "{", "}",
          ",", ";", " ", "\n", "\x01"]
FRAGS = ["a", "b", "=", " ", "\n", "1", "-5", "+3", "2.5", "1e5", "16#FF#", "2#101#", "-2#1#", "2#-1#", "10#9#",
         "\"x y\"", "'q'", "\"", "'", "(", ")", "{", "}", ",", ";", "<m>", "<", ">", "< km/s >", "<>", "<  >", "/* c */", "/*",
         "*/", "# c\n", "#", "GROUP", "END_GROUP", "OBJECT", "END_OBJECT", "BEGIN_GROUP", "BEGIN_OBJECT", "END",
         "end", "Group", "End_Group", "NULL", "TRUE", "false", "g", "h", "2001-01-01", "2001-001", "10:00",
         "10:00:60", "2001-01-01T10:00:00.5Z", "10:00+01", "10:00-0530", "2001-01-01+01", "x-\n y", "-\n",
         "\t", "\r\n", "*", "/", "a*/", "^P", "N:S", "\x01", "\xe9", "☃", "<a<b>", "<m", "\"open", "="]


def _work(args):
    cfg, text = args
    return io.real_parse(io.make_parser(cfg), text, timeout=2.0)


def eval_real(cases, procs=16):
    """cases: list of (cfg, text) -> list of real outcomes"""
    if len(cases) < 200:
        return [_work(c) for c in cases]
    with mp.Pool(procs) as pool:
        return pool.map(_work, cases, chunksize=max(1, len(cases) // (procs * 8)))


def eval_model(drv, cases):
    outs = drv.run([io.model_parse_line(c, t) for c, t in cases])
    return [json.loads(o) for o in outs]


def corpus_texts():
    out = []
    d = os.path.join(core.REPO, "tests", "data")
    for p in sorted(glob.glob(os.path.join(d, "**", "*"), recursive=True)):
        if os.path.isfile(p) and not p.endswith(".cub"):
            try:
                t = io.pvl.get_text_from(p)
            except Exception:
                continue
            if len(t) < 6000:
                out.append((os.path.relpath(p, d), t))
    return out


def short_strings(alpha, maxlen):
    for n in range(0, maxlen + 1):
        for t in itertools.product(alpha, repeat=n):
            yield "".join(t)


def frag_strings(rng, n, maxparts=12):
    out = []
    for _ in range(n):
        k = rng.random()
        parts = [rng.choice(FRAGS) for _ in range(rng.randrange(1, maxparts))]
        out.append((" " if k < 0.6 else "").join(parts))
    return out


def spelled(rng, dialect, n):
    """n well-formed labels for the dialect: (text, stmts, expected module)"""
    g = gen.Gen(rng, dialect)
    out = []
    for _ in range(n):
        stmts, m = g.document()
        out.append((g.render(stmts), stmts, m))
    return out


def damaged(rng, dialect, n):
    g = gen.Gen(rng, dialect)
    out = []
    for _ in range(n):
        stmts, m = g.document()
        qs = [(si, ti) for si, st in enumerate(stmts) for ti, tk in enumerate(st)
              if len(tk) >= 2 and tk[0] in "\"'" and tk[-1] == tk[0]]
        if qs and rng.random() < 0.2:
            # a quoted string loses one of its quote characters; the text may then end in a quoted string of the
            # other kind, directly at the end of the text (the unterminated string runs up to a quote character
            # that is not its own)
            stmts = [list(st) for st in stmts]
            si, ti = rng.choice(qs)
            tk = stmts[si][ti]
            stmts[si][ti] = tk[:-1] if rng.random() < 0.7 else tk[1:]
            text = g.render(stmts)
            k = rng.random()
            if k < 0.6:
                other = "'" if tk[0] == '"' else '"'
                text = text.rstrip() + rng.choice(["\n", " ", "\r\n"]) + "Zq = " + other + rng.choice(["third", "", "a b"]) + other
            elif k < 0.8:
                text = text.rstrip()
            out.append((text, stmts, "unquote"))
            continue
        for _ in range(rng.choice([1, 1, 1, 2, 3])):
            stmts, kind = gen.damage(rng, stmts)
        out.append((g.render(stmts), stmts, kind))
    return out


def outcome_class(o):
    return "ok" if "ok" in o else o["fail"]["err"]


def load_corpus(name):
    p = os.path.join(core.VERIF, "corpus", name)
    out = []
    if os.path.exists(p):
        for line in open(p):
            line = line.strip()
            if line and not line.startswith("#"):
                out.append(json.loads(line))
    return out


def shrink_text(text, still_bad, max_steps=400):
    """delta-debug a text (remove chunks, then single characters) while still_bad(text)."""
    cur = text
    steps = 0
    n = 2
    while len(cur) >= 2 and steps < max_steps:
        chunk = max(1, len(cur) // n)
        progressed = False
        i = 0
        while i < len(cur) and steps < max_steps:
            cand = cur[:i] + cur[i + chunk:]
            steps += 1
            if cand != cur and still_bad(cand):
                cur = cand
                progressed = True
            else:
                i += chunk
        if not progressed:
            if chunk == 1:
                break
            n = min(len(cur), n * 2)
    return cur
