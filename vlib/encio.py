"""Encoder side of the correspondence: real encoders vs the Lean encoder model."""
import copy, json, datetime
from . import core
from . import pvlio as io
from .pvlio import PVLModule, PVLGroup, PVLObject, Quantity, EmptyValueAtLine, E, G, D

ENCODERS = {
    # name: (class, model kind, model grammar, model decoder, default kwargs)
    "PVL": (E.PVLEncoder, "pvl", "pvl", "pvl"),
    "ODL": (E.ODLEncoder, "odl", "odl", "odl"),
    "PDS3": (E.PDSLabelEncoder, "pds", "pds", "pds"),
    "ISIS": (E.ISISEncoder, "isis", "isis", "pvl"),
}
# strict parser configuration that reads an encoder's own dialect (C01)
STRICT_OF = {"PVL": "PVL", "ODL": "ODL", "PDS3": "PDS3", "ISIS": "ISIS"}


def make_encoder(name, cfg):
    return ENCODERS[name][0](**cfg)


def effective_cfg(name, cfg):
    e = make_encoder(name, cfg)
    return dict(indent=e.indent, width=e.width, aggregation_end=e.aggregation_end,
                end_delimiter=e.end_delimiter, newline=e.newline,
                convert=getattr(e, "convert_group_to_object", True), tab_replace=getattr(e, "tab_replace", 4),
                symq=getattr(e, "symbol_single_quote", True), tz=getattr(e, "time_trailing_z", True))


def cfg_tokens(name, cfg):
    c = effective_cfg(name, cfg)
    _, kind, g, d = ENCODERS[name]
    bit = lambda x: "1" if x else "0"
    return "%s %s %s %d %d %s %s %s %s %d %s %s" % (
        kind, g, d, c["indent"], c["width"], bit(c["aggregation_end"]), bit(c["end_delimiter"]),
        core.cps(c["newline"]), bit(c["convert"]), c["tab_replace"], bit(c["symq"]), bit(c["tz"]))


def tz_tok(v):
    s = io.tzsec(v)
    return "-" if s is None else str(s)


def val_tokens(v):
    """Python value -> prefix tokens for the driver (sets in iteration order)."""
    if v is None: return ["N"]
    if isinstance(v, bool): return ["B1" if v else "B0"]
    if isinstance(v, int): return ["I", str(v)]
    if isinstance(v, float): return ["R", core.cps(str(v))]
    if isinstance(v, EmptyValueAtLine): return ["Y", str(v.lineno)]
    if isinstance(v, str): return ["S", core.cps(v)]
    if isinstance(v, datetime.datetime):
        return ["X"] + [str(x) for x in (v.year, v.month, v.day, v.hour, v.minute, v.second, v.microsecond)] + [tz_tok(v)]
    if isinstance(v, datetime.date): return ["D", str(v.year), str(v.month), str(v.day)]
    if isinstance(v, datetime.time):
        return ["T"] + [str(x) for x in (v.hour, v.minute, v.second, v.microsecond)] + [tz_tok(v)]
    if isinstance(v, Quantity): return ["Q"] + val_tokens(v.value) + [core.cps(str(v.units))]
    if isinstance(v, list):
        out = ["L", str(len(v))]
        for x in v: out += val_tokens(x)
        return out
    if isinstance(v, (set, frozenset)):
        l = list(v)
        out = ["F" if isinstance(v, frozenset) else "E", str(len(l))]
        for x in l: out += val_tokens(x)
        return out
    if isinstance(v, PVLGroup): k = "G"
    elif isinstance(v, PVLModule): k = "M"
    else: k = "O"
    items = list(v)
    out = ["C", k, str(len(items))]
    for kk, vv in items:
        out.append(core.cps(kk))
        out += val_tokens(vv)
    return out


def model_line(name, cfg, module):
    return "encode %s %s" % (cfg_tokens(name, cfg), " ".join(val_tokens(module)))


def real_encode(name, cfg, module):
    """-> (outcome json, module after the call as json)"""
    try:
        enc = make_encoder(name, cfg)
    except Exception as e:
        return {"fail": "ctor:" + type(e).__name__}, io.py_to_j(module)
    try:
        s = core.with_timer(5.0, enc.encode, module)
        out = {"ok": [ord(c) for c in s]}
    except (ValueError, TypeError) as e:
        out = {"fail": type(e).__name__}
    except BaseException as e:  # noqa
        if isinstance(e, (KeyboardInterrupt, SystemExit)):
            raise
        out = {"fail": type(e).__name__}
    return out, io.py_to_j(module)


def out_equal(real, model):
    if "ok" in real:
        return model.get("ok") == real["ok"]
    return model.get("fail") == real["fail"]


def text_of(out):
    return "".join(chr(c) for c in out["ok"])
