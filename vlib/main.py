import sys, os, importlib, argparse, traceback, subprocess
from . import core


def main():
    ap = argparse.ArgumentParser()
    ap.add_argument("prop")
    ap.add_argument("--tier", default=os.environ.get("VERIF_TIER", "quick"))
    ap.add_argument("--replay", default=None)
    ap.add_argument("--seed", type=int, default=None)
    a = ap.parse_args()
    seed = a.seed if a.seed is not None else int(os.environ.get("VERIF_SEED", "0") or 0)
    tier = a.tier if a.tier in ("quick", "thorough") else "quick"
    if a.prop == "setup":
        return setup()
    ctx = core.Ctx(a.prop, tier, seed, clean=not a.replay)
    core.repo_on_path()
    try:
        mod = importlib.import_module("vlib.props." + a.prop.lower())
    except ModuleNotFoundError:
        print("no check for", a.prop)
        return 2
    try:
        if a.replay:
            return mod.replay(ctx, a.replay)
        return mod.run(ctx)
    except subprocess.TimeoutExpired:
        print("TIMEOUT", a.prop)
        return 2
    except core.Timeout:
        print("TIMEOUT", a.prop)
        return 2


def setup():
    ok, info, out = core.extract()
    print(out.strip()[-400:])
    if not ok:
        return 1
    okb, outb, errs = core.lake_build(["PvlModel", "driver"])
    print("\n".join(outb.splitlines()[-5:]))
    return 0 if okb else 1


if __name__ == "__main__":
    sys.exit(main())
