"""Generators: abstract documents, concrete spellings with free layout (with the expected
tree fixed by the generator from the PVL/ODL specifications, not by pvl), token-level damage,
and Python-object modules for the encoder-side properties.  One PRNG per run."""
import datetime, random
from .pvlio import PVLModule, PVLGroup, PVLObject, Quantity

UTC = datetime.timezone.utc

# dialect traits used by the spelling generator
TRAITS = {
    #        radix style, default utc, zone offsets, '#' comments, fold strings, odl identifiers, begin_ kw, frozenset
    "PVL": dict(nd="pvl", utc=True, zones=False, hash=False, fold=False, ident=False, begin=True, fs=True),
    "ODL": dict(nd="odl", utc=False, zones=True, hash=False, fold=True, ident=True, begin=True, fs=False),
    "PDS3": dict(nd="odl", utc=True, zones=False, hash=False, fold=True, ident=True, begin=True, fs=False),
    "ISIS": dict(nd="pvl", utc=True, zones=True, hash=True, fold=True, ident=False, begin=False, fs=True),
    "OMNI": dict(nd="omni", utc=True, zones=True, hash=True, fold=True, ident=False, begin=True, fs=True),
}

WS = [" ", "  ", "\t", "\n", "\r\n", " \n ", "\f", "\v", "   \t "]
LETTERS = "abcdefghijklmnopqrstuvwxyzABCDEFGHIJKLMNOPQRSTUVWXYZ"
DIGITS = "0123456789"


def fold_spec(s):
    """ODL string folding written from PDS3 SR 12.5.3.1: a hyphen at a line end joins the lines
    (dropping leading white space of the next line); runs of white space become one blank; leading
    and trailing white space is dropped."""
    ws = " \t\n\r\v\f"
    out, i = [], 0
    while i < len(s):
        if s[i] == "-" and i + 1 < len(s) and s[i + 1] in "\n\r\v\f":
            i += 2
            while i < len(s) and s[i] in ws:
                i += 1
        else:
            out.append(s[i]); i += 1
    t = "".join(out).strip(ws)
    res, prev = [], False
    for ch in t:
        if ch in ws:
            if not prev:
                res.append(" ")
            prev = True
        else:
            res.append(ch); prev = False
    return "".join(res)


class Gen:
    def __init__(self, rng, dialect):
        self.r = rng
        self.dialect = dialect
        self.t = TRAITS[dialect]

    # ---------------------------------------------------------------- names
    def ident(self, maxlen=10):
        r = self.r
        if maxlen >= 7 and r.random() < 0.02:
            # words that some number classes accept although float() does not (Decimal: NaN with a payload,
            # signalling NaN), or that merely look like numbers
            return r.choice(["Nan4", "sNaN", "snan1", "NaN123", "Infinity1", "INF0", "e5", "E10", "x1e5", "n2"])
        n = r.randrange(1, maxlen + 1)
        s = r.choice(LETTERS) + "".join(r.choice(LETTERS + DIGITS + "_") for _ in range(n - 1))
        if s.endswith("_"):
            s = s[:-1] + "x"
        if s.upper() in ("END", "GROUP", "OBJECT", "NULL", "TRUE", "FALSE", "END_GROUP", "END_OBJECT",
                         "BEGIN_GROUP", "BEGIN_OBJECT", "NAN", "INF", "INFINITY"):
            # keywords, and the three words Python's float() reads as numbers (recorded under C17)
            s += "1"
        return s

    def name(self):
        r = self.r
        k = r.random()
        if k < 0.75:
            return self.ident()
        if k < 0.85:
            return "^" + self.ident(6) if not self.t["ident"] or True else self.ident()
        if k < 0.95:
            return self.ident(5) + ":" + self.ident(5)
        return self.ident(30)

    # ---------------------------------------------------------------- literals: (text, value)
    def lit_int(self):
        r = self.r
        k = r.random()
        if k < 0.5:
            n = r.choice([0, 1, 7, 10, 255, 1000, 2 ** 31, 10 ** 20, r.randrange(0, 10 ** 6)])
            sg = r.choice(["", "", "+", "-"])
            txt = sg + (str(n) if r.random() < 0.9 else "00" + str(n))
            return txt, (-n if sg == "-" else n)
        nd = self.t["nd"]
        if nd == "pvl":
            radix = r.choice([2, 8, 16])
        else:
            radix = r.choice([2, 3, 8, 10, 12, 16])
        digs = "0123456789ABCDEF"[:radix]
        body = "".join(r.choice(digs) for _ in range(r.randrange(1, 9)))
        if radix > 10 and r.random() < 0.5:
            body = body.lower()
        sg = r.choice(["", "", "+", "-"])
        val = int(body, radix) * (-1 if sg == "-" else 1)
        if nd == "pvl":
            return "%s%d#%s#" % (sg, radix, body), val
        if nd == "odl":
            return "%d#%s%s#" % (radix, sg, body), val
        if r.random() < 0.5:
            return "%s%d#%s#" % (sg, radix, body), val
        return "%d#%s%s#" % (radix, sg, body), val

    def lit_real(self):
        r = self.r
        ip = str(r.choice([0, 1, 12, 999, r.randrange(0, 10 ** 5)]))
        fp = "".join(r.choice(DIGITS) for _ in range(r.randrange(1, 7)))
        mant = r.choice([ip + "." + fp, ip + "." + fp, "." + fp, ip + ".", ip])
        if mant == ip or r.random() < 0.4:
            mant += r.choice("eE") + r.choice(["", "+", "-"]) + str(r.randrange(0, 30))
        body = mant
        sg = r.choice(["", "", "+", "-"])
        txt = sg + body
        return txt, float(txt)

    def str_body(self, quote):
        r = self.r
        k = r.random()
        pool = LETTERS + DIGITS + " _-.:/*()<>{}[],;=#+&%!~|^@$?" + ("'" if quote == '"' else '"')
        if k < 0.5:
            s = "".join(r.choice(pool) for _ in range(r.randrange(0, 14)))
        elif k < 0.7:
            s = r.choice(["NULL", "true", "End", "GROUP", "2001-01-01", "10:00", "1.5", "16#FF#", "-7", "inf",
                          "", " ", "a b", "x-", "/* c */", "# c", "a  b", " lead", "trail ", "= 5"])
        elif k < 0.85:
            s = " ".join("".join(r.choice(LETTERS) for _ in range(r.randrange(1, 8)))
                         for _ in range(r.randrange(1, 6)))
            if r.random() < 0.4:
                s = s.replace(" ", r.choice(["\n", "\r\n  ", "-\n   ", "- \n ", " -\t\r\n", "-  \n", "\t", "  "]), 1)
        else:
            s = "".join(r.choice(pool + "\n\t") for _ in range(r.randrange(0, 20)))
        if self.dialect in ("ODL", "PDS3"):
            s = "".join(c for c in s if ord(c) < 128)
        elif r.random() < 0.1:
            s += r.choice(["\xe9", "\xb5m", "\xdf"])
        return s.replace(quote, "")

    def lit_qstr(self):
        q = self.r.choice(['"', "'"])
        s = self.str_body(q)
        return q + s + q, (fold_spec(s) if self.t["fold"] else s)

    def lit_ustr(self):
        r = self.r
        if self.t["ident"] or r.random() < 0.6:
            s = self.ident()
        else:
            s = self.ident(4) + r.choice(["-", ".", ":", "_", "/", "$", "@", "?", "^"]) + self.ident(4)
        return s, s

    def lit_kw(self):
        r = self.r
        w, v = r.choice([("NULL", None), ("TRUE", True), ("FALSE", False)])
        form = r.choice([w, w.lower(), w.title(), "".join(r.choice([c.lower(), c]) for c in w)])
        return form, v

    def lit_date(self):
        r = self.r
        y = r.choice([1, 999, 1000, 1999, 2000, 2020, 2024, 9999, r.randrange(1, 10000)])
        leap = (y % 4 == 0 and y % 100 != 0) or y % 400 == 0
        if r.random() < 0.5:
            m = r.randrange(1, 13)
            dim = [31, 29 if leap else 28, 31, 30, 31, 30, 31, 31, 30, 31, 30, 31][m - 1]
            d = r.choice([1, dim, r.randrange(1, dim + 1)])
            txt = "%04d-%02d-%02d" % (y, m, d)
            val = datetime.date(y, m, d)
        else:
            j = r.choice([1, 59, 60, 365, 366 if leap else 365, r.randrange(1, 366)])
            txt = "%04d-%03d" % (y, j)
            val = datetime.date(y, 1, 1) + datetime.timedelta(days=j - 1)
        return txt, val

    def time_part(self):
        r = self.r
        h, mi = r.choice([0, 9, 23, r.randrange(24)]), r.choice([0, 59, r.randrange(60)])
        k = r.random()
        if k < 0.3:
            txt, s, us = "%02d:%02d" % (h, mi), 0, 0
        elif k < 0.6:
            s = r.choice([0, 59, r.randrange(60)])
            txt, us = "%02d:%02d:%02d" % (h, mi, s), 0
        else:
            s = r.randrange(60)
            nd = r.randrange(1, 7) if self.dialect != "PDS3" else r.randrange(1, 4)
            frac = "".join(r.choice(DIGITS) for _ in range(nd))
            us = int(frac.ljust(6, "0"))
            txt = "%02d:%02d:%02d.%s" % (h, mi, s, frac)
        # zone
        tz = UTC if self.t["utc"] else None
        z = r.random()
        if z < 0.3:
            txt += "Z"; tz = UTC
        elif z < 0.5 and self.t["zones"]:
            sign = r.choice("+-")
            hh = r.randrange(0, 13)
            mm = r.choice([None, 0, 30, 45])
            off = datetime.timedelta(hours=hh, minutes=mm or 0)
            txt += sign + (("%02d" % hh) if r.random() < 0.7 or mm is not None else str(hh))
            if mm is not None:
                txt += "%02d" % mm
            tz = datetime.timezone(-off if sign == "-" else off)
        return txt, (h, mi, s, us), tz

    def lit_time(self):
        txt, (h, mi, s, us), tz = self.time_part()
        return txt, datetime.time(h, mi, s, us, tzinfo=tz)

    def lit_datetime(self):
        dt, dv = self.lit_date()
        tt, (h, mi, s, us), tz = self.time_part()
        return dt + "T" + tt, datetime.datetime(dv.year, dv.month, dv.day, h, mi, s, us, tzinfo=tz)

    def scalar(self):
        r = self.r
        k = r.random()
        if k < 0.22: return self.lit_int()
        if k < 0.36: return self.lit_real()
        if k < 0.54: return self.lit_qstr()
        if k < 0.70: return self.lit_ustr()
        if k < 0.78: return self.lit_kw()
        if k < 0.86: return self.lit_date()
        if k < 0.93: return self.lit_time()
        return self.lit_datetime()

    # ---------------------------------------------------------------- values as token lists
    # a value spelling is (tokens, pyvalue); tokens are strings; "opt-gap" markers are handled by layout
    def units(self):
        r = self.r
        u = r.choice(["m", "km/s", "deg", "W*m**-2", "m s", "percent", "K"])
        pad = r.choice(["", "", " ", "  "])
        return "<" + pad + u + pad + ">", u

    def value(self, depth=0):
        r = self.r
        k = r.random()
        odl = self.dialect in ("ODL", "PDS3")
        if k < 0.68 or depth > 3:
            txt, v = self.scalar()
            toks = [txt]
            if r.random() < 0.15 and (not odl or isinstance(v, (int, float)) and not isinstance(v, bool)
                                      or (odl and isinstance(v, bool))):
                ut, u = self.units()
                toks.append(ut)
                v = Quantity(v, u)
            return toks, v
        if k < 0.86:
            n = r.choice([0, 1, 2, 3, 5])
            toks, vals = ["("], []
            for i in range(n):
                t2, v2 = self.value(depth + 1)
                if i:
                    toks.append(",")
                toks += t2
                vals.append(v2)
            toks.append(")")
            v = vals
            if not odl and r.random() < 0.1:
                ut, u = self.units()
                toks.append(ut)
                v = Quantity(vals, u)
            return toks, v
        n = r.choice([0, 1, 2, 4])
        toks, vals = ["{"], []
        for i in range(n):
            if odl or r.random() < 0.8:
                t2s, v2 = self.scalar()
                t2 = [t2s]
            else:
                t2, v2 = self.value(depth + 1)
            try:
                hash(v2)
            except TypeError:
                t2s, v2 = self.scalar()
                t2 = [t2s]
            if i:
                toks.append(",")
            toks += t2
            vals.append(v2)
        toks.append("}")
        return toks, (frozenset(vals) if self.t["fs"] else set(vals))

    # ---------------------------------------------------------------- statements
    def kwcase(self, w):
        r = self.r
        k = r.random()
        if k < 0.5: return w
        if k < 0.7: return w.lower()
        if k < 0.85: return w.title()
        return "".join(r.choice([c.lower(), c.upper()]) for c in w)

    def statements(self, depth=0, n=None):
        """-> (list of statements, container items). A statement is a list of tokens."""
        r = self.r
        n = r.randrange(0, 6) if n is None else n
        stmts, items = [], []
        pool = [self.name() for _ in range(3)]
        for _ in range(n):
            k = r.random()
            if k < 0.75 or depth >= 3:
                key = r.choice(pool) if r.random() < 0.25 else self.name()
                vt, v = self.value()
                st = [key, "="] + vt
                if r.random() < 0.4:
                    st.append(";")
                stmts.append(st)
                items.append((key, v))
            else:
                grp = r.random() < 0.5
                base = "GROUP" if grp else "OBJECT"
                beg = ("BEGIN_" + base) if (self.t["begin"] and r.random() < 0.4) else base
                bname = self.ident()
                inner_st, inner_items = self.statements(depth + 1, r.randrange(1, 4))
                st = [self.kwcase(beg), "=", bname]
                if r.random() < 0.3:
                    st.append(";")
                stmts.append(st)
                stmts += inner_st
                en = [self.kwcase("END_" + base)]
                if r.random() < 0.5:
                    en += ["=", bname]
                if r.random() < 0.3:
                    en.append(";")
                stmts.append(en)
                items.append((bname, (PVLGroup if grp else PVLObject)(inner_items)))
        return stmts, items

    def document(self):
        r = self.r
        stmts, items = self.statements(0, r.randrange(0, 7))
        end = r.random()
        if end < 0.7:
            e = [self.kwcase("END")]
            if r.random() < 0.3:
                e.append(";")
            stmts.append(e)
        return stmts, PVLModule(items)

    # ---------------------------------------------------------------- layout
    def comment(self):
        r = self.r
        body = "".join(r.choice(LETTERS + " =;,(){}<>\"'#1-") for _ in range(r.randrange(0, 12)))
        for ch in getattr(self, "_avoid", ""):
            body = body.replace(ch, "")
        if self.t["hash"] and r.random() < 0.4:
            # a '-' at the end of a line is the dialect's continuation mark, also inside a comment
            return "#" + body.replace("/", "").replace("*", "").rstrip("-") + "\n", True
        return "/*" + body.replace("*/", "") + "*/", False

    def gap(self, required, after_token=True):
        """A run of white space and comments; may be empty when not required."""
        r = self.r
        if not required and r.random() < 0.5:
            return ""
        parts = [r.choice(WS)]
        for _ in range(r.choice([0, 0, 0, 1, 2])):
            c, is_hash = self.comment()
            # '#' comments are set off from the preceding token by white space; it already is
            parts.append(c)
            parts.append(r.choice(WS) if (r.random() < 0.7 or is_hash) else "")
            if not parts[-1] and not is_hash and r.random() < 0.5:
                parts[-1] = ""
        return "".join(parts)

    def render_pos(self, stmts, layout_rng=None, comment_free_of=""):
        """like render, but also returns the offset of every token: (text, [(token, offset)])"""
        self._avoid = comment_free_of
        try:
            text = self.render(stmts, layout_rng, _record=True)
            return text, self._offsets
        finally:
            self._avoid = ""

    def render(self, stmts, layout_rng=None, _record=False):
        """Join tokens with gaps: optional around = , ( ) { } ; and before <units>,
        required elsewhere (between two word-like tokens / statements)."""
        if layout_rng is not None:
            save, self.r = self.r, layout_rng
        try:
            out = [self.gap(False)]
            flat = []
            for si, st in enumerate(stmts):
                for ti, tk in enumerate(st):
                    flat.append((tk, ti == 0))
            punct = set("=,(){};")
            offs = []
            for i, (tk, first) in enumerate(flat):
                offs.append((tk, sum(len(x) for x in out)))
                out.append(tk)
                if i + 1 < len(flat):
                    nxt = flat[i + 1][0]
                    opt = (tk in punct) or (nxt in punct) or nxt.startswith("<")
                    # a quoted string directly followed by a word still needs a gap for readability of
                    # the grammar: the standards require white space between statements
                    out.append(self.gap(not opt))
            out.append(self.gap(False))
            if _record:
                self._offsets = offs
            return "".join(out)
        finally:
            if layout_rng is not None:
                self.r = save


def literal_matrix(dialect):
    """Systematic spellings of numbers and date/times (every combination of the optional parts),
    valid or not in the dialect: texts only.  Used to drive lexer/decoder paths that depend on the
    neighbouring characters (sign, exponent, '#', zone offsets, leap seconds)."""
    out = []
    for sg in ("", "+", "-"):
        for mant in ("5", "12.", ".5", "1.25", "0"):
            for ex in ("", "e3", "E+3", "e-3", "E03"):
                out.append(sg + mant + ex)
        for radix, digs in ((2, "101"), (8, "17"), (16, "fF"), (10, "99"), (3, "12"), (16, "G")):
            out.append("%s%d#%s#" % (sg, radix, digs))
            out.append("%d#%s%s#" % (radix, sg, digs))
            out.append("%s%d#%s%s#" % (sg, radix, sg, digs))
    dates = ["2001-01-01", "2001-001", "0999-12-31", "2000-366", "2001-366", "1998-12-31", "1998-365"]
    times = ["10:00", "10:00:09", "23:59:59.5", "23:59:59.123456", "23:59:60", "23:59:60.5", "00:00:61", "24:00"]
    zones = ["", "Z", "z", "+01", "-7", "+0130", "-0730", "+01:30", "+13", "+1"]
    for t in times:
        for z in zones:
            out.append(t + z)
    for d in dates:
        out.append(d)
        for z in ("Z", "+01"):
            out.append(d + z)
        for t in times[:6]:
            for z in zones[:7]:
                out.append(d + "T" + t + z)
    return out


def literal_contexts(lit):
    return ["a = %s" % lit, "a = %s;b = 1\nEND\n" % lit, "a = (%s, 2)" % lit, "a = (1,%s)" % lit,
            "a = {%s}" % lit, "a = %s <m>" % lit, "a=%s/* c */\nEND" % lit,
            "GROUP = g\n  t = (1, %s)\nEND_GROUP\nEND\n" % lit]


# --------------------------------------------------------------------- damage (C05 / C06)
def damage(rng, stmts):
    flat = [tk for st in stmts for tk in st]
    if not flat:
        return [["="]], "insert"
    kind = rng.choice(["delete", "duplicate", "swap", "replace", "truncate", "insert"])
    i = rng.randrange(len(flat))
    if kind == "delete":
        del flat[i]
    elif kind == "duplicate":
        flat.insert(i, flat[i])
    elif kind == "swap" and len(flat) > 1:
        j = rng.randrange(len(flat))
        flat[i], flat[j] = flat[j], flat[i]
    elif kind == "replace":
        flat[i] = rng.choice(["=", ",", "(", ")", "{", "}", ";", "END_GROUP", "END_OBJECT", "GROUP", "OBJECT",
                              "END", "x", "\"", "'", "<", "<m", "/*", "5"])
    elif kind == "truncate":
        flat = flat[:i]
    else:
        flat.insert(i, rng.choice(["=", ",", ")", "}", "(", "{", "stray", "END_GROUP", "\"open", "<u"]))
    return [[t] for t in flat], kind


# --------------------------------------------------------------------- Python-object modules (C01 …)
BORDER_STRINGS = ["", " ", "a b", "NULL", "null", "Null", "TRUE", "true", "False", "END", "end", "End", "GROUP",
                  "group", "End_Group", "BEGIN_OBJECT", "object", "1", "-5", "1.5", "1e5", "16#FF#", "inf", "nan",
                  "2001-01-01", "2001-001", "10:00", "10:00:60", "x-", "a-\nb", "10 - \n20 km", "x-\t\nrest", "a -  \r\n b", "it's", 'say "hi"', 'x\n"y', 'say "hi"\r\nthere', 'q"\x0bv', "both ' and \"",
                  "tab\there", "two  blanks", " lead", "trail ", "line1\nline2", "a\r\nb", "first\nEND\nlast", "a\r\n  end\r\nb", "x\nEnd;\ny", "keep\nEND_GROUP\nGROUP = g", "semi;colon", "a=b",
                  "(paren)", "{brace}", "<angle>", "#hash", "/* c */", "*/", "a*", "/x", "caf\xe9", "\xb5m",
                  "snow☃", "x" * 45, "word " * 20, "bell\x07", "esc\x1b[0m", "del\x7f", "nul\x00x", "ctl\x01\x1f", "a-b", "push-broom", "high-resolution", "semi-major-axis", "-lead", "mid - dle", "_under", "under_", "9lives", "ok_name", "N:S", "^PTR"]


LITERAL_STRINGS = literal_matrix("OMNI") + ["T12", "1_000", "\u0661\u0662", "1__0", "0x1F", "12:00-5", "10:00+5:30",
                                           "2001-01-01T12:00-05", "12:00-0530", "#x", "a#b", "x#"]


class ObjGen:
    def __init__(self, rng, encoder):
        self.r = rng
        self.enc = encoder    # "PVL" | "ODL" | "PDS3" | "ISIS"
        self.g = Gen(rng, encoder)

    def key(self):
        r = self.r
        k = r.random()
        if k < 0.66: return self.g.ident()
        # a name that is a literal of some dialect, or could be taken for one by a laxer reader (ISO 8601 basic
        # forms such as T12): names are written bare, so the reader must agree that it is a name
        if k < 0.70: return r.choice(LITERAL_STRINGS + ["T12", "T1200", "T120000", "T12Z", "W01", "Z"])
        if k < 0.78: return self.g.ident(29) [:29] + r.choice(["", "a", "ab"])
        if k < 0.86: return "^" + self.g.ident(6)
        if k < 0.92: return self.g.ident(5) + ":" + self.g.ident(5)
        return r.choice(["", "a b", "1x", "x_", "caf\xe9", "NULL", "END", "a-b", "x" * 31, "a\tb"])

    def string(self):
        r = self.r
        k = r.random()
        if k < 0.4: return r.choice(BORDER_STRINGS)
        # a string whose content is a literal of some dialect: what one decoder takes for a word another
        # may take for a number or a time with a zone offset
        if k < 0.52: return r.choice(LITERAL_STRINGS)
        if k < 0.7: return self.g.ident()
        return self.g.str_body(r.choice(['"', "'", "\x00"]))

    def temporal(self):
        r = self.r
        y = r.choice([1, 999, 1000, 2001, 9999, r.randrange(1, 10000)])
        m, d = r.randrange(1, 13), r.randrange(1, 29)
        h, mi, s = r.randrange(24), r.randrange(60), r.choice([0, r.randrange(60)])
        us = r.choice([0, 0, 5000, 120000, 500000, 1, 999999, r.randrange(10 ** 6), 1000 * r.randrange(1000)])
        tz = r.choice([None, None, UTC, UTC, UTC, UTC,
                       datetime.timezone(datetime.timedelta(hours=r.choice([-12, -5, -1, 1, 9, 12, 13]))),
                       datetime.timezone(datetime.timedelta(hours=r.choice([5, -3]), minutes=30)),
                       datetime.timezone(datetime.timedelta(seconds=r.choice([30, 3601])))])
        if self.enc in ("PVL", "ISIS", "PDS3") and r.random() < 0.8:
            tz = r.choice([None, UTC])
        k = r.random()
        if k < 0.33: return datetime.date(y, m, d)
        if k < 0.66: return datetime.time(h, mi, s, us, tzinfo=tz)
        return datetime.datetime(y, m, d, h, mi, s, us, tzinfo=tz)

    def number(self):
        r = self.r
        if r.random() < 0.5:
            return r.choice([0, 1, -1, 255, 10 ** 12, -2 ** 40, r.randrange(-1000, 1000)])
        return r.choice([0.0, -0.0, 1.5, -2.25, 1e-7, 1e22, 123456.789, 0.1, 1 / 3, 5e-324, 1.7976931348623157e308,
                         r.uniform(-1e6, 1e6)])

    def scalar(self):
        r = self.r
        k = r.random()
        if k < 0.08: return None
        if k < 0.16: return r.choice([True, False])
        if k < 0.40: return self.number()
        if k < 0.72: return self.string()
        if k < 0.90: return self.temporal()
        v = self.number()
        return Quantity(v, r.choice(["m", "km/s", "deg", "m s", "W*m**-2", "m**2", "a>b", "", "K/", "km /\ts", "m\ts", "m\x0bs",
                                     "a\fb"]))

    def value(self, depth=0):
        r = self.r
        k = r.random()
        if k < 0.72 or depth > 2:
            return self.scalar()
        if k < 0.85:
            return [self.value(depth + 1) for _ in range(r.choice([0, 1, 2, 3, 8, 14]))]
        if k < 0.88:
            # units on a whole sequence / set (what `a = (1, 2) <m>` loads as)
            vals = [self.number() for _ in range(r.choice([1, 2, 3]))]
            return Quantity(vals if r.random() < 0.7 else frozenset(vals), r.choice(["m", "km/s", "deg"]))
        elems = []
        for _ in range(r.choice([0, 1, 2, 4])):
            v = self.scalar()
            try:
                hash(v); elems.append(v)
            except TypeError:
                pass
        return frozenset(elems) if r.random() < 0.5 else set(elems)

    def items(self, depth=0, n=None):
        r = self.r
        n = r.randrange(0, 6) if n is None else n
        out = []
        pool = [self.key() for _ in range(2)]
        for _ in range(n):
            k = r.random()
            key = r.choice(pool) if r.random() < 0.3 else self.key()
            if k < 0.75 or depth >= 3:
                out.append((key, self.value()))
            else:
                cls = r.choice([PVLGroup, PVLObject])
                out.append((key, cls(self.items(depth + 1, r.randrange(0, 4)))))
        return out

    def module(self):
        return PVLModule(self.items(0, self.r.randrange(0, 7)))

    def cfg(self):
        r = self.r
        c = dict(indent=r.choice([2, 2, 0, 1, 4, 8]), width=r.choice([80, 80, 80, 40, 20, 10, 132, 1000]),
                 aggregation_end=r.choice([True, True, False]))
        if self.enc != "PDS3":
            c["end_delimiter"] = r.choice([True, False])
            c["newline"] = r.choice(["\n", "\r\n", "\n", " "]) if self.enc in ("PVL", "ISIS") else r.choice(["\r\n", "\n"])
        else:
            c["convert_group_to_object"] = r.choice([True, True, False])
            c["tab_replace"] = r.choice([4, 4, 0, 1])
            c["symbol_single_quote"] = r.choice([True, True, False])
            c["time_trailing_z"] = r.choice([True, True, False])
        if r.random() < 0.4:
            return {}
        return c
