"""Real-code side of the correspondence: run pvl from /repo and canonicalise what it does into
the same JSON shapes the Lean driver prints."""
import json, datetime, os, sys, warnings
from . import core

core.repo_on_path()
warnings.simplefilter("ignore")
import pvl  # noqa: E402
from pvl import grammar as G, decoder as D, parser as P, encoder as E, token as T, lexer as L  # noqa
from pvl.collections import PVLModule, PVLGroup, PVLObject, Quantity, OrderedMultiDict  # noqa
from pvl.exceptions import LexerError, ParseError, QuantityError  # noqa
from pvl.parser import EmptyValueAtLine  # noqa

assert os.path.abspath(os.path.dirname(pvl.__file__)) == os.path.join(core.REPO, "pvl"), pvl.__file__

# name -> (parser class, grammar class, decoder class, model names (grammar, decoder, parser))
CONFIGS = {
    "PVL": (P.PVLParser, G.PVLGrammar, D.PVLDecoder, ("pvl", "pvl", "pvl")),
    "ODL": (P.ODLParser, G.ODLGrammar, D.ODLDecoder, ("odl", "odl", "odl")),
    "PDS3": (P.ODLParser, G.PDSGrammar, D.PDSLabelDecoder, ("pds", "pds", "odl")),
    "ISIS": (P.OmniParser, G.ISISGrammar, D.OmniDecoder, ("isis", "omni", "omni")),
    "OMNI": (P.OmniParser, G.OmniGrammar, D.OmniDecoder, ("omni", "omni", "omni")),
}
# grammar/decoder pairs (the five above plus the encoders' own pairs)
DECODERS = {
    "PVL": (G.PVLGrammar, D.PVLDecoder, ("pvl", "pvl")),
    "ODL": (G.ODLGrammar, D.ODLDecoder, ("odl", "odl")),
    "PDS3": (G.PDSGrammar, D.PDSLabelDecoder, ("pds", "pds")),
    "ISIS": (G.ISISGrammar, D.OmniDecoder, ("isis", "omni")),
    "OMNI": (G.OmniGrammar, D.OmniDecoder, ("omni", "omni")),
    "ISISENC": (G.ISISGrammar, D.PVLDecoder, ("isis", "pvl")),
}


def make_parser(cfg, **kw):
    pc, gc, dc, _ = CONFIGS[cfg]
    g = gc()
    return pc(grammar=g, decoder=dc(grammar=g), **kw)


def make_decoder(name):
    gc, dc, _ = DECODERS[name]
    g = gc()
    return g, dc(grammar=g)


cps = core.cps


def tzsec(v):
    off = v.utcoffset() if isinstance(v, datetime.datetime) else (
        v.tzinfo.utcoffset(None) if v.tzinfo is not None else None)
    if off is None:
        return None
    return off.days * 86400 + off.seconds


def py_to_j(v):
    """Python value -> JSON shape of Driver/ValIO.lean (reals as repr text)."""
    if v is None:
        return {"t": "N"}
    if isinstance(v, bool):
        return {"t": "B", "v": v}
    if isinstance(v, int):
        return {"t": "I", "v": str(v)}
    if isinstance(v, float):
        return {"t": "R", "v": repr(v)}
    if isinstance(v, EmptyValueAtLine):
        return {"t": "Y", "v": v.lineno}
    if isinstance(v, str):
        return {"t": "S", "v": [ord(c) for c in v]}
    if isinstance(v, datetime.datetime):
        return {"t": "DT", "v": [v.year, v.month, v.day, v.hour, v.minute, v.second, v.microsecond],
                "tz": tzsec(v)}
    if isinstance(v, datetime.date):
        return {"t": "D", "v": [v.year, v.month, v.day]}
    if isinstance(v, datetime.time):
        return {"t": "T", "v": [v.hour, v.minute, v.second, v.microsecond], "tz": tzsec(v)}
    if isinstance(v, Quantity):
        return {"t": "Q", "v": py_to_j(v.value), "u": [ord(c) for c in v.units]}
    if isinstance(v, list):
        return {"t": "L", "v": [py_to_j(x) for x in v]}
    if isinstance(v, frozenset):
        return {"t": "FS", "v": sorted((py_to_j(x) for x in v), key=jkey)}
    if isinstance(v, set):
        return {"t": "SET", "v": sorted((py_to_j(x) for x in v), key=jkey)}
    if isinstance(v, PVLModule):
        k = "M"
    elif isinstance(v, PVLGroup):
        k = "G"
    elif isinstance(v, PVLObject):
        k = "O"
    elif isinstance(v, OrderedMultiDict):
        k = "?" + type(v).__name__
    else:
        try:
            import decimal
            if isinstance(v, decimal.Decimal):
                return {"t": "DEC", "v": str(v)}
        except Exception:
            pass
        return {"t": "?", "v": type(v).__name__ + ":" + repr(v)[:80]}
    return {"t": "C", "k": k, "v": [[[ord(c) for c in kk], py_to_j(vv)] for kk, vv in list(v)]}


def jkey(j):
    return json.dumps(j, sort_keys=True)


def s_of(cpl):
    return "".join(chr(c) for c in cpl)


def j_to_py(j):
    t = j["t"]
    if t == "N": return None
    if t == "B": return bool(j["v"])
    if t == "I": return int(j["v"])
    if t == "R":
        v = j["v"]
        return float(s_of(v)) if isinstance(v, list) else float(v)
    if t == "S": return s_of(j["v"])
    if t == "Y": return EmptyValueAtLine(j["v"])
    if t == "D": return datetime.date(*j["v"])
    if t in ("T", "DT"):
        tz = None if j["tz"] is None else datetime.timezone(datetime.timedelta(seconds=j["tz"]))
        if t == "T": return datetime.time(*j["v"], tzinfo=tz)
        return datetime.datetime(*j["v"], tzinfo=tz)
    if t == "Q": return Quantity(j_to_py(j["v"]), s_of(j["u"]))
    if t == "L": return [j_to_py(x) for x in j["v"]]
    if t == "FS": return frozenset(j_to_py(x) for x in j["v"])
    if t == "SET": return set(j_to_py(x) for x in j["v"])
    if t == "C":
        cls = {"M": PVLModule, "G": PVLGroup, "O": PVLObject}[j["k"]]
        return cls([(s_of(k), j_to_py(v)) for k, v in j["v"]])
    raise ValueError(t)


def canon(j):
    """Canonical form of a model value: reals as repr(float(text)), sets de-duplicated with
    Python's own hashing/equality and sorted."""
    t = j.get("t")
    if t == "R":
        v = j["v"]
        return {"t": "R", "v": repr(float(s_of(v))) if isinstance(v, list) else v}
    if t == "Q":
        return {"t": "Q", "v": canon(j["v"]), "u": j["u"]}
    if t == "L":
        return {"t": "L", "v": [canon(x) for x in j["v"]]}
    if t in ("FS", "SET"):
        try:
            objs = frozenset(j_to_py(x) for x in j["v"])
            return {"t": t, "v": sorted((py_to_j(x) for x in objs), key=jkey)}
        except TypeError:
            return {"t": t, "v": sorted((canon(x) for x in j["v"]), key=jkey)}
    if t == "C":
        return {"t": "C", "k": j["k"], "v": [[k, canon(v)] for k, v in j["v"]]}
    return j


def exc_to_j(e):
    if isinstance(e, LexerError):
        return {"err": "LexerError", "pos": e.pos, "lineno": e.lineno, "colno": e.colno}
    if isinstance(e, core.Timeout):
        return {"err": "HANG"}
    return {"err": type(e).__name__}


def real_parse(parser, text, timeout=2.0):
    """parser.parse(text) -> outcome JSON (same shape as the driver's `parse`)."""
    try:
        m = core.with_timer(timeout, parser.parse, text)
        return {"ok": py_to_j(m), "errors": list(parser.errors), "module_errors": list(m.errors)}
    except RecursionError:
        return {"fail": {"err": "RecursionError"}, "errors": list(parser.errors)}
    except BaseException as e:  # noqa
        if isinstance(e, (KeyboardInterrupt, SystemExit)):
            raise
        return {"fail": exc_to_j(e), "errors": list(parser.errors)}


def model_parse_line(cfg, text, prior=()):
    g, d, p = CONFIGS[cfg][3]
    return "parse %s %s %s %s %s" % (g, d, p, ",".join(map(str, prior)) if prior else "-", cps(text))


def outcome_equal(real, model):
    """Compare a real outcome with the model's (after canonicalisation)."""
    if ("ok" in real) != ("ok" in model):
        return False
    if "ok" in real:
        return canon(model["ok"]) == real["ok"] and list(model["errors"]) == list(real["errors"])
    return real["fail"] == model["fail"] and list(model["errors"]) == list(real["errors"])


def real_lex(gname, text, timeout=2.0):
    g, d = make_decoder(gname)
    toks = []
    def go():
        for t in L.lexer(text, g=g, d=d):
            toks.append([[ord(c) for c in str(t)], t.pos])
    try:
        core.with_timer(timeout, go)
        return {"tokens": toks, "tail": "eof"}
    except LexerError as e:
        return {"tokens": toks, "tail": exc_to_j(e)}
    except BaseException as e:  # noqa
        if isinstance(e, (KeyboardInterrupt, SystemExit)):
            raise
        return {"tokens": toks, "tail": type(e).__name__}


def real_decode(gname, text):
    g, d = make_decoder(gname)
    try:
        return py_to_j(d.decode_simple_value(text))
    except ValueError:
        return {"err": "ValueError"}
    except Exception as e:
        return {"err": type(e).__name__}


def real_datetime(gname, text):
    g, d = make_decoder(gname)
    try:
        return py_to_j(d.decode_datetime(text))
    except ValueError:
        return {"err": "ValueError"}
    except Exception as e:
        return {"err": type(e).__name__}


PREDS = [("comment", "is_comment"), ("space", "is_space"), ("wsc", "is_WSC"),
         ("delimiter", "is_delimiter"), ("begin", "is_begin_aggregation"), ("end", "is_end_statement"),
         ("quoted", "is_quoted_string"), ("decimal", "is_decimal"), ("nondecimal", "is_non_decimal"),
         ("numeric", "is_numeric"), ("datetime", "is_datetime"), ("unquoted", "is_unquoted_string"),
         ("parameter", "is_parameter_name"), ("simple", "is_simple_value")]


def real_tokpred(gname, text):
    g, d = make_decoder(gname)
    t = T.Token(text, grammar=g, decoder=d)
    out = {}
    for k, m in PREDS:
        try:
            out[k] = bool(getattr(t, m)())
        except ValueError:
            out[k] = "ValueError"
        except Exception as e:
            out[k] = type(e).__name__
    return out
