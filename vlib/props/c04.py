"""C04 — white space and comments never change the meaning of a label."""
import json, os, collections, random
from .. import core, parsefam as pf, gen
from .. import pvlio as io

PROP_MODULES = ["PvlModel.Props.C04"]
PUNCT = set("=,(){};")


def relayout(rng, g, toks, text):
    """toks: [(tokentext, pos)] non-WSC tokens of `text` in order.  New text: same tokens, every
    non-empty gap replaced by another non-empty run, empty gaps optionally widened where the grammar
    makes white space optional."""
    out = [g.gap(False)]
    for i, (tk, pos) in enumerate(toks):
        out.append(tk)
        if i + 1 < len(toks):
            nxt, npos = toks[i + 1]
            was_empty = (pos + len(tk) == npos)
            opt = tk in PUNCT or nxt in PUNCT or nxt.startswith("<")
            if was_empty:
                out.append(g.gap(False) if opt and rng.random() < 0.5 else "")
            else:
                out.append(g.gap(not opt) if rng.random() < 0.8 else g.gap(True))
    out.append(g.gap(False))
    return "".join(out)


def _lex_work(args):
    cfg, text = args
    pc, gc, dc, _ = io.CONFIGS[cfg]
    g = gc()
    d = dc(grammar=g)
    if pc is io.P.OmniParser:
        import re
        text = re.sub(r"-[\n\r\f]\s*", "", text)
    toks = []
    try:
        def go():
            for t in io.L.lexer(text, g=g, d=d):
                if not t.is_WSC():
                    toks.append((str(t), t.pos))
                if t.is_end_statement():
                    break
        core.with_timer(5.0, go)
    except BaseException as e:  # noqa
        if isinstance(e, (KeyboardInterrupt, SystemExit)):
            raise
        return None
    return text, toks


def safe_for_relayout(toks):
    """outside the recorded finding F04a: a token that ends in '*' or '/' or begins with '*' or '/'
    may not stand next to a comment (lexer.py:121-135); '-' at a line end is a continuation."""
    for tk, _ in toks:
        if tk[:1] in "*/" or tk[-1:] in "*/-" or tk == "-":
            return False
    return True


def run(ctx):
    lean = core.standard_lean_phase(ctx, PROP_MODULES)
    drv = core.Driver()
    rng = ctx.rng
    n = 2500 if ctx.thorough() else 350
    groups = []   # (cfg, [texts...], expected_j or None, origin)
    for cfg in pf.CFGS:
        g = gen.Gen(rng, cfg)
        for _ in range(n):
            stmts, m = g.document()
            texts = [g.render(stmts, random.Random(rng.random())) for _ in range(3)]
            # a tight layout: gaps only where required
            tight = []
            flat = [tk for st in stmts for tk in st]
            for i, tk in enumerate(flat):
                tight.append(tk)
                if i + 1 < len(flat):
                    nx = flat[i + 1]
                    if not (tk in PUNCT or nx in PUNCT or nx.startswith("<")):
                        tight.append(" ")
            texts.append("".join(tight))
            groups.append((cfg, texts, io.py_to_j(m), "generated"))
    # tests/data corpus, re-laid-out on the real lexer's own token boundaries
    corp = pf.corpus_texts()
    lexed = [(_lex_work((cfg, t)), cfg, name) for name, t in corp for cfg in pf.CFGS]
    ncorp = 0
    for res, cfg, name in lexed:
        if res is None:
            continue
        text, toks = res
        if not toks or len(toks) > 1500 or not safe_for_relayout(toks):
            continue
        g = gen.Gen(rng, cfg)
        base = io.real_parse(io.make_parser(cfg), text, 5.0)
        if pf.outcome_class(base) != "ok":
            continue
        variants = [relayout(rng, g, toks, text) for _ in range(3 if ctx.thorough() else 2)]
        groups.append((cfg, [text] + variants, None, "tests/data:" + name))
        ncorp += 1
    cases = [(cfg, t) for cfg, texts, _, _ in groups for t in texts]
    reals = pf.eval_real(cases)
    have = os.path.exists(drv.exe)
    models = pf.eval_model(drv, cases) if have else [None] * len(cases)
    k = 0
    bad = corr = None
    stats = collections.Counter()
    for cfg, texts, exp, origin in groups:
        rs = reals[k:k + len(texts)]
        ms = models[k:k + len(texts)]
        k += len(texts)
        # Omni line numbers depend on the layout by definition (C08): erase them before comparing
        from .c05 import strip_lines
        base = rs[0]
        for t, r, m in zip(texts, rs, ms):
            stats[origin.split(":")[0] + ":" + pf.outcome_class(r)] += 1
            why = None
            if pf.outcome_class(base) == "ok" and pf.outcome_class(r) != "ok":
                why = "a successful load became a failure (%s) after re-distributing white space and comments" \
                      % pf.outcome_class(r)
            elif pf.outcome_class(base) == "ok" and strip_lines(r["ok"]) != strip_lines(base["ok"]):
                why = "the loaded module changed after re-distributing white space and comments"
            elif exp is not None and pf.outcome_class(base) != "ok":
                why = "well-formed label rejected (%s)" % pf.outcome_class(base)
            if why and bad is None:
                bad = {"what": why, "cfg": cfg, "origin": origin, "layout_1": texts[0], "layout_2": t,
                       "layout_1_cps": core.cps(texts[0]), "layout_2_cps": core.cps(t), "load_1": base, "load_2": r}
            if m is not None and corr is None and not io.outcome_equal(r, m):
                corr = {"what": "correspondence parse: model and implementation disagree", "cfg": cfg, "text": t,
                        "text_cps": core.cps(t), "real": r, "model": m}
    if bad:
        core.violation(ctx, "layout", bad, True)
    elif corr:
        core.violation(ctx, "correspondence", corr, False)
    elif not lean["ok"]:
        core.violation(ctx, "proof", {"what": "C04 proof obligations no longer check", "broken": lean["problems"]}, False)
    for f in [f for f in core.load_known()["findings"] if f["property"] == "C04"]:
        w = f["witness"]
        r1 = io.real_parse(io.make_parser(w["cfg"]), w["layout_1"], 2.0)
        r2 = io.real_parse(io.make_parser(w["cfg"]), w["layout_2"], 2.0)
        if pf.outcome_class(r1) == "ok" and (pf.outcome_class(r2) != "ok" or r2["ok"] != r1["ok"]):
            ctx.known_hits.append("%s %s" % (f["id"], f["what"]))
    cov = {
        "evaluations": len(cases),
        "distinct_nontrivial": len({(c, t) for c, t in cases if len(t) > 10}),
        "rule": "%d generated documents per configuration x 4 layouts each (three random white-space/comment "
                "distributions, one with gaps only where required) and %d tests/data files re-laid-out on the "
                "real lexer's token boundaries (non-empty gaps replaced, optional gaps inserted/removed); all "
                "layouts of one document must load to the same module; also every text through the parser model"
                % (n, ncorp),
        "outcomes": dict(stats),
        "samples": [{"cfg": c, "text": t[:160]} for c, t in cases[::max(1, len(cases) // 6)][:6]],
        "theorems": lean["names"], "lean_problems": lean["problems"],
    }
    return core.finish(ctx, "proof", lean["obligations"], lean["discharged"],
                       "cd lean && lake build PvlModel.Props.C04 && lake env lean <#print axioms file>", cov,
                       ["'#' comments are set off from the preceding token by white space and do not end in '-' "
                        "(the dialect's continuation mark), as the property states",
                        "corpus files with tokens that begin or end in '*' or '/' are not re-laid-out (recorded finding)"])


def replay(ctx, path):
    d = json.load(open(path))
    if "layout_1" not in d:
        print("nothing to replay"); return 0
    r1 = io.real_parse(io.make_parser(d["cfg"]), d["layout_1"], 2.0)
    r2 = io.real_parse(io.make_parser(d["cfg"]), d["layout_2"], 2.0)
    print(json.dumps({"load_1": r1, "load_2": r2}, indent=1)[:3000])
    if pf.outcome_class(r1) == "ok" and (pf.outcome_class(r2) != "ok" or r2["ok"] != r1["ok"]):
        print("VIOLATION property=C04 replay=%s" % path)
        return 1
    return 0
