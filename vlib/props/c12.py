"""C12 — encoder output obeys the surface rules of its dialect.

An independent line-level reader (own quote tracking; no use of pvl's lexer) judges every text
the real encoders return; the encoder model's text is compared byte for byte."""
import json, os, re, collections
from .. import core, gen, encio
from .. import pvlio as io
from . import c01, c15

PROP_MODULES = ["PvlModel.Props.C12"]

KEYWORDS = {
    "PVL": ("BEGIN_GROUP", "END_GROUP", "BEGIN_OBJECT", "END_OBJECT"),
    "ODL": ("GROUP", "END_GROUP", "OBJECT", "END_OBJECT"),
    "PDS3": ("GROUP", "END_GROUP", "OBJECT", "END_OBJECT"),
    "ISIS": ("Group", "End_Group", "Object", "End_Object"),
}
NUM_RE = re.compile(r"[+-]?(\d+\.?\d*|\.\d+)([eE][+-]?\d+)?|[+-]?(inf|nan)", re.I)
IDENT_RE = re.compile(r"[A-Z][A-Z0-9_]*")


def split_lines(text, nl):
    """physical lines, and for each the quote state at its start (None, '"' or "'")"""
    if nl == "":
        return [(text, None)]
    lines = text.split(nl)
    out, q = [], None
    for ln in lines:
        out.append((ln, q))
        for ch in ln:
            if q is None:
                if ch in "\"'":
                    q = ch
            elif ch == q:
                q = None
    return out


def outside_quotes(line, q):
    """characters of a line that are outside quoted strings (quoted stretches blanked), final state"""
    out = []
    for ch in line:
        if q is None:
            if ch in "\"'":
                q = ch
                out.append(ch)
            else:
                out.append(ch)
        else:
            if ch == q:
                q = None
                out.append(ch)
            else:
                out.append("\x00")
    return "".join(out), q


def conforms(enc, ecfg, text):
    """-> list of complaints (empty = conforms). ecfg = effective configuration."""
    bad = []
    nl = ecfg["newline"]
    cfgname = {"PVL": "PVL", "ODL": "ODL", "PDS3": "PDS3", "ISIS": "ISIS"}[enc]
    # 1. character set
    for ch in text:
        if not c15.spec_allowed(cfgname, ord(ch)):
            bad.append("character U+%04X outside the %s character set" % (ord(ch), enc)); break
    if enc == "PDS3" and "\t" in text and ecfg["tab_replace"] > 0:
        bad.append("tab character in PDS3 output")
    # 2. line ends
    if enc in ("PDS3", "ODL"):
        if not text.endswith(nl):
            bad.append("no line end after the END line")
        if enc == "PDS3" and nl != "\r\n":
            bad.append("PDS3 newline is not CR-LF")
    if nl in ("\n", "\r\n"):
        body = text[:-len(nl)] if text.endswith(nl) else text
    else:
        return bad    # exotic newline option (e.g. a blank): only the character rules apply
    lines = split_lines(body, nl)
    kw = KEYWORDS[enc]
    delim = ";" if ecfg["end_delimiter"] else ""
    # ---- group physical lines into statements
    stmts = []       # [first line, [continuation lines]], each line = (text, visible text, indent)
    depth = 0
    prev_assign_indent = None
    for ln, q0 in lines:
        vis, q1 = outside_quotes(ln, q0)
        ind = len(ln) - len(ln.lstrip(" "))
        svis = vis.lstrip(" ")
        first = svis.split(" ")[0].rstrip(";")
        is_kw = first in kw and (svis.rstrip(";") == first or re.match(r"\S+ = ", svis))
        cont = (q0 is not None) or depth > 0 or (prev_assign_indent is not None and ind > prev_assign_indent
                                                 and ln.strip() != "")
        if cont and stmts:
            stmts[-1][1].append((ln, vis, ind, q0))
        else:
            stmts.append([(ln, vis, ind, q0), []])
            prev_assign_indent = None if (is_kw or ln.strip() == "" or "=" not in svis) else ind
        depth += vis.count("(") + vis.count("{") - vis.count(")") - vis.count("}")
        if q1 == "'" and enc in ("ODL", "PDS3"):
            bad.append("a single-quoted symbol string continues on the next line: %r" % ln[:60])
    # ---- judge the statements
    level = 0
    stack = []
    eq_cols = {}
    block_id = [0]
    cur_block = 0
    for si, ((ln, vis, ind, q0), conts) in enumerate(stmts):
        stripped = ln.lstrip(" ")
        svis = vis.lstrip(" ")
        if si == len(stmts) - 1:
            if stripped != "END" + delim or conts:
                bad.append("last line is %r, expected %r" % (ln[:40], "END" + delim))
            if level != 0:
                bad.append("END reached with %d open block(s)" % level)
            break
        if stripped == "":
            continue          # an empty block body is encoded as an empty line
        m = re.match(r"([^\s=]+)\s*=\s*(.*)$", svis) if "=" in svis else None
        first = svis.split(" ")[0].rstrip(";")
        if first in (kw[1], kw[3]) and (svis.rstrip(";") == first or m):
            if not stack:
                bad.append("end statement %r without an open block" % ln[:40]); break
            kind, name, _bid = stack.pop()
            level -= 1
            if ind != level * ecfg["indent"]:
                bad.append("end statement indented by %d, expected %d: %r" % (ind, level * ecfg["indent"], ln[:50]))
            if first != (kw[1] if kind == "G" else kw[3]):
                bad.append("block %r opened as %s is closed by %s" % (name, kind, first))
            tail = stripped[len(first):]
            want = (" = " + name if ecfg["aggregation_end"] else "") + delim
            if tail != want:
                bad.append("end statement %r should read %r" % (stripped[:50], first + want))
            cur_block = stack[-1][2] if stack else 0
        elif first in (kw[0], kw[2]) and m:
            if ind != level * ecfg["indent"]:
                bad.append("begin statement indented by %d, expected %d: %r" % (ind, level * ecfg["indent"], ln[:50]))
            name = stripped[len(first) + 3:]
            if delim and name.endswith(delim):
                name = name[:-1]
            if not stripped.startswith(first + " = "):
                bad.append("begin statement not of the form 'KEYWORD = name': %r" % ln[:50])
            block_id[0] += 1
            stack.append(("G" if first == kw[0] else "O", name, block_id[0]))
            cur_block = block_id[0]
            level += 1
        elif m:
            name = m.group(1)
            if ind != level * ecfg["indent"]:
                bad.append("statement indented by %d, expected %d: %r" % (ind, level * ecfg["indent"], ln[:50]))
            if enc in ("ODL", "PDS3"):
                core_name = name[1:] if name.startswith("^") else name
                parts = core_name.split(":")
                if len(name) > 30 or not (1 <= len(parts) <= 2) or not all(IDENT_RE.fullmatch(p) and not p.endswith("_") for p in parts):
                    bad.append("parameter name %r is not an upper-case identifier of at most 30 characters" % name)
            whole_vis = " ".join([vis] + [c[1] for c in conts])
            last_line = (conts[-1][0] if conts else ln)
            if delim and not last_line.endswith(delim):
                bad.append("statement without the delimiter: %r" % last_line[:50])
            if not delim and enc in ("PDS3", "ODL") and (conts[-1][1] if conts else vis).rstrip().endswith(";"):
                bad.append("statement delimiter in %s output: %r" % (enc, last_line[:50]))
            eq_cols.setdefault(cur_block, []).append((name, ln.index("=") if not conts else None, len(ln), ind))
            if enc in ("ODL", "PDS3"):
                for um in re.finditer(r"(\S+)\s+<", whole_vis):
                    tok = um.group(1).lstrip("({").rstrip(";")
                    if not NUM_RE.fullmatch(tok) and tok not in ("TRUE", "FALSE"):
                        bad.append("units expression after a non-numeric value: %r" % ln[:60])
        else:
            bad.append("line is not a statement of the dialect: %r" % ln[:60])
    for b, rows in eq_cols.items():
        # siblings are aligned on the longest name; a statement whose aligned form would not fit the width
        # is re-flowed without the padding
        want = max(ind + len(name) for name, _, _, ind in rows) + 1
        for name, col, length, ind in rows:
            if col is not None and col != want:
                if length + (want - col) + len(nl) <= ecfg["width"]:
                    bad.append("'=' of %r at column %d, its siblings' at %d, although the aligned statement fits"
                               % (name, col, want))
    return bad


def in_stmt_continues(last):
    """a wrapped statement continues when its previous physical line left a scalar value waiting for its
    units, or the value was moved to the next line: we only treat open quotes / brackets as
    continuation (handled by the caller) plus lines that end in '=' or ','."""
    if last is None:
        return False
    vis, q1, depth = last
    v = vis.rstrip()
    return v.endswith("=") or v.endswith(",")


def run(ctx):
    lean = core.standard_lean_phase(ctx, PROP_MODULES)
    drv = core.Driver()
    n = 2500 if ctx.thorough() else 400
    cases = c01.generate(ctx, n)
    bad = corr = None
    stats = collections.Counter()
    lines, reals = [], []
    for enc, cfg, m in cases:
        lines.append(encio.model_line(enc, cfg, m))
        out, after = encio.real_encode(enc, cfg, m)
        reals.append(out)
        if "ok" not in out:
            stats[enc + ":refused"] += 1
            continue
        text = encio.text_of(out)
        ecfg = encio.effective_cfg(enc, cfg)
        # wrapped statements make the line reader's job ambiguous; the alignment / indentation rules are
        # stated for statements that fit on one line, so judge the text at a width where nothing wraps, too
        complaints = conforms(enc, ecfg, text)
        stats[enc + (":conforms" if not complaints else ":COMPLAINT")] += 1
        if complaints and bad is None:
            bad = {"what": "output of %s does not obey the dialect's surface rules: %s" % (enc, complaints[0]),
                   "complaints": complaints[:5], "encoder": enc, "cfg": cfg, "module": io.py_to_j(m),
                   "module_repr": repr(list(m))[:800], "text": text}
    if os.path.exists(drv.exe):
        mouts = [json.loads(o) for o in drv.run(lines)]
        for (enc, cfg, m), r, mo in zip(cases, reals, mouts):
            if corr is None and not encio.out_equal(r, mo):
                corr = {"what": "correspondence encode: model and implementation disagree", "encoder": enc, "cfg": cfg,
                        "module": io.py_to_j(m), "real": r if "fail" in r else encio.text_of(r),
                        "model": mo.get("fail") or "".join(chr(c) for c in mo["ok"])}
    if bad:
        core.violation(ctx, "module", bad, True)
    elif corr:
        core.violation(ctx, "correspondence", corr, False)
    elif not lean["ok"]:
        core.violation(ctx, "proof", {"what": "C12 proof obligations no longer check", "broken": lean["problems"]}, False)
    for f in [f for f in core.load_known()["findings"] if f["property"] == "C12"]:
        ctx.known_hits.append("%s %s" % (f["id"], f["what"]))
    cov = {"evaluations": len(cases), "distinct_nontrivial": len(set(lines)),
           "rule": "%d generated representable modules per encoder x option combinations; every returned text is read "
                   "by an independent line-level checker (character set, line ends, keyword spelling, delimiters, "
                   "parameter-name form and length, units after numbers only, symbol strings on one line, no tabs "
                   "for PDS3, END line, indentation = level x indent, '=' alignment of one-line siblings, "
                   "begin/end pairing with block name when configured) and compared with the encoder model's text" % n,
           "outcomes": dict(stats),
           "samples": [{"encoder": e, "cfg": c, "module": repr(list(m))[:160]} for e, c, m in cases[::max(1, len(cases) // 6)][:6]],
           "theorems": lean["names"], "lean_problems": lean["problems"]}
    return core.finish(ctx, "proof", lean["obligations"], lean["discharged"],
                       "cd lean && lake build PvlModel.Props.C12 && lake env lean <#print axioms file>", cov,
                       ["with an exotic newline option (e.g. a single blank) only the character rules are judged"])


def replay(ctx, path):
    d = json.load(open(path))
    if "module" not in d or "encoder" not in d:
        print("nothing to replay"); return 0
    m = io.j_to_py(d["module"])
    out, _ = encio.real_encode(d["encoder"], d["cfg"], m)
    if "ok" not in out:
        print(out); return 0
    c = conforms(d["encoder"], encio.effective_cfg(d["encoder"], d["cfg"]), encio.text_of(out))
    print(json.dumps({"text": encio.text_of(out), "complaints": c}, indent=1)[:3000])
    if c:
        print("VIOLATION property=C12 replay=%s" % path)
        return 1
    return 0
