"""C05 — ill-formed text is rejected, never silently truncated.

Predicate (decided by the Lean specification, Model/Spec.lean `specLoad`): whenever the real loader
returns a module, the text up to END must be well-formed for the independent LL(2) grammar and the
module must be the one the grammar denotes.  Correspondence: real loader vs parser model."""
import json, os, collections
from .. import core, parsefam as pf
from .. import pvlio as io
from . import c06

PROP_MODULES = ["PvlModel.Props.C05"]


def strip_lines(j):
    """erase EmptyValue line numbers (they belong to C08)"""
    if isinstance(j, dict):
        if j.get("t") == "Y":
            return {"t": "Y"}
        return {k: strip_lines(v) for k, v in j.items()}
    if isinstance(j, list):
        return [strip_lines(x) for x in j]
    return j


def judge(r, s):
    """-> None | 'accepts-illformed' | 'module-differs'"""
    if "ok" not in r:
        return None
    if s == "ILL":
        return "accepts-illformed"
    if strip_lines(io.canon(s["ok"])) != strip_lines(r["ok"]):
        return "module-differs"
    return None


def spec_lines(cases):
    out = []
    for cfg, t in cases:
        g, d, p = io.CONFIGS[cfg][3]
        out.append("specload %s %s %s %s" % (g, d, p, core.cps(t)))
    return out


def known_match(kf, verdict, r, m):
    """site-based attribution: the model must agree with the real code and its trace must pass
    the tagged defect site of the finding."""
    if m is None or not io.outcome_equal(r, m):
        return None
    for f in kf:
        if f.get("verdict") == verdict and f.get("site") in (m.get("sites") or []):
            return f
    return None


def run(ctx):
    lean = core.standard_lean_phase(ctx, PROP_MODULES)
    drv = core.Driver()
    cases, kinds = c06.build_cases(ctx)
    extra = pf.load_corpus("c05.jsonl")
    for rec in extra:
        for cfg in (rec.get("cfgs") or pf.CFGS):
            cases.insert(0, (cfg, rec["text"])); kinds.insert(0, "corpus")
    kf = [f for f in core.load_known()["findings"] if f["property"] == "C05"]
    for f in kf:   # every listed finding's witness is replayed on every run
        cases.insert(0, (f["witness"]["cfg"], f["witness"]["text"])); kinds.insert(0, "known-finding-witness")
    # more damage, aimed at block structure
    rng = ctx.rng
    nd = 4000 if ctx.thorough() else 500
    for cfg in pf.CFGS:
        for text, stmts, kind in pf.damaged(rng, cfg, nd):
            cases.append((cfg, text)); kinds.append("damaged:" + kind)
    reals = pf.eval_real(cases)
    have = os.path.exists(drv.exe)
    specs = [json.loads(o) for o in drv.run(spec_lines(cases))] if have else None
    models = pf.eval_model(drv, cases) if have else None
    verdicts = collections.Counter()
    kindc = collections.Counter()
    bad, corr = [], []
    nontriv = set()
    sane = collections.Counter()
    insane_example = None
    for i, ((cfg, text), kind, r) in enumerate(zip(cases, kinds, reals)):
        kindc[kind.split(":")[0]] += 1
        cls = pf.outcome_class(r)
        s = specs[i] if specs else None
        m = models[i] if models else None
        if s is not None:
            v = judge(r, s)
            verdicts["%s/%s" % ("ok" if cls == "ok" else "rejected", "WF" if s != "ILL" else "ILL")] += 1
            if v:
                hit = known_match(kf, v, r, m)
                if hit:
                    if len(ctx.known_hits) < 1 or all(hit["id"] not in k for k in ctx.known_hits):
                        ctx.known_hits.append("%s %s (e.g. %s %r)" % (hit["id"], hit["what"], cfg, text[:60]))
                else:
                    bad.append((cfg, text, kind, r, s, m, v))
        if m is not None and "sane" in m:
            # the lexical hypothesis of C05_blocks_accounted, evaluated by the driver on this input's tokens
            sane[str(m["sane"]).lower()] += 1
            if m["sane"] is False and insane_example is None:
                insane_example = {"cfg": cfg, "text": text[:200]}
        if m is not None and not io.outcome_equal(r, m):
            corr.append((cfg, text, kind, r, m))
        if cls == "ok" and len(text) > 3:
            nontriv.add((cfg, text))
    if bad:
        cfg, text, kind, r, s, m, v = bad[0]

        def still(t):
            rr = io.real_parse(io.make_parser(cfg), t, 2.0)
            ss = json.loads(drv.run(spec_lines([(cfg, t)]))[0])
            mm = json.loads(drv.run([io.model_parse_line(cfg, t)])[0])
            vv = judge(rr, ss)
            return vv is not None and known_match(kf, vv, rr, mm) is None
        small = pf.shrink_text(text, still) if len(text) < 3000 else text
        rr = io.real_parse(io.make_parser(cfg), small, 2.0)
        ss = json.loads(drv.run(spec_lines([(cfg, small)]))[0])
        core.violation(ctx, "input", {
            "what": "the loader returned a module for text that is not a well-formed module of the dialect "
                    "(%s): statements are missing or altered" % v,
            "cfg": cfg, "text": small, "text_cps": core.cps(small), "generator": kind,
            "real": rr, "specification": ss}, found_input=True)
    elif corr:
        cfg, text, kind, r, m = corr[0]
        core.violation(ctx, "correspondence", {
            "what": "correspondence parse: model and implementation disagree; no input found on which the real "
                    "loader returns a module for ill-formed text",
            "cfg": cfg, "text": text, "text_cps": core.cps(text), "real": r, "model": m}, found_input=False)
    elif not lean["ok"]:
        core.violation(ctx, "proof", {"what": "C05 proof obligations no longer check",
                                      "broken": lean["problems"]}, found_input=False)
    samples = [{"cfg": c, "text": t[:80], "kind": k, "real": pf.outcome_class(r),
                "spec": ("WF" if specs and specs[i] != "ILL" else "ILL")}
               for i, ((c, t), k, r) in enumerate(zip(cases, kinds, reals))][::max(1, len(cases) // 8)][:8]
    cov = {
        "evaluations": len(cases),
        "distinct_nontrivial": len(nontriv),
        "rule": "C06's inputs (exhaustive short strings, fragments, damaged / well-formed generated labels, "
                "tests/data and cut variants) plus %d more token-damaged labels per configuration; for each the "
                "real loader's outcome is judged by the Lean specification specLoad (independent LL(2) grammar over "
                "classified tokens) and compared with the parser model; non-trivial = the real loader returned a "
                "module for a text longer than 3 characters (those are the cases the predicate constrains)" % nd,
        "verdict_matrix": dict(verdicts),
        "input_kinds": dict(kindc),
        "samples": samples,
        "theorems": lean["names"],
        "lean_problems": lean["problems"],
        "correspondence_disagreements": len(corr),
        "sane_hypothesis": {"holds": sane.get("true", 0), "fails": sane.get("false", 0), "example_where_it_fails": insane_example,
                            "meaning": "Sane (a block keyword token is not also white space, a delimiter, a value, units, "
                                       "a name or END) is the hypothesis of C05_blocks_accounted / C05_unbalanced_rejected; "
                                       "the driver evaluates it on the token list of every input"},
        "unlisted_predicate_failures": len(bad),
    }
    return core.finish(ctx, "proof", lean["obligations"], lean["discharged"],
                       "cd lean && lake build PvlModel.Props.C05 && lake env lean <#print axioms file>", cov,
                       ["token classes for names are the implementation's own predicate (is_parameter_name); "
                        "whether a name is a legal ODL identifier is C17's subject",
                        "EmptyValue line numbers are judged by C08, not here"])


def replay(ctx, path):
    d = json.load(open(path))
    drv = core.Driver()
    r = io.real_parse(io.make_parser(d["cfg"]), d["text"], 2.0)
    s = json.loads(drv.run(spec_lines([(d["cfg"], d["text"])]))[0])
    print(json.dumps({"cfg": d["cfg"], "text": d["text"], "real": r, "specification": s}, indent=1)[:3000])
    if judge(r, s):
        print("VIOLATION property=C05 replay=%s" % path)
        return 1
    return 0
