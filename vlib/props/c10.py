"""C10 — multi-dict list view and mapping view agree after any operation history.

Lean: PvlModel/Props/C10.lean (C10_step, C10_history, C10_observers, C10_eq) about
Model/MultiDict.lean.  Correspondence: every history is run on the real classes and on the
model + specification (driver `md`); all public accessors are compared after every step."""
import itertools, json, os
from .. import core

PROP_MODULES = ["PvlModel.Props.C10"]
KEYS = ["k0", "k1", "k2"]


def classes():
    from pvl.collections import OrderedMultiDict, PVLModule, PVLGroup, PVLObject
    return [OrderedMultiDict, PVLModule, PVLGroup, PVLObject]


# ------------------------------------------------------------------ op encoding
# op = tuple; first element the protocol tag

def enc_pairs(ps):
    return "%d %s" % (len(ps), " ".join("%d %d" % p for p in ps)) if ps else "0"


def enc_op(op):
    t = op[0]
    if t in ("A", "S", "SD"):
        return "%s %d %d" % (t, op[1], op[2])
    if t in ("E", "U"):
        return "%s %s" % (t, enc_pairs(op[1]))
    if t == "I":
        return "I %d %s" % (op[1], enc_pairs(op[2]))
    if t in ("IB", "IA"):
        return "%s %d %d %s" % (t, op[1], op[3], enc_pairs(op[2]))
    if t in ("D", "DC"):
        return "%s %d" % (t, op[1])
    if t in ("PK", "PA"):
        return "%s %d %s" % (t, op[1], "-" if op[2] is None else str(op[2]))
    return t  # P PI C


def kname(i):
    return "k%d" % i


def apply_real(m, op, form):
    """Apply one op to the real container, return canonical output string."""
    import warnings
    t = op[0]
    try:
        with warnings.catch_warnings():
            warnings.simplefilter("ignore")
            if t == "A":
                m.append(kname(op[1]), op[2]); return "N"
            if t == "E":
                ps = [(kname(k), v) for k, v in op[1]]
                uniq = len({k for k, _ in ps}) == len(ps)
                if form % 3 == 1 and uniq:
                    m.extend(dict(ps))
                elif form % 3 == 2 and uniq:
                    m.extend(**dict(ps))
                else:
                    m.extend(ps)
                return "N"
            if t == "I":
                ps = [(kname(k), v) for k, v in op[2]]
                if len(ps) == 1 and form % 3 == 1:
                    m.insert(op[1], ps[0][0], ps[0][1])
                elif len(ps) == 1 and form % 3 == 2:
                    m.insert(op[1], ps[0])
                else:
                    m.insert(op[1], ps)
                return "N"
            if t in ("IB", "IA"):
                ps = [(kname(k), v) for k, v in op[2]]
                arg = ps[0] if (len(ps) == 1 and form % 2 == 1) else ps
                (m.insert_before if t == "IB" else m.insert_after)(kname(op[1]), arg, op[3])
                return "N"
            if t == "S":
                m[kname(op[1])] = op[2]; return "N"
            if t == "D":
                del m[kname(op[1])]; return "N"
            if t == "P":
                k, v = m.pop(); return "P%s:%d" % (k[1:], v)
            if t == "PI":
                k, v = m.popitem(); return "P%s:%d" % (k[1:], v)
            if t == "PK":
                r = m.pop(kname(op[1])) if op[2] is None else m.pop(kname(op[1]), op[2])
                return "V%d" % r
            if t == "PA":
                r = m.popall(kname(op[1])) if op[2] is None else m.popall(kname(op[1]), op[2])
                return "V%d" % r
            if t == "SD":
                r = m.setdefault(kname(op[1]), op[2]); return "V%d" % r
            if t == "U":
                ps = [(kname(k), v) for k, v in op[1]]
                uniq = len({k for k, _ in ps}) == len(ps)
                if form % 3 == 1 and uniq:
                    m.update(dict(ps))
                elif form % 3 == 2 and uniq:
                    m.update(**dict(ps))
                else:
                    m.update(ps)
                return "N"
            if t == "DC":
                m.discard(kname(op[1])); return "N"
            if t == "C":
                m.clear(); return "N"
    except KeyError:
        return "EK"
    except IndexError:
        return "EI"
    except TypeError:
        return "ET"
    except Exception as e:  # anything else is reported verbatim
        return "E!" + type(e).__name__
    return "E!unknown-op"


def ex(fn, fmt):
    try:
        return fmt(fn())
    except KeyError:
        return "EK"
    except IndexError:
        return "EI"
    except TypeError:
        return "ET"
    except Exception as e:
        return "E!" + type(e).__name__


def obs_real(m, nkeys):
    try:
        return obs_real_(m, nkeys)
    except Exception as e:
        try:
            items = "[" + ",".join("%s:%d" % (k[1:], v) for k, v in list(m)) + "]"
        except Exception:
            items = "[?]"
        return items + "|!view:observer-raised-" + type(e).__name__


def obs_real_(m, nkeys):
    import warnings
    with warnings.catch_warnings():
        warnings.simplefilter("ignore")
        items = list(m)
        n = len(items)
        bad = []
        # every list-like observer must show the same list
        if len(m) != n: bad.append("len")
        if list(m.keys()) != [k for k, _ in items]: bad.append("keys")
        if list(m.values()) != [v for _, v in items]: bad.append("values")
        if list(m.items()) != items: bad.append("items")
        if len(m.keys()) != n or len(m.values()) != n or len(m.items()) != n: bad.append("viewlen")
        for i in range(-n, n):
            if m[i] != items[i]: bad.append("idx%d" % i)
            if m.keys()[i] != items[i][0] or m.values()[i] != items[i][1] or m.items()[i] != items[i]:
                bad.append("viewidx%d" % i)
        for i in (n, -n - 1):
            try:
                m[i]; bad.append("idx-no-IndexError")
            except IndexError:
                pass
        for a, b in ((None, None), (1, None), (None, -1), (-2, 5), (1, 2)):
            if m[a:b] != items[a:b]: bad.append("slice")
        for k, v in items:
            if (k, v) not in m.items(): bad.append("items-in")
            if v not in m.values(): bad.append("values-in")
            if k not in m.keys(): bad.append("keys-in")
        if 987654 in m.values(): bad.append("values-in-absent")
        per = []
        for i in range(nkeys):
            k = kname(i)
            c = 1 if k in m else 0
            gi = ex(lambda: m[k], lambda v: "V%d" % v)
            g = m.get(k)
            g2 = m.get(k, 4242)
            vals = [v for kk, v in items if kk == k]
            if c and (g != m[k] or g2 != m[k]): bad.append("get")
            if not c and (g is not None or g2 != 4242): bad.append("get-default")
            if (k in m.keys()) != bool(c): bad.append("keysview-in")
            ga = ex(lambda: m.getall(k), lambda l: "[" + ",".join(map(str, l)) + "]")
            gl = m.getlist(k)
            if gl != vals: bad.append("getlist")
            k0 = ex(lambda: m.key_index(k), str)
            k1 = ex(lambda: m.key_index(k, -1), str)
            per.append("%d=%d,%s,%s,%s,%s" % (i, c, gi, ga, k0, k1))
        s = "[" + ",".join("%s:%d" % (k[1:], v) for k, v in items) + "]|" + ";".join(per)
        if bad:
            s += "!view:" + "+".join(sorted(set(bad)))
        return s


def run_real(cls, ops, nkeys, forms):
    m = cls()
    steps = []
    for op, form in zip(ops, forms):
        o = apply_real(m, op, form)
        steps.append(o + "|" + obs_real(m, nkeys))
    return steps, m


def op_alphabet(nk=2, vals=(1, 2)):
    ks = list(range(nk))
    ops = []
    for k in ks:
        for v in vals:
            ops += [("A", k, v), ("S", k, v), ("SD", k, v)]
        ops += [("D", k), ("DC", k), ("PK", k, None), ("PK", k, 7), ("PA", k, None)]
    ops += [("P",), ("PI",), ("C",)]
    two = [(0, 1), (1, 2)]
    dup = [(0, 1), (0, 2)]
    ops += [("E", two), ("E", dup), ("U", two), ("U", dup), ("U", [(1, 1)])]
    for i in (-1, 0, 1, -5, 9):
        ops += [("I", i, [(0, 2)]), ("I", i, two)]
    for k in ks:
        ops += [("IB", k, [(1, 1)], 0), ("IA", k, two, 0), ("IA", k, [(0, 2)], -1), ("IB", k, [(0, 1)], 1)]
    return ops


def random_op(rng, nk=3):
    k = lambda: rng.randrange(nk)
    v = lambda: rng.randrange(5)
    ps = lambda: [(k(), v()) for _ in range(rng.randrange(0, 4))]
    t = rng.choice(["A", "A", "A", "S", "S", "SD", "D", "DC", "PK", "PA", "P", "PI", "C", "E", "U",
                    "I", "I", "IB", "IA"])
    if t in ("A", "S", "SD"): return (t, k(), v())
    if t in ("D", "DC"): return (t, k())
    if t in ("PK", "PA"): return (t, k(), rng.choice([None, 7]))
    if t in ("E", "U"): return (t, ps())
    if t == "I": return (t, rng.randrange(-8, 9), ps())
    if t in ("IB", "IA"): return (t, k(), ps(), rng.randrange(-3, 3))
    return (t,)


def forms_for(ops, salt):
    return [(hash((salt, i, op[0])) & 0xffff) for i, op in enumerate(ops)]


def compare(ops, nkeys, model_line, cls_list, salt):
    """Returns None or a dict describing the first disagreement."""
    try:
        mpart, spart = model_line[2:].split(" ## S ")
    except ValueError:
        return {"what": "driver output malformed", "model": model_line}
    msteps = mpart.split(" # ") if mpart else []
    ssteps = spart.split(" # ") if spart else []
    forms = forms_for(ops, salt)
    for cls in cls_list:
        rsteps, _ = run_real(cls, ops, nkeys, forms)
        for i, (r, s, m) in enumerate(zip(rsteps, ssteps, msteps)):
            if r != s:
                return {"what": "real container differs from the list-of-pairs specification",
                        "kind": "property", "cls": cls.__name__, "step": i, "op": ops[i],
                        "real": r, "spec": s, "model": m}
            if m != s:
                return {"what": "two-representation model differs from the specification "
                                "(contradicts theorem C10_step in execution)",
                        "kind": "model", "step": i, "op": ops[i], "spec": s, "model": m}
    return None


def shrink(ops, nkeys, drv, cls_list, salt):
    cur = list(ops)
    changed = True
    while changed:
        changed = False
        for i in range(len(cur)):
            cand = cur[:i] + cur[i + 1:]
            if not cand:
                continue
            line = drv.run(["md %d %s" % (nkeys, " ".join(enc_op(o) for o in cand))])[0]
            if compare(cand, nkeys, line, cls_list, salt):
                cur = cand
                changed = True
                break
    return cur


def eq_check(rng, cls_list, n):
    """__eq__: two containers of the same class are equal exactly when their lists are equal."""
    bad = None
    cnt = 0
    for _ in range(n):
        cls = rng.choice(cls_list)
        base = [random_op(rng, 2) for _ in range(rng.randrange(0, 5))]
        other = list(base) if rng.random() < 0.5 else [random_op(rng, 2) for _ in range(rng.randrange(0, 5))]
        a, _ = None, None
        ra, ma = run_real(cls, base, 2, forms_for(base, 1))
        rb, mb = run_real(cls, other, 2, forms_for(other, 2))
        cnt += 1
        if (ma == mb) != (list(ma) == list(mb)) or (ma != mb) == (ma == mb):
            bad = {"what": "__eq__ disagrees with list equality", "kind": "property",
                   "cls": cls.__name__, "a": base, "b": other, "eq": ma == mb,
                   "lists_equal": list(ma) == list(mb)}
            break
        other_cls = [c for c in cls_list if not (isinstance(ma, c) and issubclass(c, type(ma)))]
    return cnt, bad


def run(ctx):
    lean = core.standard_lean_phase(ctx, PROP_MODULES)
    cls_list = classes()
    drv = core.Driver()
    rng = ctx.rng
    histories = []
    # corpus first
    corpus = os.path.join(core.VERIF, "corpus", "c10.jsonl")
    if os.path.exists(corpus):
        for line in open(corpus):
            line = line.strip()
            if line:
                histories.append((3, [tuple(o) if not isinstance(o, tuple) else o for o in
                                      json.loads(line, object_hook=None)]))
    alpha = op_alphabet()
    depth_ex = 2
    for d in range(1, depth_ex + 1):
        for h in itertools.product(alpha, repeat=d):
            histories.append((2, list(h)))
    n_ex = len(histories)
    n3 = 60000 if ctx.thorough() else 6000
    for _ in range(n3):
        histories.append((2, [rng.choice(alpha) for _ in range(3)]))
    nr = 20000 if ctx.thorough() else 2500
    for _ in range(nr):
        histories.append((3, [random_op(rng) for _ in range(rng.randrange(1, 41))]))

    def fix(o):
        # json round trip turns tuples into lists
        o = list(o)
        for i, x in enumerate(o):
            if isinstance(x, list):
                o[i] = [tuple(p) for p in x]
        return tuple(o)
    histories = [(nk, [fix(o) for o in ops]) for nk, ops in histories]

    found = None
    model_ok = lean["ok"] and os.path.exists(drv.exe)
    evals = 0
    distinct = set()
    opcount = {}
    outkinds = {}
    samples = []
    if model_ok:
        lines = ["md %d %s" % (nk, " ".join(enc_op(o) for o in ops)) for nk, ops in histories]
        outs = drv.run(lines)
        for idx, ((nk, ops), out) in enumerate(zip(histories, outs)):
            use = cls_list if idx % 7 == 0 else [cls_list[idx % 4]]
            bad = compare(ops, nk, out, use, idx)
            evals += 1
            key = out.split(" ## S ")[-1]
            if len(ops) >= 2 and "[" in key:
                distinct.add(hash(lines[idx]))
            for o in ops:
                opcount[o[0]] = opcount.get(o[0], 0) + 1
            for st in key.split(" # "):
                outkinds[st[:2] if st[:1] == "E" else st[:1]] = outkinds.get(st[:2] if st[:1] == "E" else st[:1], 0) + 1
            if idx % 1500 == 0 and len(samples) < 6:
                samples.append({"history": [list(map(str, o)) for o in ops], "final": key.split(" # ")[-1][:200]})
            if bad:
                small = shrink(ops, nk, drv, cls_list, idx) if bad.get("kind") == "property" else ops
                line2 = drv.run(["md %d %s" % (nk, " ".join(enc_op(o) for o in small))])[0]
                bad2 = compare(small, nk, line2, cls_list, idx) or bad
                bad2["history"] = [list(o) for o in small]
                bad2["protocol"] = "md %d %s" % (nk, " ".join(enc_op(o) for o in small))
                found = bad2
                break
    neq, badeq = eq_check(rng, cls_list, 4000 if ctx.thorough() else 600)
    evals += neq
    if found is None and badeq:
        found = badeq

    if found is not None:
        core.violation(ctx, "history", found, found_input=(found.get("kind") == "property"))
    elif not lean["ok"]:
        # proof / build no longer checks: search the implementation against a Python rendering
        # of the specification (same rules as Spec.step) for a failing history
        fi = fallback_search(ctx, cls_list, histories)
        if fi:
            core.violation(ctx, "history", fi, found_input=True)
        else:
            core.violation(ctx, "proof", {"what": "C10 proof obligations no longer check",
                                          "broken": lean["problems"]}, found_input=False)
    cov = {
        "evaluations": evals,
        "distinct_nontrivial": len(distinct),
        "rule": "histories: corpus, then every sequence of length<=%d over a %d-operation alphabet "
                "(2 keys x 2 values, all 15 operations incl. negative / out-of-range indexes and "
                "duplicate keys), %d random length-3 sequences over it, %d random histories of "
                "length 1..40 over 3 keys; each run on the real classes (all four every 7th case) "
                "and on model+spec; non-trivial = at least two operations and a state line, "
                "distinct by protocol text" % (depth_ex, len(alpha), n3, nr),
        "exhaustive_prefix": n_ex,
        "samples": samples,
        "operation_counts": opcount,
        "result_kinds": outkinds,
        "theorems": lean["names"],
        "lean_problems": lean["problems"],
        "eq_pairs": neq,
    }
    return core.finish(ctx, "proof", lean["obligations"], lean["discharged"],
                       "cd lean && lake build PvlModel.Props.C10 && lake env lean <#print axioms file>",
                       cov, ["keys are str, values are int in the correspondence runs; "
                             "update() is exercised with pair lists, plain dicts and keyword arguments"])


# -- fallback: Python rendering of the specification, used only when the Lean side is broken
def py_spec_step(l, op):
    t = op[0]
    def norm(i, n):
        return max(i + n, 0) if i < 0 else min(i, n)
    def assign(l, k, v):
        if any(kk == k for kk, _ in l):
            out, done = [], False
            for kk, vv in l:
                if kk == k:
                    if not done:
                        out.append((k, v)); done = True
                else:
                    out.append((kk, vv))
            return out
        return l + [(k, v)]
    def kidx(l, k, inst):
        pos = [i for i, (kk, _) in enumerate(l) if kk == k]
        if not pos: return "EK"
        try: return pos[inst]
        except IndexError: return "EI"
    if t == "A": return l + [(op[1], op[2])], "N"
    if t == "E": return l + list(op[1]), "N"
    if t == "I":
        j = norm(op[1], len(l)); return l[:j] + list(op[2]) + l[j:], "N"
    if t in ("IB", "IA"):
        i = kidx(l, op[1], op[3])
        if isinstance(i, str): return l, i
        j = norm(i + (1 if t == "IA" else 0), len(l)); return l[:j] + list(op[2]) + l[j:], "N"
    if t == "S": return assign(l, op[1], op[2]), "N"
    if t == "D":
        if not any(k == op[1] for k, _ in l): return l, "EK"
        return [p for p in l if p[0] != op[1]], "N"
    if t in ("P", "PI"):
        if not l: return l, "EK"
        return l[:-1], "P%d:%d" % l[-1]
    if t in ("PK", "PA"):
        vs = [v for k, v in l if k == op[1]]
        if vs: return [p for p in l if p[0] != op[1]], "V%d" % vs[0]
        return (l, "EK") if op[2] is None else (l, "V%d" % op[2])
    if t == "SD":
        vs = [v for k, v in l if k == op[1]]
        if vs: return l, "V%d" % vs[0]
        return l + [(op[1], op[2])], "V%d" % op[2]
    if t == "U":
        for k, v in op[1]: l = assign(l, k, v)
        return l, "N"
    if t == "DC": return [p for p in l if p[0] != op[1]], "N"
    if t == "C": return [], "N"


def fallback_search(ctx, cls_list, histories):
    for idx, (nk, ops) in enumerate(histories[:20000]):
        l = []
        forms = forms_for(ops, idx)
        m = cls_list[idx % 4]()
        for i, (op, form) in enumerate(zip(ops, forms)):
            l, o = py_spec_step(l, op)
            r = apply_real(m, op, form)
            real_items = [(int(k[1:]), v) for k, v in list(m)]
            if r != o or real_items != l or "!view" in obs_real(m, nk):
                return {"what": "real container differs from the list-of-pairs specification "
                                "(Python rendering; Lean side broken)", "kind": "property",
                        "history": [list(o2) for o2 in ops[:i + 1]], "real_out": r, "spec_out": o,
                        "real_items": real_items, "spec_items": l}
    return None


def replay(ctx, path):
    d = json.load(open(path))
    cls_list = classes()
    drv = core.Driver()
    core.extract(); core.lake_build(["driver"])
    ops = []
    for o in d.get("history", []):
        o = list(o)
        for i, x in enumerate(o):
            if isinstance(x, list):
                o[i] = [tuple(p) for p in x]
        ops.append(tuple(o))
    line = drv.run(["md 3 %s" % " ".join(enc_op(o) for o in ops)])[0]
    bad = compare(ops, 3, line, cls_list, 0)
    print(json.dumps({"history": [list(o) for o in ops], "disagreement": bad}, indent=1, default=str))
    if bad:
        print("VIOLATION property=C10 replay=%s" % path)
        return 1
    return 0
