"""C01 — dump then strict load in the same dialect returns the original module.
(C02 reuses this module with MODE='omni': read back with the default permissive loader.)"""
import json, os, re, collections, copy, datetime, multiprocessing as mp
from .. import core, gen, encio, parsefam as pf
from .. import pvlio as io
from ..pvlio import PVLModule, PVLGroup, PVLObject, Quantity, EmptyValueAtLine

PROP_MODULES = ["PvlModel.Props.C01"]
UTC = datetime.timezone.utc
KEY_RE = re.compile(r"\^?[A-Za-z][A-Za-z0-9_]*(:[A-Za-z][A-Za-z0-9_]*)?")
KEYWORDS = {"END", "GROUP", "OBJECT", "END_GROUP", "END_OBJECT", "BEGIN_GROUP", "BEGIN_OBJECT", "NULL", "TRUE",
            "FALSE", "NAN", "INF", "INFINITY"}


def key_ok(k):
    return bool(KEY_RE.fullmatch(k)) and not any(p.endswith("_") for p in k.lstrip("^").split(":")) \
        and k.upper() not in KEYWORDS and len(k) <= 30


def representable(enc, v):
    """the quantifier's 'values a dialect can represent': names are parameter names of the dialect,
    units texts hold no units delimiter and no outer white space, floats are finite.  Everything else
    (character set, ODL restrictions) the encoder must either write faithfully or refuse."""
    if isinstance(v, (PVLModule, PVLGroup, PVLObject)):
        return all(key_ok(k) and representable(enc, x) for k, x in v)
    if isinstance(v, Quantity):
        u = v.units
        return representable(enc, v.value) and "<" not in u and ">" not in u and u == u.strip() and u != ""
    if isinstance(v, (list, set, frozenset)):
        return all(representable(enc, x) for x in v)
    if isinstance(v, float):
        return v == v and v not in (float("inf"), float("-inf"))
    return True


def is_pds_group(items):
    for k, v in items:
        if isinstance(v, (PVLGroup, PVLObject, PVLModule)):
            return False
        if k.startswith("^") and (isinstance(v, int) or (isinstance(v, Quantity) and isinstance(v.value, int))):
            return False
    keys = [k for k, _ in items]
    return len(keys) == len(set(keys))


def norm(enc, reader, v, cfg, top=False):
    """the documented normalisations of C01, as one function of the original value."""
    fold = reader in ("ODL", "PDS3", "ISIS", "OMNI")
    utc_default = reader in ("PVL", "PDS3", "ISIS", "OMNI")
    if isinstance(v, (PVLModule, PVLGroup, PVLObject)):
        items = []
        conv_first = None
        lst = list(v)
        if enc == "PDS3" and top:
            ngrp = sum(isinstance(x, PVLGroup) for _, x in lst)
            nobj = sum(isinstance(x, (PVLObject, PVLModule)) for _, x in lst)
            if ngrp > 0 and nobj == 0:
                cand = [i for i, (_, x) in enumerate(lst) if isinstance(x, PVLGroup) and not is_pds_group(list(x))]
                if not cand:
                    cand = [i for i, (_, x) in enumerate(lst) if isinstance(x, PVLGroup)]
                conv_first = cand[0]
        for i, (k, x) in enumerate(lst):
            if isinstance(x, (PVLModule, PVLGroup, PVLObject)):
                nx = norm(enc, reader, x, cfg)
                cls = PVLGroup if isinstance(x, PVLGroup) else PVLObject
                if enc == "PDS3" and cls is PVLGroup and (i == conv_first or not is_pds_group(list(x))):
                    cls = PVLObject
                items.append((k, cls(list(nx))))
            else:
                kk = k.upper() if enc in ("ODL", "PDS3") else k
                items.append((kk, norm(enc, reader, x, cfg)))
        return type(v)(items) if not top else PVLModule(items)
    if isinstance(v, Quantity):
        u = v.units
        if enc == "PDS3" and isinstance(u, str) and "\t" in u:
            # the documented tab_replace option of the PDS3 encoder (a tab is not a PDS3 character): in a string it
            # disappears in the reader's white-space folding, in a units expression it is visible
            n = encio.effective_cfg(enc, cfg)["tab_replace"]
            if n > 0:
                u = u.replace("\t", " " * n)
        return Quantity(norm(enc, reader, v.value, cfg), u)
    if isinstance(v, list):
        return [norm(enc, reader, x, cfg) for x in v]
    if isinstance(v, (set, frozenset)):
        return frozenset(norm(enc, reader, x, cfg) for x in v)
    if isinstance(v, EmptyValueAtLine):
        return ""
    if isinstance(v, str):
        return gen.fold_spec(v) if fold else v
    if isinstance(v, datetime.datetime) or isinstance(v, datetime.time):
        if v.tzinfo is None and utc_default:
            return v.replace(tzinfo=UTC)
        return v
    return v


def canon_j(j):
    """sets and frozensets are the same thing for the comparison"""
    if isinstance(j, dict):
        t = j.get("t")
        if t in ("FS", "SET"):
            return {"t": "FS", "v": sorted((canon_j(x) for x in j["v"]), key=io.jkey)}
        return {k: canon_j(x) for k, x in j.items()}
    if isinstance(j, list):
        return [canon_j(x) for x in j]
    return j


def same_instant(a, b):
    """temporal equality that does not depend on how the zone is spelled"""
    return a == b


def _work(args):
    """runs in a worker: the module travels as JSON (pickling these containers is C11's subject);
    the model's protocol line is produced from the very object that is dumped, so that sets are
    listed in the iteration order the encoder sees."""
    enc, cfg, mj, reader = args
    m = io.j_to_py(mj)
    line = encio.model_line(enc, cfg, m)
    out, after = encio.real_encode(enc, cfg, m)
    if "ok" not in out:
        return out, None, line
    text = encio.text_of(out)
    if reader == "OMNI":
        def go():
            return io.pvl.loads(text)
        try:
            mod = core.with_timer(5.0, go)
            r = {"ok": io.py_to_j(mod), "errors": list(mod.errors)}
        except BaseException as e:  # noqa
            if isinstance(e, (KeyboardInterrupt, SystemExit)):
                raise
            r = {"fail": io.exc_to_j(e)}
    else:
        r = io.real_parse(io.make_parser(reader), text, 5.0)
    return out, r, line


# words that are identifiers to the strict dialects but that a laxer reader could take for a number, a time or a
# duration (ISO 8601 basic forms, float() words): as a parameter name, as a block name and as a string value, in
# every run — not left to chance
NAMELIKE = ["T12", "T1200", "T120000", "T12Z", "W01", "Z", "inf", "nan", "Infinity", "NaN4", "E5", "e5", "x1e5",
            "P1D", "PT1H", "R5", "J2000", "D2001", "T24"]


def generate(ctx, n):
    rng = ctx.rng
    cases = []
    for enc in encio.ENCODERS:
        for w in NAMELIKE:
            for m in (PVLModule([(w, 1)]), PVLModule([("A", 1), (w, PVLObject([("N", 1)]))]), PVLModule([("A", w)])):
                if representable(enc, m):
                    cases.append((enc, {}, m))
    for enc in encio.ENCODERS:
        og = gen.ObjGen(rng, enc)
        tries = 0
        got = 0
        while got < n and tries < n * 6:
            tries += 1
            m = og.module()
            if not representable(enc, m):
                continue
            cases.append((enc, og.cfg(), m))
            got += 1
    return cases


def reader_of(mode, enc):
    return "OMNI" if mode == "omni" else encio.STRICT_OF[enc]


def run(ctx, mode="strict", prop="C01"):
    lean = core.standard_lean_phase(ctx, ["PvlModel.Props." + prop])
    drv = core.Driver()
    n = 3000 if ctx.thorough() else 450
    cases = generate(ctx, n)
    for rec in pf.load_corpus(prop.lower() + ".jsonl"):
        pass
    work = [(enc, cfg, io.py_to_j(m), reader_of(mode, enc)) for enc, cfg, m in cases]
    if len(work) > 300:
        with mp.Pool(16) as pool:
            res = pool.map(_work, work, chunksize=max(1, len(work) // 128))
    else:
        res = [_work(w) for w in work]
    have = os.path.exists(drv.exe)
    mouts = [json.loads(o) for o in drv.run([x[2] for x in res])] if have else None
    kf = [f for f in core.load_known()["findings"] if f["property"] == prop]
    stats = collections.Counter()
    bad = corr = None
    kinds = collections.Counter()
    for i, ((enc, cfg, m), (out, r, _line)) in enumerate(zip(cases, res)):
        reader = reader_of(mode, enc)
        if "ok" not in out:
            stats["%s:refused-%s" % (enc, out["fail"])] += 1
            if out["fail"] not in ("ValueError", "TypeError") and bad is None:
                bad = {"what": "dump failed with %s (only ValueError/TypeError are refusals)" % out["fail"],
                       "encoder": enc, "cfg": cfg, "module": io.py_to_j(m)}
        else:
            exp = canon_j(io.py_to_j(norm(enc, reader, m, cfg, top=True)))
            why = None
            if "ok" not in r:
                why = "text written by %s is rejected by the %s loader (%s)" % (enc, reader, r["fail"]["err"])
            else:
                got = canon_j(r["ok"])
                if got != exp:
                    from .c03 import first_diff
                    why = "module read back differs from the original beyond the documented normalisations: " \
                          + first_diff(got, exp)
                elif mode == "omni" and r.get("errors"):
                    why = "default loader reported empty values %s on conformant text" % r["errors"]
            stats["%s:%s" % (enc, "roundtrip" if not why else "MISMATCH")] += 1
            if why and bad is None:
                bad = {"what": why, "encoder": enc, "reader": reader, "cfg": cfg, "module": io.py_to_j(m),
                       "module_repr": repr(list(m))[:1500], "text": encio.text_of(out), "loaded": r, "expected": exp}
        if mouts is not None and corr is None and not encio.out_equal(out, mouts[i]):
            corr = {"what": "correspondence encode: model and implementation disagree", "encoder": enc, "cfg": cfg,
                    "module": io.py_to_j(m), "real": out if "fail" in out else encio.text_of(out),
                    "model": mouts[i].get("fail") or "".join(chr(c) for c in mouts[i]["ok"])}
    if bad:
        core.violation(ctx, "module", bad, True)
    elif corr:
        core.violation(ctx, "correspondence", corr, False)
    elif not lean["ok"]:
        core.violation(ctx, "proof", {"what": prop + " proof obligations no longer check", "broken": lean["problems"]}, False)
    for f in kf:
        ctx.known_hits.append("%s %s" % (f["id"], f["what"]))
    cov = {
        "evaluations": len(cases),
        "distinct_nontrivial": len({json.dumps(io.py_to_j(m), sort_keys=True) + json.dumps(c, sort_keys=True) + e
                                    for e, c, m in cases if len(list(m)) > 0}),
        "rule": "%d generated modules per encoder (nested groups/objects, duplicate keys, every value kind with the "
                "border-line pools of vlib/gen.py: keyword-/number-/date-like strings, empty and blank strings, both "
                "quotes, tabs, long sequences of quoted strings, year 1..9999, sub-millisecond and zone-offset "
                "times, sets, quantities) x sampled option combinations (indent, width 10..1000, newline, end names, "
                "delimiters, PDS options); dump, then %s load; result compared with norm(original); encode output "
                "also compared with the encoder model" % (n, "default permissive" if mode == "omni" else "strict same-dialect"),
        "outcomes": dict(stats),
        "samples": [{"encoder": e, "cfg": c, "module": repr(list(m))[:200]} for e, c, m in cases[::max(1, len(cases) // 6)][:6]],
        "theorems": lean["names"], "lean_problems": lean["problems"],
    }
    return core.finish(ctx, "proof", lean["obligations"], lean["discharged"],
                       "cd lean && lake build PvlModel.Props.%s && lake env lean <#print axioms file>" % prop, cov,
                       ["'representable': names are parameter names (identifier, ^pointer, namespace:name, <=30 chars), "
                        "units text has no delimiter / outer blanks, floats finite; everything else must be written "
                        "faithfully or refused"])


def replay(ctx, path, mode="strict", prop="C01"):
    d = json.load(open(path))
    if "module" not in d or "encoder" not in d:
        print("nothing to replay"); return 0
    m = io.j_to_py(d["module"])
    out, r, _ = _work((d["encoder"], d["cfg"], d["module"], reader_of(mode, d["encoder"])))
    print(json.dumps({"dump": out if "fail" in out else encio.text_of(out), "loaded": r}, indent=1)[:3000])
    if "ok" in out:
        exp = canon_j(io.py_to_j(norm(d["encoder"], reader_of(mode, d["encoder"]), m, d["cfg"], top=True)))
        if "ok" not in r or canon_j(r["ok"]) != exp:
            print("VIOLATION property=%s replay=%s" % (prop, path))
            return 1
    return 0
