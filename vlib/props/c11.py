"""C11 — copies of a container are equal, independent and leave the original intact."""
import json, os, collections, copy, pickle
from .. import core, gen
from .. import pvlio as io
from ..pvlio import PVLModule, PVLGroup, PVLObject, OrderedMultiDict

PROP_MODULES = ["PvlModel.Props.C11"]
MECH = {
    "method-copy": lambda m: m.copy(),
    "copy.copy": copy.copy,
    "copy.deepcopy": copy.deepcopy,
    "pickle": lambda m: pickle.loads(pickle.dumps(m)),
}
DEEP = {"copy.deepcopy", "pickle"}


def classes(v):
    if isinstance(v, OrderedMultiDict):
        return [type(v).__name__, [classes(x) for _, x in v]]
    if isinstance(v, list):
        return ["list", [classes(x) for x in v]]
    return type(v).__name__


def snap(m):
    """both views of a container at every level: the item list and, per key, lookup and getall"""
    def one(c):
        keys = []
        for k, _ in c:
            if k not in keys:
                keys.append(k)
        per = []
        for k in keys:
            try:
                per.append((k, repr(c[k]), repr(c.getall(k))))
            except Exception as e:
                per.append((k, "raised " + type(e).__name__))
        return (repr(c), per, [one(v) for _, v in c if isinstance(v, OrderedMultiDict)])
    return repr(one(m))


def build(rng, cls, depth=0):
    n = rng.randrange(0, 5)
    items = []
    keys = ["a", "b", "c"]
    for _ in range(n):
        k = rng.choice(keys)
        r = rng.random()
        if r < 0.5 or depth >= 2:
            v = rng.choice([1, 2.5, "x", None, True])
        elif r < 0.7:
            v = [rng.randrange(5), [rng.randrange(5)]]
        else:
            v = build(rng, rng.choice([PVLGroup, PVLObject, OrderedMultiDict]), depth + 1)
        items.append((k, v))
    return cls(items)


def nested_containers(m, path=()):
    out = []
    for i, (k, v) in enumerate(m):
        if isinstance(v, OrderedMultiDict):
            out.append((path + (i,), v))
            out += nested_containers(v, path + (i,))
    return out


def nested_lists(m):
    out = []
    for i, (k, v) in enumerate(m):
        if isinstance(v, list):
            out.append(v)
        elif isinstance(v, OrderedMultiDict):
            out += nested_lists(v)
    return out


def shared_lists(a, b, deep):
    """the model's separation (Heap.Sep) observed on the real objects: which private lists do the two
    containers share?  (the item list `__items`, the value list of each key; nested levels if `deep`)"""
    out = []
    ia = getattr(a, "_OrderedMultiDict__items", None)
    ib = getattr(b, "_OrderedMultiDict__items", None)
    if ia is not None and ia is ib:
        out.append("__items")
    for k in dict.keys(a):
        if dict.__contains__(b, k) and dict.__getitem__(a, k) is dict.__getitem__(b, k):
            out.append("values of %r" % (k,))
    if deep:
        for (ka, va), (kb, vb) in zip(list(a), list(b)):
            if isinstance(va, OrderedMultiDict) and isinstance(vb, OrderedMultiDict):
                if va is vb:
                    out.append("nested container %r" % (ka,))
                else:
                    out += ["%r/%s" % (ka, x) for x in shared_lists(va, vb, True)]
            elif isinstance(va, list) and va is vb:
                out.append("nested list %r" % (ka,))
    return out


def identity_facts(rng, cls):
    """the in-place / rebind facts of the heap model (append_keeps_item_list, delitem_rebinds_item_list,
    setitem_existing_rebinds_values, popLast_keeps_item_list, extend_keeps_item_list, clear_rebinds_item_list, insert_keeps_item_list,
    insert_existing_rebinds_values, update_keeps_item_list, popall_present_rebinds_item_list, discard_absent_noop) observed on a real object -> list of complaints"""
    out = []
    m = build(rng, cls)
    m.append("k1", 1); m.append("k2", 2); m.append("k1", 3)
    items = lambda: getattr(m, "_OrderedMultiDict__items")
    i0 = items(); v0 = dict.__getitem__(m, "k1")
    m.append("k1", 4)
    if items() is not i0 or dict.__getitem__(m, "k1") is not v0:
        out.append("append() no longer works in place on both lists")
    i0 = items()
    m.pop()
    if items() is not i0:
        out.append("pop() rebinds the item list (the model pops in place)")
    i0 = items(); v0 = dict.__getitem__(m, "k1")
    m["k1"] = 9
    if items() is not i0 or dict.__getitem__(m, "k1") is v0:
        out.append("__setitem__ on an existing key: the model keeps the item list and stores a fresh value list")
    i0 = items()
    del m["k2"]
    if items() is i0:
        out.append("__delitem__ edits the item list in place (the model rebinds it to a new list)")
    # extend_keeps_item_list, clear_rebinds_item_list
    i0 = items()
    m.extend([("k1", 5), ("k3", 6)])
    if items() is not i0:
        out.append("extend() rebinds the item list (the model appends in place)")
    # insert_keeps_item_list, insert_existing_rebinds_values
    i0 = items(); v0 = dict.__getitem__(m, "k1")
    m.insert(1, [("k1", 7), ("k4", 8)])
    if items() is not i0 or dict.__getitem__(m, "k1") is v0:
        out.append("insert(): the model edits the item list in place and stores a fresh value list for a present key")
    # update_keeps_item_list (+ setitem_existing_rebinds_values through MutableMapping.update),
    # popall_present_rebinds_item_list, discard_absent_noop
    i0 = items(); v0 = dict.__getitem__(m, "k1")
    m.update([("k1", 10), ("k5", 11)])
    if items() is not i0 or dict.__getitem__(m, "k1") is v0:
        out.append("update(): the model assigns pair by pair (item list kept, fresh value list for a present key)")
    i0 = items()
    m.popall("k4")
    if items() is i0:
        out.append("popall(key) edits the item list in place (the model rebinds it, as __delitem__ does)")
    i0 = items(); before = list(i0)
    import warnings
    with warnings.catch_warnings():
        warnings.simplefilter("ignore")
        m.discard("absent-key")
    if items() is not i0 or list(items()) != before:
        out.append("discard() of an absent key changes the container (the model changes nothing)")
    i0 = items()
    m.clear()
    if items() is i0 or len(dict.keys(m)) != 0:
        out.append("clear() empties the item list in place or keeps dict entries (the model rebinds to a new list and drops every entry)")
    return out


def mutate_top(rng, m):
    r = rng.random()
    try:
        if r < 0.2: m.append("zz", 99)
        elif r < 0.35 and len(m): m.pop()
        elif r < 0.5 and len(m): m[m[0][0]] = "changed"
        elif r < 0.6 and len(m): del m[m[-1][0]]
        elif r < 0.7: m.extend([("zz", 98), (m[0][0] if len(m) else "yy", 97)])
        elif r < 0.8: m.update([(m[-1][0] if len(m) else "yy", "updated"), ("uu", 96)])
        elif r < 0.85: m.clear()
        elif r < 0.92:
            import warnings
            with warnings.catch_warnings():
                warnings.simplefilter("ignore")
                m.discard(m[0][0] if len(m) and rng.random() < 0.7 else "absent")
        elif r < 0.96 and len(m): m.popall(m[rng.randrange(len(m))][0])
        else: m.insert(rng.randrange(-2, len(m) + 2), [("first", 0), (m[-1][0] if len(m) else "yy", 1)])
    except Exception:
        pass


def run(ctx):
    lean = core.standard_lean_phase(ctx, PROP_MODULES)
    rng = ctx.rng
    n = 3000 if ctx.thorough() else 500
    bad = None
    stats = collections.Counter()
    distinct = set()
    samples = []
    for cls in (OrderedMultiDict, PVLModule, PVLGroup, PVLObject):
        for w in identity_facts(rng, cls):
            stats["identity-fact-differs"] += 1
            if bad is None:
                bad = {"what": "correspondence with the heap model: " + w, "class": cls.__name__, "mechanism": "-",
                       "container": "-"}
        stats["identity-facts-checked"] += 4
    for i in range(n):
        cls = [OrderedMultiDict, PVLModule, PVLGroup, PVLObject][i % 4]
        m = build(rng, cls)
        if cls is PVLModule and rng.random() < 0.5:
            m.errors = [3, 1]
        srepr = snap(m)
        prepr = repr(m)
        distinct.add((cls.__name__, prepr))
        scls = classes(m)
        for name, fn in MECH.items():
            why = None
            try:
                c = core.with_timer(5.0, fn, m)
            except BaseException as e:  # noqa
                if isinstance(e, (KeyboardInterrupt, SystemExit)):
                    raise
                why = "%s raised %s" % (name, type(e).__name__)
                c = None
            stats[name + ":" + ("ok" if c is not None else "raised")] += 1
            if c is not None:
                if snap(m) != srepr:
                    why = "%s changed the original" % name
                elif not (c == m and m == c) or snap(c) != srepr:
                    why = "%s result is not equal to the original" % name
                elif classes(c) != scls:
                    why = "%s changed a container class: %s vs %s" % (name, classes(c), scls)
                elif c is m:
                    why = "%s returned the same object" % name
                elif shared_lists(c, m, name in DEEP):
                    # the hypothesis of the Lean theorem C11_independent (Sep) does not hold of the real objects
                    why = "the %s result shares private lists with the original (%s): the copy is not separate" % (
                        name, ", ".join(shared_lists(c, m, name in DEEP))[:200])
                else:
                    # independence of the top level
                    for _ in range(3):
                        mutate_top(rng, c)
                    if snap(m) != srepr:
                        why = "changing the top level of the %s result showed through in the original" % name
                    else:
                        c2 = fn(m)
                        keep = snap(c2)
                        m2 = fn(m)       # a stand-in for the original that we may damage
                        for _ in range(3):
                            mutate_top(rng, m2)
                        if snap(c2) != keep:
                            why = "changing another copy showed through in a %s result" % name
                    if why is None and name in DEEP:
                        c3 = fn(m)
                        for pth, sub in nested_containers(c3):
                            sub.append("deep", 1)
                        for l in nested_lists(c3):
                            l.append("deep")
                        if snap(m) != srepr:
                            why = "changing a nested level of the %s result showed through in the original" % name
                        # and vice versa
                        c4 = fn(m)
                        keep = snap(c4)
                        for pth, sub in nested_containers(m):
                            sub.append("deep", 1)
                        for l in nested_lists(m):
                            l.append("deep")
                        if snap(c4) != keep and why is None:
                            why = "changing a nested level of the original showed through in the %s result" % name
                        # restore the original for the next mechanism
                        for pth, sub in nested_containers(m):
                            sub.pop()
                        for l in nested_lists(m):
                            l.pop()
            if why and bad is None:
                bad = {"what": why, "mechanism": name, "class": cls.__name__, "container": prepr[:1500]}
        if i % 100 == 0 and len(samples) < 5:
            samples.append({"class": cls.__name__, "container": prepr[:200]})
    if bad:
        core.violation(ctx, "container", bad, True)
    elif not lean["ok"]:
        core.violation(ctx, "proof", {"what": "C11 proof obligations no longer check", "broken": lean["problems"]}, False)
    cov = {"evaluations": n * 4, "distinct_nontrivial": len([1 for c_, p_ in distinct if len(p_) > 30]) * 4,
           "rule": "%d random containers (nested to depth 2, duplicate keys, lists inside, the four classes, modules "
                   "with an errors attribute) x {.copy(), copy.copy, copy.deepcopy, pickle}: equality both ways, "
                   "identical repr, same class at every level, original untouched; then random top-level mutations "
                   "of the copy / of a second copy, and for the deep mechanisms appends at every nested level on "
                   "either side, checking that nothing shows through" % n,
           "outcomes": dict(stats), "samples": samples, "theorems": lean["names"], "lean_problems": lean["problems"]}
    return core.finish(ctx, "proof", lean["obligations"], lean["discharged"],
                       "cd lean && lake build PvlModel.Props.C11 && lake env lean <#print axioms file>", cov,
                       ["object identity is CPython's; the Lean side models it by an abstract heap"])


def replay(ctx, path):
    print("C11 replays are descriptive (random containers); re-run ./check C11 with the recorded seed")
    return 0
