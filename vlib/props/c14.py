"""C14 — date and time values keep their type, instant and time-zone meaning."""
import json, os, collections, datetime, multiprocessing as mp
from .. import core, gen, encio, parsefam as pf
from .. import pvlio as io

PROP_MODULES = ["PvlModel.Props.C14"]
UTC = datetime.timezone.utc
DECS = ["PVL", "ODL", "PDS3", "ISIS", "OMNI"]
TRAITS = {  # default zone utc?, zone offsets read?, leap seconds kept as text?, millisecond limit?
    "PVL": (True, False, True, False), "ODL": (False, True, False, False), "PDS3": (True, False, False, True),
    "ISIS": (True, True, True, False), "OMNI": (True, True, True, False),
}


def leap(y):
    return (y % 4 == 0 and y % 100 != 0) or y % 400 == 0


def dim(y, m):
    return [31, 29 if leap(y) else 28, 31, 30, 31, 30, 31, 31, 30, 31, 30, 31][m - 1]


def from_doy(y, j):
    m = 1
    while j > dim(y, m):
        j -= dim(y, m); m += 1
    return m, j


def date_cases(ctx):
    """(text, (y,m,d)) for both forms; boundaries always, all days of sampled years"""
    rng = ctx.rng
    years = {1, 2, 4, 99, 100, 400, 999, 1000, 1582, 1899, 1900, 1999, 2000, 2001, 2023, 2024, 2100, 9996, 9999}
    years.update(rng.randrange(1, 10000) for _ in range(40 if ctx.thorough() else 6))
    out = []
    for y in sorted(years):
        days = []
        for m in range(1, 13):
            for d in ((1, 2, 15, dim(y, m) - 1, dim(y, m)) if not ctx.thorough() else range(1, dim(y, m) + 1)):
                days.append((m, d))
        for m, d in days:
            out.append(("%04d-%02d-%02d" % (y, m, d), (y, m, d)))
        n = 366 if leap(y) else 365
        for j in (range(1, n + 1) if ctx.thorough() else (1, 2, 31, 32, 59, 60, 61, 365, n)):
            m, d = from_doy(y, j)
            out.append(("%04d-%03d" % (y, j), (y, m, d)))
    return out


def time_cases(ctx):
    """(text-without-zone, (h, mi, s, us))"""
    rng = ctx.rng
    out = []
    hs = (0, 1, 9, 10, 12, 19, 20, 23)
    ms = (0, 1, 9, 10, 59)
    ss = (0, 1, 30, 59)
    for h in hs:
        for mi in ms:
            out.append(("%02d:%02d" % (h, mi), (h, mi, 0, 0)))
    for h in (0, 23):
        for mi in (0, 59):
            for s in ss:
                out.append(("%02d:%02d:%02d" % (h, mi, s), (h, mi, s, 0)))
    fracs = ["0", "5", "05", "005", "500", "120", "999", "0005", "1234", "00001", "123456", "999999", "000001",
             "100000", "000100", "001000"]
    fracs += ["%06d" % rng.randrange(10 ** 6) for _ in range(30 if ctx.thorough() else 6)]
    for f in fracs:
        out.append(("23:59:59." + f, (23, 59, 59, int(f.ljust(6, "0")))))
        out.append(("00:00:00." + f, (0, 0, 0, int(f.ljust(6, "0")))))
    return out


ZONES = [("", None), ("Z", 0), ("+00", 0), ("+01", 3600), ("-01", -3600), ("+1", 3600), ("-7", -7 * 3600),
         ("+12", 12 * 3600), ("-12", -12 * 3600), ("+0530", 19800), ("-0330", -12600), ("+05:30", 19800),
         ("-03:30", -12600), ("+0000", 0), ("-0045", -2700)]


def expected(dec, kind, fields, zone_text, zone_off, us_digits):
    """what the dialect assigns, or 'reject'"""
    utc_default, offsets, _, ms_limit = TRAITS[dec]
    if kind == "date":
        return ("reject" if zone_text not in ("", "Z") else datetime.date(*fields))
    tz = None
    if zone_text == "":
        tz = UTC if utc_default else None
    elif zone_text == "Z":
        tz = UTC
    else:
        if not offsets:
            return "reject"
        tz = datetime.timezone(datetime.timedelta(seconds=zone_off))
    us = fields[-1]
    if ms_limit and us % 1000 != 0:
        return "reject"
    if kind == "time":
        return datetime.time(*fields, tzinfo=tz)
    return datetime.datetime(*fields, tzinfo=tz)


def _decode_work(args):
    dec, text = args
    return io.real_datetime(dec, text)


def run(ctx):
    lean = core.standard_lean_phase(ctx, PROP_MODULES)
    drv = core.Driver()
    rng = ctx.rng
    dates = date_cases(ctx)
    times = time_cases(ctx)
    cases = []      # (dec, text, expected)
    for dec in DECS:
        for text, ymd in dates:
            cases.append((dec, text, expected(dec, "date", ymd, "", None, 0)))
        for text, ymd in dates[::17]:
            cases.append((dec, text + "Z", datetime.date(*ymd)))
        for ttext, f in times:
            for ztext, zoff in ZONES:
                cases.append((dec, ttext + ztext, expected(dec, "time", f, ztext, zoff, 0)))
        for dtext, ymd in dates[::23]:
            for ttext, f in times[::5]:
                for ztext, zoff in ZONES[::2]:
                    cases.append((dec, dtext + "T" + ttext + ztext, expected(dec, "datetime", ymd + f, ztext, zoff, 0)))
        # seconds of 60: text in PVL-family grammars, rejected by ODL and PDS3
        for t in ("23:59:60", "23:59:60Z", "00:00:60.5", "1998-12-31T23:59:60", "1998-365T23:59:60.25Z"):
            cases.append((dec, t, t if TRAITS[dec][2] else "reject"))
        for t in ("24:00", "12:60", "2001-02-30", "2001-13-01", "2001-366", "2001-000", "0000-01-01", "10:00:61",
                  "2001-01-01T", "T10:00", "10", "2001-1-1T1:2:3"):
            cases.append((dec, t, None))     # no expectation: correspondence only
    with mp.Pool(16) as pool:
        reals = pool.map(_decode_work, [(d, t) for d, t, _ in cases], chunksize=500)
    have = os.path.exists(drv.exe)
    models = None
    if have:
        lines = ["datetime %s %s %s" % (io.DECODERS[d][2][0], io.DECODERS[d][2][1], core.cps(t)) for d, t, _ in cases]
        models = [json.loads(o) for o in drv.run(lines)]
    bad = corr = None
    stats = collections.Counter()
    for i, ((dec, text, exp), r) in enumerate(zip(cases, reals)):
        if exp is not None:
            want = {"err": "ValueError"} if exp == "reject" else io.py_to_j(exp)
            stats[dec + ":" + ("reject" if exp == "reject" else type(exp).__name__)] += 1
            if r != want and bad is None:
                bad = {"what": "decode_datetime(%r) with the %s decoder gives %s, the dialect assigns %s"
                               % (text, dec, json.dumps(r), json.dumps(want)), "decoder": dec, "text": text,
                       "real": r, "expected": want, "side": "decode"}
        if models is not None and corr is None and models[i] != r:
            corr = {"what": "correspondence decode_datetime: model and implementation disagree", "decoder": dec,
                    "text": text, "real": r, "model": models[i]}
    # -------- encode side: the text denotes the same instant at the same precision, or the encoder refuses
    enc_cases = []
    for enc in encio.ENCODERS:
        og = gen.ObjGen(rng, enc)
        vals = [og.temporal() for _ in range(1500 if ctx.thorough() else 300)]
        for y in (1, 999, 1000, 9999):
            vals.append(datetime.date(y, 1, 2))
            vals.append(datetime.datetime(y, 12, 31, 23, 59, 59, 5000, tzinfo=UTC))
        for us in (0, 1, 5000, 50000, 500000, 120000, 999000, 999999, 1000):
            for tz in (None, UTC, datetime.timezone(datetime.timedelta(hours=-5)),
                       datetime.timezone(datetime.timedelta(hours=5, minutes=30)),
                       datetime.timezone(datetime.timedelta(hours=13)), datetime.timezone(datetime.timedelta(seconds=30))):
                vals.append(datetime.time(1, 2, 3, us, tzinfo=tz))
                vals.append(datetime.time(1, 2, 0, us, tzinfo=tz))
        for v in vals:
            enc_cases.append((enc, v))
    elines = []
    for enc, v in enc_cases:
        e = encio.make_encoder(enc, {})
        try:
            text = e.encode_datetype(v)
        except (ValueError, TypeError) as ex:
            stats[enc + ":enc-refused"] += 1
            elines.append((enc, v, None))
            continue
        elines.append((enc, v, text))
        reader = encio.STRICT_OF[enc]
        back = io.real_datetime(reader if reader != "ISIS" else "ISIS", text)
        stats[enc + ":enc-ok"] += 1
        utc_default = TRAITS[reader][0]
        want = v
        if not isinstance(v, datetime.date) or isinstance(v, datetime.datetime):
            if v.tzinfo is None and utc_default:
                want = v.replace(tzinfo=UTC)
        wj = io.py_to_j(want)
        ok = (back == wj)
        if not ok and isinstance(back, dict) and back.get("t") in ("T", "DT") and wj.get("t") == back.get("t"):
            # same instant, same precision, zone spelled differently?
            try:
                b = io.j_to_py(back)
                if isinstance(want, datetime.datetime):
                    ok = (b == want and b.microsecond == want.microsecond)
                else:
                    ok = (b.utcoffset() == want.utcoffset() and b.replace(tzinfo=None) == want.replace(tzinfo=None))
            except Exception:
                ok = False
        if not ok and bad is None:
            bad = {"what": "%s wrote %r as %r, which its own dialect reads as %s" % (enc, v, text, json.dumps(back)),
                   "encoder": enc, "value": repr(v), "value_j": io.py_to_j(v), "text": text, "read_back": back, "side": "encode"}
    if have:
        mlines = ["encval %s %s" % (encio.cfg_tokens(enc, {}), " ".join(encio.val_tokens(v))) for enc, v, _ in elines]
        mouts = [json.loads(o) for o in drv.run(mlines)]
        for (enc, v, text), mo in zip(elines, mouts):
            mt = None if "fail" in mo else "".join(chr(c) for c in mo["ok"])
            if corr is None and mt != text:
                corr = {"what": "correspondence encode_datetype: model and implementation disagree", "encoder": enc,
                        "value": repr(v), "real": text, "model": mt}
    if bad:
        core.violation(ctx, "value", bad, True)
    elif corr:
        core.violation(ctx, "correspondence", corr, False)
    elif not lean["ok"]:
        core.violation(ctx, "proof", {"what": "C14 proof obligations no longer check", "broken": lean["problems"]}, False)
    cov = {"evaluations": len(cases) + len(enc_cases), "distinct_nontrivial": len({(d, t) for d, t, _ in cases}),
           "rule": "decode: %d dates (both forms; field boundaries of %s years%s), %d times x %d zone spellings, "
                   "date-times, seconds=60 and malformed literals x 5 decoder configurations, each compared with the "
                   "value the dialect assigns (independent calendar arithmetic) and with the decoder model; encode: "
                   "%d temporal values per encoder incl. years 1/999/1000/9999, sub-millisecond values and "
                   "negative / half-hour / 13 h / 30 s offsets: the text must read back in the same dialect as the "
                   "same instant at the same precision, or the encoder must refuse; encoder model compared"
                   % (len(dates), "sampled and boundary", " - all days" if ctx.thorough() else "", len(times),
                      len(ZONES), len(enc_cases) // 4),
           "outcomes": dict(stats),
           "samples": [{"decoder": d, "text": t} for d, t, _ in cases[::max(1, len(cases) // 6)][:6]],
           "theorems": lean["names"], "lean_problems": lean["problems"]}
    return core.finish(ctx, "proof", lean["obligations"], lean["discharged"],
                       "cd lean && lake build PvlModel.Props.C14 && lake env lean <#print axioms file>", cov,
                       ["python-dateutil absent (as in this sandbox): the default decoder reads only the PVL/ODL forms"])


def replay(ctx, path):
    d = json.load(open(path))
    if d.get("side") == "decode":
        r = io.real_datetime(d["decoder"], d["text"])
        print(json.dumps({"real": r, "expected": d["expected"]}))
        if r != d["expected"]:
            print("VIOLATION property=C14 replay=%s" % path); return 1
        return 0
    if d.get("side") == "encode":
        v = io.j_to_py(d["value_j"])
        e = encio.make_encoder(d["encoder"], {})
        try:
            t = e.encode_datetype(v)
        except (ValueError, TypeError):
            print("refused"); return 0
        back = io.real_datetime(encio.STRICT_OF[d["encoder"]], t)
        print(json.dumps({"text": t, "read_back": back}))
        if back != io.py_to_j(v) and back == d.get("read_back"):
            print("VIOLATION property=C14 replay=%s" % path); return 1
    return 0
