"""C20 — command-line tools are faithful front-ends of the library."""
import json, os, collections, contextlib, io as _io, shutil, tempfile, logging
from .. import core, gen, parsefam as pf
from .. import pvlio as io

PROP_MODULES = ["PvlModel.Props.C20"]


def lib_translate(fmt, path):
    """what the library gives for `pvl_translate -of fmt path`: ('ok', text) | ('raise', type)"""
    import pvl
    from pvl.encoder import PVLEncoder, ODLEncoder, ISISEncoder, PDSLabelEncoder
    encs = {"PDS3": PDSLabelEncoder, "ODL": ODLEncoder, "ISIS": ISISEncoder, "PVL": PVLEncoder}
    try:
        with open(path, "r") as f:
            m = pvl.load(f)
    except BaseException as e:  # noqa
        if isinstance(e, (KeyboardInterrupt, SystemExit)):
            raise
        return ("raise", type(e).__name__)
    try:
        if fmt == "JSON":
            s = _io.StringIO()
            json.dump(m, s)
            return ("ok", s.getvalue())
        return ("ok", pvl.dumps(m, encoder=encs[fmt]()))
    except BaseException as e:  # noqa
        if isinstance(e, (KeyboardInterrupt, SystemExit)):
            raise
        return ("raise", type(e).__name__)


def run_translate(fmt, path, outp):
    import pvl.pvl_translate as T
    try:
        core.with_timer(10.0, T.main, ["-of", fmt, path, outp])
    except SystemExit as e:
        return ("exit", e.code)
    except BaseException as e:  # noqa
        if isinstance(e, KeyboardInterrupt):
            raise
        return ("raise", type(e).__name__)
    # argparse.FileType leaves the output file open: flush what this process holds
    # (what interpreter exit does for the command-line user); a collection alone is not reliable
    import gc
    for o in gc.get_objects():
        try:
            if isinstance(o, _io.TextIOWrapper) and getattr(o, "name", None) == outp and not o.closed:
                o.flush()
        except Exception:
            pass
    gc.collect()
    with open(outp, "r", newline="") as f:
        return ("ok", f.read())


def lib_validate(path):
    import pvl, pvl.pvl_validate as V
    text = pvl.get_text_from(path)
    rows = {}
    for name, row in V.dialects.items():
        P, G, D, E = (type(row[k]) for k in ("parser", "grammar", "decoder", "encoder"))
        g = G()
        d = D(grammar=g)
        try:
            m = core.with_timer(5.0, pvl.loads, text, parser=P(grammar=g, decoder=d))
        except BaseException as e:  # noqa
            if isinstance(e, (KeyboardInterrupt, SystemExit)):
                raise
            rows[name] = (False, None)
            continue
        try:
            pvl.dumps(m, encoder=E(grammar=g, decoder=d))
            rows[name] = (True, True)
        except BaseException as e:  # noqa
            if isinstance(e, (KeyboardInterrupt, SystemExit)):
                raise
            rows[name] = (True, False)
    return rows


def real_flavor(load, dump, variant=0):
    """pvl_validate.pvl_flavor with pvl.loads / pvl.dumps stubbed to end in the given way"""
    import pvl, pvl.pvl_validate as V
    from pvl.lexer import LexerError
    from pvl.parser import ParseError

    def stub(kind, ok):
        def f(*a, **kw):
            if kind == "ok":
                return ok
            if kind == "pvl":
                raise (ParseError("x") if variant else LexerError("x", "abc", 1, "b"))
            if kind == "refused":
                raise (TypeError("x") if variant else ValueError("x"))
            raise (KeyError("x") if variant else AttributeError("x"))
        return f
    old_l, old_d = pvl.loads, pvl.dumps
    logging.disable(logging.CRITICAL)
    try:
        pvl.loads, pvl.dumps = stub(load, pvl.PVLModule()), stub(dump, "")
        return V.pvl_flavor("a = 1", "X", dict(), "file", 0)
    finally:
        pvl.loads, pvl.dumps = old_l, old_d
        logging.disable(logging.NOTSET)


def run_validate(paths):
    import pvl.pvl_validate as V
    buf = _io.StringIO()
    logging.disable(logging.CRITICAL)
    try:
        with contextlib.redirect_stdout(buf):
            core.with_timer(30.0, V.main, list(paths))
    except SystemExit as e:
        return ("exit", e.code), None
    except BaseException as e:  # noqa
        if isinstance(e, KeyboardInterrupt):
            raise
        return ("raise", type(e).__name__), None
    finally:
        logging.disable(logging.NOTSET)
    return ("ok", buf.getvalue()), parse_report(buf.getvalue(), paths)


def parse_report(text, paths):
    import pvl.pvl_validate as V
    names = list(V.dialects.keys())
    res = {}
    lines = text.splitlines()
    if len(paths) == 1:
        rows = {}
        for ln in lines:
            cells = [c.strip() for c in ln.split("|")]
            if len(cells) == 3 and cells[0] in names:
                loads = {"Loads": True, "does NOT load": False}.get(cells[1])
                enc = {"Encodes": True, "does NOT encode": False, "": None}.get(cells[2])
                rows[cells[0]] = (loads, enc)
        res[paths[0]] = rows
        return res
    for ln in lines:
        cells = [c for c in ln.split(" | ")]
        if len(cells) == len(names) + 1 and cells[0].strip() in paths:
            rows = {}
            for nm, c in zip(names, cells[1:]):
                c = c.strip()
                loads = not c.startswith("No L")
                rest = c[4:].strip() if c.startswith("No L") else c[1:].strip()
                enc = {"E": True, "No E": False, "": None}.get(rest)
                rows[nm] = (loads, enc)
            res.setdefault(cells[0].strip(), rows)
    return res


def run(ctx):
    lean = core.standard_lean_phase(ctx, PROP_MODULES)
    rng = ctx.rng
    n = 240 if ctx.thorough() else 40
    base = os.path.join(core.VERIF, ".cache")
    os.makedirs(base, exist_ok=True)
    tmp = tempfile.mkdtemp(prefix="c20_", dir=base)
    bad = None
    stats = collections.Counter()
    distinct = set()
    evals = 0
    corr = None
    samples = []
    try:
        texts = []
        for cfg in ("OMNI", "PVL", "ODL", "ISIS"):
            g = gen.Gen(rng, cfg)
            for _ in range(n // 4):
                stmts, m = g.document()
                k = rng.random()
                if k < 0.25:
                    stmts, _ = gen.damage(rng, stmts)
                texts.append(g.render(stmts))
        for name, t in pf.corpus_texts()[: (40 if ctx.thorough() else 12)]:
            texts.append(t)
        # characters outside ASCII in values, names of units and comments: the tools read files, so the bytes
        # they see must become the text the library sees
        texts += ['a = "caf\xe9 \xb5m 12\xb0"\nEND\n', 'GROUP = g\n  note = "\u2603 snow"\n  x = 1.5 <\xb5m>\nEND_GROUP\nEND\n',
                  '/* \xe9 */ a = 1\nb = (\"\xfc\", 2)\n']
        paths = []
        for i, t in enumerate(texts):
            p = os.path.join(tmp, "f%03d.lbl" % i)
            with open(p, "w", encoding="utf-8", newline="") as f:
                f.write(t)
            paths.append(p)
        # ---- pvl_translate
        for i, p in enumerate(paths):
            for fmt in ("PDS3", "ODL", "ISIS", "PVL", "JSON"):
                outp = os.path.join(tmp, "out.txt")
                if os.path.exists(outp):
                    os.remove(outp)
                want = lib_translate(fmt, p)
                got = run_translate(fmt, p, outp)
                evals += 1
                distinct.add(("translate", fmt, texts[i]))
                stats["translate:%s:%s" % (fmt, want[0])] += 1
                ok = (want == got) if want[0] == "ok" else (got[0] == "raise" and got[1] == want[1])
                if want[0] == "ok" and got[0] == "ok" and fmt == "JSON":
                    try:
                        ok = json.loads(got[1], object_pairs_hook=list) == json.loads(want[1], object_pairs_hook=list)
                    except Exception:
                        ok = False
                if not ok and bad is None:
                    bad = {"what": "pvl_translate -of %s differs from the library: tool %s, library %s"
                                   % (fmt, str(got)[:160], str(want)[:160]), "tool": "pvl_translate", "format": fmt,
                           "text": texts[i]}
            if i % 15 == 0 and len(samples) < 4:
                samples.append({"text": texts[i][:120]})
        # ---- pvl_validate: one file, and many files per invocation
        expected = {p: lib_validate(p) for p in paths}
        groups = [[p] for p in paths[:: 2]] + [paths[i:i + 5] for i in range(0, len(paths), 5)]
        report_cases = []     # (model line, the text the real tool printed)
        for grp in groups:
            status, rep = run_validate(grp)
            evals += 1
            if status[0] == "ok":
                import pvl.pvl_validate as V
                def code(v):
                    return ("T" if v[0] else "F") + {True: "T", False: "F", None: "N"}[v[1]]
                rows = ["%s/%s" % (core.cps(p), "".join(code(expected[p][nm]) for nm in V.dialects)) for p in grp]
                report_cases.append(("report " + " ".join(rows), status[1]))
            distinct.add(("validate", tuple(grp)))
            stats["validate:%s:%d" % (status[0], min(len(grp), 2))] += 1
            if status[0] != "ok":
                if bad is None:
                    bad = {"what": "pvl_validate did not complete with a report (%s)" % (status,), "tool": "pvl_validate",
                           "texts": [open(p, encoding="utf-8", newline="").read() for p in grp]}
                continue
            for p in grp:
                rows = rep.get(p)
                if rows is None or set(rows) != set(expected[p]):
                    if bad is None:
                        bad = {"what": "pvl_validate printed no complete row for a file", "tool": "pvl_validate",
                               "report": status[1][:1500], "text": open(p, encoding="utf-8", newline="").read()}
                    continue
                for nm, (lw, ew) in expected[p].items():
                    lg, eg = rows[nm]
                    if (lg, eg) != (lw, ew) and bad is None:
                        bad = {"what": "pvl_validate reports %s: loads=%s encodes=%s; the library: loads=%s encodes=%s"
                                       % (nm, lg, eg, lw, ew), "tool": "pvl_validate", "dialect": nm,
                               "text": open(p, encoding="utf-8", newline="").read(), "files_in_invocation": len(grp)}
        # the model renders the report from the library's verdicts: the printed text must be that, to the letter
        drv = core.Driver()
        corr = None
        if os.path.exists(drv.exe) and report_cases:
            outs = drv.run([c[0] for c in report_cases])
            for (line, real), o in zip(report_cases, outs):
                mtext = "".join(chr(int(x)) for x in o.split(",")) if o not in ("-", "") else ""
                same = (mtext + "\n" == real)
                stats["report-text:" + ("same" if same else "differs")] += 1
                if not same and corr is None:
                    corr = {"what": "correspondence pvl_validate report: the model's rendering of the library's "
                                    "verdicts differs from the text the tool printed", "model": mtext, "real": real}
            # the verdict logic itself: pvl_flavor with the library calls replaced by stubs that end in each way
            combos = [(a, b) for a in ("ok", "pvl", "other") for b in ("ok", "refused", "other")]
            mouts = drv.run(["flavor %s %s" % ab for ab in combos])
            for (a, b), mo in zip(combos, mouts):
                for variant in range(2):
                    rv = real_flavor(a, b, variant)
                    code = ("T" if rv[0] else "F") + {True: "T", False: "F", None: "N"}[rv[1]]
                    stats["flavor:" + ("same" if code == mo else "differs")] += 1
                    if code != mo and corr is None:
                        corr = {"what": "correspondence pvl_flavor: load ends %s, dump ends %s: tool says %s, model %s"
                                        % (a, b, code, mo)}
    finally:
        shutil.rmtree(tmp, ignore_errors=True)
    if bad:
        core.violation(ctx, "file", bad, True)
    elif corr:
        core.violation(ctx, "correspondence", corr, False)
    elif not lean["ok"]:
        core.violation(ctx, "proof", {"what": "C20 proof obligations no longer check", "broken": lean["problems"]}, False)
    for f in [f for f in core.load_known()["findings"] if f["property"] == "C20"]:
        ctx.known_hits.append("%s %s" % (f["id"], f["what"]))
    cov = {"evaluations": evals, "distinct_nontrivial": len(distinct),
           "rule": "%d label files (generated in four spelling families, a quarter of them token-damaged, plus tests/data) "
                   "x 5 output formats through pvl_translate.main() in-process vs pvl.load + pvl.dumps with a fresh "
                   "encoder of that format (JSON compared after parsing with pair lists); pvl_validate.main() on single "
                   "files and on groups of five vs loads/dumps with fresh instances of each dialect row's classes; the "
                   "format and dialect tables themselves are extracted into Gen/Tables.lean" % len(texts),
           "outcomes": dict(stats), "samples": samples, "theorems": lean["names"], "lean_problems": lean["problems"]}
    return core.finish(ctx, "proof", lean["obligations"], lean["discharged"],
                       "cd lean && lake build PvlModel.Props.C20 && lake env lean <#print axioms file>", cov,
                       ["process exit status and stream flushing at interpreter exit are not exercised (in-process calls)",
                        "JSON serialisation is CPython's json module"])


def replay(ctx, path):
    print("re-run ./check C20 with the recorded seed; the replay file holds the label text and the tool's output")
    return 0
