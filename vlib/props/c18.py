"""C18 — type-customisation hooks apply uniformly at every depth."""
import json, os, collections, decimal, datetime
from .. import core, gen, parsefam as pf
from .. import pvlio as io
from ..pvlio import PVLModule, PVLGroup, PVLObject, Quantity, P, G, D

PROP_MODULES = ["PvlModel.Props.C18"]


class Mod(PVLModule):
    pass


class Grp(PVLGroup):
    pass


class Obj(PVLObject):
    pass


class Q2:
    """a substitute quantity class"""
    def __init__(self, value, units):
        self.value, self.units = value, units

    def __eq__(self, o):
        return isinstance(o, Q2) and (self.value, self.units) == (o.value, o.units)

    def __hash__(self):
        return hash((self.__class__.__name__, repr(self.value), self.units))


class Rec(decimal.Decimal):
    """a real-number class that records the exact text it was handed"""
    seen = []

    def __new__(cls, text):
        cls.seen.append(text)
        self = super().__new__(cls, text)
        self.text = text
        return self


class TextReal:
    """a real-number class outside Python's numbers tower: keeps the text, compares by value"""
    def __init__(self, text):
        self.text = str(text)
        self.value = float(self.text)

    def __float__(self):
        return self.value

    # equality and hash agree with float's (also against int), so that a set holds the same number of
    # elements whichever real class is used: {-0., 0} has one element with float, Decimal and this class
    def __eq__(self, o):
        if isinstance(o, TextReal):
            return self.value == o.value or (self.value != self.value and o.value != o.value)
        if isinstance(o, (int, float)):      # bool included: True == 1.0 for float too
            return self.value == o
        return NotImplemented

    def __hash__(self):
        return hash(self.value)

    def __repr__(self):
        return "TextReal(%r)" % self.text


def walk(v, path, out):
    out.append((path, v))
    if isinstance(v, (PVLModule, PVLGroup, PVLObject)):
        for i, (k, x) in enumerate(v):
            walk(x, path + (i,), out)
    elif isinstance(v, (list, set, frozenset)):
        for i, x in enumerate(v if isinstance(v, list) else sorted(v, key=repr)):
            walk(x, path + (i,), out)
    elif isinstance(v, (Quantity, Q2)):
        walk(v.value, path + ("q",), out)


def erase(v):
    """undo the substitutions: Decimal -> float, substitute classes -> library classes"""
    if isinstance(v, PVLModule): return PVLModule([(k, erase(x)) for k, x in v])
    if isinstance(v, PVLGroup): return PVLGroup([(k, erase(x)) for k, x in v])
    if isinstance(v, PVLObject): return PVLObject([(k, erase(x)) for k, x in v])
    if isinstance(v, (Quantity, Q2)): return Quantity(erase(v.value), v.units)
    if isinstance(v, list): return [erase(x) for x in v]
    if isinstance(v, frozenset): return frozenset(erase(x) for x in v)
    if isinstance(v, set): return set(erase(x) for x in v)
    if isinstance(v, decimal.Decimal): return float(v)
    if isinstance(v, TextReal): return v.value
    return v


def load_with(cfg, text, subst, route=0):
    """route = how the caller hands the substitutes over: 0 parser and decoder share one grammar object;
    1 the decoder was made with a grammar object of its own; 2 the decoder was made without a grammar;
    3 (default-loader configuration only) through pvl.loads(text, grammar=..., decoder=..., **classes)"""
    pc, gc, dc, _ = io.CONFIGS[cfg]
    g = gc()
    if not subst:
        p = pc(grammar=g, decoder=dc(grammar=g))
        return core.with_timer(5.0, p.parse, text)
    real = TextReal if subst == "text" else Rec
    if route == 2 and type(dc().grammar) is not type(g):
        route = 0      # this decoder class's default grammar is not the configuration's: not a way to use it
    if route == 1 or route == 3:
        d = dc(grammar=gc(), real_cls=real, quantity_cls=Q2)
    elif route == 2:
        d = dc(real_cls=real, quantity_cls=Q2)
    else:
        d = dc(grammar=g, real_cls=real, quantity_cls=Q2)
    if route == 3 and cfg == "OMNI":
        import pvl
        return core.with_timer(5.0, lambda: pvl.loads(text, grammar=g, decoder=d, module_class=Mod,
                                                       group_class=Grp, object_class=Obj))
    p = pc(grammar=g, decoder=d, module_class=Mod, group_class=Grp, object_class=Obj)
    return core.with_timer(5.0, p.parse, text)


def real_tokens(stmts):
    """texts of the real-number literals of a spelling, in order"""
    import re
    out = []
    for st in stmts:
        for tk in st:
            if re.fullmatch(r"[+-]?(\d+\.\d*|\.\d+|\d+)([eE][+-]?\d+)?", tk) and not re.fullmatch(r"[+-]?\d+", tk):
                out.append(tk)
    return out


def run(ctx):
    lean = core.standard_lean_phase(ctx, PROP_MODULES)
    rng = ctx.rng
    n = 1500 if ctx.thorough() else 220
    bad = None
    stats = collections.Counter()
    samples = []
    total = 0
    for cfg in pf.CFGS:
        g = gen.Gen(rng, cfg)
        for i in range(n):
            stmts, m = g.document()
            if i % 5 == 4:
                # reals outside the range of a double (overflow, underflow): they are still reals, and the
                # substitute class gets their text; top level, in a sequence, as a quantity magnitude
                big = rng.choice(["1.5E+400", "-2.5e999", "1e-400", "9E+308", "1.8e308"])
                extra = [["Xbig%d" % i, "=", big], ["Xseq%d" % i, "=", "(", "1", ",", big, ")"],
                         ["Xq%d" % i, "=", big, "<m>"]]
                cut = next((k for k, st in enumerate(stmts) if st and st[0].upper() in
                            ("END", "GROUP", "OBJECT", "BEGIN_GROUP", "BEGIN_OBJECT")), len(stmts))
                stmts = list(stmts[:cut]) + extra + list(stmts[cut:])
            text = g.render(stmts)
            total += 1
            try:
                base = load_with(cfg, text, False)
            except Exception as e:
                stats[cfg + ":base-fails"] += 1
                continue
            Rec.seen = []
            try:
                sub = load_with(cfg, text, True, route=i % 4)
            except Exception as e:
                if bad is None:
                    bad = {"what": "with substitute classes the load fails (%s) where the plain load succeeds" % type(e).__name__,
                           "cfg": cfg, "text": text, "route": i % 4}
                continue
            stats[cfg + ":ok"] += 1
            if i % 3 == 0:
                # a second substitute real class, one that is not a numbers.Number
                try:
                    sub2 = load_with(cfg, text, "text", route=(i // 3) % 4)
                    if io.py_to_j(erase(sub2)) != io.py_to_j(base) and bad is None:
                        from .c03 import first_diff
                        bad = {"what": "with a real class outside the numbers tower the result differs otherwise: "
                                       + first_diff(io.py_to_j(erase(sub2)), io.py_to_j(base)), "cfg": cfg, "text": text}
                except Exception as e:
                    if bad is None:
                        bad = {"what": "with a real class outside the numbers tower the load fails (%s) where the "
                                       "plain load succeeds" % type(e).__name__, "cfg": cfg, "text": text}
            nodes = []
            walk(sub, (), nodes)
            why = None
            for path, v in nodes:
                if isinstance(v, float):
                    why = "a real number at %s is a float, not the substitute class" % (path,)
                elif isinstance(v, Quantity):
                    why = "a value with units at %s is pvl.Quantity, not the substitute class" % (path,)
                elif isinstance(v, PVLModule) and not isinstance(v, Mod):
                    why = "module container at %s is not the substitute class" % (path,)
                elif isinstance(v, PVLGroup) and not isinstance(v, Grp):
                    why = "group container at %s is not the substitute class" % (path,)
                elif isinstance(v, PVLObject) and not isinstance(v, Obj):
                    why = "object container at %s is not the substitute class" % (path,)
                elif isinstance(v, bool):
                    pass
                elif isinstance(v, decimal.Decimal) and not isinstance(v, Rec):
                    why = "a Decimal that did not come from the substitute class at %s" % (path,)
                if why:
                    break
            if why is None and sorted(Rec.seen) != sorted(real_tokens(stmts)):
                # the decoder may probe texts that are not reals; every real literal must be handed over unaltered
                missing = [t for t in real_tokens(stmts) if t not in Rec.seen]
                if missing:
                    why = "the real literal %r was not handed to the real-number class unaltered (it saw %s)" % (
                        missing[0], [s for s in Rec.seen][:6])
            if why is None and io.py_to_j(erase(sub)) != io.py_to_j(base):
                from .c03 import first_diff
                why = "supplying the substitutes changed the result otherwise: " + first_diff(io.py_to_j(erase(sub)), io.py_to_j(base))
            if why and bad is None:
                bad = {"what": why + " (substitutes supplied by route %d)" % (i % 4), "cfg": cfg, "text": text, "route": i % 4}
            if i % 100 == 0 and len(samples) < 6:
                samples.append({"cfg": cfg, "text": text[:140]})
    if bad:
        core.violation(ctx, "text", bad, True)
    elif not lean["ok"]:
        core.violation(ctx, "proof", {"what": "C18 proof obligations no longer check", "broken": lean["problems"]}, False)
    cov = {"evaluations": total, "distinct_nontrivial": sum(v for k, v in stats.items() if k.endswith(":ok")),
           "rule": "%d generated well-formed labels per configuration (reals in every grammar position: top level, "
                   "sequences, sets, quantity magnitudes, nested blocks) loaded with real_cls = a recording Decimal "
                   "subclass, quantity_cls, module/group/object substitutes, supplied by four routes in turn (shared grammar object, decoder with its own grammar object, decoder without grammar, pvl.loads keywords); recursive walk of the result for types; "
                   "texts handed to the real class compared with the literals as written; result with substitutions "
                   "erased compared with the plain load" % n,
           "outcomes": dict(stats), "samples": samples, "theorems": lean["names"], "lean_problems": lean["problems"]}
    return core.finish(ctx, "proof", lean["obligations"], lean["discharged"],
                       "cd lean && lake build PvlModel.Props.C18 && lake env lean <#print axioms file>", cov, [])


def replay(ctx, path):
    d = json.load(open(path))
    try:
        base = load_with(d["cfg"], d["text"], False)
        sub = load_with(d["cfg"], d["text"], True, route=d.get("route", 0))
    except Exception as e:
        print("load failed:", type(e).__name__)
        print("VIOLATION property=C18 replay=%s" % path)
        return 1
    ok = io.py_to_j(erase(sub)) == io.py_to_j(base)
    print(json.dumps({"equal_after_erasure": ok}))
    if not ok:
        print("VIOLATION property=C18 replay=%s" % path)
        return 1
    return 0
