"""C17 — value classification is total, exclusive and shared by reader and writer."""
import json, os, collections, itertools, datetime, multiprocessing as mp
from .. import core, gen, encio
from .. import pvlio as io

PROP_MODULES = ["PvlModel.Props.C17"]
ALPHA = ["a", "E", "N", "1", "2", "0", "#", "=", "/", "*", '"', "'", "<", "-", "+", "e", ".", ":", "(", ",", " ",
         "\n", "T", "Z", "_", "\x00", "\xe9", "٣"]
POOL = ["", "NULL", "null", "Null", "TRUE", "true", "False", "END", "end", "End", "GROUP", "group", "End_Group",
        "BEGIN_OBJECT", "object", "END_OBJECT", "1", "-5", "+3", "1.5", "1e5", "1_0", "1__0", "0x10", "16#FF#",
        "2#101#", "-2#1#", "2#-1#", "10#9#", "2#0b1#", "17#1#", "inf", "Inf", "nan", "-inf", "infinity", "2001-01-01",
        "2001-001", "2001-366", "2000-366", "10:00", "10:00:60", "10:00Z", "10:00z", "10:00+01", "2001-01-01T10:00",
        "2001-01-01+01", "-", "+", ".", "x-", "a b", "a\tb", '"q"', "'q'", '"', "''", '""', "'a\"", "x_", "_x", "9x",
        "N:S", "^P", "a*", "/x", "/* c */", "# c", "caf\xe9", "\xb5m", "☃", " 1", "1 ", "\x0b1", "\x1c1", "\xa01",
        "٣", "1٣", "FALſE", "nuLL", "ﬀ", "Ⅷ", "1e", "e1", "1e+", ".e1", "00", "-0", "+0.0"]


# temporal spellings at every length the dialects admit (longest: date, T, time with a six-digit fraction
# or a long leap-second fraction, zone offset with minutes)
ZONES17 = ["", "Z", "+01", "-7", "+0530", "-0330", "+05:30", "-03:30"]
TEMPORAL = [d + t + z
            for d in ("", "2001-01-01T", "2001-001T", "1998-12-31T")
            for t in ("10:00", "10:00:59", "23:59:59.5", "23:59:59.123456", "23:59:60", "23:59:60.12345678")
            for z in ZONES17]
TEMPORAL += [d + z for d in ("2001-01-01", "2001-001") for z in ZONES17]


def _work(args):
    name, text = args
    g, d = io.make_decoder(name)
    pred = io.real_tokpred(name, text)
    dec = io.real_decode(name, text)
    encs = {}
    for ename, (cls, kind, gg, dd) in encio.ENCODERS.items():
        own = {"PVL": "PVL", "ODL": "ODL", "PDS3": "PDS3", "ISIS": "ISISENC"}[ename]   # the encoder's own pair
        if own != name:
            continue
        e = cls()
        try:
            out = e.encode_string(text)
        except (ValueError, TypeError) as ex:
            out = None
        back = None
        if out is not None:
            # the encoder's own decoder reads the text back
            try:
                back = io.py_to_j(e.decoder.decode_simple_value(out))
            except ValueError:
                back = {"err": "ValueError"}
            except Exception as ex:
                back = {"err": type(ex).__name__}
        encs[ename] = (out, back)
    return pred, dec, encs


def judge(name, text, pred, dec, encs):
    """first complaint that is not attributed to the listed finding KF-C17-1, or None"""
    for w in judge_all(name, text, pred, dec, encs):
        return w
    return None


def judge_all(name, text, pred, dec, encs):
    """consistency of the three classifiers on one text -> list of complaints"""
    out = []
    _judge(name, text, pred, dec, encs, out.append)
    return out


def _judge(name, text, pred, dec, encs, say):
    t = dec.get("t")
    err = dec.get("err")
    if any(isinstance(v, str) for v in pred.values()):
        say("a token predicate raised %s" % [v for v in pred.values() if isinstance(v, str)][0])
    if err not in (None, "ValueError"):
        say("decode_simple_value raised %s" % err)
    # the class by the decoder's priority order
    folded = text.casefold()
    kwd = folded in ("null", "true", "false")
    if kwd:
        cls = "keyword"
    elif pred["quoted"]:
        cls = "quoted"
    elif pred["nondecimal"]:
        cls = "based"
    elif pred["decimal"]:
        cls = "decimal"
    elif pred["datetime"]:
        cls = "datetime"
    elif err is None:
        cls = "unquoted"
    else:
        cls = "not-a-value"
    want_t = {"keyword": ("N", "B"), "quoted": ("S",), "based": ("I",), "decimal": ("I", "R"),
              "datetime": ("D", "T", "DT", "S"), "unquoted": ("S",), "not-a-value": (None,)}[cls]
    if t not in want_t:
        say("class %s but decode_simple_value gives type %s" % (cls, t))
    if pred["simple"] != (err is None):
        say("is_simple_value=%s but decoding %s" % (pred["simple"], "fails" if err else "succeeds"))
    if pred["numeric"] != (pred["decimal"] or pred["nondecimal"]):
        say("is_numeric inconsistent with is_decimal/is_non_decimal")
    if (pred["numeric"] or pred["datetime"]) and (pred["unquoted"] or pred["parameter"]):
        say("text that decodes to a number or date/time is accepted as an unquoted string / parameter name")
    if cls == "unquoted" and dec.get("v") != [ord(c) for c in text]:
        say("an unquoted string decodes to a different string")
    if pred["parameter"] and not pred["unquoted"]:
        say("is_parameter_name without is_unquoted_string")
    if pred["unquoted"] and cls not in ("unquoted", "keyword"):
        say("KF17C is_unquoted_string is true but the decoder's class is %s" % cls)
    for ename, (out, back) in encs.items():
        if out is not None and out == text and back != {"t": "S", "v": [ord(c) for c in text]}:
            say("%s encoder writes the string bare but it reads back as %s" % (ename, json.dumps(back)))
        if out is not None and out != text:
            exp = text
            if ename in ("ODL", "PDS3"):
                exp = gen.fold_spec(text)
            if back != {"t": "S", "v": [ord(c) for c in exp]}:
                say("%s encoder writes %r, which reads back as %s" % (ename, out, json.dumps(back)))
    return None


RESERVED = {"end", "group", "object", "begin_group", "begin_object", "end_group", "end_object"}


def odl_identifier(t):
    import re
    return bool(re.fullmatch(r"[A-Za-z]([A-Za-z0-9_]*[A-Za-z0-9])?", t))


def run(ctx):
    lean = core.standard_lean_phase(ctx, PROP_MODULES)
    drv = core.Driver()
    rng = ctx.rng
    maxlen = 3 if ctx.thorough() else 2
    texts = ["".join(t) for n in range(0, maxlen + 1) for t in itertools.product(ALPHA, repeat=n)]
    texts += POOL + TEMPORAL
    for _ in range(8000 if ctx.thorough() else 1500):
        texts.append("".join(rng.choice(ALPHA + POOL) for _ in range(rng.randrange(1, 4))))
    texts = list(dict.fromkeys(texts))
    names = list(io.DECODERS)
    cases = [(n, t) for t in texts for n in names]
    with mp.Pool(16) as pool:
        res = pool.map(_work, cases, chunksize=400)
    have = os.path.exists(drv.exe)
    mo = None
    if have:
        lines = []
        for n, t in cases:
            gg, dd = io.DECODERS[n][2]
            lines.append("tokpred %s %s %s" % (gg, dd, core.cps(t)))
            lines.append("decode %s %s %s" % (gg, dd, core.cps(t)))
        mo = drv.run(lines)
    bad = corr = None
    stats = collections.Counter()
    kf17c = [f for f in core.load_known()["findings"] if f["id"] == "KF-C17-1"]
    kf_hit = [0]
    for i, ((n, t), (pred, dec, encs)) in enumerate(zip(cases, res)):
        whys = judge_all(n, t, pred, dec, encs)
        stats[n + ":" + (dec.get("t") or dec.get("err"))] += 1
        rest = []
        for w in whys:
            if w.startswith("KF17C") and kf17c and ((n in ("ODL", "PDS3") and not odl_identifier(t))
                                                    or t.casefold() in RESERVED):
                kf_hit[0] += 1     # attributed to the listed finding (token predicate weaker than the decoder)
            else:
                rest.append(w)
        why = rest[0] if rest else None
        if why and bad is None:
            bad = {"what": "%s (decoder %s, text %r)" % (why, n, t), "decoder": n, "text": t, "text_cps": core.cps(t),
                   "predicates": pred, "decoded": dec, "encoders": {k: list(v) for k, v in encs.items()}}
        if mo is not None and corr is None:
            mp_ = json.loads(mo[2 * i]); md = json.loads(mo[2 * i + 1])
            md = io.canon(md) if "t" in md else md
            if mp_ != pred or md != dec:
                corr = {"what": "correspondence token predicates / decode_simple_value: model and implementation disagree",
                        "decoder": n, "text": t, "text_cps": core.cps(t), "real": [pred, dec], "model": [mp_, md]}
    # encoder quoting decision vs model
    if have and corr is None:
        elines, ereal = [], []
        for t in texts[:: (1 if ctx.thorough() else 3)]:
            for ename in encio.ENCODERS:
                e = encio.make_encoder(ename, {})
                try:
                    out = e.encode_string(t)
                except (ValueError, TypeError) as ex:
                    out = type(ex).__name__
                ereal.append((ename, t, out))
                elines.append("encstr %s %s" % (encio.cfg_tokens(ename, {}), core.cps(t)))
        for (ename, t, out), o in zip(ereal, drv.run(elines)):
            m = json.loads(o)
            mt = m.get("fail") or "".join(chr(c) for c in m["ok"])
            if mt != out and corr is None:
                corr = {"what": "correspondence encode_string: model and implementation disagree", "encoder": ename,
                        "text": t, "real": out, "model": mt}
    kf = [f for f in core.load_known()["findings"] if f["property"] == "C17"]
    if bad:
        core.violation(ctx, "text", bad, True)
    elif corr:
        core.violation(ctx, "correspondence", corr, False)
    elif not lean["ok"]:
        core.violation(ctx, "proof", {"what": "C17 proof obligations no longer check", "broken": lean["problems"]}, False)
    for f in kf:
        if f["id"] != "KF-C17-1" or kf_hit[0]:
            ctx.known_hits.append("%s %s" % (f["id"], f["what"]))
    cov = {"evaluations": len(cases), "distinct_nontrivial": len({(n, t) for n, t in cases if len(t) > 0}),
           "rule": "every string of length <= %d over a %d-symbol alphabet (exhaustive) + %d borderline strings "
                   "(keywords in all cases, 'inf', '1_0', '2001-366', lone signs, empty, Unicode digits/blanks, "
                   "quotes) + random concatenations x 6 grammar/decoder pairs: every Token.is_* predicate, "
                   "decode_simple_value and each encoder's encode_string + read-back, judged for mutual consistency; "
                   "all three compared with the Lean model" % (maxlen, len(ALPHA), len(POOL)),
           "exhaustive": False, "outcomes": dict(stats),
           "samples": [{"decoder": n, "text": t} for n, t in cases[::max(1, len(cases) // 6)][:6]],
           "theorems": lean["names"], "lean_problems": lean["problems"]}
    return core.finish(ctx, "proof", lean["obligations"], lean["discharged"],
                       "cd lean && lake build PvlModel.Props.C17 && lake env lean <#print axioms file>", cov, [])


def replay(ctx, path):
    d = json.load(open(path))
    if "decoder" not in d:
        print("nothing to replay"); return 0
    pred, dec, encs = _work((d["decoder"], d["text"]))
    why = judge(d["decoder"], d["text"], pred, dec, encs)
    print(json.dumps({"predicates": pred, "decoded": dec, "verdict": why}, indent=1)[:2000])
    if why:
        print("VIOLATION property=C17 replay=%s" % path)
        return 1
    return 0
