"""C16 — parser, decoder and encoder instances carry no state between calls."""
import json, os, collections, copy
from .. import core, parsefam as pf, gen, encio
from .. import pvlio as io

PROP_MODULES = ["PvlModel.Props.C16"]


def texts_for(rng, cfg, k):
    out = []
    g = gen.Gen(rng, cfg)
    for _ in range(k):
        r = rng.random()
        stmts, m = g.document()
        if r < 0.35:
            out.append(g.render(stmts))
        elif r < 0.6:
            stmts, _ = gen.damage(rng, stmts)
            out.append(g.render(stmts))
        elif r < 0.85:
            # a label with missing values (repaired by the permissive parsers, an error for the strict ones)
            flat = [list(st) for st in stmts]
            for st in flat:
                if len(st) >= 3 and st[1] == "=" and rng.random() < 0.5 and st[0].upper() not in (
                        "GROUP", "OBJECT", "BEGIN_GROUP", "BEGIN_OBJECT", "END_GROUP", "END_OBJECT"):
                    del st[2:]
            out.append(g.render(flat))
        else:
            out.append(rng.choice(["", "a =", "GROUP = g", "a = (1,", "a = \x01", "x", "a = 1 END garbage (",
                                   "a = */", "a = b*/ c = 1", "a = half*/", "x = a/*b", "w = ok", "a = #x"]))
    if rng.random() < 0.25:
        # a call that records a missing value and then fails part-way, followed by one that succeeds
        # (S12-C16: state reset only on the successful path)
        out[0:0] = [rng.choice(["a =\nb = (1, 2\n", "GROUP = g\n  a =\n  b = {1,\nEND_GROUP\n", "x =\ny =\nz = \"open\n",
                                "a =\r\nOBJECT = o\r\n  b = (1\r\nEND_OBJECT\r\n"]),
                    rng.choice(["w = ok", "q =\nz = 1\n", "a = 1\nb =\nEND", "GROUP = g\n  k = 1\nEND_GROUP\nEND\n"])]
    return out


def failing_module(rng, og):
    """a module whose dump is refused part-way: an unencodable value inside 1..3 nested blocks, after some items"""
    inner = og.items(3, rng.randrange(0, 3)) + [("bad", rng.choice([1j, object(), b"bytes", "both ' and \" quotes"]))]
    for _ in range(rng.randrange(1, 4)):
        cls = rng.choice([io.PVLGroup, io.PVLObject])
        inner = og.items(3, rng.randrange(0, 2)) + [(og.g.ident(), cls(inner))]
    return io.PVLModule(inner)


def probe_module(rng, width):
    """items whose rendering is sensitive to any threshold that could drift: strings of every length around
    width/2 and width, as values, in a sequence, before and inside a block"""
    ch = rng.choice(["X", "x_", "A1"])
    lens = list(range(max(1, width // 2 - 6), width // 2 + 4)) + [max(1, width - 12), width]
    strs = [(ch * n)[:n] for n in lens]
    items = [("S%d" % n, v) for n, v in zip(lens, strs)]
    items.append(("SEQ", strs[4:9]))
    items.append(("G", io.PVLGroup([("T%d" % n, v) for n, v in zip(lens, strs)])))
    items += [("U%d" % n, v) for n, v in zip(lens, strs)]
    return io.PVLModule(items)


def run(ctx):
    lean = core.standard_lean_phase(ctx, PROP_MODULES)
    drv = core.Driver()
    rng = ctx.rng
    nh = 1200 if ctx.thorough() else 160
    bad = corr = None
    ncalls = 0
    stats = collections.Counter()
    samples = []
    model_lines, model_expect = [], []
    distinct = set()
    import pvl.pvl_validate as PV
    shared = {"PDS3": PV.dialects["PDS3"]["parser"], "ODL": PV.dialects["ODL"]["parser"],
              "PVL": PV.dialects["PVL"]["parser"], "ISIS": PV.dialects["ISIS"]["parser"],
              "OMNI": PV.dialects["Omni"]["parser"]}
    for h in range(nh):
        cfg = pf.CFGS[h % 5]
        texts = texts_for(rng, cfg, rng.randrange(2, 9))
        inst = shared[cfg] if h % 4 == 0 else io.make_parser(cfg)
        for i, t in enumerate(texts):
            r_shared = io.real_parse(inst, t, 3.0)
            r_fresh = io.real_parse(io.make_parser(cfg), t, 3.0)
            ncalls += 1
            if i > 0:
                distinct.add(("parse", cfg, tuple(texts[:i + 1])))
            stats[cfg + ":" + pf.outcome_class(r_fresh)] += 1
            if r_shared != r_fresh and bad is None:
                bad = {"what": "call %d on a reused %s parser instance differs from a fresh instance "
                               "(module / errors / exception)" % (i + 1, cfg), "cfg": cfg, "texts": texts[:i + 1],
                       "reused": r_shared, "fresh": r_fresh,
                       "instance": "pvl_validate.dialects" if h % 4 == 0 else "new instance per history"}
            model_lines.append(io.model_parse_line(cfg, t, prior=[3, 1] if i else []))
            model_expect.append((cfg, t, r_fresh))
        if h % 40 == 0 and len(samples) < 5:
            samples.append({"cfg": cfg, "texts": [t[:60] for t in texts]})
    # encoders: one instance, a sequence of modules (some refused), vs fresh instances
    ne = 600 if ctx.thorough() else 80
    for h in range(ne):
        enc = list(encio.ENCODERS)[h % 4]
        og = gen.ObjGen(rng, enc)
        cfg = og.cfg()
        inst = encio.make_encoder(enc, cfg)
        weff = encio.effective_cfg(enc, cfg)["width"]
        for i in range(rng.randrange(2, 7)):
            k = rng.random()
            m = og.module() if k < 0.5 else failing_module(rng, og) if k < 0.75 else probe_module(rng, min(weff, 200))
            try:
                m2 = io.j_to_py(io.py_to_j(m))
            except ValueError:          # holds a value outside the PVL data model (failing_module)
                m2 = copy.deepcopy(m)
            def dump(e, mod):
                try:
                    return ("ok", e.encode(mod))
                except (ValueError, TypeError) as ex:
                    return ("fail", type(ex).__name__)
            a = dump(inst, m)
            b = dump(encio.make_encoder(enc, cfg), m2)
            ncalls += 1
            distinct.add(("enc", enc, repr(a)))
            stats[enc + ":enc:" + a[0]] += 1
            # sets may iterate differently in the rebuilt copy: compare through a reload when sets are present
            if a != b and "{" not in (a[1] if a[0] == "ok" else "") and bad is None:
                bad = {"what": "dump %d through a reused %s encoder instance differs from a fresh instance" % (i + 1, enc),
                       "encoder": enc, "cfg": cfg, "reused": a, "fresh": b}
    # decoders
    for name in io.DECODERS:
        g, d = io.make_decoder(name)
        from .c17 import POOL as _POOL
        words = ["plain", "half*/", "*/", "/*", "a/*b", "x#y", "ok"] + _POOL
        for lit in gen.literal_matrix("OMNI")[:: (1 if ctx.thorough() else 7)] + words:
            def dec(dd):
                try:
                    return repr(dd.decode_simple_value(lit))
                except Exception as e:
                    return type(e).__name__
            a, b = dec(d), dec(io.make_decoder(name)[1])
            ncalls += 1
            distinct.add(("dec", name, lit))
            if a != b and bad is None:
                bad = {"what": "decoder instance %s gives %s after earlier calls, a fresh one %s" % (name, a, b), "text": lit}
    if os.path.exists(drv.exe):
        outs = drv.run(model_lines)
        for (cfg, t, r), o in zip(model_expect, outs):
            m = json.loads(o)
            if corr is None and not io.outcome_equal(r, m):
                corr = {"what": "correspondence parse (model called with a non-empty prior errors list)", "cfg": cfg,
                        "text": t, "real": r, "model": m}
    if bad:
        core.violation(ctx, "history", bad, True)
    elif corr:
        core.violation(ctx, "correspondence", corr, False)
    elif not lean["ok"]:
        core.violation(ctx, "proof", {"what": "C16 proof obligations no longer check", "broken": lean["problems"]}, False)
    cov = {"evaluations": ncalls, "distinct_nontrivial": len(distinct),
           "rule": "non-trivial = distinct (configuration, history prefix of >= 2 calls), distinct encoder outcomes, distinct decoder literals; %d histories of 2..8 texts (well-formed, damaged, with missing values, fixed failing ones) pushed "
                   "through one parser instance per configuration - every fourth history through the module-level "
                   "instances of pvl_validate.dialects - each call compared with a fresh instance (module, errors, "
                   "module.errors, exception attributes); %d histories of 2..5 modules through one encoder instance; "
                   "decode_simple_value sequences through one decoder instance; the parser model is called with a "
                   "non-empty prior state" % (nh, ne),
           "outcomes": dict(stats), "samples": samples, "theorems": lean["names"], "lean_problems": lean["problems"]}
    return core.finish(ctx, "proof", lean["obligations"], lean["discharged"],
                       "cd lean && lake build PvlModel.Props.C16 && lake env lean <#print axioms file>", cov,
                       ["decoder and encoder models are stateless by construction; that assumption is what the "
                        "reused-instance runs test"])


def replay(ctx, path):
    d = json.load(open(path))
    if "texts" not in d:
        print("nothing to replay"); return 0
    inst = io.make_parser(d["cfg"])
    last = None
    for t in d["texts"]:
        last = io.real_parse(inst, t, 3.0)
    fresh = io.real_parse(io.make_parser(d["cfg"]), d["texts"][-1], 3.0)
    print(json.dumps({"reused": last, "fresh": fresh}, indent=1)[:2000])
    if last != fresh:
        print("VIOLATION property=C16 replay=%s" % path)
        return 1
    return 0
