"""C03 — well-formed text decodes to the values the dialect grammar assigns.

The expected tree comes from the spelling generator (vlib/gen.py), which fixes the meaning of
every literal from the PVL / ODL specifications and never consults pvl's decoder or encoder.
Checked three ways: real loader == generator's tree; real loader == parser model; and the Lean
specification (specLoad) == real loader."""
import json, os, collections
from .. import core, parsefam as pf, gen
from .. import pvlio as io
from . import c05

PROP_MODULES = ["PvlModel.Props.C03"]


def expected_j(m):
    return io.py_to_j(m)


def build(ctx, per_cfg):
    rng = ctx.rng
    out = []
    for cfg in pf.CFGS:
        g = gen.Gen(rng, cfg)
        for _ in range(per_cfg):
            stmts, m = g.document()
            out.append((cfg, g.render(stmts), stmts, m))
        out += matrix_cases(cfg)
    return out


def expected_number(cfg, text):
    """value the grammar assigns to a numeric literal, or None if the dialect has no such spelling"""
    import re
    m = re.fullmatch(r"[+-]?(\d+\.?\d*|\.\d+)([eE][+-]?\d+)?", text)
    if m:
        if re.fullmatch(r"[+-]?\d+", text):
            return int(text)
        return float(text)
    nd = gen.TRAITS[cfg]["nd"]
    m1 = re.fullmatch(r"([+-]?)(\d+)#([0-9A-Fa-f]+)#", text)
    m2 = re.fullmatch(r"(\d+)#([+-]?)([0-9A-Fa-f]+)#", text)
    for mm, sg, rd, dg in ((m1, 1, 2, 3), (m2, 2, 1, 3)):
        if mm is None:
            continue
        radix = int(mm.group(rd))
        if mm is m1 and nd == "odl" and mm.group(1):
            continue
        if mm is m2 and nd == "pvl" and mm.group(2):
            continue
        if nd == "pvl" and radix not in (2, 8, 16):
            return None
        if not (2 <= radix <= 16):
            return None
        try:
            v = int(mm.group(dg), radix)
        except ValueError:
            return None
        return -v if mm.group(sg) == "-" else v
    return None


def matrix_cases(cfg):
    from ..pvlio import PVLModule, Quantity
    out = []
    for lit in gen.literal_matrix(cfg):
        v = expected_number(cfg, lit)
        if v is None:
            continue
        out.append((cfg, "a = %s" % lit, None, PVLModule([("a", v)])))
        out.append((cfg, "a = (%s, 2)" % lit, None, PVLModule([("a", [v, 2])])))
        out.append((cfg, "a = (1,%s)\nEND" % lit, None, PVLModule([("a", [1, v])])))
        out.append((cfg, "a = %s <m>;b=1" % lit, None, PVLModule([("a", Quantity(v, "m")), ("b", 1)])))
        out.append((cfg, "a=%s/* c */\nEND" % lit, None, PVLModule([("a", v)])))
    return out


def first_diff(a, b, path="$"):
    if type(a) != type(b):
        return "%s: %s vs %s" % (path, json.dumps(a)[:80], json.dumps(b)[:80])
    if isinstance(a, dict):
        for k in set(a) | set(b):
            if a.get(k) != b.get(k):
                return first_diff(a.get(k), b.get(k), path + "." + k)
    if isinstance(a, list):
        if len(a) != len(b):
            return "%s: length %d vs %d" % (path, len(a), len(b))
        for i, (x, y) in enumerate(zip(a, b)):
            if x != y:
                return first_diff(x, y, "%s[%d]" % (path, i))
    return "%s: %s vs %s" % (path, json.dumps(a)[:80], json.dumps(b)[:80])


def run(ctx):
    lean = core.standard_lean_phase(ctx, PROP_MODULES)
    drv = core.Driver()
    n = 4000 if ctx.thorough() else 500
    docs = build(ctx, n)
    corp = pf.load_corpus("c03.jsonl")
    cases = [(cfg, text) for cfg, text, _, _ in docs]
    reals = pf.eval_real(cases)
    have = os.path.exists(drv.exe)
    models = pf.eval_model(drv, cases) if have else [None] * len(cases)
    specs = [json.loads(o) for o in drv.run(c05.spec_lines(cases))] if have else [None] * len(cases)
    kf = [f for f in core.load_known()["findings"] if f["property"] == "C03"]
    stats = collections.Counter()
    kinds = collections.Counter()
    bad = corr = None
    for (cfg, text, stmts, m), r, mo, sp in zip(docs, reals, models, specs):
        exp = expected_j(m)
        cls = pf.outcome_class(r)
        stats[cfg + ":" + cls] += 1
        for st in (stmts or []):
            for tk in st:
                kinds["tokens"] += 1
        why = None
        if cls != "ok":
            why = "well-formed label was rejected with %s" % cls
        elif r["ok"] != exp:
            why = "loaded tree differs from the tree the grammar denotes: " + first_diff(r["ok"], exp)
        if why and bad is None:
            bad = {"what": why, "cfg": cfg, "text": text, "text_cps": core.cps(text), "real": r, "expected": exp}
        if mo is not None and corr is None and not io.outcome_equal(r, mo):
            corr = {"what": "correspondence parse: model and implementation disagree", "cfg": cfg, "text": text,
                    "text_cps": core.cps(text), "real": r, "model": mo}
        if sp is not None and corr is None and cls == "ok" and (sp == "ILL" or c05.strip_lines(io.canon(sp["ok"])) != c05.strip_lines(r["ok"])):
            corr = {"what": "Lean specification (specLoad) and implementation disagree on a well-formed label",
                    "cfg": cfg, "text": text, "text_cps": core.cps(text), "real": r, "spec": sp}
    if bad:
        core.violation(ctx, "input", bad, True)
    elif corr:
        core.violation(ctx, "correspondence", corr, False)
    elif not lean["ok"]:
        core.violation(ctx, "proof", {"what": "C03 proof obligations no longer check", "broken": lean["problems"]}, False)
    for f in kf:
        ctx.known_hits.append("%s %s" % (f["id"], f["what"]))
    cov = {
        "evaluations": len(cases),
        "distinct_nontrivial": len({(c, t) for c, t in cases if len(t) > 10}),
        "rule": "%d generated well-formed labels per configuration: nested blocks (BEGIN_/plain keywords in any "
                "letter case, optional end names and delimiters), based integers in every permitted radix and sign "
                "position, reals with optional sign/fraction/exponent, both quote characters, unquoted strings, "
                "dates/times/zones, nested sets and sequences, units, free white-space/comment layout; expected "
                "tree fixed by the generator; non-trivial = text longer than 10 characters" % n,
        "outcomes": dict(stats),
        "samples": [{"cfg": c, "text": t[:160]} for c, t in cases[::max(1, len(cases) // 6)][:6]],
        "theorems": lean["names"], "lean_problems": lean["problems"],
    }
    return core.finish(ctx, "proof", lean["obligations"], lean["discharged"],
                       "cd lean && lake build PvlModel.Props.C03 && lake env lean <#print axioms file>", cov,
                       ["reals compared as Python floats (float(text) on both sides)",
                        "generator avoids the recorded findings' regions (sets that contain sequences; tokens "
                        "ending in '*' or '/' directly next to a comment)"])


def replay(ctx, path):
    d = json.load(open(path))
    r = io.real_parse(io.make_parser(d["cfg"]), d["text"], 2.0)
    print(json.dumps({"real": r, "expected": d.get("expected")}, indent=1)[:3000])
    if "expected" in d and (pf.outcome_class(r) != "ok" or r["ok"] != d["expected"]):
        print("VIOLATION property=C03 replay=%s" % path)
        return 1
    return 0
