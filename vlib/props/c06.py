"""C06 — loaders terminate and fail only with the documented error types."""
import json, os, collections
from .. import core, parsefam as pf
from .. import pvlio as io

PROP_MODULES = ["PvlModel.Props.C06"]
OK_CLASSES = ("ok", "LexerError", "ParseError")


def build_cases(ctx):
    rng = ctx.rng
    cases, kinds = [], []

    def add(cfg, text, kind):
        cases.append((cfg, text)); kinds.append(kind)
    for rec in pf.load_corpus("c06.jsonl"):
        for cfg in (rec.get("cfgs") or pf.CFGS):
            add(cfg, rec["text"], "corpus")
    maxlen = 4 if ctx.thorough() else 3
    for s in pf.short_strings(pf.ALPHA6, maxlen):
        for cfg in pf.CFGS:
            add(cfg, s, "exhaustive")
    from .. import gen as _gen
    for cfg in pf.CFGS:
        for lit in _gen.literal_matrix(cfg):
            ctxs = _gen.literal_contexts(lit)
            for t in (ctxs if ctx.thorough() else ctxs[:1] + [ctxs[1 + (hash(lit) % (len(ctxs) - 1))]]):
                add(cfg, t, "literal-matrix")
    nfrag = 20000 if ctx.thorough() else 2500
    for s in pf.frag_strings(rng, nfrag):
        for cfg in pf.CFGS:
            add(cfg, s, "fragments")
    nd = 6000 if ctx.thorough() else 700
    for cfg in pf.CFGS:
        for text, stmts, kind in pf.damaged(rng, cfg, nd):
            add(cfg, text, "damaged:" + kind)
        for text, stmts, m in pf.spelled(rng, cfg, nd // 3):
            add(cfg, text, "wellformed")
    # long tokens: running time must not blow up with the length of one lexeme (quadratic scans, regular
    # expressions that back-track): bare words, near-identifiers, digit strings, quoted strings of 30..400
    # characters with a character at the end that makes them something else
    for n in (30, 48, 120, 400):
        base = ("MGS_MOC_NA_IMAGE_PRODUCT_E0100001_CALIBRATED" * 10)[:n]
        longs = [base, base + "-V2", base + ".", base + "_", base.lower() + "-", "9" * n, "9" * n + "x", "1" * n + ".5e",
                 "A" + "_" * n + "B", "A" + "_B" * (n // 2), "A" + "_B" * (n // 2) + "_", "\"" + "x " * n + "\"",
                 "\"" + "x-\n " * (n // 4) + "\"", "a" * n + ":" + "b" * n, "^" + base, base + "*/", "2#" + "10" * n + "#",
                 "16#" + "fF" * n + "#", "2001-01-01T10:00:00." + "5" * n, "<" + "m" * n + ">"]
        for w in longs:
            for cfg in pf.CFGS:
                add(cfg, "ID = %s\nEND\n" % w, "long-token")
                add(cfg, "%s = 1\n" % w, "long-token")
                add(cfg, "GROUP = %s\nEND_GROUP = %s\n" % (w, w), "long-token")
    for name, text in pf.corpus_texts():
        for cfg in pf.CFGS:
            add(cfg, text, "testsdata")
            for _ in range(6 if ctx.thorough() else 2):
                # mutate: cut / splice / drop a chunk
                i, j = sorted((rng.randrange(len(text) + 1), rng.randrange(len(text) + 1)))
                k = rng.random()
                mt = text[:i] if k < 0.3 else (text[:i] + text[j:] if k < 0.7 else text[:i] + rng.choice(pf.FRAGS) + text[i:])
                add(cfg, mt[:3000], "testsdata-mutated")
    return cases, kinds


def run(ctx):
    lean = core.standard_lean_phase(ctx, PROP_MODULES)
    drv = core.Driver()
    cases, kinds = build_cases(ctx)
    reals = pf.eval_real(cases)
    model_ok = os.path.exists(drv.exe) and lean["ok"]
    models = pf.eval_model(drv, cases) if os.path.exists(drv.exe) else [None] * len(cases)
    classes = collections.Counter()
    kindc = collections.Counter()
    bad_prop, bad_corr = [], []
    seen = set()
    for (cfg, text), kind, r, m in zip(cases, kinds, reals, models):
        cls = pf.outcome_class(r)
        classes[cfg + ":" + cls] += 1
        kindc[kind.split(":")[0]] += 1
        seen.add((cfg, text))
        if cls not in OK_CLASSES:
            bad_prop.append((cfg, text, kind, r, m))
        elif m is not None and not io.outcome_equal(r, m):
            bad_corr.append((cfg, text, kind, r, m))
    known = core.load_known()
    kf = [f for f in known["findings"] if f["property"] == "C06"]

    def report(cfg, text, kind, r, m, what, found):
        def still(t):
            rr = io.real_parse(io.make_parser(cfg), t, 2.0)
            return pf.outcome_class(rr) == pf.outcome_class(r) if found else not io.outcome_equal(
                rr, json.loads(drv.run([io.model_parse_line(cfg, t)])[0]))
        small = pf.shrink_text(text, still) if len(text) < 4000 else text
        rr = io.real_parse(io.make_parser(cfg), small, 2.0)
        core.violation(ctx, "input", {"what": what, "cfg": cfg, "text": small, "text_cps": core.cps(small),
                                      "original_text": text if len(text) < 500 else text[:500], "generator": kind,
                                      "real": rr, "model": m}, found_input=found)

    for cfg, text, kind, r, m in bad_prop:
        hit = [f for f in kf if f.get("cfg") in (None, cfg) and f.get("err") == pf.outcome_class(r)
               and f.get("text") == text]
        if hit:
            ctx.known_hits.append("%s %s on %r" % (hit[0]["id"], hit[0]["what"], text))
            continue
        report(cfg, text, kind, r, m,
               "load escaped with %s (neither LexerError nor ParseError nor a module)" % pf.outcome_class(r), True)
        break
    if not ctx.violations and bad_corr:
        cfg, text, kind, r, m = bad_corr[0]
        report(cfg, text, kind, r, m, "correspondence parse: model and implementation disagree "
               "(no input found on which the real loader hangs or leaks another exception)", False)
    if not ctx.violations and not lean["ok"]:
        core.violation(ctx, "proof", {"what": "C06 proof obligations no longer check",
                                      "broken": lean["problems"]}, found_input=False)
    samples = [{"cfg": c, "text": t[:80], "kind": k, "real": pf.outcome_class(r)}
               for (c, t), k, r in list(zip(cases, kinds, reals))[::max(1, len(cases) // 8)]][:8]
    cov = {
        "evaluations": len(cases),
        "distinct_nontrivial": len({(c, t) for (c, t) in seen if len(t) >= 2}),
        "rule": "every string of length<=%d over %d PVL-significant symbols x 5 configurations (exhaustive), "
                "fragment concatenations, token-damaged and well-formed generated labels, tests/data files and "
                "cut/spliced variants; each run on the real loader (2 s wall-clock guard => HANG) and on the "
                "model; non-trivial = text of at least 2 characters, distinct by (configuration, text)"
                % (4 if ctx.thorough() else 3, len(pf.ALPHA6)),
        "exhaustive": False,
        "exhaustive_part": "all strings over the %d-symbol alphabet up to length %d" % (len(pf.ALPHA6), 4 if ctx.thorough() else 3),
        "outcome_classes": dict(classes),
        "input_kinds": dict(kindc),
        "samples": samples,
        "theorems": lean["names"],
        "lean_problems": lean["problems"],
        "correspondence_disagreements": len(bad_corr),
    }
    return core.finish(ctx, "proof", lean["obligations"], lean["discharged"],
                       "cd lean && lake build PvlModel.Props.C06 && lake env lean <#print axioms file>", cov,
                       ["interpreter recursion limit: nesting depth is unbounded in the model; "
                        "tokens longer than 4300 digits are outside the model's int() domain",
                        "wall-clock guard of 2 s per case stands for non-termination on the real side"])


def replay(ctx, path):
    d = json.load(open(path))
    r = io.real_parse(io.make_parser(d["cfg"]), d["text"], 2.0)
    print(json.dumps({"cfg": d["cfg"], "text": d["text"], "real": r}, indent=1))
    if pf.outcome_class(r) not in OK_CLASSES:
        print("VIOLATION property=C06 replay=%s" % path)
        return 1
    return 0
