"""C09 — file, stream and string entry points agree; nothing after END matters."""
import json, os, io as _io, collections, pathlib, shutil, tempfile
from .. import core, gen, encio, parsefam as pf
from .. import pvlio as io

PROP_MODULES = ["PvlModel.Props.C09"]


class CountingStr(str):
    """a str that records how far the lexer has read"""
    def __new__(cls, s, box):
        self = super().__new__(cls, s)
        self.box = box
        return self

    def __iter__(self):
        for i in range(len(self)):
            if i > self.box[0]:
                self.box[0] = i
            yield str.__getitem__(self, i)

    def __getitem__(self, k):
        if isinstance(k, int) and k >= 0 and k > self.box[0]:
            self.box[0] = k
        return str.__getitem__(self, k)


def counting_lexer(box):
    def fn(s, g=None, d=None):
        return io.L.lexer(CountingStr(s, box), g=g, d=d)
    return fn


def trailing(rng, kind):
    if kind == "none":
        return b""
    if kind == "binary":
        return bytes(rng.randrange(256) for _ in range(rng.choice([1, 7, 300, 9000])))
    if kind == "utf8":
        return ("caf\xe9 ☃ " * rng.choice([1, 40])).encode("utf-8")
    if kind == "nul":
        return b"\x00" * rng.choice([1, 100, 9000])
    if kind == "longrun":
        return b"A" * rng.choice([5000, 20000])
    if kind == "bad-then-text":
        return b"\xff\xfe more = text\n"
    if kind == "late-bad":
        return b" " * 9000 + b"\xff\xff"
    if kind == "bad-first":      # image data that starts right after END with a byte that is not text
        return rng.choice([b"\x89PNG\r\n\x1a\n\x00\x00\x00\rIHDR", b"\xff\xd8\xff\xe0JFIF", b"\xe2\x82BM6\x04\x00\x00"])
    return b""


def entry_points(tmp, data, label_text):
    """-> {name: outcome json}"""
    import pvl, urllib.request
    out = {}
    p = os.path.join(tmp, "label.lbl")
    with open(p, "wb") as f:
        f.write(data)

    def attempt(name, fn):
        try:
            m = core.with_timer(10.0, fn)
            out[name] = {"ok": io.py_to_j(m)}
        except BaseException as e:  # noqa
            if isinstance(e, (KeyboardInterrupt, SystemExit)):
                raise
            out[name] = {"fail": type(e).__name__}
    attempt("path-str", lambda: pvl.load(p))
    attempt("pathlike", lambda: pvl.load(pathlib.Path(p)))

    class FsPath:           # an os.PathLike that is not a pathlib.Path: only __fspath__
        def __init__(self, q): self.q = q
        def __fspath__(self): return self.q
    attempt("fspath-object", lambda: pvl.load(FsPath(p)))

    def dir_entry():
        for e in os.scandir(tmp):
            if e.name == "label.lbl":
                return pvl.load(e)
        raise FileNotFoundError(p)
    attempt("dir-entry", dir_entry)
    attempt("file-url", lambda: pvl.loadu(pathlib.Path(p).as_uri()))

    def text_stream():
        with open(p, "r") as f:
            return pvl.load(f)
    attempt("text-stream", text_stream)

    def bin_stream():
        with open(p, "rb") as f:
            return pvl.load(f)
    attempt("binary-stream", bin_stream)
    attempt("bytes", lambda: pvl.loads(data))
    attempt("bytesio", lambda: pvl.load(_io.BytesIO(data)))
    try:
        s = data.decode()
        attempt("str", lambda: pvl.loads(s))
    except UnicodeDecodeError:
        pass
    return out


def run(ctx):
    lean = core.standard_lean_phase(ctx, PROP_MODULES)
    import pvl
    rng = ctx.rng
    n = 400 if ctx.thorough() else 60
    tmp = tempfile.mkdtemp(prefix="c09_", dir=os.path.join(core.VERIF, ".cache") if os.path.isdir(os.path.join(core.VERIF, ".cache")) else None)
    bad = None
    corr = None
    drv = core.Driver()
    have = os.path.exists(drv.exe)
    distinct = set()
    reach = []          # (text, how far the real lexer was driven)
    stats = collections.Counter()
    samples = []
    evals = 0
    try:
        g = gen.Gen(rng, "OMNI")
        for i in range(n):
            stmts, m = g.document()
            stmts = [st for st in stmts if st and st[0].upper() != "END"]
            body = g.render(stmts)
            if not all(ord(c) < 128 for c in body):
                body = "".join(c for c in body if ord(c) < 128)
            try:
                want = io.py_to_j(core.with_timer(5.0, pvl.loads, body + "\nEND\n"))
            except Exception:
                continue
            sep = rng.choice(["\n", "\r\n", " ", ";", ";\n", "\n\n", "\t"])
            label = body + "\n" + rng.choice(["END", "End", "end"]) + sep
            for kind in ("none", "binary", "utf8", "nul", "longrun", "bad-then-text", "late-bad", "bad-first"):
                lab = label
                if kind == "bad-first":
                    lab = label[:len(label) - len(sep)]      # no separator at all between END and the data
                data = lab.encode("ascii") + trailing(rng, kind)
                res = entry_points(tmp, data, lab)
                evals += len(res)
                if kind != "none":
                    distinct.update((hash(data), name) for name in res)
                for name, r in res.items():
                    stats["%s:%s:%s" % (kind, name, "ok" if "ok" in r else r["fail"])] += 1
                    if bad is None and ("ok" not in r or r["ok"] != want):
                        bad = {"what": "entry point %s with trailing %s bytes after END gives %s instead of the module "
                                       "of the label alone" % (name, kind, "a different module" if "ok" in r else r["fail"]),
                               "entry": name, "trailing_kind": kind, "label": lab, "data_hex": data[:4000].hex(),
                               "result": r, "expected": want}
                if i % 20 == 0 and kind == "binary" and len(samples) < 4:
                    samples.append({"label": label[:120], "trailing": kind})
            # the parser requests no token beyond END: count how far the lexer read
            box = [-1]
            text = label + "X" * 5000 + " = ("
            try:
                p = io.P.OmniParser(lexer_fn=counting_lexer(box))
                core.with_timer(5.0, p.parse, text)
                end_pos = len(label) - len(sep) - 1
                evals += 1
                reach.append((text, box[0]))
                if box[0] > end_pos + 2 and bad is None:
                    bad = {"what": "the lexer was driven %d characters past the END statement" % (box[0] - end_pos),
                           "label": label, "examined": box[0], "end_at": end_pos}
            except Exception as e:
                if bad is None:
                    bad = {"what": "label followed by unbroken data failed to load (%s)" % type(e).__name__, "label": label}
        # the model predicts exactly how far the lexer is driven (Token.last of the last token + look-ahead)
        if have and reach:
            outs = drv.run([io.model_parse_line("OMNI", t) for t, _ in reach])
            for (t, got), o in zip(reach, outs):
                mo = json.loads(o)
                want_reach = min(mo.get("examined", -1) + 1, len(t) - 1)
                stats["reach:" + ("same" if want_reach == got else "differs")] += 1
                if corr is None and ("ok" not in mo or mo.get("exhausted") or want_reach != got):
                    corr = {"what": "correspondence: the model's lexer generator stops at character %s, the real "
                                    "lexer was driven to %s" % (want_reach, got), "text": t[:300] + "...",
                            "model": {k: mo.get(k) for k in ("examined", "exhausted", "fail")}}
        # dump targets
        for enc in encio.ENCODERS:
            og = gen.ObjGen(rng, enc)
            fixed = []
            if enc in ("PVL", "ISIS"):
                # characters beyond ASCII that the dialect allows: every target must carry the same (UTF-8) text
                fixed = [io.PVLModule([("a", "caf\xe9"), ("b", io.Quantity(1.5, "\xb5m")), ("c", ["\xb0", "x"])])]
            for k in range((12 if ctx.thorough() else 4) + len(fixed)):
                m = fixed[k] if k < len(fixed) else og.module()
                try:
                    text = pvl.dumps(m, encoder=encio.make_encoder(enc, {}))
                except (ValueError, TypeError):
                    continue
                p1 = os.path.join(tmp, "out1.lbl")
                r1 = pvl.dump(m, p1, encoder=encio.make_encoder(enc, {}))
                with open(p1, "rb") as f:
                    w1 = f.read().decode("utf-8", errors="replace")
                sio = _io.StringIO()
                r2 = pvl.dump(m, sio, encoder=encio.make_encoder(enc, {}))
                bio = _io.BytesIO()
                r3 = pvl.dump(m, bio, encoder=encio.make_encoder(enc, {}))
                evals += 3
                # text-mode files translate '\n' on this platform to '\n' (no change); compare content
                if bad is None and not (w1 == text and sio.getvalue() == text and bio.getvalue() == text.encode("utf-8")):
                    bad = {"what": "dump() to a path / text stream / binary stream did not write exactly the text of dumps()",
                           "encoder": enc, "module": io.py_to_j(m)}
                elif bad is None and not (r1 == len(text) and r2 == len(text) and r3 == len(text.encode())):
                    bad = {"what": "dump() did not report the length written (%s, %s, %s for %d characters)" % (r1, r2, r3, len(text)),
                           "encoder": enc, "module": io.py_to_j(m)}
    finally:
        shutil.rmtree(tmp, ignore_errors=True)
    kf = [f for f in core.load_known()["findings"] if f["property"] == "C09"]
    if bad:
        core.violation(ctx, "data", bad, True)
    elif corr:
        core.violation(ctx, "correspondence", corr, False)
    elif not lean["ok"]:
        core.violation(ctx, "proof", {"what": "C09 proof obligations no longer check", "broken": lean["problems"]}, False)
    for f in kf:
        ctx.known_hits.append("%s %s" % (f["id"], f["what"]))
    cov = {"evaluations": evals, "distinct_nontrivial": len(distinct),
           "rule": "non-trivial = distinct (bytes, entry point) pairs with trailing bytes after END; %d generated ASCII labels x separators after END x 7 kinds of trailing bytes (none, random binary, "
                   "valid UTF-8, NULs, long unbroken runs, bad byte right after END, bad byte beyond the 8 KiB mark) x "
                   "up to 10 entry points (path str, pathlib.Path, a bare __fspath__ object, os.DirEntry, file: URL, text stream, binary stream, bytes, BytesIO, "
                   "str); a character-counting lexer (public lexer_fn) measures how far the lexer was driven; dump() "
                   "to path / text stream / binary stream vs dumps()" % n,
           "outcomes": {k: v for k, v in list(stats.items())[:80]}, "samples": samples,
           "theorems": lean["names"], "lean_problems": lean["problems"]}
    return core.finish(ctx, "proof", lean["obligations"], lean["discharged"],
                       "cd lean && lake build PvlModel.Props.C09 && lake env lean <#print axioms file>", cov,
                       ["which fall-back a text-mode stream takes depends on CPython's decode chunk size (8192 bytes); "
                        "both sides of that boundary are generated"])


def replay(ctx, path):
    d = json.load(open(path))
    if "data_hex" not in d:
        print("nothing to replay"); return 0
    tmp = tempfile.mkdtemp(prefix="c09r_")
    try:
        res = entry_points(tmp, bytes.fromhex(d["data_hex"]), d["label"])
    finally:
        shutil.rmtree(tmp, ignore_errors=True)
    r = res.get(d["entry"])
    print(json.dumps({"result": r, "expected": d["expected"]}, indent=1)[:2000])
    if r is None or "ok" not in r or r["ok"] != d["expected"]:
        print("VIOLATION property=C09 replay=%s" % path)
        return 1
    return 0
