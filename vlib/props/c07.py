"""C07 — load, dump, load is stable: normalisation is idempotent."""
import json, os, collections, multiprocessing as mp
from .. import core, gen, encio, parsefam as pf
from .. import pvlio as io
from . import c01, c08

PROP_MODULES = ["PvlModel.Props.C07"]


def has_set(j):
    if isinstance(j, dict):
        return j.get("t") in ("FS", "SET") or any(has_set(v) for v in j.values())
    if isinstance(j, list):
        return any(has_set(v) for v in j)
    return False


def _work(args):
    t0, = args
    def load(t):
        return core.with_timer(5.0, io.pvl.loads, t)
    try:
        m1 = load(t0)
    except BaseException as e:  # noqa
        if isinstance(e, (KeyboardInterrupt, SystemExit)):
            raise
        return None
    res = {}
    for enc in encio.ENCODERS:
        e = encio.make_encoder(enc, {})
        try:
            t1 = e.encode(m1)
        except (ValueError, TypeError) as ex:
            res[enc] = {"skip": type(ex).__name__}
            continue
        except Exception as ex:
            res[enc] = {"bad": "dump of a loaded module raised %s" % type(ex).__name__, "t0": t0}
            continue
        exp = c01.canon_j(io.py_to_j(c01.norm(enc, "OMNI", m1, {}, top=True)))
        try:
            m2 = load(t1)
        except BaseException as ex:  # noqa
            if isinstance(ex, (KeyboardInterrupt, SystemExit)):
                raise
            res[enc] = {"bad": "text dumped from a loaded module is rejected on re-load (%s)" % type(ex).__name__,
                        "t0": t0, "t1": t1}
            continue
        got = c01.canon_j(io.py_to_j(m2))
        if got != exp:
            from .c03 import first_diff
            res[enc] = {"bad": "second load differs from the first (beyond the normalisations): " + first_diff(got, exp),
                        "t0": t0, "t1": t1}
            continue
        try:
            t2 = encio.make_encoder(enc, {}).encode(m2)
        except Exception as ex:
            res[enc] = {"bad": "second dump raised %s" % type(ex).__name__, "t0": t0, "t1": t1}
            continue
        if t2 != t1:
            if has_set(got):
                try:
                    m3 = load(t2)
                    same = c01.canon_j(io.py_to_j(m3)) == got
                except Exception:
                    same = False
                if same:
                    res[enc] = {"ok": "set-order"}
                    continue
            res[enc] = {"bad": "second dump is not byte-identical to the first", "t0": t0, "t1": t1, "t2": t2}
            continue
        res[enc] = {"ok": True}
    return res


def run(ctx):
    lean = core.standard_lean_phase(ctx, PROP_MODULES)
    rng = ctx.rng
    n = 2000 if ctx.thorough() else 260
    texts = []
    g = gen.Gen(rng, "OMNI")
    for _ in range(n):
        stmts, m = g.document()
        texts.append(g.render(stmts))
    gi = gen.Gen(rng, "ISIS")
    for _ in range(n // 3):
        stmts, m = gi.document()
        texts.append(gi.render(stmts))
    # loader-only values: missing values, leap seconds, units on sequences, mixed-case keywords
    class _C:  # minimal ctx for c08.build
        pass
    cc = _C(); cc.rng = rng
    for cfg, t, _, _ in c08.build(cc, n // 4):
        texts.append(t)
    # hyphenated words where lines get wrapped: a break after the hyphen would read back as a dash-continuation
    hy = ["high-resolution", "along-track", "push-broom", "whisk-broom", "semi-major-axis", "cross-track", "a-b"]
    for n in (6, 9, 12, 16):
        for off in range(3):
            ws = [hy[(i + off) % len(hy)] for i in range(n)]
            texts.append("x%s = (%s)\nEND\n" % ("k" * off, ", ".join(ws)))
            texts.append("x%s = \"%s\"\nEND\n" % ("k" * off, " ".join(ws)))
            texts.append("GROUP = g\n  OBJECT = o\n    filters%s = {%s}\n  END_OBJECT\nEND_GROUP\nEND\n" % ("k" * off, ", ".join(ws)))
    texts += ["t = 23:59:60\nu = 1998-12-31T23:59:60.5Z\nEND", "s = (1, 2) <m>\nq = {a, b} <K>\n",
              "Begin_Group = g\n x = nUlL\n y = tRuE\nEnd_group = g\neNd", "a = \"x-\n   y  z\"\n", "a = 'it''s'\n"]
    for name, t in pf.corpus_texts():
        texts.append(t)
        for _ in range(3 if ctx.thorough() else 1):
            i, j = sorted((rng.randrange(len(t) + 1), rng.randrange(len(t) + 1)))
            texts.append(t[:i] + t[j:])
    with mp.Pool(16) as pool:
        res = pool.map(_work, [(t,) for t in texts], chunksize=max(1, len(texts) // 128))
    stats = collections.Counter()
    bad = None
    loaded = 0
    distinct = set()
    for t, r in zip(texts, res):
        if r is None:
            stats["first-load-fails"] += 1
            continue
        loaded += 1
        for enc, v in r.items():
            k = "ok" if "ok" in v else ("skip" if "skip" in v else "BAD")
            stats[enc + ":" + k] += 1
            if k == "ok":
                distinct.add((t, enc))
            if "bad" in v and bad is None:
                bad = {"what": "%s (encoder %s)" % (v["bad"], enc), "encoder": enc, "t0": v.get("t0"),
                       "t1": v.get("t1"), "t2": v.get("t2")}
    if bad:
        core.violation(ctx, "text", bad, True)
    elif not lean["ok"]:
        core.violation(ctx, "proof", {"what": "C07 proof obligations no longer check", "broken": lean["problems"]}, False)
    for f in [f for f in core.load_known()["findings"] if f["property"] == "C07"]:
        ctx.known_hits.append("%s %s" % (f["id"], f["what"]))
    cov = {"evaluations": len(texts) * 4, "distinct_nontrivial": len(distinct),
           "rule": "texts: %d generated OMNI spellings, ISIS spellings, labels with missing values, fixed loader-only "
                   "cases (leap seconds, units on sequences, mixed-case keywords, folded strings), tests/data files and "
                   "cut variants; for each loadable text and each encoder that accepts the module: "
                   "m2 == norm(m1), second dump byte-identical (or equal after reload when the module holds a set); "
                   "non-trivial = the first load succeeded" % n,
           "outcomes": dict(stats), "samples": [t[:140] for t in texts[::max(1, len(texts) // 6)][:6]],
           "theorems": lean["names"], "lean_problems": lean["problems"]}
    return core.finish(ctx, "proof", lean["obligations"], lean["discharged"],
                       "cd lean && lake build PvlModel.Props.C07 && lake env lean <#print axioms file>", cov,
                       ["default encoder options (width 80) in this chain; option combinations are C01/C02's subject"])


def replay(ctx, path):
    d = json.load(open(path))
    if not d.get("t0"):
        print("nothing to replay"); return 0
    r = _work((d["t0"],))
    print(json.dumps(r, indent=1)[:3000])
    if r and any("bad" in v for v in r.values()):
        print("VIOLATION property=C07 replay=%s" % path)
        return 1
    return 0
