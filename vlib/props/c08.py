"""C08 — missing values are tolerated by the default loader and located exactly."""
import json, os, collections, random
from .. import core, parsefam as pf, gen
from .. import pvlio as io
from ..pvlio import PVLModule, PVLGroup, PVLObject, EmptyValueAtLine

PROP_MODULES = ["PvlModel.Props.C08"]
OMNI_CFGS = ["OMNI", "ISIS"]
STRICT_CFGS = ["PVL", "ODL", "PDS3"]


class Node:
    pass


def make_tree(g, rng, depth=0, n=None):
    """list of nodes: ('assign', key, value_tokens, value, delim) | ('block', kw tokens, name, children, end tokens, cls)"""
    n = rng.randrange(1, 6) if n is None else n
    out = []
    pool = [g.ident() for _ in range(2)]
    for _ in range(n):
        if rng.random() < 0.78 or depth >= 2:
            # duplicate names are legal and kept in order
            key = rng.choice(pool) if rng.random() < 0.35 else g.ident()
            vt, v = g.value()
            # no '-' + line end inside values (recorded finding KF-C08-2) and no sets/sequences holding
            # keyword-like bare words that would confuse the expected tree
            out.append(["assign", key, vt, v, rng.random() < 0.35])
        else:
            grp = rng.random() < 0.5
            base = "GROUP" if grp else "OBJECT"
            beg = ("BEGIN_" + base) if (g.t["begin"] and rng.random() < 0.3) else base
            name = g.ident()
            kids = make_tree(g, rng, depth + 1, rng.randrange(1, 4))
            out.append(["block", g.kwcase(beg), name, kids, g.kwcase("END_" + base), rng.random() < 0.5,
                        PVLGroup if grp else PVLObject])
    return out


def flatten(tree, removed, stmts, marks, path=()):
    """-> statements; marks: list of (path, index-of-'='-token-in-flat) for removed assignments"""
    for i, nd in enumerate(tree):
        p = path + (i,)
        if nd[0] == "assign":
            _, key, vt, v, delim = nd
            if p in removed:
                st = [key, "="]
                marks.append((p, sum(len(s) for s in stmts) + 1))
            else:
                st = [key, "="] + vt
            if delim:
                st.append(";")
            stmts.append(st)
        else:
            _, beg, name, kids, endkw, withname, cls = nd
            stmts.append([beg, "=", name])
            flatten(kids, removed, stmts, marks, p)
            stmts.append([endkw] + (["=", name] if withname else []))


def expected(tree, removed, lines, path=()):
    items = []
    for i, nd in enumerate(tree):
        p = path + (i,)
        if nd[0] == "assign":
            items.append((nd[1], EmptyValueAtLine(lines[p]) if p in removed else nd[3]))
        else:
            items.append((nd[2], nd[6](expected(nd[3], removed, lines, p))))
    return items


def all_assign_paths(tree, path=()):
    out = []
    for i, nd in enumerate(tree):
        p = path + (i,)
        if nd[0] == "assign":
            out.append(p)
        else:
            out += all_assign_paths(nd[3], p)
    return out


def has_dash_eol(text):
    import re
    return re.search(r"-[\n\r\f]", text) is not None


def build(ctx, n):
    rng = ctx.rng
    out = []
    for cfg in OMNI_CFGS:
        g = gen.Gen(rng, cfg)
        for k in range(n):
            tree = make_tree(g, rng)
            paths = all_assign_paths(tree)
            if not paths:
                continue
            # all subsets for small trees (every 5th document), random subsets otherwise
            if len(paths) <= 4 and k % 5 == 0:
                subsets = [set(p for j, p in enumerate(paths) if (mask >> j) & 1) for mask in range(1, 2 ** len(paths))]
            else:
                subsets = [set(rng.sample(paths, rng.randrange(1, min(len(paths), 3) + 1)))]
                if rng.random() < 0.3:
                    subsets.append({paths[-1]})          # last statement: gap before END / end of text
                if rng.random() < 0.2:
                    subsets.append(set(paths))           # adjacent gaps everywhere
            with_end = rng.random() < 0.6
            for removed in subsets:
                stmts, marks = [], []
                flatten(tree, removed, stmts, marks)
                if with_end:
                    stmts.append([g.kwcase("END")])
                text, offs = g.render_pos(stmts, random.Random(rng.random()), comment_free_of="=")
                if has_dash_eol(text):
                    continue
                lines = {p: text.count("\n", 0, offs[idx][1]) + 1 for p, idx in marks}
                assert all(offs[idx][0] == "=" for _, idx in marks)
                exp = PVLModule(expected(tree, removed, lines))
                out.append((cfg, text, io.py_to_j(exp), sorted(lines.values())))
    return out


def run(ctx):
    lean = core.standard_lean_phase(ctx, PROP_MODULES)
    drv = core.Driver()
    n = 1500 if ctx.thorough() else 220
    docs = build(ctx, n)
    cases = [(cfg, t) for cfg, t, _, _ in docs]
    strict_cases = [(scfg, t) for cfg, t, _, _ in docs[::3] for scfg in STRICT_CFGS]
    allc = cases + strict_cases
    reals = pf.eval_real(allc)
    have = os.path.exists(drv.exe)
    models = pf.eval_model(drv, allc) if have else [None] * len(allc)
    bad = corr = None
    stats = collections.Counter()
    for i, ((cfg, text, exp, lines), r) in enumerate(zip(docs, reals)):
        cls = pf.outcome_class(r)
        stats[cfg + ":" + cls] += 1
        why = None
        if cls != "ok":
            why = "label with %d missing value(s) was rejected by the default loader (%s)" % (len(lines), cls)
        elif r["ok"] != exp:
            from .c03 import first_diff
            why = "module differs from the expected one (placeholders with the line of their '='): " + first_diff(r["ok"], exp)
        elif list(r["module_errors"]) != lines:
            why = "module.errors %s is not the sorted list of '=' lines %s" % (r["module_errors"], lines)
        if why and bad is None:
            bad = {"what": why, "cfg": cfg, "text": text, "text_cps": core.cps(text), "real": r, "expected": exp,
                   "expected_errors": lines}
    for (cfg, text), r in zip(strict_cases, reals[len(cases):]):
        cls = pf.outcome_class(r)
        stats[cfg + ":" + cls] += 1
        if cls == "ok" and bad is None:
            bad = {"what": "strict %s parser accepted a label with a missing value" % cfg, "cfg": cfg, "text": text,
                   "text_cps": core.cps(text), "real": r, "strict": True}
    for (cfg, text), r, m in zip(allc, reals, models):
        if m is not None and corr is None and not io.outcome_equal(r, m):
            corr = {"what": "correspondence parse: model and implementation disagree", "cfg": cfg, "text": text,
                    "text_cps": core.cps(text), "real": r, "model": m}
    if bad:
        core.violation(ctx, "input", bad, True)
    elif corr:
        core.violation(ctx, "correspondence", corr, False)
    elif not lean["ok"]:
        core.violation(ctx, "proof", {"what": "C08 proof obligations no longer check", "broken": lean["problems"]}, False)
    for f in [f for f in core.load_known()["findings"] if f["property"] == "C08"]:
        w = f["witness"]
        r = io.real_parse(io.make_parser(w["cfg"]), w["text"], 2.0)
        if pf.outcome_class(r) != "ok" or list(r["module_errors"]) != w["expected_errors"]:
            ctx.known_hits.append("%s %s" % (f["id"], f["what"]))
    cov = {
        "evaluations": len(allc),
        "distinct_nontrivial": len({(c, t) for c, t in allc}),
        "rule": "%d generated trees per permissive configuration (OMNI, ISIS); for every fifth small tree all "
                "subsets of its assignments lose their value, otherwise random subsets incl. 'last statement' "
                "and 'all statements' (adjacent gaps); free layout; expected module has EmptyValueAtLine(line of "
                "'=') and errors = sorted lines; every third text also through the strict PVL/ODL/PDS3 parsers, "
                "which must raise; all texts through the parser model" % n,
        "outcomes": dict(stats),
        "samples": [{"cfg": c, "text": t[:160], "errors": l} for c, t, _, l in docs[::max(1, len(docs) // 6)][:6]],
        "theorems": lean["names"], "lean_problems": lean["problems"],
    }
    return core.finish(ctx, "proof", lean["obligations"], lean["discharged"],
                       "cd lean && lake build PvlModel.Props.C08 && lake env lean <#print axioms file>", cov,
                       ["comments in these layouts do not contain '=' and no '-' stands at a line end "
                        "(two recorded findings about how the line number is searched for)"])


def replay(ctx, path):
    d = json.load(open(path))
    r = io.real_parse(io.make_parser(d["cfg"]), d["text"], 2.0)
    print(json.dumps({"real": r, "expected_errors": d.get("expected_errors")}, indent=1)[:3000])
    if d.get("strict"):
        if pf.outcome_class(r) == "ok":
            print("VIOLATION property=C08 replay=%s" % path); return 1
        return 0
    if pf.outcome_class(r) != "ok" or r["ok"] != d["expected"] or list(r["module_errors"]) != d["expected_errors"]:
        print("VIOLATION property=C08 replay=%s" % path)
        return 1
    return 0
