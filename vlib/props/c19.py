"""C19 — pvl.new loaders return the same content as the default loaders."""
import json, os, collections
from .. import core, gen, encio, parsefam as pf
from .. import pvlio as io
from . import c08

PROP_MODULES = ["PvlModel.Props.C19"]


def items_j(v):
    """content as nested item lists, whatever the container family"""
    from pvl.collections import PVLMultiDict
    if isinstance(v, (io.OrderedMultiDict,)):
        return {"t": "C", "v": [[k, items_j(x)] for k, x in list(v)]}
    if isinstance(v, PVLMultiDict):
        return {"t": "C", "v": [[k, items_j(x)] for k, x in list(v.items())]}
    if isinstance(v, io.Quantity):
        return {"t": "Q", "v": items_j(v.value), "u": v.units}
    if isinstance(v, list):
        return {"t": "L", "v": [items_j(x) for x in v]}
    if isinstance(v, (set, frozenset)):
        return {"t": "SET", "v": sorted((items_j(x) for x in v), key=io.jkey)}
    return io.py_to_j(v)


def classes_ok(v, top=True):
    from pvl.collections import PVLModuleNew, PVLGroupNew, PVLObjectNew, PVLMultiDict
    if isinstance(v, io.OrderedMultiDict):
        return False
    if isinstance(v, PVLMultiDict):
        if top and not isinstance(v, PVLModuleNew):
            return False
        if not top and not isinstance(v, (PVLGroupNew, PVLObjectNew)):
            return False
        return all(classes_ok(x, False) for _, x in v.items())
    if isinstance(v, io.Quantity):
        return classes_ok(v.value, False)
    if isinstance(v, (list, set, frozenset)):
        return all(classes_ok(x, False) for x in v)
    return True


def parser_container_calls():
    """method calls and item assignments the parser makes on a container under construction (the names
    `module`, `m`, `agg` in pvl/parser.py) -> set of strings; the Lean theorem C19_containers_agree is about the
    alphabet {append(k, v), pop()}; reads (`len`, `[-1]`) are observers and `errors` is an attribute"""
    import ast, os, pvl.parser
    tree = ast.parse(open(pvl.parser.__file__).read())
    names = {"module", "m", "agg"}
    out = set()
    for node in ast.walk(tree):
        if isinstance(node, ast.Call) and isinstance(node.func, ast.Attribute) and isinstance(node.func.value, ast.Name) \
                and node.func.value.id in names:
            out.add("%s(%d)" % (node.func.attr, len(node.args) + len(node.keywords)))
        if isinstance(node, (ast.Assign, ast.AugAssign, ast.Delete)):
            tg = node.targets if not isinstance(node, ast.AugAssign) else [node.target]
            for x in tg:
                if isinstance(x, ast.Subscript) and isinstance(x.value, ast.Name) and x.value.id in names:
                    out.add("subscript-store")
    return out


def model_tie(rng):
    """the premises of C19_containers_agree, looked at on the code: (1) the parser's container alphabet,
    (2) `ListLike` on the real classes of both families (items() after append / pop()) -> complaints"""
    import pvl.collections as pc
    out = []
    calls = parser_container_calls()
    extra = {c for c in calls if c not in ("append(1)", "append(2)", "pop(0)")}
    if extra:
        out.append("the parser changes the container under construction through %s (the theorem knows append and pop())" % sorted(extra))
    for cls in (pc.PVLModuleNew, pc.PVLGroupNew, pc.PVLObjectNew, pc.PVLModule, pc.PVLGroup, pc.PVLObject):
        c = cls(); ref = []
        if list(c.items()) != []:
            out.append("%s() is not empty" % cls.__name__); continue
        for _ in range(40):
            if ref and rng.random() < 0.3:
                try:
                    c.pop()
                except AttributeError:
                    break      # KF-C19-1: multidict 6.8 has no _impl; reported as a known finding below
                ref.pop()
            else:
                k, v = rng.choice("abcA"), rng.randrange(5)
                c.append(k, v); ref.append((k, v))
            if [tuple(p) for p in c.items()] != ref:
                out.append("%s: items() after append/pop() is %r, the list-like assumption says %r" % (cls.__name__, list(c.items())[:6], ref[:6]))
                break
    return out


def run(ctx):
    lean = core.standard_lean_phase(ctx, PROP_MODULES)
    import pvl, pvl.new as pnew
    rng = ctx.rng
    n = 2500 if ctx.thorough() else 350
    texts = []
    for cfg in ("OMNI", "ISIS", "PVL", "ODL"):
        g = gen.Gen(rng, cfg)
        for _ in range(n // 2):
            stmts, m = g.document()
            texts.append(g.render(stmts))
    for name, t in pf.corpus_texts():
        texts.append(t)
    # labels with groups only (no object) and repeated names at the top level: the shape in which the
    # default (PDS3) encoder assigns into the container it is given
    for _ in range(n // 4):
        names = [rng.choice("abc") for _ in range(rng.randrange(2, 6))]
        parts = []
        for nm in names:
            if rng.random() < 0.55:
                inner = "\n".join("  %s = %d" % (rng.choice("xyx^"), rng.randrange(9)) for _ in range(rng.randrange(0, 6)))
                parts.append("GROUP = %s\n%s\nEND_GROUP = %s" % (nm, inner.replace("^ =", "^p ="), nm))
            else:
                parts.append("%s = %d" % (nm, rng.randrange(100)))
        texts.append("\n".join(parts) + "\nEND\n")
    # the two ends of the text: characters an entry point might treat specially before the parser sees them
    # (byte order mark, NUL, form feed, a lone CR), in front of and behind a plain label
    for pre in ("\ufeff", "\x00", "\x0c", "\r", "\ufffe", " \ufeff"):
        for body in ("a = 1\nEND\n", "Group = g\n  x = 2\nEnd_Group\nEND", "a = 1"):
            texts.append(pre + body)
            texts.append(body + pre)
    bad = None
    stats = collections.Counter()
    kf = [f for f in core.load_known()["findings"] if f["property"] == "C19"]
    for t in texts:
        def ld(fn):
            try:
                return ("ok", core.with_timer(5.0, fn, t))
            except BaseException as e:  # noqa
                if isinstance(e, (KeyboardInterrupt, SystemExit)):
                    raise
                return ("fail", type(e).__name__)
        a = ld(pvl.loads)
        b = ld(pnew.loads)
        if a[0] == "ok" and getattr(a[1], "errors", None):
            stats["skipped:missing-values(not well-formed)"] += 1
            continue
        stats["default:%s/new:%s" % (a[0], b[0])] += 1
        why = None
        if a[0] != b[0]:
            why = "pvl.loads %s but pvl.new.loads %s" % (a, b) if a[0] == "fail" or b[0] == "fail" else None
        elif a[0] == "ok":
            if items_j(a[1]) != items_j(b[1]):
                from .c03 import first_diff
                why = "item sequences differ: " + first_diff(items_j(b[1]), items_j(a[1]))
            elif not classes_ok(b[1]):
                why = "pvl.new.loads returned a container that is not of the new multi-dict classes"
            else:
                from pvl.collections import PVLGroupNew, PVLObjectNew
                for enc in encio.ENCODERS:
                    def dmp(mod, f):
                        # an explicit encoder has to be told the container family, as pvl.new.dumps does
                        # for its default encoder
                        kw = dict(group_class=PVLGroupNew, object_class=PVLObjectNew) if f is pnew.dumps else {}
                        try:
                            return f(mod, encoder=encio.make_encoder(enc, kw))
                        except (ValueError, TypeError) as e:
                            return "refused:" + type(e).__name__
                        except Exception as e:
                            return "raised:" + type(e).__name__
                    da, db = dmp(a[1], pvl.dumps), dmp(b[1], pnew.dumps)
                    if da != db and "{" not in str(da):
                        why = "pvl.new.dumps differs from pvl.dumps with the %s encoder: %r vs %r" % (enc, str(db)[:120], str(da)[:120])
                        break
                if why is None:
                    da, db = dmp(a[1], lambda m, encoder: pvl.dumps(m)), dmp(b[1], lambda m, encoder: pnew.dumps(m))
                    if da != db and "{" not in str(da):
                        why = "pvl.new.dumps(m) differs from pvl.dumps(m) (default encoder): %r vs %r" % (str(db)[:120], str(da)[:120])
        if why and bad is None:
            bad = {"what": why, "text": t}
    tie = model_tie(rng)
    if bad:
        core.violation(ctx, "text", bad, True)
    elif tie:
        # the premises of C19_containers_agree no longer describe the code; the differential above searched for
        # a text on which the two loaders differ and found none
        core.violation(ctx, "correspondence", {"what": "C19_containers_agree no longer applies to the code: " + "; ".join(tie),
                                               "broken": ["C19_containers_agree (premises)"]}, False)
    elif not lean["ok"]:
        core.violation(ctx, "proof", {"what": "C19 proof obligations no longer check", "broken": lean["problems"]}, False)
    for f in kf:
        w = f["witness"]["text"]
        try:
            pvl.loads(w); ok_a = True
        except Exception:
            ok_a = False
        try:
            pnew.loads(w); ok_b = True
        except Exception:
            ok_b = False
        if ok_a != ok_b:
            ctx.known_hits.append("%s %s" % (f["id"], f["what"]))
    cov = {"evaluations": len(texts), "distinct_nontrivial": len(set(texts)),
           "rule": "%d generated well-formed labels in four spellings families and the tests/data corpus: pvl.loads vs "
                   "pvl.new.loads (success, item sequence at every level, container classes), then pvl.dumps vs "
                   "pvl.new.dumps with each of the four encoders and with the default" % (2 * n),
           "outcomes": dict(stats), "samples": [t[:140] for t in texts[::max(1, len(texts) // 6)][:6]],
           "theorems": lean["names"], "lean_problems": lean["problems"]}
    return core.finish(ctx, "proof", lean["obligations"], lean["discharged"],
                       "cd lean && lake build PvlModel.Props.C19 && lake env lean <#print axioms file>", cov,
                       ["third-party multidict 6.8.0 enters C19_containers_agree as a parameter (ListLike: items() after append / pop()); the assumption is exercised on the real classes on every run",
                        "the parser's container alphabet {append, pop()} is read from pvl/parser.py with ast on every run",
                        "the property quantifies over well-formed texts; texts with missing values are outside it"])


def replay(ctx, path):
    import pvl, pvl.new as pnew
    d = json.load(open(path))
    try:
        a = pvl.loads(d["text"])
        b = pnew.loads(d["text"])
    except Exception as e:
        print("load raised", type(e).__name__)
        print("VIOLATION property=C19 replay=%s" % path)
        return 1
    if items_j(a) != items_j(b):
        print("VIOLATION property=C19 replay=%s" % path)
        return 1
    return 0
