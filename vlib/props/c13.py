"""C13 — dumping is repeatable and does not damage its argument."""
import json, os, collections
from .. import core, gen, encio
from .. import pvlio as io
from ..pvlio import PVLModule, PVLGroup, PVLObject

PROP_MODULES = ["PvlModel.Props.C13"]


def erase_group_object(j, top=True):
    """the one permitted side effect: a top-level GROUP may have become an OBJECT"""
    if isinstance(j, dict) and j.get("t") == "C":
        items = []
        for k, v in j["v"]:
            if top and isinstance(v, dict) and v.get("t") == "C" and v.get("k") in ("G", "O"):
                v = dict(v, k="G|O")
            items.append([k, v])
        return dict(j, v=items)
    return j


def to_new(v, top=True):
    """the same content in the second container family (pvl.new): PVLMultiDict based"""
    from pvl.collections import PVLModuleNew, PVLGroupNew, PVLObjectNew
    if isinstance(v, io.OrderedMultiDict):
        cls = PVLModuleNew if isinstance(v, PVLModule) else PVLGroupNew if isinstance(v, PVLGroup) else PVLObjectNew
        return cls([(k, to_new(x, False)) for k, x in list(v)])
    return v


def snap(v):
    """structural snapshot of either container family, in the form py_to_j gives for the first"""
    from pvl.collections import PVLMultiDict, PVLModuleNew, PVLGroupNew
    if isinstance(v, PVLMultiDict):
        k = "M" if isinstance(v, PVLModuleNew) else "G" if isinstance(v, PVLGroupNew) else "O"
        return {"t": "C", "k": k, "v": [[[ord(c) for c in kk], snap(x)] for kk, x in list(v.items())]}
    return io.py_to_j(v)


def run(ctx):
    lean = core.standard_lean_phase(ctx, PROP_MODULES)
    drv = core.Driver()
    rng = ctx.rng
    n = 2500 if ctx.thorough() else 400
    bad = corr = None
    stats = collections.Counter()
    lines, expect = [], []
    samples = []
    for enc in encio.ENCODERS:
        og = gen.ObjGen(rng, enc)
        for i in range(n):
            m = og.module()
            if enc == "PDS3" and rng.random() < 0.5:
                # duplicate keys next to groups: the shape the in-place conversion has to survive
                items = list(m)
                k = og.g.ident()
                items.insert(rng.randrange(len(items) + 1), (k, PVLGroup(og.items(1, rng.randrange(0, 3)))))
                items.append((k, rng.choice([1, "x", PVLGroup([])])))
                m = PVLModule([(kk, vv) for kk, vv in items if not isinstance(vv, PVLObject)])
            cfg = og.cfg()
            before = io.py_to_j(m)
            line = encio.model_line(enc, cfg, m)
            e = encio.make_encoder(enc, cfg)
            if i % 3 == 2:
                # the second container family, with the encoder told about it as pvl.new.dumps does
                from pvl.collections import PVLGroupNew, PVLObjectNew
                m = to_new(m)
                if snap(m) != before:
                    raise RuntimeError("to_new/snap do not preserve the module")
                e = encio.make_encoder(enc, dict(cfg, group_class=PVLGroupNew, object_class=PVLObjectNew))
                stats[enc + ":new-family"] += 1
            outs = []
            for _ in range(3):
                try:
                    outs.append(("ok", e.encode(m)))
                except (ValueError, TypeError) as ex:
                    outs.append(("fail", type(ex).__name__))
            after = snap(m)
            stats[enc + ":" + outs[0][0]] += 1
            why = None
            if not (outs[0] == outs[1] == outs[2]):
                why = "dumping the same object again gave a different result"
            elif enc != "PDS3" and after != before:
                why = "the argument was changed by dumping"
            elif enc == "PDS3" and erase_group_object(after) != erase_group_object(before):
                why = "the argument was changed by dumping (beyond a top-level GROUP becoming an OBJECT)"
            if why and bad is None:
                from .c03 import first_diff
                bad = {"what": why + ": " + (first_diff(after, before) if after != before else str(outs)[:200]),
                       "encoder": enc, "cfg": cfg, "family": "new" if i % 3 == 2 else "old", "module": before, "module_repr": repr(list(io.j_to_py(before)))[:800],
                       "after": after, "outs": [o if o[0] == "fail" else o[1][:300] for o in outs]}
            lines.append(line)
            expect.append((enc, cfg, before, outs[0], after))
            if i % 150 == 0 and len(samples) < 6:
                samples.append({"encoder": enc, "cfg": cfg, "module": repr(list(io.j_to_py(before)))[:200]})
    if os.path.exists(drv.exe):
        mouts = [json.loads(o) for o in drv.run(lines)]
        for (enc, cfg, before, o0, after), mo in zip(expect, mouts):
            real = {"ok": [ord(c) for c in o0[1]]} if o0[0] == "ok" else {"fail": o0[1]}
            if corr is None and (not encio.out_equal(real, mo) or io.canon(mo["after"]) != after):
                corr = {"what": "correspondence encode (text or argument-after-the-call): model and implementation disagree",
                        "encoder": enc, "cfg": cfg, "module": before, "real_after": after, "model_after": mo.get("after")}
    if bad:
        core.violation(ctx, "module", bad, True)
    elif corr:
        core.violation(ctx, "correspondence", corr, False)
    elif not lean["ok"]:
        core.violation(ctx, "proof", {"what": "C13 proof obligations no longer check", "broken": lean["problems"]}, False)
    cov = {"evaluations": len(lines) * 3, "distinct_nontrivial": len(set(lines)),
           "rule": "%d generated modules per encoder (for PDS3 half of them with a group whose name occurs again "
                   "later), random options; encode() called three times on the same object with one encoder "
                   "instance, every third module in the pvl.new container classes; structural snapshot (values, order, classes at every level) before and after; the "
                   "model's `after` (the caller's module after the call) compared with the real one" % n,
           "outcomes": dict(stats), "samples": samples, "theorems": lean["names"], "lean_problems": lean["problems"]}
    return core.finish(ctx, "proof", lean["obligations"], lean["discharged"],
                       "cd lean && lake build PvlModel.Props.C13 && lake env lean <#print axioms file>", cov, [])


def replay(ctx, path):
    d = json.load(open(path))
    if "module" not in d:
        print("nothing to replay"); return 0
    m = io.j_to_py(d["module"])
    e = encio.make_encoder(d["encoder"], d["cfg"])
    if d.get("family") == "new":
        from pvl.collections import PVLGroupNew, PVLObjectNew
        m = to_new(m)
        e = encio.make_encoder(d["encoder"], dict(d["cfg"], group_class=PVLGroupNew, object_class=PVLObjectNew))
    outs = []
    for _ in range(2):
        try:
            outs.append(e.encode(m))
        except (ValueError, TypeError) as ex:
            outs.append(type(ex).__name__)
    after = snap(m)
    print(json.dumps({"same_text": outs[0] == outs[1], "after": after}, indent=1)[:2000])
    if outs[0] != outs[1] or erase_group_object(after) != erase_group_object(d["module"]):
        print("VIOLATION property=C13 replay=%s" % path)
        return 1
    return 0
