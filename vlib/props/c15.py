"""C15 — strict dialects enforce their character set; the default accepts all."""
import json, os, collections
from .. import core, parsefam as pf
from .. import pvlio as io

PROP_MODULES = ["PvlModel.Props.C15"]

TEMPLATES = [
    ("parameter-name", "a{c}b = 1\nEND\n"),
    ("unquoted-value", "a = x{c}y\nEND\n"),
    ("quoted-string", "a = \"x{c}y\"\nEND\n"),
    ("comment", "a = 1 /* z{c} */\nb = 2\nEND\n"),
    ("units", "a = 1 <m{c}>\nEND\n"),
    ("between-statements", "a = 1\n{c}\nb = 2\nEND\n"),
    ("in-sequence", "a = (1, {c}2)\nEND\n"),
    ("second-line-string", "a = 1\nbb = \"x\ny{c}\"\nEND\n"),
    ("after-END", "a = 1\nEND\n{c}"),
    ("block-name", "GROUP = g{c}\n a = 1\nEND_GROUP\nEND\n"),
    # the ends of the text: the first character is nobody's look-ahead, the last has no look-ahead
    ("first-character", "{c}a = 1\nEND\n"),
    ("first-then-blank", "{c} a = 1\nEND\n"),
    ("whole-text", "{c}"),
    ("last-character", "a = 1\nb = x{c}"),
    ("last-after-blank", "a = 1\n{c}"),
]


def spec_allowed(cfg, c):
    """the character sets of the specifications, written from the property text"""
    if cfg in ("PVL", "ISIS"):
        return c <= 255 and not (0 <= c <= 8) and not (14 <= c <= 31) and not (127 <= c <= 159)
    if cfg in ("ODL", "PDS3"):
        return c <= 127
    return True


def codepoints(ctx):
    rng = ctx.rng
    if ctx.thorough():
        cs = set(range(0, 0x3000))
        cs.update(rng.randrange(0x110000) for _ in range(20000))
    else:
        cs = set(range(0, 0x500))
        cs.update(range(0x500, 0x3000, 37))
        cs.update(rng.randrange(0x110000) for _ in range(800))
    for b in (8, 9, 13, 14, 31, 32, 126, 127, 128, 159, 160, 255, 256, 0xd7ff, 0xd800, 0xdfff, 0xe000, 0xfffe,
              0xffff, 0x10000, 0x10ffff):
        cs.update((b - 1, b, b + 1))
    return sorted(c for c in cs if 0 <= c < 0x110000)


def judge(cfg, name, text, c, r):
    """property predicate on the real outcome; None = fine, else description"""
    idx = text.index(chr(c)) if chr(c) in text else None
    cls = pf.outcome_class(r)
    if not spec_allowed(cfg, c):
        if name == "after-END":
            return None if cls == "ok" else "text after END made the load fail (%s)" % cls
        if cls != "LexerError":
            return "character U+%04X outside the %s character set in %s was not rejected with LexerError (%s)" % (
                c, cfg, name, cls)
        f = r["fail"]
        pos = f["pos"]
        if not (0 <= pos <= idx):
            return "LexerError.pos %d is not in [0, %d]" % (pos, idx)
        lineno = text.count("\n", 0, pos) + 1
        colno = pos - text.rfind("\n", 0, pos)
        if f["lineno"] != lineno or f["colno"] != colno:
            return "LexerError attributes inconsistent: pos=%d lineno=%d colno=%d, text says lineno=%d colno=%d" % (
                pos, f["lineno"], f["colno"], lineno, colno)
        return None
    # allowed character
    if name == "quoted-string" and chr(c) not in "\"" and not chr(c).isspace() and chr(c) != "-":
        if cls != "ok":
            return "allowed character U+%04X inside a quoted string made the load fail (%s)" % (c, cls)
        try:
            v = r["ok"]["v"][0][1]
            if v != {"t": "S", "v": [120, c, 121]}:
                return "character U+%04X inside a quoted string was not returned unchanged: %s" % (c, json.dumps(v))
        except Exception:
            return "unexpected module shape"
    if cls not in ("ok", "LexerError", "ParseError"):
        return "load escaped with %s" % cls
    return None


def run(ctx):
    lean = core.standard_lean_phase(ctx, PROP_MODULES)
    drv = core.Driver()
    cs = codepoints(ctx)
    cases, meta = [], []
    for c in cs:
        ch = chr(c)
        for name, tpl in TEMPLATES:
            text = tpl.replace("{c}", ch)
            for cfg in pf.CFGS:
                cases.append((cfg, text)); meta.append((name, c))
    reals = pf.eval_real(cases)
    have = os.path.exists(drv.exe)
    models = pf.eval_model(drv, cases) if have else [None] * len(cases)
    # table correspondence: grammar.char_allowed vs the generated table vs the specification
    tab_bad = None
    gnames = {"PVL": "pvl", "ODL": "odl", "PDS3": "pds", "ISIS": "isis", "OMNI": "omni"}
    grammars = {cfg: io.CONFIGS[cfg][1]() for cfg in pf.CFGS}
    lines = ["allowed %s %d" % (gnames[cfg], c) for c in cs for cfg in pf.CFGS]
    touts = drv.run(lines) if have else []
    k = 0
    for c in cs:
        for cfg in pf.CFGS:
            real = bool(grammars[cfg].char_allowed(chr(c)))
            mod = (touts[k] == "true") if have else None
            k += 1
            if real != spec_allowed(cfg, c) and tab_bad is None:
                tab_bad = {"what": "grammar.char_allowed(U+%04X) = %s for %s; the specification says %s"
                                   % (c, real, cfg, spec_allowed(cfg, c)), "cfg": cfg, "codepoint": c,
                           "real": real, "kind": "property"}
            elif mod is not None and mod != real and tab_bad is None:
                tab_bad = {"what": "generated table disagrees with char_allowed", "cfg": cfg, "codepoint": c,
                           "kind": "corr"}
    stats = collections.Counter()
    bad, corr = None, None
    for (cfg, text), (name, c), r, m in zip(cases, meta, reals, models):
        stats["%s:%s:%s" % (cfg, name, pf.outcome_class(r))] += 1
        why = judge(cfg, name, text, c, r)
        if why and bad is None:
            bad = {"what": why, "cfg": cfg, "position": name, "codepoint": c, "text": text,
                   "text_cps": core.cps(text), "real": r, "model": m}
        if m is not None and corr is None and not io.outcome_equal(r, m):
            corr = {"what": "correspondence parse: model and implementation disagree", "cfg": cfg,
                    "position": name, "codepoint": c, "text": text, "text_cps": core.cps(text), "real": r, "model": m}
    if tab_bad and tab_bad.get("kind") == "property":
        core.violation(ctx, "table", tab_bad, True)
    elif bad:
        core.violation(ctx, "input", bad, True)
    elif tab_bad:
        core.violation(ctx, "table", tab_bad, False)
    elif corr:
        core.violation(ctx, "correspondence", corr, False)
    elif not lean["ok"]:
        # the table theorems are about the regenerated tables: look for the code point that differs
        w = None
        for c in range(0x110000):
            for cfg in pf.CFGS:
                if bool(grammars[cfg].char_allowed(chr(c))) != spec_allowed(cfg, c):
                    w = (cfg, c); break
            if w:
                break
        if w:
            core.violation(ctx, "table", {"what": "char_allowed(U+%04X) for %s differs from the specification"
                                          % (w[1], w[0]), "cfg": w[0], "codepoint": w[1], "broken": lean["problems"]}, True)
        else:
            core.violation(ctx, "proof", {"what": "C15 proof obligations no longer check",
                                          "broken": lean["problems"]}, False)
    cov = {
        "evaluations": len(cases) + len(lines),
        "distinct_nontrivial": len(set(map(tuple, cases))) if cases and isinstance(cases[0], (list, tuple)) else len(set(cases)),
        "rule": "%d code points (all below U+%04X, sampled above, every range boundary) x %d syntactic positions "
                "x 5 configurations: real loader outcome judged against the specification's sets and the error's "
                "pos/lineno/colno re-derived from the text; same texts through the parser model; char_allowed vs "
                "generated table vs specification on the same code points. The tables themselves are tabulated "
                "exhaustively (1,114,112 code points) by the extractor and the table theorems hold for every c."
                % (len(cs), 0x3000 if ctx.thorough() else 0x500, len(TEMPLATES)),
        "samples": [{"cfg": c, "text": t, "real": pf.outcome_class(r)} for (c, t), r in
                    list(zip(cases, reals))[::max(1, len(cases) // 6)][:6]],
        "theorems": lean["names"],
        "lean_problems": lean["problems"],
        "outcomes": {k: v for k, v in list(stats.items())[:60]},
    }
    return core.finish(ctx, "proof", lean["obligations"], lean["discharged"],
                       "cd lean && lake build PvlModel.Props.C15 && lake env lean <#print axioms file>", cov,
                       ["'before the END statement' is exercised at ten syntactic positions; the lift from the "
                        "lexer theorem C15_reject to the whole loader rests on the parser model never swallowing a "
                        "LexerError, which is checked by correspondence here and stated in C05"])


def replay(ctx, path):
    d = json.load(open(path))
    if "text" not in d:
        g = io.CONFIGS[d["cfg"]][1]()
        real = bool(g.char_allowed(chr(d["codepoint"])))
        print(json.dumps({"cfg": d["cfg"], "codepoint": d["codepoint"], "char_allowed": real,
                          "specification": spec_allowed(d["cfg"], d["codepoint"])}))
        if real != spec_allowed(d["cfg"], d["codepoint"]):
            print("VIOLATION property=C15 replay=%s" % path)
            return 1
        return 0
    r = io.real_parse(io.make_parser(d["cfg"]), d["text"], 2.0)
    why = judge(d["cfg"], d["position"], d["text"], d["codepoint"], r)
    print(json.dumps({"real": r, "verdict": why}, indent=1))
    if why:
        print("VIOLATION property=C15 replay=%s" % path)
        return 1
    return 0
