"""C02 — the default loader reads back everything any bundled encoder writes."""
from . import c01


def run(ctx):
    return c01.run(ctx, mode="omni", prop="C02")


def replay(ctx, path):
    return c01.replay(ctx, path, mode="omni", prop="C02")
