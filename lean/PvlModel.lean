import PvlModel.Model.Basic
import PvlModel.Gen.Tables
import PvlModel.Model.MultiDict
