import Driver.Util
import Driver.MD
import Driver.Cmds
import Driver.SpecCmd
import Driver.EncCmd
import Driver.CliCmd
/-! Line-protocol driver: one command per input line, one output line per input line. -/
open Drv

def dispatch (line : String) : String :=
  match words line with
  | [] => ""
  | "md" :: args => MDrv.cmd args
  | "int10" :: a => cmdInt10 a
  | "intbase" :: a => cmdIntBase a
  | "float" :: a => cmdFloat a
  | "strptime" :: a => cmdStrptime a
  | "foldeq" :: a => cmdCasefoldEq a
  | "splitws" :: a => cmdSplitWs a
  | "decode" :: a => cmdDecode a
  | "datetime" :: a => cmdDatetime a
  | "tokpred" :: a => cmdTokPred a
  | "lex" :: a => cmdLex a
  | "parse" :: a => cmdParse a
  | "prepass" :: a => cmdPrepass a
  | "allowed" :: a => cmdAllowed a
  | "spec" :: a => cmdSpec a
  | "specload" :: a => cmdSpecLoad a
  | "encode" :: a => cmdEncode a
  | "encstr" :: a => cmdEncStr a
  | "encval" :: a => cmdEncVal a
  | "report" :: a => cmdReport a
  | "flavor" :: a => cmdFlavor a
  | "ping" :: _ => "pong"
  | _ => "bad-cmd"

partial def loop (h : IO.FS.Stream) (out : IO.FS.Stream) : IO Unit := do
  let line ← h.getLine
  if line.isEmpty then return ()
  out.putStrLn (dispatch (line.dropRightWhile (fun c => c == '\n' || c == '\r')))
  loop h out

def main : IO Unit := do
  let i ← IO.getStdin
  let o ← IO.getStdout
  loop i o
  o.flush
