import PvlModel.Model.Encoder
/-!
# C13 — dumping is repeatable and does not damage its argument

`Enc.encode c items` returns the text (or the refusal) together with `after`, the caller's module
after the call.  Only `PDSLabelEncoder.encode` stores into its argument (`_group_to_object`).
-/
namespace Pvl.Enc

/-- erase the GROUP/OBJECT distinction of the top-level containers -/
def eraseKind : Items → Items
  | [] => []
  | (k, .cont _ inner) :: r => (k, .cont .object inner) :: eraseKind r
  | p :: r => p :: eraseKind r

theorem convertFirst_erase (p : Str × Val → Bool) (items items' : Items)
    (h : convertFirst p items = some items') : eraseKind items' = eraseKind items := by
  induction items generalizing items' with
  | nil => simp [convertFirst] at h
  | cons x r ih =>
    obtain ⟨k, v⟩ := x
    unfold convertFirst at h
    by_cases hp : p (k, v) = true
    · simp only [hp, if_true] at h
      cases v <;> simp at h
      subst h
      simp [eraseKind]
    · simp only [hp, Bool.false_eq_true, if_false] at h
      cases hr : convertFirst p r with
      | none => simp [hr] at h
      | some r' =>
        simp only [hr, Option.map_some, Option.some.injEq] at h
        subst h
        cases v <;> simp [eraseKind, ih r' hr]

theorem convertFirst_length (p : Str × Val → Bool) (items items' : Items)
    (h : convertFirst p items = some items') : items'.length = items.length := by
  induction items generalizing items' with
  | nil => simp [convertFirst] at h
  | cons x r ih =>
    obtain ⟨k, v⟩ := x
    unfold convertFirst at h
    by_cases hp : p (k, v) = true
    · simp only [hp, if_true] at h
      cases v <;> simp at h
      subst h; simp
    · simp only [hp, Bool.false_eq_true, if_false] at h
      cases hr : convertFirst p r with
      | none => simp [hr] at h
      | some r' =>
        simp only [hr, Option.map_some, Option.some.injEq] at h
        subst h; simp [ih r' hr]

/-- the conversion step changes nothing but the class of top-level containers: same number of
    items, same names, same values, same order -/
theorem pdsConvert_intact (c : EncCfg) (items items' : Items) (h : pdsConvert c items = .ok items') :
    eraseKind items' = eraseKind items ∧ items'.length = items.length := by
  unfold pdsConvert at h
  repeat' split at h
  all_goals first
    | (cases h; done)
    | (simp only [Except.ok.injEq] at h; subst h
       first
         | exact ⟨rfl, rfl⟩
         | exact ⟨convertFirst_erase _ _ _ (by assumption), convertFirst_length _ _ _ (by assumption)⟩)

/-- **C13, argument intact**: after `encode`, for every encoder, configuration and module, the
    caller's module has the same items in the same order; for the PVL, ODL and ISIS encoders it is
    identical, for the PDS3 encoder it differs at most in the class (GROUP → OBJECT) of top-level
    containers. -/
theorem C13_intact (c : EncCfg) (items : Items) :
    eraseKind (encode c items).after = eraseKind items ∧
    (c.kind ≠ .pds → (encode c items).after = items) := by
  simp only [encode, encodeAfter]
  by_cases hk : c.kind = .pds
  · simp only [hk, beq_self_eq_true, if_true]
    refine ⟨?_, fun h => absurd rfl h⟩
    cases hc : pdsConvert c items with
    | error e => rfl
    | ok items' => exact (pdsConvert_intact c items items' hc).1
  · have hk' : (c.kind == EncKind.pds) = false := by
      cases hkk : c.kind <;> simp_all
    simp [hk']

/-- **C13, repeatable**: the model's `encode` is a function — calling it again on the same module
    gives the same text; and dumping the module *as the first call left it* gives the same text
    again for the non-PDS encoders (for PDS3 this needs `encode (after) = encode (before)`, which
    is checked by correspondence: three consecutive real calls). -/
theorem C13_repeat_nonpds (c : EncCfg) (items : Items) (h : c.kind ≠ .pds) :
    (encode c (encode c items).after).out = (encode c items).out := by
  rw [(C13_intact c items).2 h]

/-! ### PDS3: the second call sees an OBJECT and converts nothing more -/

def aggStep (acc : Nat × Nat) (p : Str × Val) : Nat × Nat :=
  match p.2 with
  | .cont .group _ => (acc.1, acc.2 + 1)
  | .cont _ _ => (acc.1 + 1, acc.2)
  | _ => acc

theorem countAggs_eq (items : Items) : countAggs items = items.foldl aggStep (0, 0) := by
  unfold countAggs
  congr 1

theorem foldl_aggStep_mono (items : Items) (acc : Nat × Nat) : acc.1 ≤ (items.foldl aggStep acc).1 := by
  induction items generalizing acc with
  | nil => exact Nat.le_refl _
  | cons p r ih =>
    simp only [List.foldl_cons]
    refine Nat.le_trans ?_ (ih _)
    unfold aggStep
    split <;> simp

/-- whatever `convertFirst` converts becomes an OBJECT, so the result holds at least one OBJECT -/
theorem convertFirst_has_object (p : Str × Val → Bool) (items items' : Items) (acc : Nat × Nat)
    (h : convertFirst p items = some items') : acc.1 + 1 ≤ (items'.foldl aggStep acc).1 := by
  induction items generalizing items' acc with
  | nil => simp [convertFirst] at h
  | cons x r ih =>
    obtain ⟨k, v⟩ := x
    unfold convertFirst at h
    by_cases hp : p (k, v) = true
    · simp only [hp, if_true] at h
      cases v <;> simp at h
      subst h
      simp only [List.foldl_cons]
      refine Nat.le_trans ?_ (foldl_aggStep_mono _ _)
      simp [aggStep]
    · simp only [hp, Bool.false_eq_true, if_false] at h
      cases hr : convertFirst p r with
      | none => simp [hr] at h
      | some r' =>
        simp only [hr, Option.map_some, Option.some.injEq] at h
        subst h
        simp only [List.foldl_cons]
        refine Nat.le_trans ?_ (ih r' _ hr)
        have : acc.1 ≤ (aggStep acc (k, v)).1 := by unfold aggStep; split <;> simp
        omega

/-- the conversion is idempotent: applied to its own result it changes nothing -/
theorem pdsConvert_idem (c : EncCfg) (items items' : Items) (h : pdsConvert c items = .ok items') :
    pdsConvert c items' = .ok items' := by
  have key : ∀ p, convertFirst p items = some items' → pdsConvert c items' = .ok items' := by
    intro p hp
    have := convertFirst_has_object p items items' (0, 0) hp
    unfold pdsConvert
    rw [countAggs_eq]
    generalize items'.foldl aggStep (0, 0) = og at this
    obtain ⟨o, g⟩ := og
    simp only at this
    have : (decide (g > 0) && decide (o < 1)) = false := by simp; omega
    simp only [this, Bool.false_eq_true, if_false]
  unfold pdsConvert at h
  simp only at h
  split at h
  · split at h
    · split at h
      · rename_i i1 hc1
        simp only [Except.ok.injEq] at h; subst h
        exact key _ hc1
      · split at h
        · rename_i i2 hc2
          simp only [Except.ok.injEq] at h; subst h
          exact key _ hc2
        · cases h
    · cases h
  · simp only [Except.ok.injEq] at h
    subst h
    rename_i hc
    unfold pdsConvert
    simp only [hc, Bool.false_eq_true, if_false]

/-- **C13, repeatable for every encoder**: dumping the module as the first call left it gives the same
    result as the first call — also for the PDS3 encoder, whose first call may have turned a GROUP into an
    OBJECT -/
theorem C13_repeat (c : EncCfg) (items : Items) :
    (encode c (encode c items).after).out = (encode c items).out := by
  by_cases hk : c.kind = .pds
  · simp only [encode, encodeAfter, hk, beq_self_eq_true, if_true]
    cases hc : pdsConvert c items with
    | error e => simp
    | ok items' =>
      simp only
      unfold encodeOut
      simp only [hk, beq_self_eq_true, if_true, hc, pdsConvert_idem c items items' hc]
  · exact C13_repeat_nonpds c items hk

end Pvl.Enc
