import PvlModel.Lemmas.ParserReals
import PvlModel.Lemmas.ParseSpec
/-!
# C18 — substitute classes: what reaches the caller's real-number class

The model carries a real number as the text that is handed to `real_cls` (`Val.real text`), so that the
question "does `Decimal` keep all written digits" is a statement about that text.  Containers, quantities
and their classes are constructed by `module_class(...)`, `group_class(...)`, `quantity_cls(...)` calls at
the places where the model builds `.cont` / `.quant`: that part is observed on the real code (every node of
the result is inspected, at every depth) and has no theorem.

* `C18_real_text_unaltered` — a token that decodes to a real decodes to its own text, has `float()`'s
  syntax and is not an integer literal (any decoder class);
* `C18_int_stays_int` — an integer literal is an `int`, the real-number class is never consulted;
* `C18_reals_are_token_texts` — **every** real, at every depth of the module any parser configuration
  returns for any text, is the unaltered text of a token the lexer produced for that text, in
  `float()`'s syntax.
-/
namespace Pvl
open Py P

/-- **C18, the text of a real is handed over unaltered** (value level, every decoder class) -/
theorem C18_real_text_unaltered (d : Dec) (s t : Str) (h : decodeSimple d s = .ok (.real t)) :
    t = s ∧ floatOk s = true ∧ int10 s = none :=
  decodeSimple_reals d s (.real t) h t (by simp [Val.reals])

/-- **C18, integers stay int**: an integer literal decodes to an `int` — `decode_decimal` of the model
    takes no real-number class, and the correspondence runs the real decoders with `float`, `Decimal`,
    `Fraction` and a text-keeping class against it -/
theorem C18_int_stays_int (s : Str) (n : Int) (h : int10 s = some n) : decodeDecimal s = some (.int n) := by
  simp [decodeDecimal, h]

/-- **C18, every real at every depth is an unaltered token text**: for every grammar, decoder, parser class
    and text, each real in the returned module (inside sequences, sets, units expressions, nested blocks)
    is the text of one of the tokens the lexer made from the text, has `float()`'s syntax and is not an
    integer literal. -/
theorem C18_reals_are_token_texts (g : Grammar) (d : Dec) (kind : ParserKind) (prior : List Int) (text : Str)
    (m : Items) (h : (parseWith g d kind prior text).outcome = .ok m) :
    ∀ x ∈ realsI m, (∃ t ∈ (lexAll g d (docOf kind text)).1, t.text = x) ∧ floatOk x = true ∧ int10 x = none := by
  revert h
  unfold parseWith docOf
  simp only
  generalize (if kind == ParserKind.omni then omniPrepass text else text) = doc
  generalize lexAll g d doc = lx
  obtain ⟨toks, tail⟩ := lx
  simp only
  have hs := triple_elim _ _ _ _
    (moduleLoop_rl ⟨g, d, kind, doc, tail⟩ (toks.map (·.text)) (fuelFor (toks.length + 2)) [] (by simp))
    ⟨⟨toks, none, none, false⟩, [], [], none, false⟩
    (by simp only [TI]; exact ⟨fun t ht => List.mem_map.mpr ⟨t, ht, rfl⟩, by simp⟩)
  revert hs
  generalize (moduleLoop ⟨g, d, kind, doc, tail⟩ [] (fuelFor (toks.length + 2))).run.run
    ⟨⟨toks, none, none, false⟩, [], [], none, false⟩ = res
  obtain ⟨r, st'⟩ := res
  intro hs h
  simp only at h
  subst h
  intro x hx
  obtain ⟨h1, h2, h3⟩ := hs.2 x hx
  obtain ⟨t, ht, rfl⟩ := List.mem_map.mp h1
  exact ⟨⟨t, ht, rfl⟩, h2, h3⟩

/-- non-vacuity: a nested value with two reals -/
example : (Val.cont .group [([97], .seq [.real [49, 46, 53], .quant (.real [50, 46, 48]) [109]])]).reals =
    [[49, 46, 53], [50, 46, 48]] := by decide

end Pvl
