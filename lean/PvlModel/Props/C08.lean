import PvlModel.Lemmas.ParserFrame
import PvlModel.Lemmas.ParseSpec
import PvlModel.Lemmas.ParserLines
/-!
# C08 — missing values: tolerated by the default loader only

The strict half of the property, for every grammar table, decoder, strict parser class (`PVLParser`,
`ODLParser` and their PDS3 / ISIS configurations — everything except `OmniParser`) and text:

* `parser.errors` is empty after every `parse()`, whatever its outcome;
* a module that is returned contains no `EmptyValueAtLine` placeholder at any depth;

so a text whose only reading needs a placeholder cannot be loaded by a strict parser: it raises
(`C06_errors` says what).  The proof is a second Hoare pass (`Lemmas/ParserFrame.lean`) over all parser
functions with the invariant "`errors = []`, no placeholder in any value built so far".

The permissive half, one direction (`C08_placeholders_listed`, for every parser class and text): every
`EmptyValueAtLine` placeholder anywhere in a module that `parse()` returns has its line number in
`parser.errors` — no repair goes unreported.  (Fourth Hoare pass, `Lemmas/ParserLines.lean`: `errors` only
grows, and each function's result has its placeholders listed by the time it returns.)  The converse
(every recorded line still belongs to a placeholder in the module; the line is that of the `=`; the list
is sorted) is decided by the generator-built expectation in `vlib/props/c08.py` against the real loader
and the model.
-/
namespace Pvl
open P

/-- **C08, strict parsers never repair** -/
theorem C08_strict_no_placeholder (g : Grammar) (d : Dec) (kind : ParserKind) (hk : kind ≠ .omni)
    (prior : List Int) (text : Str) :
    (parseWith g d kind prior text).errors = [] ∧
    ∀ m, (parseWith g d kind prior text).outcome = .ok m → noEmptyI m = true := by
  unfold parseWith
  simp only
  generalize (if kind == ParserKind.omni then omniPrepass text else text) = doc
  generalize lexAll g d doc = lx
  obtain ⟨toks, tail⟩ := lx
  simp only
  have hs := triple_elim _ _ _ _
    (moduleLoop_clean ⟨g, d, kind, doc, tail⟩ hk (fuelFor (toks.length + 2)) [] (by simp))
    ⟨⟨toks, none, none, false⟩, [], [], none, false⟩ (by simp [Clean])
  revert hs
  generalize (moduleLoop ⟨g, d, kind, doc, tail⟩ [] (fuelFor (toks.length + 2))).run.run
    ⟨⟨toks, none, none, false⟩, [], [], none, false⟩ = res
  obtain ⟨r, st'⟩ := res
  intro hs
  cases r with
  | ok m =>
    simp only [Clean] at hs
    exact ⟨hs.1, fun m' hm => by cases hm; exact hs.2⟩
  | error e =>
    simp only [Clean] at hs
    exact ⟨hs, fun m' hm => by cases hm⟩

/-- **C08, no repair goes unreported**: every placeholder in a returned module is listed in `errors` -/
theorem C08_placeholders_listed (g : Grammar) (d : Dec) (kind : ParserKind) (prior : List Int) (text : Str)
    (m : Items) (h : (parseWith g d kind prior text).outcome = .ok m) :
    ∀ x ∈ linesI m, x ∈ (parseWith g d kind prior text).errors := by
  revert h
  unfold parseWith
  simp only
  generalize (if kind == ParserKind.omni then omniPrepass text else text) = doc
  generalize lexAll g d doc = lx
  obtain ⟨toks, tail⟩ := lx
  simp only
  have hs := triple_elim _ _ _ _
    (moduleLoop_ln ⟨g, d, kind, doc, tail⟩ (fuelFor (toks.length + 2)) [] [])
    ⟨⟨toks, none, none, false⟩, [], [], none, false⟩ (by simp)
  revert hs
  generalize (moduleLoop ⟨g, d, kind, doc, tail⟩ [] (fuelFor (toks.length + 2))).run.run
    ⟨⟨toks, none, none, false⟩, [], [], none, false⟩ = res
  obtain ⟨r, st'⟩ := res
  intro hs h
  simp only at h
  subst h
  exact hs.1

example : (Val.cont .group [([97], .seq [.int 1, .empty 3])]).lines = [3] := by decide

/-- the placeholder the default loader makes is recognised by `noEmpty` (non-vacuity of the predicate) -/
example : (Val.cont .group [([97], .seq [.int 1, .empty 3])]).noEmpty = false := by decide

end Pvl
