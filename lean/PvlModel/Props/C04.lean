import PvlModel.Lemmas.LexWs
/-!
# C04 — white space and comments never change the meaning of a label

Proved here (lexer level, unbounded in the text and in the runs): **a run of white space between lexemes
can be replaced by any other non-empty run of white space** without changing the texts of the tokens the
lexer delivers or whether it reaches the end of the text (`C04_whitespace_run`).  "Between lexemes" is
the lexer's own notion: after the text before the run, the lexer holds no pending lexeme and is outside
any quoted string, comment or units expression (`cleanAfter`) — inside those, white space is content.
The proof shows that the lexer treats the text before the run the same way whatever white space follows
(`lexGo_prefix`, `lexPre_ws`: the one character of look-ahead and the two-character look-ahead for
comment openers cannot tell the runs apart), skips the run (`lexGo_ws_run`), and continues from the same
state (`lexGo_prev`, `lexGo_texts_shift`).

`plainWs` is what the proof needs of a white-space character (allowed, no role in comments, numbers,
units, quotes); `C04_whitespace_tables` evaluates it for all six white-space characters of the five
generated tables, so the theorem applies to blank, tab, LF, CR, VT and FF in every dialect.

Not proved: removing white space where the grammar makes it optional, inserting it there, and comments
in place of white space; and the step from token texts to the module (the parser reads positions only
for error messages and placeholder line numbers).  Those are decided by loading each generated document
in four layouts and the re-laid-out corpus files (`vlib/props/c04.py`).
-/
namespace Pvl

/-- blank, tab, LF, CR, VT, FF are plain white space in every generated table -/
theorem C04_whitespace_tables :
    ∀ g ∈ [Gen.pvl, Gen.odl, Gen.pds, Gen.isis, Gen.omni], ∀ w ∈ [32, 9, 10, 13, 11, 12], plainWs g w = true := by
  decide +kernel

/-- **C04, white space between lexemes** -/
theorem C04_whitespace_run (g : Grammar) (d : Dec) (A B ws1 ws2 : Str)
    (h1 : ∀ w ∈ ws1, plainWs g w = true) (h2 : ∀ w ∈ ws2, plainWs g w = true)
    (n1 : ws1 ≠ []) (n2 : ws2 ≠ []) (hclean : cleanAfter g d A (ws1.head n1)) :
    texts (lexAll g d (A ++ ws1 ++ B)) = texts (lexAll g d (A ++ ws2 ++ B)) :=
  ws_run_irrelevant g d A B ws1 ws2 h1 h2 n1 n2 hclean

/-- leading white space (the empty prefix is a clean boundary) -/
theorem C04_leading_whitespace (g : Grammar) (d : Dec) (B ws1 ws2 : Str)
    (h1 : ∀ w ∈ ws1, plainWs g w = true) (h2 : ∀ w ∈ ws2, plainWs g w = true)
    (n1 : ws1 ≠ []) (n2 : ws2 ≠ []) :
    texts (lexAll g d (ws1 ++ B)) = texts (lexAll g d (ws2 ++ B)) := by
  have := C04_whitespace_run g d [] B ws1 ws2 h1 h2 n1 n2 (by simp [cleanAfter, lexPre, LS.clean])
  simpa using this

/-- the premise is satisfiable and not trivial: after `a` followed by a blank the lexeme has been yielded
    (clean); after `"a` followed by a blank the lexer is inside a quoted string (not clean) -/
example : cleanAfter Gen.pvl ⟨Gen.pvl, .pvl⟩ [97] 32 ∧ ¬ cleanAfter Gen.pvl ⟨Gen.pvl, .pvl⟩ [34, 97] 32 := by
  refine ⟨?_, ?_⟩
  · unfold cleanAfter
    exact ⟨by rfl, by rfl⟩
  · unfold cleanAfter
    intro h
    exact absurd h.1 (by decide)

end Pvl
