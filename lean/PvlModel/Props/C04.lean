import PvlModel.Model.Spec
/-!
# C04 — white space and comments never change the meaning of a label
(theorems are added below as they are proved; see DESIGN §5)
-/
namespace Pvl
end Pvl
