import PvlModel.Lemmas.ParseSpec
/-!
# C09 — nothing after END matters: the parser requests no token beyond the END statement

The model's lexer generator hands out tokens one at a time (`P.next`); `ParseResult.last` is the last
token it produced when `parse()` returned and `exhausted` says whether it was asked for more after the
tokens had run out.  Each `Token` records `last`, the index of the last character the lexer had examined
when it yielded the token, so "how far the text was read" is `t.last` of the last token.

The entry-point half of C09 (path / URL / stream / bytes fall-backs in `pvl/__init__.py`) is runtime
behaviour of CPython's codecs and file objects; it is checked against the real code only (see
`vlib/props/c09.py`).
-/
namespace Pvl
open P

/-- **C09, END stops the lexer**: whenever `parse()` returns a module, either the lexer ran to the end
    of the text (and did so without a `LexerError`), or the *last* token it was ever asked for is an END
    statement — nothing behind the END statement was lexed on behalf of the parser.  For every grammar
    table, decoder, parser class and text. -/
theorem C09_stops_at_end (g : Grammar) (d : Dec) (kind : ParserKind) (prior : List Int) (text : Str)
    (m : Items) (h : (parseWith g d kind prior text).outcome = .ok m) :
    ((parseWith g d kind prior text).exhausted = true ∧ (lexAll g d (docOf kind text)).2 = .eof) ∨
    (∃ t, (parseWith g d kind prior text).last = some t ∧ Tok.isEndStatement g t.text = true) := by
  have hs := parse_spec g d kind prior text
  rw [h] at hs
  exact hs

/-- a `LexerError` lying in wait behind the END statement is never reached: if the lexer would fail
    somewhere in the text and a module is returned all the same, the parser stopped at END -/
theorem C09_garbage_after_end (g : Grammar) (d : Dec) (kind : ParserKind) (prior : List Int) (text : Str)
    (m : Items) (p : Int) (h : (parseWith g d kind prior text).outcome = .ok m)
    (hl : (lexAll g d (docOf kind text)).2 = .lexerr p) :
    ∃ t, (parseWith g d kind prior text).last = some t ∧ Tok.isEndStatement g t.text = true := by
  rcases C09_stops_at_end g d kind prior text m h with ⟨_, h2⟩ | h2
  · rw [hl] at h2; cases h2
  · exact h2

end Pvl
