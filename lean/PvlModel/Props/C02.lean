import PvlModel.Props.C03
import PvlModel.Props.C01
import PvlModel.Props.C14
/-!
# C02 — the default loader reads back everything any bundled encoder writes

Value-level theorems with the default decoder (`OmniDecoder` over `OmniGrammar`) as the reader and any of
the four encoders, with any options, as the writer.  The statement / block level is decided against the
real code (`vlib/props/c02.py`, which is C01's check with `pvl.loads()` as the reader and the extra
requirement that `module.errors` is empty).
-/
namespace Pvl
open Py Enc

/-- the default decoder -/
def omniDec : Dec := ⟨Gen.omni, .omni⟩

/-- **C02, integers**: whatever encoder wrote the integer, the default decoder reads it back -/
theorem C02_int (c : EncCfg) (i : Int) :
    ∃ text, encodeValue c (.int i) = .ok text ∧ decodeSimple omniDec text = .ok (.int i) := by
  refine ⟨intStr i, by simp [encodeValue, encodeSimple], ?_⟩
  exact C03_int_literal omniDec (by simp [omniDec]) i

/-- **C02, finite reals**: whatever encoder wrote the real, the default decoder reads back the same text -/
theorem C02_real (c : EncCfg) (ch : Nat) (r : Str) (hc : RealHead ch) (h35 : 35 ∉ ch :: r)
    (hf : floatOk (ch :: r) = true) (hi : int10 (ch :: r) = none) :
    ∃ text, encodeValue c (.real (ch :: r)) = .ok text ∧ decodeSimple omniDec text = .ok (.real (ch :: r)) :=
  ⟨ch :: r, by simp [encodeValue, encodeSimple],
    C03_real_literal omniDec (by simp [omniDec]) ch r hc h35 hf hi⟩

/-- **C02, constants**: the keywords each of the five tables writes for `None`, `True`, `False` are read by
    the default decoder as those constants -/
theorem C02_keywords :
    ∀ g ∈ [Gen.pvl, Gen.odl, Gen.pds, Gen.isis, Gen.omni],
      decodeSimple omniDec g.noneKw = .ok .none ∧
      decodeSimple omniDec g.trueKw = .ok (.bool true) ∧
      decodeSimple omniDec g.falseKw = .ok (.bool false) := by
  have key : ∀ g ∈ [Gen.pvl, Gen.odl, Gen.pds, Gen.isis, Gen.omni],
      foldEq g.noneKw Gen.omni.noneKw = true ∧ foldEq g.trueKw Gen.omni.noneKw = false ∧
      foldEq g.trueKw Gen.omni.trueKw = true ∧ foldEq g.falseKw Gen.omni.noneKw = false ∧
      foldEq g.falseKw Gen.omni.trueKw = false ∧ foldEq g.falseKw Gen.omni.falseKw = true := by decide
  intro g hg
  obtain ⟨a, b, c, d, e, f⟩ := key g hg
  simp [decodeSimple, omniDec, a, b, c, d, e, f]

/-- **C02, bare strings**: a string that any of the four encoders writes without quotes is read back by
    the default decoder as that very string — `needs_quotes` asks the default loader's decoder as well
    as the encoder's own (the repair of the defect this property exposed: `12:00-5`, written bare by the
    PVL and ISIS encoders, was read by the default loader as a time with a zone offset) -/
theorem C02_bare_string (c : EncCfg) (s : Str) (h : encodeValue c (.str s) = .ok s) :
    decodeSimple omniDec s = .ok (.str s) := by
  have := C17_unquoted_roundtrip_default c s (by simpa [encodeValue, encodeSimple] using h)
  simpa [omniDec, permissiveDec] using this


theorem omni_tables : TimeTablesOK omniDec.g = true ∧ TimeTablesOK6 omniDec.g = true ∧ DtTablesOK omniDec.g = true ∧
    omniDec.g.dateFormats.head? = some fmtYmd ∧ defaultTz omniDec.g = some 0 := by
  refine ⟨?_, ?_, ?_, ?_, ?_⟩ <;> decide

/-- **C02, dates**: whatever encoder wrote the date, the default decoder reads it back -/
theorem C02_date (c : EncCfg) (y m d : Nat) (hd : ValidDate y m d) :
    ∃ text, encodeValue c (.date y m d) = .ok text ∧ decodeDatetime omniDec text = .ok (.date y m d) := by
  refine ⟨encodeDate y m d, by simp [encodeValue, encodeSimple], ?_⟩
  exact C14_date_decodes omniDec omni_tables.2.2.2.1 y m d hd

/-- **C02, times and date-times without a zone offset**: the text any of the four encoders writes for a naive
    or UTC value — `HH:MM[:SS[.ffffff]]` (PVL, ISIS), with `Z` (ODL), with milliseconds and an optional `Z`
    (PDS3) — is read by the default decoder as that clock time in UTC -/
theorem C02_time (c : EncCfg) (h mi s us : Nat) (hv : ValidTime h mi s us) (tz : Option Int)
    (htz : tz = none ∨ tz = some 0) (text : Str) (he : encodeValue c (.time h mi s us tz) = .ok text) :
    decodeDatetime omniDec text = .ok (.time h mi s us (some 0)) := by
  obtain ⟨t3, t6, _, _, hdef⟩ := omni_tables
  have hnp : omniDec.kind = .pds → us % 1000 = 0 := by intro h; cases h
  cases hk : c.kind
  · -- pvl
    have : text = encodeTimeBase h mi s us := by
      rcases htz with rfl | rfl <;> simp [encodeValue, encodeSimple, encodeTime, hk] at he <;> exact he.symm
    rw [this, C14_time_decodes omniDec t3 h mi s us hv hnp, hdef]
  · -- odl
    rcases htz with rfl | rfl
    · simp [encodeValue, encodeSimple, encodeTime, hk] at he
    · have : text = encodeTimeBase h mi s us ++ [90] := by
        simp [encodeValue, encodeSimple, encodeTime, hk] at he; exact he.symm
      rw [this]
      exact C14_timeZ_decodes omniDec t6 h mi s us hv hnp
  · -- pds
    by_cases hp : us % 1000 = 0
    · have e := encodeTime_pds c hk h mi s us hp tz htz
      simp only [encodeValue, encodeSimple] at he
      rw [e] at he
      obtain ⟨b1, b2⟩ := decodeDatetimeBase_time_pds omniDec.g t6 h mi s us hv hp
      rw [hdef] at b1
      by_cases hz : c.timeTrailingZ = true
      · simp only [hz, if_true, Except.ok.injEq] at he
        subst he
        simp [decodeDatetime, omniDec, decodeDatetimeOdl] at b2 ⊢
        simp [b2]
      · simp only [hz, Bool.false_eq_true, if_false, Except.ok.injEq] at he
        subst he
        simp [decodeDatetime, omniDec, decodeDatetimeOdl] at b1 ⊢
        simp [b1]
    · have : (us % 1000 != 0) = true := by simp [hp]
      simp [encodeValue, encodeSimple, encodeTime, hk, this] at he
  · -- isis
    have : text = encodeTimeBase h mi s us := by
      rcases htz with rfl | rfl <;> simp [encodeValue, encodeSimple, encodeTime, hk] at he <;> exact he.symm
    rw [this, C14_time_decodes omniDec t3 h mi s us hv hnp, hdef]


end Pvl
