import PvlModel.Props.C03
import PvlModel.Props.C01
/-!
# C02 — the default loader reads back everything any bundled encoder writes

Value-level theorems with the default decoder (`OmniDecoder` over `OmniGrammar`) as the reader and any of
the four encoders, with any options, as the writer.  The statement / block level is decided against the
real code (`vlib/props/c02.py`, which is C01's check with `pvl.loads()` as the reader and the extra
requirement that `module.errors` is empty).
-/
namespace Pvl
open Py Enc

/-- the default decoder -/
def omniDec : Dec := ⟨Gen.omni, .omni⟩

/-- **C02, integers**: whatever encoder wrote the integer, the default decoder reads it back -/
theorem C02_int (c : EncCfg) (i : Int) :
    ∃ text, encodeValue c (.int i) = .ok text ∧ decodeSimple omniDec text = .ok (.int i) := by
  refine ⟨intStr i, by simp [encodeValue, encodeSimple], ?_⟩
  exact C03_int_literal omniDec (by simp [omniDec]) i

/-- **C02, finite reals**: whatever encoder wrote the real, the default decoder reads back the same text -/
theorem C02_real (c : EncCfg) (ch : Nat) (r : Str) (hc : RealHead ch) (h35 : 35 ∉ ch :: r)
    (hf : floatOk (ch :: r) = true) (hi : int10 (ch :: r) = none) :
    ∃ text, encodeValue c (.real (ch :: r)) = .ok text ∧ decodeSimple omniDec text = .ok (.real (ch :: r)) :=
  ⟨ch :: r, by simp [encodeValue, encodeSimple],
    C03_real_literal omniDec (by simp [omniDec]) ch r hc h35 hf hi⟩

/-- **C02, constants**: the keywords each of the five tables writes for `None`, `True`, `False` are read by
    the default decoder as those constants -/
theorem C02_keywords :
    ∀ g ∈ [Gen.pvl, Gen.odl, Gen.pds, Gen.isis, Gen.omni],
      decodeSimple omniDec g.noneKw = .ok .none ∧
      decodeSimple omniDec g.trueKw = .ok (.bool true) ∧
      decodeSimple omniDec g.falseKw = .ok (.bool false) := by
  have key : ∀ g ∈ [Gen.pvl, Gen.odl, Gen.pds, Gen.isis, Gen.omni],
      foldEq g.noneKw Gen.omni.noneKw = true ∧ foldEq g.trueKw Gen.omni.noneKw = false ∧
      foldEq g.trueKw Gen.omni.trueKw = true ∧ foldEq g.falseKw Gen.omni.noneKw = false ∧
      foldEq g.falseKw Gen.omni.trueKw = false ∧ foldEq g.falseKw Gen.omni.falseKw = true := by decide
  intro g hg
  obtain ⟨a, b, c, d, e, f⟩ := key g hg
  simp [decodeSimple, omniDec, a, b, c, d, e, f]

/-- **C02, bare strings**: a string that any of the four encoders writes without quotes is read back by
    the default decoder as that very string — `needs_quotes` asks the default loader's decoder as well
    as the encoder's own (the repair of the defect this property exposed: `12:00-5`, written bare by the
    PVL and ISIS encoders, was read by the default loader as a time with a zone offset) -/
theorem C02_bare_string (c : EncCfg) (s : Str) (h : encodeValue c (.str s) = .ok s) :
    decodeSimple omniDec s = .ok (.str s) := by
  have := C17_unquoted_roundtrip_default c s (by simpa [encodeValue, encodeSimple] using h)
  simpa [omniDec, permissiveDec] using this

end Pvl
