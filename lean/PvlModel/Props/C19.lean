import PvlModel.Props.C10
/-!
# C19 — `pvl.new` loaders return the same content as the default loaders

`pvl.new` runs the *same* parser and encoder with the container classes built on the third-party
`multidict` package.  That package is not part of /repo and is not modelled; its behaviour enters as a
**parameter** (`ListLike`): a container whose `items()` after `append(k, v)` is the old list with the pair
at the end, and after `pop()` on a non-empty container is the old list without its last pair.  These two
assumptions are part of the trusted base for C19 (DESIGN §9) and are what `vlib/props/c19.py` exercises on
the real classes.

The parser touches the container it builds through exactly these two methods (`module.append` in
`parse_module` / `parse_aggregation_block`, `module.pop()` + `module.append` in the default loader's
repair of an empty value).  The theorem: for **every** sequence of those calls, any container meeting the
two assumptions shows the same list of pairs as the default container (`OrderedMultiDict`, through its
two-representation model and `C10_history`) — so the two loaders' results have the same items at every
level, whatever the text.
-/
namespace Pvl.MD
open Spec
variable {K V : Type} [DecidableEq K]

/-- what the parser does to a container under construction -/
inductive POp (K V : Type)
  | append (k : K) (v : V)
  | pop

/-- the assumed behaviour of a list-like multi-dict (the third-party `multidict` behind `pvl.new`) -/
structure ListLike (C K V : Type) where
  empty : C
  append : C → K → V → C
  pop : C → C
  items : C → List (K × V)
  items_empty : items empty = []
  items_append : ∀ c k v, items (append c k v) = items c ++ [(k, v)]
  items_pop : ∀ c, items c ≠ [] → items (pop c) = (items c).dropLast

/-- the same calls on such a container (`pop()` on an empty container raises in both families and the
    parser never does it; here it leaves the container as it is) -/
def runC {C : Type} (L : ListLike C K V) (c : C) : List (POp K V) → C
  | [] => c
  | .append k v :: r => runC L (L.append c k v) r
  | .pop :: r => runC L (if (L.items c).isEmpty then c else L.pop c) r

def POp.toOp : POp K V → Op K V
  | .append k v => .append k v
  | .pop => .pop

theorem runC_spec {C : Type} (L : ListLike C K V) (ops : List (POp K V)) : ∀ c : C,
    L.items (runC L c ops) = Spec.run (L.items c) (ops.map POp.toOp) := by
  induction ops with
  | nil => intro c; rfl
  | cons o r ih =>
    intro c
    cases o with
    | append k v =>
      simp only [runC, List.map_cons, POp.toOp, Spec.run, List.foldl_cons, Spec.step]
      rw [ih, L.items_append]; rfl
    | pop =>
      simp only [runC, List.map_cons, POp.toOp, Spec.run, List.foldl_cons]
      rw [ih]
      congr 1
      cases hl : L.items c with
      | nil => simp [hl, Spec.step]
      | cons a b =>
        have hne : L.items c ≠ [] := by rw [hl]; simp
        have : (L.items c).isEmpty = false := by rw [hl]; rfl
        simp only [hl, List.isEmpty_cons, Bool.false_eq_true, if_false]
        rw [L.items_pop c hne, hl]
        simp only [Spec.step]
        cases hg : (a :: b).getLast? with
        | none => simp at hg
        | some p => rfl

/-- **C19, containers**: for every sequence of the parser's container calls, a container of the new
    family shows exactly the pairs the default container shows. -/
theorem C19_containers_agree {C : Type} (L : ListLike C K V) (ops : List (POp K V)) :
    L.items (runC L L.empty ops) = (run (empty : OMD K V) (ops.map POp.toOp)).items := by
  rw [runC_spec, L.items_empty, (C10_history (ops.map POp.toOp)).2.1]

/-- the assumptions are satisfiable: the plain list of pairs is such a container -/
def listInstance : ListLike (List (K × V)) K V where
  empty := []
  append c k v := c ++ [(k, v)]
  pop c := c.dropLast
  items c := c
  items_empty := rfl
  items_append _ _ _ := rfl
  items_pop _ _ := rfl

example : (listInstance (K := Nat) (V := Nat)).items
    (runC listInstance [] [.append 1 10, .append 2 0, .pop, .append 2 20, .append 1 11])
    = [(1, 10), (2, 20), (1, 11)] := by decide

end Pvl.MD
