import PvlModel.Model.Encoder

/-!
# C12 — encoder output obeys the surface rules of its dialect

Shape theorems about `Enc.encodeOut` (the model of `encoder.encode(module)`), for every module,
encoder and option combination.  The line-level rules (indentation, alignment, block pairing) are
judged on the real output by the independent conformance reader of the check; they are not yet
theorems.
-/
namespace Pvl.Enc
open Py

/-- **C12, shape of every output**: any text an encoder returns is `body NEWLINE END-line`, every
    character of which passed the final character-set sweep, followed by the line end (ODL, PDS3) and
    with tabs replaced (PDS3). -/
theorem C12_shape (c : EncCfg) (items : Items) (s : Str) (h : encodeOut c items = .ok s) :
    ∃ body, (join c.newline [body, endLine c]).all (charAllowedE c.g) = true ∧
      s = finish c (join c.newline [body, endLine c]) := by
  unfold encodeOut at h
  simp only at h
  split at h
  · cases h
  · split at h
    · cases h
    · rename_i body _
      by_cases hall : (join c.newline [body, endLine c]).all (charAllowedE c.g) = true
      · simp only [hall, if_true, Except.ok.injEq] at h
        exact ⟨body, hall, h.symm⟩
      · simp [hall] at h

/-- **C12, character set** for the PVL and ISIS encoders: every character of the output is in the
    grammar's table (C15 says what the tables are). -/
theorem C12_charset (c : EncCfg) (items : Items) (s : Str) (hk : c.kind = .pvl ∨ c.kind = .isis)
    (h : encodeOut c items = .ok s) : s.all (charAllowedE c.g) = true := by
  obtain ⟨body, hall, hs⟩ := C12_shape c items s h
  have hodl : isOdlFamily c = false := by
    rcases hk with hk | hk <;> simp [isOdlFamily, hk]
  have hpds : (c.kind == EncKind.pds) = false := by
    rcases hk with hk | hk <;> simp [hk]
  rw [hs]
  simpa [finish, hodl, hpds] using hall

/-- **C12, no tabs in PDS3 output** when tab replacement is on -/
theorem C12_no_tabs (c : EncCfg) (items : Items) (s : Str) (hk : c.kind = .pds) (ht : c.tabReplace > 0)
    (h : encodeOut c items = .ok s) : s.contains 9 = false := by
  obtain ⟨body, _, hs⟩ := C12_shape c items s h
  rw [hs]
  simp only [finish, hk, beq_self_eq_true, ht, decide_true, Bool.and_self, if_true]
  generalize (if isOdlFamily c = true then join c.newline [body, endLine c] ++ c.newline
    else join c.newline [body, endLine c]) = t
  induction t with
  | nil => rfl
  | cons x r ih =>
    simp only [List.flatMap_cons, List.contains_eq_mem, List.mem_append, decide_eq_false_iff_not, not_or] at *
    refine ⟨?_, ih⟩
    by_cases hx : (x == 9) = true
    · simp only [hx, if_true, List.mem_replicate]
      intro ⟨_, h9⟩; cases h9
    · simp only [hx, Bool.false_eq_true, if_false, List.mem_singleton]
      intro h9; apply hx; simp [h9]

/-- **C12, final line end** for the ODL and PDS3 encoders (before tab replacement the text ends with the
    configured line end; PDS3 fixes it to CR-LF in its constructor) -/
theorem C12_odl_lineend (c : EncCfg) (items : Items) (s : Str) (hk : c.kind = .odl)
    (h : encodeOut c items = .ok s) : endsWith s c.newline = true := by
  obtain ⟨body, _, hs⟩ := C12_shape c items s h
  rw [hs]
  simp only [finish, isOdlFamily, hk, beq_self_eq_true, Bool.true_or, if_true]
  have : (EncKind.odl == EncKind.pds) = false := rfl
  simp only [this, Bool.false_and, Bool.false_eq_true, if_false]
  unfold endsWith
  rw [List.reverse_append]
  generalize c.newline.reverse = p
  generalize (join c.newline [body, endLine c]).reverse = q
  induction p with
  | nil => simp [startsWith]
  | cons a r ih => simp [startsWith, ih]

/-- **C12, ODL / PDS3 parameter names**: an assignment is written only if its name has at most 30
    characters and is an identifier, `NAMESPACE:IDENTIFIER`, or `^` followed by one of these; otherwise the
    encoder refuses -/
theorem C12_odl_names (c : EncCfg) (hk : isOdlFamily c = true) (key : Str) (v : Val) (level keyLen : Nat)
    (line : Str) (h : encodeAssignment c key v level keyLen = .ok line) :
    key.length ≤ 30 ∧ ((startsWith key [94] && isAssignmentKey (key.drop 1)) || isAssignmentKey key) = true := by
  unfold encodeAssignment at h
  simp only [hk, if_true] at h
  split at h
  · cases h
  · rename_i h30
    split at h
    · cases h
    · rename_i hid
      refine ⟨by omega, ?_⟩
      cases hb : ((startsWith key [94] && isAssignmentKey (key.drop 1)) || isAssignmentKey key) with
      | true => rfl
      | false =>
        exfalso
        rw [hb] at hid
        exact hid rfl

/-- **C12, units only after numbers** in the ODL family: a value with units is written only if the value
    is a number -/
theorem C12_odl_units (c : EncCfg) (hk : isOdlFamily c = true) (v : Val) (u : Str) (text : Str)
    (h : encodeValue c (.quant v u) = .ok text) : isNumericVal v = true := by
  unfold encodeValue at h
  split at h
  · cases h
  · rename_i hc
    simp only [hk, Bool.true_and, Bool.not_eq_true'] at hc
    cases hv : isNumericVal v with
    | true => rfl
    | false => simp [hv] at hc

end Pvl.Enc
