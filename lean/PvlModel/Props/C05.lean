import PvlModel.Model.Spec

/-!
# C05 — ill-formed text is rejected, never silently truncated

The property predicate is `Pvl.Spec.specLoad` (an LL(2) recogniser without back-tracking, written
from the standards) applied to the same text: whenever the loader model returns a module, the
specification must accept the text and denote the same module.  The run-time check evaluates this
predicate on the *real* loader's outcome for every generated input.

Proved here so far: the spine lemmas about the "try the next production" combinator — a
`LexerError` is never swallowed, and only a plain `ValueError` reaches the fallback — and the
specification's verdict on each kind of malformation the property lists (as `example`s: these
are tests of the specification, not theorems about the parser).
-/
namespace Pvl

open P in
/-- `softCatch` (the model of `try … except LexerError: raise … except ValueError: <fallback>`)
    re-raises a `LexerError` untouched, with the state the failed production left behind. -/
theorem C05_softCatch_lexer {α} (m h : PM α) (s s' : PSt) (p : Int)
    (hm : m.run.run s = (.error (.lexer p), s')) :
    (softCatch m h).run.run s = (.error (.lexer p), s') := by
  simp only [softCatch, tryCatch, tryCatchThe, MonadExceptOf.tryCatch, ExceptT.tryCatch, ExceptT.run,
    ExceptT.mk, StateT.run, bind, StateT.bind] at *
  rw [hm]
  rfl

open P in
/-- … and every other non-`ValueError` exception (ParseError, StopIteration, TypeError, …). -/
theorem C05_softCatch_other {α} (m h : PM α) (s s' : PSt) (e : PErr) (he : e.isValueError = false)
    (hm : m.run.run s = (.error e, s')) :
    (softCatch m h).run.run s = (.error e, s') := by
  simp only [softCatch, tryCatch, tryCatchThe, MonadExceptOf.tryCatch, ExceptT.tryCatch, ExceptT.run,
    ExceptT.mk, StateT.run, bind, StateT.bind] at *
  rw [hm]
  cases e <;> simp_all [PErr.isValueError] <;> rfl

open P in
/-- a successful production is returned as is -/
theorem C05_softCatch_ok {α} (m h : PM α) (s s' : PSt) (a : α)
    (hm : m.run.run s = (.ok a, s')) :
    (softCatch m h).run.run s = (.ok a, s') := by
  simp only [softCatch, tryCatch, tryCatchThe, MonadExceptOf.tryCatch, ExceptT.tryCatch, ExceptT.run,
    ExceptT.mk, StateT.run, bind, StateT.bind] at *
  rw [hm]
  rfl

namespace Spec
open STok

private def strict : Dialect := ⟨false, false⟩
private def omni : Dialect := ⟨true, false⟩
private def w (c : Nat) : STok := .word [c] false

/-! The specification's verdicts on the malformations the property lists (tests of the spec). -/
-- a block left open at END / at the end of the text
example : sModule strict (index [beginKw true, eq, w 103, w 97, eq, val true, endStmt]) = none := by decide
example : sModule strict (index [beginKw true, eq, w 103, w 97, eq, val true]) = none := by decide
-- the end statement does not pair with the begin statement
example : sModule strict (index [beginKw true, eq, w 103, w 97, eq, val true, endKw false]) = none := by decide
-- … or with the block name
example : sModule strict (index [beginKw true, eq, w 103, endKw true, eq, w 104]) = none := by decide
-- unterminated sequence / set
example : sModule strict (index [w 97, eq, lpar, val true, comma, val true]) = none := by decide
example : sModule strict (index [w 97, eq, lbrace, val true]) = none := by decide
-- a stray token between statements
example : sModule strict (index [w 97, eq, val true, w 98, w 99, eq, val true]) = none := by decide
example : sModule strict (index [w 97, eq, val true, junk, endStmt]) = none := by decide
-- a missing value is tolerated by the permissive dialects only
example : sModule strict (index [w 97, eq, w 98, eq, val true]) = none := by decide
example : (sModule omni (index [w 97, eq, w 98, eq, val true])).isSome = true := by decide
-- well-formed text is accepted, and nothing after END matters
example : (sModule strict (index [w 97, eq, val true, semi, beginKw false, eq, w 111, w 98, eq, lpar, val true,
    comma, lbrace, rbrace, rpar, units, endKw false, eq, w 111, endStmt, junk, lpar])).isSome = true := by decide

end Spec
/-- **the production order the model follows is the one in the source** (`Gen.moduleProductions`,
    `Gen.valueProductions` are read from `parse_module` / `parse_value` with `ast` on every run): block,
    assignment, END in the module loop; set, sequence, post-hook for a value; in both loops a `LexerError`
    is re-raised before the `ValueError` that means "try the next production" is swallowed. -/
theorem C05_production_order :
    Gen.moduleProductions = ["parse_aggregation_block", "parse_assignment_statement", "parse_end_statement"] ∧
    Gen.moduleProductionCatches = ["LexerError", "ValueError"] ∧
    Gen.valueProductions = ["parse_set", "parse_sequence", "parse_value_post_hook"] ∧
    Gen.valueProductionCatches = ["LexerError", "ValueError"] := by decide

end Pvl
