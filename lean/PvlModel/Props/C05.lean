import PvlModel.Model.Spec
import PvlModel.Lemmas.SpecCount
import PvlModel.Lemmas.ParseSpec
import PvlModel.Lemmas.ParserCount2
import PvlModel.Lemmas.SaneAll
import PvlModel.Lemmas.ParserCount3
import PvlModel.Lemmas.ParserDead
import PvlModel.Gen.Tables

/-!
# C05 — ill-formed text is rejected, never silently truncated

The property predicate is `Pvl.Spec.specLoad` (an LL(2) recogniser without back-tracking, written
from the standards) applied to the same text: whenever the loader model returns a module, the
specification must accept the text and denote the same module.  The run-time check evaluates this
predicate on the *real* loader's outcome for every generated input.

Proved here so far: the spine lemmas about the "try the next production" combinator — a
`LexerError` is never swallowed, and only a plain `ValueError` reaches the fallback — and the
specification's verdict on each kind of malformation the property lists (as `example`s: these
are tests of the specification, not theorems about the parser).
-/
namespace Pvl

open P in
/-- `softCatch` (the model of `try … except LexerError: raise … except ValueError: <fallback>`)
    re-raises a `LexerError` untouched, with the state the failed production left behind. -/
theorem C05_softCatch_lexer {α} (m h : PM α) (s s' : PSt) (p : Int)
    (hm : m.run.run s = (.error (.lexer p), s')) :
    (softCatch m h).run.run s = (.error (.lexer p), s') := by
  simp only [softCatch, tryCatch, tryCatchThe, MonadExceptOf.tryCatch, ExceptT.tryCatch, ExceptT.run,
    ExceptT.mk, StateT.run, bind, StateT.bind] at *
  rw [hm]
  rfl

open P in
/-- … and every other non-`ValueError` exception (ParseError, StopIteration, TypeError, …). -/
theorem C05_softCatch_other {α} (m h : PM α) (s s' : PSt) (e : PErr) (he : e.isValueError = false)
    (hm : m.run.run s = (.error e, s')) :
    (softCatch m h).run.run s = (.error e, s') := by
  simp only [softCatch, tryCatch, tryCatchThe, MonadExceptOf.tryCatch, ExceptT.tryCatch, ExceptT.run,
    ExceptT.mk, StateT.run, bind, StateT.bind] at *
  rw [hm]
  cases e <;> simp_all [PErr.isValueError] <;> rfl

open P in
/-- a successful production is returned as is -/
theorem C05_softCatch_ok {α} (m h : PM α) (s s' : PSt) (a : α)
    (hm : m.run.run s = (.ok a, s')) :
    (softCatch m h).run.run s = (.ok a, s') := by
  simp only [softCatch, tryCatch, tryCatchThe, MonadExceptOf.tryCatch, ExceptT.tryCatch, ExceptT.run,
    ExceptT.mk, StateT.run, bind, StateT.bind] at *
  rw [hm]
  rfl

namespace Spec
open STok

private def strict : Dialect := ⟨false, false⟩
private def omni : Dialect := ⟨true, false⟩
private def w (c : Nat) : STok := .word [c] false

/-! The specification's verdicts on the malformations the property lists (tests of the spec). -/
-- a block left open at END / at the end of the text
example : sModule strict (index [beginKw true, eq, w 103, w 97, eq, val true, endStmt]) = none := by decide
example : sModule strict (index [beginKw true, eq, w 103, w 97, eq, val true]) = none := by decide
-- the end statement does not pair with the begin statement
example : sModule strict (index [beginKw true, eq, w 103, w 97, eq, val true, endKw false]) = none := by decide
-- … or with the block name
example : sModule strict (index [beginKw true, eq, w 103, endKw true, eq, w 104]) = none := by decide
-- unterminated sequence / set
example : sModule strict (index [w 97, eq, lpar, val true, comma, val true]) = none := by decide
example : sModule strict (index [w 97, eq, lbrace, val true]) = none := by decide
-- a stray token between statements
example : sModule strict (index [w 97, eq, val true, w 98, w 99, eq, val true]) = none := by decide
example : sModule strict (index [w 97, eq, val true, junk, endStmt]) = none := by decide
-- a missing value is tolerated by the permissive dialects only
example : sModule strict (index [w 97, eq, w 98, eq, val true]) = none := by decide
example : (sModule omni (index [w 97, eq, w 98, eq, val true])).isSome = true := by decide
-- well-formed text is accepted, and nothing after END matters
example : (sModule strict (index [w 97, eq, val true, semi, beginKw false, eq, w 111, w 98, eq, lpar, val true,
    comma, lbrace, rbrace, rpar, units, endKw false, eq, w 111, endStmt, junk, lpar])).isSome = true := by decide

/-- **the oracle enforces bracket structure** (`Lemmas/SpecCount.lean`): a tree is returned only if the
    tokens consumed — the whole text, or the text before an END statement — contain as many `(` as `)` and
    as many `{` as `}`, one pair per sequence / set node.  An unterminated sequence or set can therefore
    never be "accepted" by the specification the real loader is judged against. -/
theorem C05_spec_brackets_balance (d : Dialect) (ts : Toks) (items : List SItem) (h : sModule d ts = some items) :
    ∃ pre r, ts = pre ++ r ∧ (r = [] ∨ ∃ i rest, r = (i, .endStmt) :: rest) ∧
      cnt .lpar pre = cnt .rpar pre ∧ cnt .lbrace pre = cnt .rbrace pre := by
  obtain ⟨pre, r, h1, h2, a, b, c, e⟩ := sModule_balanced d ts items h
  exact ⟨pre, r, h1, h2, by omega, by omega⟩

/-- a text whose `(` are not matched is rejected by the specification, whatever else it contains -/
theorem C05_spec_rejects_unbalanced (d : Dialect) (ts : Toks)
    (hno : ∀ p ∈ ts, p.2 ≠ STok.endStmt) (hu : cnt .lpar ts ≠ cnt .rpar ts) : sModule d ts = none := by
  cases h : sModule d ts with
  | none => rfl
  | some items =>
    exfalso
    obtain ⟨pre, r, h1, h2, a, _⟩ := C05_spec_brackets_balance d ts items h
    rcases h2 with rfl | ⟨i, rest, rfl⟩
    · simp at h1; subst h1; exact hu a
    · exact hno (i, .endStmt) (by rw [h1]; simp) rfl

end Spec
/-- **the production order the model follows is the one in the source** (`Gen.moduleProductions`,
    `Gen.valueProductions` are read from `parse_module` / `parse_value` with `ast` on every run): block,
    assignment, END in the module loop; set, sequence, post-hook for a value; in both loops a `LexerError`
    is re-raised before the `ValueError` that means "try the next production" is swallowed. -/
theorem C05_production_order :
    Gen.moduleProductions = ["parse_aggregation_block", "parse_assignment_statement", "parse_end_statement"] ∧
    Gen.moduleProductionCatches = ["LexerError", "ValueError"] ∧
    Gen.valueProductions = ["parse_set", "parse_sequence", "parse_value_post_hook"] ∧
    Gen.valueProductionCatches = ["LexerError", "ValueError"] := by decide

/-- **C05, nothing before END is left unread**: the loader-level consequence of the Hoare specifications
    (`parse_spec_total`): a module is returned only when the lexer was driven to the end of the text without
    error, or the last token it was asked for is the END statement — no token before END stays unread, and
    a lexical error before END is never swallowed -/
theorem C05_no_silent_truncation (g : Grammar) (d : Dec) (kind : ParserKind) (prior : List Int) (text : Str)
    (m : Items) (h : (parseWith g d kind prior text).outcome = .ok m) :
    ((parseWith g d kind prior text).exhausted = true ∧ (lexAll g d (docOf kind text)).2 = .eof) ∨
    (∃ t, (parseWith g d kind prior text).last = some t ∧ Tok.isEndStatement g t.text = true) := by
  have hs := parse_spec_total g d kind prior text
  rw [h] at hs
  exact hs


open Py P

/-- the outcome and the final parser state of `parse()` (what `parseWith` computes before it projects) -/
def parseRun (g : Grammar) (d : Dec) (kind : ParserKind) (s : Str) : Except PErr Items × PSt :=
  let doc := if kind == .omni then omniPrepass s else s
  let (toks, tail) := lexAll g d doc
  let c : PCfg := ⟨g, d, kind, doc, tail⟩
  (P.moduleLoop c [] (fuelFor (toks.length + 2))).run.run ⟨⟨toks, none, none, false⟩, [], [], none, false⟩

theorem parseWith_outcome (g : Grammar) (d : Dec) (kind : ParserKind) (prior : List Int) (s : Str) :
    (parseWith g d kind prior s).outcome = (parseRun g d kind s).1 := by
  unfold parseWith parseRun
  rfl

/-- the parser configuration of a `parse()` call of a strict parser class -/
def cfgOf (g : Grammar) (d : Dec) (kind : ParserKind) (s : Str) : PCfg := ⟨g, d, kind, s, (lexAll g d s).2⟩

/-- **C05, block keywords are accounted for** (strict parser classes `PVLParser`, `ODLParser`): whenever
    `parse()` returns a module, the begin keywords among the tokens it consumed, and the end keywords among
    them, are each exactly as many as the blocks in the module — at every nesting depth.  No block is closed
    by the end of the text or by the END statement, no block keyword is skipped, nothing that opened a block is
    dropped from the result.  Hypotheses: the token stream is sane (a block keyword is not also white space,
    a delimiter, a value, units, a parameter name or END — evaluated on every input of the correspondence
    run), the punctuation is not a keyword and every begin keyword has a container class (`CfgOK`, `hcls`:
    facts about the grammar table, evaluated on the generated tables below). -/
theorem C05_blocks_accounted (g : Grammar) (d : Dec) (kind : ParserKind) (text : Str) (hk : kind ≠ .omni)
    (hc : CfgOK (cfgOf g d kind text))
    (hcls : ∀ b, isBt (cfgOf g d kind text) b = true → aggregationCls g b ≠ none)
    (hs : ∀ t ∈ (lexAll g d text).1, Sane (cfgOf g d kind text) t.text)
    (m : Items) (h : (parseRun g d kind text).1 = .ok m) :
    cntG (isBt (cfgOf g d kind text)) (parseRun g d kind text).2.gen + blocksI m =
      ((lexAll g d text).1.filter (fun t => isBt (cfgOf g d kind text) t.text)).length ∧
    cntG (isEt (cfgOf g d kind text)) (parseRun g d kind text).2.gen + blocksI m =
      ((lexAll g d text).1.filter (fun t => isEt (cfgOf g d kind text) t.text)).length := by
  have hko : (kind == ParserKind.omni) = false := by
    cases kind <;> simp_all
  revert h hc hcls hs
  unfold parseRun cfgOf
  simp only [hko, Bool.false_eq_true, if_false]
  generalize lexAll g d text = lx
  obtain ⟨toks, tail⟩ := lx
  simp only
  intro hc hcls hs
  have hs0 := triple_elim _ _ _ _
    (moduleLoop_ct ⟨g, d, kind, text, tail⟩ hc hk hcls (fuelFor (toks.length + 2)) []
      (K ⟨g, d, kind, text, tail⟩ ⟨⟨toks, none, none, false⟩, [], [], none, false⟩))
    ⟨⟨toks, none, none, false⟩, [], [], none, false⟩
    (by
      refine ⟨by simp [P.Inv], ?_⟩
      simp only [Same, K, TS]
      exact ⟨trivial, trivial, hs, by simp⟩)
  revert hs0
  generalize (moduleLoop ⟨g, d, kind, text, tail⟩ [] (fuelFor (toks.length + 2))).run.run
    ⟨⟨toks, none, none, false⟩, [], [], none, false⟩ = res
  obtain ⟨r, st'⟩ := res
  intro hs0 h
  simp only at h
  subst h
  obtain ⟨⟨h1, h2, _⟩, _⟩ := hs0
  simp only [K, Bc, Ec, cntG, blocksI_nil, Nat.add_zero] at h1 h2
  simp only [Bc, Ec] at h1 h2 ⊢
  constructor
  · simpa [cntG] using h1
  · simpa [cntG] using h2


/-- `CfgOK` and the class hypothesis as a computation on the grammar table -/
def cfgOKb (g : Grammar) : Bool :=
  let kw (x : Str) : Bool := Tok.isBeginAggregation g x || g.aggKeywords.any (fun p => foldEq x p.2)
  !kw [61] && !kw [44] && !kw [g.setDelims.1] && !kw [g.setDelims.2] && !kw [g.seqDelims.1] && !kw [g.seqDelims.2] &&
  g.aggKeywords.all (fun p => g.groupKeywords.any (fun q => q.1 == p.1) || g.objectKeywords.any (fun q => q.1 == p.1))

theorem cfgOK_of_table (c : PCfg) (h : cfgOKb c.g = true) :
    CfgOK c ∧ ∀ b, isBt c b = true → aggregationCls c.g b ≠ none := by
  simp only [cfgOKb, Bool.and_eq_true, Bool.not_eq_true', Bool.or_eq_false_iff] at h
  obtain ⟨⟨⟨⟨⟨⟨h1, h2⟩, h3⟩, h4⟩, h5⟩, h6⟩, h7⟩ := h
  refine ⟨⟨⟨h1.1, h1.2⟩, ⟨h2.1, h2.2⟩, ⟨h3.1, h3.2⟩, ⟨h4.1, h4.2⟩, ⟨h5.1, h5.2⟩, ⟨h6.1, h6.2⟩⟩, ?_⟩
  intro b hb
  simp only [isBt, Tok.isBeginAggregation, List.any_eq_true] at hb
  obtain ⟨p, hp, hpb⟩ := hb
  have := (List.all_eq_true.mp h7) p hp
  simp only [Bool.or_eq_true, List.any_eq_true, beq_iff_eq] at this
  unfold aggregationCls
  rcases this with ⟨q, hq, hqe⟩ | ⟨q, hq, hqe⟩
  · have : c.g.groupKeywords.any (fun p => foldEq b p.1) = true :=
      List.any_eq_true.mpr ⟨q, hq, by rw [hqe]; exact hpb⟩
    simp [this]
  · by_cases hg : c.g.groupKeywords.any (fun p => foldEq b p.1) = true
    · simp [hg]
    · have : c.g.objectKeywords.any (fun p => foldEq b p.1) = true :=
        List.any_eq_true.mpr ⟨q, hq, by rw [hqe]; exact hpb⟩
      simp [hg, this]

/-- the four strict-dialect tables satisfy both -/
theorem cfgOK_tables : ∀ g ∈ [Gen.pvl, Gen.odl, Gen.pds, Gen.isis, Gen.omni], cfgOKb g = true := by
  decide +kernel

/-- **C05, an unbalanced label is never accepted**: if a strict parser returns a module having consumed every
    token, the text holds as many begin keywords as end keywords (and as many as the module has blocks); so a
    text whose block keywords do not pair up is rejected or not read to its end -/
theorem C05_unbalanced_rejected (g : Grammar) (d : Dec) (kind : ParserKind) (text : Str) (hk : kind ≠ .omni)
    (hg : cfgOKb g = true) (hs : ∀ t ∈ (lexAll g d text).1, Sane (cfgOf g d kind text) t.text)
    (m : Items) (h : (parseRun g d kind text).1 = .ok m)
    (hall : (parseRun g d kind text).2.gen.pending = [] ∧ (parseRun g d kind text).2.gen.pushed = none) :
    ((lexAll g d text).1.filter (fun t => isBt (cfgOf g d kind text) t.text)).length = blocksI m ∧
    ((lexAll g d text).1.filter (fun t => isEt (cfgOf g d kind text) t.text)).length = blocksI m := by
  obtain ⟨hc, hcls⟩ := cfgOK_of_table (cfgOf g d kind text) hg
  obtain ⟨h1, h2⟩ := C05_blocks_accounted g d kind text hk hc hcls hs m h
  simp only [cntG, hall.1, hall.2, List.filter_nil, List.length_nil, Nat.zero_add] at h1 h2
  exact ⟨h1.symm, h2.symm⟩


/-- the computed sanity check implies the hypothesis of the accounting theorem -/
theorem saneText_sane (c : PCfg) (x : Str) (h : saneText c.g c.d x = true) : Sane c x := by
  simp only [saneText, Bool.and_eq_true, Bool.not_eq_true', Bool.or_eq_true, Bool.and_eq_false_imp] at h
  obtain ⟨h1, h2⟩ := h
  refine ⟨fun hb => h1 hb, fun hkw => ?_⟩
  have hkw' : (Tok.isBeginAggregation c.g x || c.g.aggKeywords.any (fun p => foldEq x p.2)) = true := by
    rcases hkw with h | h
    · simp [isBt] at h; simp [h]
    · simp [isEt] at h; simp [h]
  rcases h2 with h2 | h2
  · rw [hkw'] at h2; cases h2
  · obtain ⟨⟨⟨⟨⟨a, b⟩, cc⟩, dd⟩, e⟩, f⟩ := h2
    refine ⟨a, b, ?_, dd, e, f⟩
    intro v hv
    rw [hv] at cc
    cases cc

theorem saneToks_sane (g : Grammar) (d : Dec) (kind : ParserKind) (text : Str)
    (h : saneToks g d (lexAll g d text).1 = true) : ∀ t ∈ (lexAll g d text).1, Sane (cfgOf g d kind text) t.text := by
  intro t ht
  exact saneText_sane (cfgOf g d kind text) t.text ((List.all_eq_true.mp h) t ht)

/-- an ordinary token is sane (the condition only constrains block keywords) -/
example : saneText Gen.pvl ⟨Gen.pvl, .pvl⟩ [97] = true := by decide +kernel


/-- **C05, block keywords are accounted for — for every text** (strict parser classes, the generated grammar
    tables, a decoder built on the same table): the token-sanity hypothesis of `C05_blocks_accounted` is a
    theorem (`sane_all`, `Lemmas/SaneAll.lean`), and the table facts are evaluated.  Whatever the text, if
    `parse()` returns a module then the begin keywords among the tokens it consumed, and the end keywords among
    them, are each exactly as many as the blocks in the module. -/
theorem C05_blocks_accounted_all (g : Grammar) (hg : g ∈ [Gen.pvl, Gen.odl, Gen.pds, Gen.isis, Gen.omni]) (d : Dec)
    (hd : d.g = g) (kind : ParserKind) (hk : kind ≠ .omni) (text : Str) (m : Items)
    (h : (parseRun g d kind text).1 = .ok m) :
    cntG (isBt (cfgOf g d kind text)) (parseRun g d kind text).2.gen + blocksI m =
      ((lexAll g d text).1.filter (fun t => isBt (cfgOf g d kind text) t.text)).length ∧
    cntG (isEt (cfgOf g d kind text)) (parseRun g d kind text).2.gen + blocksI m =
      ((lexAll g d text).1.filter (fun t => isEt (cfgOf g d kind text) t.text)).length := by
  obtain ⟨hc, hcls⟩ := cfgOK_of_table (cfgOf g d kind text) (cfgOK_tables g hg)
  have hs : ∀ t ∈ (lexAll g d text).1, Sane (cfgOf g d kind text) t.text :=
    fun t _ => sane_all (cfgOf g d kind text) hd (saneTable_tables g hg) t.text
  exact C05_blocks_accounted g d kind text hk hc hcls hs m h

/-- **C05, an unbalanced label is never accepted — for every text**: a strict parser that returns a module
    having consumed every token has read as many begin keywords as end keywords, and as many as the module has
    blocks -/
theorem C05_unbalanced_rejected_all (g : Grammar) (hg : g ∈ [Gen.pvl, Gen.odl, Gen.pds, Gen.isis, Gen.omni]) (d : Dec)
    (hd : d.g = g) (kind : ParserKind) (hk : kind ≠ .omni) (text : Str) (m : Items)
    (h : (parseRun g d kind text).1 = .ok m)
    (hall : (parseRun g d kind text).2.gen.pending = [] ∧ (parseRun g d kind text).2.gen.pushed = none) :
    ((lexAll g d text).1.filter (fun t => isBt (cfgOf g d kind text) t.text)).length = blocksI m ∧
    ((lexAll g d text).1.filter (fun t => isEt (cfgOf g d kind text) t.text)).length = blocksI m :=
  C05_unbalanced_rejected g d kind text hk (cfgOK_tables g hg)
    (fun t _ => sane_all (cfgOf g d kind text) hd (saneTable_tables g hg) t.text) m h hall



/-- the parser configuration of a `parse()` call of any parser class (the default loader's class removes
    dash-continuations from the text first) -/
def cfgOfAny (g : Grammar) (d : Dec) (kind : ParserKind) (s : Str) : PCfg :=
  ⟨g, d, kind, docOf kind s, (lexAll g d (docOf kind s)).2⟩

/-- `(` is not a parameter name with any of the generated tables -/
theorem paren_not_name : ∀ g ∈ [Gen.pvl, Gen.odl, Gen.pds, Gen.isis, Gen.omni], ∀ k ∈ [DecKind.pvl, .odl, .pds, .omni],
    Tok.isParameterName ⟨g, k⟩ [40] = false := by
  decide +kernel

/-- **C05, block keywords are accounted for by every loader — for every text**: also the default loader
    (`OmniParser`, whose module post-hook rewrites the last item of the container under construction and repairs
    missing values).  Whenever `parse()` returns a module, the begin keywords among the tokens it consumed, and
    the end keywords among them, are each exactly as many as the blocks in the module.  The value the hook
    re-reads as a parameter name is never a block (`reread_not_block`): `_simple_value` is reset when a block is
    completed, productions that fail softly leave it alone, and `(` — what a block looks like to `Token` — is not
    a name. -/
theorem C05_blocks_accounted_any (g : Grammar) (hg : g ∈ [Gen.pvl, Gen.odl, Gen.pds, Gen.isis, Gen.omni])
    (dk : DecKind) (kind : ParserKind) (text : Str) (m : Items)
    (h : (parseRun g ⟨g, dk⟩ kind text).1 = .ok m) :
    cntG (isBt (cfgOfAny g ⟨g, dk⟩ kind text)) (parseRun g ⟨g, dk⟩ kind text).2.gen + blocksI m =
      ((lexAll g ⟨g, dk⟩ (docOf kind text)).1.filter (fun t => isBt (cfgOfAny g ⟨g, dk⟩ kind text) t.text)).length ∧
    cntG (isEt (cfgOfAny g ⟨g, dk⟩ kind text)) (parseRun g ⟨g, dk⟩ kind text).2.gen + blocksI m =
      ((lexAll g ⟨g, dk⟩ (docOf kind text)).1.filter (fun t => isEt (cfgOfAny g ⟨g, dk⟩ kind text) t.text)).length := by
  have hp40 : Tok.isParameterName (cfgOfAny g ⟨g, dk⟩ kind text).d [40] = false := by
    have hk : dk ∈ [DecKind.pvl, .odl, .pds, .omni] := by cases dk <;> simp
    exact paren_not_name g hg dk hk
  obtain ⟨hc, hcls⟩ := cfgOK_of_table (cfgOfAny g ⟨g, dk⟩ kind text) (cfgOK_tables g hg)
  have hs : ∀ t ∈ (lexAll g ⟨g, dk⟩ (docOf kind text)).1, Sane (cfgOfAny g ⟨g, dk⟩ kind text) t.text :=
    fun t _ => sane_all (cfgOfAny g ⟨g, dk⟩ kind text) rfl (saneTable_tables g hg) t.text
  revert h hc hcls hs hp40
  unfold parseRun cfgOfAny docOf
  simp only
  generalize (if kind == ParserKind.omni then omniPrepass text else text) = doc
  generalize lexAll g ⟨g, dk⟩ doc = lx
  obtain ⟨toks, tail⟩ := lx
  simp only
  intro h hp40 hc hcls hs
  have hs0 := triple_elim _ _ _ _
    (moduleLoop_om ⟨g, ⟨g, dk⟩, kind, doc, tail⟩ hc hp40 hcls (fuelFor (toks.length + 2)) []
      (K ⟨g, ⟨g, dk⟩, kind, doc, tail⟩ ⟨⟨toks, none, none, false⟩, [], [], none, false⟩))
    ⟨⟨toks, none, none, false⟩, [], [], none, false⟩
    (by
      refine ⟨by simp [P.Inv], ?_, Or.inl rfl⟩
      simp only [Same, K, TS]
      exact ⟨trivial, trivial, hs, by simp⟩)
  revert hs0 h
  generalize (moduleLoop ⟨g, ⟨g, dk⟩, kind, doc, tail⟩ [] (fuelFor (toks.length + 2))).run.run
    ⟨⟨toks, none, none, false⟩, [], [], none, false⟩ = res
  obtain ⟨r, st'⟩ := res
  intro h hs0
  have h' : r = .ok m := h
  subst h'
  obtain ⟨⟨h1, h2, _⟩, _⟩ := hs0
  simp only [K, Bc, Ec, cntG, blocksI_nil, Nat.add_zero] at h1 h2
  simp only [Bc, Ec] at h1 h2 ⊢
  constructor
  · simpa [cntG] using h1
  · simpa [cntG] using h2



theorem parseWith_exhausted (g : Grammar) (d : Dec) (kind : ParserKind) (prior : List Int) (s : Str) :
    (parseWith g d kind prior s).exhausted = (parseRun g d kind s).2.gen.dead := by
  unfold parseWith parseRun
  rfl

/-- after `parse()`, a finished lexer has nothing left to deliver -/
theorem parseRun_de (g : Grammar) (d : Dec) (kind : ParserKind) (text : Str) (m : Items)
    (h : (parseRun g d kind text).1 = .ok m) : DE (parseRun g d kind text).2 := by
  revert h
  unfold parseRun
  simp only
  generalize (if kind == ParserKind.omni then omniPrepass text else text) = doc
  generalize lexAll g d doc = lx
  obtain ⟨toks, tail⟩ := lx
  simp only
  have hs0 := triple_elim _ _ _ _
    (moduleLoop_de ⟨g, d, kind, doc, tail⟩ (fuelFor (toks.length + 2)) [])
    ⟨⟨toks, none, none, false⟩, [], [], none, false⟩ (by simp [DE])
  revert hs0
  generalize (moduleLoop ⟨g, d, kind, doc, tail⟩ [] (fuelFor (toks.length + 2))).run.run
    ⟨⟨toks, none, none, false⟩, [], [], none, false⟩ = res
  obtain ⟨r, st'⟩ := res
  intro hs0 h
  have h' : r = .ok m := h
  subst h'
  exact hs0

/-- **C05, a label read to its end is balanced**: for every loader (any parser class, the generated tables) and
    every text — if `parse()` returns a module and the lexer ran to the end of the text (no END statement cut the
    reading short), then the text holds exactly as many begin keywords of blocks as the module has blocks, and
    exactly as many end keywords.  A text with a block that is never closed, or closed twice, or an end keyword
    without a block is therefore never loaded as a module. -/
theorem C05_balanced_when_exhausted (g : Grammar) (hg : g ∈ [Gen.pvl, Gen.odl, Gen.pds, Gen.isis, Gen.omni])
    (dk : DecKind) (kind : ParserKind) (prior : List Int) (text : Str) (m : Items)
    (h : (parseWith g ⟨g, dk⟩ kind prior text).outcome = .ok m)
    (hex : (parseWith g ⟨g, dk⟩ kind prior text).exhausted = true) :
    ((lexAll g ⟨g, dk⟩ (docOf kind text)).1.filter (fun t => isBt (cfgOfAny g ⟨g, dk⟩ kind text) t.text)).length = blocksI m ∧
    ((lexAll g ⟨g, dk⟩ (docOf kind text)).1.filter (fun t => isEt (cfgOfAny g ⟨g, dk⟩ kind text) t.text)).length = blocksI m := by
  rw [parseWith_outcome] at h
  rw [parseWith_exhausted] at hex
  obtain ⟨h1, h2⟩ := C05_blocks_accounted_any g hg dk kind text m h
  obtain ⟨hp, hq⟩ := parseRun_de g ⟨g, dk⟩ kind text m h hex
  simp only [cntG, hp, hq, List.filter_nil, List.length_nil, Nat.zero_add] at h1 h2
  exact ⟨h1.symm, h2.symm⟩


end Pvl
