import PvlModel.Model.Spec
import PvlModel.Lemmas.SpecCount
import PvlModel.Lemmas.ParseSpec

/-!
# C05 — ill-formed text is rejected, never silently truncated

The property predicate is `Pvl.Spec.specLoad` (an LL(2) recogniser without back-tracking, written
from the standards) applied to the same text: whenever the loader model returns a module, the
specification must accept the text and denote the same module.  The run-time check evaluates this
predicate on the *real* loader's outcome for every generated input.

Proved here so far: the spine lemmas about the "try the next production" combinator — a
`LexerError` is never swallowed, and only a plain `ValueError` reaches the fallback — and the
specification's verdict on each kind of malformation the property lists (as `example`s: these
are tests of the specification, not theorems about the parser).
-/
namespace Pvl

open P in
/-- `softCatch` (the model of `try … except LexerError: raise … except ValueError: <fallback>`)
    re-raises a `LexerError` untouched, with the state the failed production left behind. -/
theorem C05_softCatch_lexer {α} (m h : PM α) (s s' : PSt) (p : Int)
    (hm : m.run.run s = (.error (.lexer p), s')) :
    (softCatch m h).run.run s = (.error (.lexer p), s') := by
  simp only [softCatch, tryCatch, tryCatchThe, MonadExceptOf.tryCatch, ExceptT.tryCatch, ExceptT.run,
    ExceptT.mk, StateT.run, bind, StateT.bind] at *
  rw [hm]
  rfl

open P in
/-- … and every other non-`ValueError` exception (ParseError, StopIteration, TypeError, …). -/
theorem C05_softCatch_other {α} (m h : PM α) (s s' : PSt) (e : PErr) (he : e.isValueError = false)
    (hm : m.run.run s = (.error e, s')) :
    (softCatch m h).run.run s = (.error e, s') := by
  simp only [softCatch, tryCatch, tryCatchThe, MonadExceptOf.tryCatch, ExceptT.tryCatch, ExceptT.run,
    ExceptT.mk, StateT.run, bind, StateT.bind] at *
  rw [hm]
  cases e <;> simp_all [PErr.isValueError] <;> rfl

open P in
/-- a successful production is returned as is -/
theorem C05_softCatch_ok {α} (m h : PM α) (s s' : PSt) (a : α)
    (hm : m.run.run s = (.ok a, s')) :
    (softCatch m h).run.run s = (.ok a, s') := by
  simp only [softCatch, tryCatch, tryCatchThe, MonadExceptOf.tryCatch, ExceptT.tryCatch, ExceptT.run,
    ExceptT.mk, StateT.run, bind, StateT.bind] at *
  rw [hm]
  rfl

namespace Spec
open STok

private def strict : Dialect := ⟨false, false⟩
private def omni : Dialect := ⟨true, false⟩
private def w (c : Nat) : STok := .word [c] false

/-! The specification's verdicts on the malformations the property lists (tests of the spec). -/
-- a block left open at END / at the end of the text
example : sModule strict (index [beginKw true, eq, w 103, w 97, eq, val true, endStmt]) = none := by decide
example : sModule strict (index [beginKw true, eq, w 103, w 97, eq, val true]) = none := by decide
-- the end statement does not pair with the begin statement
example : sModule strict (index [beginKw true, eq, w 103, w 97, eq, val true, endKw false]) = none := by decide
-- … or with the block name
example : sModule strict (index [beginKw true, eq, w 103, endKw true, eq, w 104]) = none := by decide
-- unterminated sequence / set
example : sModule strict (index [w 97, eq, lpar, val true, comma, val true]) = none := by decide
example : sModule strict (index [w 97, eq, lbrace, val true]) = none := by decide
-- a stray token between statements
example : sModule strict (index [w 97, eq, val true, w 98, w 99, eq, val true]) = none := by decide
example : sModule strict (index [w 97, eq, val true, junk, endStmt]) = none := by decide
-- a missing value is tolerated by the permissive dialects only
example : sModule strict (index [w 97, eq, w 98, eq, val true]) = none := by decide
example : (sModule omni (index [w 97, eq, w 98, eq, val true])).isSome = true := by decide
-- well-formed text is accepted, and nothing after END matters
example : (sModule strict (index [w 97, eq, val true, semi, beginKw false, eq, w 111, w 98, eq, lpar, val true,
    comma, lbrace, rbrace, rpar, units, endKw false, eq, w 111, endStmt, junk, lpar])).isSome = true := by decide

/-- **the oracle enforces bracket structure** (`Lemmas/SpecCount.lean`): a tree is returned only if the
    tokens consumed — the whole text, or the text before an END statement — contain as many `(` as `)` and
    as many `{` as `}`, one pair per sequence / set node.  An unterminated sequence or set can therefore
    never be "accepted" by the specification the real loader is judged against. -/
theorem C05_spec_brackets_balance (d : Dialect) (ts : Toks) (items : List SItem) (h : sModule d ts = some items) :
    ∃ pre r, ts = pre ++ r ∧ (r = [] ∨ ∃ i rest, r = (i, .endStmt) :: rest) ∧
      cnt .lpar pre = cnt .rpar pre ∧ cnt .lbrace pre = cnt .rbrace pre := by
  obtain ⟨pre, r, h1, h2, a, b, c, e⟩ := sModule_balanced d ts items h
  exact ⟨pre, r, h1, h2, by omega, by omega⟩

/-- a text whose `(` are not matched is rejected by the specification, whatever else it contains -/
theorem C05_spec_rejects_unbalanced (d : Dialect) (ts : Toks)
    (hno : ∀ p ∈ ts, p.2 ≠ STok.endStmt) (hu : cnt .lpar ts ≠ cnt .rpar ts) : sModule d ts = none := by
  cases h : sModule d ts with
  | none => rfl
  | some items =>
    exfalso
    obtain ⟨pre, r, h1, h2, a, _⟩ := C05_spec_brackets_balance d ts items h
    rcases h2 with rfl | ⟨i, rest, rfl⟩
    · simp at h1; subst h1; exact hu a
    · exact hno (i, .endStmt) (by rw [h1]; simp) rfl

end Spec
/-- **the production order the model follows is the one in the source** (`Gen.moduleProductions`,
    `Gen.valueProductions` are read from `parse_module` / `parse_value` with `ast` on every run): block,
    assignment, END in the module loop; set, sequence, post-hook for a value; in both loops a `LexerError`
    is re-raised before the `ValueError` that means "try the next production" is swallowed. -/
theorem C05_production_order :
    Gen.moduleProductions = ["parse_aggregation_block", "parse_assignment_statement", "parse_end_statement"] ∧
    Gen.moduleProductionCatches = ["LexerError", "ValueError"] ∧
    Gen.valueProductions = ["parse_set", "parse_sequence", "parse_value_post_hook"] ∧
    Gen.valueProductionCatches = ["LexerError", "ValueError"] := by decide

/-- **C05, nothing before END is left unread**: the loader-level consequence of the Hoare specifications
    (`parse_spec_total`): a module is returned only when the lexer was driven to the end of the text without
    error, or the last token it was asked for is the END statement — no token before END stays unread, and
    a lexical error before END is never swallowed -/
theorem C05_no_silent_truncation (g : Grammar) (d : Dec) (kind : ParserKind) (prior : List Int) (text : Str)
    (m : Items) (h : (parseWith g d kind prior text).outcome = .ok m) :
    ((parseWith g d kind prior text).exhausted = true ∧ (lexAll g d (docOf kind text)).2 = .eof) ∨
    (∃ t, (parseWith g d kind prior text).last = some t ∧ Tok.isEndStatement g t.text = true) := by
  have hs := parse_spec_total g d kind prior text
  rw [h] at hs
  exact hs

end Pvl
