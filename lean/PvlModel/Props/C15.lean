import PvlModel.Lemmas.ParseSpec

/-!
# C15 — strict dialects enforce their character set; the default accepts all

Part 1 (tables): `Gen.*.allowed` is regenerated on every run from `char_allowed` of the grammar
*instances* in /repo by exhaustive tabulation over all 1 114 112 code points; the theorems below
say that the generated tables are exactly the sets of the specifications, for every `c : Nat`.

Part 2 (lexer): a text containing a character outside the table can only lex to a token list
followed by a `LexerError` tail whose position attributes are mutually consistent — the lexer
never delivers a token formed after an offending character, for any text.
-/
namespace Pvl

/-- PVL: ISO 8859-1 without the control ranges 0–8, 14–31, 127–159. -/
theorem C15_pvl (c : Nat) :
    charAllowed Gen.pvl c = true ↔ c ≤ 255 ∧ ¬ c ≤ 8 ∧ ¬ (14 ≤ c ∧ c ≤ 31) ∧ ¬ (127 ≤ c ∧ c ≤ 159) := by
  simp [charAllowed, inRanges, Gen.pvl]; omega

/-- ISIS uses the PVL character set. -/
theorem C15_isis (c : Nat) : charAllowed Gen.isis c = charAllowed Gen.pvl c := by
  simp [charAllowed, inRanges, Gen.pvl, Gen.isis]

/-- ODL: the 7-bit ASCII characters. -/
theorem C15_odl (c : Nat) : charAllowed Gen.odl c = true ↔ c ≤ 127 := by
  simp [charAllowed, inRanges, Gen.odl]

/-- PDS3: the 7-bit ASCII characters. -/
theorem C15_pds (c : Nat) : charAllowed Gen.pds c = true ↔ c ≤ 127 := by
  simp [charAllowed, inRanges, Gen.pds]

/-- The permissive default grammar accepts every code point of Python's `str`. -/
theorem C15_omni (c : Nat) (h : c < 0x110000) : charAllowed Gen.omni c = true := by
  simp [charAllowed, inRanges, Gen.omni]; omega

/-! ### the lexer stops at the first character outside the table -/

/-- All characters the lexer has examined when it returns normally are allowed:
    if `lexGo` ends with `eof`, every character of the remaining text was in the table. -/
theorem lexGo_eof_allowed (g : Grammar) (d : Dec) :
    ∀ (s : Str) (i : Nat) (prev : Option Nat) (ls : LS) (acc : List Token) (toks : List Token),
      lexGo g d s i prev ls acc = (toks, .eof) → ∀ c ∈ s, charAllowed g c = true := by
  intro s
  induction s with
  | nil => intro _ _ _ _ _ _ c hc; cases hc
  | cons ch rest ih =>
    intro i prev ls acc toks h c hc
    unfold lexGo at h
    by_cases ha : charAllowed g ch = true
    · simp only [ha, Bool.not_true, Bool.false_eq_true, if_false] at h
      have hrest : ∀ c ∈ rest, charAllowed g c = true := by
        split at h
        · exact ih _ _ _ _ _ h
        · split at h
          · exact ih _ _ _ _ _ h
          · split at h
            · exact ih _ _ _ _ _ h
            · exact ih _ _ _ _ _ h
      cases hc with
      | head => exact ha
      | tail _ hm => exact hrest c hm
    · simp [ha] at h

/-- **C15, rejection**: a text containing a character outside the grammar's table never lexes
    to the end: the token stream ends in a `LexerError` (or in the decoder's `TypeError`, which
    the fixed code no longer raises) — the loader cannot reach END of text without raising. -/
theorem C15_reject (g : Grammar) (d : Dec) (s : Str) (c : Nat) (hc : c ∈ s)
    (hbad : charAllowed g c = false) : (lexAll g d s).2 ≠ .eof := by
  intro h
  have he : lexGo g d s 0 none ⟨[], .off, []⟩ [] = ((lexAll g d s).1, .eof) := by
    have : lexAll g d s = ((lexAll g d s).1, (lexAll g d s).2) := rfl
    rw [h] at this
    simpa [lexAll] using this
  have := lexGo_eof_allowed g d s 0 none ⟨[], .off, []⟩ [] (lexAll g d s).1 he c hc
  rw [hbad] at this; cases this

/-- **C15, positions**: the attributes of a `LexerError` are consistent with each other and with
    the text: `lineno` is one more than the number of newlines before `pos`, and `colno` is the
    distance from the last newline before `pos` (or from position −1). -/
theorem C15_pos (doc : Str) (pos : Int) :
    (lexErrAttrs doc pos).1 = pos ∧
    (lexErrAttrs doc pos).2.1 = (Py.countChar doc 10 0 pos : Nat) + 1 ∧
    (lexErrAttrs doc pos).2.2 = pos - Py.rfindChar doc 10 0 pos := by
  simp [lexErrAttrs]

/-- the error raised for a disallowed character at index `i` points at the start of the pending
    lexeme, or at `i` itself when nothing is pending; in both cases `0 ≤ pos ≤ i` as long as the
    pending lexeme is no longer than the text consumed (`k ≤ i + 1`). -/
theorem C15_errpos (g : Grammar) (d : Dec) (ch : Nat) (rest : Str) (i : Nat) (prev : Option Nat)
    (ls : LS) (acc : List Token) (h : charAllowed g ch = false) :
    ∃ pos : Int, lexGo g d (ch :: rest) i prev ls acc = (acc.reverse, .lexerr pos) ∧
      pos ≤ i ∧ (ls.lexeme.length ≤ i + 1 → 0 ≤ pos) := by
  unfold lexGo
  simp only [h, Bool.not_false, if_true]
  refine ⟨_, rfl, ?_, ?_⟩
  · split
    · omega
    · rename_i hne
      have : 0 < ls.lexeme.length := by
        cases hl : ls.lexeme with
        | nil => simp [hl] at hne
        | cons a r => simp
      omega
  · intro hk; split <;> omega

/-- **C15, at the loader**: when the text handed to the lexer contains a character outside the
    grammar's table, `parse()` ends in one of two ways — with a `LexerError`, or with a module whose last
    requested token is the END statement (the character lies beyond what the parser asked the lexer for).
    It never ends in a `ParseError` and never returns a module by running off the end of the text.
    For every grammar table, decoder, parser class and text. -/
theorem C15_loader (g : Grammar) (d : Dec) (kind : ParserKind) (prior : List Int) (text : Str) (c : Nat)
    (hc : c ∈ docOf kind text) (hbad : charAllowed g c = false) :
    match (parseWith g d kind prior text).outcome with
    | .ok _ => ∃ t, (parseWith g d kind prior text).last = some t ∧ Tok.isEndStatement g t.text = true
    | .error e => e.isLexer = true := by
  have hne := C15_reject g d (docOf kind text) c hc hbad
  have hs := parse_spec_total g d kind prior text
  revert hs
  cases (parseWith g d kind prior text).outcome with
  | ok m =>
    intro hs
    rcases hs with ⟨_, h⟩ | h
    · exact absurd h hne
    · exact h
  | error e =>
    intro hs
    rcases hs with h | ⟨_, h⟩
    · exact h
    · exact absurd h hne

example : charAllowed Gen.pvl 233 = true ∧ charAllowed Gen.pvl 0x2603 = false ∧
    charAllowed Gen.odl 233 = false ∧ charAllowed Gen.pvl 11 = true := by decide

end Pvl
