import PvlModel.Lemmas.Num
import PvlModel.Lemmas.Based
import PvlModel.Model.Spec
/-!
# C03 — well-formed text decodes to the values the dialect grammar assigns

What is proved here is the integer part of the statement, for *every* integer (no bound on the number
of digits inside the model's domain): the canonical decimal spelling — an optional `-` followed by the
digits, most significant first, no leading zeros — denotes exactly that integer under each of the
five decoders, i.e. it is not claimed by an earlier step of the decoder cascade (keyword, quoted string,
based integer) and `int()` as modelled from CPython returns the value.  `NumSafe` is the only fact about
the grammar tables that the proof uses; it is evaluated on the tables regenerated from /repo.

`C03_binary_literal`: `2#bits#` denotes the binary value of its digits under the PVL decoder.

The rest of C03 (reals, other based integers, dates — see C14 —, strings, aggregates, layout) is decided by comparing the
real loader, the generator's own reading of each literal, the parser model and the Lean specification
`Spec.specLoad` on every generated text (`vlib/props/c03.py`).
-/
namespace Pvl
open Py Enc

theorem numSafe_tables :
    NumSafe Gen.pvl = true ∧ NumSafe Gen.odl = true ∧ NumSafe Gen.pds = true ∧
    NumSafe Gen.isis = true ∧ NumSafe Gen.omni = true := by decide

/-- **C03, integers**: with any of the five grammar tables and any decoder class, `str(i)` decodes to `i`. -/
theorem C03_int_literal (d : Dec) (hg : d.g = Gen.pvl ∨ d.g = Gen.odl ∨ d.g = Gen.pds ∨ d.g = Gen.isis ∨ d.g = Gen.omni)
    (i : Int) : decodeSimple d (intStr i) = .ok (.int i) := by
  apply decodeSimple_intStr
  obtain ⟨h1, h2, h3, h4, h5⟩ := numSafe_tables
  rcases hg with h | h | h | h | h <;> rw [h] <;> assumption

theorem realSafe_tables :
    RealSafe Gen.pvl = true ∧ RealSafe Gen.odl = true ∧ RealSafe Gen.pds = true ∧
    RealSafe Gen.isis = true ∧ RealSafe Gen.omni = true := by decide

/-- **C03, decimal reals**: a text that begins with a digit, a sign or the point, holds no `#`, has
    `float()`'s syntax and is not an integer literal denotes — with any of the five tables and any decoder
    class — the real carrying exactly that text (the digits reach the real-number class unaltered, C18) -/
theorem C03_real_literal (d : Dec) (hg : d.g = Gen.pvl ∨ d.g = Gen.odl ∨ d.g = Gen.pds ∨ d.g = Gen.isis ∨ d.g = Gen.omni)
    (c : Nat) (r : Str) (hc : RealHead c) (h35 : 35 ∉ c :: r) (hf : floatOk (c :: r) = true)
    (hi : int10 (c :: r) = none) : decodeSimple d (c :: r) = .ok (.real (c :: r)) := by
  apply decodeSimple_real d _ c r hc h35 hf hi
  obtain ⟨h1, h2, h3, h4, h5⟩ := realSafe_tables
  rcases hg with h | h | h | h | h <;> rw [h] <;> assumption

/-- the hypotheses are met by ordinary spellings: `1.5`, `-2.25e-7`, `+.5E3` -/
example : floatOk [49, 46, 53] = true ∧ int10 [49, 46, 53] = none := by decide
example : floatOk [45, 50, 46, 50, 53, 101, 45, 48, 55] = true ∧ int10 [45, 50, 46, 50, 53, 101, 45, 48, 55] = none := by
  decide
example : floatOk [43, 46, 53, 69, 51] = true ∧ int10 [43, 46, 53, 69, 51] = none := by decide

/-- the value of a digit string is its positional value: `int("d₁…dₖ")` for ASCII digits, with
    leading zeros allowed (`007` is 7) -/
theorem C03_digits_value (s : Str) (hs : s ≠ []) (hd : AllDigits s) :
    int10 s = some (digitsVal s 0 : Int) := int10_digits s hs hd

/-- **C03, binary integers**: `2#b₁…bₖ#` under the PVL decoder (PVL and ISIS grammar tables) denotes the
    positional value of its digits, for every non-empty digit string -/
theorem C03_binary_literal (g : Grammar) (hg : g = Gen.pvl ∨ g = Gen.isis) (bits : Str) (hb : AllBits bits)
    (hne : bits ≠ []) :
    decodeSimple ⟨g, .pvl⟩ (50 :: 35 :: (bits ++ [35])) = .ok (.int (binVal bits 0)) := by
  obtain ⟨h1, _, _, h4, _⟩ := numSafe_tables
  rcases hg with rfl | rfl
  · exact decodeSimple_bin _ h1 (by decide) bits hb hne
  · exact decodeSimple_bin _ h4 (by decide) bits hb hne

example : binVal [49, 48, 49, 49] 0 = 11 := by decide

example : decodeSimple ⟨Gen.odl, .odl⟩ (intStr (-42)) = .ok (.int (-42)) := C03_int_literal _ (by simp) _

end Pvl
