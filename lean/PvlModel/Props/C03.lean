import PvlModel.Model.Spec
/-!
# C03 — well-formed text decodes to the values the dialect grammar assigns
(theorems are added below as they are proved; see DESIGN §5)
-/
namespace Pvl
end Pvl
