import PvlModel.Lemmas.Num
import PvlModel.Lemmas.Based
import PvlModel.Lemmas.Radix
import PvlModel.Model.Spec
/-!
# C03 — well-formed text decodes to the values the dialect grammar assigns

What is proved here is the integer part of the statement, for *every* integer (no bound on the number
of digits inside the model's domain): the canonical decimal spelling — an optional `-` followed by the
digits, most significant first, no leading zeros — denotes exactly that integer under each of the
five decoders, i.e. it is not claimed by an earlier step of the decoder cascade (keyword, quoted string,
based integer) and `int()` as modelled from CPython returns the value.  `NumSafe` is the only fact about
the grammar tables that the proof uses; it is evaluated on the tables regenerated from /repo.

`C03_binary_literal`: `2#bits#` denotes the binary value of its digits under the PVL decoder.

The rest of C03 (reals, other based integers, dates — see C14 —, strings, aggregates, layout) is decided by comparing the
real loader, the generator's own reading of each literal, the parser model and the Lean specification
`Spec.specLoad` on every generated text (`vlib/props/c03.py`).
-/
namespace Pvl
open Py Enc

theorem numSafe_tables :
    NumSafe Gen.pvl = true ∧ NumSafe Gen.odl = true ∧ NumSafe Gen.pds = true ∧
    NumSafe Gen.isis = true ∧ NumSafe Gen.omni = true := by decide

/-- **C03, integers**: with any of the five grammar tables and any decoder class, `str(i)` decodes to `i`. -/
theorem C03_int_literal (d : Dec) (hg : d.g = Gen.pvl ∨ d.g = Gen.odl ∨ d.g = Gen.pds ∨ d.g = Gen.isis ∨ d.g = Gen.omni)
    (i : Int) : decodeSimple d (intStr i) = .ok (.int i) := by
  apply decodeSimple_intStr
  obtain ⟨h1, h2, h3, h4, h5⟩ := numSafe_tables
  rcases hg with h | h | h | h | h <;> rw [h] <;> assumption

theorem realSafe_tables :
    RealSafe Gen.pvl = true ∧ RealSafe Gen.odl = true ∧ RealSafe Gen.pds = true ∧
    RealSafe Gen.isis = true ∧ RealSafe Gen.omni = true := by decide

/-- **C03, decimal reals**: a text that begins with a digit, a sign or the point, holds no `#`, has
    `float()`'s syntax and is not an integer literal denotes — with any of the five tables and any decoder
    class — the real carrying exactly that text (the digits reach the real-number class unaltered, C18) -/
theorem C03_real_literal (d : Dec) (hg : d.g = Gen.pvl ∨ d.g = Gen.odl ∨ d.g = Gen.pds ∨ d.g = Gen.isis ∨ d.g = Gen.omni)
    (c : Nat) (r : Str) (hc : RealHead c) (h35 : 35 ∉ c :: r) (hf : floatOk (c :: r) = true)
    (hi : int10 (c :: r) = none) : decodeSimple d (c :: r) = .ok (.real (c :: r)) := by
  apply decodeSimple_real d _ c r hc h35 hf hi
  obtain ⟨h1, h2, h3, h4, h5⟩ := realSafe_tables
  rcases hg with h | h | h | h | h <;> rw [h] <;> assumption

/-- the hypotheses are met by ordinary spellings: `1.5`, `-2.25e-7`, `+.5E3` -/
example : floatOk [49, 46, 53] = true ∧ int10 [49, 46, 53] = none := by decide
example : floatOk [45, 50, 46, 50, 53, 101, 45, 48, 55] = true ∧ int10 [45, 50, 46, 50, 53, 101, 45, 48, 55] = none := by
  decide
example : floatOk [43, 46, 53, 69, 51] = true ∧ int10 [43, 46, 53, 69, 51] = none := by decide

/-- the value of a digit string is its positional value: `int("d₁…dₖ")` for ASCII digits, with
    leading zeros allowed (`007` is 7) -/
theorem C03_digits_value (s : Str) (hs : s ≠ []) (hd : AllDigits s) :
    int10 s = some (digitsVal s 0 : Int) := int10_digits s hs hd

/-- **C03, binary integers**: `2#b₁…bₖ#` under the PVL decoder (PVL and ISIS grammar tables) denotes the
    positional value of its digits, for every non-empty digit string -/
theorem C03_binary_literal (g : Grammar) (hg : g = Gen.pvl ∨ g = Gen.isis) (bits : Str) (hb : AllBits bits)
    (hne : bits ≠ []) :
    decodeSimple ⟨g, .pvl⟩ (50 :: 35 :: (bits ++ [35])) = .ok (.int (binVal bits 0)) := by
  obtain ⟨h1, _, _, h4, _⟩ := numSafe_tables
  rcases hg with rfl | rfl
  · exact decodeSimple_bin _ h1 (by decide) bits hb hne
  · exact decodeSimple_bin _ h4 (by decide) bits hb hne

example : binVal [49, 48, 49, 49] 0 = 11 := by decide

example : decodeSimple ⟨Gen.odl, .odl⟩ (intStr (-42)) = .ok (.int (-42)) := C03_int_literal _ (by simp) _


open Py Enc

theorem decodeSimple_of_nondecimal (d : Dec) (hs : RealSafe d.g = true) (c : Nat) (r : Str) (hc : RealHead c)
    (v : Int) (h : decodeNonDecimal d (c :: r) = some v) : decodeSimple d (c :: r) = .ok (.int v) := by
  simp only [RealSafe, NumSafe, Bool.and_eq_true, List.all_cons, List.all_nil, Bool.and_true] at hs
  obtain ⟨⟨⟨hk1, hk2, hk3⟩, hq⟩, hq2⟩ := hs
  unfold decodeSimple
  rw [foldEq_head_real c _ _ hc hk1, foldEq_head_real c _ _ hc hk2, foldEq_head_real c _ _ hc hk3]
  simp only [Bool.false_eq_true, if_false]
  rw [decodeQuoted_head_real d c _ hc hq hq2, h]

/-- **C03, ODL based integers**: `r#digits#`, `r#+digits#`, `r#-digits#` — every radix 2 to 16, every
    non-empty string of digits of that radix (upper- or lower-case letters) — denote, under the ODL and PDS3
    decoders, the positional value of the digits, negated after `-` -/
theorem C03_based_literal_odl (d : Dec) (hk : d.kind = .odl ∨ d.kind = .pds) (hg : d.g = Gen.odl ∨ d.g = Gen.pds)
    (b : Nat) (h2 : 2 ≤ b) (h16 : b ≤ 16) (ds : Str) (hd : ∀ c ∈ ds, DigitOf b c) (hne : ds ≠ [])
    (sgt : Str) (hs : SignText sgt) :
    decodeSimple d (radText b ++ 35 :: (sgt ++ ds ++ [35])) =
      .ok (.int (if sgt = [45] then -(baseVal b ds 0 : Int) else (baseVal b ds 0 : Int))) := by
  obtain ⟨_, h2', h3', _, _⟩ := realSafe_tables
  have hsafe : RealSafe d.g = true := by rcases hg with h | h <;> rw [h] <;> assumption
  have hpat : d.g.ndPattern = patOdlNd := by rcases hg with h | h <;> rw [h] <;> rfl
  have hdec := decodeNonDecimal_odl d.g d.kind hk hpat b h2 h16 ds hd hne sgt hs
  have hshape : ∃ c r, radText b ++ 35 :: (sgt ++ ds ++ [35]) = c :: r ∧ RealHead c := by
    unfold radText
    by_cases h : b < 10
    · exact ⟨48 + b, 35 :: (sgt ++ ds ++ [35]), by simp [h], Or.inl (Or.inl (by simp [isDigit]; omega))⟩
    · exact ⟨49, (48 + (b - 10)) :: 35 :: (sgt ++ ds ++ [35]), by simp [h], Or.inl (Or.inl (by decide))⟩
  obtain ⟨c, r, he, hc⟩ := hshape
  rw [he] at hdec ⊢
  exact decodeSimple_of_nondecimal d hsafe c r hc _ (by cases d; exact hdec)

/-- **C03, PVL based integers**: `2#…#`, `8#…#`, `16#…#`, with an optional sign in front of the radix,
    under the PVL decoder with the PVL and ISIS tables -/
theorem C03_based_literal_pvl (g : Grammar) (hg : g = Gen.pvl ∨ g = Gen.isis) (b : Nat) (hb : b = 2 ∨ b = 8 ∨ b = 16)
    (ds : Str) (hd : ∀ c ∈ ds, DigitOf b c) (hne : ds ≠ []) (sgt : Str) (hs : SignText sgt) :
    decodeSimple ⟨g, .pvl⟩ (sgt ++ radTextPvl b ++ 35 :: (ds ++ [35])) =
      .ok (.int (if sgt = [45] then -(baseVal b ds 0 : Int) else (baseVal b ds 0 : Int))) := by
  obtain ⟨h1', _, _, h4', _⟩ := realSafe_tables
  have hsafe : RealSafe g = true := by rcases hg with h | h <;> rw [h] <;> assumption
  have hp1 : g.binPattern = patBin := by rcases hg with h | h <;> rw [h] <;> rfl
  have hp2 : g.octPattern = patOct := by rcases hg with h | h <;> rw [h] <;> rfl
  have hp3 : g.hexPattern = patHex := by rcases hg with h | h <;> rw [h] <;> rfl
  have hdec := decodeNonDecimal_pvl g hp1 hp2 hp3 b hb ds hd hne sgt hs
  have hshape : ∃ c r, sgt ++ radTextPvl b ++ 35 :: (ds ++ [35]) = c :: r ∧ RealHead c := by
    unfold radTextPvl
    rcases hs with rfl | rfl | rfl
    · rcases hb with rfl | rfl | rfl
      · exact ⟨50, 35 :: (ds ++ [35]), by simp, Or.inl (Or.inl (by decide))⟩
      · exact ⟨56, 35 :: (ds ++ [35]), by simp, Or.inl (Or.inl (by decide))⟩
      · exact ⟨49, 54 :: 35 :: (ds ++ [35]), by simp, Or.inl (Or.inl (by decide))⟩
    · exact ⟨43, _, rfl, Or.inr (Or.inl rfl)⟩
    · exact ⟨45, _, rfl, Or.inl (Or.inr rfl)⟩
  obtain ⟨c, r, he, hc⟩ := hshape
  rw [he] at hdec ⊢
  exact decodeSimple_of_nondecimal ⟨g, .pvl⟩ hsafe c r hc _ hdec

/-- the hypotheses are met: `F`, `f`, `9` are digits of base 16, `7` of base 8 but `8` is not -/
example : DigitOf 16 70 ∧ DigitOf 16 102 ∧ DigitOf 16 57 ∧ DigitOf 8 55 ∧ ¬ DigitOf 8 56 := by
  simp [DigitOf, isHex, digitValue]
example : baseVal 16 [70, 102] 0 = 255 := by decide


end Pvl
