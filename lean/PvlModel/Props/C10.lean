import PvlModel.Lemmas.MultiDict

/-!
# C10 — multi-dict list view and mapping view agree after any operation history

`Pvl.MD.step` is the model of `OrderedMultiDict` with *both* representations (the private item
list and the inherited `dict` of value lists); `Pvl.MD.Spec.step` is the specification: one ordered
list of pairs changed exactly as the property text says.  The theorems below say that, from the
empty container, after **any** finite sequence of operations the two-representation model
(a) still satisfies the agreement invariant `Inv`, (b) has exactly the specification's list,
(c) returned exactly the specification's result for every operation, and (d) every observer is
what the list implies.
-/
namespace Pvl.MD
open Spec
variable {K V : Type} [DecidableEq K]

/-- One step: same list, same visible result, invariant kept. -/
theorem C10_step {s : OMD K V} (h : Inv s) (op : Op K V) :
    (step s op).1.items = (Spec.step s.items op).1 ∧
    (step s op).2 = (Spec.step s.items op).2 ∧
    Inv (step s op).1 := by
  cases op with
  | append k v => exact ⟨rfl, rfl, inv_append h k v⟩
  | extend ps => exact ⟨extend_items s ps, rfl, inv_extend h ps⟩
  | insert i ps =>
    have := insert_spec h i ps
    exact ⟨this.2, rfl, this.1⟩
  | insertBefore k ps inst =>
    simp only [step, Spec.step, insertBefore, keyIndex_spec h]
    cases hk : Spec.keyIndex s.items k inst with
    | error e => exact ⟨rfl, rfl, h⟩
    | ok i =>
      have := insert_spec h (i : Int) ps
      exact ⟨this.2, rfl, this.1⟩
  | insertAfter k ps inst =>
    simp only [step, Spec.step, insertAfter, keyIndex_spec h]
    cases hk : Spec.keyIndex s.items k inst with
    | error e => exact ⟨rfl, rfl, h⟩
    | ok i =>
      have := insert_spec h ((i : Int) + 1) ps
      exact ⟨this.2, rfl, this.1⟩
  | setitem k v => exact ⟨setitem_items h k v, rfl, inv_setitem h k v⟩
  | delitem k =>
    simp only [step, Spec.step, delitem_spec h]
    cases hk : hasKey s.items k
    · exact ⟨rfl, rfl, h⟩
    · exact ⟨rfl, rfl, inv_remove h k⟩
  | pop =>
    simp only [step, Spec.step]
    obtain ⟨h1, h2⟩ := popLast_spec h
    cases hl : s.items.getLast? with
    | none => rw [h2 hl]; exact ⟨rfl, rfl, h⟩
    | some p =>
      obtain ⟨s', e1, e2, e3⟩ := h1 p hl
      rw [e1]; exact ⟨e2, rfl, e3⟩
  | popitem =>
    simp only [step, Spec.step]
    obtain ⟨h1, h2⟩ := popLast_spec h
    cases hl : s.items.getLast? with
    | none => rw [h2 hl]; exact ⟨rfl, rfl, h⟩
    | some p =>
      obtain ⟨s', e1, e2, e3⟩ := h1 p hl
      rw [e1]; exact ⟨e2, rfl, e3⟩
  | popKey k d =>
    simp only [step, Spec.step, popall, getitem_spec h]
    cases hf : first s.items k with
    | none => cases d <;> exact ⟨rfl, rfl, h⟩
    | some v =>
      simp only [delitem_spec h, first_some_hasKey hf, if_true]
      exact ⟨by first | rfl | trivial, by first | rfl | trivial, inv_remove h k⟩
  | popall k d =>
    simp only [step, Spec.step, popall, getitem_spec h]
    cases hf : first s.items k with
    | none => cases d <;> exact ⟨rfl, rfl, h⟩
    | some v =>
      simp only [delitem_spec h, first_some_hasKey hf, if_true]
      exact ⟨by first | rfl | trivial, by first | rfl | trivial, inv_remove h k⟩
  | setdefault k v =>
    simp only [step, Spec.step, setdefault, getitem_spec h]
    cases hf : first s.items k with
    | none =>
      have hk : hasKey s.items k = false := (first_none_iff _ _).mp hf
      refine ⟨?_, by first | rfl | trivial, inv_setitem h k v⟩
      rw [setitem_items h]; simp [assign, hk]
    | some v' => exact ⟨rfl, rfl, h⟩
  | update ps =>
    have := update_spec h ps
    exact ⟨this.2, rfl, this.1⟩
  | discard k =>
    simp only [step, Spec.step, discard, delitem_spec h]
    cases hk : hasKey s.items k
    · refine ⟨?_, by first | rfl | trivial, h⟩
      have : valuesOf s.items k = [] := (hasKey_false_iff _ _).mp hk
      simp only [if_false, Bool.false_eq_true]
      -- removing an absent key leaves the list unchanged
      symm
      apply List.filter_eq_self.mpr
      intro p hp
      by_cases hpk : p.1 = k
      · exfalso
        have : hasKey s.items k = true := by
          simp only [hasKey, List.any_eq_true]; exact ⟨p, hp, by simp [hpk]⟩
        rw [hk] at this; cases this
      · simp [hpk]
    · exact ⟨by first | rfl | trivial, by first | rfl | trivial, inv_remove h k⟩
  | clear => exact ⟨rfl, rfl, inv_empty⟩

/-- The outputs of a whole history. -/
def trace (s : OMD K V) : List (Op K V) → List (Out K V)
  | [] => []
  | op :: r => (step s op).2 :: trace (step s op).1 r

def Spec.trace (l : List (K × V)) : List (Op K V) → List (Out K V)
  | [] => []
  | op :: r => (Spec.step l op).2 :: Spec.trace (Spec.step l op).1 r

theorem C10_history_from {s : OMD K V} (h : Inv s) (ops : List (Op K V)) :
    Inv (run s ops) ∧ (run s ops).items = Spec.run s.items ops ∧
    trace s ops = Spec.trace s.items ops := by
  induction ops generalizing s with
  | nil => exact ⟨h, rfl, rfl⟩
  | cons op r ih =>
    obtain ⟨e1, e2, e3⟩ := C10_step h op
    obtain ⟨i1, i2, i3⟩ := ih e3
    refine ⟨by simpa [run] using i1, ?_, ?_⟩
    · simp only [run, Spec.run, List.foldl_cons] at *
      rw [i2, e1]
    · simp only [trace, Spec.trace]
      rw [e2, i3, e1]

/-- **C10, histories**: after any finite operation sequence from the empty container the two
    representations agree, the list is the specification's list and every operation returned
    the specification's result. -/
theorem C10_history (ops : List (Op K V)) :
    Inv (run (empty : OMD K V) ops) ∧
    (run (empty : OMD K V) ops).items = Spec.run [] ops ∧
    trace (empty : OMD K V) ops = Spec.trace [] ops :=
  C10_history_from inv_empty ops

/-- **C10, observers**: membership, lookup by key, `get`, `getall` and `key_index` are exactly
    what the list implies (first value / all values in order / positions); iteration, `len`,
    integer and slice indexing and the three views read the item list itself
    (`collections.py:79-136,172-185`), so they are `s.items` by definition. -/
theorem C10_observers {s : OMD K V} (h : Inv s) (k : K) :
    contains s k = hasKey s.items k ∧
    getitem s k = (match first s.items k with | some v => .ok v | none => .error .key) ∧
    (∀ d, get s k d = .ok (match first s.items k with | some v => some v | none => d)) ∧
    getall s k = (if hasKey s.items k then .ok (valuesOf s.items k) else .error .key) ∧
    (∀ inst, keyIndex s k inst = Spec.keyIndex s.items k inst) := by
  refine ⟨contains_eq_hasKey h k, getitem_spec h k, ?_, getall_spec h k, keyIndex_spec h k⟩
  intro d
  unfold get
  rw [getitem_spec h]
  cases first s.items k <;> rfl

/-- `first` really is the first value and `valuesOf` all values in order (the spec's reading of
    the property text), stated on an explicit decomposition of the list. -/
theorem first_spec (pre post : List (K × V)) (k : K) (v : V) (hpre : hasKey pre k = false) :
    first (pre ++ (k, v) :: post) k = some v := by
  unfold first
  rw [valuesOf_append, (hasKey_false_iff _ _).mp hpre, valuesOf_cons]
  simp

/-- **C10, equality**: two containers of the same class are equal exactly when their lists are
    equal (`__eq__`, collections.py:187). -/
theorem C10_eq [DecidableEq V] (a b : OMD K V) : eqv a b = true ↔ a.items = b.items := by
  unfold eqv
  constructor
  · intro h
    by_cases hl : a.items.length = b.items.length
    · simp only [hl, bne_self_eq_false, Bool.false_eq_true, if_false] at h
      generalize a.items = x at *
      generalize b.items = y at *
      induction x generalizing y with
      | nil => cases y <;> simp_all
      | cons p r ih =>
        cases y with
        | nil => simp at hl
        | cons q t =>
          simp only [List.zip_cons_cons, List.all_cons, Bool.and_eq_true, decide_eq_true_eq] at h
          obtain ⟨⟨h1, h2⟩, h3⟩ := h
          have : p = q := Prod.ext h1 h2
          rw [this, ih t (by simpa using hl) h3]
    · simp [hl] at h
  · intro h
    rw [h]
    simp only [bne_self_eq_false, Bool.false_eq_true, if_false]
    generalize b.items = y
    induction y with
    | nil => rfl
    | cons q t ih => simp [ih]

/-! ### What the specification says, as checkable statements (guards against a vacuous spec) -/

/-- assignment to a present key keeps the position of its first occurrence, gives it the new
    value, and no other pair with that key survives. -/
theorem assign_present (pre post : List (K × V)) (k : K) (v v' : V) (hpre : hasKey pre k = false) :
    assign (pre ++ (k, v) :: post) k v' = pre ++ (k, v') :: remove post k := by
  have hk : hasKey (pre ++ (k, v) :: post) k = true := by
    simp [hasKey]
  unfold assign
  rw [hk]; simp only [if_true]
  induction pre with
  | nil => simp [replaceFirst, remove]
  | cons p r ih =>
    rw [hasKey_cons] at hpre
    have hp : ¬ p.1 = k := by
      intro e; simp [e] at hpre
    have hr : hasKey r k = false := by
      cases hd : decide (p.1 = k) <;> simp_all
    have hk' : hasKey (r ++ (k, v) :: post) k = true := by simp [hasKey]
    simp only [List.cons_append, replaceFirst, hp, if_false]
    rw [ih hr hk']

theorem assign_absent (l : List (K × V)) (k : K) (v : V) (h : hasKey l k = false) :
    assign l k v = l ++ [(k, v)] := by
  simp [assign, h]

/-! ### Laws of the specification's operations, as the property text states them
(each lifts to the two-representation model through `C10_history` / `C10_observers`) -/

/-- after assignment the key has exactly one value, the assigned one. -/
theorem assign_values (l : List (K × V)) (k : K) (v : V) :
    valuesOf (assign l k v) k = [v] := by
  unfold assign
  by_cases h : hasKey l k = true
  · simp [h, valuesOf_replaceFirst]
  · have h' : hasKey l k = false := by simpa using h
    have := (hasKey_false_iff l k).1 h'
    simp [h', valuesOf_append, this, valuesOf_single]

/-- assignment leaves the values of every other key as they were. -/
theorem assign_other (l : List (K × V)) (k k' : K) (v : V) (hne : k ≠ k') :
    valuesOf (assign l k v) k' = valuesOf l k' := by
  unfold assign
  by_cases h : hasKey l k = true
  · simp [h, valuesOf_replaceFirst, hne]
  · have h' : hasKey l k = false := by simpa using h
    simp [h', valuesOf_append, valuesOf_single, hne]

/-- deletion by key removes every occurrence … -/
theorem remove_hasKey (l : List (K × V)) (k : K) : hasKey (remove l k) k = false := by
  rw [hasKey_false_iff, valuesOf_remove]; simp

/-- … and nothing else. -/
theorem remove_other (l : List (K × V)) (k k' : K) (hne : k ≠ k') :
    valuesOf (remove l k) k' = valuesOf l k' := by
  rw [valuesOf_remove]; simp [hne]

/-- deleting twice is deleting once (discard is idempotent). -/
theorem remove_idem (l : List (K × V)) (k : K) : remove (remove l k) k = remove l k := by
  simp [remove, List.filter_filter]

/-- deletion keeps the relative order of the remaining pairs. -/
theorem remove_sublist (l : List (K × V)) (k : K) : (remove l k).Sublist l := by
  simp [remove]

/-- assigning the same pair twice is assigning it once. -/
theorem assign_idem (l : List (K × V)) (k : K) (v : V) :
    assign (assign l k v) k v = assign l k v := by
  by_cases h : hasKey l k = true
  · -- present: split at the first occurrence
    have : ∃ pre post v0, l = pre ++ (k, v0) :: post ∧ hasKey pre k = false := by
      clear v
      induction l with
      | nil => simp [hasKey] at h
      | cons p r ih =>
        by_cases hp : p.1 = k
        · exact ⟨[], r, p.2, by cases p; simp_all, by simp [hasKey]⟩
        · have hr : hasKey r k = true := by
            rw [hasKey_cons] at h; simpa [hp] using h
          obtain ⟨pre, post, v0, e, hpre⟩ := ih hr
          refine ⟨p :: pre, post, v0, by simp [e], ?_⟩
          rw [hasKey_cons]; simp [hp, hpre]
    obtain ⟨pre, post, v0, e, hpre⟩ := this
    subst e
    rw [assign_present pre post k v0 v hpre, assign_present pre (remove post k) k v v hpre,
      remove_idem]
  · have h' : hasKey l k = false := by simpa using h
    rw [assign_absent l k v h']
    have := assign_present l [] k v v h'
    simpa [remove] using this

example : assign [(1, 10), (2, 20), (1, 11)] 1 (99 : Nat) = [(1, 99), (2, 20)] := by decide

/-! ### `insert`: where the pairs go, for every index -/

theorem normIndex_nat (n i : Nat) (h : i ≤ n) : normIndex n (i : Int) = i := by
  unfold normIndex; simp only
  split
  · omega
  · split <;> omega

theorem normIndex_negv (n j : Nat) (hj : 0 < j) (h : j ≤ n) : normIndex n (-(j : Int)) = n - j := by
  unfold normIndex; simp only
  split
  · split <;> omega
  · omega

/-- insert at an index within the list places the pairs, together and in order, before the element
    that was at that index -/
theorem splice_nonneg (pre post ps : List (K × V)) :
    splice (pre ++ post) (pre.length : Int) ps = pre ++ ps ++ post := by
  unfold splice
  rw [normIndex_nat _ _ (by simp)]
  simp

/-- a negative index counts from the end … -/
theorem splice_neg (pre post ps : List (K × V)) (hp : post ≠ []) :
    splice (pre ++ post) (-(post.length : Int)) ps = pre ++ ps ++ post := by
  unfold splice
  rw [normIndex_negv _ _ (List.length_pos_iff.mpr hp) (by simp)]
  simp

/-- … and one below the start puts the pairs, still together and in order, at the front -/
theorem splice_clamp_low (l ps : List (K × V)) (i : Int) (h : i + (l.length : Int) < 0) :
    splice l i ps = ps ++ l := by
  unfold splice normIndex
  have h1 : i < 0 := by omega
  simp [h1, h]

/-- an index past the end appends -/
theorem splice_clamp_high (l ps : List (K × V)) (i : Int) (h : (l.length : Int) < i) :
    splice l i ps = l ++ ps := by
  unfold splice normIndex
  have h1 : ¬ i < 0 := by omega
  simp [h1, h]

theorem splice_length (l ps : List (K × V)) (i : Int) :
    (splice l i ps).length = l.length + ps.length := by
  unfold splice
  have := normIndex_le l.length i
  simp only [List.length_append, List.length_take, List.length_drop]
  omega

/-! ### `key_index`: what the positions are -/

/-- `key_index`: the candidate positions are exactly the indices whose pair has the key … -/
theorem mem_positions (k : K) (l : List (K × V)) : ∀ (n i : Nat),
    i ∈ positions k l n ↔ n ≤ i ∧ ∃ p, l[i - n]? = some p ∧ p.1 = k := by
  induction l with
  | nil => intro n i; simp [positions]
  | cons q r ih =>
    intro n i
    obtain ⟨k', v'⟩ := q
    by_cases hk : k' = k
    · simp only [positions, hk, if_true, List.mem_cons, ih]
      constructor
      · rintro (rfl | ⟨hle, p, hp, hpk⟩)
        · exact ⟨Nat.le_refl _, (k, v'), by simp, rfl⟩
        · refine ⟨by omega, p, ?_, hpk⟩
          have : i - n = (i - (n + 1)) + 1 := by omega
          rw [this]; simpa using hp
      · rintro ⟨hle, p, hp, hpk⟩
        by_cases e : i = n
        · exact Or.inl e
        · refine Or.inr ⟨by omega, p, ?_, hpk⟩
          have : i - n = (i - (n + 1)) + 1 := by omega
          rw [this] at hp; simpa using hp
    · simp only [positions, hk, if_false, ih]
      constructor
      · rintro ⟨hle, p, hp, hpk⟩
        refine ⟨by omega, p, ?_, hpk⟩
        have : i - n = (i - (n + 1)) + 1 := by omega
        rw [this]; simpa using hp
      · rintro ⟨hle, p, hp, hpk⟩
        have hne : i ≠ n := by
          intro e; subst e
          simp at hp
          rw [← hp] at hpk; exact hk hpk
        refine ⟨by omega, p, ?_, hpk⟩
        have : i - n = (i - (n + 1)) + 1 := by omega
        rw [this] at hp; simpa using hp

/-- … in increasing order … -/
theorem positions_sorted (k : K) (l : List (K × V)) : ∀ n, (positions k l n).Pairwise (· < ·) := by
  induction l with
  | nil => intro n; simp [positions]
  | cons q r ih =>
    intro n
    obtain ⟨k', v'⟩ := q
    by_cases hk : k' = k
    · simp only [positions, hk, if_true, List.pairwise_cons]
      refine ⟨?_, ih (n + 1)⟩
      intro j hj
      have := ((mem_positions k r (n + 1) j).1 hj).1
      omega
    · simp only [positions, hk, if_false]; exact ih (n + 1)

/-- … one per value of the key. -/
theorem positions_length (k : K) (l : List (K × V)) : ∀ n,
    (positions k l n).length = (valuesOf l k).length := by
  induction l with
  | nil => intro n; simp [positions, valuesOf]
  | cons q r ih =>
    intro n
    obtain ⟨k', v'⟩ := q
    by_cases hk : k' = k
    · simp [positions, hk, valuesOf_cons, ih (n + 1)]
    · simp [positions, hk, valuesOf_cons, ih (n + 1)]

example : positions 1 [((1 : Nat), (10 : Nat)), (2, 20), (1, 11)] 0 = [0, 2] := by decide

/-! ### `pop()`, `setdefault`, `popall` -/

/-- `pop()` removes and returns the last pair; on an empty container it raises `KeyError` -/
theorem pop_last (l : List (K × V)) (p : K × V) :
    Spec.step (l ++ [p]) (Op.pop : Op K V) = (l, .pair p) := by
  simp [Spec.step]

theorem pop_empty : Spec.step ([] : List (K × V)) (Op.pop : Op K V) = ([], .err .key) := by
  simp [Spec.step]

/-- `setdefault` returns the first value of a present key and changes nothing … -/
theorem setdefault_present (l : List (K × V)) (k : K) (v v' : V) (h : first l k = some v') :
    Spec.step l (Op.setdefault k v) = (l, .val v') := by
  simp [Spec.step, h]

/-- … and appends the pair for a new key -/
theorem setdefault_absent (l : List (K × V)) (k : K) (v : V) (h : hasKey l k = false) :
    Spec.step l (Op.setdefault k v) = (l ++ [(k, v)], .val v) := by
  have : first l k = none := (first_none_iff l k).2 h
  simp [Spec.step, this]

/-- `popall(key)` returns the first value and removes every pair of that key -/
theorem popall_present (l : List (K × V)) (k : K) (d : Option V) (v : V) (h : first l k = some v) :
    Spec.step l (Op.popall k d) = (remove l k, .val v) := by
  simp [Spec.step, h]

/-! ### `update` -/

theorem foldl_assign_other (ps : List (K × V)) (k : K) (h : hasKey ps k = false) : ∀ l : List (K × V),
    valuesOf (ps.foldl (fun l p => assign l p.1 p.2) l) k = valuesOf l k := by
  induction ps with
  | nil => intro l; rfl
  | cons p r ih =>
    intro l
    rw [hasKey_cons] at h
    have hp : p.1 ≠ k := by intro e; simp [e] at h
    have hr : hasKey r k = false := by
      cases hd : decide (p.1 = k) <;> simp_all
    simp only [List.foldl_cons]
    rw [ih hr, assign_other _ _ _ _ hp]

/-- `update(pairs)`: afterwards a key has exactly one value, the one of its last pair in the argument … -/
theorem update_values_last (l ps1 ps2 : List (K × V)) (k : K) (v : V) (h : hasKey ps2 k = false) :
    valuesOf (Spec.step l (Op.update (ps1 ++ (k, v) :: ps2))).1 k = [v] := by
  simp only [Spec.step, List.foldl_append, List.foldl_cons]
  rw [foldl_assign_other ps2 k h, assign_values]

/-- … and keys the argument does not mention keep all their values -/
theorem update_values_other (l ps : List (K × V)) (k : K) (h : hasKey ps k = false) :
    valuesOf (Spec.step l (Op.update ps)).1 k = valuesOf l k := by
  simp only [Spec.step]
  exact foldl_assign_other ps k h l

/-- Non-vacuity: a concrete history with duplicates inserted in the middle. -/
example :
    (run (empty : OMD Nat Nat)
      [.append 1 10, .append 2 20, .append 1 11, .insert (-1) [(3, 30), (1, 12)],
       .setitem 1 99, .setdefault 4 40, .pop, .update [(2, 21), (5, 50)]]).items
      = [(1, 99), (2, 21), (3, 30), (5, 50)] := by decide

end Pvl.MD
