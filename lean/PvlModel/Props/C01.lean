import PvlModel.Lemmas.Num
import PvlModel.Gen.Tables
import PvlModel.Lemmas.Based
import PvlModel.Props.C17
/-!
# C01 — dump then strict load in the same dialect returns the original module

Theorems about the value level of the round trip, for every encoder configuration `c` (any of the four
encoder classes with any options) paired with its own decoder `c.d`:

* integers: what `encode_value` writes for an integer is `str(i)`, and the decoder reads it back as `i`;
* strings written bare: `C17_unquoted_roundtrip`;
* `None` and booleans: the keyword written is read back as the same constant.

The block / statement level (layout, wrapping, the lexer's tokenisation of the written text) is decided by
dumping generated modules with the real encoders, reading them back with the strict parser of the same
dialect and comparing with the original up to the documented normalisations, and by comparing the real
text with the encoder model's byte for byte (`vlib/props/c01.py`).
-/
namespace Pvl
open Py Enc

/-- **C01, integers round-trip** through every encoder and its own decoder -/
theorem C01_int_roundtrip (c : EncCfg) (hs : NumSafe c.d.g = true) (i : Int) :
    ∃ text, encodeValue c (.int i) = .ok text ∧ decodeSimple c.d text = .ok (.int i) := by
  refine ⟨intStr i, ?_, decodeSimple_intStr c.d hs i⟩
  simp [encodeValue, encodeSimple]

/-- **the type dispatch the model relies on is the one in the source**: `Gen.encodeDispatch` and
    `Gen.encodeDateDispatch` are the `isinstance` chains of `PVLEncoder.encode_simple_value` and
    `encode_datetype`, read with `ast` on every run.  The model's `Val` constructors are disjoint, Python's
    classes are not: `bool` is an `int` and `datetime` is a `date`, so the model is right only while `bool` is
    tested before the numeric types and `datetime` before `date`.  A re-ordering in the code changes the table
    and this stops checking. -/
theorem C01_dispatch_order :
    Gen.encodeDispatch = ["None", "set|frozenset", "list", "datetime|date|time", "bool", "numeric_types", "str"] ∧
    Gen.encodeDateDispatch = ["datetime", "date", "time"] := by decide

/-- **C01, finite reals round-trip**: the encoders write a real as its `repr` text (the model carries that text);
    every text of a finite float — first character a digit or `-`, no `#`, `float()` syntax, not an integer
    literal — is read back by the encoder's own decoder as the real with exactly that text -/
theorem C01_real_roundtrip (c : EncCfg) (hs : RealSafe c.d.g = true) (ch : Nat) (r : Str) (hc : RealHead ch)
    (h35 : 35 ∉ ch :: r) (hf : floatOk (ch :: r) = true) (hi : int10 (ch :: r) = none) :
    ∃ text, encodeValue c (.real (ch :: r)) = .ok text ∧ decodeSimple c.d text = .ok (.real (ch :: r)) :=
  ⟨ch :: r, by simp [encodeValue, encodeSimple], decodeSimple_real c.d hs ch r hc h35 hf hi⟩

/-- **C01, bare strings round-trip** (restating C17's reader/writer agreement at the value level) -/
theorem C01_bare_string_roundtrip (c : EncCfg) (s : Str) (h : encodeValue c (.str s) = .ok s) :
    decodeSimple c.d s = .ok (.str s) := by
  apply C17_unquoted_roundtrip c s
  simpa [encodeValue, encodeSimple] using h

theorem foldEq_refl (a : Str) : foldEq a a = true := by simp [foldEq]

/-- **C01, `None`** is written as the grammar's null keyword and read back as `None` -/
theorem C01_none_roundtrip (c : EncCfg) (hg : c.d.g = c.g) :
    ∃ text, encodeValue c .none = .ok text ∧ decodeSimple c.d text = .ok .none := by
  refine ⟨c.g.noneKw, by simp [encodeValue, encodeSimple], ?_⟩
  simp [decodeSimple, hg, foldEq_refl]

/-- **C01, booleans**: the keyword written for a boolean reads back as that boolean, provided the table's
    three keywords are pairwise different up to case (true of the generated tables, `kw_distinct`) -/
theorem C01_bool_roundtrip (c : EncCfg) (hg : c.d.g = c.g) (b : Bool)
    (h1 : foldEq c.g.trueKw c.g.noneKw = false) (h2 : foldEq c.g.falseKw c.g.noneKw = false)
    (h3 : foldEq c.g.falseKw c.g.trueKw = false) :
    ∃ text, encodeValue c (.bool b) = .ok text ∧ decodeSimple c.d text = .ok (.bool b) := by
  cases b with
  | true =>
    refine ⟨c.g.trueKw, by simp [encodeValue, encodeSimple], ?_⟩
    simp [decodeSimple, hg, foldEq_refl, h1]
  | false =>
    refine ⟨c.g.falseKw, by simp [encodeValue, encodeSimple], ?_⟩
    simp [decodeSimple, hg, foldEq_refl, h2, h3]

theorem kw_distinct :
    ∀ g ∈ [Gen.pvl, Gen.odl, Gen.pds, Gen.isis, Gen.omni],
      foldEq g.trueKw g.noneKw = false ∧ foldEq g.falseKw g.noneKw = false ∧ foldEq g.falseKw g.trueKw = false := by
  decide

end Pvl

namespace Pvl
open Py Enc

theorem casefold_quote (q : Nat) (hq : q = 34 ∨ q = 39) (r : Str) : casefold (q :: r) = 0x110000 :: casefold r := by
  have hf : Gen.pyCasefold.find? (fun p => p.1 == q) = none := by rcases hq with rfl | rfl <;> decide
  simp [casefold, List.flatMap_cons, hf]

theorem startsWith_cons_self (q : Nat) (r : Str) : startsWith (q :: r) [q] = true := by simp [startsWith]

theorem endsWith_snoc_self (l : Str) (q : Nat) : endsWith (l ++ [q]) [q] = true := by
  simp [endsWith, startsWith]

/-- **C01, quoted strings round-trip** under the PVL-kind decoder (which takes the text between the quotes
    as it stands): whatever quotation mark `encode_string` chose, `q s q` decodes to `s` -/
theorem C01_quoted_string_roundtrip (c : EncCfg) (hk : c.d.kind = .pvl) (hg : c.d.g = c.g)
    (hkw : [c.g.noneKw, c.g.trueKw, c.g.falseKw].all (fun kw => (casefold kw).head? != some 0x110000) = true)
    (hquotes : ∀ q ∈ c.g.quotes, q = 34 ∨ q = 39) (s text : Str)
    (h : encodeStringBase c s true = .ok text) : decodeSimple c.d text = .ok (.str s) := by
  unfold encodeStringBase at h
  simp only [if_true] at h
  split at h
  · rename_i q hfind
    simp only [Except.ok.injEq] at h
    subst h
    have hqm : q ∈ c.g.quotes := List.mem_of_find?_eq_some hfind
    have hq := hquotes q hqm
    simp only [List.all_cons, List.all_nil, Bool.and_true, Bool.and_eq_true] at hkw
    obtain ⟨k1, k2, k3⟩ := hkw
    have fold : ∀ kw, ((casefold kw).head? != some 0x110000) = true → foldEq ([q] ++ s ++ [q]) kw = false := by
      intro kw hk'
      unfold foldEq
      rw [show [q] ++ s ++ [q] = q :: (s ++ [q]) from by simp, casefold_quote q hq]
      cases hc : casefold kw with
      | nil => simp
      | cons a r =>
        rw [hc] at hk'
        simp at hk'
        simp
        intro e; exact absurd e.symm hk'
    unfold decodeSimple
    rw [hg, fold _ k1, fold _ k2, fold _ k3]
    simp only [Bool.false_eq_true, if_false]
    have hdq : decodeQuoted c.d ([q] ++ s ++ [q]) = some s := by
      unfold decodeQuoted
      rw [hk]
      simp only
      unfold decodeQuotedBase
      rw [hg]
      have hany : c.g.quotes.any (fun q' => startsWith ([q] ++ s ++ [q]) [q'] && endsWith ([q] ++ s ++ [q]) [q'] &&
          decide (([q] ++ s ++ [q]).length > 1)) = true := by
        rw [List.any_eq_true]
        refine ⟨q, hqm, ?_⟩
        have e1 : startsWith ([q] ++ s ++ [q]) [q] = true := by
          rw [show [q] ++ s ++ [q] = q :: (s ++ [q]) from by simp]; exact startsWith_cons_self q _
        have e2 : endsWith ([q] ++ s ++ [q]) [q] = true := endsWith_snoc_self _ q
        rw [e1, e2]
        simp
      rw [if_pos hany]
      simp
    rw [hdq]
  · cases h

end Pvl
