import PvlModel.Lemmas.Num
import PvlModel.Props.C17
/-!
# C01 — dump then strict load in the same dialect returns the original module

Theorems about the value level of the round trip, for every encoder configuration `c` (any of the four
encoder classes with any options) paired with its own decoder `c.d`:

* integers: what `encode_value` writes for an integer is `str(i)`, and the decoder reads it back as `i`;
* strings written bare: `C17_unquoted_roundtrip`;
* `None` and booleans: the keyword written is read back as the same constant.

The block / statement level (layout, wrapping, the lexer's tokenisation of the written text) is decided by
dumping generated modules with the real encoders, reading them back with the strict parser of the same
dialect and comparing with the original up to the documented normalisations, and by comparing the real
text with the encoder model's byte for byte (`vlib/props/c01.py`).
-/
namespace Pvl
open Py Enc

/-- **C01, integers round-trip** through every encoder and its own decoder -/
theorem C01_int_roundtrip (c : EncCfg) (hs : NumSafe c.d.g = true) (i : Int) :
    ∃ text, encodeValue c (.int i) = .ok text ∧ decodeSimple c.d text = .ok (.int i) := by
  refine ⟨intStr i, ?_, decodeSimple_intStr c.d hs i⟩
  simp [encodeValue, encodeSimple]

/-- **C01, bare strings round-trip** (restating C17's reader/writer agreement at the value level) -/
theorem C01_bare_string_roundtrip (c : EncCfg) (s : Str) (h : encodeValue c (.str s) = .ok s) :
    decodeSimple c.d s = .ok (.str s) := by
  apply C17_unquoted_roundtrip c s
  simpa [encodeValue, encodeSimple] using h

theorem foldEq_refl (a : Str) : foldEq a a = true := by simp [foldEq]

/-- **C01, `None`** is written as the grammar's null keyword and read back as `None` -/
theorem C01_none_roundtrip (c : EncCfg) (hg : c.d.g = c.g) :
    ∃ text, encodeValue c .none = .ok text ∧ decodeSimple c.d text = .ok .none := by
  refine ⟨c.g.noneKw, by simp [encodeValue, encodeSimple], ?_⟩
  simp [decodeSimple, hg, foldEq_refl]

/-- **C01, booleans**: the keyword written for a boolean reads back as that boolean, provided the table's
    three keywords are pairwise different up to case (true of the generated tables, `kw_distinct`) -/
theorem C01_bool_roundtrip (c : EncCfg) (hg : c.d.g = c.g) (b : Bool)
    (h1 : foldEq c.g.trueKw c.g.noneKw = false) (h2 : foldEq c.g.falseKw c.g.noneKw = false)
    (h3 : foldEq c.g.falseKw c.g.trueKw = false) :
    ∃ text, encodeValue c (.bool b) = .ok text ∧ decodeSimple c.d text = .ok (.bool b) := by
  cases b with
  | true =>
    refine ⟨c.g.trueKw, by simp [encodeValue, encodeSimple], ?_⟩
    simp [decodeSimple, hg, foldEq_refl, h1]
  | false =>
    refine ⟨c.g.falseKw, by simp [encodeValue, encodeSimple], ?_⟩
    simp [decodeSimple, hg, foldEq_refl, h2, h3]

theorem kw_distinct :
    ∀ g ∈ [Gen.pvl, Gen.odl, Gen.pds, Gen.isis, Gen.omni],
      foldEq g.trueKw g.noneKw = false ∧ foldEq g.falseKw g.noneKw = false ∧ foldEq g.falseKw g.trueKw = false := by
  decide

end Pvl
