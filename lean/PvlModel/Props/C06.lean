import PvlModel.Model.Parser

/-!
# C06 — loaders terminate and fail only with the documented error types

Work in progress: the generator-protocol lemmas the error-type bound rests on.
-/
namespace Pvl.P

/-- A finished generator answers `next` with `StopIteration` and stays finished. -/
theorem next_dead (s : PSt) (h : s.gen.dead = true) :
    (next.run.run s) = (.error .stop, s) := by
  simp [next, h, ExceptT.run, StateT.run, bind, ExceptT.bind, ExceptT.mk, ExceptT.bindCont, StateT.bind,
    get, getThe, MonadStateOf.get, StateT.get, liftM, monadLift, MonadLift.monadLift, ExceptT.lift,
    Functor.map, StateT.map, throw, throwThe, MonadExceptOf.throw, pure, ExceptT.pure, StateT.pure]

end Pvl.P
