import PvlModel.Lemmas.ParseSpec

/-!
# C06 — loaders terminate and fail only with the documented error types

`parseWith g d kind prior text` is the model of `parser.parse(text)` for any grammar table `g`, decoder
kind, parser class and text: the model lexer `lexAll` feeds the model of `parse_module`
(`P.moduleLoop`), every `next` / `send` / `throw` of the generator protocol included.

**C06_errors** (unbounded: every grammar, every text, every nesting depth): the only errors that can
leave the model's `parse` are `LexerError`, `ParseError` — and `fuel`, the model's marker for a parse
that does not finish within the fuel it was given.  In particular no `StopIteration`, no plain
`ValueError`, no `UnboundLocalError`, no bare `Exception` escapes, whatever the text.  The proof is a
Hoare-style verification of all twenty-odd parser functions (`Lemmas/ParserSpecs*.lean`), including the
facts the "try the next production" idiom relies on: a production that fails softly leaves a consistent
generator, `parse_value` never fails softly, and a `LexerError` is never swallowed.

**C06_terminates**: the `fuel` outcome cannot occur either.  A third Hoare pass (`Lemmas/ParserTerm*.lean`)
counts the tokens the lexer generator can still deliver: no function increases the count, every
production that succeeds and every "keep parsing" answer of the module post-hook decreases it, and a
function that gives up for lack of fuel had less than `3·(tokens left) + 5`; `parseWith` provides
`4·(tokens + 2) + 16`.  So the model's `parse()` terminates on every text with a module, a `LexerError`
or a `ParseError` (**C06_total**) — in particular no loop of the parser re-reads the same token for ever
(the defect behind the hang on `a=1=` that was repaired in /repo).  The real loader is tied to this by
the correspondence run, where it runs under a CPU-time guard.
-/
namespace Pvl
open P

/-- **C06, error types** -/
theorem C06_errors (g : Grammar) (d : Dec) (kind : ParserKind) (prior : List Int) (text : Str) (e : PErr)
    (h : (parseWith g d kind prior text).outcome = .error e) :
    e.isLexer = true ∨ (∃ t, e = .parse t) ∨ e = .fuel := by
  have := parse_spec g d kind prior text
  rw [h] at this
  rcases this with h1 | ⟨h2, _⟩ | h3
  · exact Or.inl h1
  · exact Or.inr (Or.inl h2)
  · exact Or.inr (Or.inr h3)

/-- **C06, termination**: the model's `parse()` never runs out of the fuel `parseWith` gives it -/
theorem C06_terminates (g : Grammar) (d : Dec) (kind : ParserKind) (prior : List Int) (text : Str) :
    (parseWith g d kind prior text).outcome ≠ .error .fuel := parse_terminates g d kind prior text

/-- **C06, whole statement over the model**: every `parse()` ends with a module, a `LexerError` or a
    `ParseError` -/
theorem C06_total (g : Grammar) (d : Dec) (kind : ParserKind) (prior : List Int) (text : Str) :
    (∃ m, (parseWith g d kind prior text).outcome = .ok m) ∨
    (∃ p, (parseWith g d kind prior text).outcome = .error (.lexer p)) ∨
    (∃ t, (parseWith g d kind prior text).outcome = .error (.parse t)) := by
  cases h : (parseWith g d kind prior text).outcome with
  | ok m => exact Or.inl ⟨m, rfl⟩
  | error e =>
    have h1 := C06_errors g d kind prior text e h
    have h2 := C06_terminates g d kind prior text
    rcases h1 with h1 | ⟨t, rfl⟩ | rfl
    · obtain ⟨p, rfl⟩ := (isLexer_iff e).mp h1
      exact Or.inr (Or.inl ⟨p, rfl⟩)
    · exact Or.inr (Or.inr ⟨t, rfl⟩)
    · exact absurd h h2

/-- the undocumented exception kinds, spelled out -/
theorem C06_no_leak (g : Grammar) (d : Dec) (kind : ParserKind) (prior : List Int) (text : Str) :
    (parseWith g d kind prior text).outcome ≠ .error .stop ∧
    (parseWith g d kind prior text).outcome ≠ .error .value ∧
    (parseWith g d kind prior text).outcome ≠ .error .unbound ∧
    (parseWith g d kind prior text).outcome ≠ .error .exc := by
  refine ⟨?_, ?_, ?_, ?_⟩ <;> intro h <;>
    have := C06_errors g d kind prior text _ h <;>
    simp [PErr.isLexer] at this

/-! Non-vacuity (that modules, `LexerError`s and `ParseError`s all occur as outcomes of the model) is
    shown by every correspondence run: the driver evaluates `parseWith` on ~95 000 texts per run and
    the outcome classes are recorded in the evidence file.  (Evaluating the whole parser inside the
    kernel with `decide` is not feasible.) -/

end Pvl
