import PvlModel.Lemmas.ParseSpec

/-!
# C06 — loaders terminate and fail only with the documented error types

`parseWith g d kind prior text` is the model of `parser.parse(text)` for any grammar table `g`, decoder
kind, parser class and text: the model lexer `lexAll` feeds the model of `parse_module`
(`P.moduleLoop`), every `next` / `send` / `throw` of the generator protocol included.

**C06_errors** (unbounded: every grammar, every text, every nesting depth): the only errors that can
leave the model's `parse` are `LexerError`, `ParseError` — and `fuel`, the model's marker for a parse
that does not finish within the fuel it was given.  In particular no `StopIteration`, no plain
`ValueError`, no `UnboundLocalError`, no bare `Exception` escapes, whatever the text.  The proof is a
Hoare-style verification of all twenty-odd parser functions (`Lemmas/ParserSpecs*.lean`), including the
facts the "try the next production" idiom relies on: a production that fails softly leaves a consistent
generator, `parse_value` never fails softly, and a `LexerError` is never swallowed.

Termination (that `fuel` itself cannot occur with `fuelFor`) is *not* proved yet: it is checked by the
correspondence run (the real loader under a 2 s guard vs the model's `HANG`) — see C06_total_partial.
-/
namespace Pvl
open P

/-- **C06, error types** -/
theorem C06_errors (g : Grammar) (d : Dec) (kind : ParserKind) (prior : List Int) (text : Str) (e : PErr)
    (h : (parseWith g d kind prior text).outcome = .error e) :
    e.isLexer = true ∨ (∃ t, e = .parse t) ∨ e = .fuel := by
  have := parse_spec g d kind prior text
  rw [h] at this
  rcases this with h1 | ⟨h2, _⟩ | h3
  · exact Or.inl h1
  · exact Or.inr (Or.inl h2)
  · exact Or.inr (Or.inr h3)

/-- the undocumented exception kinds, spelled out -/
theorem C06_no_leak (g : Grammar) (d : Dec) (kind : ParserKind) (prior : List Int) (text : Str) :
    (parseWith g d kind prior text).outcome ≠ .error .stop ∧
    (parseWith g d kind prior text).outcome ≠ .error .value ∧
    (parseWith g d kind prior text).outcome ≠ .error .unbound ∧
    (parseWith g d kind prior text).outcome ≠ .error .exc := by
  refine ⟨?_, ?_, ?_, ?_⟩ <;> intro h <;>
    have := C06_errors g d kind prior text _ h <;>
    simp [PErr.isLexer] at this

/-! Non-vacuity (that modules, `LexerError`s and `ParseError`s all occur as outcomes of the model) is
    shown by every correspondence run: the driver evaluates `parseWith` on ~95 000 texts per run and
    the outcome classes are recorded in the evidence file.  (Evaluating the whole parser inside the
    kernel with `decide` is not feasible.) -/

end Pvl
