import PvlModel.Props.C01
import PvlModel.Props.C14
/-!
# C07 — load, dump, load is stable: normalisation is idempotent

Value-level theorems: for the kinds of value whose written form is proved to read back unchanged (C01,
C14, C17) a second dump of the re-loaded value is byte-identical to the first, for every encoder
configuration.

The statement / block level (empty-value placeholders, leap-second strings, units on sequences,
mixed-case keywords, layout) is decided on the real code: every text the default loader accepts is
loaded, dumped with each encoder, loaded and dumped again (`vlib/props/c07.py`).
-/
namespace Pvl
open Py Enc

/-- **C07, integers**: dump → load → dump gives the same text -/
theorem C07_int_stable (c : EncCfg) (hs : NumSafe c.d.g = true) (i : Int) :
    ∃ text, encodeValue c (.int i) = .ok text ∧
      ∃ v, decodeSimple c.d text = .ok v ∧ encodeValue c v = .ok text := by
  obtain ⟨text, h1, h2⟩ := C01_int_roundtrip c hs i
  exact ⟨text, h1, .int i, h2, h1⟩

/-- **C07, finite reals**: the text written is the text read is the text written again — no digit is lost or
    added by a load/dump cycle -/
theorem C07_real_stable (c : EncCfg) (hs : RealSafe c.d.g = true) (ch : Nat) (r : Str) (hc : RealHead ch)
    (h35 : 35 ∉ ch :: r) (hf : floatOk (ch :: r) = true) (hi : int10 (ch :: r) = none) :
    ∃ text, encodeValue c (.real (ch :: r)) = .ok text ∧
      ∃ v, decodeSimple c.d text = .ok v ∧ encodeValue c v = .ok text := by
  obtain ⟨text, h1, h2⟩ := C01_real_roundtrip c hs ch r hc h35 hf hi
  exact ⟨text, h1, .real (ch :: r), h2, h1⟩

/-- **C07, dates** -/
theorem C07_date_stable (c : EncCfg) (hg : c.d.g.dateFormats.head? = some fmtYmd) (y m d : Nat)
    (h : ValidDate y m d) :
    ∃ text, encodeValue c (.date y m d) = .ok text ∧
      ∃ v, decodeDatetime c.d text = .ok v ∧ encodeValue c v = .ok text := by
  obtain ⟨text, h1, h2⟩ := C14_date_roundtrip c hg y m d h
  exact ⟨text, h1, .date y m d, h2, h1⟩

/-- **C07, bare strings** -/
theorem C07_bare_string_stable (c : EncCfg) (s : Str) (h : encodeValue c (.str s) = .ok s) :
    ∃ v, decodeSimple c.d s = .ok v ∧ encodeValue c v = .ok s :=
  ⟨.str s, C01_bare_string_roundtrip c s h, h⟩

end Pvl
