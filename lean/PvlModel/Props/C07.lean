import PvlModel.Props.C01
import PvlModel.Props.C14
/-!
# C07 — load, dump, load is stable: normalisation is idempotent

Value-level theorems: for the kinds of value whose written form is proved to read back unchanged (C01,
C14, C17) a second dump of the re-loaded value is byte-identical to the first, for every encoder
configuration.

The statement / block level (empty-value placeholders, leap-second strings, units on sequences,
mixed-case keywords, layout) is decided on the real code: every text the default loader accepts is
loaded, dumped with each encoder, loaded and dumped again (`vlib/props/c07.py`).
-/
namespace Pvl
open Py Enc

/-- **C07, integers**: dump → load → dump gives the same text -/
theorem C07_int_stable (c : EncCfg) (hs : NumSafe c.d.g = true) (i : Int) :
    ∃ text, encodeValue c (.int i) = .ok text ∧
      ∃ v, decodeSimple c.d text = .ok v ∧ encodeValue c v = .ok text := by
  obtain ⟨text, h1, h2⟩ := C01_int_roundtrip c hs i
  exact ⟨text, h1, .int i, h2, h1⟩

/-- **C07, finite reals**: the text written is the text read is the text written again — no digit is lost or
    added by a load/dump cycle -/
theorem C07_real_stable (c : EncCfg) (hs : RealSafe c.d.g = true) (ch : Nat) (r : Str) (hc : RealHead ch)
    (h35 : 35 ∉ ch :: r) (hf : floatOk (ch :: r) = true) (hi : int10 (ch :: r) = none) :
    ∃ text, encodeValue c (.real (ch :: r)) = .ok text ∧
      ∃ v, decodeSimple c.d text = .ok v ∧ encodeValue c v = .ok text := by
  obtain ⟨text, h1, h2⟩ := C01_real_roundtrip c hs ch r hc h35 hf hi
  exact ⟨text, h1, .real (ch :: r), h2, h1⟩

/-- **C07, dates** -/
theorem C07_date_stable (c : EncCfg) (hg : c.d.g.dateFormats.head? = some fmtYmd) (y m d : Nat)
    (h : ValidDate y m d) :
    ∃ text, encodeValue c (.date y m d) = .ok text ∧
      ∃ v, decodeDatetime c.d text = .ok v ∧ encodeValue c v = .ok text := by
  obtain ⟨text, h1, h2⟩ := C14_date_roundtrip c hg y m d h
  exact ⟨text, h1, .date y m d, h2, h1⟩

/-- **C07, bare strings** -/
theorem C07_bare_string_stable (c : EncCfg) (s : Str) (h : encodeValue c (.str s) = .ok s) :
    ∃ v, decodeSimple c.d s = .ok v ∧ encodeValue c v = .ok s :=
  ⟨.str s, C01_bare_string_roundtrip c s h, h⟩


theorem defaultTz_cases (g : Grammar) : defaultTz g = none ∨ defaultTz g = some 0 := by
  unfold defaultTz; split <;> simp

/-- **C07, times and date-times under the PVL / ISIS encoders**: dump → load → dump gives the same text (the
    value may have been normalised to the default zone on the way; the text does not change) -/
theorem C07_time_stable_pvl (c : EncCfg) (hk : c.kind = .pvl ∨ c.kind = .isis)
    (hg : TimeTablesOK c.d.g = true) (h mi s us : Nat) (hv : ValidTime h mi s us)
    (hp : c.d.kind = .pds → us % 1000 = 0) (tz : Option Int) (htz : tz = none ∨ tz = some 0) :
    ∃ text, encodeValue c (.time h mi s us tz) = .ok text ∧
      ∃ v, decodeDatetime c.d text = .ok v ∧ encodeValue c v = .ok text := by
  obtain ⟨text, h1, h2⟩ := C14_time_roundtrip_pvl c hk hg h mi s us hv hp tz htz
  refine ⟨text, h1, _, h2, ?_⟩
  have ht : text = encodeTimeBase h mi s us := by
    rcases hk with hk | hk <;> rcases htz with rfl | rfl <;>
      simp [encodeValue, encodeSimple, encodeTime, hk] at h1 <;> exact h1.symm
  rw [ht]
  rcases hk with hk | hk <;> rcases defaultTz_cases c.d.g with e | e <;>
    simp [encodeValue, encodeSimple, encodeTime, hk, e]

theorem C07_datetime_stable_pvl (c : EncCfg) (hk : c.kind = .pvl ∨ c.kind = .isis)
    (hg : DtTablesOK c.d.g = true) (y m d h mi s us : Nat) (hd : ValidDate y m d) (hv : ValidTime h mi s us)
    (hp : c.d.kind = .pds → us % 1000 = 0) (tz : Option Int) (htz : tz = none ∨ tz = some 0) :
    ∃ text, encodeValue c (.datetime y m d h mi s us tz) = .ok text ∧
      ∃ v, decodeDatetime c.d text = .ok v ∧ encodeValue c v = .ok text := by
  obtain ⟨text, h1, h2⟩ := C14_datetime_roundtrip_pvl c hk hg y m d h mi s us hd hv hp tz htz
  refine ⟨text, h1, _, h2, ?_⟩
  have ht : encodeValue c (.datetime y m d h mi s us (defaultTz c.d.g)) = encodeValue c (.datetime y m d h mi s us tz) := by
    rcases hk with hk | hk <;> rcases htz with rfl | rfl <;> rcases defaultTz_cases c.d.g with e | e <;>
      simp [encodeValue, encodeSimple, encodeTime, hk, e]
  rw [ht, h1]

/-- **C07, ODL**: UTC and offset times / date-times are reproduced exactly (the value read back is the value
    written, C14) -/
theorem C07_time_stable_odl (c : EncCfg) (hk : c.kind = .odl) (hdk : c.d.kind = .odl)
    (hg : OdlTablesOK c.d.g = true) (h mi s us : Nat) (hv : ValidTime h mi s us) (off : Int) (h0 : off ≠ 0)
    (h60 : off.natAbs % 60 = 0) (h12 : off.natAbs / 3600 ≤ 12) :
    ∃ text, encodeValue c (.time h mi s us (some off)) = .ok text ∧
      ∃ v, decodeDatetime c.d text = .ok v ∧ encodeValue c v = .ok text := by
  obtain ⟨text, h1, h2⟩ := C14_time_roundtrip_odl_offset c hk hdk hg h mi s us hv off h0 h60 h12
  exact ⟨text, h1, _, h2, h1⟩

theorem C07_datetime_stable_odl (c : EncCfg) (hk : c.kind = .odl) (hdk : c.d.kind = .odl)
    (hg : OdlDtTablesOK c.d.g = true) (y m d h mi s us : Nat) (hd : ValidDate y m d) (hv : ValidTime h mi s us)
    (off : Int) (h0 : off ≠ 0) (h60 : off.natAbs % 60 = 0) (h12 : off.natAbs / 3600 ≤ 12) :
    ∃ text, encodeValue c (.datetime y m d h mi s us (some off)) = .ok text ∧
      ∃ v, decodeDatetime c.d text = .ok v ∧ encodeValue c v = .ok text := by
  obtain ⟨text, h1, h2⟩ := C14_datetime_roundtrip_odl_offset c hk hdk hg y m d h mi s us hd hv off h0 h60 h12
  exact ⟨text, h1, _, h2, h1⟩

theorem C07_datetime_stable_odl_utc (c : EncCfg) (hk : c.kind = .odl) (hg : DtTablesOK c.d.g = true)
    (y m d h mi s us : Nat) (hd : ValidDate y m d) (hv : ValidTime h mi s us)
    (hp : c.d.kind = .pds → us % 1000 = 0) :
    ∃ text, encodeValue c (.datetime y m d h mi s us (some 0)) = .ok text ∧
      ∃ v, decodeDatetime c.d text = .ok v ∧ encodeValue c v = .ok text := by
  obtain ⟨text, h1, h2⟩ := C14_datetime_roundtrip_odl_utc c hk hg y m d h mi s us hd hv hp
  exact ⟨text, h1, _, h2, h1⟩

/-- **C07, PDS3**: a naive or UTC time of whole milliseconds is written, read back as UTC, and written again
    as the same text -/
theorem C07_time_stable_pds (c : EncCfg) (hk : c.kind = .pds) (hdk : c.d.kind = .pds)
    (hg : TimeTablesOK6 c.d.g = true) (hutc : c.d.g.defaultUtc = true) (h mi s us : Nat)
    (hv : ValidTime h mi s us) (hp : us % 1000 = 0) (tz : Option Int) (htz : tz = none ∨ tz = some 0) :
    ∃ text, encodeValue c (.time h mi s us tz) = .ok text ∧
      ∃ v, decodeDatetime c.d text = .ok v ∧ encodeValue c v = .ok text := by
  obtain ⟨text, h1, h2⟩ := C14_time_roundtrip_pds c hk hdk hg hutc h mi s us hv hp tz htz
  refine ⟨text, h1, _, h2, ?_⟩
  have e1 := encodeTime_pds c hk h mi s us hp tz htz
  have e2 := encodeTime_pds c hk h mi s us hp (some 0) (Or.inr rfl)
  simp only [encodeValue, encodeSimple] at h1 ⊢
  rw [e2, ← e1, h1]

theorem C07_datetime_stable_pds (c : EncCfg) (hk : c.kind = .pds) (hdk : c.d.kind = .pds)
    (hg : DtTablesOK c.d.g = true) (hutc : c.d.g.defaultUtc = true) (y m d h mi s us : Nat)
    (hd : ValidDate y m d) (hv : ValidTime h mi s us) (hp : us % 1000 = 0) (tz : Option Int)
    (htz : tz = none ∨ tz = some 0) :
    ∃ text, encodeValue c (.datetime y m d h mi s us tz) = .ok text ∧
      ∃ v, decodeDatetime c.d text = .ok v ∧ encodeValue c v = .ok text := by
  obtain ⟨text, h1, h2⟩ := C14_datetime_roundtrip_pds c hk hdk hg hutc y m d h mi s us hd hv hp tz htz
  refine ⟨text, h1, _, h2, ?_⟩
  have e1 := encodeTime_pds c hk h mi s us hp tz htz
  have e2 := encodeTime_pds c hk h mi s us hp (some 0) (Or.inr rfl)
  simp only [encodeValue, encodeSimple] at h1 ⊢
  rw [e2, ← e1]
  exact h1


end Pvl
