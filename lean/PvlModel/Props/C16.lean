import PvlModel.Model.Encoder
import PvlModel.Model.Parser
/-!
# C16 — parser, decoder and encoder instances carry no state between calls

In the model a parser instance's only state that outlives a call is `errors` (and `doc`, which
`parse` overwrites first).  `parseWith … prior text` is one `parse()` call on an instance whose
`errors` list is `prior` when the call starts.  Decoder and encoder models have no instance state
at all — that is the modelling assumption the correspondence check (one real instance fed a whole
history vs fresh instances) is there to test.
-/
namespace Pvl

/-- one call: result, `errors` afterwards -/
def call (g : Grammar) (d : Dec) (k : ParserKind) (prior : List Int) (text : Str) : ParseResult :=
  parseWith g d k prior text

/-- **C16, one step**: the outcome of a call does not depend on what the instance held before. -/
theorem C16_parser_step (g : Grammar) (d : Dec) (k : ParserKind) (prior : List Int) (text : Str) :
    call g d k prior text = call g d k [] text := rfl

/-- run a whole history of texts through one instance; the outcome of each call -/
def history (g : Grammar) (d : Dec) (k : ParserKind) : List Int → List Str → List ParseResult
  | _, [] => []
  | prior, t :: r =>
    let res := call g d k prior t
    res :: history g d k res.errors r

/-- **C16, histories**: for every sequence of texts (successful or failing, any length), each call
    on the shared instance gives exactly what a fresh instance gives for that text alone. -/
theorem C16_parser_history (g : Grammar) (d : Dec) (k : ParserKind) (prior : List Int) (texts : List Str) :
    history g d k prior texts = texts.map (fun t => call g d k [] t) := by
  induction texts generalizing prior with
  | nil => rfl
  | cons t r ih =>
    simp only [history, List.map_cons]
    rw [ih, C16_parser_step]

end Pvl
