import PvlModel.Model.Cli
/-!
# C20 — command-line tools are faithful front-ends

`Model/Cli.lean` models what the tools add to the library: `pvl_validate`'s mapping from the outcome of
`pvl.loads` / `pvl.dumps` to a verdict (`flavor`) and its report layout (`report`, `build_line`).  The
library calls are parameters.  The check renders, with this model, the verdicts the *library* gives for
each generated file and requires the text the real tool prints to be identical to the letter, for single
files and for several files per invocation; `pvl_translate`'s output is compared with `pvl.dumps` by the
encoder its format names.

Theorems: the verdict says "Loads" only for texts the library loads, "Encodes" exactly when the dump
succeeded, "does NOT encode" exactly when it was refused with one of the four documented exception types;
and the printed line determines the verdict (no two verdicts print alike), so nothing is lost between the
library's answer and the terminal.
-/
namespace Pvl.Cli

/-- **C20, verdicts are the library's**: what each cell of the report can mean -/
theorem C20_flavor_faithful (l : LoadOutcome) (d : DumpOutcome) :
    ((flavor l d).1 = true → l = .ok) ∧
    ((flavor l d).2 = some true ↔ (l = .ok ∧ d = .ok)) ∧
    ((flavor l d).2 = some false ↔ (l = .ok ∧ d = .refused)) ∧
    ((flavor l d).2 = none ↔ (flavor l d).1 = false) := by
  cases l <;> cases d <;> simp [flavor]

/-- the one case in which the report understates the library: the text loads, and `dumps` raises something
    other than `LexerError`, `ParseError`, `ValueError`, `TypeError`; the exception reaches the outer bare
    `except:` and the row reads "does NOT load".  (No encoder raises such an exception on any generated
    module — the correspondence would show it as a row that differs from the library's verdict.) -/
theorem C20_flavor_understates : flavor .ok .other = (false, none) := rfl

theorem words_injective :
    (∀ a b, loadsWord a = loadsWord b → a = b) ∧ (∀ a b, encodesWord a = encodesWord b → a = b) ∧
    (∀ a b, loadsShort a = loadsShort b → a = b) ∧ (∀ a b, encodesShort a = encodesShort b → a = b) := by
  refine ⟨by decide, ?_, by decide, ?_⟩
  · intro a b; rcases a with _ | _ | _ <;> rcases b with _ | _ | _ <;> decide
  · intro a b; rcases a with _ | _ | _ <;> rcases b with _ | _ | _ <;> decide

/-- the cells of one report line, after the dialect name -/
def cells (v : Verdict) : S :=
  sepBar ++ center (loadsWord v.1) 13 ++ sepBar ++ center (encodesWord v.2) 15

theorem lineOne_eq (flavors : List S) (name : S) (v : Verdict) :
    lineOne flavors name v = ljust name (maxLen flavors) ++ cells v := by
  have h2 : maxLen [loadsWord true, loadsWord false] = 13 := by decide
  have h3 : maxLen [encodesWord (some true), encodesWord (some false), encodesWord none] = 15 := by decide
  simp [lineOne, buildLine, joinWith, h2, h3, cells, List.append_assoc]

/-- **C20, the printed line determines the verdict** -/
theorem C20_line_injective (flavors : List S) (name : S) (v v' : Verdict)
    (h : lineOne flavors name v = lineOne flavors name v') : v = v' := by
  rw [lineOne_eq, lineOne_eq] at h
  have hc := List.append_cancel_left h
  revert hc
  obtain ⟨a, b⟩ := v
  obtain ⟨a', b'⟩ := v'
  cases a <;> cases a' <;> rcases b with _ | _ | _ <;> rcases b' with _ | _ | _ <;> decide

/-- blanks at both ends removed -/
def strip (s : S) : S := ((s.dropWhile (· == ' ')).reverse.dropWhile (· == ' ')).reverse

/-- centring only adds blanks: the cell content is what was put in -/
theorem C20_center_strip (v : Verdict) :
    strip (center (loadsWord v.1) 13) = loadsWord v.1 ∧ strip (center (encodesWord v.2) 15) = encodesWord v.2 := by
  obtain ⟨a, b⟩ := v
  cases a <;> rcases b with _ | _ | _ <;> decide

/-- each output format of `pvl_translate` selects the writer of that name -/
theorem C20_writer_table :
    writerOf "PDS3" = some .pds3 ∧ writerOf "ODL" = some .odl ∧ writerOf "ISIS" = some .isis ∧
    writerOf "PVL" = some .pvl ∧ writerOf "JSON" = some .json ∧ writerOf "pds3" = none := by decide

end Pvl.Cli
