import PvlModel.Model.Spec
/-!
# C20
(theorems are added below as they are proved; see DESIGN §5)
-/
namespace Pvl
end Pvl
