import PvlModel.Lemmas.DateTime
/-!
# C14 — date and time values keep their type, instant and time-zone meaning

Proved here (unbounded): **every calendar date round-trips** — for every encoder configuration and every
date `datetime.date` admits (years 1–9999, real month lengths, leap years), the text the encoder writes,
`%04d-%02d-%02d`, is read by each of the decoders as that same date and nothing else.  The proof goes
through the model of CPython's `_strptime` (format → regular expression with alternatives in the written
order → back-tracking match → calendar fields): `strptime_ymd` in `Lemmas/DateTime.lean`.

The only fact about the grammar tables that is used is that `"%Y-%m-%d"` is the first date format; it is
evaluated on the five tables regenerated from /repo.

Times and date-times (fractional seconds, trailing `Z`, zone offsets, leap seconds, the PDS3
restrictions) are decided by the generator's independent reading of each spelling against the real
decoders and the model (`vlib/props/c14.py`); their theorems are open.
-/
namespace Pvl
open Py Enc

/-- the date formats of every generated table begin with `%Y-%m-%d` -/
theorem dateFormats_head :
    ∀ g ∈ [Gen.pvl, Gen.odl, Gen.pds, Gen.isis, Gen.omni], g.dateFormats.head? = some fmtYmd := by decide

theorem decodeDatetimeBase_date (g : Grammar) (hg : g.dateFormats.head? = some fmtYmd) (y m d : Nat)
    (h : ValidDate y m d) : decodeDatetimeBase g (encodeDate y m d) = some (.date y m d) := by
  unfold decodeDatetimeBase
  cases hf : g.dateFormats with
  | nil => simp [hf] at hg
  | cons f r =>
    simp [hf] at hg
    subst hg
    simp [firstSome, strptime_ymd y m d h]

/-- **C14, dates read back**: each decoder class reads `%04d-%02d-%02d` as that date -/
theorem C14_date_decodes (dc : Dec) (hg : dc.g.dateFormats.head? = some fmtYmd) (y m d : Nat)
    (h : ValidDate y m d) : decodeDatetime dc (encodeDate y m d) = .ok (.date y m d) := by
  have hb := decodeDatetimeBase_date dc.g hg y m d h
  unfold decodeDatetime
  cases dc.kind <;> simp [hb, decodeDatetimeOdl]

/-- **C14, dates round-trip**: what any encoder writes for a date, its own decoder reads as that date -/
theorem C14_date_roundtrip (c : EncCfg) (hg : c.d.g.dateFormats.head? = some fmtYmd) (y m d : Nat)
    (h : ValidDate y m d) :
    ∃ text, encodeValue c (.date y m d) = .ok text ∧ decodeDatetime c.d text = .ok (.date y m d) := by
  refine ⟨encodeDate y m d, by simp [encodeValue, encodeSimple], C14_date_decodes c.d hg y m d h⟩

/-- leap day: 29 February exists exactly in leap years (non-vacuity of `ValidDate` at its edge) -/
example : ValidDate 2000 2 29 ∧ ¬ ValidDate 1900 2 29 ∧ ValidDate 1 1 1 ∧ ValidDate 9999 12 31 := by
  simp [ValidDate, daysInMonth, isLeap]

end Pvl
