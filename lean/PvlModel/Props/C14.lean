import PvlModel.Lemmas.DateTime
import PvlModel.Lemmas.OdlZone
import PvlModel.Lemmas.PdsTime
import PvlModel.Lemmas.Doy
import PvlModel.Lemmas.Frac
import PvlModel.Lemmas.DoyDT
import PvlModel.Lemmas.Leap
import PvlModel.Lemmas.Zspell
import PvlModel.Lemmas.DoyFrac
import PvlModel.Gen.Tables
/-!
# C14 — date and time values keep their type, instant and time-zone meaning

Proved here (unbounded): **every calendar date round-trips** — for every encoder configuration and every
date `datetime.date` admits (years 1–9999, real month lengths, leap years), the text the encoder writes,
`%04d-%02d-%02d`, is read by each of the decoders as that same date and nothing else.  The proof goes
through the model of CPython's `_strptime` (format → regular expression with alternatives in the written
order → back-tracking match → calendar fields): `strptime_ymd` in `Lemmas/DateTime.lean`.

The only fact about the grammar tables that is used is that `"%Y-%m-%d"` is the first date format; it is
evaluated on the five tables regenerated from /repo.

**Every clock time round-trips through the PVL / ISIS encoders** (`C14_time_decodes`,
`C14_time_roundtrip_pvl`): `HH:MM`, `HH:MM:SS` or `HH:MM:SS.ffffff` — whichever `encode_time` chooses for
the value — is read back with exactly the written hour, minute, second and microsecond, and with the
dialect's default zone (UTC where the grammar says so, naive otherwise): the date formats all fail on
it, the time formats are tried in the table's order, `%H:%M` and `%H:%M:%S` leave unconverted data on the
longer spellings and the right one matches.  `TimeTablesOK` is the fact about the tables this uses.

**`Z` means UTC** (`C14_timeZ_decodes`, `C14_time_roundtrip_odl_utc`): the same three spellings with a
trailing `Z` are read as that time in UTC — this needs the *failure* of five formats to be proved, through
all the back-tracking alternatives of `%H`, `%M`, `%S`.

**Date-times** (`C14_datetime_decodes`, `C14_datetime_roundtrip_pvl`): `YYYY-MM-DDTHH:MM[:SS[.ffffff]]`.

`C14_datetimeZ_decodes`, `C14_datetime_roundtrip_odl_utc`: the same with a trailing `Z` (UTC).

**ODL zone offsets** (`C14_time_offset_decodes`, `C14_time_roundtrip_odl_offset`,
`C14_datetime_offset_decodes`, `C14_datetime_roundtrip_odl_offset`; `Lemmas/OdlZone.lean`): a time or a
calendar date-time followed by `+HH`, `-HH`, `+HH:MM`, `-HH:MM` — every offset of whole minutes up to ±12:59,
which is what `ODLEncoder.encode_time` writes — is read by the ODL decoder at exactly that offset.  This needs
all of: every date, time and date-time format fails on the whole text (the six day-of-year formats too), the
lazy scan for the sign passes the two hyphens of a date, the zone designator is read in the regular
expression's alternative order, and the rest is the time / date-time proved above.

**The PDS3 spelling** (`C14_time_roundtrip_pds`, `C14_datetime_roundtrip_pds`; `Lemmas/PdsTime.lean`):
`HH:MM[:SS[.mmm]][Z]` with three fraction digits, both settings of `time_trailing_z`, naive or UTC values of
whole milliseconds.

**Day-of-year dates** (`C14_doy_date_decodes`): `YYYY-DDD` is the calendar date whose ordinal day is `DDD`
(`monthDayOf_spec`).  **Fractions of any length** (`C14_time_fraction_decodes`): one to six digits, scaled to
microseconds.

**Day-of-year date-times** (`C14_doy_datetime_decodes`; `Lemmas/DoyDT.lean`) and **leap seconds**
(`C14_leap_second_time`: `HH:MM:60` is a string where the dialect admits it, refused elsewhere;
`Lemmas/Leap.lean`).

Leap seconds with a date or a fraction, `+HHMM` and the other refusal branches are decided by the generator's independent reading of
each spelling against the real decoders and the model (`vlib/props/c14.py`); their theorems are open.
-/
namespace Pvl
open Py Enc

/-- the date formats of every generated table begin with `%Y-%m-%d` -/
theorem dateFormats_head :
    ∀ g ∈ [Gen.pvl, Gen.odl, Gen.pds, Gen.isis, Gen.omni], g.dateFormats.head? = some fmtYmd := by decide

theorem decodeDatetimeBase_date (g : Grammar) (hg : g.dateFormats.head? = some fmtYmd) (y m d : Nat)
    (h : ValidDate y m d) : decodeDatetimeBase g (encodeDate y m d) = some (.date y m d) := by
  unfold decodeDatetimeBase
  cases hf : g.dateFormats with
  | nil => simp [hf] at hg
  | cons f r =>
    simp [hf] at hg
    subst hg
    simp [firstSome, strptime_ymd y m d h]

/-- **C14, dates read back**: each decoder class reads `%04d-%02d-%02d` as that date -/
theorem C14_date_decodes (dc : Dec) (hg : dc.g.dateFormats.head? = some fmtYmd) (y m d : Nat)
    (h : ValidDate y m d) : decodeDatetime dc (encodeDate y m d) = .ok (.date y m d) := by
  have hb := decodeDatetimeBase_date dc.g hg y m d h
  unfold decodeDatetime
  cases dc.kind <;> simp [hb, decodeDatetimeOdl]

/-- **C14, dates round-trip**: what any encoder writes for a date, its own decoder reads as that date -/
theorem C14_date_roundtrip (c : EncCfg) (hg : c.d.g.dateFormats.head? = some fmtYmd) (y m d : Nat)
    (h : ValidDate y m d) :
    ∃ text, encodeValue c (.date y m d) = .ok text ∧ decodeDatetime c.d text = .ok (.date y m d) := by
  refine ⟨encodeDate y m d, by simp [encodeValue, encodeSimple], C14_date_decodes c.d hg y m d h⟩

/-- the format tables of the five generated grammars have the shape the time theorems use -/
theorem timeTables_ok : ∀ g ∈ [Gen.pvl, Gen.odl, Gen.pds, Gen.isis, Gen.omni], TimeTablesOK g = true := by
  decide

/-- **C14, times read back**: the spelling `encode_time` chooses is decoded to the same clock fields,
    with the dialect's default zone; by each decoder class (the PDS3 decoder: milliseconds only) -/
theorem C14_time_decodes (dc : Dec) (hg : TimeTablesOK dc.g = true) (h mi s us : Nat)
    (hv : ValidTime h mi s us) (hp : dc.kind = .pds → us % 1000 = 0) :
    decodeDatetime dc (encodeTimeBase h mi s us) = .ok (.time h mi s us (defaultTz dc.g)) := by
  have hb := decodeDatetimeBase_time dc.g hg h mi s us hv
  unfold decodeDatetime
  cases hk : dc.kind
  · simp [hb]
  · simp [hb, decodeDatetimeOdl]
  · have := hp hk
    simp [hb, this]
  · simp [hb, decodeDatetimeOdl]

/-- **C14, times round-trip through the PVL and ISIS encoders** (which write no zone designator and refuse
    any zone but UTC): the text reads back, with the encoder's own decoder, as the same clock time in the
    dialect's default zone -/
theorem C14_time_roundtrip_pvl (c : EncCfg) (hk : c.kind = .pvl ∨ c.kind = .isis)
    (hg : TimeTablesOK c.d.g = true) (h mi s us : Nat) (hv : ValidTime h mi s us)
    (hp : c.d.kind = .pds → us % 1000 = 0) (tz : Option Int) (htz : tz = none ∨ tz = some 0) :
    ∃ text, encodeValue c (.time h mi s us tz) = .ok text ∧
      decodeDatetime c.d text = .ok (.time h mi s us (defaultTz c.d.g)) := by
  refine ⟨encodeTimeBase h mi s us, ?_, C14_time_decodes c.d hg h mi s us hv hp⟩
  rcases hk with hk | hk <;> rcases htz with rfl | rfl <;> simp [encodeValue, encodeSimple, encodeTime, hk]

theorem timeTables6_ok : ∀ g ∈ [Gen.pvl, Gen.odl, Gen.pds, Gen.isis, Gen.omni], TimeTablesOK6 g = true := by
  decide

/-- **C14, `Z` means UTC**: `HH:MM[:SS[.ffffff]]Z` is decoded to the written clock fields in UTC by each
    decoder class — the three formats without `Z` either leave the `Z` unconverted or fail at it, the
    `Z` formats that are too short fail at the next field, and the right one matches -/
theorem C14_timeZ_decodes (dc : Dec) (hg : TimeTablesOK6 dc.g = true) (h mi s us : Nat)
    (hv : ValidTime h mi s us) (hp : dc.kind = .pds → us % 1000 = 0) :
    decodeDatetime dc (encodeTimeBase h mi s us ++ [90]) = .ok (.time h mi s us (some 0)) := by
  have hb := decodeDatetimeBase_timeZ dc.g hg h mi s us hv
  unfold decodeDatetime
  cases hk : dc.kind
  · simp [hb]
  · simp [hb, decodeDatetimeOdl]
  · have := hp hk
    simp [hb, this]
  · simp [hb, decodeDatetimeOdl]

/-- **C14, UTC times round-trip through the ODL encoder** (which writes the trailing `Z`) -/
theorem C14_time_roundtrip_odl_utc (c : EncCfg) (hk : c.kind = .odl) (hg : TimeTablesOK6 c.d.g = true)
    (h mi s us : Nat) (hv : ValidTime h mi s us) (hp : c.d.kind = .pds → us % 1000 = 0) :
    ∃ text, encodeValue c (.time h mi s us (some 0)) = .ok text ∧
      decodeDatetime c.d text = .ok (.time h mi s us (some 0)) := by
  refine ⟨encodeTimeBase h mi s us ++ [90], ?_, C14_timeZ_decodes c.d hg h mi s us hv hp⟩
  simp [encodeValue, encodeSimple, encodeTime, hk]

theorem dtTables_ok : ∀ g ∈ [Gen.pvl, Gen.odl, Gen.pds, Gen.isis, Gen.omni], DtTablesOK g = true := by
  decide

/-- **C14, date-times read back**: `YYYY-MM-DDTHH:MM[:SS[.ffffff]]` is decoded to exactly the written
    date and clock fields, in the dialect's default zone, by each decoder class.  The four date formats
    stop short of the end of the text, the six time formats fail at the third digit of the year, and the
    date-time formats are tried in the table's order: those that are too short leave text unconverted,
    those with a `Z` fail at the character where they want it — through every way of splitting the month,
    day, hour, minute and second digits — and the right one matches. -/
theorem C14_datetime_decodes (dc : Dec) (hg : DtTablesOK dc.g = true) (y m d h mi s us : Nat)
    (hd : ValidDate y m d) (hv : ValidTime h mi s us) (hp : dc.kind = .pds → us % 1000 = 0) :
    decodeDatetime dc (dateT y m d (encodeTimeBase h mi s us)) =
      .ok (.datetime y m d h mi s us (defaultTz dc.g)) := by
  have hb := decodeDatetimeBase_datetime dc.g hg y m d h mi s us hd hv
  unfold decodeDatetime
  cases hk : dc.kind
  · simp [hb]
  · simp [hb, decodeDatetimeOdl]
  · have := hp hk
    simp [hb, this]
  · simp [hb, decodeDatetimeOdl]

/-- **C14, date-times round-trip through the PVL and ISIS encoders** -/
theorem C14_datetime_roundtrip_pvl (c : EncCfg) (hk : c.kind = .pvl ∨ c.kind = .isis)
    (hg : DtTablesOK c.d.g = true) (y m d h mi s us : Nat) (hd : ValidDate y m d) (hv : ValidTime h mi s us)
    (hp : c.d.kind = .pds → us % 1000 = 0) (tz : Option Int) (htz : tz = none ∨ tz = some 0) :
    ∃ text, encodeValue c (.datetime y m d h mi s us tz) = .ok text ∧
      decodeDatetime c.d text = .ok (.datetime y m d h mi s us (defaultTz c.d.g)) := by
  refine ⟨dateT y m d (encodeTimeBase h mi s us), ?_, C14_datetime_decodes c.d hg y m d h mi s us hd hv hp⟩
  rcases hk with hk | hk <;> rcases htz with rfl | rfl <;>
    simp [encodeValue, encodeSimple, encodeTime, hk, encodeDate, dateT]

/-- **C14, date-times with `Z`** are decoded to the written fields in UTC by each decoder class -/
theorem C14_datetimeZ_decodes (dc : Dec) (hg : DtTablesOK dc.g = true) (y m d h mi s us : Nat)
    (hd : ValidDate y m d) (hv : ValidTime h mi s us) (hp : dc.kind = .pds → us % 1000 = 0) :
    decodeDatetime dc (dateT y m d (encodeTimeBase h mi s us ++ [90])) =
      .ok (.datetime y m d h mi s us (some 0)) := by
  have hb := decodeDatetimeBase_datetimeZ dc.g hg y m d h mi s us hd hv
  unfold decodeDatetime
  cases hk : dc.kind
  · simp [hb]
  · simp [hb, decodeDatetimeOdl]
  · have := hp hk
    simp [hb, this]
  · simp [hb, decodeDatetimeOdl]

/-- **C14, UTC date-times round-trip through the ODL encoder** -/
theorem C14_datetime_roundtrip_odl_utc (c : EncCfg) (hk : c.kind = .odl) (hg : DtTablesOK c.d.g = true)
    (y m d h mi s us : Nat) (hd : ValidDate y m d) (hv : ValidTime h mi s us)
    (hp : c.d.kind = .pds → us % 1000 = 0) :
    ∃ text, encodeValue c (.datetime y m d h mi s us (some 0)) = .ok text ∧
      decodeDatetime c.d text = .ok (.datetime y m d h mi s us (some 0)) := by
  refine ⟨dateT y m d (encodeTimeBase h mi s us ++ [90]), ?_,
    C14_datetimeZ_decodes c.d hg y m d h mi s us hd hv hp⟩
  simp [encodeValue, encodeSimple, encodeTime, hk, encodeDate, dateT]


/-- the ODL and PDS3 tables have the shape the zone theorems use (the PVL-family tables carry the
    leap-second patterns and are not covered) -/
theorem odlTables_ok : ∀ g ∈ [Gen.odl, Gen.pds], OdlTablesOK g = true := by
  decide

/-- **C14, ODL zone offsets are read as written**: `HH:MM[:SS[.ffffff]]` followed by `+HH`, `-HH`, `+HH:MM`
    or `-HH:MM` is decoded by the ODL decoder to the written clock fields at exactly that offset: the text
    as a whole matches none of the date, time and date-time formats (each of the six time formats is
    followed through every back-tracking alternative up to the sign), the zone is split off at the first
    sign, and the rest is the time proved above. -/
theorem C14_time_offset_decodes (dc : Dec) (hk : dc.kind = .odl) (hg : OdlTablesOK dc.g = true)
    (h mi s us : Nat) (hv : ValidTime h mi s us) (neg : Bool) (hh mm : Nat) (hh12 : hh ≤ 12) (hmm : mm < 60) :
    decodeDatetime dc (encodeTimeBase h mi s us ++ (if neg then 45 else 43) :: zoneText hh mm) =
      .ok (.time h mi s us (some (((hh : Int) * 3600 + (mm : Int) * 60) * (if neg then -1 else 1)))) := by
  unfold decodeDatetime
  simp only [hk]
  exact decodeDatetimeOdl_zoned dc.g hg h mi s us hv neg hh mm hh12 hmm

/-- **C14, times with a zone offset round-trip through the ODL encoder and decoder**: for every clock time
    and every offset of whole minutes up to ±12:59 (what `ODLEncoder.encode_time` accepts), the text written
    is read back as the same time at the same offset. -/
theorem C14_time_roundtrip_odl_offset (c : EncCfg) (hk : c.kind = .odl) (hdk : c.d.kind = .odl)
    (hg : OdlTablesOK c.d.g = true) (h mi s us : Nat) (hv : ValidTime h mi s us) (off : Int) (h0 : off ≠ 0)
    (h60 : off.natAbs % 60 = 0) (h12 : off.natAbs / 3600 ≤ 12) :
    ∃ text, encodeValue c (.time h mi s us (some off)) = .ok text ∧
      decodeDatetime c.d text = .ok (.time h mi s us (some off)) := by
  have hmm : off.natAbs % 3600 / 60 < 60 := by omega
  have hdec := C14_time_offset_decodes c.d hdk hg h mi s us hv (decide (off < 0)) (off.natAbs / 3600)
    (off.natAbs % 3600 / 60) h12 hmm
  refine ⟨encodeTimeBase h mi s us ++ (if decide (off < 0) then 45 else 43) ::
    zoneText (off.natAbs / 3600) (off.natAbs % 3600 / 60), ?_, ?_⟩
  · have e1 : (off != 0) = true := by simp [h0]
    have e2 : (off == 0) = false := by simp [h0]
    have e3 : ¬ (off.natAbs / 3600 > 12) := by omega
    simp [encodeValue, encodeSimple, encodeTime, hk, e2, h60, e3, zoneText]
  · rw [hdec]
    congr 3
    by_cases hn : off < 0
    · simp only [hn, decide_true, if_true]; omega
    · simp only [hn, decide_false]; simp; omega


theorem odlDtTables_ok : ∀ g ∈ [Gen.odl, Gen.pds], OdlDtTablesOK g = true := by
  decide

/-- **C14, ODL date-times with a zone offset are read as written**: none of the four date, six time and
    twelve date-time formats (six calendar ones followed through every back-tracking alternative, six
    day-of-year ones failing at the month) converts the whole text; the scan for the zone passes the two
    hyphens of the date (what follows them is too long to be a zone) and splits at the sign. -/
theorem C14_datetime_offset_decodes (dc : Dec) (hk : dc.kind = .odl) (hg : OdlDtTablesOK dc.g = true)
    (y m d h mi s us : Nat) (hd : ValidDate y m d) (hv : ValidTime h mi s us) (neg : Bool) (hh mm : Nat)
    (hh12 : hh ≤ 12) (hmm : mm < 60) :
    decodeDatetime dc (dateT y m d (encodeTimeBase h mi s us ++ (if neg then 45 else 43) :: zoneText hh mm)) =
      .ok (.datetime y m d h mi s us (some (((hh : Int) * 3600 + (mm : Int) * 60) * (if neg then -1 else 1)))) := by
  unfold decodeDatetime
  simp only [hk]
  exact decodeDatetimeOdl_dt_zoned dc.g hg y m d h mi s us hd hv neg hh mm hh12 hmm

/-- **C14, date-times with a zone offset round-trip through the ODL encoder and decoder** -/
theorem C14_datetime_roundtrip_odl_offset (c : EncCfg) (hk : c.kind = .odl) (hdk : c.d.kind = .odl)
    (hg : OdlDtTablesOK c.d.g = true) (y m d h mi s us : Nat) (hd : ValidDate y m d) (hv : ValidTime h mi s us)
    (off : Int) (h0 : off ≠ 0) (h60 : off.natAbs % 60 = 0) (h12 : off.natAbs / 3600 ≤ 12) :
    ∃ text, encodeValue c (.datetime y m d h mi s us (some off)) = .ok text ∧
      decodeDatetime c.d text = .ok (.datetime y m d h mi s us (some off)) := by
  have hmm : off.natAbs % 3600 / 60 < 60 := by omega
  have hdec := C14_datetime_offset_decodes c.d hdk hg y m d h mi s us hd hv (decide (off < 0))
    (off.natAbs / 3600) (off.natAbs % 3600 / 60) h12 hmm
  refine ⟨dateT y m d (encodeTimeBase h mi s us ++ (if decide (off < 0) then 45 else 43) ::
    zoneText (off.natAbs / 3600) (off.natAbs % 3600 / 60)), ?_, ?_⟩
  · have e2 : (off == 0) = false := by simp [h0]
    have e3 : ¬ (off.natAbs / 3600 > 12) := by omega
    simp [encodeValue, encodeSimple, encodeTime, hk, e2, h60, e3, zoneText, encodeDate, dateT]
  · rw [hdec]
    congr 3
    by_cases hn : off < 0
    · simp only [hn, decide_true, if_true]; omega
    · simp only [hn, decide_false]; simp; omega



theorem encodeTime_pds (c : EncCfg) (hk : c.kind = .pds) (h mi s us : Nat) (hp : us % 1000 = 0) (tz : Option Int)
    (htz : tz = none ∨ tz = some 0) :
    encodeTime c h mi s us tz =
      .ok (if c.timeTrailingZ then pdsTimeBase h mi s us ++ [90] else pdsTimeBase h mi s us) := by
  have e : (us % 1000 != 0) = false := by simp [hp]
  have hb : pad h 2 ++ [58] ++ pad mi 2 ++
      (if (us != 0) = true then [58] ++ pad s 2 ++ [46] ++ pad (us / 1000) 3
       else if (s != 0) = true then [58] ++ pad s 2 else []) = pdsTimeBase h mi s us := by
    unfold pdsTimeBase pdsTail
    split <;> (try split) <;> simp
  rcases htz with rfl | rfl <;> simp only [encodeTime, hk, e, Bool.false_eq_true, if_false, hb]

/-- **C14, the PDS3 spelling round-trips**: for every clock time of whole milliseconds, naive or UTC, and
    either setting of `time_trailing_z`, what `PDSLabelEncoder.encode_time` writes — `HH:MM[:SS[.mmm]][Z]` —
    is read back by the PDS3 decoder as that time in UTC (three fraction digits are taken by `%f`'s
    three-digit alternative after the longer ones fail, and scaled to microseconds) -/
theorem C14_time_roundtrip_pds (c : EncCfg) (hk : c.kind = .pds) (hdk : c.d.kind = .pds)
    (hg : TimeTablesOK6 c.d.g = true) (hutc : c.d.g.defaultUtc = true) (h mi s us : Nat)
    (hv : ValidTime h mi s us) (hp : us % 1000 = 0) (tz : Option Int) (htz : tz = none ∨ tz = some 0) :
    ∃ text, encodeValue c (.time h mi s us tz) = .ok text ∧
      decodeDatetime c.d text = .ok (.time h mi s us (some 0)) := by
  obtain ⟨h1, h2⟩ := decodeDatetimeBase_time_pds c.d.g hg h mi s us hv hp
  have hdef : defaultTz c.d.g = some 0 := by simp [defaultTz, hutc]
  rw [hdef] at h1
  refine ⟨_, by simpa [encodeValue, encodeSimple] using encodeTime_pds c hk h mi s us hp tz htz, ?_⟩
  unfold decodeDatetime
  simp only [hdk]
  by_cases hz : c.timeTrailingZ = true
  · simp [hz, h2, hp]
  · simp [hz, h1, hp]

/-- **C14, PDS3 date-times round-trip** -/
theorem C14_datetime_roundtrip_pds (c : EncCfg) (hk : c.kind = .pds) (hdk : c.d.kind = .pds)
    (hg : DtTablesOK c.d.g = true) (hutc : c.d.g.defaultUtc = true) (y m d h mi s us : Nat)
    (hd : ValidDate y m d) (hv : ValidTime h mi s us) (hp : us % 1000 = 0) (tz : Option Int)
    (htz : tz = none ∨ tz = some 0) :
    ∃ text, encodeValue c (.datetime y m d h mi s us tz) = .ok text ∧
      decodeDatetime c.d text = .ok (.datetime y m d h mi s us (some 0)) := by
  obtain ⟨h1, h2⟩ := decodeDatetimeBase_datetime_pds c.d.g hg y m d h mi s us hd hv hp
  have hdef : defaultTz c.d.g = some 0 := by simp [defaultTz, hutc]
  rw [hdef] at h1
  by_cases hz : c.timeTrailingZ = true
  · refine ⟨dateT y m d (pdsTimeBase h mi s us ++ [90]), ?_, ?_⟩
    · simp [encodeValue, encodeSimple, encodeTime_pds c hk h mi s us hp tz htz, hz, encodeDate, dateT]
    · unfold decodeDatetime
      simp [hdk, h2, hp]
  · refine ⟨dateT y m d (pdsTimeBase h mi s us), ?_, ?_⟩
    · simp [encodeValue, encodeSimple, encodeTime_pds c hk h mi s us hp tz htz, hz, encodeDate, dateT]
    · unfold decodeDatetime
      simp [hdk, h1, hp]

/-- the PDS3 table reads a naive time as UTC -/
example : Gen.pds.defaultUtc = true := rfl



theorem doyTables_ok : ∀ g ∈ [Gen.pvl, Gen.odl, Gen.pds, Gen.isis, Gen.omni], DoyTablesOK g = true := by
  decide

/-- **C14, day-of-year dates**: `YYYY-DDD`, for every year 1–9999 and every day number the year has (366 only
    in leap years), is decoded by each decoder class to the calendar date whose ordinal day in that year is
    `DDD`: month `m` and day `d` with `d` a day of month `m` and `(days before month m) + d = DDD`.  The
    calendar format is shown to fail first (whichever way `%m` splits the digits, no `-` follows), then `%j`
    takes all three digits. -/
theorem C14_doy_date_decodes (dc : Dec) (hg : DoyTablesOK dc.g = true) (y j : Nat) (hy1 : 1 ≤ y) (hy2 : y ≤ 9999)
    (h1 : 1 ≤ j) (h2 : j ≤ diy y) :
    ∃ m d, decodeDatetime dc (doyText y j) = .ok (.date y m d) ∧ 1 ≤ m ∧ m ≤ 12 ∧ 1 ≤ d ∧ d ≤ daysInMonth y m ∧
      daysBeforeMonth y m + d = j := by
  have hb := decodeDatetimeBase_doy dc.g hg y j hy1 hy2 h1 h2
  obtain ⟨a, b, c, d, e⟩ := monthDayOf_spec y j h1 h2
  refine ⟨(monthDayOf y j).1, (monthDayOf y j).2, ?_, a, b, c, d, e⟩
  unfold decodeDatetime
  cases hk : dc.kind
  · simp [hb]
  · simp [hb, decodeDatetimeOdl]
  · simp [hb]
  · simp [hb, decodeDatetimeOdl]

/-- 2024-060 is 29 February, 2023-060 is 1 March, 2023-365 is 31 December -/
example : monthDayOf 2024 60 = (2, 29) ∧ monthDayOf 2023 60 = (3, 1) ∧ monthDayOf 2023 365 = (12, 31) := by decide



/-- **C14, fractions of a second of any written length**: `HH:MM:SS.f`, `.ff`, … `.ffffff` (one to six
    digits), with or without `Z`, is read by each decoder as that clock time with the fraction scaled to
    microseconds (`.5` is 500000 µs, `.123` is 123000 µs): `%f` tries six, five, … digits and takes exactly the
    written ones.  The PDS3 decoder accepts it when the value is a whole number of milliseconds. -/
theorem C14_time_fraction_decodes (dc : Dec) (hg : TimeTablesOK6 dc.g = true) (h mi s : Nat) (hh : h < 24)
    (hm : mi < 60) (hs : s < 60) (ds : Str) (hd : AllDigits ds) (h1 : 1 ≤ ds.length) (h6 : ds.length ≤ 6)
    (hp : dc.kind = .pds → fracMicros ds % 1000 = 0) :
    decodeDatetime dc (pad h 2 ++ 58 :: (pad mi 2 ++ 58 :: (pad s 2 ++ 46 :: ds))) =
      .ok (.time h mi s (fracMicros ds) (defaultTz dc.g)) ∧
    decodeDatetime dc (pad h 2 ++ 58 :: (pad mi 2 ++ 58 :: (pad s 2 ++ 46 :: (ds ++ [90])))) =
      .ok (.time h mi s (fracMicros ds) (some 0)) := by
  obtain ⟨b1, b2⟩ := decodeDatetimeBase_time_frac dc.g hg h mi s hh hm hs ds hd h1 h6
  unfold decodeDatetime
  cases hk : dc.kind
  · simp [b1, b2]
  · simp [b1, b2, decodeDatetimeOdl]
  · have := hp hk
    simp [b1, b2, this]
  · simp [b1, b2, decodeDatetimeOdl]

example : fracMicros [53] = 500000 ∧ fracMicros [49, 50, 51] = 123000 ∧ fracMicros [48, 48, 48, 48, 48, 49] = 1 := by
  decide



theorem doyDtTables_ok : ∀ g ∈ [Gen.pvl, Gen.odl, Gen.pds, Gen.isis, Gen.omni], DoyDtTablesOK g = true := by
  decide

/-- **C14, day-of-year date-times**: `YYYY-DDDTHH:MM[:SS[.ffffff]]`, with or without `Z` — the usual PDS3
    spelling — is decoded by each decoder class to the calendar date whose ordinal day is `DDD` and the written
    clock fields.  All four date formats, six time formats and the six *calendar* date-time formats are proved
    to fail on it first (the calendar ones at the month: no `-` follows however `%m` splits the digits). -/
theorem C14_doy_datetime_decodes (dc : Dec) (hg : DoyDtTablesOK dc.g = true) (y j h mi s us : Nat)
    (hd : ValidDoy y j) (hv : ValidTime h mi s us) (hp : dc.kind = .pds → us % 1000 = 0) :
    ∃ m d, 1 ≤ m ∧ m ≤ 12 ∧ 1 ≤ d ∧ d ≤ daysInMonth y m ∧ daysBeforeMonth y m + d = j ∧
      decodeDatetime dc (doyT y j (encodeTimeBase h mi s us)) = .ok (.datetime y m d h mi s us (defaultTz dc.g)) ∧
      decodeDatetime dc (doyT y j (encodeTimeBase h mi s us ++ [90])) = .ok (.datetime y m d h mi s us (some 0)) := by
  have b1 := decodeDatetimeBase_doy_datetime dc.g hg y j h mi s us hd hv
  have b2 := decodeDatetimeBase_doy_datetimeZ dc.g hg y j h mi s us hd hv
  obtain ⟨a, b, c, d, e⟩ := monthDayOf_spec y j hd.2.2.1 hd.2.2.2
  refine ⟨(monthDayOf y j).1, (monthDayOf y j).2, a, b, c, d, e, ?_, ?_⟩
  all_goals
    unfold decodeDatetime
    cases hk : dc.kind
    · simp [b1, b2]
    · simp [b1, b2, decodeDatetimeOdl]
    · have := hp hk
      simp [b1, b2, this]
    · simp [b1, b2, decodeDatetimeOdl]



theorem timeTablesAll_ok : ∀ g ∈ [Gen.pvl, Gen.odl, Gen.pds, Gen.isis, Gen.omni], TimeTablesAll g = true := by
  decide

theorem zoneSplitGo_noSign (t : Str) (ht : NoSign t) : ∀ pre, zoneSplitGo pre t = none := by
  induction t with
  | nil => intro pre; simp [zoneSplitGo]
  | cons c r ih =>
    intro pre
    have hc := ht c (by simp)
    have h1 : (c == 43 || c == 45) = false := by simp [hc.1, hc.2.1]
    have h2 : (c == 10) = false := by simp [hc.2.2]
    simp only [zoneSplitGo, h1, Bool.and_false, Bool.false_eq_true, if_false, h2]
    exact ih (fun x hx => ht x (by simp [hx])) _

theorem leapText_noSign (h mi : Nat) : NoSign (leapText h mi) := by
  unfold leapText
  have p := fun n w => noSign_digits (pad n w) (allDigits_pad n w)
  refine noSign_append _ _ (p h 2) (noSign_cons 58 _ (by decide) (noSign_append _ _ (p mi 2) ?_))
  exact noSign_cons 58 _ (by decide) (noSign_cons 54 _ (by decide) (noSign_cons 48 _ (by decide) noSign_nil))

/-- **C14, leap seconds**: `HH:MM:60` is not a `datetime.time` (Python has no 61st second).  The decoders of
    the dialects that admit it (PVL, ISIS, the default one: their grammar carries the leap-second patterns)
    return the text itself, as a string; the ODL and PDS3 decoders refuse it.  In both cases `%H:%M:%S` is shown
    to *match* the text and `strptime` to reject the value 60, and every other format to fail. -/
theorem C14_leap_second_time (dc : Dec) (hg : TimeTablesAll dc.g = true) (h mi : Nat) (hh : h < 24) (hm : mi < 60) :
    (dc.g.leapYmdPattern = some patLeapYmd → (dc.kind = .pvl ∨ dc.kind = .omni) →
      decodeDatetime dc (leapText h mi) = .ok (.str (leapText h mi))) ∧
    (dc.g.leapYmdPattern = none → dc.g.leapYjPattern = none →
      decodeDatetime dc (leapText h mi) = .error .value) := by
  have hb := decodeDatetimeBase_leap dc.g hg h mi hh hm
  have hl := leapTimePart_leapText h mi hh hm
  constructor
  · intro hp hk
    have : isLeapSeconds dc.g (leapText h mi) = true := by
      simp [isLeapSeconds, hp, leapYmd, hl]
    rw [this] at hb
    simp only [if_true] at hb
    unfold decodeDatetime
    rcases hk with hk | hk <;> simp [hk, hb, decodeDatetimeOdl]
  · intro h1 h2
    have : isLeapSeconds dc.g (leapText h mi) = false := by simp [isLeapSeconds, h1, h2]
    rw [this] at hb
    simp only [Bool.false_eq_true, if_false] at hb
    have hz : zoneSplit (leapText h mi) = none := zoneSplitGo_noSign _ (leapText_noSign h mi) []
    unfold decodeDatetime
    cases hk : dc.kind <;> simp [hb, decodeDatetimeOdl, hz]

example : Gen.pvl.leapYmdPattern = some patLeapYmd ∧ Gen.isis.leapYmdPattern = some patLeapYmd ∧
    Gen.omni.leapYmdPattern = some patLeapYmd ∧ Gen.odl.leapYmdPattern = none ∧ Gen.pds.leapYjPattern = none := by
  refine ⟨rfl, rfl, rfl, rfl, rfl⟩



/-- **C14, every spelling of a zone offset**: the ODL decoder reads `±H`, `±HH`, `±H:MM`, `±HH:MM`, `±HMM` and
    `±HHMM` after a time as the offset of `H` hours and `MM` minutes (hours up to 12) — the alternatives of the
    pattern's `0?[0-9]|1[0-2]` and of its optional `:` are followed in the regular expression's order -/
theorem C14_time_offset_spellings (dc : Dec) (hk : dc.kind = .odl) (hg : OdlTablesOK dc.g = true)
    (h mi s us : Nat) (hv : ValidTime h mi s us) (neg : Bool) (hh mm : Nat) (hh12 : hh ≤ 12) (hmm : mm < 60)
    (z : Str) (hz : ZoneSpelling hh mm z) :
    decodeDatetime dc (encodeTimeBase h mi s us ++ (if neg then 45 else 43) :: z) =
      .ok (.time h mi s us (some (((hh : Int) * 3600 + (mm : Int) * 60) * (if neg then -1 else 1)))) := by
  unfold decodeDatetime
  simp only [hk]
  exact decodeDatetimeOdl_zoned_any dc.g hg h mi s us hv neg z hh mm (zoneTail_spelling hh mm hh12 hmm z hz)

/-- `+5`, `+0530`, `-3:30` are spellings -/
example : ZoneSpelling 5 0 [53] ∧ ZoneSpelling 5 30 [48, 53, 51, 48] ∧ ZoneSpelling 3 30 [51, 58, 51, 48] :=
  ⟨ZoneSpelling.h1 (by decide) rfl, ZoneSpelling.h2m, ZoneSpelling.h1c (by decide)⟩



/-- **C14, the usual PDS3 time stamp**: `YYYY-DDDTHH:MM:SS.fff` — day of year, and one to six fraction digits,
    with or without `Z` — is decoded by each decoder class to the calendar date whose ordinal day is `DDD`, the
    written clock fields and the fraction scaled to microseconds (`2003-181T14:23:11.123` is 30 June 2003,
    14:23:11 and 123000 µs).  The PDS3 decoder accepts it when the value is a whole number of milliseconds. -/
theorem C14_doy_datetime_fraction_decodes (dc : Dec) (hg : DoyDtTablesOK dc.g = true) (y j h mi s : Nat)
    (hd : ValidDoy y j) (hh : h < 24) (hm : mi < 60) (hs : s < 60) (ds : Str) (hds : AllDigits ds)
    (h1 : 1 ≤ ds.length) (h6 : ds.length ≤ 6) (hp : dc.kind = .pds → fracMicros ds % 1000 = 0) :
    ∃ m d, 1 ≤ m ∧ m ≤ 12 ∧ 1 ≤ d ∧ d ≤ daysInMonth y m ∧ daysBeforeMonth y m + d = j ∧
      decodeDatetime dc (doyT y j (pad h 2 ++ 58 :: (pad mi 2 ++ 58 :: (pad s 2 ++ 46 :: ds)))) =
        .ok (.datetime y m d h mi s (fracMicros ds) (defaultTz dc.g)) ∧
      decodeDatetime dc (doyT y j (pad h 2 ++ 58 :: (pad mi 2 ++ 58 :: (pad s 2 ++ 46 :: (ds ++ [90]))))) =
        .ok (.datetime y m d h mi s (fracMicros ds) (some 0)) := by
  obtain ⟨b1, b2⟩ := decodeDatetimeBase_doy_frac dc.g hg y j h mi s hd hh hm hs ds hds h1 h6
  obtain ⟨a, b, c, d, e⟩ := monthDayOf_spec y j hd.2.2.1 hd.2.2.2
  refine ⟨(monthDayOf y j).1, (monthDayOf y j).2, a, b, c, d, e, ?_, ?_⟩
  all_goals
    unfold decodeDatetime
    cases hk : dc.kind
    · simp [b1, b2]
    · simp [b1, b2, decodeDatetimeOdl]
    · have := hp hk
      simp [b1, b2, this]
    · simp [b1, b2, decodeDatetimeOdl]

example : monthDayOf 2003 181 = (6, 30) ∧ fracMicros [49, 50, 51] = 123000 := by decide


/-- **the order and the zone pattern the model follows are the ones in the source**: `decode_datetime` tries the
    date formats, then the time formats, then the date-time formats (`decodeDatetimeBase`); the ODL decoder's
    zone pattern is the regular expression `zoneSplit` / `zoneTail` were written for.  Both are read from
    `pvl/decoder.py` with `ast` on every run: an edit to either changes the table and this stops checking. -/
theorem C14_decode_order :
    Gen.datetimeFormatOrder = ["date_formats", "time_formats", "datetime_formats"] ∧
    Gen.odlZoneRegex = ["(?P<dt>.+?)(?P<sign>[+-])(?P<hour>0?[0-9]|1[0-2])(?::?", "{_M_frag}", ")?"] ∧
    Gen.odlMinuteFrag = "(?P<minute>[0-5]\\d)" := by decide

/-- leap day: 29 February exists exactly in leap years (non-vacuity of `ValidDate` at its edge) -/
example : ValidDate 2000 2 29 ∧ ¬ ValidDate 1900 2 29 ∧ ValidDate 1 1 1 ∧ ValidDate 9999 12 31 := by
  simp [ValidDate, daysInMonth, isLeap]

end Pvl
