import PvlModel.Lemmas.DateTime
/-!
# C14 — date and time values keep their type, instant and time-zone meaning

Proved here (unbounded): **every calendar date round-trips** — for every encoder configuration and every
date `datetime.date` admits (years 1–9999, real month lengths, leap years), the text the encoder writes,
`%04d-%02d-%02d`, is read by each of the decoders as that same date and nothing else.  The proof goes
through the model of CPython's `_strptime` (format → regular expression with alternatives in the written
order → back-tracking match → calendar fields): `strptime_ymd` in `Lemmas/DateTime.lean`.

The only fact about the grammar tables that is used is that `"%Y-%m-%d"` is the first date format; it is
evaluated on the five tables regenerated from /repo.

**Every clock time round-trips through the PVL / ISIS encoders** (`C14_time_decodes`,
`C14_time_roundtrip_pvl`): `HH:MM`, `HH:MM:SS` or `HH:MM:SS.ffffff` — whichever `encode_time` chooses for
the value — is read back with exactly the written hour, minute, second and microsecond, and with the
dialect's default zone (UTC where the grammar says so, naive otherwise): the date formats all fail on
it, the time formats are tried in the table's order, `%H:%M` and `%H:%M:%S` leave unconverted data on the
longer spellings and the right one matches.  `TimeTablesOK` is the fact about the tables this uses.

**`Z` means UTC** (`C14_timeZ_decodes`, `C14_time_roundtrip_odl_utc`): the same three spellings with a
trailing `Z` are read as that time in UTC — this needs the *failure* of five formats to be proved, through
all the back-tracking alternatives of `%H`, `%M`, `%S`.

**Date-times** (`C14_datetime_decodes`, `C14_datetime_roundtrip_pvl`): `YYYY-MM-DDTHH:MM[:SS[.ffffff]]`.

`C14_datetimeZ_decodes`, `C14_datetime_roundtrip_odl_utc`: the same with a trailing `Z` (UTC).

ODL zone offsets, day-of-year dates, leap seconds and the PDS3 millisecond spelling are decided by the
generator's independent reading of each spelling against the real decoders and the model
(`vlib/props/c14.py`); their theorems are open.
-/
namespace Pvl
open Py Enc

/-- the date formats of every generated table begin with `%Y-%m-%d` -/
theorem dateFormats_head :
    ∀ g ∈ [Gen.pvl, Gen.odl, Gen.pds, Gen.isis, Gen.omni], g.dateFormats.head? = some fmtYmd := by decide

theorem decodeDatetimeBase_date (g : Grammar) (hg : g.dateFormats.head? = some fmtYmd) (y m d : Nat)
    (h : ValidDate y m d) : decodeDatetimeBase g (encodeDate y m d) = some (.date y m d) := by
  unfold decodeDatetimeBase
  cases hf : g.dateFormats with
  | nil => simp [hf] at hg
  | cons f r =>
    simp [hf] at hg
    subst hg
    simp [firstSome, strptime_ymd y m d h]

/-- **C14, dates read back**: each decoder class reads `%04d-%02d-%02d` as that date -/
theorem C14_date_decodes (dc : Dec) (hg : dc.g.dateFormats.head? = some fmtYmd) (y m d : Nat)
    (h : ValidDate y m d) : decodeDatetime dc (encodeDate y m d) = .ok (.date y m d) := by
  have hb := decodeDatetimeBase_date dc.g hg y m d h
  unfold decodeDatetime
  cases dc.kind <;> simp [hb, decodeDatetimeOdl]

/-- **C14, dates round-trip**: what any encoder writes for a date, its own decoder reads as that date -/
theorem C14_date_roundtrip (c : EncCfg) (hg : c.d.g.dateFormats.head? = some fmtYmd) (y m d : Nat)
    (h : ValidDate y m d) :
    ∃ text, encodeValue c (.date y m d) = .ok text ∧ decodeDatetime c.d text = .ok (.date y m d) := by
  refine ⟨encodeDate y m d, by simp [encodeValue, encodeSimple], C14_date_decodes c.d hg y m d h⟩

/-- the format tables of the five generated grammars have the shape the time theorems use -/
theorem timeTables_ok : ∀ g ∈ [Gen.pvl, Gen.odl, Gen.pds, Gen.isis, Gen.omni], TimeTablesOK g = true := by
  decide

/-- **C14, times read back**: the spelling `encode_time` chooses is decoded to the same clock fields,
    with the dialect's default zone; by each decoder class (the PDS3 decoder: milliseconds only) -/
theorem C14_time_decodes (dc : Dec) (hg : TimeTablesOK dc.g = true) (h mi s us : Nat)
    (hv : ValidTime h mi s us) (hp : dc.kind = .pds → us % 1000 = 0) :
    decodeDatetime dc (encodeTimeBase h mi s us) = .ok (.time h mi s us (defaultTz dc.g)) := by
  have hb := decodeDatetimeBase_time dc.g hg h mi s us hv
  unfold decodeDatetime
  cases hk : dc.kind
  · simp [hb]
  · simp [hb, decodeDatetimeOdl]
  · have := hp hk
    simp [hb, this]
  · simp [hb, decodeDatetimeOdl]

/-- **C14, times round-trip through the PVL and ISIS encoders** (which write no zone designator and refuse
    any zone but UTC): the text reads back, with the encoder's own decoder, as the same clock time in the
    dialect's default zone -/
theorem C14_time_roundtrip_pvl (c : EncCfg) (hk : c.kind = .pvl ∨ c.kind = .isis)
    (hg : TimeTablesOK c.d.g = true) (h mi s us : Nat) (hv : ValidTime h mi s us)
    (hp : c.d.kind = .pds → us % 1000 = 0) (tz : Option Int) (htz : tz = none ∨ tz = some 0) :
    ∃ text, encodeValue c (.time h mi s us tz) = .ok text ∧
      decodeDatetime c.d text = .ok (.time h mi s us (defaultTz c.d.g)) := by
  refine ⟨encodeTimeBase h mi s us, ?_, C14_time_decodes c.d hg h mi s us hv hp⟩
  rcases hk with hk | hk <;> rcases htz with rfl | rfl <;> simp [encodeValue, encodeSimple, encodeTime, hk]

theorem timeTables6_ok : ∀ g ∈ [Gen.pvl, Gen.odl, Gen.pds, Gen.isis, Gen.omni], TimeTablesOK6 g = true := by
  decide

/-- **C14, `Z` means UTC**: `HH:MM[:SS[.ffffff]]Z` is decoded to the written clock fields in UTC by each
    decoder class — the three formats without `Z` either leave the `Z` unconverted or fail at it, the
    `Z` formats that are too short fail at the next field, and the right one matches -/
theorem C14_timeZ_decodes (dc : Dec) (hg : TimeTablesOK6 dc.g = true) (h mi s us : Nat)
    (hv : ValidTime h mi s us) (hp : dc.kind = .pds → us % 1000 = 0) :
    decodeDatetime dc (encodeTimeBase h mi s us ++ [90]) = .ok (.time h mi s us (some 0)) := by
  have hb := decodeDatetimeBase_timeZ dc.g hg h mi s us hv
  unfold decodeDatetime
  cases hk : dc.kind
  · simp [hb]
  · simp [hb, decodeDatetimeOdl]
  · have := hp hk
    simp [hb, this]
  · simp [hb, decodeDatetimeOdl]

/-- **C14, UTC times round-trip through the ODL encoder** (which writes the trailing `Z`) -/
theorem C14_time_roundtrip_odl_utc (c : EncCfg) (hk : c.kind = .odl) (hg : TimeTablesOK6 c.d.g = true)
    (h mi s us : Nat) (hv : ValidTime h mi s us) (hp : c.d.kind = .pds → us % 1000 = 0) :
    ∃ text, encodeValue c (.time h mi s us (some 0)) = .ok text ∧
      decodeDatetime c.d text = .ok (.time h mi s us (some 0)) := by
  refine ⟨encodeTimeBase h mi s us ++ [90], ?_, C14_timeZ_decodes c.d hg h mi s us hv hp⟩
  simp [encodeValue, encodeSimple, encodeTime, hk]

theorem dtTables_ok : ∀ g ∈ [Gen.pvl, Gen.odl, Gen.pds, Gen.isis, Gen.omni], DtTablesOK g = true := by
  decide

/-- **C14, date-times read back**: `YYYY-MM-DDTHH:MM[:SS[.ffffff]]` is decoded to exactly the written
    date and clock fields, in the dialect's default zone, by each decoder class.  The four date formats
    stop short of the end of the text, the six time formats fail at the third digit of the year, and the
    date-time formats are tried in the table's order: those that are too short leave text unconverted,
    those with a `Z` fail at the character where they want it — through every way of splitting the month,
    day, hour, minute and second digits — and the right one matches. -/
theorem C14_datetime_decodes (dc : Dec) (hg : DtTablesOK dc.g = true) (y m d h mi s us : Nat)
    (hd : ValidDate y m d) (hv : ValidTime h mi s us) (hp : dc.kind = .pds → us % 1000 = 0) :
    decodeDatetime dc (dateT y m d (encodeTimeBase h mi s us)) =
      .ok (.datetime y m d h mi s us (defaultTz dc.g)) := by
  have hb := decodeDatetimeBase_datetime dc.g hg y m d h mi s us hd hv
  unfold decodeDatetime
  cases hk : dc.kind
  · simp [hb]
  · simp [hb, decodeDatetimeOdl]
  · have := hp hk
    simp [hb, this]
  · simp [hb, decodeDatetimeOdl]

/-- **C14, date-times round-trip through the PVL and ISIS encoders** -/
theorem C14_datetime_roundtrip_pvl (c : EncCfg) (hk : c.kind = .pvl ∨ c.kind = .isis)
    (hg : DtTablesOK c.d.g = true) (y m d h mi s us : Nat) (hd : ValidDate y m d) (hv : ValidTime h mi s us)
    (hp : c.d.kind = .pds → us % 1000 = 0) (tz : Option Int) (htz : tz = none ∨ tz = some 0) :
    ∃ text, encodeValue c (.datetime y m d h mi s us tz) = .ok text ∧
      decodeDatetime c.d text = .ok (.datetime y m d h mi s us (defaultTz c.d.g)) := by
  refine ⟨dateT y m d (encodeTimeBase h mi s us), ?_, C14_datetime_decodes c.d hg y m d h mi s us hd hv hp⟩
  rcases hk with hk | hk <;> rcases htz with rfl | rfl <;>
    simp [encodeValue, encodeSimple, encodeTime, hk, encodeDate, dateT]

/-- **C14, date-times with `Z`** are decoded to the written fields in UTC by each decoder class -/
theorem C14_datetimeZ_decodes (dc : Dec) (hg : DtTablesOK dc.g = true) (y m d h mi s us : Nat)
    (hd : ValidDate y m d) (hv : ValidTime h mi s us) (hp : dc.kind = .pds → us % 1000 = 0) :
    decodeDatetime dc (dateT y m d (encodeTimeBase h mi s us ++ [90])) =
      .ok (.datetime y m d h mi s us (some 0)) := by
  have hb := decodeDatetimeBase_datetimeZ dc.g hg y m d h mi s us hd hv
  unfold decodeDatetime
  cases hk : dc.kind
  · simp [hb]
  · simp [hb, decodeDatetimeOdl]
  · have := hp hk
    simp [hb, this]
  · simp [hb, decodeDatetimeOdl]

/-- **C14, UTC date-times round-trip through the ODL encoder** -/
theorem C14_datetime_roundtrip_odl_utc (c : EncCfg) (hk : c.kind = .odl) (hg : DtTablesOK c.d.g = true)
    (y m d h mi s us : Nat) (hd : ValidDate y m d) (hv : ValidTime h mi s us)
    (hp : c.d.kind = .pds → us % 1000 = 0) :
    ∃ text, encodeValue c (.datetime y m d h mi s us (some 0)) = .ok text ∧
      decodeDatetime c.d text = .ok (.datetime y m d h mi s us (some 0)) := by
  refine ⟨dateT y m d (encodeTimeBase h mi s us ++ [90]), ?_,
    C14_datetimeZ_decodes c.d hg y m d h mi s us hd hv hp⟩
  simp [encodeValue, encodeSimple, encodeTime, hk, encodeDate, dateT]

/-- leap day: 29 February exists exactly in leap years (non-vacuity of `ValidDate` at its edge) -/
example : ValidDate 2000 2 29 ∧ ¬ ValidDate 1900 2 29 ∧ ValidDate 1 1 1 ∧ ValidDate 9999 12 31 := by
  simp [ValidDate, daysInMonth, isLeap]

end Pvl
