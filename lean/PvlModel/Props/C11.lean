import PvlModel.Lemmas.Heap
/-!
# C11 — copies of a container are equal, independent and leave the original intact

Aliasing is a question about objects, so this property has its own small model (`Model/Heap.lean`): a
container object refers to its private item list and to one value list per key; methods change lists in
place or rebind a reference to a freshly built list; `copy()` builds every list anew from the pairs.

Theorems (for every heap, every container, every history of `append` / `__setitem__` / `__delitem__` /
`pop()` / `extend(pairs)` / `update(pairs)` / `clear()` / `discard(key)` / `popall(key)` /
`insert(index, pairs)` on either side, unbounded — the remaining documented mutators have the heap effect
of one of these: `insert_before/after` are `insert` at the index `key_index` gives, `setdefault` is a
lookup or `append`, `popitem()` is `pop()`, `pop(key)` is `popall(key)`):

* `C11_copy_equal_intact`: the copy shows the same pairs, and making it leaves the original's pair list
  and every one of its value lists as they were;
* `C11_independent`: no history of methods on the copy changes anything observable of the original, and
  none on the original changes the copy — because the two share no list (`Sep`) and every method is
  *local* (writes only to lists its receiver owns, or to fresh ones; `step_local`);
* `C11_shared_values_leak`: the broken copy that re-uses the value lists (seeded change S-C11) does leak.

Tie to the code (`vlib/props/c11.py`): for each of the four copy mechanisms the real objects are
inspected for exactly the model's separation — the copy's `__items` list and every value list must be a
different object from the original's (at every level for the deep mechanisms) — and the behavioural
independence is exercised by random mutations on either side.  The deep mechanisms' nested levels repeat
the argument per level; the model's values are opaque.
-/
namespace Pvl.Heap

/-- **C11, equal and intact** -/
theorem C11_copy_equal_intact (h : Heap) (c : Cont) (hc : FpOK h c) :
    (view (copy h c).1 (copy h c).2).1 = (view h c).1 ∧ view (copy h c).1 c = view h c :=
  ⟨(copy_spec h c hc).1, (copy_spec h c hc).2.1⟩

/-- **C11, independent**: any history on the copy leaves the original as it was, and any history on the
    original leaves the copy as it was -/
theorem C11_independent (h : Heap) (c : Cont) (hc : FpOK h c) (ops : List Op) :
    view (run (copy h c).1 (copy h c).2 ops).1 c = view h c ∧
    view (run (copy h c).1 c ops).1 (copy h c).2 = view (copy h c).1 (copy h c).2 := by
  obtain ⟨_, hv, hsep, hok', hok⟩ := copy_spec h c hc
  refine ⟨?_, ?_⟩
  · rw [run_frame ops _ _ c hok' hok hsep, hv]
  · exact run_frame ops _ c _ hok hok' ⟨fun e => hsep.1 e.symm, fun p hp q hq e => hsep.2 q hq p hp e.symm⟩

/-! ### which references each method keeps and which it rebinds

These four facts are what the check observes on the real objects after each method call (identity of
`__items` and of the value list of the key), so that the model's in-place / rebind choices are tied to
collections.py and not only its results. -/

theorem append_keeps_item_list (h : Heap) (c : Cont) (k : K) (v : V) : (append h c k v).2.items = c.items := by
  unfold append; split <;> rfl

theorem delitem_rebinds_item_list (h : Heap) (c : Cont) (k : K) : (delitem h c k).2.items = h.iNext := rfl

theorem setitem_existing_rebinds_values (h : Heap) (c : Cont) (k : K) (v : V)
    (hk : c.dict.any (fun p => p.1 == k) = true) :
    (setitem h c k v).2.items = c.items ∧ ∀ p ∈ (setitem h c k v).2.dict, (p.1 == k) = true → p.2 = h.vNext := by
  unfold setitem
  simp only [hk, if_true]
  refine ⟨by trivial, ?_⟩
  intro p hp hpk
  simp only [Heap.allocVals, List.mem_map] at hp
  obtain ⟨q, _, e⟩ := hp
  split at e
  · rw [← e]
  · rename_i hne
    rw [← e] at hpk
    exact absurd hpk hne

theorem popLast_keeps_item_list (h : Heap) (c : Cont) : (popLast h c).2.items = c.items := by
  unfold popLast
  split
  · rfl
  · simp only
    split
    · split <;> rfl
    · rfl

def h0' : Heap := ⟨fun i => if i = 0 then [(1, 5), (2, 4), (1, 3)] else [], 1,
  fun i => if i = 0 then [5, 3] else if i = 1 then [4] else [], 2⟩
def c0' : Cont := ⟨0, [(1, 0), (2, 1)]⟩

theorem extend_keeps_item_list (ps : List (K × V)) : ∀ (h : Heap) (c : Cont),
    (appendAll h c ps).2.items = c.items := by
  induction ps with
  | nil => intro h c; rfl
  | cons p r ih =>
    intro h c
    obtain ⟨k, v⟩ := p
    simp only [appendAll]
    rw [ih, append_keeps_item_list]

theorem insert_keeps_item_list (ps : List (K × V)) : ∀ (h : Heap) (c : Cont) (i : Nat),
    (insertAll h c i ps).2.items = c.items := by
  induction ps with
  | nil => intro h c i; rfl
  | cons p r ih =>
    intro h c i
    obtain ⟨k, v⟩ := p
    simp only [insertAll]
    rw [ih]
    unfold insertOne
    simp only
    split <;> rfl

/-- `insert` of a pair whose key is present stores a fresh value list for that key -/
theorem insert_existing_rebinds_values (h : Heap) (c : Cont) (i : Nat) (k : K) (v : V)
    (hk : c.dict.any (fun p => p.1 == k) = true) :
    ∀ p ∈ (insertOne h c i k v).2.dict, (p.1 == k) = true → p.2 = h.vNext := by
  unfold insertOne
  simp only [hk, if_true]
  intro p hp hpk
  simp only [Heap.allocVals, Heap.setItems, List.mem_map] at hp
  obtain ⟨q, _, e⟩ := hp
  split at e
  · rw [← e]
  · rename_i hne
    rw [← e] at hpk
    exact absurd hpk hne

theorem setitem_keeps_item_list (h : Heap) (c : Cont) (k : K) (v : V) : (setitem h c k v).2.items = c.items := by
  unfold setitem
  split
  · rfl
  · exact append_keeps_item_list h c k v

theorem update_keeps_item_list (ps : List (K × V)) : ∀ (h : Heap) (c : Cont),
    (setAll h c ps).2.items = c.items := by
  induction ps with
  | nil => intro h c; rfl
  | cons p r ih =>
    intro h c
    obtain ⟨k, v⟩ := p
    simp only [setAll]
    rw [ih, setitem_keeps_item_list]

/-- `popall(key)` / `discard(key)` of a present key rebind the item list like `__delitem__`; of an absent
    key they change nothing -/
theorem popall_present_rebinds_item_list (h : Heap) (c : Cont) (k : K)
    (hk : c.dict.any (fun p => p.1 == k) = true) : (discard h c k).2.items = h.iNext := by
  unfold discard; simp only [hk, if_true]; rfl

theorem discard_absent_noop (h : Heap) (c : Cont) (k : K)
    (hk : c.dict.any (fun p => p.1 == k) = false) : discard h c k = (h, c) := by
  unfold discard; simp [hk]

theorem clear_rebinds_item_list (h : Heap) (c : Cont) : (clear h c).2.items = h.iNext ∧ (clear h c).2.dict = [] :=
  ⟨rfl, rfl⟩

/-- a history that uses every operation of the alphabet, on the copy: the original is untouched
    (an instance of `C11_independent`, evaluated) -/
example : let (h1, c1) := copy h0' c0'
    view (run h1 c1 [.extend [(1, 6), (2, 7)], .update [(1, 8), (3, 9)], .discard 2, .discard 4, .popLast,
      .append 5 5, .setitem 5 6, .insert 1 [(1, 7), (6, 1)], .popall 6, .delitem 1, .clear]).1 c0' = view h0' c0' := by decide

/-- a heap with one container holding the pair (1, 5) -/
def h0 : Heap := ⟨fun i => if i = 0 then [(1, 5)] else [], 1, fun i => if i = 0 then [5] else [], 1⟩
def c0 : Cont := ⟨0, [(1, 0)]⟩

/-- **the seeded defect leaks**: a copy that shares the value lists lets `append` on the copy show
    through in the original's values for that key -/
theorem C11_shared_values_leak :
    let (h1, c1) := copySharingValues h0 c0
    view (append h1 c1 1 6).1 c0 ≠ view h0 c0 := by decide

/-- … while the real `copy()` does not, on the same example (an instance of `C11_independent`) -/
example : let (h1, c1) := copy h0 c0; view (append h1 c1 1 6).1 c0 = view h0 c0 := by decide

example : FpOK h0 c0 := by simp [FpOK, h0, c0]

end Pvl.Heap
