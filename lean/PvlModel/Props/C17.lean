import PvlModel.Model.Encoder

/-!
# C17 — value classification is total, exclusive and shared by reader and writer

Theorems about the decoder cascade (`decodeSimple`), the token predicates (`Tok.*`) and the
encoders' quoting decision (`Enc.encodeString`), for every grammar table, every decoder class,
every encoder configuration and every text.
-/
namespace Pvl
open Py

/-- the class of a token text, by the decoder's priority order -/
inductive Cls | keyword | quoted | based | decimal | datetime | unquoted | notAValue
  deriving DecidableEq, Repr

/-- the cascade of `decode_simple_value`, read as a classifier -/
def classify (d : Dec) (s : Str) : Cls :=
  if foldEq s d.g.noneKw || foldEq s d.g.trueKw || foldEq s d.g.falseKw then .keyword
  else if (decodeQuoted d s).isSome then .quoted
  else if (decodeNonDecimal d s).isSome then .based
  else if (decodeDecimal s).isSome then .decimal
  else match decodeDatetime d s with
    | .ok _ => .datetime
    | .error _ =>
      match decodeUnquoted d s with
      | .ok _ => .unquoted
      | .error _ => .notAValue

/-- **C17, totality and agreement with the decoder**: every text has exactly one class (`classify` is
    a function) and `decode_simple_value` succeeds exactly on the texts that are not `notAValue`. -/
theorem C17_decoder_total (d : Dec) (s : Str) :
    (classify d s = .notAValue ↔ decodeSimple d s = .error .value) := by
  unfold classify decodeSimple
  by_cases h1 : foldEq s d.g.noneKw = true
  · simp [h1]
  by_cases h2 : foldEq s d.g.trueKw = true
  · simp [h1, h2]
  by_cases h3 : foldEq s d.g.falseKw = true
  · simp [h1, h2, h3]
  simp only [h1, h2, h3, Bool.or_self, Bool.false_eq_true, if_false]
  cases hq : decodeQuoted d s with
  | some q => simp
  | none =>
    cases hn : decodeNonDecimal d s with
    | some i => simp
    | none =>
      cases hd : decodeDecimal s with
      | some v => simp
      | none =>
        cases ht : decodeDatetime d s with
        | ok v => simp
        | error e =>
          cases e
          cases hu : decodeUnquoted d s with
          | ok u => simp
          | error e => cases e; simp

/-- the type of the decoded value is the one the class announces -/
theorem C17_decoder_type (d : Dec) (s : Str) (v : Val) (h : decodeSimple d s = .ok v) :
    (classify d s = .keyword → v = .none ∨ ∃ b, v = .bool b) ∧
    (classify d s = .quoted → ∃ t, v = .str t) ∧
    (classify d s = .based → ∃ i, v = .int i) ∧
    (classify d s = .unquoted → v = .str s ∨ ∃ t, v = .str t) := by
  unfold classify
  unfold decodeSimple at h
  by_cases h1 : foldEq s d.g.noneKw = true
  · simp only [h1, if_true] at h; cases h; simp [h1]
  by_cases h2 : foldEq s d.g.trueKw = true
  · simp only [h1, h2, if_true, Bool.false_eq_true, if_false] at h; cases h; simp [h1, h2]
  by_cases h3 : foldEq s d.g.falseKw = true
  · simp only [h1, h2, h3, if_true, Bool.false_eq_true, if_false] at h; cases h; simp [h1, h2, h3]
  simp only [h1, h2, h3, Bool.or_self, Bool.false_eq_true, if_false] at h ⊢
  cases hq : decodeQuoted d s with
  | some q => simp only [hq] at h; cases h; simp
  | none =>
    simp only [hq] at h
    cases hn : decodeNonDecimal d s with
    | some i => simp only [hn] at h; cases h; simp
    | none =>
      simp only [hn] at h
      cases hd : decodeDecimal s with
      | some w => simp
      | none =>
        simp only [hd] at h
        cases ht : decodeDatetime d s with
        | ok w => simp
        | error e =>
          cases e
          simp only [ht] at h
          cases hu : decodeUnquoted d s with
          | ok u => simp only [hu] at h; cases h; simp
          | error e => cases e; simp only [hu] at h; cases h

/-- **C17, numbers and dates are never names**: text that the decoder reads as a number or as a
    date/time is accepted neither as an unquoted string nor as a parameter name. -/
theorem C17_numbers_never_names (d : Dec) (s : Str)
    (h : Tok.isNumeric d s = true ∨ Tok.isDatetime d s = true) :
    Tok.isUnquotedString d s = false ∧ Tok.isParameterName d s = false := by
  have hu : Tok.isUnquotedString d s = false := by
    unfold Tok.isUnquotedString
    rcases h with h | h
    · simp only [h, if_true]
      split <;> (try rfl)
      split <;> rfl
    · simp only [h, if_true]
      split <;> (try rfl)
      split <;> (try rfl)
      split <;> rfl
  refine ⟨hu, ?_⟩
  unfold Tok.isParameterName
  split
  · rfl
  · exact hu

/-- a parameter name is always an unquoted string -/
theorem C17_parameter_is_unquoted (d : Dec) (s : Str) (h : Tok.isParameterName d s = true) :
    Tok.isUnquotedString d s = true := by
  unfold Tok.isParameterName at h
  split at h
  · cases h
  · exact h

/-- `is_numeric` is exactly `is_decimal or is_non_decimal`, `is_simple_value` exactly "decodes" -/
theorem C17_predicates (d : Dec) (s : Str) :
    Tok.isNumeric d s = (Tok.isDecimal s || Tok.isNonDecimal d s) ∧
    (Tok.isSimpleValue d s = true ↔ ∃ v, decodeSimple d s = .ok v) := by
  refine ⟨rfl, ?_⟩
  unfold Tok.isSimpleValue
  cases h : decodeSimple d s with
  | ok v => simp
  | error e => cases e; simp

namespace Enc

/-- quoting never returns the text unchanged -/
theorem quoted_ne (c : EncCfg) (s t : Str) (h : encodeStringBase c s true = .ok t) : t ≠ s := by
  unfold encodeStringBase at h
  simp only [if_true] at h
  split at h
  · cases h
    intro he
    have := congrArg List.length he
    simp at this
    omega
  · cases h

/-- what `needs_quotes` returning `False` guarantees: both the encoder's own decoder and the default
    loader's decoder read the bare text back as the identical string -/
theorem bare_reads_back (c : EncCfg) (s : Str) (hb : needsQuotesBase c s = .ok false) :
    decodeSimple c.d s = .ok (.str s) ∧ decodeSimple permissiveDec s = .ok (.str s) := by
  unfold needsQuotesBase at hb
  split at hb
  · cases hb
  · split at hb
    · cases hb
    · simp only at hb
      split at hb
      · cases hb
      · split at hb
        · cases hb
        · split at hb
          · rename_i t ht
            split at hb
            · cases hb
            · rename_i hts
              have hts' : t = s := by simpa using hts
              split at hb
              · rename_i t' ht'
                simp only [Except.ok.injEq, bne_eq_false_iff_eq] at hb
                exact ⟨by rw [ht, hts'], by rw [ht', hb]⟩
              · cases hb
              · cases hb
          · cases hb
          · cases hb

theorem encodeTextString_ok (c : EncCfg) (s t : Str) (h : encodeTextString c s = .ok t) :
    encodeStringBase c s true = .ok t := by
  unfold encodeTextString at h
  split at h
  · rename_i t' ht
    split at h
    · cases h
    · simp only [Except.ok.injEq] at h; subst h; exact ht
  · cases h

/-- an encoder that writes the string as it stands (no quotes) had `needs_quotes` answer `False` -/
theorem bare_of_encodeString (c : EncCfg) (s : Str) (h : encodeString c s = .ok s) :
    needsQuotesBase c s = .ok false := by
  unfold encodeString at h
  cases hk : c.kind <;> simp only [hk] at h
  · -- pvl
    cases hn : needsQuotes c s with
    | error e => simp [hn] at h
    | ok nq =>
      simp only [hn] at h
      cases nq
      · simpa [needsQuotes, isOdlFamily, hk] using hn
      · exact absurd rfl (quoted_ne c s s h)
  · -- odl
    cases hn : needsQuotes c s with
    | error e => simp [hn] at h
    | ok nq =>
      simp only [hn] at h
      cases nq
      · unfold needsQuotes at hn
        simp only [isOdlFamily, hk] at hn
        by_cases hid : (!isIdentifier s) = true
        · simp [hid] at hn
        · simpa [hid] using hn
      · simp only at h
        split at h
        · simp only [Except.ok.injEq] at h
          exfalso
          have := congrArg List.length h
          simp at this
          omega
        · exact absurd rfl (quoted_ne c s s (encodeTextString_ok c s s h))
  · -- pds
    cases hn : needsQuotes c s with
    | error e => simp [hn] at h
    | ok nq =>
      simp only [hn] at h
      cases nq
      · unfold needsQuotes at hn
        simp only [isOdlFamily, hk] at hn
        by_cases hid : (!isIdentifier s) = true
        · simp [hid] at hn
        · simpa [hid] using hn
      · simp only at h
        split at h
        · simp only [Except.ok.injEq] at h
          exfalso
          have := congrArg List.length h
          simp at this
          omega
        · exact absurd rfl (quoted_ne c s s (encodeTextString_ok c s s h))
  · -- isis
    cases hn : needsQuotes c s with
    | error e => simp [hn] at h
    | ok nq =>
      simp only [hn] at h
      cases nq
      · simpa [needsQuotes, isOdlFamily, hk] using hn
      · exact absurd rfl (quoted_ne c s s h)

/-- **C17, reader and writer agree**: whenever an encoder — any of the four, with any options —
    writes a string *without quotes*, its own decoder reads that text back as the identical string. -/
theorem C17_unquoted_roundtrip (c : EncCfg) (s : Str) (h : encodeString c s = .ok s) :
    decodeSimple c.d s = .ok (.str s) :=
  (bare_reads_back c s (bare_of_encodeString c s h)).1

/-- … and so does the decoder of the default loader (`OmniDecoder` over `OmniGrammar`), whatever the
    writing dialect -/
theorem C17_unquoted_roundtrip_default (c : EncCfg) (s : Str) (h : encodeString c s = .ok s) :
    decodeSimple permissiveDec s = .ok (.str s) :=
  (bare_reads_back c s (bare_of_encodeString c s h)).2

end Enc

/-- **the cascade the model follows is the one in the source**: `Gen.decodeCascade` is read from
    `PVLDecoder.decode_simple_value` with `ast` on every run; `decodeSimple` tries the keyword tests and then
    exactly these decoders in this order, falling through on `ValueError` only, and ends with
    `decode_unquoted_string`.  A re-ordering in the code changes the table and this stops checking. -/
theorem C17_cascade_order :
    Gen.decodeCascade = ["decode_quoted_string", "decode_non_decimal", "decode_decimal", "decode_datetime"] ∧
    Gen.decodeCascadeCatches = ["ValueError"] := by decide

end Pvl
