import PvlModel.Model.Token
/-!
  Model of `pvl/lexer.py`.  The generator is restated as an eager function
  `lexAll : text → (tokens, tail)`; the lazy reading (how far the generator had to run to deliver
  token *n*) is `Token.last`.  The tail says what the generator does when asked for the token
  after the last one: stop, or raise the character-set `LexerError`.
-/
namespace Pvl
open Py

inductive PS | off | comment | unit | quote | nondec
  deriving DecidableEq, Repr

structure LS where
  lexeme : Str
  st : PS
  endd : Str

structure Token where
  text : Str
  pos : Int      -- `firstpos(lexeme, i)`
  last : Nat     -- index of the last character examined when the token was yielded
  deriving Repr, DecidableEq

inductive Tail
  | eof
  | lexerr (pos : Int)
  deriving Repr, DecidableEq

def charAllowed (g : Grammar) (c : Nat) : Bool := inRanges g.allowed c

/-- `_prepare_comment_tuples` -/
def singleComments (g : Grammar) : List (Nat × Str) :=
  g.comments.filterMap (fun p => match p.1 with | [c] => some (c, p.2) | _ => none)
def multiComments (g : Grammar) : List (Str × Str) := g.comments.filter (fun p => p.1.length != 1)
def multiChars (g : Grammar) : List Nat := (multiComments g).flatMap (fun p => p.1 ++ p.2)
def commentChars (g : Grammar) : List Nat := (singleComments g).map (·.1) ++ multiChars g

def lexPreserve (ch : Nat) (ls : LS) : LS :=
  if [ch] == ls.endd then ⟨ls.lexeme ++ [ch], .off, []⟩ else { ls with lexeme := ls.lexeme ++ [ch] }

/-- `lex_comment` (lexer.py:138) -/
def lexComment (g : Grammar) (ch : Nat) (prev next : Option Nat) (ls : LS) : LS :=
  if ls.st == .comment && (singleComments g).any (fun p => p.2 == ls.endd) then
    -- inside a single-character comment only its own end character is significant
    lexPreserve ch ls
  else if (multiChars g).contains ch then
    -- lex_multichar_comments
    if (multiComments g).contains ([47, 42], [42, 47]) then
      if ch == 42 then
        if prev == some 47 then ⟨ls.lexeme ++ [47, 42], .comment, [42, 47]⟩
        else if next == some 47 then ⟨ls.lexeme ++ [42, 47], .off, []⟩
        else { ls with lexeme := ls.lexeme ++ [42] }
      else if ch == 47 then
        if prev != some 42 && next != some 42 then { ls with lexeme := ls.lexeme ++ [47] } else ls
      else ls
    else ls
  else
    -- lex_singlechar_comments
    if ls.st == .comment then lexPreserve ch ls
    else match (singleComments g).find? (fun p => p.1 == ch) with
      | some p => ⟨ls.lexeme ++ [ch], .comment, p.2⟩
      | none => ls

/-- `lex_char` (lexer.py:224) -/
def lexChar (g : Grammar) (ch : Nat) (prev next : Option Nat) (ls : LS) : LS :=
  if ls.st != .off then
    if ls.st == .comment then lexComment g ch prev next ls else lexPreserve ch ls
  else if ch == 35 && ndPreFull g.ndPrePattern (ls.lexeme ++ [ch]) then
    ⟨ls.lexeme ++ [ch], .nondec, [35]⟩
  else if (commentChars g).contains ch then lexComment g ch prev next ls
  else if ch == g.unitsDelims.1 then ⟨ls.lexeme ++ [ch], .unit, [g.unitsDelims.2]⟩
  else if g.quotes.contains ch then ⟨ls.lexeme ++ [ch], .quote, [ch]⟩
  else if !g.whitespace.contains ch then { ls with lexeme := ls.lexeme ++ [ch] }
  else ls

/-- `lex_continue` (lexer.py:290).  `Token(x, grammar=g)` without a decoder uses
    `PVLDecoder(grammar=g)`. -/
def lexContinue (g : Grammar) (d : Dec) (ch : Nat) (next : Option Nat) (ls : LS) : Bool :=
  match next with
  | none => false
  | some n =>
    if !charAllowed g n then false
    else if ls.st != .off then true
    else
      let pd : Dec := ⟨g, .pvl⟩
      if g.numericStart.contains ch && Tok.isNumeric pd [ch, n, 48] then true
      else if ndPreFull g.ndPrePattern (ls.lexeme ++ [n]) then true
      else if (ch == 101 || ch == 69) && g.numericStart.contains n
              && Tok.isNumeric pd (ls.lexeme ++ [n, 50]) then true
      else if g.numericStart.contains n then Tok.isDatetime d ls.lexeme
      else false

/-- the yield condition (lexer.py:415-424) -/
def yieldCond (g : Grammar) (d : Dec) (next : Option Nat) (rest : Str) (lexeme : Str) : Bool :=
  match next with
  | none => true
  | some n =>
    !charAllowed g n || g.whitespace.contains n || g.reserved.contains n ||
    g.comments.any (fun p => startsWith rest p.1) ||
    g.comments.any (fun p => endsWith lexeme p.2) ||
    (match lexeme with | [c] => g.reserved.contains c | _ => false) ||
    Tok.isQuotedString d lexeme

def lexGo (g : Grammar) (d : Dec) : Str → Nat → Option Nat → LS → List Token → List Token × Tail
  | [], _, _, _, acc => (acc.reverse, .eof)
  | ch :: rest, i, prev, ls, acc =>
    if !charAllowed g ch then
      (acc.reverse, .lexerr (if ls.lexeme.isEmpty then (i : Int) else (i : Int) - ls.lexeme.length + 1))
    else
      let next := rest.head?
      let ls1 := lexChar g ch prev next ls
      if ls1.lexeme.isEmpty then lexGo g d rest (i + 1) (some ch) ls1 acc
      else
        match lexContinue g d ch next ls1 with
        | true => lexGo g d rest (i + 1) (some ch) ls1 acc
        | false =>
          if yieldCond g d next rest ls1.lexeme then
            lexGo g d rest (i + 1) (some ch) { ls1 with lexeme := [] }
              (⟨ls1.lexeme, (i : Int) - ls1.lexeme.length + 1, i⟩ :: acc)
          else lexGo g d rest (i + 1) (some ch) ls1 acc

/-- all tokens of `s` and what follows them -/
def lexAll (g : Grammar) (d : Dec) (s : Str) : List Token × Tail :=
  lexGo g d s 0 none ⟨[], .off, []⟩ []

/-- `LexerError` attributes (exceptions.py:45-62): `(pos, lineno, colno)` for a given `pos`. -/
def lexErrAttrs (doc : Str) (pos : Int) : Int × Int × Int :=
  let lineno : Int := (countChar doc 10 0 pos : Nat) + 1
  let colno : Int := pos - rfindChar doc 10 0 pos
  (pos, lineno, colno)

end Pvl
