import PvlModel.Model.Basic
/-!
  A small heap model of `OrderedMultiDict` objects, for the aliasing questions of C11 (which the value
  model of `MultiDict.lean` cannot ask).  A container object holds a reference to its private item list
  (`self.__items`) and, as a `dict`, a reference to one value list per key.  Some methods change these
  lists in place (`append`), others rebind a reference to a freshly built list (`__delitem__` for the item
  list, `__setitem__` on an existing key for the value list).  `copy()` is `type(self)(self)`: a new
  object whose lists are all freshly built from the pairs.

  The two kinds of list live in two stores (a Python list of pairs is never a list of values).  The
  container object itself is the record `Cont` of its two fields; two container objects are two records.
  Values are opaque (`Nat`): this is the top-level (shallow) story; a deep copy repeats it at every level.
-/
namespace Pvl.Heap

abbrev K := Nat
abbrev V := Nat

structure Heap where
  itemLists : Nat → List (K × V)
  iNext : Nat
  valLists : Nat → List V
  vNext : Nat

/-- an `OrderedMultiDict` object: `self.__items` and the dict part (key → value list, insertion order) -/
structure Cont where
  items : Nat
  dict : List (K × Nat)

def Heap.allocItems (h : Heap) (l : List (K × V)) : Heap × Nat :=
  ({ h with itemLists := fun i => if i = h.iNext then l else h.itemLists i, iNext := h.iNext + 1 }, h.iNext)

def Heap.allocVals (h : Heap) (l : List V) : Heap × Nat :=
  ({ h with valLists := fun i => if i = h.vNext then l else h.valLists i, vNext := h.vNext + 1 }, h.vNext)

def Heap.setItems (h : Heap) (i : Nat) (l : List (K × V)) : Heap :=
  { h with itemLists := fun j => if j = i then l else h.itemLists j }

def Heap.setVals (h : Heap) (i : Nat) (l : List V) : Heap :=
  { h with valLists := fun j => if j = i then l else h.valLists j }

/-- everything the public accessors can observe of a container: the pair list and, per key in dict
    order, the value list -/
def view (h : Heap) (c : Cont) : List (K × V) × List (K × List V) :=
  (h.itemLists c.items, c.dict.map (fun p => (p.1, h.valLists p.2)))

/-! ### the methods, as they treat the lists -/

/-- `append(key, value)`: both lists are changed in place; a new key gets a fresh value list -/
def append (h : Heap) (c : Cont) (k : K) (v : V) : Heap × Cont :=
  let h1 := h.setItems c.items (h.itemLists c.items ++ [(k, v)])
  match c.dict.find? (fun p => p.1 == k) with
  | some p => (h1.setVals p.2 (h1.valLists p.2 ++ [v]), c)
  | none =>
    let (h2, vid) := h1.allocVals [v]
    (h2, { c with dict := c.dict ++ [(k, vid)] })

/-- `__delitem__(key)`: the dict entry goes, `self.__items` is rebound to a new filtered list -/
def delitem (h : Heap) (c : Cont) (k : K) : Heap × Cont :=
  let (h1, nit) := h.allocItems ((h.itemLists c.items).filter (fun p => p.1 != k))
  (h1, { items := nit, dict := c.dict.filter (fun p => p.1 != k) })

/-- `__setitem__(key, value)` on an existing key: `dict_setitem(self, key, [value])` stores a fresh
    one-element list; the item list is edited in place.  On a new key it is `append`. -/
def setitem (h : Heap) (c : Cont) (k : K) (v : V) : Heap × Cont :=
  if c.dict.any (fun p => p.1 == k) then
    let (h1, vid) := h.allocVals [v]
    let old := h.itemLists c.items
    let pre := old.takeWhile (fun p => p.1 != k)
    let post := (old.dropWhile (fun p => p.1 != k)).drop 1
    (h1.setItems c.items (pre ++ [(k, v)] ++ post.filter (fun p => p.1 != k)),
     { c with dict := c.dict.map (fun p => if p.1 == k then (k, vid) else p) })
  else append h c k v

/-- `pop()` without argument: the last pair is removed in place from both lists (the key of an emptied
    value list is deleted from the dict) -/
def popLast (h : Heap) (c : Cont) : Heap × Cont :=
  match (h.itemLists c.items).getLast? with
  | none => (h, c)
  | some (k, _) =>
    let h1 := h.setItems c.items (h.itemLists c.items).dropLast
    match c.dict.find? (fun p => p.1 == k) with
    | some p =>
      let nv := (h1.valLists p.2).dropLast
      if nv.isEmpty then (h1, { c with dict := c.dict.filter (fun q => q.1 != k) })
      else (h1.setVals p.2 nv, c)
    | none => (h1, c)

/-- `extend(pairs)`: `self.append(key, value)` for each pair in turn -/
def appendAll (h : Heap) (c : Cont) : List (K × V) → Heap × Cont
  | [] => (h, c)
  | (k, v) :: r => let (h1, c1) := append h c k v; appendAll h1 c1 r

/-- `update(pairs)` (`MutableMapping.update`): `self[key] = value` for each pair in turn -/
def setAll (h : Heap) (c : Cont) : List (K × V) → Heap × Cont
  | [] => (h, c)
  | (k, v) :: r => let (h1, c1) := setitem h c k v; setAll h1 c1 r

/-- `clear()`: `dict_clear(self)` drops every dict entry, `self.__items = []` rebinds to a new list -/
def clear (h : Heap) (_c : Cont) : Heap × Cont :=
  let (h1, it) := h.allocItems []
  (h1, ⟨it, []⟩)

/-- `discard(key)`: `del self[key]`, a `KeyError` is swallowed -/
def discard (h : Heap) (c : Cont) (k : K) : Heap × Cont :=
  if c.dict.any (fun p => p.1 == k) then delitem h c k else (h, c)

/-- `insert(index, key, value)` for one pair at the already normalised index: the item list is edited in
    place; the dict entry of the key is set to a freshly built value list (`[val for k, val in items if
    k == key]` for a present key, `[value]` for a new one) -/
def insertOne (h : Heap) (c : Cont) (i : Nat) (k : K) (v : V) : Heap × Cont :=
  let old := h.itemLists c.items
  let nl := old.take i ++ [(k, v)] ++ old.drop i
  let h1 := h.setItems c.items nl
  if c.dict.any (fun p => p.1 == k) then
    let (h2, vid) := h1.allocVals ((nl.filter (fun p => p.1 == k)).map (·.2))
    (h2, { c with dict := c.dict.map (fun p => if p.1 == k then (k, vid) else p) })
  else
    let (h2, vid) := h1.allocVals [v]
    (h2, { c with dict := c.dict ++ [(k, vid)] })

/-- `insert(index, pairs)`: the pairs go in one after the other, the index moving along -/
def insertAll (h : Heap) (c : Cont) (i : Nat) : List (K × V) → Heap × Cont
  | [] => (h, c)
  | (k, v) :: r => let (h1, c1) := insertOne h c i k v; insertAll h1 c1 (i + 1) r

inductive Op
  | append (k : K) (v : V)
  | delitem (k : K)
  | setitem (k : K) (v : V)
  | popLast
  | extend (ps : List (K × V))
  | update (ps : List (K × V))
  | clear
  | discard (k : K)
  | popall (k : K)
  | insert (i : Nat) (ps : List (K × V))
  deriving Repr

def step (h : Heap) (c : Cont) : Op → Heap × Cont
  | .append k v => append h c k v
  | .delitem k => delitem h c k
  | .setitem k v => setitem h c k v
  | .popLast => popLast h c
  | .extend ps => appendAll h c ps
  | .update ps => setAll h c ps
  | .clear => clear h c
  | .discard k => discard h c k
  | .popall k => discard h c k   -- `MutableMapping.pop`: `del self[key]`; a missing key raises, nothing changed
  | .insert i ps => insertAll h c i ps

def run (h : Heap) (c : Cont) : List Op → Heap × Cont
  | [] => (h, c)
  | o :: r => let (h1, c1) := step h c o; run h1 c1 r

/-- building the value lists of a new container from pairs, one fresh list per key -/
def buildDict (h : Heap) : List (K × V) → List (K × Nat) → Heap × List (K × Nat)
  | [], d => (h, d)
  | (k, v) :: r, d =>
    match d.find? (fun p => p.1 == k) with
    | some p => buildDict (h.setVals p.2 (h.valLists p.2 ++ [v])) r d
    | none =>
      let (h1, vid) := h.allocVals [v]
      buildDict h1 r (d ++ [(k, vid)])

/-- `type(self)(self)`: a new object, a fresh item list, fresh value lists, all built from the pairs -/
def copy (h : Heap) (c : Cont) : Heap × Cont :=
  let pairs := h.itemLists c.items
  let (h1, it) := h.allocItems pairs
  let (h2, d) := buildDict h1 pairs []
  (h2, ⟨it, d⟩)

/-- the broken copy of seeded change S-C11: the value lists are the original's -/
def copySharingValues (h : Heap) (c : Cont) : Heap × Cont :=
  let (h1, it) := h.allocItems (h.itemLists c.items)
  (h1, ⟨it, c.dict⟩)

end Pvl.Heap
