import PvlModel.Model.Parser
/-!
  Independent specification of the module grammar (CCSDS 641.0-B-2 §2, PDS3 SR ch. 12),
  over *classified* tokens.  It is written as a plain LL(2) recogniser with no back-tracking,
  no push-back and no exceptions, so that it can be read against the standards in minutes.
  The only tolerance of the permissive dialects is a missing value after `=` (C08).
-/
namespace Pvl.Spec

/-- token classes; `i` is the index of the token in the source token list -/
inductive STok
  | word (text : Str) (numeric : Bool)  -- unquoted text that may serve as a name or as a value
                             -- (`numeric`: Python treats the value as a number, e.g. TRUE)
  | nameOnly (text : Str)    -- acceptable as a parameter / block name but not as a value
                             -- (ODL: `^POINTER`, `NAMESPACE:NAME`, … are names, not identifiers)
  | val (numeric : Bool)     -- a scalar that cannot be a name
  | eq | semi | comma | lpar | rpar | lbrace | rbrace
  | units
  | beginKw (grp : Bool)
  | endKw (grp : Bool)
  | endStmt
  | junk
  deriving DecidableEq, Repr

inductive SVal
  | tok (i : Nat)
  | seq (l : List SVal)
  | set (l : List SVal)
  | units (v : SVal) (i : Nat)
  | missing (eqIdx : Nat)
  deriving Repr

inductive SItem
  | assign (nameIdx : Nat) (v : SVal)
  | block (grp : Bool) (nameIdx : Nat) (items : List SItem)
  deriving Repr

structure Dialect where
  omni : Bool          -- missing values tolerated
  odlUnits : Bool      -- units only after numeric scalars

abbrev Toks := List (Nat × STok)

def isNumericTok : STok → Bool
  | .val n => n
  | _ => false

/-- optional units expression after a value -/
def optUnits (d : Dialect) (numeric : Bool) (v : SVal) (ts : Toks) : SVal × Toks :=
  match ts with
  | (j, .units) :: r => if d.odlUnits && !numeric then (v, ts) else (.units v j, r)
  | _ => (v, ts)

mutual
/-- `<Value> ::= (<Simple-Value> | <Set> | <Sequence>) [<Units-Expression>]` -/
def sValue (d : Dialect) : Nat → Toks → Option (SVal × Toks)
  | 0, _ => none
  | fuel + 1, ts =>
    match ts with
    | (i, .word _ n) :: r => some (optUnits d n (.tok i) r)
    | (i, .val n) :: r => some (optUnits d n (.tok i) r)
    | (_, .lpar) :: r =>
      match sElems d fuel .rpar r with
      | some (l, r') => some (optUnits d false (.seq l) r')
      | none => none
    | (_, .lbrace) :: r =>
      match sElems d fuel .rbrace r with
      | some (l, r') => some (optUnits d false (.set l) r')
      | none => none
    | _ => none

/-- `[ <Value> ( "," <Value> )* ] close` -/
def sElems (d : Dialect) : Nat → STok → Toks → Option (List SVal × Toks)
  | 0, _, _ => none
  | fuel + 1, close, ts =>
    match ts with
    | (_, t) :: r =>
      if t = close then some ([], r)
      else match sValue d fuel ts with
        | some (v, r') => sMore d fuel close [v] r'
        | none => none
    | [] => none

def sMore (d : Dialect) : Nat → STok → List SVal → Toks → Option (List SVal × Toks)
  | 0, _, _, _ => none
  | fuel + 1, close, acc, ts =>
    match ts with
    | (_, t) :: r =>
      if t = close then some (acc, r)
      else if t = .comma then
        match sValue d fuel r with
        | some (v, r') => sMore d fuel close (acc ++ [v]) r'
        | none => none
      else none
    | [] => none
end

def nameOf : STok → Option Str
  | .word t _ => some t
  | .nameOnly t => some t
  | _ => none

def optSemi : Toks → Toks
  | (_, .semi) :: r => r
  | ts => ts

/-- may a value be missing before these tokens? (next statement, block keyword, delimiter,
    END, end of text) -/
def missingOk : Toks → Bool
  | [] => true
  | (_, .word _ _) :: (_, .eq) :: _ => true
  | (_, .nameOnly _) :: (_, .eq) :: _ => true
  | (_, .beginKw _) :: _ => true
  | (_, .endKw _) :: _ => true
  | (_, .endStmt) :: _ => true
  | (_, .semi) :: _ => true
  | _ => false

mutual
/-- statements up to (not including) an end-aggregation keyword, END, or the end of the text -/
def sItems (d : Dialect) : Nat → Toks → Option (List SItem × Toks)
  | 0, _ => none
  | fuel + 1, ts =>
    match ts with
    | (i, .nameOnly _) :: (e, .eq) :: r | (i, .word _ _) :: (e, .eq) :: r =>
      let valued : Option (SVal × Toks) :=
        if d.omni && missingOk r then some (.missing e, r) else sValue d fuel r
      match valued with
      | none => none
      | some (v, r') =>
        match sItems d fuel (optSemi r') with
        | some (rest, r'') => some (.assign i v :: rest, r'')
        | none => none
    | (_, .beginKw g) :: (_, .eq) :: (n, t) :: r =>
      match nameOf t with
      | none => none
      | some name =>
      match sItems d fuel (optSemi r) with
      | none => none
      | some (inner, r') =>
        match r' with
        | (_, .endKw g') :: r2 =>
          if g ≠ g' then none else
          let afterName : Option Toks :=
            match r2 with
            | (_, .eq) :: (_, t') :: r3 => if nameOf t' = some name then some r3 else none
            | (_, .eq) :: _ => none
            | _ => some r2
          match afterName with
          | none => none
          | some r3 =>
            match sItems d fuel (optSemi r3) with
            | some (rest, r4) => some (.block g n inner :: rest, r4)
            | none => none
        | _ => none
    | _ => some ([], ts)
end

/-- `<PVL-Module-Contents> ::= (<Assignment-Statement> | <Aggregation-Block>)* [<End-Statement>]`;
    nothing after END matters. -/
def sModule (d : Dialect) (ts : Toks) : Option (List SItem) :=
  match sItems d (2 * ts.length + 2) ts with
  | some (items, []) => some items
  | some (items, (_, .endStmt) :: _) => some items
  | _ => none

def index (l : List STok) : Toks := (List.range l.length).zip l

/-! ### reading lexed tokens as classified tokens, and a tree as values -/

open Pvl.Py in
/-- class of one lexed, non-WSC token for a grammar/decoder pair -/
def classify (d : Dec) (t : Str) : STok :=
  let g := d.g
  if t == [61] then .eq
  else if Tok.isDelimiter g t then .semi
  else if t == [44] then .comma
  else if t == [g.seqDelims.1] then .lpar
  else if t == [g.seqDelims.2] then .rpar
  else if t == [g.setDelims.1] then .lbrace
  else if t == [g.setDelims.2] then .rbrace
  else if Tok.isBeginAggregation g t then
    (match P.aggregationCls g t with
     | some .group => .beginKw true
     | some .object => .beginKw false
     | _ => .junk)
  else if g.groupKeywords.any (fun p => foldEq t p.2) then .endKw true
  else if g.objectKeywords.any (fun p => foldEq t p.2) then .endKw false
  else if Tok.isEndStatement g t then .endStmt
  else if startsWith t [g.unitsDelims.1] && endsWith t [g.unitsDelims.2] && t.length ≥ 2 then
    let u := strip (strip t [g.unitsDelims.1, g.unitsDelims.2]) g.whitespace
    if u.contains g.unitsDelims.1 || u.contains g.unitsDelims.2 then .junk else .units
  else
    let nameOk := Tok.isParameterName d t
    match decodeSimple d t with
    | .ok v => if nameOk then .word t (P.valIsNumber v) else .val (P.valIsNumber v)
    | .error _ => if nameOk then .nameOnly t else .junk

structure Src where
  d : Dec
  doc : Str
  toks : List Token       -- non-WSC tokens
  frozen : Bool

def tokAt (s : Src) (i : Nat) : Option Token := s.toks[i]?

mutual
def denoteVal (s : Src) : SVal → Option Val
  | .tok i => match tokAt s i with
    | some t => (match decodeSimple s.d t.text with | .ok v => some v | .error _ => none)
    | none => none
  | .seq l => (denoteVals s l).map Val.seq
  | .set l => (denoteVals s l).map (Val.set s.frozen)
  | .units v j =>
    match denoteVal s v, tokAt s j with
    | some x, some t =>
      some (.quant x (Py.strip (Py.strip t.text [s.d.g.unitsDelims.1, s.d.g.unitsDelims.2]) s.d.g.whitespace))
    | _, _ => none
  | .missing e => match tokAt s e with
    | some t => some (.empty ((Py.countChar s.doc 10 0 t.pos : Nat) + 1))
    | none => none
def denoteVals (s : Src) : List SVal → Option (List Val)
  | [] => some []
  | v :: r => match denoteVal s v, denoteVals s r with
    | some x, some xs => some (x :: xs)
    | _, _ => none
end

mutual
def denoteItem (s : Src) : SItem → Option (Str × Val)
  | .assign n v => match tokAt s n, denoteVal s v with
    | some t, some x => some (t.text, x)
    | _, _ => none
  | .block g n items => match tokAt s n, denoteItems s items with
    | some t, some xs => some (t.text, .cont (if g then .group else .object) xs)
    | _, _ => none
def denoteItems (s : Src) : List SItem → Option Items
  | [] => some []
  | i :: r => match denoteItem s i, denoteItems s r with
    | some x, some xs => some (x :: xs)
    | _, _ => none
end

/-- The specification's reading of a text: lex, drop white space and comments, classify,
    recognise, denote.  `none` = ill-formed (or lexically unreadable). -/
def specLoad (d : Dec) (kind : ParserKind) (text : Str) : Option Items :=
  let doc := if kind == .omni then omniPrepass text else text
  let (toks, tail) := lexAll d.g d doc
  let toks := toks.filter (fun t => !Tok.isWSC d.g t.text)
  let cls := toks.map (fun t => classify d t.text)
  let upToEnd := cls.takeWhile (fun c => c ≠ .endStmt)
  -- a lexical error is acceptable only after the END statement
  if tail ≠ .eof && upToEnd.length == cls.length then none else
  let dia : Dialect := ⟨kind == .omni, kind == .odl⟩
  match sModule dia (index cls) with
  | some tree => denoteItems ⟨d, doc, toks, kind != .odl⟩ tree
  | none => none

end Pvl.Spec
