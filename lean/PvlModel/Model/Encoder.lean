import PvlModel.Model.Token
import PvlModel.Model.PyWrap
/-!
  Model of `pvl/encoder.py`: `PVLEncoder`, `ODLEncoder`, `PDSLabelEncoder`, `ISISEncoder` and all
  constructor options.  A real reaches the model as the text of `str(value)` and is emitted
  verbatim.  Sets arrive as the list of their elements in iteration order.
-/
namespace Pvl
open Py

inductive EncKind | pvl | odl | pds | isis
  deriving DecidableEq, Repr

structure EncCfg where
  kind : EncKind
  g : Grammar
  d : Dec
  indent : Nat
  width : Nat
  aggregationEnd : Bool
  endDelimiter : Bool
  newline : Str
  convertGroupToObject : Bool := true
  tabReplace : Nat := 4
  symbolSingleQuote : Bool := true
  timeTrailingZ : Bool := true

/-- what an encoder call can raise -/
inductive EErr | value | type
  deriving DecidableEq, Repr

namespace Enc

def isOdlFamily (c : EncCfg) : Bool := c.kind == .odl || c.kind == .pds

def delim (c : EncCfg) : Str :=
  if c.endDelimiter then (match c.g.delimiters with | d :: _ => d | [] => []) else []

/-- Python `str.strip()` without argument -/
def pyStrip (s : Str) : Str := ((s.dropWhile isSpace).reverse.dropWhile isSpace).reverse

/-- stand-in for a white-space character shielded from `textwrap` -/
def standIn (c : Nat) : Nat := 0xF000 + c
def isShieldable (c : Nat) : Bool := c == 32 || c == 9 || c == 10 || c == 13 || c == 11 || c == 12
def isStandIn (c : Nat) : Bool := c ≥ 0xF000 && isShieldable (c - 0xF000)

/-- quote characters inside which lines may still be broken (`_wrappable_quotes`) -/
def wrappableQuotes (c : EncCfg) : List Nat := if isOdlFamily c then [34] else []

/-- `_protect_whitespace`: inside quoted strings (not the wrappable ones) and units expressions the
    white-space characters are swapped for stand-ins. -/
def protectGo (c : EncCfg) : Str → Option Nat → Option Nat → Str
  | [], _, _ => []
  | ch :: r, none, prev =>
    let e : Option Nat :=
      if c.g.quotes.contains ch && !(wrappableQuotes c).contains ch then some ch
      else if ch == c.g.unitsDelims.1 then some c.g.unitsDelims.2
      else none
    -- no line break right after a dash (it would read back as a dash-continuation)
    (if prev == some 45 && isShieldable ch then standIn ch else ch) :: protectGo c r e (some ch)
  | ch :: r, some e, _ =>
    (if isShieldable ch then standIn ch else ch) :: protectGo c r (if ch == e then none else some e) (some ch)

def protect (c : EncCfg) (s : Str) : Str :=
  if s.any isStandIn then s else protectGo c s none none

def restore (s : Str) : Str := s.map (fun ch => if isStandIn ch then ch - 0xF000 else ch)

/-- `PVLEncoder.format` (encoder.py:183) -/
def format (c : EncCfg) (s : Str) (level : Nat) : Except EErr Str :=
  let pre := List.replicate (level * c.indent) 32
  let (preq, _, posteq) := partitionChar s 61
  if (pre ++ s ++ c.newline).length > c.width && !(pyStrip posteq).isEmpty then
    let newPre := pre ++ pyStrip preq ++ [32, 61, 32]
    match wrap (protect c (pyStrip posteq)) ((c.width : Int) - c.newline.length) newPre
        (List.replicate newPre.length 32) with
    | none => .error .value
    | some lines => .ok (restore (join c.newline lines))
  else .ok (pre ++ s)

def pad (n w : Nat) : Str :=
  let s := (toString n).toList.map Char.toNat
  List.replicate (w - s.length) 48 ++ s

def natStr (n : Nat) : Str := (toString n).toList.map Char.toNat

/-- `f"{value.year:04d}-{value:%m-%d}"` -/
def encodeDate (y m d : Nat) : Str := pad y 4 ++ [45] ++ pad m 2 ++ [45] ++ pad d 2

/-- `PVLEncoder.encode_time` (encoder.py:437) -/
def encodeTimeBase (h mi s us : Nat) : Str :=
  pad h 2 ++ [58] ++ pad mi 2 ++
    (if us != 0 then [58] ++ pad s 2 ++ [46] ++ pad us 6
     else if s != 0 then [58] ++ pad s 2 else [])

def encodeTime (c : EncCfg) (h mi s us : Nat) (tz : Option Int) : Except EErr Str :=
  match c.kind with
  | .pvl | .isis =>
    -- PVL has no notation for a zone: anything but UTC is refused
    (match tz with
     | some off => if off != 0 then .error .value else .ok (encodeTimeBase h mi s us)
     | none => .ok (encodeTimeBase h mi s us))
  | .odl =>
    match tz with
    | none => .error .value
    | some off =>
      let t := encodeTimeBase h mi s us
      if off == 0 then .ok (t ++ [90])
      else
        let a := off.natAbs
        if a % 60 != 0 then .error .value
        else
          let hh := a / 3600
          let mm := (a % 3600) / 60
          if hh > 12 then .error .value
          else
            let sg : Nat := if off < 0 then 45 else 43
            .ok (t ++ [sg] ++ pad hh 2 ++ (if mm == 0 then [] else [58] ++ pad mm 2))
  | .pds =>
    if us % 1000 != 0 then .error .value
    else
      let base := pad h 2 ++ [58] ++ pad mi 2 ++
        (if us != 0 then [58] ++ pad s 2 ++ [46] ++ pad (us / 1000) 3
         else if s != 0 then [58] ++ pad s 2 else [])
      match tz with
      | none => .ok (if c.timeTrailingZ then base ++ [90] else base)
      | some 0 => .ok (if c.timeTrailingZ then base ++ [90] else base)
      | some _ => .error .value

/-- `ODLEncoder.is_symbol` (encoder.py:598); `None` and `False` are both falsy. -/
def isSymbol (c : EncCfg) (s : Str) : Bool :=
  !s.contains 39 && !(c.g.formatEffectors.any (fun f => s.contains f)) &&
    !(2 * s.length > c.width) && s.all isPrintable && !s.isEmpty

/-- the module-level `_permissive_decoder` of encoder.py: `OmniDecoder(grammar=OmniGrammar())` -/
def permissiveDec : Dec := ⟨Gen.omni, .omni⟩

/-- `PVLEncoder.needs_quotes` (encoder.py:458) -/
def needsQuotesBase (c : EncCfg) (s : Str) : Except EErr Bool :=
  if c.g.whitespace.any (fun w => s.contains w) then .ok true
  else if c.g.reservedKeywords.contains s then .ok true
  else
      let b := Tok.isUnquotedString c.d s
      if s.isEmpty || !b then .ok true
      else if endsWith s [45] then .ok true
      else match decodeSimple c.d s with
        | .ok (.str t) =>
          if t != s then .ok true
          else
            -- the default loader's decoder must give the same string back, too
            (match decodeSimple permissiveDec s with
             | .ok (.str t') => .ok (t' != s)
             | .ok _ => .ok true
             | .error .value => .ok true)
        | .ok _ => .ok true
        | .error .value => .ok true

/-- `needs_quotes` of each class (`ODLEncoder.needs_quotes`, :633, adds the identifier rule) -/
def needsQuotes (c : EncCfg) (s : Str) : Except EErr Bool :=
  if isOdlFamily c then
    (if !isIdentifier s then .ok true else needsQuotesBase c s)
  else needsQuotesBase c s

/-- `PVLEncoder.encode_string` (encoder.py:471) -/
def encodeStringBase (c : EncCfg) (s : Str) (nq : Bool) : Except EErr Str :=
  if nq then
    match c.g.quotes.find? (fun q => !s.contains q) with
    | some q => .ok ([q] ++ s ++ [q])
    | none => .error .value
  else .ok s

/-- `ODLEncoder._encode_text_string`: quoted as `PVLEncoder` does; a result in single quotes is a Symbol
    String and may not hold a format effector -/
def encodeTextString (c : EncCfg) (s : Str) : Except EErr Str :=
  match encodeStringBase c s true with
  | .ok t =>
    if startsWith t [39] && c.g.formatEffectors.any (fun f => s.contains f) then .error .value else .ok t
  | .error e => .error e

/-- `encode_string` of each class -/
def encodeString (c : EncCfg) (s : Str) : Except EErr Str :=
  match c.kind with
  | .pvl | .isis =>
    match needsQuotes c s with
    | .ok nq => encodeStringBase c s nq
    | .error e => .error e
  | .odl =>
    match needsQuotes c s with
    | .error e => .error e
    | .ok false => .ok s
    | .ok true =>
      if isSymbol c s then .ok ([39] ++ s ++ [39])
      else encodeTextString c s
  | .pds =>
    match needsQuotes c s with
    | .error e => .error e
    | .ok false => .ok s
    | .ok true =>
      if isSymbol c s && c.symbolSingleQuote then .ok ([39] ++ s ++ [39])
      else
        encodeTextString c s

/-- the exponent check of `ODLEncoder.encode_units`: every `**` followed by a character (not a
    newline) must be followed by a decimal digit. -/
def exponentsOk : Str → Bool
  | 42 :: 42 :: x :: r => if x == 10 then exponentsOk (42 :: x :: r) else isDecimal x && exponentsOk r
  | _ :: r => exponentsOk r
  | [] => true

def encodeUnits (c : EncCfg) (u : Str) : Except EErr Str :=
  let wrapd : Str := [c.g.unitsDelims.1] ++ u ++ [c.g.unitsDelims.2]
  if isOdlFamily c then
    let stripped := u.filter (fun x => !(isSpace x || x == 42 || x == 47 || x == 40 || x == 41 || x == 45))
    if isIdentifier stripped then
      (if isInfix [42, 42] u && !exponentsOk u then .error .value else .ok wrapd)
    else .error .value
  else .ok wrapd

def isNumericVal : Val → Bool
  | .int _ => true
  | .bool _ => true
  | .real _ => true
  | _ => false

/-- `ODLEncoder.is_scalar` -/
def isScalar : Val → Bool
  | .quant v _ => isNumericVal v
  | .int _ | .bool _ | .real _ => true
  | .date _ _ _ | .time _ _ _ _ _ | .datetime _ _ _ _ _ _ _ _ => true
  | .str _ | .empty _ => true
  | _ => false

def isIntVal : Val → Bool
  | .int _ => true
  | .bool _ => true
  | _ => false

def strOf : Val → Option Str
  | .str s => some s
  | .empty _ => some []
  | _ => none

def intStr (i : Int) : Str := (toString i).toList.map Char.toNat

mutual
/-- `encode_value` -/
def encodeValue (c : EncCfg) : Val → Except EErr Str
  | .quant v u =>
    if isOdlFamily c && !isNumericVal v then .error .value
    else
      -- encode_quantity inside `try … except ValueError: encode_simple_value(quantity)`
      match encodeSimple c v with
      | .error .value => .error .type      -- the namedtuple itself is "not serializable"
      | .error .type => .error .type
      | .ok vs =>
        match encodeUnits c u with
        | .error .value => .error .type
        | .error .type => .error .type
        | .ok us => .ok (vs ++ [32] ++ us)
  | v => encodeSimple c v

/-- `encode_simple_value` (encoder.py:370) -/
def encodeSimple (c : EncCfg) : Val → Except EErr Str
  | .none => .ok c.g.noneKw
  | .set _ l =>
    if isOdlFamily c && !(l.all isScalar) then .error .value
    else if c.kind == .pds && !(l.all (fun v => (match strOf v with | some s => isSymbol c s | none => false) || isIntVal v))
    then .error .value
    else match encodeSeq c l with
      | .ok s => .ok ([c.g.setDelims.1] ++ s ++ [c.g.setDelims.2])
      | .error e => .error e
  | .seq l =>
    if isOdlFamily c && l.isEmpty then .error .value
    else if isOdlFamily c && !(l.all (fun v => match v with
        | .seq inner => inner.all (fun i => match i with | .seq _ => false | x => isScalar x)
        | x => isScalar x)) then .error .value
    else match encodeSeq c l with
      | .ok s => .ok ([c.g.seqDelims.1] ++ s ++ [c.g.seqDelims.2])
      | .error e => .error e
  | .datetime y m d h mi s us tz =>
    match encodeTime c h mi s us tz with
    | .ok t => .ok (encodeDate y m d ++ [84] ++ t)
    | .error e => .error e
  | .date y m d => .ok (encodeDate y m d)
  | .time h mi s us tz => encodeTime c h mi s us tz
  | .bool b => .ok (if b then c.g.trueKw else c.g.falseKw)
  | .int i => .ok (intStr i)
  | .real t => .ok t
  | .str s => encodeString c s
  | .empty _ => encodeString c []
  | .quant _ _ => .error .type
  | .cont _ _ => .error .type

/-- `encode_setseq`: `", ".join(encode_value(v) …)` -/
def encodeSeq (c : EncCfg) : List Val → Except EErr Str
  | [] => .ok []
  | [v] => encodeValue c v
  | v :: r =>
    match encodeValue c v, encodeSeq c r with
    | .ok a, .ok b => .ok (a ++ [44, 32] ++ b)
    | .error e, _ => .error e
    | _, .error e => .error e
end

def isAssignmentKey (s : Str) : Bool :=
  isIdentifier s ||
    (let (ns, _, el) := partitionChar s 58
     isIdentifier ns && isIdentifier el)

/-- `encode_assignment` (PVL: encoder.py:301, ODL: :657) -/
def encodeAssignment (c : EncCfg) (key : Str) (v : Val) (level keyLen : Nat) : Except EErr Str :=
  if isOdlFamily c then
    if key.length > 30 then .error .value
    else if !((startsWith key [94] && isAssignmentKey (key.drop 1)) || isAssignmentKey key) then .error .value
    else match encodeValue c v with
      | .error e => .error e
      | .ok ev => format c (ljust (upperAscii key) keyLen ++ [32, 61, 32] ++ ev ++ delim c) level
  else
    match encodeValue c v with
    | .error e => .error e
    | .ok ev =>
      let s := ljust key keyLen ++ [32, 61, 32]
      if c.g.quotes.any (fun q => startsWith ev [q]) then
        match format c s level with
        | .ok f => .ok (f ++ ev ++ delim c)
        | .error e => .error e
      else format c (s ++ ev ++ delim c) level

def isMapping : Val → Bool
  | .cont _ _ => true
  | _ => false

def countAggs (items : Items) : Nat × Nat :=
  items.foldl (fun (o, g) p => match p.2 with
    | .cont .group _ => (o, g + 1)
    | .cont _ _ => (o + 1, g)
    | _ => (o, g)) (0, 0)

def hasDup : List Str → Bool
  | [] => false
  | k :: r => r.contains k || hasDup r

/-- `PDSLabelEncoder.is_PDSgroup` (encoder.py:968) -/
def isPDSgroup (items : Items) : Bool :=
  let (o, g) := countAggs items
  o == 0 && g == 0 &&
  !(items.any (fun p => startsWith p.1 [94] &&
      (isIntVal p.2 || (match p.2 with | .quant v _ => isIntVal v | _ => false)))) &&
  !(hasDup (items.map (·.1)))

mutual
/-- `encode_module` (encoder.py:239) -/
def encodeModule (c : EncCfg) (items : Items) (level : Nat) : Nat → Except EErr Str
  | 0 => .error .type
  | fuel + 1 =>
    let keyLen := (items.filter (fun p => !isMapping p.2)).foldl (fun m p => max m p.1.length) 0
    match encodeItems c items level keyLen fuel with
    | .ok lines => .ok (join c.newline lines)
    | .error e => .error e

def encodeItems (c : EncCfg) (items : Items) (level keyLen : Nat) : Nat → Except EErr (List Str)
  | 0 => .error .type
  | fuel + 1 =>
    match items with
    | [] => .ok []
    | (k, v) :: r =>
      let line : Except EErr Str := match v with
        | .cont kind inner => encodeBlock c k kind inner level fuel
        | _ => encodeAssignment c k v level keyLen
      match line, encodeItems c r level keyLen fuel with
      | .ok l, .ok ls => .ok (l :: ls)
      | .error e, _ => .error e
      | _, .error e => .error e

/-- `encode_aggregation_block` (encoder.py:265; PDS: :1028) -/
def encodeBlock (c : EncCfg) (key : Str) (kind : CKind) (inner : Items) (level : Nat) :
    Nat → Except EErr Str
  | 0 => .error .type
  | fuel + 1 =>
    let conv : Except EErr CKind :=
      if c.kind == .pds && kind == .group && !isPDSgroup inner then
        (if c.convertGroupToObject then .ok .object else .error .value)
      else .ok kind
    match conv with
    | .error e => .error e
    | .ok kind' =>
      let kw := if kind' == .group then c.g.groupPref else c.g.objectPref
      let beginS := kw.1 ++ [32, 61, 32] ++ key ++ delim c
      let endS := (if c.aggregationEnd then kw.2 ++ [32, 61, 32] ++ key else kw.2) ++ delim c
      match format c beginS level, encodeModule c inner (level + 1) fuel, format c endS level with
      | .ok b, .ok m, .ok e => .ok (join c.newline [b, m, e])
      | .error e, _, _ => .error e
      | _, .error e, _ => .error e
      | _, _, .error e => .error e
end

/-- depth bound used as fuel for the structural recursion over the module -/
def depthOf : Nat → Items → Nat
  | 0, _ => 0
  | f + 1, items => items.foldl (fun m p => match p.2 with
      | .cont _ inner => max m (1 + depthOf f inner)
      | _ => m) 1

def sizeOf' : Nat → Items → Nat
  | 0, _ => 1
  | f + 1, items => items.foldl (fun n p => match p.2 with
      | .cont _ inner => n + 1 + sizeOf' f inner
      | _ => n + 1) 1

/-- `_group_to_object`: the first item satisfying `p` has its class changed to OBJECT, in place;
    every other item stays where it is. -/
def convertFirst (p : Str × Val → Bool) : Items → Option Items
  | [] => none
  | (k, v) :: r =>
    if p (k, v) then
      (match v with
       | .cont _ inner => some ((k, .cont .object inner) :: r)
       | _ => none)
    else (convertFirst p r).map (fun r' => (k, v) :: r')

/-- the group-to-object conversion at the top of `PDSLabelEncoder.encode` (encoder.py:932-960):
    the module after the in-place assignment, or the refusal. -/
def pdsConvert (c : EncCfg) (items : Items) : Except EErr Items :=
  let (o, g) := countAggs items
  if g > 0 && o < 1 then
    if c.convertGroupToObject then
      match convertFirst (fun p => match p.2 with | .cont .group inner => !isPDSgroup inner | _ => false) items with
      | some items' => .ok items'
      | none =>
        match convertFirst (fun p => match p.2 with | .cont .group _ => true | _ => false) items with
        | some items' => .ok items'
        | none => .error .value
    else .error .value
  else .ok items

structure EncResult where
  out : Except EErr Str
  /-- the caller's module after the call (only the PDS encoder assigns into it) -/
  after : Items

/-- the caller's module after `encoder.encode(module)`: only `PDSLabelEncoder.encode` stores into
    its argument, and only when the conversion goes through -/
def encodeAfter (c : EncCfg) (items : Items) : Items :=
  if c.kind == .pds then
    (match pdsConvert c items with
     | .ok items' => items'
     | .error _ => items)
  else items

def charAllowedE (g : Grammar) (ch : Nat) : Bool := inRanges g.allowed ch

/-- the END line: the grammar's end statement, plus the delimiter when configured -/
def endLine (c : EncCfg) : Str := (match c.g.endStatements with | e :: _ => e | [] => []) ++ delim c

/-- what happens to the swept text afterwards: ODL-family encoders add the line end, PDS3 replaces tabs -/
def finish (c : EncCfg) (s0 : Str) : Str :=
  let s := if isOdlFamily c then s0 ++ c.newline else s0
  if c.kind == .pds && c.tabReplace > 0
  then s.flatMap (fun ch => if ch == 9 then List.replicate c.tabReplace 32 else [ch]) else s

/-- the text `encoder.encode(module)` returns, or its refusal -/
def encodeOut (c : EncCfg) (items : Items) : Except EErr Str :=
  let conv : Except EErr Items := if c.kind == .pds then pdsConvert c items else .ok items
  match conv with
  | .error e => .error e
  | .ok items' =>
    let fuel := sizeOf' (items'.length + 64) items' + 64
    match encodeModule c items' 0 fuel with
    | .error e => .error e
    | .ok body =>
      -- final sweep; the message construction `s[i - 5, i + 5]` raises TypeError
      if (join c.newline [body, endLine c]).all (charAllowedE c.g) then
        .ok (finish c (join c.newline [body, endLine c]))
      else .error .type

/-- `encoder.encode(module)` -/
def encode (c : EncCfg) (items : Items) : EncResult := ⟨encodeOut c items, encodeAfter c items⟩

end Enc
end Pvl
