/-
  Model of `pvl.collections.OrderedMultiDict` (collections.py:139-416).

  The real class keeps two representations that every mutator must update by hand:
    * `items`  — the private list of (key, value) pairs (`self.__items`), the sequence view;
    * `dict`   — the inherited `dict` storage key ↦ list of values, the mapping view
                 (written through `dict_setitem` / `dict_delitem`).
  Both are modelled; every method below follows the Python statement by statement.
  Mathlib-free and executable (the driver runs these definitions).
-/
namespace Pvl.MD

/-! ## Python list helpers -/

/-- `list.insert(i, x)` with CPython's clamping of the index. -/
def pyInsert {α} (l : List α) (i : Int) (x : α) : List α :=
  let n : Int := l.length
  let j : Int := if i < 0 then (if i + n < 0 then 0 else i + n) else (if i > n then n else i)
  l.take j.toNat ++ x :: l.drop j.toNat

/-- `l[i]` with a possibly negative index; `none` is `IndexError`. -/
def pyIndex {α} (l : List α) (i : Int) : Option α :=
  let n : Int := l.length
  if i < 0 then (if i + n < 0 then none else l[(i + n).toNat]?) else l[i.toNat]?

/-- Clamp a slice bound as `PySlice_AdjustIndices` does for step 1. -/
def clampBound (n : Nat) (b : Option Int) (dflt : Nat) : Nat :=
  match b with
  | none => dflt
  | some i =>
    let m : Int := n
    if i < 0 then (if i + m < 0 then 0 else (i + m).toNat) else (if i > m then n else i.toNat)

/-- `l[a:b]` (step 1). -/
def pySlice {α} (l : List α) (a b : Option Int) : List α :=
  let lo := clampBound l.length a 0
  let hi := clampBound l.length b l.length
  (l.drop lo).take (hi - lo)

/-! ## The `dict` storage as an association list -/

section
variable {K V : Type} [DecidableEq K]

abbrev Dict (K V : Type) := List (K × List V)

def dget : Dict K V → K → Option (List V)
  | [], _ => none
  | (k', vs) :: r, k => if k' = k then some vs else dget r k

def dset : Dict K V → K → List V → Dict K V
  | [], k, vs => [(k, vs)]
  | (k', vs') :: r, k, vs => if k' = k then (k, vs) :: r else (k', vs') :: dset r k vs

def ddel : Dict K V → K → Dict K V
  | [], _ => []
  | (k', vs') :: r, k => if k' = k then ddel r k else (k', vs') :: ddel r k

inductive Err | key | index | type
  deriving DecidableEq, Repr

/-- The two representations. -/
structure OMD (K V : Type) where
  items : List (K × V)
  dict : Dict K V

def empty : OMD K V := ⟨[], []⟩

/-- `key in self` — `dict.__contains__`, not overridden. -/
def contains (s : OMD K V) (k : K) : Bool := (dget s.dict k).isSome

/-- `append` (collections.py:250). -/
def append (s : OMD K V) (k : K) (v : V) : OMD K V :=
  { items := s.items ++ [(k, v)]
    dict := match dget s.dict k with
      | some vs => dset s.dict k (vs ++ [v])
      | none => dset s.dict k [v] }

/-- `extend` / the constructor (collections.py:261). -/
def extend (s : OMD K V) (ps : List (K × V)) : OMD K V :=
  ps.foldl (fun s p => append s p.1 p.2) s

/-- Replace the first pair whose key is `k` by `(k, v)` and drop the later ones
    (the loop of `__setitem__`, collections.py:161-170). -/
def replaceFirst (k : K) (v : V) : List (K × V) → List (K × V)
  | [] => []
  | (k', v') :: r => if k' = k then (k, v) :: r.filter (fun p => p.1 ≠ k)
                     else (k', v') :: replaceFirst k v r

/-- `__setitem__` (collections.py:156). -/
def setitem (s : OMD K V) (k : K) (v : V) : OMD K V :=
  if !contains s k then append s k v
  else { items := replaceFirst k v s.items, dict := dset s.dict k [v] }

/-- `__getitem__` with a non-integer key (collections.py:175): `dict_getitem(self, key)[0]`. -/
def getitem (s : OMD K V) (k : K) : Except Err V :=
  match dget s.dict k with
  | none => .error .key
  | some [] => .error .index
  | some (v :: _) => .ok v

/-- `__delitem__` (collections.py:177). -/
def delitem (s : OMD K V) (k : K) : Except Err (OMD K V) :=
  match dget s.dict k with
  | none => .error .key
  | some _ => .ok { items := s.items.filter (fun p => p.1 ≠ k), dict := ddel s.dict k }

/-- `pop()` without arguments (collections.py:308-321). -/
def popLast (s : OMD K V) : Except Err ((K × V) × OMD K V) :=
  match s.items.getLast? with
  | none => .error .key
  | some (k, v) =>
    match dget s.dict k with
    | none => .error .key
    | some vs =>
      let vs' := vs.dropLast
      .ok ((k, v), { items := s.items.dropLast
                     dict := if vs'.isEmpty then ddel s.dict k else dset s.dict k vs' })

/-- `popall` = `MutableMapping.pop` (collections.py:303): `self[key]`, then `del self[key]`. -/
def popall (s : OMD K V) (k : K) (dflt : Option V) : Except Err (V × OMD K V) :=
  match getitem s k with
  | .error .key =>
    match dflt with
    | some d => .ok (d, s)
    | none => .error .key
  | .error e => .error e
  | .ok v =>
    match delitem s k with
    | .error e => .error e
    | .ok s' => .ok (v, s')

/-- `setdefault` = `MutableMapping.setdefault`. -/
def setdefault (s : OMD K V) (k : K) (d : V) : Except Err (V × OMD K V) :=
  match getitem s k with
  | .error .key => .ok (d, setitem s k d)
  | .error e => .error e
  | .ok v => .ok (v, s)

/-- `update` = `MutableMapping.update` on a sequence of pairs / a plain mapping / kwargs:
    `self[key] = value` for each pair in turn. -/
def update (s : OMD K V) (ps : List (K × V)) : OMD K V :=
  ps.foldl (fun s p => setitem s p.1 p.2) s

/-- `discard` (collections.py:236). -/
def discard (s : OMD K V) (k : K) : OMD K V :=
  match delitem s k with
  | .ok s' => s'
  | .error _ => s

def clear (_ : OMD K V) : OMD K V := ⟨[], []⟩

/-- Normalisation of the index at the top of `insert` (collections.py:349). -/
def normIndex (n : Nat) (i : Int) : Nat :=
  let m : Int := n
  if i < 0 then (if i + m < 0 then 0 else (i + m).toNat) else (if i > m then n else i.toNat)

/-- One iteration of the loop of `insert` (collections.py:377-386). -/
def insertOne (s : OMD K V) (i : Nat) (k : K) (v : V) : OMD K V :=
  let items' := pyInsert s.items (i : Int) (k, v)
  { items := items'
    dict := if contains s k
      then dset s.dict k ((items'.filter (fun p => p.1 = k)).map (·.2))
      else dset s.dict k [v] }

def insertLoop (s : OMD K V) (i : Nat) : List (K × V) → OMD K V
  | [] => s
  | (k, v) :: r => insertLoop (insertOne s i k v) (i + 1) r

/-- `insert(index, pairs)`. -/
def insert (s : OMD K V) (i : Int) (ps : List (K × V)) : OMD K V :=
  insertLoop s (normIndex s.items.length i) ps

/-- positions of `k` in `keys()`. -/
def positions (k : K) : List (K × V) → Nat → List Nat
  | [], _ => []
  | (k', _) :: r, n => if k' = k then n :: positions k r (n + 1) else positions k r (n + 1)

/-- `key_index(key, instance)` (collections.py:390). -/
def keyIndex (s : OMD K V) (k : K) (inst : Int) : Except Err Nat :=
  if !contains s k then .error .key
  else match pyIndex (positions k s.items 0) inst with
    | some i => .ok i
    | none => .error .index

def insertAfter (s : OMD K V) (k : K) (ps : List (K × V)) (inst : Int) : Except Err (OMD K V) :=
  match keyIndex s k inst with
  | .error e => .error e
  | .ok i => .ok (insert s ((i : Int) + 1) ps)

def insertBefore (s : OMD K V) (k : K) (ps : List (K × V)) (inst : Int) : Except Err (OMD K V) :=
  match keyIndex s k inst with
  | .error e => .error e
  | .ok i => .ok (insert s (i : Int) ps)

/-! ### observers -/

/-- `get` = `Mapping.get`. -/
def get (s : OMD K V) (k : K) (d : Option V) : Except Err (Option V) :=
  match getitem s k with
  | .ok v => .ok (some v)
  | .error .key => .ok d
  | .error e => .error e

/-- `getall` (collections.py:278). -/
def getall (s : OMD K V) (k : K) : Except Err (List V) :=
  match dget s.dict k with
  | none => .error .key
  | some vs => .ok vs

/-- `__eq__` for two containers of the same class (collections.py:187-204). -/
def eqv [DecidableEq V] (a b : OMD K V) : Bool :=
  if a.items.length != b.items.length then false
  else (a.items.zip b.items).all (fun p => p.1.1 = p.2.1 && p.1.2 = p.2.2)

/-! ## Operations and outputs as data (for histories) -/

inductive Op (K V : Type)
  | append (k : K) (v : V)
  | extend (ps : List (K × V))
  | insert (i : Int) (ps : List (K × V))
  | insertBefore (k : K) (ps : List (K × V)) (inst : Int)
  | insertAfter (k : K) (ps : List (K × V)) (inst : Int)
  | setitem (k : K) (v : V)
  | delitem (k : K)
  | pop
  | popKey (k : K) (d : Option V)
  | popall (k : K) (d : Option V)
  | popitem
  | setdefault (k : K) (v : V)
  | update (ps : List (K × V))
  | discard (k : K)
  | clear

inductive Out (K V : Type)
  | none
  | val (v : V)
  | pair (p : K × V)
  | err (e : Err)
  deriving DecidableEq

/-- One operation on the two-representation model: new state and the Python-visible result. -/
def step (s : OMD K V) : Op K V → OMD K V × Out K V
  | .append k v => (append s k v, .none)
  | .extend ps => (extend s ps, .none)
  | .insert i ps => (insert s i ps, .none)
  | .insertBefore k ps inst =>
    match insertBefore s k ps inst with
    | .ok s' => (s', .none)
    | .error e => (s, .err e)
  | .insertAfter k ps inst =>
    match insertAfter s k ps inst with
    | .ok s' => (s', .none)
    | .error e => (s, .err e)
  | .setitem k v => (setitem s k v, .none)
  | .delitem k =>
    match delitem s k with
    | .ok s' => (s', .none)
    | .error e => (s, .err e)
  | .pop | .popitem =>
    match popLast s with
    | .ok (p, s') => (s', .pair p)
    | .error e => (s, .err e)
  | .popKey k d | .popall k d =>
    match popall s k d with
    | .ok (v, s') => (s', .val v)
    | .error e => (s, .err e)
  | .setdefault k v =>
    match setdefault s k v with
    | .ok (v', s') => (s', .val v')
    | .error e => (s, .err e)
  | .update ps => (update s ps, .none)
  | .discard k => (discard s k, .none)
  | .clear => (clear s, .none)

def run (s : OMD K V) (ops : List (Op K V)) : OMD K V :=
  ops.foldl (fun s op => (step s op).1) s

/-! ## The specification: one ordered list of pairs, written from the property text -/

namespace Spec

def valuesOf (l : List (K × V)) (k : K) : List V :=
  (l.filter (fun p => p.1 = k)).map (·.2)

def hasKey (l : List (K × V)) (k : K) : Bool := l.any (fun p => p.1 = k)

/-- first value of `k`. -/
def first (l : List (K × V)) (k : K) : Option V := (valuesOf l k).head?

def remove (l : List (K × V)) (k : K) : List (K × V) := l.filter (fun p => p.1 ≠ k)

/-- assignment: replace the first occurrence and drop later ones; append when absent. -/
def assign (l : List (K × V)) (k : K) (v : V) : List (K × V) :=
  if hasKey l k then replaceFirst k v l else l ++ [(k, v)]

/-- insert places the pairs at the (clamped) index. -/
def splice (l : List (K × V)) (i : Int) (ps : List (K × V)) : List (K × V) :=
  let j := normIndex l.length i
  l.take j ++ ps ++ l.drop j

def keyIndex (l : List (K × V)) (k : K) (inst : Int) : Except Err Nat :=
  if !hasKey l k then .error .key
  else match pyIndex (positions k l 0) inst with
    | some i => .ok i
    | none => .error .index

def step (l : List (K × V)) : Op K V → List (K × V) × Out K V
  | .append k v => (l ++ [(k, v)], .none)
  | .extend ps => (l ++ ps, .none)
  | .insert i ps => (splice l i ps, .none)
  | .insertBefore k ps inst =>
    match keyIndex l k inst with
    | .ok i => (splice l (i : Int) ps, .none)
    | .error e => (l, .err e)
  | .insertAfter k ps inst =>
    match keyIndex l k inst with
    | .ok i => (splice l ((i : Int) + 1) ps, .none)
    | .error e => (l, .err e)
  | .setitem k v => (assign l k v, .none)
  | .delitem k => if hasKey l k then (remove l k, .none) else (l, .err .key)
  | .pop | .popitem =>
    match l.getLast? with
    | some p => (l.dropLast, .pair p)
    | none => (l, .err .key)
  | .popKey k d | .popall k d =>
    match first l k with
    | some v => (remove l k, .val v)
    | none => match d with
      | some dv => (l, .val dv)
      | none => (l, .err .key)
  | .setdefault k v =>
    match first l k with
    | some v' => (l, .val v')
    | none => (l ++ [(k, v)], .val v)
  | .update ps => (ps.foldl (fun l p => assign l p.1 p.2) l, .none)
  | .discard k => (remove l k, .none)
  | .clear => ([], .none)

def run (l : List (K × V)) (ops : List (Op K V)) : List (K × V) :=
  ops.foldl (fun l op => (step l op).1) l

end Spec

/-- The two representations agree: the mapping view holds, for each key, exactly the list of
    that key's values in item order, and holds no key that has no item. -/
def Inv (s : OMD K V) : Prop :=
  ∀ k, dget s.dict k = (if Spec.valuesOf s.items k = [] then none else some (Spec.valuesOf s.items k))

end
end Pvl.MD
