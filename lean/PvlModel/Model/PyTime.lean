import PvlModel.Model.PyNum
/-!
  `datetime.strptime(text, fmt)` for the format strings the grammars use: the directives
  `%Y %m %d %j %H %M %S %f` and literal characters.  CPython's `_strptime` turns the format
  into a regular expression compiled with IGNORECASE, matches it anchored at the start
  (back-tracking, alternatives in the written order), then rejects unconverted data, then
  builds the calendar fields.
-/
namespace Pvl.Py

/-- character classes of the directive regexes -/
inductive CC
  | d            -- \d : Unicode decimal
  | r (lo hi : Nat)   -- ASCII digit range [lo-hi] as characters
  | lit (c : Nat)     -- a literal, matched case-insensitively
  | sp           -- ' ' (in `%d`: " [1-9]")
  deriving Repr

def CC.ok : CC → Nat → Bool
  | .d, c => isDecimal c
  | .r lo hi, c => lo ≤ c && c ≤ hi
  | .lit l, c => lowerAscii1 c == lowerAscii1 l
  | .sp, c => c == 32

def matchCCs : List CC → Str → Option (Str × Str)
  | [], s => some ([], s)
  | _ :: _, [] => none
  | cc :: r, c :: s =>
    if cc.ok c then (matchCCs r s).map (fun (m, rest) => (c :: m, rest)) else none

abbrev Alt := List CC

inductive Field | Y | m | d | j | H | M | S | f | none
  deriving DecidableEq, Repr

/-- one regex item: the field it captures and its alternatives in priority order -/
structure Item where
  field : Field
  alts : List Alt

def dg (lo hi : Nat) : CC := .r (48 + lo) (48 + hi)

def itemY : Item := ⟨.Y, [[.d, .d, .d, .d]]⟩
def itemm : Item := ⟨.m, [[dg 1 1, dg 0 2], [dg 0 0, dg 1 9], [dg 1 9]]⟩
def itemd : Item := ⟨.d, [[dg 3 3, dg 0 1], [dg 1 2, .d], [dg 0 0, dg 1 9], [dg 1 9], [.sp, dg 1 9]]⟩
def itemj : Item := ⟨.j, [[dg 3 3, dg 6 6, dg 0 6], [dg 3 3, dg 0 5, .d], [dg 1 2, .d, .d],
  [dg 0 0, dg 1 9, .d], [dg 0 0, dg 0 0, dg 1 9], [dg 1 9, .d], [dg 0 0, dg 1 9], [dg 1 9]]⟩
def itemH : Item := ⟨.H, [[dg 2 2, dg 0 3], [dg 0 1, .d], [.d]]⟩
def itemM : Item := ⟨.M, [[dg 0 5, .d], [.d]]⟩
def itemS : Item := ⟨.S, [[dg 6 6, dg 0 1], [dg 0 5, .d], [.d]]⟩
/-- `[0-9]{1,6}`, greedy -/
def itemf : Item := ⟨.f, (List.range 6).reverse.map (fun n => List.replicate (n + 1) (dg 0 9))⟩

/-- translate a format string; `none` for a directive outside the modelled set. -/
def compileFmt : Str → Option (List Item)
  | [] => some []
  | 37 :: c :: r =>
    let it : Option Item :=
      if c == 89 then some itemY else if c == 109 then some itemm else if c == 100 then some itemd
      else if c == 106 then some itemj else if c == 72 then some itemH else if c == 77 then some itemM
      else if c == 83 then some itemS else if c == 102 then some itemf else none
    match it, compileFmt r with
    | some i, some rest => some (i :: rest)
    | _, _ => none
  | c :: r => (compileFmt r).map (fun rest => ⟨.none, [[.lit c]]⟩ :: rest)

mutual
/-- back-tracking match of the item sequence at the start of `s`;
    returns captured (field, text) pairs and the unconsumed rest. -/
def matchItems (items : List Item) (s : Str) : Option (List (Field × Str) × Str) :=
  match items with
  | [] => some ([], s)
  | it :: r => matchAlts it.field it.alts r s
termination_by (2 * items.length, 0)
def matchAlts (f : Field) (alts : List Alt) (r : List Item) (s : Str) :
    Option (List (Field × Str) × Str) :=
  match alts with
  | [] => none
  | a :: as =>
    match matchCCs a s with
    | some (m, rest) =>
      match matchItems r rest with
      | some (caps, fin) => some ((f, m) :: caps, fin)
      | none => matchAlts f as r s
    | none => matchAlts f as r s
termination_by (2 * r.length + 1, alts.length)
end

def isLeap (y : Nat) : Bool := (y % 4 == 0 && y % 100 != 0) || y % 400 == 0

def daysInMonth (y m : Nat) : Nat :=
  if m == 2 then (if isLeap y then 29 else 28)
  else if m == 4 || m == 6 || m == 9 || m == 11 then 30 else 31

def daysBeforeMonth (y : Nat) : Nat → Nat
  | 0 => 0
  | 1 => 0
  | m + 1 => daysBeforeMonth y m + daysInMonth y m

/-- (month, day) of day-of-year `j` (1-based, `j ≤ days in year`). -/
def monthDayOf (y j : Nat) : Nat × Nat :=
  let rec go (fuel m j : Nat) : Nat × Nat :=
    match fuel with
    | 0 => (m, j)
    | fuel + 1 => if j ≤ daysInMonth y m then (m, j) else go fuel (m + 1) (j - daysInMonth y m)
  go 12 1 j

structure DT where
  year : Nat
  month : Nat
  day : Nat
  hour : Nat
  minute : Nat
  second : Nat
  micro : Nat
  deriving DecidableEq, Repr

def field? (caps : List (Field × Str)) (f : Field) : Option Str :=
  (caps.find? (fun p => p.1 == f)).map (·.2)

def natOf (s : Str) : Option Nat := (int10 s).map Int.toNat

/-- `datetime.strptime(text, fmt)`; `none` is `ValueError`. -/
def strptime (text fmt : Str) : Option DT :=
  match compileFmt fmt with
  | none => none
  | some items =>
    match matchItems items text with
    | none => none
    | some (caps, rest) =>
      if !rest.isEmpty then none else
      let num (f : Field) (dflt : Nat) : Option Nat :=
        match field? caps f with
        | some t => natOf t
        | none => some dflt
      match num .Y 1900, num .m 1, num .d 1, num .H 0, num .M 0, num .S 0 with
      | some y, some m, some d, some H, some M, some S =>
        let us : Option Nat := match field? caps .f with
          | some t => natOf (t ++ List.replicate (6 - t.length) 48)
          | none => some 0
        match us with
        | none => none
        | some us =>
          if y == 0 || y > 9999 then none else
          -- calendar resolution
          let ymd : Option (Nat × Nat × Nat) :=
            match field? caps .j with
            | some jt =>
              match natOf jt with
              | none => none
              | some j =>
                let diy := if isLeap y then 366 else 365
                if j ≤ diy then (let (mm, dd) := monthDayOf y j; some (y, mm, dd))
                else if y + 1 > 9999 then none else some (y + 1, 1, j - diy)
            | none => if 1 ≤ m && m ≤ 12 && 1 ≤ d && d ≤ daysInMonth y m then some (y, m, d) else none
          match ymd with
          | none => none
          | some (y', m', d') =>
            if S > 59 then none else some ⟨y', m', d', H, M, S, us⟩
      | _, _, _, _, _, _ => none

end Pvl.Py
