import PvlModel.Model.Decoder
/-! Model of `pvl/token.py`: the `Token.is_*` predicates (each calls the decoder). -/
namespace Pvl
open Py

namespace Tok

def isComment (g : Grammar) (s : Str) : Bool :=
  g.comments.any (fun p => startsWith s p.1 && endsWith s p.2)

def isSpace (g : Grammar) (s : Str) : Bool :=
  !s.isEmpty && s.all (fun c => g.whitespace.contains c)

/-- `is_WSC` (token.py:135): the `replace` loop keeps only its last iteration, which replaces
    `whitespace[0]` by a blank; the pieces of `str.split()` must all be comments. -/
def isWSC (g : Grammar) (s : Str) : Bool :=
  isComment g s || isSpace g s ||
    (let temp := match g.whitespace with
      | w :: _ => replaceChar s w 32
      | [] => s
     (splitWs temp).all (isComment g))

def isDelimiter (g : Grammar) (s : Str) : Bool := g.delimiters.contains s

def isBeginAggregation (g : Grammar) (s : Str) : Bool :=
  g.aggKeywords.any (fun p => foldEq s p.1)

def isEndStatement (g : Grammar) (s : Str) : Bool :=
  g.endStatements.any (fun e => foldEq e s)

def isQuotedString (d : Dec) (s : Str) : Bool := (decodeQuoted d s).isSome
def isDecimal (s : Str) : Bool := (decodeDecimal s).isSome
def isNonDecimal (d : Dec) (s : Str) : Bool := (decodeNonDecimal d s).isSome
def isNumeric (d : Dec) (s : Str) : Bool := isDecimal s || isNonDecimal d s

/-- `is_datetime` -/
def isDatetime (d : Dec) (s : Str) : Bool :=
  match decodeDatetime d s with
  | .ok _ => true
  | .error .value => false

/-- `is_unquoted_string` (token.py:198). -/
def isUnquotedString (d : Dec) (s : Str) : Bool :=
  let g := d.g
  if g.reserved.any (fun c => s.contains c) then false
  else if g.comments.any (fun p => isInfix p.1 s || isInfix p.2 s) then false
  else if isNumeric d s then false
  else if isDatetime d s then false
  else !(g.whitespace.any (fun c => s.contains c))

/-- `is_parameter_name` (token.py:232). -/
def isParameterName (d : Dec) (s : Str) : Bool :=
  if d.g.reservedKeywords.any (fun w => foldEq w s) then false
  else isUnquotedString d s

def isSimpleValue (d : Dec) (s : Str) : Bool :=
  match decodeSimple d s with
  | .ok _ => true
  | .error .value => false

end Tok
end Pvl
