import PvlModel.Model.PyTime
/-!
  Model of `pvl/decoder.py`: the four decoder classes and the regular expressions they use
  (hand-written recognisers, selected by the *pattern text* the extractor read from the grammar
  object, so an edited regex no longer selects a recogniser and shows up as a disagreement).
-/
namespace Pvl
open Py

inductive CKind | module | group | object
  deriving DecidableEq, Repr

/-- Python values the loaders produce / the encoders accept.  A real is carried as the text
    `float()` was given (exact decimal denotation; no floating point in the model). -/
inductive Val
  | none
  | bool (b : Bool)
  | int (i : Int)
  | real (text : Str)
  | str (s : Str)
  | empty (line : Int)
  | date (y m d : Nat)
  | time (h mi s us : Nat) (tz : Option Int)
  | datetime (y m d h mi s us : Nat) (tz : Option Int)
  | quant (v : Val) (units : Str)
  | seq (l : List Val)
  | set (frozen : Bool) (l : List Val)
  | cont (kind : CKind) (items : List (Str × Val))
  deriving Repr, Inhabited

abbrev Items := List (Str × Val)

inductive DecKind | pvl | odl | pds | omni
  deriving DecidableEq, Repr

structure Dec where
  g : Grammar
  kind : DecKind

/-- what a decoder call can raise: `ValueError` only (since the fix of `ODLDecoder.decode_datetime`
    no decoder function leaks another exception type) -/
inductive DErr | value
  deriving DecidableEq, Repr

/-! ### non-decimal integers -/

def patPvlPre := "(?P<sign>[+-]?)(?P<radix>2|8|16)#"
def patPvlNd := "(?P<sign>[+-]?)(?P<radix>2|8|16)#(?P<non_decimal>[0-9|A-Fa-f]+)#"
def patBin := "(?P<sign>[+-]?)(?P<radix>2)#(?P<non_decimal>[01]+)#"
def patOct := "(?P<sign>[+-]?)(?P<radix>8)#(?P<non_decimal>[0-7]+)#"
def patHex := "(?P<sign>[+-]?)(?P<radix>16)#(?P<non_decimal>[0-9A-Fa-f]+)#"
def patOdlPre := "(?P<radix>[2-9]|1[0-6])#(?P<sign>[+-]?)"
def patOdlNd := "(?P<radix>[2-9]|1[0-6])#(?P<sign>[+-]?)(?P<non_decimal>[0-9A-Fa-f]+)#"
def patOmniPre := "(?P<sign>[+-]?)(?P<radix>[2-9]|1[0-6])#(?P<second_sign>[+-]?)"
def patOmniNd :=
  "(?P<sign>[+-]?)(?P<radix>[2-9]|1[0-6])#(?P<second_sign>[+-]?)(?P<non_decimal>[0-9A-Fa-f]+)#"

def optSign : Str → Str × Str
  | 43 :: r => ([43], r)
  | 45 :: r => ([45], r)
  | s => ([], s)

/-- `2|8|16` -/
def radixPvl : Str → Option (Nat × Str)
  | 50 :: r => some (2, r)
  | 56 :: r => some (8, r)
  | 49 :: 54 :: r => some (16, r)
  | _ => Option.none

/-- `[2-9]|1[0-6]` -/
def radixOdl : Str → Option (Nat × Str)
  | 49 :: c :: r => if 48 ≤ c && c ≤ 54 then some (10 + (c - 48), r) else Option.none
  | c :: r => if 50 ≤ c && c ≤ 57 then some (c - 48, r) else Option.none
  | [] => Option.none

def isHex (c : Nat) : Bool := (48 ≤ c && c ≤ 57) || (65 ≤ c && c ≤ 70) || (97 ≤ c && c ≤ 102)

/-- `digits+ '#'` to the end of the string -/
def digitsHash (cls : Nat → Bool) (s : Str) : Option Str :=
  let ds := s.takeWhile cls
  let r := s.dropWhile cls
  if !ds.isEmpty && r == [35] then some ds else Option.none

structure NdMatch where
  sign : Str
  radix : Nat
  sign2 : Option Str
  digits : Str

/-- `re.fullmatch` of the non-decimal pattern named by its text. -/
def ndFull (pat : String) (s : Str) : Option NdMatch :=
  if pat == patPvlNd || pat == patBin || pat == patOct || pat == patHex then
    let (sg, r) := optSign s
    match radixPvl r with
    | some (rad, 35 :: r') =>
      let cls : Nat → Bool :=
        if pat == patBin then (fun c => c == 48 || c == 49)
        else if pat == patOct then (fun c => 48 ≤ c && c ≤ 55)
        else if pat == patHex then isHex
        else (fun c => isHex c || c == 124)
      if (pat == patBin && rad != 2) || (pat == patOct && rad != 8) || (pat == patHex && rad != 16)
      then Option.none
      else (digitsHash cls r').map (fun d => ⟨sg, rad, Option.none, d⟩)
    | _ => Option.none
  else if pat == patOdlNd then
    match radixOdl s with
    | some (rad, 35 :: r) =>
      let (sg, r') := optSign r
      (digitsHash isHex r').map (fun d => ⟨sg, rad, Option.none, d⟩)
    | _ => Option.none
  else if pat == patOmniNd then
    let (sg, r) := optSign s
    match radixOdl r with
    | some (rad, 35 :: r') =>
      let (sg2, r'') := optSign r'
      (digitsHash isHex r'').map (fun d => ⟨sg, rad, some sg2, d⟩)
    | _ => Option.none
  else Option.none

/-- `nondecimal_pre_re.fullmatch(s)` -/
def ndPreFull (pat : String) (s : Str) : Bool :=
  if pat == patPvlPre then
    let (_, r) := optSign s
    match radixPvl r with
    | some (_, [35]) => true
    | _ => false
  else if pat == patOdlPre then
    match radixOdl s with
    | some (_, 35 :: r) => (optSign r).2.isEmpty
    | _ => false
  else if pat == patOmniPre then
    let (_, r) := optSign s
    match radixOdl r with
    | some (_, 35 :: r') => (optSign r').2.isEmpty
    | _ => false
  else false

/-- `decode_non_decimal` of each decoder class. -/
def decodeNonDecimal (d : Dec) (s : Str) : Option Int :=
  match d.kind with
  | .pvl =>
    match [d.g.binPattern, d.g.octPattern, d.g.hexPattern].findSome? (fun p => ndFull p s) with
    | some m => intBase (m.sign ++ m.digits) m.radix
    | Option.none => Option.none
  | .odl | .pds =>
    match ndFull d.g.ndPattern s with
    | some m => intBase (m.sign ++ m.digits) m.radix
    | Option.none => Option.none
  | .omni =>
    match ndFull d.g.ndPattern s with
    | some m =>
      match m.sign2 with
      | some s2 =>
        if !m.sign.isEmpty && !s2.isEmpty then Option.none
        else intBase ((if !m.sign.isEmpty then m.sign else s2) ++ m.digits) m.radix
      | Option.none => intBase (m.sign ++ m.digits) m.radix
    | Option.none => Option.none

/-! ### decimal numbers -/

/-- `decode_decimal`: whatever `real_cls` is, the text must satisfy `float()`'s syntax before it is handed
    to the substitute class (decoder.py, since the C18 fix):
    an `int`, else a real carried as its text. -/
def decodeDecimal (s : Str) : Option Val :=
  match int10 s with
  | some i => some (.int i)
  | Option.none => if floatOk s then some (.real s) else Option.none

/-! ### quoted strings -/

def decodeQuotedBase (g : Grammar) (s : Str) : Option Str :=
  if g.quotes.any (fun q => startsWith s [q] && endsWith s [q] && s.length > 1)
  then some ((s.drop 1).dropLast) else Option.none

/-- `re.sub("-[fe][ws]*", "", s)` -/
def removeDashCont (fe ws : List Nat) : Str → Str
  | [] => []
  | [c] => [c]
  | c :: n :: r =>
    if c == 45 && fe.contains n then removeDashCont fe ws (r.dropWhile (fun x => ws.contains x))
    else c :: removeDashCont fe ws (n :: r)
termination_by s => s.length
decreasing_by
  all_goals simp_wf
  · have := Py.length_dropWhile_le (fun x => decide (x ∈ ws)) r; omega

/-- `re.sub("[ws]+", " ", s)` -/
def collapseWs (ws : List Nat) : Str → Str
  | [] => []
  | c :: r =>
    if ws.contains c then 32 :: collapseWs ws (r.dropWhile (fun x => ws.contains x))
    else c :: collapseWs ws r
termination_by s => s.length
decreasing_by
  all_goals simp_wf
  · have := Py.length_dropWhile_le (fun x => decide (x ∈ ws)) r; omega

/-- `ODLDecoder.decode_quoted_string` (decoder.py:361-382). -/
def odlFold (g : Grammar) (s : Str) : Str :=
  collapseWs g.whitespace (strip (removeDashCont g.formatEffectors g.whitespace s) g.whitespace)

def decodeQuoted (d : Dec) (s : Str) : Option Str :=
  match d.kind with
  | .pvl => decodeQuotedBase d.g s
  | _ => (decodeQuotedBase d.g s).map (odlFold d.g)

/-! ### dates and times -/

def firstSome {α β} (f : α → Option β) : List α → Option β
  | [] => Option.none
  | a :: r => match f a with
    | some b => some b
    | Option.none => firstSome f r

/-- leap-second regexes (grammar.py:135-148), `fullmatch`, case-sensitive. -/
def dd (lo hi : Nat) (c : Nat) : Bool := 48 + lo ≤ c && c ≤ 48 + hi

def leapTimePart (s : Str) : Bool :=
  -- H:M:60(\.\d+)?Z?
  match s with
  | h1 :: h2 :: 58 :: m1 :: m2 :: 58 :: 54 :: 48 :: r =>
    let hOk := (h1 == 48 && isDecimal h2) || (h1 == 49 && isDecimal h2) || (h1 == 50 && dd 0 3 h2)
    let mOk := dd 0 5 m1 && isDecimal m2
    let r1 := match r with
      | 46 :: f =>
        let ds := f.takeWhile isDecimal
        if ds.isEmpty then Option.none else some (f.dropWhile isDecimal)
      | _ => some r
    hOk && mOk && (match r1 with
      | some [] => true
      | some [90] => true
      | _ => false)
  | _ => false

def leapYear4 (a b c d : Nat) : Bool := isDecimal a && isDecimal b && isDecimal c && dd 1 9 d

def leapYmd (s : Str) : Bool :=
  leapTimePart s ||
  (match s with
   | a :: b :: c :: d :: 45 :: m1 :: m2 :: 45 :: d1 :: d2 :: 84 :: r =>
     leapYear4 a b c d &&
     ((m1 == 48 && dd 1 9 m2) || (m1 == 49 && dd 0 2 m2)) &&
     ((d1 == 48 && dd 1 9 d2) || ((d1 == 49 || d1 == 50) && isDecimal d2) || (d1 == 51 && dd 0 1 d2)) &&
     leapTimePart r
   | _ => false)

def leapYj (s : Str) : Bool :=
  leapTimePart s ||
  (match s with
   | a :: b :: c :: d :: 45 :: j1 :: j2 :: j3 :: 84 :: r =>
     leapYear4 a b c d &&
     ((j1 == 48 && j2 == 48 && dd 1 9 j3) || (j1 == 48 && dd 1 9 j2 && isDecimal j3) ||
      ((j1 == 49 || j1 == 50) && isDecimal j2 && isDecimal j3) ||
      (j1 == 51 && dd 0 5 j2 && isDecimal j3) || (j1 == 51 && j2 == 54 && dd 0 6 j3)) &&
     leapTimePart r
   | _ => false)

def patLeapYmd := "((?P<year>\\d{3}[1-9])-(?P<month>0[1-9]|1[0-2])-(?P<day>0[1-9]|[12]\\d|3[01])T)?(?P<hour>0\\d|1\\d|2[0-3]):(?P<minute>[0-5]\\d):60(\\.(?P<microsecond>\\d+))?Z?"
def patLeapYj := "((?P<year>\\d{3}[1-9])-(?P<doy>(00[1-9]|0[1-9]\\d)|[12]\\d{2}|3[0-5]\\d|36[0-6])T)?(?P<hour>0\\d|1\\d|2[0-3]):(?P<minute>[0-5]\\d):60(\\.(?P<microsecond>\\d+))?Z?"

def isLeapSeconds (g : Grammar) (s : Str) : Bool :=
  (match g.leapYmdPattern with
   | some p => p == patLeapYmd && leapYmd s
   | Option.none => false) ||
  (match g.leapYjPattern with
   | some p => p == patLeapYj && leapYj s
   | Option.none => false)

/-- `PVLDecoder.decode_datetime` (decoder.py:203-272). -/
def decodeDatetimeBase (g : Grammar) (s : Str) : Option Val :=
  match firstSome (strptime s) g.dateFormats with
  | some dt => some (.date dt.year dt.month dt.day)
  | Option.none =>
    let tz : Option Int := if endsWith s [90] then some 0 else if g.defaultUtc then some 0 else Option.none
    match firstSome (strptime s) g.timeFormats with
    | some dt => some (.time dt.hour dt.minute dt.second dt.micro tz)
    | Option.none =>
      match firstSome (strptime s) g.datetimeFormats with
      | some dt => some (.datetime dt.year dt.month dt.day dt.hour dt.minute dt.second dt.micro tz)
      | Option.none => if isLeapSeconds g s then some (.str s) else Option.none

/-- the tail `(?P<hour>0?[0-9]|1[0-2])(?::?(?P<minute>[0-5]\d))?` to the end of the string,
    alternatives in regex priority order; returns (hour, minute). -/
def zoneTail (s : Str) : Option (Nat × Nat) :=
  let minuteEnd (r : Str) : Option Nat :=
    match r with
    | [m1, m2] => if dd 0 5 m1 && isDecimal m2 then natOf [m1, m2] else Option.none
    | [58, m1, m2] => if dd 0 5 m1 && isDecimal m2 then natOf [m1, m2] else Option.none
    | _ => Option.none
  let fin (h : Nat) (r : Str) : Option (Nat × Nat) :=
    match minuteEnd r with
    | some m => some (h, m)
    | Option.none => if r.isEmpty then some (h, 0) else Option.none
  -- 0?[0-9] with the optional 0 taken first
  let a1 : Option (Nat × Nat) := match s with
    | 48 :: c :: r => if dd 0 9 c then fin (c - 48) r else Option.none
    | _ => Option.none
  let a2 : Option (Nat × Nat) := match s with
    | c :: r => if dd 0 9 c then fin (c - 48) r else Option.none
    | _ => Option.none
  let a3 : Option (Nat × Nat) := match s with
    | 49 :: c :: r => if dd 0 2 c then fin (10 + (c - 48)) r else Option.none
    | _ => Option.none
  match a1 with
  | some x => some x
  | Option.none => match a2 with
    | some x => some x
    | Option.none => a3

/-- first split `dt sign tail` in the regex's priority order (shortest `dt` first; `.` does not
    match a newline). Returns (dt, negative?, hour, minute). -/
def zoneSplitGo : Str → Str → Option (Str × Bool × Nat × Nat)
  | _, [] => Option.none
  | pre, c :: r =>
    let here : Option (Str × Bool × Nat × Nat) :=
      if !pre.isEmpty && (c == 43 || c == 45) then
        (zoneTail r).map (fun (h, m) => (pre.reverse, c == 45, h, m))
      else Option.none
    match here with
    | some x => some x
    | Option.none => if c == 10 then Option.none else zoneSplitGo (c :: pre) r

def zoneSplit (s : Str) : Option (Str × Bool × Nat × Nat) := zoneSplitGo [] s

/-- `ODLDecoder.decode_datetime` (decoder.py:320-349). -/
def decodeDatetimeOdl (g : Grammar) (s : Str) : Except DErr Val :=
  match decodeDatetimeBase g s with
  | some v => .ok v
  | Option.none =>
    match zoneSplit s with
    | Option.none => .error .value
    | some (dt, neg, h, m) =>
      match decodeDatetimeBase g dt with
      | Option.none => .error .value
      | some v =>
        let off : Int := ((h : Int) * 3600 + (m : Int) * 60) * (if neg then -1 else 1)
        match v with
        | .time a b c e _ => .ok (.time a b c e (some off))
        | .datetime y mo d a b c e _ => .ok (.datetime y mo d a b c e (some off))
        | _ => .error .value  -- date / str `.replace(tzinfo=…)` raises TypeError, turned into ValueError

/-- `decode_datetime` of each class. -/
def decodeDatetime (d : Dec) (s : Str) : Except DErr Val :=
  match d.kind with
  | .pvl =>
    match decodeDatetimeBase d.g s with
    | some v => .ok v
    | Option.none => .error .value
  | .odl | .omni => decodeDatetimeOdl d.g s
  | .pds =>
    match decodeDatetimeBase d.g s with
    | Option.none => .error .value
    | some v =>
      let us : Option Nat := match v with
        | .time _ _ _ us _ => some us
        | .datetime _ _ _ _ _ _ us _ => some us
        | _ => Option.none
      match us with
      | some u => if u % 1000 != 0 then .error .value else .ok v
      | Option.none => .ok v

/-! ### unquoted strings and the cascade -/

def isIdentifier (s : Str) : Bool :=
  match s with
  | [] => false
  | c :: _ =>
    isAscii s && isAsciiAlpha c && !(endsWith s [95]) &&
      s.all (fun x => isAsciiAlpha x || isAsciiDigit x || x == 95)

/-- `PVLDecoder.decode_unquoted_string` (decoder.py:117-160), with the class's own
    `decode_datetime`. -/
def decodeUnquotedBase (d : Dec) (s : Str) : Except DErr Str :=
  let g := d.g
  if g.comments.any (fun p => isInfix p.1 s || isInfix p.2 s) then .error .value
  else if g.whitespace.any (fun c => s.contains c) then .error .value
  else if g.reserved.any (fun c => s.contains c) then .error .value
  else if g.aggKeywords.any (fun p => foldEq p.1 s || foldEq p.2 s) then .error .value
  else if g.endStatements.any (fun e => foldEq e s) then .error .value
  else match decodeDatetime d s with
    | .ok _ => .error .value
    | .error .value => .ok s

def decodeUnquoted (d : Dec) (s : Str) : Except DErr Str :=
  match d.kind with
  | .pvl | .omni => decodeUnquotedBase d s
  | .odl | .pds =>
    match decodeUnquotedBase d s with
    | .ok r => if isIdentifier r then .ok r else .error .value
    | .error e => .error e

/-- `decode_simple_value` (decoder.py:89-115). -/
def decodeSimple (d : Dec) (s : Str) : Except DErr Val :=
  if foldEq s d.g.noneKw then .ok .none
  else if foldEq s d.g.trueKw then .ok (.bool true)
  else if foldEq s d.g.falseKw then .ok (.bool false)
  else match decodeQuoted d s with
    | some q => .ok (.str q)
    | Option.none =>
      match decodeNonDecimal d s with
      | some i => .ok (.int i)
      | Option.none =>
        match decodeDecimal s with
        | some v => .ok v
        | Option.none =>
          match decodeDatetime d s with
          | .ok v => .ok v
          | .error .value =>
            match decodeUnquoted d s with
            | .ok u => .ok (.str u)
            | .error e => .error e

end Pvl
