import PvlModel.Model.Lexer
/-!
  Model of `pvl/parser.py`: `PVLParser`, `ODLParser`, `OmniParser`, including the generator
  protocol the parser relies on (`next` / `send` / `throw`, death after raising), the
  "try each production, swallow ValueError" control flow, both Omni post-hooks, `errors`.

  Every function takes fuel; running out of fuel (`PErr.fuel`) is how the model exhibits a loop
  that never terminates in the real code.
-/
namespace Pvl
open Py

inductive PErr
  | lexer (pos : Int)            -- LexerError (a ValueError)
  | value                        -- plain ValueError
  | parse (tok : Option Token)   -- ParseError (not a ValueError)
  | stop                         -- StopIteration
  | unbound                      -- UnboundLocalError
  | exc                          -- bare `Exception`
  | fuel                         -- model only
  deriving Repr, DecidableEq

def PErr.isValueError : PErr → Bool
  | .lexer _ => true
  | .value => true
  | _ => false

def PErr.isLexer : PErr → Bool
  | .lexer _ => true
  | _ => false

/-- caught by `except Exception` (everything the interpreter can raise here; not our fuel marker) -/
def PErr.isException : PErr → Bool
  | .fuel => false
  | _ => true

inductive ParserKind | pvl | odl | omni
  deriving DecidableEq, Repr

structure PCfg where
  g : Grammar
  d : Dec
  kind : ParserKind
  doc : Str
  /-- what the lexer generator does once its tokens are used up (it never changes during a parse) -/
  tail : Tail

/-- the lexer generator as the parser sees it -/
structure Gen where
  pending : List Token
  pushed : Option Token
  last : Option Token
  dead : Bool

structure PSt where
  gen : Gen
  errors : List Int
  sites : List String := []   -- tagged code sites passed (for known-finding attribution)
  /-- `self._simple_value`: the token of the value most recently returned by `parse_value`,
      when that value is exactly the decoded simple value of the token (the identity test
      `written[1] is last_v` of the module post-hook succeeds exactly then). -/
  simple : Option Token := none
  /-- model-only bookkeeping for finding attribution: the last assignment was closed by an
      explicit statement delimiter -/
  afterDelim : Bool := false

abbrev PM := ExceptT PErr (StateM PSt)


namespace P

def ofDErr : DErr → PErr
  | .value => .value

def liftD {α} (x : Except DErr α) : PM α :=
  match x with
  | .ok a => pure a
  | .error e => throw (ofDErr e)

/-- `next(tokens)` -/
def next (c : PCfg) : PM Token := do
  let s ← get
  let g := s.gen
  if g.dead then throw .stop
  match g.pushed with
  | some t =>
    set { s with gen := { g with pushed := none } }
    pure t
  | none =>
    match g.pending with
    | t :: r =>
      set { s with gen := { g with pending := r, last := some t } }
      pure t
    | [] =>
      set { s with gen := { g with dead := true } }
      match c.tail with
      | .eof => throw .stop
      | .lexerr p => throw (.lexer p)

/-- `tokens.send(t)`; a second `send` before `next` loses both tokens. -/
def send (t : Token) : PM Unit := do
  let s ← get
  let g := s.gen
  if g.dead then throw .stop
  match g.pushed with
  | some _ => set { s with gen := { g with pushed := none } }
  | none => set { s with gen := { g with pushed := some t } }

/-- `tokens.throw(ValueError, …)`: a live generator turns it into a `LexerError` at the last
    lexed token and dies; a finished one re-raises the plain `ValueError` in the caller. -/
def throwIn {α} : PM α := do
  let s ← get
  let g := s.gen
  if g.dead then throw .value
  match g.last with
  | none => throw .value
  | some t =>
    set { s with gen := { g with dead := true } }
    throw (.lexer t.pos)

/-- `try: m except ValueError: h` where LexerError is re-raised first. -/
def softCatch {α} (m : PM α) (h : PM α) : PM α :=
  tryCatch m (fun e => match e with
    | .lexer p => throw (.lexer p)
    | .value => h
    | e => throw e)

def mark (site : String) : PM Unit :=
  modify (fun s => { s with sites := s.sites ++ [site] })

def emptyValue (c : PCfg) (pos : Int) : PM Val := do
  let eq := rfindChar c.doc 61 0 pos
  let lc : Int := (countChar c.doc 10 0 eq : Nat) + 1
  modify (fun s => { s with errors := s.errors ++ [lc] })
  pure (.empty lc)

/-- `parse_WSC_until(token, tokens)` -/
def wscUntil (c : PCfg) (tok : Option Str) : Nat → PM Bool
  | 0 => throw .fuel
  | fuel + 1 => do
    let r ← tryCatch (do let t ← next c; pure (some t)) (fun e => match e with
      | .stop => pure none
      | e => throw e)
    match r with
    | none => pure false
    | some t =>
      if some t.text == tok then pure true
      else if Tok.isWSC c.g t.text then wscUntil c tok fuel
      else do send t; pure false

/-- `parse_statement_delimiter(tokens)` -/
def stmtDelim (c : PCfg) : Nat → PM Bool
  | 0 => throw .fuel
  | fuel + 1 => do
    let r ← tryCatch (do let t ← next c; pure (some t)) (fun e => match e with
      | .stop => pure none
      | e => throw e)
    match r with
    | none => pure false
    | some t =>
      if Tok.isWSC c.g t.text then stmtDelim c fuel
      else if Tok.isDelimiter c.g t.text then pure true
      else do send t; pure false

/-- `parse_around_equals` -/
def aroundEquals (c : PCfg) (fuel : Nat) : PM Unit := do
  let ok ← wscUntil c (some [61]) fuel
  if !ok then
    tryCatch (do
      let t ← next c
      send t
      throw .value) (fun e => match e with
      | .stop => throw (.parse none)
      | e => throw e)
  let _ ← wscUntil c none fuel
  pure ()

def hashable : Val → Bool
  | .seq _ => false
  | .set frozen _ => frozen
  | .cont _ _ => false
  | .quant v _ => hashable v
  | _ => true

def valIsNumber : Val → Bool
  | .int _ => true
  | .bool _ => true
  | .real _ => true
  | _ => false

/-- text of `Token(value)` as far as `is_parameter_name` can tell (see DESIGN, Appendix A):
    compound values stringify to text containing a reserved character. -/
def tokenTextOf : Val → Str
  | .none => [78, 111, 110, 101]
  | .bool true => [84, 114, 117, 101]
  | .bool false => [70, 97, 108, 115, 101]
  | .int i => (toString i).toList.map Char.toNat
  | .real t => t
  | .str s => s
  | .empty _ => []
  | .date y m d =>
    let p (n w : Nat) : Str := let s := (toString n).toList.map Char.toNat; List.replicate (w - s.length) 48 ++ s
    p y 4 ++ [45] ++ p m 2 ++ [45] ++ p d 2
  | .time h mi s us tz =>
    let p (n w : Nat) : Str := let s := (toString n).toList.map Char.toNat; List.replicate (w - s.length) 48 ++ s
    let base := p h 2 ++ [58] ++ p mi 2 ++ [58] ++ p s 2 ++ (if us == 0 then [] else [46] ++ p us 6)
    match tz with
    | none => base
    | some off =>
      let a := off.natAbs
      base ++ [if off < 0 then 45 else 43] ++ p (a / 3600) 2 ++ [58] ++ p ((a % 3600) / 60) 2 ++
        (if a % 60 == 0 then [] else [58] ++ p (a % 60) 2)
  | _ => [40]

/-- `parse_value_post_hook` -/
def valueHook (c : PCfg) : PM Val := do
  match c.kind with
  | .omni =>
    let t ← next c
    let f := casefold t.text
    if c.g.reservedKeywords.any (fun w => casefold w == f) || c.g.delimiters.any (fun w => casefold w == f)
    then do
      send t
      emptyValue c t.pos
    else throw .value
  | _ => throw .value

/-- `parse_units` -/
def units (c : PCfg) (v : Val) : PM Val := do
  if c.kind == .odl && !valIsNumber v then throw .value
  let t ← next c
  if !(startsWith t.text [c.g.unitsDelims.1]) then
    send t
    throw .value
  if !(endsWith t.text [c.g.unitsDelims.2]) then
    send t
    throw .value
  let u := strip (strip t.text [c.g.unitsDelims.1, c.g.unitsDelims.2]) c.g.whitespace
  if u.contains c.g.unitsDelims.1 || u.contains c.g.unitsDelims.2 then throwIn
  pure (.quant v u)

mutual

/-- `parse_value` -/
def value (c : PCfg) : Nat → PM Val
  | 0 => throw .fuel
  | fuel + 1 => do
    -- t = next(tokens); value = decode_simple_value(t)   inside `try … except ValueError`
    let first : Except PErr Token ← tryCatch (do let t ← next c; pure (Except.ok t))
      (fun e => if e.isValueError then pure (Except.error e) else throw e)
    modify (fun s => { s with simple := none })
    let v : Val ← match first with
      | .error _ => throw .unbound      -- `tokens.send(t)` with `t` never assigned
      | .ok t =>
        match decodeSimple c.d t.text with
        | .ok v => do
          modify (fun s => { s with simple := some t })
          pure v
        | .error .value => do
          send t
          -- for p in (parse_set, parse_sequence, parse_value_post_hook)
          let r1 ← softCatch (do let v ← pset c fuel; pure (some v)) (pure none)
          match r1 with
          | some v => pure v
          | none =>
            let r2 ← softCatch (do let v ← pseq c fuel; pure (some v)) (pure none)
            match r2 with
            | some v => pure v
            | none =>
              let r3 ← softCatch (do let v ← valueHook c; pure (some v)) (pure none)
              match r3 with
              | some v => pure v
              | none => throwIn
    -- a compound or hook-made value is not the object the record names
    (match first with
     | .ok t => (match decodeSimple c.d t.text with
                 | .ok _ => pure ()
                 | .error _ => modify (fun s => { s with simple := none }))
     | .error _ => pure ())
    let _ ← wscUntil c none fuel
    tryCatch (do
        let q ← units c v
        modify (fun s => { s with simple := none })
        pure q) (fun e => match e with
      | .lexer p => throw (.lexer p)
      | .value => pure v
      | .stop => pure v
      | e => throw e)

/-- `_parse_set_seq`: running out of tokens anywhere after the opening delimiter is a
    `ParseError` (without a token). -/
def setSeq (c : PCfg) (delims : Nat × Nat) : Nat → PM (List Val)
  | 0 => throw .fuel
  | fuel + 1 => do
    let t ← next c
    if t.text != [delims.1] then
      send t
      throw .value
    let body : PM (Option (List Val)) := do
      if (← wscUntil c (some [delims.2]) fuel) then return some []
      let v ← value c fuel
      if (← wscUntil c (some [delims.2]) fuel) then return some [v]
      setSeqLoop c delims [v] fuel
    let r ← tryCatch body (fun e => match e with
      | .stop => pure none
      | e => throw e)
    match r with
    | some l => pure l
    | none => throw (.parse none)

def setSeqLoop (c : PCfg) (delims : Nat × Nat) (acc : List Val) : Nat → PM (Option (List Val))
  | 0 => throw .fuel
  | fuel + 1 => do
    let r ← tryCatch (do let t ← next c; pure (some t)) (fun e => match e with
      | .stop => pure none
      | e => throw e)
    match r with
    | none => pure none
    | some t =>
      if t.text == [44] then do
        let _ ← wscUntil c none fuel
        let v ← value c fuel
        if (← wscUntil c (some [delims.2]) fuel) then return some (acc ++ [v])
        setSeqLoop c delims (acc ++ [v]) fuel
      else do
        send t
        throwIn

/-- `parse_set` -/
def pset (c : PCfg) : Nat → PM Val
  | 0 => throw .fuel
  | fuel + 1 => do
    let l ← setSeq c c.g.setDelims fuel
    if l.all hashable then pure (.set (c.kind != .odl) l) else throwIn

/-- `parse_sequence` -/
def pseq (c : PCfg) : Nat → PM Val
  | 0 => throw .fuel
  | fuel + 1 => do
    let l ← setSeq c c.g.seqDelims fuel
    pure (.seq l)

end

/-- `parse_assignment_statement` of `PVLParser` -/
def assignmentBase (c : PCfg) (fuel : Nat) : PM (Str × Val) := do
  let t ← tryCatch (next c) (fun e => match e with
    | .stop => throw .value
    | e => throw e)
  let isName := Tok.isParameterName c.d t.text
  if !isName then
    send t
    throw .value
  softCatch (aroundEquals c fuel) throwIn
  let v ← tryCatch (value c fuel) (fun e => match e with
    | .stop => throw (.parse (some t))
    | e => throw e)
  let del ← stmtDelim c fuel
  modify (fun s => { s with afterDelim := del })
  pure (t.text, v)

/-- `parse_assignment_statement` (OmniParser extends it) -/
def assignment (c : PCfg) (fuel : Nat) : PM (Str × Val) :=
  match c.kind with
  | .omni =>
    tryCatch (assignmentBase c fuel) (fun e => match e with
      | .parse (some tok) => do
        let afterEq := findChar c.doc 61 tok.pos + 1
        let v ← emptyValue c afterEq
        pure (tok.text, v)
      | e => throw e)
  | _ => assignmentBase c fuel

/-- `parse_end_statement`; `()` = the function's `None`. -/
def endStatement (c : PCfg) : PM Unit := do
  let r ← tryCatch (do let t ← next c; pure (some t)) (fun e => match e with
    | .stop => pure none
    | e => throw e)
  match r with
  | none => pure ()
  | some t =>
    if !Tok.isEndStatement c.g t.text then
      send t
      throw .value
    pure ()

/-- `parse_begin_aggregation_statement` -/
def beginAgg (c : PCfg) (fuel : Nat) : PM (Str × Str) := do
  let b ← tryCatch (next c) (fun e => match e with
    | .stop => throw .value
    | e => throw e)
  if !Tok.isBeginAggregation c.g b.text then
    send b
    throw .value
  softCatch (aroundEquals c fuel) throwIn
  let name ← tryCatch (next c) (fun e => match e with
    | .stop => throw (.parse none)
    | e => throw e)
  let isName := Tok.isParameterName c.d name.text
  if !isName then throwIn
  let _ ← stmtDelim c fuel
  pure (b.text, name.text)

/-- `parse_end_aggregation` -/
def endAgg (c : PCfg) (begin name : Str) (fuel : Nat) : PM Unit := do
  let e ← next c
  let expected : Str := match c.g.aggKeywords.find? (fun p => foldEq p.1 begin) with
    | some p => p.2
    | none => []
  if !(foldEq e.text expected) then
    send e
    throw .value
  let eqOk ← tryCatch (do aroundEquals c fuel; pure true) (fun er => match er with
    | .parse _ => pure false
    | .lexer p => throw (.lexer p)
    | .value => pure false
    | er => throw er)
  if !eqOk then
    let _ ← stmtDelim c fuel
    return ()
  let t ← next c
  if t.text != name then
    send t
    throwIn
  let _ ← stmtDelim c fuel
  pure ()

def aggregationCls (g : Grammar) (begin : Str) : Option CKind :=
  if g.groupKeywords.any (fun p => foldEq begin p.1) then some .group
  else if g.objectKeywords.any (fun p => foldEq begin p.1) then some .object
  else none

/-- `OmniParser.parse_module_post_hook`; returns the (possibly already mutated) container
    together with the outcome, because the real code mutates it in place before it may raise. -/
def moduleHook (c : PCfg) (m : Items) (fuel : Nat) : PM (Items × Except PErr Bool) := do
  match c.kind with
  | .omni =>
    -- outer `try … except StopIteration: return module, False`
    let t? ← tryCatch (do let t ← next c; pure (Except.ok t)) (fun e => pure (Except.error e))
    match t? with
    | .error .stop => pure (m, .ok false)
    | .error e => pure (m, .error e)
    | .ok t =>
      if t.text == [61] && !m.isEmpty then
        match m.getLast? with
        | none => pure (m, .error .exc)
        | some (lastK, lastV) =>
          let st ← get
          -- judge the token as it was written when `parse_value` remembered it
          let lastTok := match st.simple with
            | some w => w.text
            | none => tokenTextOf lastV
          match Tok.isParameterName c.d lastTok with
          | true =>
            mark "omni-hook-reinterprets-previous-value-as-name"
            if (← get).afterDelim then mark "omni-hook-reinterprets-across-delimiter"
            let ev ← emptyValue c t.pos
            let m1 := m.dropLast ++ [(lastK, ev)]
            let body : PM Val := do
              let _ ← wscUntil c none fuel
              let v ← value c fuel
              let del ← stmtDelim c fuel
              modify (fun s => { s with afterDelim := del })
              pure v
            let r ← tryCatch (do let v ← body; pure (Except.ok v)) (fun e => pure (Except.error e))
            match r with
            | .ok v =>
              let m2 := m1 ++ [(lastTok, v)]
              peek m2
            | .error .stop =>
              let ev2 ← emptyValue c (t.pos + 1)
              pure (m1 ++ [(lastTok, ev2)], .ok false)
            | .error e => pure (m1, .error e)
          | false =>
            -- `tokens.send(t); raise Exception` ("ignore me")
            let r ← tryCatch (do send t; pure (Except.ok ())) (fun e => pure (Except.error e))
            match r with
            | .error .stop => pure (m, .ok false)
            | .error e => pure (m, .error e)
            | .ok _ => pure (m, .error .exc)
      else do
        let r ← tryCatch (do send t; pure (Except.ok ())) (fun e => pure (Except.error e))
        match r with
        | .error .stop => pure (m, .ok false)
        | .error e => pure (m, .error e)
        | .ok _ => pure (m, .error .exc)
  | _ => pure (m, .error .exc)
where
  /-- `t = next(tokens); tokens.send(t); return module, True` under `except StopIteration` -/
  peek (m : Items) : PM (Items × Except PErr Bool) := do
    let r ← tryCatch (do let t ← next c; send t; pure (Except.ok ())) (fun e => pure (Except.error e))
    match r with
    | .ok _ => pure (m, .ok true)
    | .error .stop => pure (m, .ok false)
    | .error e => pure (m, .error e)

mutual
/-- `parse_aggregation_block` -/
def aggBlock (c : PCfg) : Nat → PM (Str × Val)
  | 0 => throw .fuel
  | fuel + 1 => do
    let (begin, name) ← beginAgg c fuel
    match aggregationCls c.g begin with
    | none => throwIn
    | some kind =>
      let items ← aggLoop c begin name [] fuel
      -- the container just built is not the object `_simple_value` names
      modify (fun s => { s with simple := none })
      pure (name, .cont kind items)

def aggLoop (c : PCfg) (begin name : Str) (agg : Items) : Nat → PM Items
  | 0 => throw .fuel
  | fuel + 1 => do
    let _ ← wscUntil c none fuel
    let r1 ← softCatch (do let p ← aggBlock c fuel; pure (some p)) (pure none)
    match r1 with
    | some p => aggLoop c begin name (agg ++ [p]) fuel
    | none =>
      let r2 ← softCatch (do let p ← assignment c fuel; pure (some p)) (pure none)
      match r2 with
      | some p => aggLoop c begin name (agg ++ [p]) fuel
      | none =>
        let r3 ← softCatch (tryCatch (do endAgg c begin name fuel; pure true) (fun e => match e with
            | .stop => throw (.parse none)
            | e => throw e)) (pure false)
        if r3 then pure agg
        else do
          let (agg', out) ← moduleHook c agg fuel
          match out with
          | .ok true => aggLoop c begin name agg' fuel
          | .ok false => throw (.parse none)  -- the tokens ran out inside the open block: ParseError
          | .error .fuel => throw .fuel
          | .error (.lexer p) => throw (.lexer p)
          | .error (.parse t) => throw (.parse t)
          | _ => throwIn               -- the block was opened: a hard error
end

/-- `parse_module` -/
def moduleLoop (c : PCfg) (m : Items) : Nat → PM Items
  | 0 => throw .fuel
  | fuel + 1 => do
    -- for p in (aggregation block, assignment, end statement)
    let (m1, p1) ← softCatch (do
        let _ ← wscUntil c none fuel
        let p ← aggBlock c fuel
        pure (m ++ [p], true)) (pure (m, false))
    let (m2, p2) ← softCatch (do
        let _ ← wscUntil c none fuel
        let p ← assignment c fuel
        pure (m1 ++ [p], true)) (pure (m1, false))
    let ended ← softCatch (do
        let _ ← wscUntil c none fuel
        endStatement c
        pure true) (pure false)
    if ended then return m2
    let (m3, out) ← moduleHook c m2 fuel
    match out with
    | .ok true => moduleLoop c m3 fuel
    | .ok false => pure m3
    | .error .fuel => throw .fuel
    | .error (.lexer p) => throw (.lexer p)
    | .error (.parse t) => throw (.parse t)
    | .error _ =>
      if p1 || p2 then moduleLoop c m3 fuel
      else do
        let _ ← next c
        throwIn

end P

/-- a block keyword is nothing else: the lexical sanity condition of the block-accounting theorem
    (`Lemmas/ParserCount.lean`), as a computation; the driver evaluates it on every parsed input -/
def saneText (g : Grammar) (d : Dec) (x : Str) : Bool :=
  let isB := Tok.isBeginAggregation g x
  let isE := g.aggKeywords.any (fun p => foldEq x p.2)
  !(isB && isE) &&
  (!(isB || isE) ||
    (!Tok.isWSC g x && !Tok.isDelimiter g x &&
     (match decodeSimple d x with | .ok _ => false | .error _ => true) &&
     !startsWith x [g.unitsDelims.1] && !Tok.isParameterName d x && !Tok.isEndStatement g x))

def saneToks (g : Grammar) (d : Dec) (toks : List Token) : Bool := toks.all (fun t => saneText g d t.text)

structure ParseResult where
  outcome : Except PErr Items
  errors : List Int     -- `parser.errors` after the call (unsorted, as stored)
  sites : List String
  /-- the last token the lexer generator produced, and whether the generator finished -/
  last : Option Token
  exhausted : Bool
  deriving Repr

/-- `re.sub(r"-[\n\r\f]\s*", "", s)` (parser.py:855) -/
def omniPrepass : Str → Str
  | [] => []
  | [c] => [c]
  | c :: n :: r =>
    if c == 45 && (n == 10 || n == 13 || n == 12) then omniPrepass (r.dropWhile isSpace)
    else c :: omniPrepass (n :: r)
termination_by s => s.length
decreasing_by
  all_goals simp_wf
  · have := Py.length_dropWhile_le isSpace r; omega

def insertSorted (x : Int) : List Int → List Int
  | [] => [x]
  | y :: r => if x ≤ y then x :: y :: r else y :: insertSorted x r

def sortInts (l : List Int) : List Int := l.foldr insertSorted []

/-- fuel that is always enough for a terminating parse of `n` tokens -/
def fuelFor (n : Nat) : Nat := 4 * n + 16

/-- `parser.parse(s)` starting from a parser whose `errors` list is `prior`. -/
def parseWith (g : Grammar) (d : Dec) (kind : ParserKind) (prior : List Int) (s : Str) : ParseResult :=
  let doc := if kind == .omni then omniPrepass s else s
  let (toks, tail) := lexAll g d doc
  let c : PCfg := ⟨g, d, kind, doc, tail⟩
  -- `self.errors = []` at the top of `parse()`: whatever an earlier call left is discarded
  let _ := prior
  let st : PSt := ⟨⟨toks, none, none, false⟩, [], [], none, false⟩
  let (r, st') := (P.moduleLoop c [] (fuelFor (toks.length + 2))).run.run st
  ⟨r, st'.errors, st'.sites, st'.gen.last, st'.gen.dead⟩

end Pvl
