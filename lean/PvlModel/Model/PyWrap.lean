import PvlModel.Model.PyStr
/-!
  `textwrap.wrap(text, width, replace_whitespace=False, initial_indent=…, subsequent_indent=…,
   break_long_words=False, break_on_hyphens=False)` as CPython 3.12's `TextWrapper` runs it
  (defaults `expand_tabs=True`, `tabsize=8`, `drop_whitespace=True`, `max_lines=None`).
-/
namespace Pvl.Py

/-- `str.expandtabs(8)` -/
def expandTabsGo : Str → Nat → Str
  | [], _ => []
  | c :: r, col =>
    if c == 9 then
      let n := 8 - col % 8
      List.replicate n 32 ++ expandTabsGo r (col + n)
    else if c == 10 || c == 13 then c :: expandTabsGo r 0
    else c :: expandTabsGo r (col + 1)

def expandTabs (s : Str) : Str := expandTabsGo s 0

/-- the characters of `textwrap._whitespace` -/
def wrapWs (c : Nat) : Bool := c == 9 || c == 10 || c == 11 || c == 12 || c == 13 || c == 32

/-- `wordsep_simple_re.split(text)` without empty chunks: maximal runs of white space and of
    non-white-space alternate. -/
def chunksGo : Str → Str → Bool → List Str → List Str
  | [], cur, _, acc => (if cur.isEmpty then acc else cur.reverse :: acc).reverse
  | c :: r, cur, curWs, acc =>
    let w := wrapWs c
    if cur.isEmpty then chunksGo r [c] w acc
    else if w == curWs then chunksGo r (c :: cur) curWs acc
    else chunksGo r [c] w (cur.reverse :: acc)

def chunks (s : Str) : List Str := chunksGo s [] false []

/-- `chunk.strip() == ''` (Python `str.strip()` without argument) -/
def blank (s : Str) : Bool := s.all isSpace

/-- take chunks while they fit -/
def fill (width : Nat) : List Str → List Str → Nat → List Str × List Str × Nat
  | [], cur, len => (cur, [], len)
  | c :: r, cur, len =>
    if len + c.length ≤ width then fill width r (cur ++ [c]) (len + c.length) else (cur, c :: r, len)

/-- `_wrap_chunks`; fuel bounds the number of lines (each line consumes at least one chunk,
    or the remaining chunks are empty). `none` = `ValueError` (width ≤ 0). -/
def wrapLines (width : Nat) (initial subsequent : Str) : Nat → List Str → List Str → List Str
  | 0, _, lines => lines
  | fuel + 1, chs, lines =>
    match chs with
    | [] => lines
    | _ =>
      let indent := if lines.isEmpty then initial else subsequent
      let w := width - indent.length
      -- drop leading white-space chunk on continuation lines
      let chs := match chs with
        | c :: r => if blank c && !lines.isEmpty then r else chs
        | [] => chs
      let (cur, rest, _) := fill w chs [] 0
      -- a chunk longer than the line goes on a line of its own (break_long_words=False)
      let (cur, rest) := match rest with
        | c :: r => if c.length > w && cur.isEmpty then ([c], r) else (cur, rest)
        | [] => (cur, rest)
      -- drop trailing white-space chunk
      let cur := match cur.getLast? with
        | some l => if blank l then cur.dropLast else cur
        | none => cur
      let lines := if cur.isEmpty then lines else lines ++ [indent ++ cur.flatten]
      wrapLines width initial subsequent fuel rest lines

/-- `textwrap.wrap(…)`; `none` is the `ValueError` for a non-positive width. -/
def wrap (text : Str) (width : Int) (initial subsequent : Str) : Option (List Str) :=
  let chs := chunks (expandTabs text)
  if width ≤ 0 then none
  else some (wrapLines width.toNat initial subsequent (chs.length + 1) chs [])

end Pvl.Py
