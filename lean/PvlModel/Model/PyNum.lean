import PvlModel.Model.PyStr
/-!
  `int(s, 10)`, `int(s, base)` (on the restricted shape the non-decimal regexes let through)
  and the acceptance set of `float(s)`, as CPython 3.12 implements them
  (`PyLong_FromUnicodeObject`/`PyLong_FromString`, `float_from_string_inner`,
  `_Py_string_to_number_with_underscores`).  Domain bound: fewer than 4300 digits
  (CPython's int/str conversion limit) — longer digit strings are outside the model.
-/
namespace Pvl.Py

/-- `_PyUnicode_TransformDecimalAndSpaceToASCII`: Unicode decimals become ASCII digits, non-ASCII
    white space becomes a blank, any other non-ASCII code point becomes `?`. -/
def toAsciiNum (s : Str) : Str :=
  s.map (fun c =>
    if c < 128 then c
    else match digitVal c with
      | some d => 48 + d
      | none => if isSpace c then 32 else 63)

/-- C `Py_ISSPACE` on ASCII. -/
def cSpace (c : Nat) : Bool := c == 32 || (9 ≤ c && c ≤ 13)

def cstrip (s : Str) : Str :=
  ((s.dropWhile cSpace).reverse.dropWhile cSpace).reverse

def isDigit (c : Nat) : Bool := 48 ≤ c && c ≤ 57

/-- digit value in bases up to 36 (`_PyLong_DigitValue`). -/
def digitValue (c : Nat) : Nat :=
  if 48 ≤ c && c ≤ 57 then c - 48
  else if 97 ≤ c && c ≤ 122 then c - 97 + 10
  else if 65 ≤ c && c ≤ 90 then c - 65 + 10
  else 37

/-- Digits with single underscores between them, in the given base; the accumulated value.
    `prevUnd` = previous character was `_`; `any` = at least one digit seen. -/
def scanDigits (base : Nat) : Str → Nat → Bool → Bool → Option Nat
  | [], acc, prevUnd, any => if prevUnd || !any then none else some acc
  | c :: r, acc, prevUnd, any =>
    if c == 95 then
      (if prevUnd || !any then none else scanDigits base r acc true any)
    else if digitValue c < base then scanDigits base r (acc * base + digitValue c) false true
    else none

def splitSign (s : Str) : Bool × Str :=
  match s with
  | 43 :: r => (false, r)
  | 45 :: r => (true, r)
  | _ => (false, s)

/-- `int(s, 10)`; `none` is `ValueError`. -/
def int10 (s : Str) : Option Int :=
  let t := cstrip (toAsciiNum s)
  let (neg, body) := splitSign t
  match scanDigits 10 body 0 false false with
  | some n => some (if neg then -(n : Int) else (n : Int))
  | none => none

/-- `int(sign + digits, base)` for `2 ≤ base ≤ 16`, where `digits` matches `[0-9A-Fa-f|]+`
    (what the grammar regexes let through).  CPython accepts a `0b`/`0B` prefix in base 2. -/
def intBase (s : Str) (base : Nat) : Option Int :=
  let t := cstrip (toAsciiNum s)
  let (neg, body) := splitSign t
  let body := match body with
    | 48 :: p :: r =>
      if base == 2 && (p == 98 || p == 66) then (match r with | 95 :: r' => r' | _ => r)
      else if base == 16 && (p == 120 || p == 88) then (match r with | 95 :: r' => r' | _ => r)
      else if base == 8 && (p == 111 || p == 79) then (match r with | 95 :: r' => r' | _ => r)
      else body
    | _ => body
  match scanDigits base body 0 false false with
  | some n => some (if neg then -(n : Int) else (n : Int))
  | none => none

/-- Remove underscores, enforcing "only between digits". `none` = error. -/
def dropUnderscores : Str → Nat → Str → Option Str
  | [], prev, acc => if prev == 95 then none else some acc.reverse
  | c :: r, prev, acc =>
    if c == 95 then (if isDigit prev then dropUnderscores r c acc else none)
    else if prev == 95 && !isDigit c then none
    else dropUnderscores r c (c :: acc)

def takeDigits (s : Str) : Str × Str := (s.takeWhile isDigit, s.dropWhile isDigit)

def lowerStr (s : Str) : Str := s.map lowerAscii1

/-- the numeric grammar of `_Py_dg_strtod` / `_Py_parse_inf_or_nan`, whole string. -/
def floatBody (s : Str) : Bool :=
  let (_, b) := splitSign s
  let lb := lowerStr b
  if lb == [105, 110, 102] || lb == [105, 110, 102, 105, 110, 105, 116, 121] || lb == [110, 97, 110]
  then true
  else
    let (ip, r1) := takeDigits b
    let (fp, r2, dot) := match r1 with
      | 46 :: r => let (f, r') := takeDigits r; (f, r', true)
      | _ => ([], r1, false)
    let _ := dot
    if ip.isEmpty && fp.isEmpty then false
    else match r2 with
      | [] => true
      | e :: r =>
        if e == 101 || e == 69 then
          let (_, r') := splitSign r
          let (ed, rest) := takeDigits r'
          !ed.isEmpty && rest.isEmpty
        else false

/-- `float(s)` succeeds. -/
def floatOk (s : Str) : Bool :=
  let t := cstrip (toAsciiNum s)
  if t.contains 95 then
    match dropUnderscores t 0 [] with
    | some u => floatBody u
    | none => false
  else floatBody t

end Pvl.Py
