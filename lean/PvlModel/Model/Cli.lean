import PvlModel.Model.Basic
/-!
  Model of the decision and reporting logic of the command-line tools (`pvl/pvl_validate.py`,
  `pvl/pvl_translate.py`): how the outcome of a library call becomes a verdict, and how verdicts become
  the printed report.  The library calls themselves (`pvl.loads`, `pvl.dumps`) are parameters: their
  outcome class is what the tools look at.
-/
namespace Pvl.Cli

/-- how `pvl.loads(text, **dialect)` ended, as `pvl_flavor` distinguishes it -/
inductive LoadOutcome
  | ok            -- a module
  | pvlError      -- LexerError / ParseError
  | other         -- any other exception (bare `except:`)
  deriving DecidableEq, Repr

/-- how `pvl.dumps(module, **dialect)` ended -/
inductive DumpOutcome
  | ok
  | refused       -- LexerError, ParseError, ValueError, TypeError
  | other         -- anything else: propagates to the outer bare `except:`
  deriving DecidableEq, Repr

/-- `pvl_flavor` (pvl_validate.py:129): `(loads, encodes)`; `dump` is only consulted after a load -/
def flavor (load : LoadOutcome) (dump : DumpOutcome) : Bool × Option Bool :=
  match load with
  | .pvlError => (false, none)
  | .other => (false, none)
  | .ok =>
    match dump with
    | .ok => (true, some true)
    | .refused => (true, some false)
    | .other => (false, none)     -- `loads = True` is overwritten by the outer handler

abbrev Verdict := Bool × Option Bool

/-- text as a list of characters -/
abbrev S := List Char

def loadsWord (b : Bool) : S := if b then "Loads".toList else "does NOT load".toList
def encodesWord : Option Bool → S
  | some true => "Encodes".toList
  | some false => "does NOT encode".toList
  | none => []

def loadsShort (b : Bool) : S := if b then "L".toList else "No L".toList
def encodesShort : Option Bool → S
  | some true => "E".toList
  | some false => "No E".toList
  | none => []

def spaces (n : Nat) : S := List.replicate n ' '

/-- `"{0:<{w}}".format(s)` -/
def ljust (s : S) (w : Nat) : S := s ++ spaces (w - s.length)

/-- `"{0:^{w}}".format(s)`: the odd blank goes to the right -/
def center (s : S) (w : Nat) : S :=
  let pad := w - s.length
  spaces (pad / 2) ++ s ++ spaces (pad - pad / 2)

def sepBar : S := " | ".toList

def joinWith (sep : S) : List S → S
  | [] => []
  | [x] => x
  | x :: r => x ++ sep ++ joinWith sep r

/-- `build_line` (pvl_validate.py:245) -/
def buildLine (elements : List S) (widths : List Nat) : S :=
  match elements, widths with
  | e :: es, w :: ws => joinWith sepBar (ljust e w :: (es.zip ws).map (fun p => center p.1 p.2))
  | _, _ => []

def maxLen (l : List S) : Nat := l.foldl (fun m s => max m s.length) 0

/-- one line of the single-file report -/
def lineOne (flavors : List S) (name : S) (v : Verdict) : S :=
  let col1w := maxLen flavors
  let col2w := maxLen [loadsWord true, loadsWord false]
  let col3w := maxLen [encodesWord (some true), encodesWord (some false), encodesWord none]
  buildLine [name, loadsWord v.1, encodesWord v.2] [col1w, col2w, col3w]

/-- `report` for a single file (pvl_validate.py:171) -/
def reportOne (flavors : List S) (r : List Verdict) : S :=
  joinWith ['\n'] ((flavors.zip r).map (fun p => lineOne flavors p.1 p.2))

def replaceChar (s : S) (a b : Char) : S := s.map (fun c => if c == a then b else c)

/-- `report_many` (pvl_validate.py:206) -/
def reportMany (flavors : List S) (rows : List (S × List Verdict)) : S :=
  let col1w := maxLen (rows.map (·.1))
  let col2w := maxLen [loadsShort true, loadsShort false]
  let col3w := maxLen [encodesShort (some true), encodesShort (some false), encodesShort none]
  let flavorw := col2w + col3w + 1
  let header := "File".toList :: flavors
  let headerw := col1w :: flavors.map (fun _ => flavorw)
  let rule := spaces col1w :: flavors.map (fun _ => spaces flavorw)
  let ruleLine := replaceChar (replaceChar (buildLine rule headerw) '|' '+') ' ' '-'
  let body := rows.map (fun row =>
    buildLine (row.1 :: row.2.map (fun v => center (loadsShort v.1) col2w ++ [' '] ++ center (encodesShort v.2) col3w))
      headerw)
  joinWith ['\n'] ([ruleLine, buildLine header headerw, ruleLine] ++ body)

/-- `report` -/
def report (flavors : List S) (rows : List (S × List Verdict)) : S :=
  match rows with
  | [row] => reportOne flavors row.2
  | _ => reportMany flavors rows

/-- the dialect rows of `pvl_validate.dialects`, in table order -/
def dialectNames : List S := ["PDS3".toList, "ODL".toList, "PVL".toList, "ISIS".toList, "Omni".toList]

/-- `pvl_translate.formats`: which writer an output format selects -/
inductive Writer | pds3 | odl | isis | pvl | json
  deriving DecidableEq, Repr

def writerOf (fmt : String) : Option Writer :=
  if fmt == "PDS3" then some .pds3 else if fmt == "ODL" then some .odl else if fmt == "ISIS" then some .isis
  else if fmt == "PVL" then some .pvl else if fmt == "JSON" then some .json else none

end Pvl.Cli
