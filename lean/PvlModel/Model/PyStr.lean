import PvlModel.Model.Basic
import PvlModel.Gen.Tables
/-!
  The part of CPython's `str` that pvl relies on, over `Str = List Nat`.
  Validated against CPython 3.12 by the `pylayer` correspondence suite.
-/
namespace Pvl.Py

/-- Python index normalisation for `s[a:b]`-style bounds (`start`/`end` of find, count …). -/
def normBound (n : Nat) (i : Int) : Nat :=
  if i < 0 then (if i + (n : Int) < 0 then 0 else (i + (n : Int)).toNat)
  else (if i > (n : Int) then n else i.toNat)

theorem length_dropWhile_le {α} (p : α → Bool) (l : List α) :
    (l.dropWhile p).length ≤ l.length := by
  induction l with
  | nil => simp
  | cons a r ih =>
    simp only [List.dropWhile_cons]
    split
    · simp only [List.length_cons]; omega
    · simp

def startsWith : Str → Str → Bool
  | _, [] => true
  | [], _ :: _ => false
  | a :: s, b :: p => a == b && startsWith s p

def endsWith (s p : Str) : Bool := startsWith s.reverse p.reverse

/-- `s.startswith(p, i)` -/
def startsWithAt (s p : Str) (i : Nat) : Bool := i ≤ s.length && startsWith (s.drop i) p

/-- `p in s` (substring test). -/
def isInfix (p : Str) : Str → Bool
  | [] => p.isEmpty
  | c :: s => startsWith (c :: s) p || isInfix p s

def mem (c : Nat) (s : List Nat) : Bool := s.contains c

/-- `s.count(c, start, end)` for a single character, Python bounds. -/
def countChar (s : Str) (c : Nat) (start stop : Int) : Nat :=
  let n := s.length
  let lo := normBound n start
  let hi := normBound n stop
  (((s.drop lo).take (hi - lo)).filter (· == c)).length

def rfindGo (c : Nat) : Str → Nat → Option Nat → Option Nat
  | [], _, acc => acc
  | x :: r, i, acc => rfindGo c r (i + 1) (if x == c then some i else acc)

/-- `s.rfind(c, start, end)` for a single character; `-1` when absent. -/
def rfindChar (s : Str) (c : Nat) (start stop : Int) : Int :=
  let n := s.length
  let lo := normBound n start
  let hi := normBound n stop
  match rfindGo c ((s.drop lo).take (hi - lo)) lo none with
  | some i => (i : Int)
  | none => -1

def findGo (c : Nat) : Str → Nat → Option Nat
  | [], _ => none
  | x :: r, i => if x == c then some i else findGo c r (i + 1)

/-- `s.find(c, start)` for a single character. -/
def findChar (s : Str) (c : Nat) (start : Int) : Int :=
  let lo := normBound s.length start
  match findGo c (s.drop lo) lo with
  | some i => (i : Int)
  | none => -1

def lstrip (s : Str) (chars : List Nat) : Str := s.dropWhile (fun c => chars.contains c)
def rstrip (s : Str) (chars : List Nat) : Str := (lstrip s.reverse chars).reverse
def strip (s : Str) (chars : List Nat) : Str := rstrip (lstrip s chars) chars

def isSpace (c : Nat) : Bool := inRanges Gen.pySpace c
def isDecimal (c : Nat) : Bool := inRanges Gen.pyDecimal c
def isPrintable (c : Nat) : Bool := inRanges Gen.pyPrintable c

/-- value of a Unicode decimal digit: offset in its range modulo 10. -/
def digitVal (c : Nat) : Option Nat :=
  match Gen.pyDecimal.find? (fun r => r.1 ≤ c && c ≤ r.2) with
  | some r => some ((c - r.1) % 10)
  | none => none

/-- `s.split()` with no argument: split on runs of `str.isspace` characters. -/
def splitWsGo : Str → Str → List Str → List Str
  | [], cur, acc => (if cur.isEmpty then acc else cur.reverse :: acc).reverse
  | c :: r, cur, acc =>
    if isSpace c then splitWsGo r [] (if cur.isEmpty then acc else cur.reverse :: acc)
    else splitWsGo r (c :: cur) acc
def splitWs (s : Str) : List Str := splitWsGo s [] []

/-- `s.replace(c, d)` for single characters. -/
def replaceChar (s : Str) (c d : Nat) : Str := s.map (fun x => if x == c then d else x)

def ljust (s : Str) (w : Nat) : Str := s ++ List.replicate (w - s.length) 32

/-- `s.partition(c)` for a single-character separator. -/
def partitionChar (s : Str) (c : Nat) : Str × Bool × Str :=
  match findGo c s 0 with
  | some i => (s.take i, true, s.drop (i + 1))
  | none => (s, false, [])

def upperAscii (s : Str) : Str := s.map (fun c => if 97 ≤ c && c ≤ 122 then c - 32 else c)
def lowerAscii1 (c : Nat) : Nat := if 65 ≤ c && c ≤ 90 then c + 32 else c

/-- `str.casefold()` restricted to the keyword alphabet: a code point whose fold leaves the
    alphabet is mapped to the sentinel `0x110000`, which no keyword contains. -/
def casefold (s : Str) : Str :=
  s.flatMap (fun c =>
    match Gen.pyCasefold.find? (fun p => p.1 == c) with
    | some p => p.2
    | none => [0x110000])

/-- `a.casefold() == b.casefold()` -/
def foldEq (a b : Str) : Bool := casefold a == casefold b

def isAscii (s : Str) : Bool := s.all (· < 128)
def isAsciiAlpha (c : Nat) : Bool := inRanges Gen.pyAsciiAlpha c
def isAsciiDigit (c : Nat) : Bool := inRanges Gen.pyAsciiDigit c

def join (sep : Str) : List Str → Str
  | [] => []
  | [x] => x
  | x :: r => x ++ sep ++ join sep r

end Pvl.Py
