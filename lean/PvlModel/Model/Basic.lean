/-
  Basic types shared by the generated tables and the hand-written model.
  Mathlib-free; everything here is executable.
-/
namespace Pvl

/-- Python `str` as a list of code points (a Python `str` may hold lone surrogates,
    a Lean `String` may not). -/
abbrev Str := List Nat

/-- Inclusive code-point ranges. -/
abbrev Ranges := List (Nat × Nat)

def inRanges (rs : Ranges) (c : Nat) : Bool :=
  rs.any (fun r => r.1 ≤ c && c ≤ r.2)

/-- A grammar object, as the extractor reads it from an *instance* of the class. -/
structure Grammar where
  name : String
  whitespace : List Nat
  spacing : List Nat
  formatEffectors : List Nat
  reserved : List Nat
  numericStart : List Nat
  delimiters : List Str
  comments : List (Str × Str)
  noneKw : Str
  trueKw : Str
  falseKw : Str
  groupPref : Str × Str
  objectPref : Str × Str
  groupKeywords : List (Str × Str)
  objectKeywords : List (Str × Str)
  aggKeywords : List (Str × Str)
  endStatements : List Str
  reservedKeywords : List Str
  quotes : List Nat
  setDelims : Nat × Nat
  seqDelims : Nat × Nat
  unitsDelims : Nat × Nat
  ndPrePattern : String
  ndPattern : String
  binPattern : String
  octPattern : String
  hexPattern : String
  leapYmdPattern : Option String
  leapYjPattern : Option String
  mFragPattern : String
  defaultUtc : Bool
  dateFormats : List Str
  timeFormats : List Str
  datetimeFormats : List Str
  allowed : Ranges

/-- Constructor defaults of an encoder class. -/
structure EncDefaults where
  cls : String
  grammar : String
  decoder : String
  indent : Nat
  width : Nat
  aggregationEnd : Bool
  endDelimiter : Bool
  newline : Str
  convertGroupToObject : Bool
  tabReplace : Nat
  symbolSingleQuote : Bool
  timeTrailingZ : Bool

def ofString (s : String) : Str := s.toList.map Char.toNat

end Pvl
