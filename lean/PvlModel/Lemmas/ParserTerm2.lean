import PvlModel.Lemmas.ParserTerm

/-! Termination pass, statement level (continues `ParserTerm`). -/
namespace Pvl.P
open Std.Do

set_option mvcgen.warning false

theorem valueTm (c : PCfg) (fuel : Nat) : ValueTm c fuel := by
  induction fuel with
  | zero => exact valueTm_zero c
  | succ n ih => exact valueTm_succ c n ih

theorem value_tm (c : PCfg) (fuel : Nat) (r0 : Nat) :
    ⦃fun s => ⌜Rdy c s ∧ R s = r0⌝⦄ (value c fuel : PM Val)
    ⦃post⟨fun _ s => ⌜Inv c s ∧ R s ≤ r0⌝,
          fun e s => ⌜(Hard0 c e ∨ (e = .stop ∧ s.gen.dead = true ∧ s.gen.pushed = none ∧ c.tail = .eof)) ∧
                      R s ≤ r0 ∧ (e = .fuel → fuel < 3 * r0 + 4)⌝⟩⦄ := (valueTm c fuel).1 r0

theorem assignmentBase_tm (c : PCfg) (fuel : Nat) (r0 : Nat) :
    ⦃fun s => ⌜Inv c s ∧ R s = r0⌝⦄ (assignmentBase c fuel : PM (Str × Val))
    ⦃post⟨fun _ s => ⌜Inv c s ∧ R s + 1 ≤ r0⌝,
          fun e s => ⌜(Hard0 c e ∨ ((∃ t, e = .parse (some t)) ∧ Inv c s ∧ c.tail = .eof ∧ R s + 1 ≤ r0) ∨ (e = .value ∧ Inv c s)) ∧
                      R s ≤ r0 ∧ (e = .fuel → fuel < 3 * r0 + 4)⌝⟩⦄ := by
  unfold assignmentBase
  mvcgen -trivial [softCatch, next_tm, send_tm, aroundEquals_tm, throwIn_Live_tm, value_tm, stmtDelim_tm]
  tm_ghost
  tm_close

theorem assignment_tm (c : PCfg) (fuel : Nat) (r0 : Nat) :
    ⦃fun s => ⌜Inv c s ∧ R s = r0⌝⦄ (assignment c fuel : PM (Str × Val))
    ⦃post⟨fun _ s => ⌜Inv c s ∧ R s + 1 ≤ r0⌝,
          fun e s => ⌜(Hard c e ∨ (e = .value ∧ Inv c s)) ∧ R s ≤ r0 ∧ (e = .fuel → fuel < 3 * r0 + 4)⌝⟩⦄ := by
  unfold assignment
  mvcgen -trivial [assignmentBase_tm, emptyValue_tm]
  tm_ghost
  tm_close


theorem endStatement_tm (c : PCfg) (r0 : Nat) :
    ⦃fun s => ⌜Inv c s ∧ R s = r0⌝⦄ (endStatement c : PM Unit)
    ⦃post⟨fun _ s => ⌜Inv c s ∧ Finished c s ∧ R s ≤ r0⌝,
          fun e s => ⌜(e.isLexer = true ∨ (e = .value ∧ Pend s)) ∧ R s ≤ r0⌝⟩⦄ := by
  unfold endStatement
  mvcgen -trivial [next_tm, send_tm]
  tm_ghost
  tm_close

theorem beginAgg_tm (c : PCfg) (fuel : Nat) (r0 : Nat) :
    ⦃fun s => ⌜Inv c s ∧ R s = r0⌝⦄ (beginAgg c fuel : PM (Str × Str))
    ⦃post⟨fun _ s => ⌜Inv c s ∧ R s + 1 ≤ r0⌝,
          fun e s => ⌜(Hard0 c e ∨ (e = .value ∧ Inv c s)) ∧ R s ≤ r0 ∧ (e = .fuel → fuel < 3 * r0 + 1)⌝⟩⦄ := by
  unfold beginAgg
  mvcgen -trivial [softCatch, next_tm, send_tm, aroundEquals_tm, throwIn_Live_tm, stmtDelim_tm]
  tm_ghost
  tm_close

theorem endAgg_tm (c : PCfg) (b n : Str) (fuel : Nat) (r0 : Nat) :
    ⦃fun s => ⌜Inv c s ∧ R s = r0⌝⦄ (endAgg c b n fuel : PM Unit)
    ⦃post⟨fun _ s => ⌜Inv c s ∧ R s ≤ r0⌝,
          fun e s => ⌜(Hard0 c e ∨ (e = .stop ∧ c.tail = .eof) ∨ (e = .value ∧ Pend s)) ∧ R s ≤ r0 ∧
                      (e = .fuel → fuel < 3 * r0 + 1)⌝⟩⦄ := by
  unfold endAgg
  mvcgen -trivial [next_tm, send_tm, aroundEquals_tm, throwIn_Live_tm, stmtDelim_tm]
  tm_ghost
  tm_close

/-- the module post-hook with its resource facts: "keep parsing" (`true`) comes with at least one token
    consumed, so the loops that call it make progress -/
def HookTm (c : PCfg) (fuel r0 : Nat) (r : Items × Except PErr Bool) (s : PSt) : Prop :=
  HookPost c r s ∧ R s ≤ r0 ∧ (r.2 = .ok true → R s + 1 ≤ r0) ∧ (r.2 = .error .fuel → fuel < 3 * r0 + 4)

set_option maxHeartbeats 4000000 in
theorem moduleHook_tm (c : PCfg) (m : Items) (fuel : Nat) (r0 : Nat) :
    ⦃fun s => ⌜Pend s ∧ R s = r0⌝⦄ (moduleHook c m fuel : PM (Items × Except PErr Bool))
    ⦃post⟨fun r s => ⌜HookTm c fuel r0 r s⌝, fun _ _ => ⌜False⌝⟩⦄ := by
  unfold moduleHook moduleHook.peek
  mvcgen -trivial [next_tm, send_tm, emptyValue_tm, mark_tm, wscUntil_tm, value_tm, stmtDelim_tm]
  tm_ghost
  all_goals (try unfold HookTm)
  tm_close


macro "tm_close_g" : tactic => `(tactic|
  all_goals (first
    | assumption
    | grind [R, HookTm, HookPost, EndSeen, Finished, Hard, Hard0, Inv, Got, GotT, Pend, Rdy, Live, PErr.isLexer, PErr.isValueError]
    | grind (splits := 40) [R, HookTm, HookPost, EndSeen, Finished, Hard, Hard0, Inv, Got, GotT, Pend, Rdy, Live, PErr.isLexer, PErr.isValueError]
    | grind (splits := 40) [R, HookTm, HookPost, EndSeen, Finished, Hard, Hard0, Inv, Got, GotT, Pend, Rdy, Live, isLexer_iff, PErr.isValueError]))

/-- the two mutually recursive block functions with their resource bounds -/
def AggTm (c : PCfg) (fuel : Nat) : Prop :=
  (∀ r0, ⦃fun s => ⌜Inv c s ∧ R s = r0⌝⦄ (aggBlock c fuel : PM (Str × Val))
    ⦃post⟨fun _ s => ⌜Inv c s ∧ R s + 1 ≤ r0⌝,
          fun e s => ⌜(Hard c e ∨ (e = .value ∧ Inv c s)) ∧ R s ≤ r0 ∧ (e = .fuel → fuel < 3 * r0 + 4)⌝⟩⦄) ∧
  (∀ b n agg r0, ⦃fun s => ⌜Inv c s ∧ R s = r0⌝⦄ (aggLoop c b n agg fuel : PM Items)
    ⦃post⟨fun _ s => ⌜Inv c s ∧ R s ≤ r0⌝,
          fun e s => ⌜(Hard c e ∨ (e = .value ∧ Inv c s)) ∧ R s ≤ r0 ∧ (e = .fuel → fuel < 3 * r0 + 5)⌝⟩⦄)

theorem aggTm_zero (c : PCfg) : AggTm c 0 := by
  refine ⟨?_, ?_⟩
  · intro r0; unfold aggBlock; mvcgen; tm_close
  · intro b n a r0; unfold aggLoop; mvcgen; tm_close

set_option maxRecDepth 4000 in
set_option maxHeartbeats 16000000 in
theorem aggTm_succ (c : PCfg) (k : Nat) (ih : AggTm c k) : AggTm c (k + 1) := by
  obtain ⟨ihBlock, ihLoop⟩ := ih
  have hT : ∀ {α} (r0 : Nat), ⦃fun s => ⌜Inv c s ∧ R s = r0⌝⦄ (throwIn : PM α)
      ⦃post⟨fun _ _ => ⌜False⌝, fun e s => ⌜(e.isLexer = true ∨ (e = .value ∧ Inv c s)) ∧ R s ≤ r0⌝⟩⦄ :=
    fun {α} r0 => throwIn_Inv_tm (α := α) c r0
  refine ⟨?_, ?_⟩
  · intro r0
    unfold aggBlock
    mvcgen -trivial [beginAgg_tm, hT, ihLoop]
    tm_ghost
    tm_close
  · intro b n a r0
    unfold aggLoop
    mvcgen -trivial [softCatch, wscUntil_tm, ihBlock, ihLoop, assignment_tm, endAgg_tm, moduleHook_tm, hT]
    tm_ghost
    tm_close_g

theorem aggTm (c : PCfg) (fuel : Nat) : AggTm c fuel := by
  induction fuel with
  | zero => exact aggTm_zero c
  | succ n ih => exact aggTm_succ c n ih

theorem aggBlock_tm (c : PCfg) (fuel : Nat) (r0 : Nat) :
    ⦃fun s => ⌜Inv c s ∧ R s = r0⌝⦄ (aggBlock c fuel : PM (Str × Val))
    ⦃post⟨fun _ s => ⌜Inv c s ∧ R s + 1 ≤ r0⌝,
          fun e s => ⌜(Hard c e ∨ (e = .value ∧ Inv c s)) ∧ R s ≤ r0 ∧ (e = .fuel → fuel < 3 * r0 + 4)⌝⟩⦄ :=
  (aggTm c fuel).1 r0


set_option maxRecDepth 4000 in
set_option maxHeartbeats 16000000 in
/-- **`parse_module` makes progress**: it runs out of fuel only if it was given less than
    `3·(tokens left) + 5` -/
theorem moduleLoop_tm (c : PCfg) (fuel : Nat) :
    ∀ m r0, ⦃fun s => ⌜Inv c s ∧ R s = r0⌝⦄ (moduleLoop c m fuel : PM Items)
      ⦃post⟨fun _ s => ⌜Finished c s⌝, fun e _ => ⌜Hard c e ∧ (e = .fuel → fuel < 3 * r0 + 5)⌝⟩⦄ := by
  induction fuel with
  | zero => intro m r0; unfold moduleLoop; mvcgen; tm_close
  | succ k ih =>
    intro m r0
    unfold moduleLoop
    mvcgen -trivial [softCatch, wscUntil_tm, aggBlock_tm, assignment_tm, endStatement_tm, moduleHook_tm,
      next_pend_tm, throwIn_Live_tm, ih]
    tm_ghost
    tm_close_g

end Pvl.P
