import PvlModel.Lemmas.DoyDT
import PvlModel.Lemmas.Frac
namespace Pvl
open Py Enc

/-! ### the usual PDS3 spelling: `YYYY-DDDTHH:MM:SS.fff` -/

theorem strptime_JT_HMSfk (y j h mi s : Nat) (hd : ValidDoy y j) (hh : h < 24) (hm : mi < 60) (hs : s < 60)
    (ds : Str) (hds : AllDigits ds) (h1 : 1 ≤ ds.length) (h6 : ds.length ≤ 6) :
    strptime (doyT y j (pad h 2 ++ 58 :: (pad mi 2 ++ 58 :: (pad s 2 ++ 46 :: ds)))) (fmtJT fmtHMSf) =
      some ⟨y, (monthDayOf y j).1, (monthDayOf y j).2, h, mi, s, fracMicros ds⟩ := by
  obtain ⟨hy1, hy2, hj1, hj2⟩ := hd
  have hj366 := diy_le y
  have e1 : (y == 0 || decide (y > 9999)) = false := by simp; omega
  have e2 : (j ≤ if isLeap y then 366 else 365) := hj2
  unfold strptime
  rw [compile_JT_HMSf]
  have hm' := match_HMSfk_rest h mi s hh hm hs ds hds h1 h6 [] (by intro c t h; cases h)
  simp only [List.append_nil] at hm'
  simp only [j_prefix y j (by omega) hj1 (by omega) _ _ _ _ hm']
  have e : ¬ s > 59 := by omega
  have hne : ds ≠ [] := by intro h0; subst h0; simp at h1
  simp [jCaps, field?, List.find?, field_beq, natOf_pad, e1, e2, e, natOf_frac ds hds hne]

theorem strptime_JT_HMSfkZ (y j h mi s : Nat) (hd : ValidDoy y j) (hh : h < 24) (hm : mi < 60) (hs : s < 60)
    (ds : Str) (hds : AllDigits ds) (h1 : 1 ≤ ds.length) (h6 : ds.length ≤ 6) :
    strptime (doyT y j (pad h 2 ++ 58 :: (pad mi 2 ++ 58 :: (pad s 2 ++ 46 :: (ds ++ [90]))))) (fmtJT fmtHMSfZ) =
      some ⟨y, (monthDayOf y j).1, (monthDayOf y j).2, h, mi, s, fracMicros ds⟩ := by
  obtain ⟨hy1, hy2, hj1, hj2⟩ := hd
  have hj366 := diy_le y
  have e1 : (y == 0 || decide (y > 9999)) = false := by simp; omega
  have e2 : (j ≤ if isLeap y then 366 else 365) := hj2
  unfold strptime
  rw [compile_JT_HMSfZ]
  have hm' : matchItems [itemH, litColon, itemM, litColon, itemS, litDot, itemf, litZ]
      (pad h 2 ++ 58 :: (pad mi 2 ++ 58 :: (pad s 2 ++ 46 :: (ds ++ [90])))) =
      some ([(.H, pad h 2), (.none, [58]), (.M, pad mi 2), (.none, [58]), (.S, pad s 2), (.none, [46]),
        (.f, ds), (.none, [90])], []) :=
    H_field h hh _ _ _ _ (colon_field _ _ _ _ (M_field mi hm _ _ _ _ (colon_field _ _ _ _
      (S_field s hs _ _ _ _ (dot_field _ _ _ _ (fk_field ds hds h1 h6 _ _ _ _ (by intro c t h; cases h; omega)
        (Z_field _ _ _ _ (matchItems_nil []))))))))
  simp only [j_prefix y j (by omega) hj1 (by omega) _ _ _ _ hm']
  have e : ¬ s > 59 := by omega
  have hne : ds ≠ [] := by intro h0; subst h0; simp at h1
  simp [jCaps, field?, List.find?, field_beq, natOf_pad, e1, e2, e, natOf_frac ds hds hne]

/-- **`decode_datetime` reads `YYYY-DDDTHH:MM:SS.f…`** (one to six fraction digits, with or without `Z`) -/
theorem decodeDatetimeBase_doy_frac (g : Grammar) (hg : DoyDtTablesOK g = true) (y j h mi s : Nat)
    (hd : ValidDoy y j) (hh : h < 24) (hm : mi < 60) (hs : s < 60) (ds : Str) (hds : AllDigits ds)
    (h1 : 1 ≤ ds.length) (h6 : ds.length ≤ 6) :
    decodeDatetimeBase g (doyT y j (pad h 2 ++ 58 :: (pad mi 2 ++ 58 :: (pad s 2 ++ 46 :: ds)))) =
      some (.datetime y (monthDayOf y j).1 (monthDayOf y j).2 h mi s (fracMicros ds) (defaultTz g)) ∧
    decodeDatetimeBase g (doyT y j (pad h 2 ++ 58 :: (pad mi 2 ++ 58 :: (pad s 2 ++ 46 :: (ds ++ [90]))))) =
      some (.datetime y (monthDayOf y j).1 (monthDayOf y j).2 h mi s (fracMicros ds) (some 0)) := by
  have hd' := hd
  obtain ⟨hy1, hy2, hj1, hj2⟩ := hd'
  have hj366 := diy_le y
  have hne : ds ≠ [] := by intro h0; subst h0; simp at h1
  simp only [DoyDtTablesOK, Bool.and_eq_true, beq_iff_eq] at hg
  obtain ⟨⟨hgd, hgt⟩, hgdt⟩ := hg
  have hymd : ∀ text', firstSome (strptime (doyT y j text'))
      [fmtDT fmtHM, fmtDT fmtHMZ, fmtDT fmtHMS, fmtDT fmtHMSZ, fmtDT fmtHMSf, fmtDT fmtHMSfZ] = none := by
    intro text'
    apply firstSome_none
    intro f hf
    simp only [List.mem_cons, List.mem_nil_iff, or_false] at hf
    rcases hf with rfl | rfl | rfl | rfl | rfl | rfl <;> exact ymdDT_fail_on_doy y j (by omega) (by omega) _ _
  have pre := fun r rest caps fin hk => j_prefix y j (by omega) hj1 (by omega) r rest fin caps hk
  have pren := fun r rest hk => j_prefix_none y j (by omega) (by omega) r rest hk
  constructor
  · have hlen : 12 ≤ (doyT y j (pad h 2 ++ 58 :: (pad mi 2 ++ 58 :: (pad s 2 ++ 46 :: ds)))).length := by
      rw [doyT_length y j (by omega) (by omega)]; simp; omega
    have hz : endsWith (doyT y j (pad h 2 ++ 58 :: (pad mi 2 ++ 58 :: (pad s 2 ++ 46 :: ds)))) [90] = false := by
      have : doyT y j (pad h 2 ++ 58 :: (pad mi 2 ++ 58 :: (pad s 2 ++ 46 :: ds))) =
          (pad y 4 ++ 45 :: (pad j 3 ++ 84 :: (pad h 2 ++ 58 :: (pad mi 2 ++ 58 :: (pad s 2 ++ [46]))))) ++ ds := by
        simp [doyT]
      rw [this]; exact endsWith_digits _ _ hne hds
    unfold decodeDatetimeBase
    rw [date_formats_fail g hgd _ hlen]
    simp only [hz, Bool.false_eq_true, if_false]
    have htimes : firstSome (strptime (doyT y j (pad h 2 ++ 58 :: (pad mi 2 ++ 58 :: (pad s 2 ++ 46 :: ds)))))
        g.timeFormats = none := by
      rw [doyT_head3 y j (by omega)]
      exact time_formats_fail g hgt _ _ _ (by omega) (Nat.mod_lt _ (by omega)) (Nat.mod_lt _ (by omega)) _
    rw [htimes, hgdt, firstSome_append _ _ _ (hymd _)]
    rw [firstSome_cons_none _ _ _ (strptime_leaves _ _ _ compile_JT_HM _ 58 (pad s 2 ++ 46 :: ds)
      (pre _ _ _ _ (match_HM h mi hh hm (58 :: (pad s 2 ++ 46 :: ds)))))]
    rw [firstSome_cons_none _ _ _ (strptime_fail_of_match_none _ _ _ compile_JT_HMZ
      (pren _ _ (HM_then_lit_fail h mi hh hm 90 dZ [] 58 (pad s 2 ++ 46 :: ds) (by decide))))]
    rw [firstSome_cons_none _ _ _ (strptime_leaves _ _ _ compile_JT_HMS _ 46 ds
      (pre _ _ _ _ (match_HMS h mi s hh hm hs (46 :: ds))))]
    rw [firstSome_cons_none _ _ _ (strptime_fail_of_match_none _ _ _ compile_JT_HMSZ
      (pren _ _ (HMS_then_lit_fail h mi s hh hm hs 90 dZ [] 46 ds (by decide))))]
    rw [firstSome_cons_some _ _ _ _ (strptime_JT_HMSfk y j h mi s hd hh hm hs ds hds h1 h6)]
    simp [defaultTz]
  · have hlen : 12 ≤ (doyT y j (pad h 2 ++ 58 :: (pad mi 2 ++ 58 :: (pad s 2 ++ 46 :: (ds ++ [90]))))).length := by
      rw [doyT_length y j (by omega) (by omega)]; simp; omega
    have hz : endsWith (doyT y j (pad h 2 ++ 58 :: (pad mi 2 ++ 58 :: (pad s 2 ++ 46 :: (ds ++ [90]))))) [90] = true := by
      have : doyT y j (pad h 2 ++ 58 :: (pad mi 2 ++ 58 :: (pad s 2 ++ 46 :: (ds ++ [90])))) =
          (pad y 4 ++ 45 :: (pad j 3 ++ 84 :: (pad h 2 ++ 58 :: (pad mi 2 ++ 58 :: (pad s 2 ++ 46 :: ds))))) ++ [90] := by
        simp [doyT]
      rw [this]; exact endsWith_snoc _ 90
    unfold decodeDatetimeBase
    rw [date_formats_fail g hgd _ hlen]
    simp only [hz, if_true]
    have htimes : firstSome (strptime (doyT y j (pad h 2 ++ 58 :: (pad mi 2 ++ 58 :: (pad s 2 ++ 46 :: (ds ++ [90]))))))
        g.timeFormats = none := by
      rw [doyT_head3 y j (by omega)]
      exact time_formats_fail g hgt _ _ _ (by omega) (Nat.mod_lt _ (by omega)) (Nat.mod_lt _ (by omega)) _
    rw [htimes, hgdt, firstSome_append _ _ _ (hymd _)]
    rw [firstSome_cons_none _ _ _ (strptime_leaves _ _ _ compile_JT_HM _ 58 (pad s 2 ++ 46 :: (ds ++ [90]))
      (pre _ _ _ _ (match_HM h mi hh hm (58 :: (pad s 2 ++ 46 :: (ds ++ [90]))))))]
    rw [firstSome_cons_none _ _ _ (strptime_fail_of_match_none _ _ _ compile_JT_HMZ
      (pren _ _ (HM_then_lit_fail h mi hh hm 90 dZ [] 58 (pad s 2 ++ 46 :: (ds ++ [90])) (by decide))))]
    rw [firstSome_cons_none _ _ _ (strptime_leaves _ _ _ compile_JT_HMS _ 46 (ds ++ [90])
      (pre _ _ _ _ (match_HMS h mi s hh hm hs (46 :: (ds ++ [90])))))]
    rw [firstSome_cons_none _ _ _ (strptime_fail_of_match_none _ _ _ compile_JT_HMSZ
      (pren _ _ (HMS_then_lit_fail h mi s hh hm hs 90 dZ [] 46 (ds ++ [90]) (by decide))))]
    rw [firstSome_cons_none _ _ _ (strptime_leaves _ _ _ compile_JT_HMSf _ 90 []
      (pre _ _ _ _ (match_HMSfk_rest h mi s hh hm hs ds hds h1 h6 [90] (by intro c t h; cases h; omega))))]
    rw [firstSome_cons_some _ _ _ _ (strptime_JT_HMSfkZ y j h mi s hd hh hm hs ds hds h1 h6)]

end Pvl
