import PvlModel.Lemmas.Num

/-! Zero-padded decimal fields (`%04d`, `%02d`, …) and how CPython's `strptime` (as modelled in `PyTime`)
    reads them back: the lemmas behind the C14 round-trip theorems. -/
namespace Pvl
open Py Enc

theorem digitChar_toNat (k : Nat) (h : k < 10) : (Nat.digitChar k).toNat = 48 + k := by
  have : k = 0 ∨ k = 1 ∨ k = 2 ∨ k = 3 ∨ k = 4 ∨ k = 5 ∨ k = 6 ∨ k = 7 ∨ k = 8 ∨ k = 9 := by omega
  rcases this with rfl | rfl | rfl | rfl | rfl | rfl | rfl | rfl | rfl | rfl <;> rfl

/-- the decimal digits of `n`, as code points -/
def digits10 (n : Nat) : Str := (Nat.toDigits 10 n).map Char.toNat

theorem natStr_eq (n : Nat) : natStr n = digits10 n := by
  simp [natStr, digits10]

theorem digits10_lt10 (n : Nat) (h : n < 10) : digits10 n = [48 + n] := by
  simp [digits10, Nat.toDigits_of_lt_base h, digitChar_toNat n h]

theorem digits10_step (n : Nat) (h : 10 ≤ n) : digits10 n = digits10 (n / 10) ++ [48 + n % 10] := by
  simp [digits10, Nat.toDigits_of_base_le (by omega : 1 < 10) h, digitChar_toNat (n % 10) (Nat.mod_lt _ (by omega))]

theorem pad_eq (n w : Nat) : pad n w = List.replicate (w - (digits10 n).length) 48 ++ digits10 n := by
  simp [pad, digits10]

/-- `%02d` of a number below 100 -/
theorem pad2 (n : Nat) (h : n < 100) : pad n 2 = [48 + n / 10, 48 + n % 10] := by
  rw [pad_eq]
  by_cases h1 : n < 10
  · rw [digits10_lt10 n h1]
    have : n / 10 = 0 := by omega
    have : n % 10 = n := by omega
    simp [*]
  · rw [digits10_step n (by omega), digits10_lt10 (n / 10) (by omega)]
    simp

/-- `%03d` of a number below 1000 -/
theorem pad3 (n : Nat) (h : n < 1000) : pad n 3 = [48 + n / 100, 48 + n / 10 % 10, 48 + n % 10] := by
  rw [pad_eq]
  by_cases h1 : n < 10
  · rw [digits10_lt10 n h1]
    have : n / 100 = 0 := by omega
    have : n / 10 % 10 = 0 := by omega
    have : n % 10 = n := by omega
    simp [*]
  · by_cases h2 : n < 100
    · rw [digits10_step n (by omega), digits10_lt10 (n / 10) (by omega)]
      have : n / 100 = 0 := by omega
      have : n / 10 % 10 = n / 10 := by omega
      simp [*]
    · rw [digits10_step n (by omega), digits10_step (n / 10) (by omega), digits10_lt10 (n / 10 / 10) (by omega)]
      have : n / 10 / 10 = n / 100 := by omega
      simp [*]

/-- `%04d` of a number below 10000 -/
theorem pad4 (n : Nat) (h : n < 10000) :
    pad n 4 = [48 + n / 1000, 48 + n / 100 % 10, 48 + n / 10 % 10, 48 + n % 10] := by
  rw [pad_eq]
  by_cases h1 : n < 10
  · rw [digits10_lt10 n h1]
    have : n / 1000 = 0 := by omega
    have : n / 100 % 10 = 0 := by omega
    have : n / 10 % 10 = 0 := by omega
    have : n % 10 = n := by omega
    simp [*]
  · by_cases h2 : n < 100
    · rw [digits10_step n (by omega), digits10_lt10 (n / 10) (by omega)]
      have : n / 1000 = 0 := by omega
      have : n / 100 % 10 = 0 := by omega
      have : n / 10 % 10 = n / 10 := by omega
      simp [*]
    · by_cases h3 : n < 1000
      · rw [digits10_step n (by omega), digits10_step (n / 10) (by omega), digits10_lt10 (n / 10 / 10) (by omega)]
        have : n / 1000 = 0 := by omega
        have : n / 10 / 10 = n / 100 % 10 := by omega
        simp [*]
      · rw [digits10_step n (by omega), digits10_step (n / 10) (by omega), digits10_step (n / 10 / 10) (by omega),
          digits10_lt10 (n / 10 / 10 / 10) (by omega)]
        have : n / 10 / 10 / 10 = n / 1000 := by omega
        have : n / 10 / 10 % 10 = n / 100 % 10 := by omega
        simp [*]

end Pvl

namespace Pvl
open Py Enc

/-! ### `strptime(text, "%Y-%m-%d")` on a zero-padded date -/

def fmtYmd : Str := [37, 89, 45, 37, 109, 45, 37, 100]

def litDash : Item := ⟨.none, [[.lit 45]]⟩

theorem compile_ymd : compileFmt fmtYmd = some [itemY, litDash, itemm, litDash, itemd] := by
  simp [fmtYmd, compileFmt, litDash]

theorem isDecimal_digit (k : Nat) (h : k < 10) : Py.isDecimal (48 + k) = true := by
  have : k = 0 ∨ k = 1 ∨ k = 2 ∨ k = 3 ∨ k = 4 ∨ k = 5 ∨ k = 6 ∨ k = 7 ∨ k = 8 ∨ k = 9 := by omega
  rcases this with rfl | rfl | rfl | rfl | rfl | rfl | rfl | rfl | rfl | rfl <;> decide

theorem ccr (lo hi c : Nat) : CC.ok (.r lo hi) c = (decide (lo ≤ c) && decide (c ≤ hi)) := rfl

/-- the day field at the end of the text -/
theorem match_day (d : Nat) (h1 : 1 ≤ d) (h2 : d ≤ 31) :
    matchItems [itemd] (pad d 2) = some ([(.d, pad d 2)], []) := by
  rw [pad2 d (by omega)]
  by_cases ha : 30 ≤ d
  · have e1 : d / 10 = 3 := by omega
    have e2 : d % 10 = 0 ∨ d % 10 = 1 := by omega
    rcases e2 with e2 | e2 <;>
      simp [matchItems, matchAlts, itemd, matchCCs, dg, ccr, e1, e2]
  · by_cases hb : 10 ≤ d
    · have e1 : d / 10 = 1 ∨ d / 10 = 2 := by omega
      have hd := isDecimal_digit (d % 10) (Nat.mod_lt _ (by omega))
      rcases e1 with e1 | e1 <;>
        simp [matchItems, matchAlts, itemd, matchCCs, dg, ccr, e1, CC.ok, hd]
    · have e1 : d / 10 = 0 := by omega
      have e2 : d % 10 = d := by omega
      have e3 : 49 ≤ 48 + d ∧ 48 + d ≤ 57 := by omega
      simp [matchItems, matchAlts, itemd, matchCCs, dg, ccr, e1, e2, e3]

/-- `-dd` at the end of the text -/
theorem match_dash_day (d : Nat) (h1 : 1 ≤ d) (h2 : d ≤ 31) :
    matchItems [litDash, itemd] (45 :: pad d 2) = some ([(.none, [45]), (.d, pad d 2)], []) := by
  have h := match_day d h1 h2
  simp only [matchItems] at h
  simp [matchItems, matchAlts, litDash, matchCCs, CC.ok, lowerAscii1, h]

/-- `mm-dd` at the end of the text -/
theorem match_month_day (m d : Nat) (hm1 : 1 ≤ m) (hm2 : m ≤ 12) (h1 : 1 ≤ d) (h2 : d ≤ 31) :
    matchItems [itemm, litDash, itemd] (pad m 2 ++ 45 :: pad d 2) =
      some ([(.m, pad m 2), (.none, [45]), (.d, pad d 2)], []) := by
  have h := match_dash_day d h1 h2
  simp only [matchItems] at h
  rw [pad2 m (by omega)]
  by_cases ha : 10 ≤ m
  · have e1 : m / 10 = 1 := by omega
    have e2 : m % 10 = 0 ∨ m % 10 = 1 ∨ m % 10 = 2 := by omega
    rcases e2 with e2 | e2 | e2 <;>
      simp [matchItems, matchAlts, itemm, matchCCs, dg, ccr, e1, e2, h]
  · have e1 : m / 10 = 0 := by omega
    have e2 : m % 10 = m := by omega
    have e3 : 49 ≤ 48 + m ∧ 48 + m ≤ 57 := by omega
    simp [matchItems, matchAlts, itemm, matchCCs, dg, ccr, e1, e2, e3, h]

end Pvl

namespace Pvl
open Py Enc

theorem allDigits_pad2 (n : Nat) (h : n < 100) : AllDigits (pad n 2) := by
  rw [pad2 n h]; intro c hc; simp at hc; rcases hc with rfl | rfl <;> simp [isDigit] <;> omega

theorem allDigits_pad4 (n : Nat) (h : n < 10000) : AllDigits (pad n 4) := by
  rw [pad4 n h]; intro c hc; simp at hc
  rcases hc with rfl | rfl | rfl | rfl <;> simp [isDigit] <;> omega

theorem natOf_pad2 (n : Nat) (h : n < 100) : natOf (pad n 2) = some n := by
  unfold natOf
  rw [int10_digits _ (by rw [pad2 n h]; simp) (allDigits_pad2 n h), pad2 n h]
  simp [digitsVal]; omega

theorem natOf_pad4 (n : Nat) (h : n < 10000) : natOf (pad n 4) = some n := by
  unfold natOf
  rw [int10_digits _ (by rw [pad4 n h]; simp) (allDigits_pad4 n h), pad4 n h]
  simp [digitsVal]; omega

/-- the whole date -/
theorem match_ymd (y m d : Nat) (hy : y < 10000) (hm1 : 1 ≤ m) (hm2 : m ≤ 12) (h1 : 1 ≤ d) (h2 : d ≤ 31) :
    matchItems [itemY, litDash, itemm, litDash, itemd] (encodeDate y m d) =
      some ([(.Y, pad y 4), (.none, [45]), (.m, pad m 2), (.none, [45]), (.d, pad d 2)], []) := by
  have h := match_month_day m d hm1 hm2 h1 h2
  simp only [matchItems, litDash] at h
  have d1 := isDecimal_digit (y / 1000) (by omega)
  have d2 := isDecimal_digit (y / 100 % 10) (Nat.mod_lt _ (by omega))
  have d3 := isDecimal_digit (y / 10 % 10) (Nat.mod_lt _ (by omega))
  have d4 := isDecimal_digit (y % 10) (Nat.mod_lt _ (by omega))
  unfold encodeDate
  rw [pad4 y hy]
  simp [matchItems, matchAlts, itemY, litDash, matchCCs, CC.ok, lowerAscii1, d1, d2, d3, d4, h]

end Pvl

namespace Pvl
open Py Enc

/-- a calendar date the `date` class admits -/
def ValidDate (y m d : Nat) : Prop := 1 ≤ y ∧ y ≤ 9999 ∧ 1 ≤ m ∧ m ≤ 12 ∧ 1 ≤ d ∧ d ≤ daysInMonth y m

theorem daysInMonth_le (y m : Nat) : daysInMonth y m ≤ 31 := by
  unfold daysInMonth; split <;> (try split) <;> omega

theorem field_beq (a b : Field) : (a == b) = decide (a = b) := rfl

/-- **`strptime(f"{y:04d}-{m:02d}-{d:02d}", "%Y-%m-%d")` is that date** -/
theorem strptime_ymd (y m d : Nat) (h : ValidDate y m d) :
    strptime (encodeDate y m d) fmtYmd = some ⟨y, m, d, 0, 0, 0, 0⟩ := by
  obtain ⟨hy1, hy2, hm1, hm2, hd1, hd2⟩ := h
  have hd3 := daysInMonth_le y m
  unfold strptime
  rw [compile_ymd]
  simp only
  rw [match_ymd y m d (by omega) hm1 hm2 hd1 (by omega)]
  have ny := natOf_pad4 y (by omega)
  have nm := natOf_pad2 m (by omega)
  have nd := natOf_pad2 d (by omega)
  have e1 : (y == 0 || decide (y > 9999)) = false := by simp; omega
  have e2 : (decide (1 ≤ m) && decide (m ≤ 12) && decide (1 ≤ d) && decide (d ≤ daysInMonth y m)) = true := by
    simp [hm1, hm2, hd1, hd2]
  simp [field?, List.find?, field_beq, ny, nm, nd, e1, e2]

end Pvl
