import PvlModel.Lemmas.Num

/-! Zero-padded decimal fields (`%04d`, `%02d`, …) and how CPython's `strptime` (as modelled in `PyTime`)
    reads them back: the lemmas behind the C14 round-trip theorems. -/
namespace Pvl
open Py Enc

theorem digitChar_toNat (k : Nat) (h : k < 10) : (Nat.digitChar k).toNat = 48 + k := by
  have : k = 0 ∨ k = 1 ∨ k = 2 ∨ k = 3 ∨ k = 4 ∨ k = 5 ∨ k = 6 ∨ k = 7 ∨ k = 8 ∨ k = 9 := by omega
  rcases this with rfl | rfl | rfl | rfl | rfl | rfl | rfl | rfl | rfl | rfl <;> rfl

/-- the decimal digits of `n`, as code points -/
def digits10 (n : Nat) : Str := (Nat.toDigits 10 n).map Char.toNat

theorem natStr_eq (n : Nat) : natStr n = digits10 n := by
  simp [natStr, digits10]

theorem digits10_lt10 (n : Nat) (h : n < 10) : digits10 n = [48 + n] := by
  simp [digits10, Nat.toDigits_of_lt_base h, digitChar_toNat n h]

theorem digits10_step (n : Nat) (h : 10 ≤ n) : digits10 n = digits10 (n / 10) ++ [48 + n % 10] := by
  simp [digits10, Nat.toDigits_of_base_le (by omega : 1 < 10) h, digitChar_toNat (n % 10) (Nat.mod_lt _ (by omega))]

theorem pad_eq (n w : Nat) : pad n w = List.replicate (w - (digits10 n).length) 48 ++ digits10 n := by
  simp [pad, digits10]

/-- `%02d` of a number below 100 -/
theorem pad2 (n : Nat) (h : n < 100) : pad n 2 = [48 + n / 10, 48 + n % 10] := by
  rw [pad_eq]
  by_cases h1 : n < 10
  · rw [digits10_lt10 n h1]
    have : n / 10 = 0 := by omega
    have : n % 10 = n := by omega
    simp [*]
  · rw [digits10_step n (by omega), digits10_lt10 (n / 10) (by omega)]
    simp

/-- `%03d` of a number below 1000 -/
theorem pad3 (n : Nat) (h : n < 1000) : pad n 3 = [48 + n / 100, 48 + n / 10 % 10, 48 + n % 10] := by
  rw [pad_eq]
  by_cases h1 : n < 10
  · rw [digits10_lt10 n h1]
    have : n / 100 = 0 := by omega
    have : n / 10 % 10 = 0 := by omega
    have : n % 10 = n := by omega
    simp [*]
  · by_cases h2 : n < 100
    · rw [digits10_step n (by omega), digits10_lt10 (n / 10) (by omega)]
      have : n / 100 = 0 := by omega
      have : n / 10 % 10 = n / 10 := by omega
      simp [*]
    · rw [digits10_step n (by omega), digits10_step (n / 10) (by omega), digits10_lt10 (n / 10 / 10) (by omega)]
      have : n / 10 / 10 = n / 100 := by omega
      simp [*]

/-- `%04d` of a number below 10000 -/
theorem pad4 (n : Nat) (h : n < 10000) :
    pad n 4 = [48 + n / 1000, 48 + n / 100 % 10, 48 + n / 10 % 10, 48 + n % 10] := by
  rw [pad_eq]
  by_cases h1 : n < 10
  · rw [digits10_lt10 n h1]
    have : n / 1000 = 0 := by omega
    have : n / 100 % 10 = 0 := by omega
    have : n / 10 % 10 = 0 := by omega
    have : n % 10 = n := by omega
    simp [*]
  · by_cases h2 : n < 100
    · rw [digits10_step n (by omega), digits10_lt10 (n / 10) (by omega)]
      have : n / 1000 = 0 := by omega
      have : n / 100 % 10 = 0 := by omega
      have : n / 10 % 10 = n / 10 := by omega
      simp [*]
    · by_cases h3 : n < 1000
      · rw [digits10_step n (by omega), digits10_step (n / 10) (by omega), digits10_lt10 (n / 10 / 10) (by omega)]
        have : n / 1000 = 0 := by omega
        have : n / 10 / 10 = n / 100 % 10 := by omega
        simp [*]
      · rw [digits10_step n (by omega), digits10_step (n / 10) (by omega), digits10_step (n / 10 / 10) (by omega),
          digits10_lt10 (n / 10 / 10 / 10) (by omega)]
        have : n / 10 / 10 / 10 = n / 1000 := by omega
        have : n / 10 / 10 % 10 = n / 100 % 10 := by omega
        simp [*]

end Pvl

namespace Pvl
open Py Enc

/-! ### `strptime(text, "%Y-%m-%d")` on a zero-padded date -/

def fmtYmd : Str := [37, 89, 45, 37, 109, 45, 37, 100]

def litDash : Item := ⟨.none, [[.lit 45]]⟩

theorem compile_ymd : compileFmt fmtYmd = some [itemY, litDash, itemm, litDash, itemd] := by
  simp [fmtYmd, compileFmt, litDash]

theorem isDecimal_digit (k : Nat) (h : k < 10) : Py.isDecimal (48 + k) = true := by
  have : k = 0 ∨ k = 1 ∨ k = 2 ∨ k = 3 ∨ k = 4 ∨ k = 5 ∨ k = 6 ∨ k = 7 ∨ k = 8 ∨ k = 9 := by omega
  rcases this with rfl | rfl | rfl | rfl | rfl | rfl | rfl | rfl | rfl | rfl <;> decide

theorem ccr (lo hi c : Nat) : CC.ok (.r lo hi) c = (decide (lo ≤ c) && decide (c ≤ hi)) := rfl

/-- the day field at the end of the text -/
theorem match_day (d : Nat) (h1 : 1 ≤ d) (h2 : d ≤ 31) :
    matchItems [itemd] (pad d 2) = some ([(.d, pad d 2)], []) := by
  rw [pad2 d (by omega)]
  by_cases ha : 30 ≤ d
  · have e1 : d / 10 = 3 := by omega
    have e2 : d % 10 = 0 ∨ d % 10 = 1 := by omega
    rcases e2 with e2 | e2 <;>
      simp [matchItems, matchAlts, itemd, matchCCs, dg, ccr, e1, e2]
  · by_cases hb : 10 ≤ d
    · have e1 : d / 10 = 1 ∨ d / 10 = 2 := by omega
      have hd := isDecimal_digit (d % 10) (Nat.mod_lt _ (by omega))
      rcases e1 with e1 | e1 <;>
        simp [matchItems, matchAlts, itemd, matchCCs, dg, ccr, e1, CC.ok, hd]
    · have e1 : d / 10 = 0 := by omega
      have e2 : d % 10 = d := by omega
      have e3 : 49 ≤ 48 + d ∧ 48 + d ≤ 57 := by omega
      simp [matchItems, matchAlts, itemd, matchCCs, dg, ccr, e1, e2, e3]

/-- `-dd` at the end of the text -/
theorem match_dash_day (d : Nat) (h1 : 1 ≤ d) (h2 : d ≤ 31) :
    matchItems [litDash, itemd] (45 :: pad d 2) = some ([(.none, [45]), (.d, pad d 2)], []) := by
  have h := match_day d h1 h2
  simp only [matchItems] at h
  simp [matchItems, matchAlts, litDash, matchCCs, CC.ok, lowerAscii1, h]

/-- `mm-dd` at the end of the text -/
theorem match_month_day (m d : Nat) (hm1 : 1 ≤ m) (hm2 : m ≤ 12) (h1 : 1 ≤ d) (h2 : d ≤ 31) :
    matchItems [itemm, litDash, itemd] (pad m 2 ++ 45 :: pad d 2) =
      some ([(.m, pad m 2), (.none, [45]), (.d, pad d 2)], []) := by
  have h := match_dash_day d h1 h2
  simp only [matchItems] at h
  rw [pad2 m (by omega)]
  by_cases ha : 10 ≤ m
  · have e1 : m / 10 = 1 := by omega
    have e2 : m % 10 = 0 ∨ m % 10 = 1 ∨ m % 10 = 2 := by omega
    rcases e2 with e2 | e2 | e2 <;>
      simp [matchItems, matchAlts, itemm, matchCCs, dg, ccr, e1, e2, h]
  · have e1 : m / 10 = 0 := by omega
    have e2 : m % 10 = m := by omega
    have e3 : 49 ≤ 48 + m ∧ 48 + m ≤ 57 := by omega
    simp [matchItems, matchAlts, itemm, matchCCs, dg, ccr, e1, e2, e3, h]

end Pvl

namespace Pvl
open Py Enc

theorem allDigits_pad2 (n : Nat) (h : n < 100) : AllDigits (pad n 2) := by
  rw [pad2 n h]; intro c hc; simp at hc; rcases hc with rfl | rfl <;> simp [isDigit] <;> omega

theorem allDigits_pad4 (n : Nat) (h : n < 10000) : AllDigits (pad n 4) := by
  rw [pad4 n h]; intro c hc; simp at hc
  rcases hc with rfl | rfl | rfl | rfl <;> simp [isDigit] <;> omega

theorem natOf_pad2 (n : Nat) (h : n < 100) : natOf (pad n 2) = some n := by
  unfold natOf
  rw [int10_digits _ (by rw [pad2 n h]; simp) (allDigits_pad2 n h), pad2 n h]
  simp [digitsVal]; omega

theorem natOf_pad4 (n : Nat) (h : n < 10000) : natOf (pad n 4) = some n := by
  unfold natOf
  rw [int10_digits _ (by rw [pad4 n h]; simp) (allDigits_pad4 n h), pad4 n h]
  simp [digitsVal]; omega

/-- the whole date -/
theorem match_ymd (y m d : Nat) (hy : y < 10000) (hm1 : 1 ≤ m) (hm2 : m ≤ 12) (h1 : 1 ≤ d) (h2 : d ≤ 31) :
    matchItems [itemY, litDash, itemm, litDash, itemd] (encodeDate y m d) =
      some ([(.Y, pad y 4), (.none, [45]), (.m, pad m 2), (.none, [45]), (.d, pad d 2)], []) := by
  have h := match_month_day m d hm1 hm2 h1 h2
  simp only [matchItems, litDash] at h
  have d1 := isDecimal_digit (y / 1000) (by omega)
  have d2 := isDecimal_digit (y / 100 % 10) (Nat.mod_lt _ (by omega))
  have d3 := isDecimal_digit (y / 10 % 10) (Nat.mod_lt _ (by omega))
  have d4 := isDecimal_digit (y % 10) (Nat.mod_lt _ (by omega))
  unfold encodeDate
  rw [pad4 y hy]
  simp [matchItems, matchAlts, itemY, litDash, matchCCs, CC.ok, lowerAscii1, d1, d2, d3, d4, h]

end Pvl

namespace Pvl
open Py Enc

/-- a calendar date the `date` class admits -/
def ValidDate (y m d : Nat) : Prop := 1 ≤ y ∧ y ≤ 9999 ∧ 1 ≤ m ∧ m ≤ 12 ∧ 1 ≤ d ∧ d ≤ daysInMonth y m

theorem daysInMonth_le (y m : Nat) : daysInMonth y m ≤ 31 := by
  unfold daysInMonth; split <;> (try split) <;> omega

theorem field_beq (a b : Field) : (a == b) = decide (a = b) := rfl

/-- **`strptime(f"{y:04d}-{m:02d}-{d:02d}", "%Y-%m-%d")` is that date** -/
theorem strptime_ymd (y m d : Nat) (h : ValidDate y m d) :
    strptime (encodeDate y m d) fmtYmd = some ⟨y, m, d, 0, 0, 0, 0⟩ := by
  obtain ⟨hy1, hy2, hm1, hm2, hd1, hd2⟩ := h
  have hd3 := daysInMonth_le y m
  unfold strptime
  rw [compile_ymd]
  simp only
  rw [match_ymd y m d (by omega) hm1 hm2 hd1 (by omega)]
  have ny := natOf_pad4 y (by omega)
  have nm := natOf_pad2 m (by omega)
  have nd := natOf_pad2 d (by omega)
  have e1 : (y == 0 || decide (y > 9999)) = false := by simp; omega
  have e2 : (decide (1 ≤ m) && decide (m ≤ 12) && decide (1 ≤ d) && decide (d ≤ daysInMonth y m)) = true := by
    simp [hm1, hm2, hd1, hd2]
  simp [field?, List.find?, field_beq, ny, nm, nd, e1, e2]

end Pvl

namespace Pvl
open Py Enc

/-! ### zero-padded fields in general -/

theorem digitsVal_zeros (k : Nat) (ds : Str) : digitsVal (List.replicate k 48 ++ ds) 0 = digitsVal ds 0 := by
  induction k with
  | zero => simp
  | succ k ih =>
    simp only [List.replicate_succ, List.cons_append, digitsVal, List.foldl_cons] at ih ⊢
    simpa using ih

theorem allDigits_pad (n w : Nat) : AllDigits (pad n w) := by
  rw [pad_eq, ← natStr_eq]
  intro c hc
  rcases List.mem_append.mp hc with h | h
  · simp at h; simp [h.2, isDigit]
  · exact allDigits_natStr n c h

theorem pad_ne_nil (n w : Nat) : pad n w ≠ [] := by
  rw [pad_eq, ← natStr_eq]
  intro h
  have := (List.append_eq_nil_iff.mp h).2
  exact natStr_ne_nil n this

/-- `int(f"{n:0{w}d}") = n` -/
theorem natOf_pad (n w : Nat) : natOf (pad n w) = some n := by
  unfold natOf
  rw [int10_digits _ (pad_ne_nil n w) (allDigits_pad n w)]
  rw [pad_eq, ← natStr_eq, digitsVal_zeros, digitsVal_natStr]
  simp

theorem length_pad (n w : Nat) (h : n < 10 ^ w) (hw : 0 < w) : (pad n w).length = w := by
  rw [pad_eq]
  have : (digits10 n).length ≤ w := by
    simp only [digits10, List.length_map]
    exact (Nat.length_toDigits_le_iff (by omega) hw).mpr h
  simp; omega

/-- a run of `[0-9]` classes consumes exactly a digit string of that length -/
theorem matchCCs_digits (ds rest : Str) (h : AllDigits ds) :
    matchCCs (List.replicate ds.length (dg 0 9)) (ds ++ rest) = some (ds, rest) := by
  induction ds with
  | nil => simp [matchCCs]
  | cons c r ih =>
    have hc := h c (by simp)
    simp only [isDigit, Bool.and_eq_true, decide_eq_true_eq] at hc
    have : CC.ok (dg 0 9) c = true := by simp [dg, ccr]; omega
    simp [List.replicate_succ, matchCCs, this, ih (fun x hx => h x (by simp [hx]))]

end Pvl

namespace Pvl
open Py Enc

/-! ### `strptime` on the time spellings `HH:MM[:SS[.ffffff]]` -/

def litColon : Item := ⟨.none, [[.lit 58]]⟩
def litDot : Item := ⟨.none, [[.lit 46]]⟩
def fmtHM : Str := [37, 72, 58, 37, 77]
def fmtHMS : Str := [37, 72, 58, 37, 77, 58, 37, 83]
def fmtHMSf : Str := [37, 72, 58, 37, 77, 58, 37, 83, 46, 37, 102]

theorem compile_HM : compileFmt fmtHM = some [itemH, litColon, itemM] := by
  simp [fmtHM, compileFmt, litColon]
theorem compile_HMS : compileFmt fmtHMS = some [itemH, litColon, itemM, litColon, itemS] := by
  simp [fmtHMS, compileFmt, litColon]
theorem compile_HMSf :
    compileFmt fmtHMSf = some [itemH, litColon, itemM, litColon, itemS, litDot, itemf] := by
  simp [fmtHMSf, compileFmt, litColon, litDot]

theorem matchItems_cons (it : Item) (r : List Item) (s : Str) :
    matchItems (it :: r) s = matchAlts it.field it.alts r s := by
  rw [matchItems]

theorem matchItems_nil (s : Str) : matchItems [] s = some ([], s) := by
  rw [matchItems]

theorem matchAlts_first (f : Field) (a : Alt) (as : List Alt) (r : List Item) (s m rest fin : Str)
    (caps : List (Field × Str)) (h1 : matchCCs a s = some (m, rest))
    (h2 : matchItems r rest = some (caps, fin)) :
    matchAlts f (a :: as) r s = some ((f, m) :: caps, fin) := by
  rw [matchAlts]; simp [h1, h2]

theorem matchAlts_skip (f : Field) (a : Alt) (as : List Alt) (r : List Item) (s : Str)
    (h1 : matchCCs a s = none) : matchAlts f (a :: as) r s = matchAlts f as r s := by
  rw [matchAlts]; simp [h1]

theorem lit_field (ch : Nat) (hc : lowerAscii1 ch = ch) (r : List Item) (rest fin : Str)
    (caps : List (Field × Str)) (hk : matchItems r rest = some (caps, fin)) :
    matchItems (⟨.none, [[.lit ch]]⟩ :: r) (ch :: rest) = some ((.none, [ch]) :: caps, fin) := by
  rw [matchItems_cons]
  exact matchAlts_first _ _ _ _ _ [ch] rest fin caps (by simp [matchCCs, CC.ok]) hk

/-- `%H` on a zero-padded hour -/
theorem H_field (h : Nat) (hh : h < 24) (r : List Item) (rest fin : Str) (caps : List (Field × Str))
    (hk : matchItems r rest = some (caps, fin)) :
    matchItems (itemH :: r) (pad h 2 ++ rest) = some ((.H, pad h 2) :: caps, fin) := by
  rw [matchItems_cons, pad2 h (by omega)]
  have hd := isDecimal_digit (h % 10) (Nat.mod_lt _ (by omega))
  by_cases ha : 20 ≤ h
  · have e1 : h / 10 = 2 := by omega
    have e2 : h % 10 ≤ 3 := by omega
    exact matchAlts_first _ _ _ _ _ _ rest fin caps (by simp [matchCCs, dg, ccr, e1]; omega) hk
  · have e1 : h / 10 = 0 ∨ h / 10 = 1 := by omega
    unfold itemH
    rw [matchAlts_skip _ _ _ _ _ (by rcases e1 with e1 | e1 <;> simp [matchCCs, dg, ccr, e1])]
    exact matchAlts_first _ _ _ _ _ _ rest fin caps
      (by rcases e1 with e1 | e1 <;> simp [matchCCs, dg, ccr, e1, CC.ok, hd]) hk

/-- `%M` on a zero-padded minute -/
theorem M_field (m : Nat) (hm : m < 60) (r : List Item) (rest fin : Str) (caps : List (Field × Str))
    (hk : matchItems r rest = some (caps, fin)) :
    matchItems (itemM :: r) (pad m 2 ++ rest) = some ((.M, pad m 2) :: caps, fin) := by
  rw [matchItems_cons, pad2 m (by omega)]
  have hd := isDecimal_digit (m % 10) (Nat.mod_lt _ (by omega))
  have e1 : m / 10 ≤ 5 := by omega
  exact matchAlts_first _ _ _ _ _ _ rest fin caps (by simp [matchCCs, dg, ccr, CC.ok, hd]; omega) hk

/-- `%S` on a zero-padded second below 60 -/
theorem S_field (s : Nat) (hs : s < 60) (r : List Item) (rest fin : Str) (caps : List (Field × Str))
    (hk : matchItems r rest = some (caps, fin)) :
    matchItems (itemS :: r) (pad s 2 ++ rest) = some ((.S, pad s 2) :: caps, fin) := by
  rw [matchItems_cons, pad2 s (by omega)]
  have hd := isDecimal_digit (s % 10) (Nat.mod_lt _ (by omega))
  have e1 : s / 10 ≤ 5 := by omega
  unfold itemS
  rw [matchAlts_skip _ _ _ _ _ (by simp [matchCCs, dg, ccr]; omega)]
  exact matchAlts_first _ _ _ _ _ _ rest fin caps (by simp [matchCCs, dg, ccr, CC.ok, hd]; omega) hk

/-- `%f` on six digits -/
theorem f_field (us : Nat) (hus : us < 1000000) (r : List Item) (rest fin : Str) (caps : List (Field × Str))
    (hk : matchItems r rest = some (caps, fin)) :
    matchItems (itemf :: r) (pad us 6 ++ rest) = some ((.f, pad us 6) :: caps, fin) := by
  rw [matchItems_cons]
  have hl := length_pad us 6 (by omega) (by omega)
  have hm := matchCCs_digits (pad us 6) rest (allDigits_pad us 6)
  rw [hl] at hm
  have : itemf.alts = List.replicate 6 (dg 0 9) :: [List.replicate 5 (dg 0 9), List.replicate 4 (dg 0 9),
      List.replicate 3 (dg 0 9), List.replicate 2 (dg 0 9), List.replicate 1 (dg 0 9)] := by rfl
  rw [this]
  exact matchAlts_first _ _ _ _ _ _ rest fin caps hm hk

end Pvl

namespace Pvl
open Py Enc

theorem colon_field (r : List Item) (rest fin : Str) (caps : List (Field × Str))
    (hk : matchItems r rest = some (caps, fin)) :
    matchItems (litColon :: r) (58 :: rest) = some ((.none, [58]) :: caps, fin) :=
  lit_field 58 (by decide) r rest fin caps hk

theorem dot_field (r : List Item) (rest fin : Str) (caps : List (Field × Str))
    (hk : matchItems r rest = some (caps, fin)) :
    matchItems (litDot :: r) (46 :: rest) = some ((.none, [46]) :: caps, fin) :=
  lit_field 46 (by decide) r rest fin caps hk

/-- `HH:MM` followed by anything -/
theorem match_HM (h mi : Nat) (hh : h < 24) (hm : mi < 60) (rest : Str) :
    matchItems [itemH, litColon, itemM] (pad h 2 ++ 58 :: (pad mi 2 ++ rest)) =
      some ([(.H, pad h 2), (.none, [58]), (.M, pad mi 2)], rest) :=
  H_field h hh _ _ _ _ (colon_field _ _ _ _ (M_field mi hm _ _ _ _ (matchItems_nil rest)))

/-- `HH:MM:SS` followed by anything -/
theorem match_HMS (h mi s : Nat) (hh : h < 24) (hm : mi < 60) (hs : s < 60) (rest : Str) :
    matchItems [itemH, litColon, itemM, litColon, itemS] (pad h 2 ++ 58 :: (pad mi 2 ++ 58 :: (pad s 2 ++ rest))) =
      some ([(.H, pad h 2), (.none, [58]), (.M, pad mi 2), (.none, [58]), (.S, pad s 2)], rest) :=
  H_field h hh _ _ _ _ (colon_field _ _ _ _ (M_field mi hm _ _ _ _
    (colon_field _ _ _ _ (S_field s hs _ _ _ _ (matchItems_nil rest)))))

/-- `HH:MM:SS.ffffff` -/
theorem match_HMSf (h mi s us : Nat) (hh : h < 24) (hm : mi < 60) (hs : s < 60) (hus : us < 1000000) :
    matchItems [itemH, litColon, itemM, litColon, itemS, litDot, itemf]
        (pad h 2 ++ 58 :: (pad mi 2 ++ 58 :: (pad s 2 ++ 46 :: (pad us 6 ++ [])))) =
      some ([(.H, pad h 2), (.none, [58]), (.M, pad mi 2), (.none, [58]), (.S, pad s 2), (.none, [46]),
        (.f, pad us 6)], []) :=
  H_field h hh _ _ _ _ (colon_field _ _ _ _ (M_field mi hm _ _ _ _
    (colon_field _ _ _ _ (S_field s hs _ _ _ _ (dot_field _ _ _ _ (f_field us hus _ _ _ _ (matchItems_nil [])))))))

/-- what `strptime` makes of captured clock fields (no date fields: 1900-01-01) -/
theorem strptime_HM (h mi : Nat) (hh : h < 24) (hm : mi < 60) :
    strptime (pad h 2 ++ 58 :: pad mi 2) fmtHM = some ⟨1900, 1, 1, h, mi, 0, 0⟩ := by
  unfold strptime
  rw [compile_HM]
  have := match_HM h mi hh hm []
  simp only [List.append_nil] at this
  simp only [this]
  simp [field?, List.find?, field_beq, natOf_pad, daysInMonth]

theorem strptime_HM_more (h mi : Nat) (hh : h < 24) (hm : mi < 60) (c : Nat) (rest : Str) :
    strptime (pad h 2 ++ 58 :: (pad mi 2 ++ c :: rest)) fmtHM = none := by
  unfold strptime
  rw [compile_HM]
  simp [match_HM h mi hh hm (c :: rest)]

theorem strptime_HMS (h mi s : Nat) (hh : h < 24) (hm : mi < 60) (hs : s < 60) :
    strptime (pad h 2 ++ 58 :: (pad mi 2 ++ 58 :: pad s 2)) fmtHMS = some ⟨1900, 1, 1, h, mi, s, 0⟩ := by
  unfold strptime
  rw [compile_HMS]
  have := match_HMS h mi s hh hm hs []
  simp only [List.append_nil] at this
  simp only [this]
  have e : ¬ s > 59 := by omega
  simp [field?, List.find?, field_beq, natOf_pad, daysInMonth, e]

theorem strptime_HMS_more (h mi s : Nat) (hh : h < 24) (hm : mi < 60) (hs : s < 60) (c : Nat) (rest : Str) :
    strptime (pad h 2 ++ 58 :: (pad mi 2 ++ 58 :: (pad s 2 ++ c :: rest))) fmtHMS = none := by
  unfold strptime
  rw [compile_HMS]
  simp [match_HMS h mi s hh hm hs (c :: rest)]

theorem strptime_HMSf (h mi s us : Nat) (hh : h < 24) (hm : mi < 60) (hs : s < 60) (hus : us < 1000000) :
    strptime (pad h 2 ++ 58 :: (pad mi 2 ++ 58 :: (pad s 2 ++ 46 :: pad us 6))) fmtHMSf =
      some ⟨1900, 1, 1, h, mi, s, us⟩ := by
  unfold strptime
  rw [compile_HMSf]
  have := match_HMSf h mi s us hh hm hs hus
  simp only [List.append_nil] at this
  simp only [this]
  have e : ¬ s > 59 := by omega
  have hl := length_pad us 6 (by omega) (by omega)
  simp [field?, List.find?, field_beq, natOf_pad, daysInMonth, e, hl]

end Pvl

namespace Pvl
open Py Enc

/-- a format that begins with `%Y` cannot match a text whose third character is `:` -/
theorem strptime_Y_fails (c1 c2 : Nat) (t f' : Str) :
    strptime (c1 :: c2 :: 58 :: t) (37 :: 89 :: f') = none := by
  unfold strptime
  cases hc : compileFmt f' with
  | none => simp [compileFmt, hc]
  | some rest =>
    have hcomp : compileFmt (37 :: 89 :: f') = some (itemY :: rest) := by simp [compileFmt, hc]
    rw [hcomp]
    have hm : matchItems (itemY :: rest) (c1 :: c2 :: 58 :: t) = none := by
      rw [matchItems_cons]
      unfold itemY
      rw [matchAlts_skip _ _ _ _ _ (by
        have : Py.isDecimal 58 = false := by decide
        simp [matchCCs, CC.ok, this])]
      rw [matchAlts]
    simp [hm]

/-- what the model needs of a grammar's format tables for the time theorems (evaluated on the generated
    tables): every date format begins with `%Y`, the first three time formats are `%H:%M`, `%H:%M:%S`,
    `%H:%M:%S.%f` -/
def TimeTablesOK (g : Grammar) : Bool :=
  g.dateFormats.all (fun f => f.take 2 == [37, 89]) &&
  g.timeFormats.take 3 == [fmtHM, fmtHMS, fmtHMSf]

theorem firstSome_none {α β} (f : α → Option β) (l : List α) (h : ∀ a ∈ l, f a = none) :
    firstSome f l = none := by
  induction l with
  | nil => rfl
  | cons a r ih => simp [firstSome, h a (by simp), ih (fun x hx => h x (by simp [hx]))]

theorem dates_fail (g : Grammar) (hg : TimeTablesOK g = true) (c1 c2 : Nat) (t : Str) :
    firstSome (strptime (c1 :: c2 :: 58 :: t)) g.dateFormats = none := by
  apply firstSome_none
  intro f hf
  simp only [TimeTablesOK, Bool.and_eq_true, List.all_eq_true] at hg
  have h2 := hg.1 f hf
  match f, h2 with
  | 37 :: 89 :: f', _ => exact strptime_Y_fails c1 c2 t f'
  | [], h2 => simp at h2
  | [_], h2 => simp at h2
  | a :: b :: f', h2 =>
    simp at h2
    obtain ⟨rfl, rfl⟩ := h2
    exact strptime_Y_fails c1 c2 t f'

/-- the zone `decode_datetime` attaches to a time without `Z`: UTC where the dialect says so -/
def defaultTz (g : Grammar) : Option Int := if g.defaultUtc then some 0 else none

/-- a clock time `datetime.time` admits -/
def ValidTime (h mi s us : Nat) : Prop := h < 24 ∧ mi < 60 ∧ s < 60 ∧ us < 1000000

theorem pad2_cons (n : Nat) (h : n < 100) (rest : Str) :
    pad n 2 ++ rest = (48 + n / 10) :: (48 + n % 10) :: rest := by
  rw [pad2 n h]; rfl

/-- the seconds part of `encode_time` -/
def timeTail (s us : Nat) : Str :=
  if us != 0 then 58 :: (pad s 2 ++ 46 :: pad us 6) else if s != 0 then 58 :: pad s 2 else []

theorem encodeTimeBase_eq (h mi s us : Nat) :
    encodeTimeBase h mi s us = pad h 2 ++ 58 :: (pad mi 2 ++ timeTail s us) := by
  unfold encodeTimeBase timeTail
  split <;> (try split) <;> simp

theorem endsWith_digits (X p : Str) (hp : p ≠ []) (hd : AllDigits p) : endsWith (X ++ p) [90] = false := by
  unfold endsWith
  simp only [List.reverse_append]
  cases hr : p.reverse with
  | nil => simp at hr; exact absurd hr hp
  | cons c q =>
    have hc : c ∈ p := by
      have : c ∈ p.reverse := by rw [hr]; simp
      simpa using this
    have := hd c hc
    simp only [isDigit, Bool.and_eq_true, decide_eq_true_eq] at this
    have hne : c ≠ 90 := by omega
    simp [startsWith, hne]

theorem encodeTimeBase_noZ (h mi s us : Nat) : endsWith (encodeTimeBase h mi s us) [90] = false := by
  rw [encodeTimeBase_eq]
  unfold timeTail
  split
  · have : pad h 2 ++ 58 :: (pad mi 2 ++ 58 :: (pad s 2 ++ 46 :: pad us 6)) =
        (pad h 2 ++ 58 :: (pad mi 2 ++ 58 :: (pad s 2 ++ [46]))) ++ pad us 6 := by simp
    rw [this]; exact endsWith_digits _ _ (pad_ne_nil us 6) (allDigits_pad us 6)
  · split
    · have : pad h 2 ++ 58 :: (pad mi 2 ++ 58 :: pad s 2) = (pad h 2 ++ 58 :: (pad mi 2 ++ [58])) ++ pad s 2 := by
        simp
      rw [this]; exact endsWith_digits _ _ (pad_ne_nil s 2) (allDigits_pad s 2)
    · have : pad h 2 ++ 58 :: (pad mi 2 ++ []) = (pad h 2 ++ [58]) ++ pad mi 2 := by simp
      rw [this]; exact endsWith_digits _ _ (pad_ne_nil mi 2) (allDigits_pad mi 2)

/-- **`PVLDecoder.decode_datetime` reads what `PVLEncoder.encode_time` writes** (no zone designator in
    the text: the dialect's default zone is attached) -/
theorem decodeDatetimeBase_time (g : Grammar) (hg : TimeTablesOK g = true) (h mi s us : Nat)
    (hv : ValidTime h mi s us) :
    decodeDatetimeBase g (encodeTimeBase h mi s us) = some (.time h mi s us (defaultTz g)) := by
  obtain ⟨hh, hm, hs, hus⟩ := hv
  have htf : ∃ r, g.timeFormats = fmtHM :: fmtHMS :: fmtHMSf :: r := by
    simp only [TimeTablesOK, Bool.and_eq_true, beq_iff_eq] at hg
    have h3 := hg.2
    match hl : g.timeFormats, h3 with
    | a :: b :: c :: r, h3 =>
      simp at h3
      obtain ⟨rfl, rfl, rfl⟩ := h3
      exact ⟨r, rfl⟩
    | [], h3 => simp at h3
    | [_], h3 => simp at h3
    | [_, _], h3 => simp at h3
  obtain ⟨r, htf⟩ := htf
  have hz := encodeTimeBase_noZ h mi s us
  unfold decodeDatetimeBase
  have hdates : firstSome (strptime (encodeTimeBase h mi s us)) g.dateFormats = none := by
    rw [encodeTimeBase_eq, pad2_cons h (by omega)]
    exact dates_fail g hg _ _ _
  rw [hdates]
  simp only [hz, Bool.false_eq_true, if_false]
  rw [htf, encodeTimeBase_eq]
  unfold timeTail
  by_cases h1 : us = 0
  · by_cases h2 : s = 0
    · subst h1 h2
      simp [firstSome, strptime_HM h mi hh hm, defaultTz]
    · subst h1
      have hsne : (s != 0) = true := by simp [h2]
      simp only [bne_self_eq_false, Bool.false_eq_true, if_false, hsne, if_true]
      have e1 := strptime_HM_more h mi hh hm 58 (pad s 2)
      have e2 := strptime_HMS h mi s hh hm hs
      simp [firstSome, e1, e2, defaultTz]
  · have hune : (us != 0) = true := by simp [h1]
    simp only [hune, if_true]
    have e1 := strptime_HM_more h mi hh hm 58 (pad s 2 ++ 46 :: pad us 6)
    have e2 := strptime_HMS_more h mi s hh hm hs 46 (pad us 6)
    have e3 := strptime_HMSf h mi s us hh hm hs hus
    simp [firstSome, e1, e2, e3, defaultTz]

end Pvl

namespace Pvl
open Py Enc

/-! ### the `Z` spellings: formats that must *fail* before the right one is tried -/

theorem matchAlts_nil (f : Field) (r : List Item) (s : Str) : matchAlts f [] r s = none := by
  rw [matchAlts]

theorem matchAlts_cont_none (f : Field) (a : Alt) (as : List Alt) (r : List Item) (s m rest : Str)
    (h1 : matchCCs a s = some (m, rest)) (h2 : matchItems r rest = none) :
    matchAlts f (a :: as) r s = matchAlts f as r s := by
  rw [matchAlts]; simp [h1, h2]

/-- a literal that meets a different character (or the end of the text) -/
theorem lit_fail (ch c : Nat) (hne : lowerAscii1 c ≠ lowerAscii1 ch) (r : List Item) (rest : Str) :
    matchItems (⟨.none, [[.lit ch]]⟩ :: r) (c :: rest) = none := by
  rw [matchItems_cons]
  rw [matchAlts_skip _ _ _ _ _ (by simp [matchCCs, CC.ok, hne])]
  exact matchAlts_nil _ _ _

theorem lit_fail_nil (ch : Nat) (r : List Item) : matchItems (⟨.none, [[.lit ch]]⟩ :: r) [] = none := by
  rw [matchItems_cons, matchAlts_skip _ _ _ _ _ (by simp [matchCCs])]
  exact matchAlts_nil _ _ _

theorem lit_cont_none (ch : Nat) (hc : lowerAscii1 ch = ch) (r : List Item) (rest : Str)
    (hk : matchItems r rest = none) : matchItems (⟨.none, [[.lit ch]]⟩ :: r) (ch :: rest) = none := by
  rw [matchItems_cons]
  rw [matchAlts_cont_none _ _ _ _ _ [ch] rest (by simp [matchCCs, CC.ok]) hk]
  exact matchAlts_nil _ _ _

/-- `%H` fails when what follows fails after both ways of splitting the two digits -/
theorem H_field_none (h : Nat) (hh : h < 24) (r : List Item) (rest : Str)
    (h2 : matchItems r rest = none) (h1 : matchItems r ((48 + h % 10) :: rest) = none) :
    matchItems (itemH :: r) (pad h 2 ++ rest) = none := by
  rw [matchItems_cons, pad2 h (by omega)]
  have hd := isDecimal_digit (h % 10) (Nat.mod_lt _ (by omega))
  have hd1 := isDecimal_digit (h / 10) (by omega)
  unfold itemH
  by_cases ha : 20 ≤ h
  · have e1 : h / 10 = 2 := by omega
    have e2 : h % 10 ≤ 3 := by omega
    rw [matchAlts_cont_none _ _ _ _ _ [48 + h / 10, 48 + h % 10] rest (by simp [matchCCs, dg, ccr, e1]; omega) h2]
    rw [matchAlts_skip _ _ _ _ _ (by simp [matchCCs, dg, ccr, e1])]
    rw [matchAlts_cont_none _ _ _ _ _ [48 + h / 10] ((48 + h % 10) :: rest) (by simp [matchCCs, CC.ok, hd1]) h1]
    exact matchAlts_nil _ _ _
  · have e1 : h / 10 = 0 ∨ h / 10 = 1 := by omega
    rw [matchAlts_skip _ _ _ _ _ (by rcases e1 with e1 | e1 <;> simp [matchCCs, dg, ccr, e1])]
    rw [matchAlts_cont_none _ _ _ _ _ [48 + h / 10, 48 + h % 10] rest
      (by rcases e1 with e1 | e1 <;> simp [matchCCs, dg, ccr, e1, CC.ok, hd]) h2]
    rw [matchAlts_cont_none _ _ _ _ _ [48 + h / 10] ((48 + h % 10) :: rest) (by simp [matchCCs, CC.ok, hd1]) h1]
    exact matchAlts_nil _ _ _

theorem M_field_none (m : Nat) (hm : m < 60) (r : List Item) (rest : Str)
    (h2 : matchItems r rest = none) (h1 : matchItems r ((48 + m % 10) :: rest) = none) :
    matchItems (itemM :: r) (pad m 2 ++ rest) = none := by
  rw [matchItems_cons, pad2 m (by omega)]
  have hd := isDecimal_digit (m % 10) (Nat.mod_lt _ (by omega))
  have hd1 := isDecimal_digit (m / 10) (by omega)
  have e1 : m / 10 ≤ 5 := by omega
  unfold itemM
  rw [matchAlts_cont_none _ _ _ _ _ [48 + m / 10, 48 + m % 10] rest (by simp [matchCCs, dg, ccr, CC.ok, hd]; omega) h2]
  rw [matchAlts_cont_none _ _ _ _ _ [48 + m / 10] ((48 + m % 10) :: rest) (by simp [matchCCs, CC.ok, hd1]) h1]
  exact matchAlts_nil _ _ _

theorem S_field_none (s : Nat) (hs : s < 60) (r : List Item) (rest : Str)
    (h2 : matchItems r rest = none) (h1 : matchItems r ((48 + s % 10) :: rest) = none) :
    matchItems (itemS :: r) (pad s 2 ++ rest) = none := by
  rw [matchItems_cons, pad2 s (by omega)]
  have hd := isDecimal_digit (s % 10) (Nat.mod_lt _ (by omega))
  have hd1 := isDecimal_digit (s / 10) (by omega)
  have e1 : s / 10 ≤ 5 := by omega
  unfold itemS
  rw [matchAlts_skip _ _ _ _ _ (by simp [matchCCs, dg, ccr]; omega)]
  rw [matchAlts_cont_none _ _ _ _ _ [48 + s / 10, 48 + s % 10] rest (by simp [matchCCs, dg, ccr, CC.ok, hd]; omega) h2]
  rw [matchAlts_cont_none _ _ _ _ _ [48 + s / 10] ((48 + s % 10) :: rest) (by simp [matchCCs, CC.ok, hd1]) h1]
  exact matchAlts_nil _ _ _

/-- a digit is not `:`, `.`, `Z` -/
theorem digit_ne_lit (k : Nat) (hk : k < 10) (ch : Nat) (hch : ch = 58 ∨ ch = 46 ∨ ch = 90) :
    lowerAscii1 (48 + k) ≠ lowerAscii1 ch := by
  have : lowerAscii1 (48 + k) = 48 + k := by simp [lowerAscii1]; omega
  rw [this]
  rcases hch with rfl | rfl | rfl <;> simp [lowerAscii1] <;> omega

end Pvl

namespace Pvl
open Py Enc

def litZ : Item := ⟨.none, [[.lit 90]]⟩
def fmtHMZ : Str := fmtHM ++ [90]
def fmtHMSZ : Str := fmtHMS ++ [90]
def fmtHMSfZ : Str := fmtHMSf ++ [90]

theorem compile_HMZ : compileFmt fmtHMZ = some [itemH, litColon, itemM, litZ] := by
  simp [fmtHMZ, fmtHM, compileFmt, litColon, litZ]
theorem compile_HMSZ : compileFmt fmtHMSZ = some [itemH, litColon, itemM, litColon, itemS, litZ] := by
  simp [fmtHMSZ, fmtHMS, compileFmt, litColon, litZ]
theorem compile_HMSfZ :
    compileFmt fmtHMSfZ = some [itemH, litColon, itemM, litColon, itemS, litDot, itemf, litZ] := by
  simp [fmtHMSfZ, fmtHMSf, compileFmt, litColon, litDot, litZ]

/-- `HH:MM` followed by a character other than the literal the format wants next -/
theorem HM_then_lit_fail (h mi : Nat) (hh : h < 24) (hm : mi < 60) (ch : Nat)
    (hch : ∀ k, k < 10 → lowerAscii1 (48 + k) ≠ lowerAscii1 ch) (r : List Item) (c : Nat) (rest : Str)
    (hc : lowerAscii1 c ≠ lowerAscii1 ch) :
    matchItems (itemH :: litColon :: itemM :: ⟨.none, [[.lit ch]]⟩ :: r) (pad h 2 ++ 58 :: (pad mi 2 ++ c :: rest)) =
      none := by
  apply H_field_none h hh
  · exact lit_cont_none 58 (by decide) _ _
      (M_field_none mi hm _ _ (lit_fail ch c hc r rest)
        (lit_fail ch _ (hch _ (Nat.mod_lt _ (by omega))) r (c :: rest)))
  · exact lit_fail 58 _ (digit_ne_lit _ (Nat.mod_lt _ (by omega)) 58 (Or.inl rfl)) _ _

/-- `HH:MM:SS` followed by a character other than the literal the format wants next -/
theorem HMS_then_lit_fail (h mi s : Nat) (hh : h < 24) (hm : mi < 60) (hs : s < 60) (ch : Nat)
    (hch : ∀ k, k < 10 → lowerAscii1 (48 + k) ≠ lowerAscii1 ch) (r : List Item) (c : Nat) (rest : Str)
    (hc : lowerAscii1 c ≠ lowerAscii1 ch) :
    matchItems (itemH :: litColon :: itemM :: litColon :: itemS :: ⟨.none, [[.lit ch]]⟩ :: r)
      (pad h 2 ++ 58 :: (pad mi 2 ++ 58 :: (pad s 2 ++ c :: rest))) = none := by
  have d58 : ∀ k, k < 10 → lowerAscii1 (48 + k) ≠ lowerAscii1 58 :=
    fun k hk => digit_ne_lit k hk 58 (Or.inl rfl)
  apply H_field_none h hh
  · apply lit_cont_none 58 (by decide)
    apply M_field_none mi hm
    · apply lit_cont_none 58 (by decide)
      exact S_field_none s hs _ _ (lit_fail ch c hc r rest)
        (lit_fail ch _ (hch _ (Nat.mod_lt _ (by omega))) r (c :: rest))
    · exact lit_fail 58 _ (d58 _ (Nat.mod_lt _ (by omega))) _ _
  · exact lit_fail 58 _ (d58 _ (Nat.mod_lt _ (by omega))) _ _

theorem dZ : ∀ k, k < 10 → lowerAscii1 (48 + k) ≠ lowerAscii1 90 := fun k hk => digit_ne_lit k hk 90 (Or.inr (Or.inr rfl))
theorem d58 : ∀ k, k < 10 → lowerAscii1 (48 + k) ≠ lowerAscii1 58 := fun k hk => digit_ne_lit k hk 58 (Or.inl rfl)
theorem d46 : ∀ k, k < 10 → lowerAscii1 (48 + k) ≠ lowerAscii1 46 := fun k hk => digit_ne_lit k hk 46 (Or.inr (Or.inl rfl))

theorem Z_field (r : List Item) (rest fin : Str) (caps : List (Field × Str))
    (hk : matchItems r rest = some (caps, fin)) :
    matchItems (litZ :: r) (90 :: rest) = some ((.none, [90]) :: caps, fin) := by
  unfold litZ
  rw [matchItems_cons]
  exact matchAlts_first _ _ _ _ _ [90] rest fin caps (by simp [matchCCs, CC.ok]) hk

/-! #### the six formats on `HH:MMZ` -/

theorem strptime_fail_of_match_none (text fmt : Str) (items : List Item) (hc : compileFmt fmt = some items)
    (hm : matchItems items text = none) : strptime text fmt = none := by
  unfold strptime; rw [hc]; simp [hm]

theorem strptime_HMZ (h mi : Nat) (hh : h < 24) (hm : mi < 60) :
    strptime (pad h 2 ++ 58 :: (pad mi 2 ++ [90])) fmtHMZ = some ⟨1900, 1, 1, h, mi, 0, 0⟩ := by
  unfold strptime
  rw [compile_HMZ]
  have : matchItems [itemH, litColon, itemM, litZ] (pad h 2 ++ 58 :: (pad mi 2 ++ [90])) =
      some ([(.H, pad h 2), (.none, [58]), (.M, pad mi 2), (.none, [90])], []) :=
    H_field h hh _ _ _ _ (colon_field _ _ _ _ (M_field mi hm _ _ _ _ (Z_field _ _ _ _ (matchItems_nil []))))
  simp only [this]
  simp [field?, List.find?, field_beq, natOf_pad, daysInMonth]

theorem strptime_HMSZ (h mi s : Nat) (hh : h < 24) (hm : mi < 60) (hs : s < 60) :
    strptime (pad h 2 ++ 58 :: (pad mi 2 ++ 58 :: (pad s 2 ++ [90]))) fmtHMSZ = some ⟨1900, 1, 1, h, mi, s, 0⟩ := by
  unfold strptime
  rw [compile_HMSZ]
  have : matchItems [itemH, litColon, itemM, litColon, itemS, litZ]
      (pad h 2 ++ 58 :: (pad mi 2 ++ 58 :: (pad s 2 ++ [90]))) =
      some ([(.H, pad h 2), (.none, [58]), (.M, pad mi 2), (.none, [58]), (.S, pad s 2), (.none, [90])], []) :=
    H_field h hh _ _ _ _ (colon_field _ _ _ _ (M_field mi hm _ _ _ _ (colon_field _ _ _ _
      (S_field s hs _ _ _ _ (Z_field _ _ _ _ (matchItems_nil []))))))
  simp only [this]
  have e : ¬ s > 59 := by omega
  simp [field?, List.find?, field_beq, natOf_pad, daysInMonth, e]

theorem strptime_HMSfZ (h mi s us : Nat) (hh : h < 24) (hm : mi < 60) (hs : s < 60) (hus : us < 1000000) :
    strptime (pad h 2 ++ 58 :: (pad mi 2 ++ 58 :: (pad s 2 ++ 46 :: (pad us 6 ++ [90])))) fmtHMSfZ =
      some ⟨1900, 1, 1, h, mi, s, us⟩ := by
  unfold strptime
  rw [compile_HMSfZ]
  have : matchItems [itemH, litColon, itemM, litColon, itemS, litDot, itemf, litZ]
      (pad h 2 ++ 58 :: (pad mi 2 ++ 58 :: (pad s 2 ++ 46 :: (pad us 6 ++ [90])))) =
      some ([(.H, pad h 2), (.none, [58]), (.M, pad mi 2), (.none, [58]), (.S, pad s 2), (.none, [46]),
        (.f, pad us 6), (.none, [90])], []) :=
    H_field h hh _ _ _ _ (colon_field _ _ _ _ (M_field mi hm _ _ _ _ (colon_field _ _ _ _
      (S_field s hs _ _ _ _ (dot_field _ _ _ _ (f_field us hus _ _ _ _ (Z_field _ _ _ _ (matchItems_nil []))))))))
  simp only [this]
  have e : ¬ s > 59 := by omega
  have hl := length_pad us 6 (by omega) (by omega)
  simp [field?, List.find?, field_beq, natOf_pad, daysInMonth, e, hl]

theorem strptime_HMSf_more (h mi s us : Nat) (hh : h < 24) (hm : mi < 60) (hs : s < 60) (hus : us < 1000000)
    (c : Nat) (rest : Str) :
    strptime (pad h 2 ++ 58 :: (pad mi 2 ++ 58 :: (pad s 2 ++ 46 :: (pad us 6 ++ c :: rest)))) fmtHMSf = none := by
  unfold strptime
  rw [compile_HMSf]
  have : matchItems [itemH, litColon, itemM, litColon, itemS, litDot, itemf]
      (pad h 2 ++ 58 :: (pad mi 2 ++ 58 :: (pad s 2 ++ 46 :: (pad us 6 ++ c :: rest)))) =
      some ([(.H, pad h 2), (.none, [58]), (.M, pad mi 2), (.none, [58]), (.S, pad s 2), (.none, [46]),
        (.f, pad us 6)], c :: rest) :=
    H_field h hh _ _ _ _ (colon_field _ _ _ _ (M_field mi hm _ _ _ _ (colon_field _ _ _ _
      (S_field s hs _ _ _ _ (dot_field _ _ _ _ (f_field us hus _ _ _ _ (matchItems_nil (c :: rest))))))))
  simp [this]

end Pvl

namespace Pvl
open Py Enc

/-- the six time formats in the order every generated table lists them -/
def TimeTablesOK6 (g : Grammar) : Bool :=
  g.dateFormats.all (fun f => f.take 2 == [37, 89]) &&
  g.timeFormats.take 6 == [fmtHM, fmtHMS, fmtHMSf, fmtHMZ, fmtHMSZ, fmtHMSfZ]

theorem endsWith_snoc (s : Str) (c : Nat) : endsWith (s ++ [c]) [c] = true := by
  simp [endsWith, startsWith]

theorem firstSome_cons_none {α β} (f : α → Option β) (a : α) (l : List α) (h : f a = none) :
    firstSome f (a :: l) = firstSome f l := by simp [firstSome, h]

theorem firstSome_cons_some {α β} (f : α → Option β) (a : α) (l : List α) (b : β) (h : f a = some b) :
    firstSome f (a :: l) = some b := by simp [firstSome, h]

/-- **`decode_datetime` reads `HH:MM[:SS[.ffffff]]Z` as that time in UTC** -/
theorem decodeDatetimeBase_timeZ (g : Grammar) (hg : TimeTablesOK6 g = true) (h mi s us : Nat)
    (hv : ValidTime h mi s us) :
    decodeDatetimeBase g (encodeTimeBase h mi s us ++ [90]) = some (.time h mi s us (some 0)) := by
  obtain ⟨hh, hm, hs, hus⟩ := hv
  simp only [TimeTablesOK6, Bool.and_eq_true, beq_iff_eq] at hg
  have htf : ∃ r, g.timeFormats = fmtHM :: fmtHMS :: fmtHMSf :: fmtHMZ :: fmtHMSZ :: fmtHMSfZ :: r := by
    have h6 := hg.2
    match hl : g.timeFormats, h6 with
    | a :: b :: c :: d :: e :: f :: r, h6 =>
      simp at h6
      obtain ⟨rfl, rfl, rfl, rfl, rfl, rfl⟩ := h6
      exact ⟨r, rfl⟩
    | [], h6 => simp at h6
    | [_], h6 => simp at h6
    | [_, _], h6 => simp at h6
    | [_, _, _], h6 => simp at h6
    | [_, _, _, _], h6 => simp at h6
    | [_, _, _, _, _], h6 => simp at h6
  obtain ⟨r, htf⟩ := htf
  unfold decodeDatetimeBase
  have hdates : firstSome (strptime (encodeTimeBase h mi s us ++ [90])) g.dateFormats = none := by
    rw [encodeTimeBase_eq, pad2_cons h (by omega)]
    apply firstSome_none
    intro f hf
    have h2 := (List.all_eq_true.mp hg.1) f hf
    match f, h2 with
    | 37 :: 89 :: f', _ => exact strptime_Y_fails _ _ _ f'
    | [], h2 => simp at h2
    | [_], h2 => simp at h2
    | a :: b :: f', h2 =>
      simp at h2
      obtain ⟨rfl, rfl⟩ := h2
      exact strptime_Y_fails _ _ _ f'
  rw [hdates]
  simp only [endsWith_snoc, if_true]
  rw [htf, encodeTimeBase_eq]
  unfold timeTail
  by_cases h1 : us = 0
  · by_cases h2 : s = 0
    · subst h1 h2
      simp only [bne_self_eq_false, Bool.false_eq_true, if_false, List.append_nil, List.append_assoc,
        List.cons_append]
      rw [firstSome_cons_none _ _ _ (strptime_HM_more h mi hh hm 90 [])]
      rw [firstSome_cons_none _ _ _ (strptime_fail_of_match_none _ _ _ compile_HMS
        (HM_then_lit_fail h mi hh hm 58 d58 [itemS] 90 [] (by decide)))]
      rw [firstSome_cons_none _ _ _ (strptime_fail_of_match_none _ _ _ compile_HMSf
        (HM_then_lit_fail h mi hh hm 58 d58 [itemS, litDot, itemf] 90 [] (by decide)))]
      rw [firstSome_cons_some _ _ _ _ (strptime_HMZ h mi hh hm)]
    · subst h1
      have hsne : (s != 0) = true := by simp [h2]
      simp only [bne_self_eq_false, Bool.false_eq_true, if_false, hsne, if_true, List.append_assoc,
        List.cons_append]
      rw [firstSome_cons_none _ _ _ (strptime_HM_more h mi hh hm 58 (pad s 2 ++ [90]))]
      rw [firstSome_cons_none _ _ _ (strptime_HMS_more h mi s hh hm hs 90 [])]
      rw [firstSome_cons_none _ _ _ (strptime_fail_of_match_none _ _ _ compile_HMSf
        (HMS_then_lit_fail h mi s hh hm hs 46 d46 [itemf] 90 [] (by decide)))]
      rw [firstSome_cons_none _ _ _ (strptime_fail_of_match_none _ _ _ compile_HMZ
        (HM_then_lit_fail h mi hh hm 90 dZ [] 58 (pad s 2 ++ [90]) (by decide)))]
      rw [firstSome_cons_some _ _ _ _ (strptime_HMSZ h mi s hh hm hs)]
  · have hune : (us != 0) = true := by simp [h1]
    simp only [hune, if_true, List.append_assoc, List.cons_append]
    rw [firstSome_cons_none _ _ _ (strptime_HM_more h mi hh hm 58 (pad s 2 ++ 46 :: (pad us 6 ++ [90])))]
    rw [firstSome_cons_none _ _ _ (strptime_HMS_more h mi s hh hm hs 46 (pad us 6 ++ [90]))]
    rw [firstSome_cons_none _ _ _ (strptime_HMSf_more h mi s us hh hm hs hus 90 [])]
    rw [firstSome_cons_none _ _ _ (strptime_fail_of_match_none _ _ _ compile_HMZ
      (HM_then_lit_fail h mi hh hm 90 dZ [] 58 (pad s 2 ++ 46 :: (pad us 6 ++ [90])) (by decide)))]
    rw [firstSome_cons_none _ _ _ (strptime_fail_of_match_none _ _ _ compile_HMSZ
      (HMS_then_lit_fail h mi s hh hm hs 90 dZ [] 46 (pad us 6 ++ [90]) (by decide)))]
    rw [firstSome_cons_some _ _ _ _ (strptime_HMSfZ h mi s us hh hm hs hus)]

end Pvl

namespace Pvl
open Py Enc

/-! ### generic facts about the back-tracking matcher -/

theorem matchCCs_drop (a : Alt) (s m rest : Str) (h : matchCCs a s = some (m, rest)) :
    rest = s.drop a.length ∧ a.length ≤ s.length := by
  induction a generalizing s m rest with
  | nil => simp [matchCCs] at h; exact ⟨by simp [h.2], by simp⟩
  | cons cc r ih =>
    cases s with
    | nil => simp [matchCCs] at h
    | cons c t =>
      simp only [matchCCs] at h
      split at h
      · cases hr : matchCCs r t with
        | none => simp [hr] at h
        | some p =>
          obtain ⟨m', rest'⟩ := p
          simp [hr] at h
          obtain ⟨_, rfl⟩ := h
          have := ih t m' rest' hr
          exact ⟨by simpa using this.1, by simp; exact this.2⟩
      · cases h

/-- an item fails if the rest of the pattern fails after every way of splitting off one of its
    alternatives -/
theorem matchAlts_none_of_drops (f : Field) (alts : List Alt) (r : List Item) (s : Str)
    (h : ∀ a ∈ alts, matchItems r (s.drop a.length) = none) : matchAlts f alts r s = none := by
  induction alts with
  | nil => exact matchAlts_nil f r s
  | cons a as ih =>
    cases hm : matchCCs a s with
    | none => rw [matchAlts_skip _ _ _ _ _ hm]; exact ih (fun x hx => h x (by simp [hx]))
    | some p =>
      obtain ⟨m, rest⟩ := p
      have hd := (matchCCs_drop a s m rest hm).1
      rw [matchAlts_cont_none _ _ _ _ _ m rest hm (by rw [hd]; exact h a (by simp))]
      exact ih (fun x hx => h x (by simp [hx]))

/-- a successful item used one of its alternatives -/
theorem matchAlts_some (f : Field) (alts : List Alt) (r : List Item) (s : Str) (caps : List (Field × Str))
    (fin : Str) (h : matchAlts f alts r s = some (caps, fin)) :
    ∃ a ∈ alts, a.length ≤ s.length ∧ ∃ caps', matchItems r (s.drop a.length) = some (caps', fin) := by
  induction alts with
  | nil => rw [matchAlts_nil] at h; cases h
  | cons a as ih =>
    cases hm : matchCCs a s with
    | none =>
      rw [matchAlts_skip _ _ _ _ _ hm] at h
      obtain ⟨x, hx, hr⟩ := ih h
      exact ⟨x, by simp [hx], hr⟩
    | some p =>
      obtain ⟨m, rest⟩ := p
      obtain ⟨hd, hl⟩ := matchCCs_drop a s m rest hm
      cases hk : matchItems r rest with
      | none =>
        rw [matchAlts_cont_none _ _ _ _ _ m rest hm hk] at h
        obtain ⟨x, hx, hr⟩ := ih h
        exact ⟨x, by simp [hx], hr⟩
      | some q =>
        obtain ⟨caps', fin'⟩ := q
        rw [matchAlts_first _ _ _ _ _ m rest fin' caps' hm hk] at h
        simp only [Option.some.injEq, Prod.mk.injEq] at h
        exact ⟨a, by simp, hl, caps', by rw [← hd, hk, h.2]⟩

/-- the longest text an item can consume -/
def maxAlt (it : Item) : Nat := it.alts.foldl (fun m a => max m a.length) 0

theorem le_foldl_max (alts : List Alt) (init : Nat) : init ≤ alts.foldl (fun m a => max m a.length) init := by
  induction alts generalizing init with
  | nil => exact Nat.le_refl _
  | cons a r ih => exact Nat.le_trans (Nat.le_max_left _ _) (ih _)

theorem mem_le_maxAlt (alts : List Alt) (a : Alt) (h : a ∈ alts) (init : Nat) :
    a.length ≤ alts.foldl (fun m x => max m x.length) init := by
  induction alts generalizing init with
  | nil => cases h
  | cons x r ih =>
    simp only [List.foldl_cons]
    rcases List.mem_cons.mp h with rfl | h'
    · exact Nat.le_trans (Nat.le_max_right _ _) (le_foldl_max r _)
    · exact ih h' _

/-- a pattern cannot consume more than the sum of its items' longest alternatives -/
theorem matchItems_bound (items : List Item) : ∀ (s : Str) (caps : List (Field × Str)) (fin : Str),
    matchItems items s = some (caps, fin) → s.length ≤ fin.length + (items.map maxAlt).sum := by
  induction items with
  | nil =>
    intro s caps fin h
    rw [matchItems_nil] at h
    simp only [Option.some.injEq, Prod.mk.injEq] at h
    simp [h.2]
  | cons it r ih =>
    intro s caps fin h
    rw [matchItems_cons] at h
    obtain ⟨a, ha, hl, caps', hk⟩ := matchAlts_some _ _ _ _ _ _ h
    have := ih _ _ _ hk
    have hmax := mem_le_maxAlt it.alts a ha 0
    simp only [List.length_drop] at this
    simp only [List.map_cons, List.sum_cons, maxAlt]
    omega

/-- a format whose items cannot reach the end of the text cannot convert it -/
theorem strptime_too_short (text fmt : Str) (items : List Item) (hc : compileFmt fmt = some items)
    (hlen : (items.map maxAlt).sum < text.length) : strptime text fmt = none := by
  cases hm : matchItems items text with
  | none => exact strptime_fail_of_match_none text fmt items hc hm
  | some p =>
    obtain ⟨caps, rest⟩ := p
    have := matchItems_bound items text caps rest hm
    have hne : rest ≠ [] := by
      intro e; subst e; simp at this; omega
    unfold strptime
    rw [hc]
    simp only [hm]
    cases rest with
    | nil => exact absurd rfl hne
    | cons c t => simp

end Pvl

namespace Pvl
open Py Enc

/-! ### date fields followed by more pattern -/

def litT : Item := ⟨.none, [[.lit 84]]⟩

/-- an item all of whose alternatives take one or two characters fails when the rest of the pattern fails
    after either split -/
theorem short_item_none (it : Item) (hlen : ∀ a ∈ it.alts, a.length = 1 ∨ a.length = 2) (r : List Item)
    (a b : Nat) (rest : Str) (h2 : matchItems r rest = none) (h1 : matchItems r (b :: rest) = none) :
    matchItems (it :: r) (a :: b :: rest) = none := by
  rw [matchItems_cons]
  apply matchAlts_none_of_drops
  intro x hx
  rcases hlen x hx with e | e <;> rw [e] <;> simpa

theorem itemm_short : ∀ a ∈ itemm.alts, a.length = 1 ∨ a.length = 2 := by decide
theorem itemd_short : ∀ a ∈ itemd.alts, a.length = 1 ∨ a.length = 2 := by decide
theorem itemH_short : ∀ a ∈ itemH.alts, a.length = 1 ∨ a.length = 2 := by decide
theorem itemM_short : ∀ a ∈ itemM.alts, a.length = 1 ∨ a.length = 2 := by decide
theorem itemS_short : ∀ a ∈ itemS.alts, a.length = 1 ∨ a.length = 2 := by decide

theorem Y_field (y : Nat) (hy : y < 10000) (r : List Item) (rest fin : Str) (caps : List (Field × Str))
    (hk : matchItems r rest = some (caps, fin)) :
    matchItems (itemY :: r) (pad y 4 ++ rest) = some ((.Y, pad y 4) :: caps, fin) := by
  rw [matchItems_cons, pad4 y hy]
  have d1 := isDecimal_digit (y / 1000) (by omega)
  have d2 := isDecimal_digit (y / 100 % 10) (Nat.mod_lt _ (by omega))
  have d3 := isDecimal_digit (y / 10 % 10) (Nat.mod_lt _ (by omega))
  have d4 := isDecimal_digit (y % 10) (Nat.mod_lt _ (by omega))
  exact matchAlts_first _ _ _ _ _ _ rest fin caps (by simp [matchCCs, CC.ok, d1, d2, d3, d4]) hk

theorem Y_field_none (y : Nat) (hy : y < 10000) (r : List Item) (rest : Str) (hk : matchItems r rest = none) :
    matchItems (itemY :: r) (pad y 4 ++ rest) = none := by
  rw [matchItems_cons]
  apply matchAlts_none_of_drops
  intro x hx
  have : x = [CC.d, CC.d, CC.d, CC.d] := by simpa [itemY] using hx
  subst this
  have hl := length_pad y 4 (by omega) (by omega)
  simpa [List.drop_append, hl] using hk

theorem dash_field (r : List Item) (rest fin : Str) (caps : List (Field × Str))
    (hk : matchItems r rest = some (caps, fin)) :
    matchItems (litDash :: r) (45 :: rest) = some ((.none, [45]) :: caps, fin) :=
  lit_field 45 (by decide) r rest fin caps hk

theorem T_field (r : List Item) (rest fin : Str) (caps : List (Field × Str))
    (hk : matchItems r rest = some (caps, fin)) :
    matchItems (litT :: r) (84 :: rest) = some ((.none, [84]) :: caps, fin) := by
  unfold litT
  rw [matchItems_cons]
  exact matchAlts_first _ _ _ _ _ [84] rest fin caps (by simp [matchCCs, CC.ok]) hk

/-- `%m` on a zero-padded month -/
theorem m_field (m : Nat) (hm1 : 1 ≤ m) (hm2 : m ≤ 12) (r : List Item) (rest fin : Str)
    (caps : List (Field × Str)) (hk : matchItems r rest = some (caps, fin)) :
    matchItems (itemm :: r) (pad m 2 ++ rest) = some ((.m, pad m 2) :: caps, fin) := by
  rw [matchItems_cons, pad2 m (by omega)]
  by_cases ha : 10 ≤ m
  · have e1 : m / 10 = 1 := by omega
    have e2 : m % 10 ≤ 2 := by omega
    exact matchAlts_first _ _ _ _ _ _ rest fin caps (by simp [matchCCs, dg, ccr, e1]; omega) hk
  · have e1 : m / 10 = 0 := by omega
    have e2 : 1 ≤ m % 10 ∧ m % 10 ≤ 9 := by omega
    unfold itemm
    rw [matchAlts_skip _ _ _ _ _ (by simp [matchCCs, dg, ccr, e1])]
    exact matchAlts_first _ _ _ _ _ _ rest fin caps (by simp [matchCCs, dg, ccr, e1]; omega) hk

/-- `%d` on a zero-padded day -/
theorem d_field (d : Nat) (h1 : 1 ≤ d) (h2 : d ≤ 31) (r : List Item) (rest fin : Str)
    (caps : List (Field × Str)) (hk : matchItems r rest = some (caps, fin)) :
    matchItems (itemd :: r) (pad d 2 ++ rest) = some ((.d, pad d 2) :: caps, fin) := by
  rw [matchItems_cons, pad2 d (by omega)]
  have hd := isDecimal_digit (d % 10) (Nat.mod_lt _ (by omega))
  by_cases ha : 30 ≤ d
  · have e1 : d / 10 = 3 := by omega
    have e2 : d % 10 ≤ 1 := by omega
    exact matchAlts_first _ _ _ _ _ _ rest fin caps (by simp [matchCCs, dg, ccr, e1]; omega) hk
  · by_cases hb : 10 ≤ d
    · have e1 : d / 10 = 1 ∨ d / 10 = 2 := by omega
      unfold itemd
      rw [matchAlts_skip _ _ _ _ _ (by rcases e1 with e1 | e1 <;> simp [matchCCs, dg, ccr, e1])]
      exact matchAlts_first _ _ _ _ _ _ rest fin caps
        (by rcases e1 with e1 | e1 <;> simp [matchCCs, dg, ccr, e1, CC.ok, hd]) hk
    · have e1 : d / 10 = 0 := by omega
      have e2 : 1 ≤ d % 10 ∧ d % 10 ≤ 9 := by omega
      unfold itemd
      rw [matchAlts_skip _ _ _ _ _ (by simp [matchCCs, dg, ccr, e1])]
      rw [matchAlts_skip _ _ _ _ _ (by simp [matchCCs, dg, ccr, e1])]
      exact matchAlts_first _ _ _ _ _ _ rest fin caps (by simp [matchCCs, dg, ccr, e1]; omega) hk

end Pvl

namespace Pvl
open Py Enc

/-! ### `YYYY-MM-DDT…` -/

/-- the date part of a date-time pattern, followed by `r` -/
def D5 (r : List Item) : List Item := itemY :: litDash :: itemm :: litDash :: itemd :: litT :: r

def dateCaps (y m d : Nat) : List (Field × Str) :=
  [(.Y, pad y 4), (.none, [45]), (.m, pad m 2), (.none, [45]), (.d, pad d 2), (.none, [84])]

/-- the text of a date followed by `T` and more -/
def dateT (y m d : Nat) (rest : Str) : Str := pad y 4 ++ 45 :: (pad m 2 ++ 45 :: (pad d 2 ++ 84 :: rest))

theorem date_prefix (y m d : Nat) (hy : y < 10000) (hm1 : 1 ≤ m) (hm2 : m ≤ 12) (hd1 : 1 ≤ d) (hd2 : d ≤ 31)
    (r : List Item) (rest fin : Str) (caps : List (Field × Str)) (hk : matchItems r rest = some (caps, fin)) :
    matchItems (D5 r) (dateT y m d rest) = some (dateCaps y m d ++ caps, fin) :=
  Y_field y hy _ _ _ _ (dash_field _ _ _ _ (m_field m hm1 hm2 _ _ _ _ (dash_field _ _ _ _
    (d_field d hd1 hd2 _ _ _ _ (T_field _ _ _ _ hk)))))

theorem pad2_digit2 (n : Nat) (h : n < 100) (rest : Str) :
    pad n 2 ++ rest = (48 + n / 10) :: (48 + n % 10) :: rest := pad2_cons n h rest

theorem lower_digit (k : Nat) (hk : k < 10) : lowerAscii1 (48 + k) = 48 + k := by
  simp [lowerAscii1]; omega
theorem d45 : ∀ k, k < 10 → lowerAscii1 (48 + k) ≠ lowerAscii1 45 := by
  intro k hk; rw [lower_digit k hk]; have : lowerAscii1 45 = 45 := by decide
  rw [this]; omega
theorem d84 : ∀ k, k < 10 → lowerAscii1 (48 + k) ≠ lowerAscii1 84 := by
  intro k hk; rw [lower_digit k hk]; have : lowerAscii1 84 = 116 := by decide
  rw [this]; omega

theorem lit_cont_none' (ch : Nat) (r : List Item) (rest : Str)
    (hk : matchItems r rest = none) : matchItems (⟨.none, [[.lit ch]]⟩ :: r) (ch :: rest) = none := by
  rw [matchItems_cons]
  rw [matchAlts_cont_none _ _ _ _ _ [ch] rest (by simp [matchCCs, CC.ok]) hk]
  exact matchAlts_nil _ _ _

/-- if the rest of the pattern fails after the `T`, the whole date-time pattern fails (whatever way the
    month and day digits are split) -/
theorem date_prefix_none (y m d : Nat) (hy : y < 10000) (hm2 : m ≤ 12) (hd2 : d ≤ 31)
    (r : List Item) (rest : Str) (hk : matchItems r rest = none) :
    matchItems (D5 r) (dateT y m d rest) = none := by
  unfold D5 dateT
  apply Y_field_none y hy
  apply lit_cont_none 45 (by decide)
  rw [pad2_digit2 m (by omega)]
  apply short_item_none itemm itemm_short
  · apply lit_cont_none 45 (by decide)
    rw [pad2_digit2 d (by omega)]
    apply short_item_none itemd itemd_short
    · exact lit_cont_none' 84 _ _ hk
    · exact lit_fail 84 _ (d84 _ (Nat.mod_lt _ (by omega))) _ _
  · exact lit_fail 45 _ (d45 _ (Nat.mod_lt _ (by omega))) _ _

/-- the date formats cannot convert a date-time text: they stop short of its end -/
theorem date_formats_fail (g : Grammar)
    (hg : g.dateFormats.all (fun f => match compileFmt f with
      | some items => decide ((items.map maxAlt).sum ≤ 11) | none => true) = true)
    (text : Str) (hlen : 12 ≤ text.length) : firstSome (strptime text) g.dateFormats = none := by
  apply firstSome_none
  intro f hf
  have := (List.all_eq_true.mp hg) f hf
  cases hc : compileFmt f with
  | none => unfold strptime; simp [hc]
  | some items =>
    rw [hc] at this
    simp only [decide_eq_true_eq] at this
    exact strptime_too_short text f items hc (by omega)

/-- a format that begins `%H:` cannot match a text that begins with three digits -/
theorem strptime_Hcolon_fails (a b c : Nat) (t f' : Str) (ha : a < 10) (hb : b < 10) (hcc : c < 10) :
    strptime ((48 + a) :: (48 + b) :: (48 + c) :: t) (37 :: 72 :: 58 :: f') = none := by
  cases hc : compileFmt f' with
  | none => unfold strptime; simp [compileFmt, hc]
  | some rest =>
    have hcomp : compileFmt (37 :: 72 :: 58 :: f') = some (itemH :: litColon :: rest) := by
      simp [compileFmt, hc, litColon]
    apply strptime_fail_of_match_none _ _ _ hcomp
    apply short_item_none itemH itemH_short
    · exact lit_fail 58 _ (d58 c hcc) _ _
    · exact lit_fail 58 _ (d58 b hb) _ _

end Pvl

namespace Pvl
open Py Enc

def fmtDT (tf : Str) : Str := fmtYmd ++ 84 :: tf

theorem compile_DT_HM : compileFmt (fmtDT fmtHM) = some (D5 [itemH, litColon, itemM]) := by
  simp [fmtDT, fmtYmd, fmtHM, compileFmt, D5, litDash, litT, litColon]
theorem compile_DT_HMZ : compileFmt (fmtDT fmtHMZ) = some (D5 [itemH, litColon, itemM, litZ]) := by
  simp [fmtDT, fmtYmd, fmtHMZ, fmtHM, compileFmt, D5, litDash, litT, litColon, litZ]
theorem compile_DT_HMS : compileFmt (fmtDT fmtHMS) = some (D5 [itemH, litColon, itemM, litColon, itemS]) := by
  simp [fmtDT, fmtYmd, fmtHMS, compileFmt, D5, litDash, litT, litColon]
theorem compile_DT_HMSZ :
    compileFmt (fmtDT fmtHMSZ) = some (D5 [itemH, litColon, itemM, litColon, itemS, litZ]) := by
  simp [fmtDT, fmtYmd, fmtHMSZ, fmtHMS, compileFmt, D5, litDash, litT, litColon, litZ]
theorem compile_DT_HMSf :
    compileFmt (fmtDT fmtHMSf) = some (D5 [itemH, litColon, itemM, litColon, itemS, litDot, itemf]) := by
  simp [fmtDT, fmtYmd, fmtHMSf, compileFmt, D5, litDash, litT, litColon, litDot]
theorem compile_DT_HMSfZ :
    compileFmt (fmtDT fmtHMSfZ) = some (D5 [itemH, litColon, itemM, litColon, itemS, litDot, itemf, litZ]) := by
  simp [fmtDT, fmtYmd, fmtHMSfZ, fmtHMSf, compileFmt, D5, litDash, litT, litColon, litDot, litZ]

/-- a pattern that matches but leaves text unconverted -/
theorem strptime_leaves (text fmt : Str) (items : List Item) (hc : compileFmt fmt = some items)
    (caps : List (Field × Str)) (c : Nat) (rest : Str) (hm : matchItems items text = some (caps, c :: rest)) :
    strptime text fmt = none := by
  unfold strptime; rw [hc]; simp [hm]

/-- the calendar facts `strptime` checks, for a valid date -/
theorem date_checks (y m d : Nat) (h : ValidDate y m d) :
    (y == 0 || decide (y > 9999)) = false ∧
    (decide (1 ≤ m) && decide (m ≤ 12) && decide (1 ≤ d) && decide (d ≤ daysInMonth y m)) = true := by
  obtain ⟨hy1, hy2, hm1, hm2, hd1, hd2⟩ := h
  refine ⟨by simp; omega, by simp [hm1, hm2, hd1, hd2]⟩

theorem strptime_DT_HM (y m d h mi : Nat) (hd : ValidDate y m d) (hh : h < 24) (hm : mi < 60) :
    strptime (dateT y m d (pad h 2 ++ 58 :: pad mi 2)) (fmtDT fmtHM) = some ⟨y, m, d, h, mi, 0, 0⟩ := by
  obtain ⟨e1, e2⟩ := date_checks y m d hd
  obtain ⟨hy1, hy2, hm1, hm2, hd1, hd2⟩ := hd
  have hd3 := daysInMonth_le y m
  unfold strptime
  rw [compile_DT_HM]
  have hm' := match_HM h mi hh hm []
  simp only [List.append_nil] at hm'
  simp only [date_prefix y m d (by omega) hm1 hm2 hd1 (by omega) _ _ _ _ hm']
  simp [dateCaps, field?, List.find?, field_beq, natOf_pad, e1, e2]

theorem strptime_DT_HMS (y m d h mi s : Nat) (hd : ValidDate y m d) (hh : h < 24) (hm : mi < 60) (hs : s < 60) :
    strptime (dateT y m d (pad h 2 ++ 58 :: (pad mi 2 ++ 58 :: pad s 2))) (fmtDT fmtHMS) =
      some ⟨y, m, d, h, mi, s, 0⟩ := by
  obtain ⟨e1, e2⟩ := date_checks y m d hd
  obtain ⟨hy1, hy2, hm1, hm2, hd1, hd2⟩ := hd
  have hd3 := daysInMonth_le y m
  unfold strptime
  rw [compile_DT_HMS]
  have hm' := match_HMS h mi s hh hm hs []
  simp only [List.append_nil] at hm'
  simp only [date_prefix y m d (by omega) hm1 hm2 hd1 (by omega) _ _ _ _ hm']
  have e : ¬ s > 59 := by omega
  simp [dateCaps, field?, List.find?, field_beq, natOf_pad, e1, e2, e]

theorem strptime_DT_HMSf (y m d h mi s us : Nat) (hd : ValidDate y m d) (hh : h < 24) (hm : mi < 60)
    (hs : s < 60) (hus : us < 1000000) :
    strptime (dateT y m d (pad h 2 ++ 58 :: (pad mi 2 ++ 58 :: (pad s 2 ++ 46 :: pad us 6)))) (fmtDT fmtHMSf) =
      some ⟨y, m, d, h, mi, s, us⟩ := by
  obtain ⟨e1, e2⟩ := date_checks y m d hd
  obtain ⟨hy1, hy2, hm1, hm2, hd1, hd2⟩ := hd
  have hd3 := daysInMonth_le y m
  unfold strptime
  rw [compile_DT_HMSf]
  have hm' := match_HMSf h mi s us hh hm hs hus
  simp only [List.append_nil] at hm'
  simp only [date_prefix y m d (by omega) hm1 hm2 hd1 (by omega) _ _ _ _ hm']
  have e : ¬ s > 59 := by omega
  have hl := length_pad us 6 (by omega) (by omega)
  simp [dateCaps, field?, List.find?, field_beq, natOf_pad, e1, e2, e, hl]

end Pvl

namespace Pvl
open Py Enc

/-- what the date-time theorems need of a grammar's format tables -/
def DtTablesOK (g : Grammar) : Bool :=
  g.dateFormats.all (fun f => match compileFmt f with
    | some items => decide ((items.map maxAlt).sum ≤ 11) | none => true) &&
  g.timeFormats.all (fun f => f.take 3 == [37, 72, 58]) &&
  g.datetimeFormats.take 6 == [fmtDT fmtHM, fmtDT fmtHMZ, fmtDT fmtHMS, fmtDT fmtHMSZ, fmtDT fmtHMSf, fmtDT fmtHMSfZ]

theorem time_formats_fail (g : Grammar) (hg : g.timeFormats.all (fun f => f.take 3 == [37, 72, 58]) = true)
    (a b c : Nat) (ha : a < 10) (hb : b < 10) (hc : c < 10) (t : Str) :
    firstSome (strptime ((48 + a) :: (48 + b) :: (48 + c) :: t)) g.timeFormats = none := by
  apply firstSome_none
  intro f hf
  have h3 := (List.all_eq_true.mp hg) f hf
  match f, h3 with
  | 37 :: 72 :: 58 :: f', _ => exact strptime_Hcolon_fails a b c t f' ha hb hc
  | [], h3 => simp at h3
  | [_], h3 => simp at h3
  | [_, _], h3 => simp at h3
  | x :: y :: z :: f', h3 =>
    simp at h3
    obtain ⟨rfl, rfl, rfl⟩ := h3
    exact strptime_Hcolon_fails a b c t f' ha hb hc

theorem dateT_length (y m d : Nat) (hy : y < 10000) (hm : m < 100) (hd : d < 100) (rest : Str) :
    (dateT y m d rest).length = 11 + rest.length := by
  unfold dateT
  rw [pad4 y hy, pad2 m hm, pad2 d hd]
  simp; omega

theorem dateT_head3 (y m d : Nat) (hy : y < 10000) (rest : Str) :
    dateT y m d rest = (48 + y / 1000) :: (48 + y / 100 % 10) :: (48 + y / 10 % 10) ::
      ((48 + y % 10) :: 45 :: (pad m 2 ++ 45 :: (pad d 2 ++ 84 :: rest))) := by
  unfold dateT; rw [pad4 y hy]; rfl

/-- **`decode_datetime` reads `YYYY-MM-DDTHH:MM[:SS[.ffffff]]`** as that date and time, in the dialect's
    default zone -/
theorem decodeDatetimeBase_datetime (g : Grammar) (hg : DtTablesOK g = true) (y m d h mi s us : Nat)
    (hd : ValidDate y m d) (hv : ValidTime h mi s us) :
    decodeDatetimeBase g (dateT y m d (encodeTimeBase h mi s us)) =
      some (.datetime y m d h mi s us (defaultTz g)) := by
  obtain ⟨hh, hm, hs, hus⟩ := hv
  have hd' := hd
  obtain ⟨hy1, hy2, hm1, hm2, hd1, hd2⟩ := hd'
  have hd3 := daysInMonth_le y m
  simp only [DtTablesOK, Bool.and_eq_true, beq_iff_eq] at hg
  obtain ⟨⟨hgd, hgt⟩, hgdt⟩ := hg
  have hdt : ∃ r, g.datetimeFormats = fmtDT fmtHM :: fmtDT fmtHMZ :: fmtDT fmtHMS :: fmtDT fmtHMSZ ::
      fmtDT fmtHMSf :: fmtDT fmtHMSfZ :: r := by
    match hl : g.datetimeFormats, hgdt with
    | a :: b :: c :: d' :: e :: f :: r, h6 =>
      simp at h6
      obtain ⟨rfl, rfl, rfl, rfl, rfl, rfl⟩ := h6
      exact ⟨r, rfl⟩
    | [], h6 => simp at h6
    | [_], h6 => simp at h6
    | [_, _], h6 => simp at h6
    | [_, _, _], h6 => simp at h6
    | [_, _, _, _], h6 => simp at h6
    | [_, _, _, _, _], h6 => simp at h6
  obtain ⟨r, hdt⟩ := hdt
  have hlen : 12 ≤ (dateT y m d (encodeTimeBase h mi s us)).length := by
    rw [dateT_length y m d (by omega) (by omega) (by omega)]
    have : 0 < (encodeTimeBase h mi s us).length := by
      rw [encodeTimeBase_eq]
      have := length_pad h 2 (by omega) (by omega)
      simp; omega
    omega
  have hz : endsWith (dateT y m d (encodeTimeBase h mi s us)) [90] = false := by
    have e : dateT y m d (encodeTimeBase h mi s us) =
        (pad y 4 ++ 45 :: (pad m 2 ++ 45 :: (pad d 2 ++ [84]))) ++ encodeTimeBase h mi s us := by
      simp [dateT]
    rw [e, encodeTimeBase_eq]
    unfold timeTail
    split
    · have : (pad y 4 ++ 45 :: (pad m 2 ++ 45 :: (pad d 2 ++ [84]))) ++ (pad h 2 ++ 58 :: (pad mi 2 ++ 58 :: (pad s 2 ++ 46 :: pad us 6))) =
          ((pad y 4 ++ 45 :: (pad m 2 ++ 45 :: (pad d 2 ++ [84]))) ++ (pad h 2 ++ 58 :: (pad mi 2 ++ 58 :: (pad s 2 ++ [46])))) ++ pad us 6 := by simp
      rw [this]; exact endsWith_digits _ _ (pad_ne_nil us 6) (allDigits_pad us 6)
    · split
      · have : (pad y 4 ++ 45 :: (pad m 2 ++ 45 :: (pad d 2 ++ [84]))) ++ (pad h 2 ++ 58 :: (pad mi 2 ++ 58 :: pad s 2)) =
            ((pad y 4 ++ 45 :: (pad m 2 ++ 45 :: (pad d 2 ++ [84]))) ++ (pad h 2 ++ 58 :: (pad mi 2 ++ [58]))) ++ pad s 2 := by simp
        rw [this]; exact endsWith_digits _ _ (pad_ne_nil s 2) (allDigits_pad s 2)
      · have : (pad y 4 ++ 45 :: (pad m 2 ++ 45 :: (pad d 2 ++ [84]))) ++ (pad h 2 ++ 58 :: (pad mi 2 ++ [])) =
            ((pad y 4 ++ 45 :: (pad m 2 ++ 45 :: (pad d 2 ++ [84]))) ++ (pad h 2 ++ [58])) ++ pad mi 2 := by simp
        rw [this]; exact endsWith_digits _ _ (pad_ne_nil mi 2) (allDigits_pad mi 2)
  unfold decodeDatetimeBase
  rw [date_formats_fail g hgd _ hlen]
  simp only [hz, Bool.false_eq_true, if_false]
  have htimes : firstSome (strptime (dateT y m d (encodeTimeBase h mi s us))) g.timeFormats = none := by
    rw [dateT_head3 y m d (by omega)]
    exact time_formats_fail g hgt _ _ _ (by omega) (Nat.mod_lt _ (by omega)) (Nat.mod_lt _ (by omega)) _
  rw [htimes, hdt, encodeTimeBase_eq]
  unfold timeTail
  by_cases h1 : us = 0
  · by_cases h2 : s = 0
    · subst h1 h2
      simp only [bne_self_eq_false, Bool.false_eq_true, if_false, List.append_nil]
      rw [firstSome_cons_some _ _ _ _ (strptime_DT_HM y m d h mi hd hh hm)]
      simp [defaultTz]
    · subst h1
      have hsne : (s != 0) = true := by simp [h2]
      simp only [bne_self_eq_false, Bool.false_eq_true, if_false, hsne, if_true]
      rw [firstSome_cons_none _ _ _ (strptime_leaves _ _ _ compile_DT_HM _ 58 (pad s 2)
        (date_prefix y m d (by omega) hm1 hm2 hd1 (by omega) _ _ _ _ (match_HM h mi hh hm (58 :: pad s 2))))]
      rw [firstSome_cons_none _ _ _ (strptime_fail_of_match_none _ _ _ compile_DT_HMZ
        (date_prefix_none y m d (by omega) hm2 (by omega) _ _
          (HM_then_lit_fail h mi hh hm 90 dZ [] 58 (pad s 2) (by decide))))]
      rw [firstSome_cons_some _ _ _ _ (strptime_DT_HMS y m d h mi s hd hh hm hs)]
      simp [defaultTz]
  · have hune : (us != 0) = true := by simp [h1]
    simp only [hune, if_true]
    rw [firstSome_cons_none _ _ _ (strptime_leaves _ _ _ compile_DT_HM _ 58 (pad s 2 ++ 46 :: pad us 6)
      (date_prefix y m d (by omega) hm1 hm2 hd1 (by omega) _ _ _ _
        (match_HM h mi hh hm (58 :: (pad s 2 ++ 46 :: pad us 6)))))]
    rw [firstSome_cons_none _ _ _ (strptime_fail_of_match_none _ _ _ compile_DT_HMZ
      (date_prefix_none y m d (by omega) hm2 (by omega) _ _
        (HM_then_lit_fail h mi hh hm 90 dZ [] 58 (pad s 2 ++ 46 :: pad us 6) (by decide))))]
    rw [firstSome_cons_none _ _ _ (strptime_leaves _ _ _ compile_DT_HMS _ 46 (pad us 6)
      (date_prefix y m d (by omega) hm1 hm2 hd1 (by omega) _ _ _ _
        (match_HMS h mi s hh hm hs (46 :: pad us 6))))]
    rw [firstSome_cons_none _ _ _ (strptime_fail_of_match_none _ _ _ compile_DT_HMSZ
      (date_prefix_none y m d (by omega) hm2 (by omega) _ _
        (HMS_then_lit_fail h mi s hh hm hs 90 dZ [] 46 (pad us 6) (by decide))))]
    rw [firstSome_cons_some _ _ _ _ (strptime_DT_HMSf y m d h mi s us hd hh hm hs hus)]
    simp [defaultTz]

end Pvl

namespace Pvl
open Py Enc

theorem match_HMSf_rest (h mi s us : Nat) (hh : h < 24) (hm : mi < 60) (hs : s < 60) (hus : us < 1000000)
    (rest : Str) :
    matchItems [itemH, litColon, itemM, litColon, itemS, litDot, itemf]
        (pad h 2 ++ 58 :: (pad mi 2 ++ 58 :: (pad s 2 ++ 46 :: (pad us 6 ++ rest)))) =
      some ([(.H, pad h 2), (.none, [58]), (.M, pad mi 2), (.none, [58]), (.S, pad s 2), (.none, [46]),
        (.f, pad us 6)], rest) :=
  H_field h hh _ _ _ _ (colon_field _ _ _ _ (M_field mi hm _ _ _ _ (colon_field _ _ _ _
    (S_field s hs _ _ _ _ (dot_field _ _ _ _ (f_field us hus _ _ _ _ (matchItems_nil rest)))))))

theorem strptime_DT_HMZ (y m d h mi : Nat) (hd : ValidDate y m d) (hh : h < 24) (hm : mi < 60) :
    strptime (dateT y m d (pad h 2 ++ 58 :: (pad mi 2 ++ [90]))) (fmtDT fmtHMZ) = some ⟨y, m, d, h, mi, 0, 0⟩ := by
  obtain ⟨e1, e2⟩ := date_checks y m d hd
  obtain ⟨hy1, hy2, hm1, hm2, hd1, hd2⟩ := hd
  have hd3 := daysInMonth_le y m
  unfold strptime
  rw [compile_DT_HMZ]
  have hm' : matchItems [itemH, litColon, itemM, litZ] (pad h 2 ++ 58 :: (pad mi 2 ++ [90])) =
      some ([(.H, pad h 2), (.none, [58]), (.M, pad mi 2), (.none, [90])], []) :=
    H_field h hh _ _ _ _ (colon_field _ _ _ _ (M_field mi hm _ _ _ _ (Z_field _ _ _ _ (matchItems_nil []))))
  simp only [date_prefix y m d (by omega) hm1 hm2 hd1 (by omega) _ _ _ _ hm']
  simp [dateCaps, field?, List.find?, field_beq, natOf_pad, e1, e2]

theorem strptime_DT_HMSZ (y m d h mi s : Nat) (hd : ValidDate y m d) (hh : h < 24) (hm : mi < 60) (hs : s < 60) :
    strptime (dateT y m d (pad h 2 ++ 58 :: (pad mi 2 ++ 58 :: (pad s 2 ++ [90])))) (fmtDT fmtHMSZ) =
      some ⟨y, m, d, h, mi, s, 0⟩ := by
  obtain ⟨e1, e2⟩ := date_checks y m d hd
  obtain ⟨hy1, hy2, hm1, hm2, hd1, hd2⟩ := hd
  have hd3 := daysInMonth_le y m
  unfold strptime
  rw [compile_DT_HMSZ]
  have hm' : matchItems [itemH, litColon, itemM, litColon, itemS, litZ]
      (pad h 2 ++ 58 :: (pad mi 2 ++ 58 :: (pad s 2 ++ [90]))) =
      some ([(.H, pad h 2), (.none, [58]), (.M, pad mi 2), (.none, [58]), (.S, pad s 2), (.none, [90])], []) :=
    H_field h hh _ _ _ _ (colon_field _ _ _ _ (M_field mi hm _ _ _ _ (colon_field _ _ _ _
      (S_field s hs _ _ _ _ (Z_field _ _ _ _ (matchItems_nil []))))))
  simp only [date_prefix y m d (by omega) hm1 hm2 hd1 (by omega) _ _ _ _ hm']
  have e : ¬ s > 59 := by omega
  simp [dateCaps, field?, List.find?, field_beq, natOf_pad, e1, e2, e]

theorem strptime_DT_HMSfZ (y m d h mi s us : Nat) (hd : ValidDate y m d) (hh : h < 24) (hm : mi < 60)
    (hs : s < 60) (hus : us < 1000000) :
    strptime (dateT y m d (pad h 2 ++ 58 :: (pad mi 2 ++ 58 :: (pad s 2 ++ 46 :: (pad us 6 ++ [90])))))
      (fmtDT fmtHMSfZ) = some ⟨y, m, d, h, mi, s, us⟩ := by
  obtain ⟨e1, e2⟩ := date_checks y m d hd
  obtain ⟨hy1, hy2, hm1, hm2, hd1, hd2⟩ := hd
  have hd3 := daysInMonth_le y m
  unfold strptime
  rw [compile_DT_HMSfZ]
  have hm' : matchItems [itemH, litColon, itemM, litColon, itemS, litDot, itemf, litZ]
      (pad h 2 ++ 58 :: (pad mi 2 ++ 58 :: (pad s 2 ++ 46 :: (pad us 6 ++ [90])))) =
      some ([(.H, pad h 2), (.none, [58]), (.M, pad mi 2), (.none, [58]), (.S, pad s 2), (.none, [46]),
        (.f, pad us 6), (.none, [90])], []) :=
    H_field h hh _ _ _ _ (colon_field _ _ _ _ (M_field mi hm _ _ _ _ (colon_field _ _ _ _
      (S_field s hs _ _ _ _ (dot_field _ _ _ _ (f_field us hus _ _ _ _ (Z_field _ _ _ _ (matchItems_nil []))))))))
  simp only [date_prefix y m d (by omega) hm1 hm2 hd1 (by omega) _ _ _ _ hm']
  have e : ¬ s > 59 := by omega
  have hl := length_pad us 6 (by omega) (by omega)
  simp [dateCaps, field?, List.find?, field_beq, natOf_pad, e1, e2, e, hl]

/-- **`decode_datetime` reads `YYYY-MM-DDTHH:MM[:SS[.ffffff]]Z`** as that date and time in UTC -/
theorem decodeDatetimeBase_datetimeZ (g : Grammar) (hg : DtTablesOK g = true) (y m d h mi s us : Nat)
    (hd : ValidDate y m d) (hv : ValidTime h mi s us) :
    decodeDatetimeBase g (dateT y m d (encodeTimeBase h mi s us ++ [90])) =
      some (.datetime y m d h mi s us (some 0)) := by
  obtain ⟨hh, hm, hs, hus⟩ := hv
  have hd' := hd
  obtain ⟨hy1, hy2, hm1, hm2, hd1, hd2⟩ := hd'
  have hd3 := daysInMonth_le y m
  simp only [DtTablesOK, Bool.and_eq_true, beq_iff_eq] at hg
  obtain ⟨⟨hgd, hgt⟩, hgdt⟩ := hg
  have hdt : ∃ r, g.datetimeFormats = fmtDT fmtHM :: fmtDT fmtHMZ :: fmtDT fmtHMS :: fmtDT fmtHMSZ ::
      fmtDT fmtHMSf :: fmtDT fmtHMSfZ :: r := by
    match hl : g.datetimeFormats, hgdt with
    | a :: b :: c :: d' :: e :: f :: r, h6 =>
      simp at h6
      obtain ⟨rfl, rfl, rfl, rfl, rfl, rfl⟩ := h6
      exact ⟨r, rfl⟩
    | [], h6 => simp at h6
    | [_], h6 => simp at h6
    | [_, _], h6 => simp at h6
    | [_, _, _], h6 => simp at h6
    | [_, _, _, _], h6 => simp at h6
    | [_, _, _, _, _], h6 => simp at h6
  obtain ⟨r, hdt⟩ := hdt
  have hlen : 12 ≤ (dateT y m d (encodeTimeBase h mi s us ++ [90])).length := by
    rw [dateT_length y m d (by omega) (by omega) (by omega)]; simp; omega
  have hz : endsWith (dateT y m d (encodeTimeBase h mi s us ++ [90])) [90] = true := by
    have e : dateT y m d (encodeTimeBase h mi s us ++ [90]) =
        (pad y 4 ++ 45 :: (pad m 2 ++ 45 :: (pad d 2 ++ 84 :: encodeTimeBase h mi s us))) ++ [90] := by
      simp [dateT]
    rw [e]; exact endsWith_snoc _ 90
  unfold decodeDatetimeBase
  rw [date_formats_fail g hgd _ hlen]
  simp only [hz, if_true]
  have htimes : firstSome (strptime (dateT y m d (encodeTimeBase h mi s us ++ [90]))) g.timeFormats = none := by
    rw [dateT_head3 y m d (by omega)]
    exact time_formats_fail g hgt _ _ _ (by omega) (Nat.mod_lt _ (by omega)) (Nat.mod_lt _ (by omega)) _
  rw [htimes, hdt, encodeTimeBase_eq]
  unfold timeTail
  by_cases h1 : us = 0
  · by_cases h2 : s = 0
    · subst h1 h2
      simp only [bne_self_eq_false, Bool.false_eq_true, if_false, List.append_nil, List.append_assoc,
        List.cons_append]
      rw [firstSome_cons_none _ _ _ (strptime_leaves _ _ _ compile_DT_HM _ 90 []
        (date_prefix y m d (by omega) hm1 hm2 hd1 (by omega) _ _ _ _ (match_HM h mi hh hm [90])))]
      rw [firstSome_cons_some _ _ _ _ (strptime_DT_HMZ y m d h mi hd hh hm)]
    · subst h1
      have hsne : (s != 0) = true := by simp [h2]
      simp only [bne_self_eq_false, Bool.false_eq_true, if_false, hsne, if_true, List.append_assoc,
        List.cons_append]
      rw [firstSome_cons_none _ _ _ (strptime_leaves _ _ _ compile_DT_HM _ 58 (pad s 2 ++ [90])
        (date_prefix y m d (by omega) hm1 hm2 hd1 (by omega) _ _ _ _ (match_HM h mi hh hm (58 :: (pad s 2 ++ [90])))))]
      rw [firstSome_cons_none _ _ _ (strptime_fail_of_match_none _ _ _ compile_DT_HMZ
        (date_prefix_none y m d (by omega) hm2 (by omega) _ _
          (HM_then_lit_fail h mi hh hm 90 dZ [] 58 (pad s 2 ++ [90]) (by decide))))]
      rw [firstSome_cons_none _ _ _ (strptime_leaves _ _ _ compile_DT_HMS _ 90 []
        (date_prefix y m d (by omega) hm1 hm2 hd1 (by omega) _ _ _ _ (match_HMS h mi s hh hm hs [90])))]
      rw [firstSome_cons_some _ _ _ _ (strptime_DT_HMSZ y m d h mi s hd hh hm hs)]
  · have hune : (us != 0) = true := by simp [h1]
    simp only [hune, if_true, List.append_assoc, List.cons_append]
    rw [firstSome_cons_none _ _ _ (strptime_leaves _ _ _ compile_DT_HM _ 58 (pad s 2 ++ 46 :: (pad us 6 ++ [90]))
      (date_prefix y m d (by omega) hm1 hm2 hd1 (by omega) _ _ _ _
        (match_HM h mi hh hm (58 :: (pad s 2 ++ 46 :: (pad us 6 ++ [90]))))))]
    rw [firstSome_cons_none _ _ _ (strptime_fail_of_match_none _ _ _ compile_DT_HMZ
      (date_prefix_none y m d (by omega) hm2 (by omega) _ _
        (HM_then_lit_fail h mi hh hm 90 dZ [] 58 (pad s 2 ++ 46 :: (pad us 6 ++ [90])) (by decide))))]
    rw [firstSome_cons_none _ _ _ (strptime_leaves _ _ _ compile_DT_HMS _ 46 (pad us 6 ++ [90])
      (date_prefix y m d (by omega) hm1 hm2 hd1 (by omega) _ _ _ _
        (match_HMS h mi s hh hm hs (46 :: (pad us 6 ++ [90])))))]
    rw [firstSome_cons_none _ _ _ (strptime_fail_of_match_none _ _ _ compile_DT_HMSZ
      (date_prefix_none y m d (by omega) hm2 (by omega) _ _
        (HMS_then_lit_fail h mi s hh hm hs 90 dZ [] 46 (pad us 6 ++ [90]) (by decide))))]
    rw [firstSome_cons_none _ _ _ (strptime_leaves _ _ _ compile_DT_HMSf _ 90 []
      (date_prefix y m d (by omega) hm1 hm2 hd1 (by omega) _ _ _ _
        (match_HMSf_rest h mi s us hh hm hs hus [90])))]
    rw [firstSome_cons_some _ _ _ _ (strptime_DT_HMSfZ y m d h mi s us hd hh hm hs hus)]

end Pvl
