import PvlModel.Lemmas.ParserSpecs2

/-! A second pass over the parser functions with a different invariant: with a strict parser class
    (`PVLParser`, `ODLParser`: everything but `OmniParser`) no function ever appends to `parser.errors`
    and no value it returns contains an `EmptyValueAtLine` placeholder. -/
namespace Pvl

mutual
/-- the value contains no `EmptyValueAtLine` placeholder, at any depth -/
def Val.noEmpty : Val → Bool
  | .empty _ => false
  | .quant v _ => v.noEmpty
  | .seq l => noEmptyL l
  | .set _ l => noEmptyL l
  | .cont _ items => noEmptyI items
  | _ => true
def noEmptyL : List Val → Bool
  | [] => true
  | v :: r => v.noEmpty && noEmptyL r
def noEmptyI : List (Str × Val) → Bool
  | [] => true
  | p :: r => p.2.noEmpty && noEmptyI r
end

@[simp] theorem noEmptyL_append (a b : List Val) : noEmptyL (a ++ b) = (noEmptyL a && noEmptyL b) := by
  induction a with
  | nil => simp [noEmptyL]
  | cons v r ih => simp [noEmptyL, ih, Bool.and_assoc]

@[simp] theorem noEmptyI_append (a b : Items) : noEmptyI (a ++ b) = (noEmptyI a && noEmptyI b) := by
  induction a with
  | nil => simp [noEmptyI]
  | cons v r ih => simp [noEmptyI, ih, Bool.and_assoc]

@[simp] theorem noEmptyL_nil : noEmptyL [] = true := by simp [noEmptyL]
@[simp] theorem noEmptyI_nil : noEmptyI [] = true := by simp [noEmptyI]
@[simp] theorem noEmptyL_single (v : Val) : noEmptyL [v] = v.noEmpty := by simp [noEmptyL]
@[simp] theorem noEmptyI_single (p : Str × Val) : noEmptyI [p] = p.2.noEmpty := by simp [noEmptyI]

theorem decodeDatetimeBase_noEmpty (g : Grammar) (s : Str) (v : Val) (h : decodeDatetimeBase g s = some v) :
    v.noEmpty = true := by
  unfold decodeDatetimeBase at h
  split at h
  · cases h; simp [Val.noEmpty]
  · simp only at h
    split at h
    · cases h; simp [Val.noEmpty]
    · split at h
      · cases h; simp [Val.noEmpty]
      · split at h
        · cases h; simp [Val.noEmpty]
        · cases h

theorem decodeDatetimeOdl_noEmpty (g : Grammar) (s : Str) (v : Val) (h : decodeDatetimeOdl g s = .ok v) :
    v.noEmpty = true := by
  unfold decodeDatetimeOdl at h
  split at h
  · cases h; exact decodeDatetimeBase_noEmpty _ _ _ (by assumption)
  · split at h
    · cases h
    · split at h
      · cases h
      · rename_i v' _
        cases v' <;> simp at h <;> (cases h; simp [Val.noEmpty])

theorem decodeDatetime_noEmpty (d : Dec) (s : Str) (v : Val) (h : decodeDatetime d s = .ok v) :
    v.noEmpty = true := by
  unfold decodeDatetime at h
  split at h
  · split at h
    · cases h; exact decodeDatetimeBase_noEmpty _ _ _ (by assumption)
    · cases h
  · exact decodeDatetimeOdl_noEmpty _ _ _ h
  · exact decodeDatetimeOdl_noEmpty _ _ _ h
  · split at h
    · cases h
    · rename_i v' hv
      have := decodeDatetimeBase_noEmpty _ _ _ hv
      simp only at h
      split at h
      · split at h
        · cases h
        · cases h; exact this
      · cases h; exact this

/-- `decode_simple_value` never makes a placeholder -/
theorem decodeSimple_noEmpty (d : Dec) (s : Str) (v : Val) (h : decodeSimple d s = .ok v) :
    v.noEmpty = true := by
  unfold decodeSimple at h
  split at h
  · cases h; rfl
  split at h
  · cases h; rfl
  split at h
  · cases h; rfl
  split at h
  · cases h; rfl
  split at h
  · cases h; rfl
  split at h
  · rename_i v' hv
    cases h
    unfold decodeDecimal at hv
    split at hv
    · cases hv; rfl
    · split at hv
      · cases hv; rfl
      · cases hv
  split at h
  · cases h; exact decodeDatetime_noEmpty _ _ _ (by assumption)
  split at h
  · cases h; rfl
  · cases h

namespace P
open Std.Do

set_option mvcgen.warning false

/-- nothing has been recorded in `parser.errors` -/
def Clean (s : PSt) : Prop := s.errors = []

macro "fr_close" : tactic => `(tactic|
  all_goals (first
    | assumption
    | (intros; simp_all [Clean, Val.noEmpty]; done)
    | (simp_all (config := {zetaDelta := true}) [Clean, Val.noEmpty]; done)
    | grind [Clean, Val.noEmpty, decodeSimple_noEmpty, noEmptyI_append, noEmptyL_append, noEmptyI_single, noEmptyL_single, noEmptyI_nil, noEmptyL_nil]
    | grind (splits := 30) [Clean, Val.noEmpty, decodeSimple_noEmpty, noEmptyI_append, noEmptyL_append, noEmptyI_single, noEmptyL_single, noEmptyI_nil, noEmptyL_nil]))

theorem next_clean (c : PCfg) :
    ⦃fun s => ⌜Clean s⌝⦄ (next c : PM Token) ⦃post⟨fun _ s => ⌜Clean s⌝, fun _ s => ⌜Clean s⌝⟩⦄ := by
  mvcgen [next]; fr_close

theorem send_clean (t : Token) :
    ⦃fun s => ⌜Clean s⌝⦄ (send t : PM Unit) ⦃post⟨fun _ s => ⌜Clean s⌝, fun _ s => ⌜Clean s⌝⟩⦄ := by
  mvcgen [send]; fr_close

theorem throwIn_clean {α} :
    ⦃fun s => ⌜Clean s⌝⦄ (throwIn : PM α) ⦃post⟨fun _ _ => ⌜False⌝, fun _ s => ⌜Clean s⌝⟩⦄ := by
  mvcgen [throwIn]; fr_close

theorem mark_clean (site : String) :
    ⦃fun s => ⌜Clean s⌝⦄ (mark site : PM Unit) ⦃post⟨fun _ s => ⌜Clean s⌝, fun _ s => ⌜Clean s⌝⟩⦄ := by
  mvcgen [mark]

theorem wscUntil_clean (c : PCfg) (tok : Option Str) (fuel : Nat) :
    ⦃fun s => ⌜Clean s⌝⦄ (wscUntil c tok fuel : PM Bool)
    ⦃post⟨fun _ s => ⌜Clean s⌝, fun _ s => ⌜Clean s⌝⟩⦄ := by
  induction fuel with
  | zero => unfold wscUntil; mvcgen
  | succ n ih => unfold wscUntil; mvcgen [next_clean, send_clean, ih]; fr_close

theorem stmtDelim_clean (c : PCfg) (fuel : Nat) :
    ⦃fun s => ⌜Clean s⌝⦄ (stmtDelim c fuel : PM Bool)
    ⦃post⟨fun _ s => ⌜Clean s⌝, fun _ s => ⌜Clean s⌝⟩⦄ := by
  induction fuel with
  | zero => unfold stmtDelim; mvcgen
  | succ n ih => unfold stmtDelim; mvcgen [next_clean, send_clean, ih]; fr_close

theorem aroundEquals_clean (c : PCfg) (fuel : Nat) :
    ⦃fun s => ⌜Clean s⌝⦄ (aroundEquals c fuel : PM Unit)
    ⦃post⟨fun _ s => ⌜Clean s⌝, fun _ s => ⌜Clean s⌝⟩⦄ := by
  unfold aroundEquals
  mvcgen [wscUntil_clean, next_clean, send_clean]; fr_close

theorem units_clean (c : PCfg) (v : Val) (hv : v.noEmpty = true) :
    ⦃fun s => ⌜Clean s⌝⦄ (units c v : PM Val)
    ⦃post⟨fun r s => ⌜Clean s ∧ r.noEmpty = true⌝, fun _ s => ⌜Clean s⌝⟩⦄ := by
  unfold units
  mvcgen [next_clean, send_clean, throwIn_clean]; fr_close

/-- the value post-hook of the strict parsers does nothing but fail softly -/
theorem valueHook_clean (c : PCfg) (hk : c.kind ≠ .omni) :
    ⦃fun s => ⌜Clean s⌝⦄ (valueHook c : PM Val)
    ⦃post⟨fun _ _ => ⌜False⌝, fun _ s => ⌜Clean s⌝⟩⦄ := by
  unfold valueHook
  mvcgen; fr_close

/-- the five value functions of a strict parser at one fuel level -/
def ValueClean (c : PCfg) (fuel : Nat) : Prop :=
  (⦃fun s => ⌜Clean s⌝⦄ (value c fuel : PM Val)
    ⦃post⟨fun r s => ⌜Clean s ∧ r.noEmpty = true⌝, fun _ s => ⌜Clean s⌝⟩⦄) ∧
  (∀ delims, ⦃fun s => ⌜Clean s⌝⦄ (setSeq c delims fuel : PM (List Val))
    ⦃post⟨fun r s => ⌜Clean s ∧ noEmptyL r = true⌝, fun _ s => ⌜Clean s⌝⟩⦄) ∧
  (∀ delims acc, noEmptyL acc = true → ⦃fun s => ⌜Clean s⌝⦄ (setSeqLoop c delims acc fuel : PM (Option (List Val)))
    ⦃post⟨fun r s => ⌜Clean s ∧ ∀ l, r = some l → noEmptyL l = true⌝, fun _ s => ⌜Clean s⌝⟩⦄) ∧
  (⦃fun s => ⌜Clean s⌝⦄ (pset c fuel : PM Val)
    ⦃post⟨fun r s => ⌜Clean s ∧ r.noEmpty = true⌝, fun _ s => ⌜Clean s⌝⟩⦄) ∧
  (⦃fun s => ⌜Clean s⌝⦄ (pseq c fuel : PM Val)
    ⦃post⟨fun r s => ⌜Clean s ∧ r.noEmpty = true⌝, fun _ s => ⌜Clean s⌝⟩⦄)

theorem valueClean_zero (c : PCfg) : ValueClean c 0 := by
  refine ⟨?_, ?_, ?_, ?_, ?_⟩
  · unfold value; mvcgen
  · intro d; unfold setSeq; mvcgen
  · intro d a _; unfold setSeqLoop; mvcgen
  · unfold pset; mvcgen
  · unfold pseq; mvcgen

set_option maxHeartbeats 4000000 in
theorem valueClean_succ (c : PCfg) (hk : c.kind ≠ .omni) (n : Nat) (ih : ValueClean c n) :
    ValueClean c (n + 1) := by
  obtain ⟨ihValue, ihSetSeq, ihLoop, ihSet, ihSeq⟩ := ih
  have hHook := valueHook_clean c hk
  refine ⟨?_, ?_, ?_, ?_, ?_⟩
  · unfold value
    mvcgen [softCatch, next_clean, send_clean, ihSet, ihSeq, hHook, throwIn_clean, wscUntil_clean, units_clean]
    all_goals (try (fr_close; done))
    all_goals (
      intro s hs
      rename_i e
      by_cases hv : e.isValueError = true
      · simp only [hv, if_true]
        simp_all [Clean]
      · simp only [hv]
        simp_all [Clean])
  · intro d
    unfold setSeq
    mvcgen [next_clean, send_clean, wscUntil_clean, ihValue, ihLoop]
    fr_close
  · intro d a ha
    unfold setSeqLoop
    mvcgen [next_clean, send_clean, wscUntil_clean, ihValue, ihLoop, throwIn_clean]
    fr_close
  · unfold pset
    mvcgen [ihSetSeq, throwIn_clean]
    fr_close
  · unfold pseq
    mvcgen [ihSetSeq]
    fr_close

theorem valueClean (c : PCfg) (hk : c.kind ≠ .omni) (fuel : Nat) : ValueClean c fuel := by
  induction fuel with
  | zero => exact valueClean_zero c
  | succ n ih => exact valueClean_succ c hk n ih

theorem value_clean (c : PCfg) (hk : c.kind ≠ .omni) (fuel : Nat) :
    ⦃fun s => ⌜Clean s⌝⦄ (value c fuel : PM Val)
    ⦃post⟨fun r s => ⌜Clean s ∧ r.noEmpty = true⌝, fun _ s => ⌜Clean s⌝⟩⦄ := (valueClean c hk fuel).1

theorem assignmentBase_clean (c : PCfg) (hk : c.kind ≠ .omni) (fuel : Nat) :
    ⦃fun s => ⌜Clean s⌝⦄ (assignmentBase c fuel : PM (Str × Val))
    ⦃post⟨fun r s => ⌜Clean s ∧ r.2.noEmpty = true⌝, fun _ s => ⌜Clean s⌝⟩⦄ := by
  have hV := value_clean c hk fuel
  unfold assignmentBase
  mvcgen [softCatch, next_clean, send_clean, aroundEquals_clean, throwIn_clean, hV, stmtDelim_clean]
  fr_close

theorem assignment_clean (c : PCfg) (hk : c.kind ≠ .omni) (fuel : Nat) :
    ⦃fun s => ⌜Clean s⌝⦄ (assignment c fuel : PM (Str × Val))
    ⦃post⟨fun r s => ⌜Clean s ∧ r.2.noEmpty = true⌝, fun _ s => ⌜Clean s⌝⟩⦄ := by
  have hA := assignmentBase_clean c hk fuel
  unfold assignment
  mvcgen [hA]
  fr_close

theorem endStatement_clean (c : PCfg) :
    ⦃fun s => ⌜Clean s⌝⦄ (endStatement c : PM Unit)
    ⦃post⟨fun _ s => ⌜Clean s⌝, fun _ s => ⌜Clean s⌝⟩⦄ := by
  unfold endStatement
  mvcgen [next_clean, send_clean]
  fr_close

theorem beginAgg_clean (c : PCfg) (fuel : Nat) :
    ⦃fun s => ⌜Clean s⌝⦄ (beginAgg c fuel : PM (Str × Str))
    ⦃post⟨fun _ s => ⌜Clean s⌝, fun _ s => ⌜Clean s⌝⟩⦄ := by
  unfold beginAgg
  mvcgen [softCatch, next_clean, send_clean, aroundEquals_clean, throwIn_clean, stmtDelim_clean]
  fr_close

theorem endAgg_clean (c : PCfg) (b n : Str) (fuel : Nat) :
    ⦃fun s => ⌜Clean s⌝⦄ (endAgg c b n fuel : PM Unit)
    ⦃post⟨fun _ s => ⌜Clean s⌝, fun _ s => ⌜Clean s⌝⟩⦄ := by
  unfold endAgg
  mvcgen [next_clean, send_clean, aroundEquals_clean, throwIn_clean, stmtDelim_clean]
  fr_close

/-- the module post-hook of the strict parsers: "ignore me", nothing touched -/
theorem moduleHook_clean (c : PCfg) (hk : c.kind ≠ .omni) (m : Items) (fuel : Nat) :
    ⦃fun s => ⌜Clean s⌝⦄ (moduleHook c m fuel : PM (Items × Except PErr Bool))
    ⦃post⟨fun r s => ⌜Clean s ∧ r.1 = m⌝, fun _ s => ⌜Clean s⌝⟩⦄ := by
  unfold moduleHook
  mvcgen
  fr_close

def AggClean (c : PCfg) (fuel : Nat) : Prop :=
  (⦃fun s => ⌜Clean s⌝⦄ (aggBlock c fuel : PM (Str × Val))
    ⦃post⟨fun r s => ⌜Clean s ∧ r.2.noEmpty = true⌝, fun _ s => ⌜Clean s⌝⟩⦄) ∧
  (∀ b n agg, noEmptyI agg = true → ⦃fun s => ⌜Clean s⌝⦄ (aggLoop c b n agg fuel : PM Items)
    ⦃post⟨fun r s => ⌜Clean s ∧ noEmptyI r = true⌝, fun _ s => ⌜Clean s⌝⟩⦄)

theorem aggClean_zero (c : PCfg) : AggClean c 0 := by
  refine ⟨?_, ?_⟩
  · unfold aggBlock; mvcgen
  · intro b n a _; unfold aggLoop; mvcgen

set_option maxHeartbeats 4000000 in
theorem aggClean_succ (c : PCfg) (hk : c.kind ≠ .omni) (k : Nat) (ih : AggClean c k) : AggClean c (k + 1) := by
  obtain ⟨ihBlock, ihLoop⟩ := ih
  have hA := assignment_clean c hk k
  have hH := fun m => moduleHook_clean c hk m k
  refine ⟨?_, ?_⟩
  · unfold aggBlock
    mvcgen [beginAgg_clean, throwIn_clean, ihLoop]
    fr_close
  · intro b n a ha
    unfold aggLoop
    mvcgen [softCatch, wscUntil_clean, ihBlock, ihLoop, hA, endAgg_clean, hH, throwIn_clean]
    fr_close

theorem aggClean (c : PCfg) (hk : c.kind ≠ .omni) (fuel : Nat) : AggClean c fuel := by
  induction fuel with
  | zero => exact aggClean_zero c
  | succ n ih => exact aggClean_succ c hk n ih

set_option maxHeartbeats 4000000 in
/-- `parse_module` of a strict parser: `errors` stays empty and the module holds no placeholder -/
theorem moduleLoop_clean (c : PCfg) (hk : c.kind ≠ .omni) (fuel : Nat) :
    ∀ m, noEmptyI m = true → ⦃fun s => ⌜Clean s⌝⦄ (moduleLoop c m fuel : PM Items)
      ⦃post⟨fun r s => ⌜Clean s ∧ noEmptyI r = true⌝, fun _ s => ⌜Clean s⌝⟩⦄ := by
  induction fuel with
  | zero => intro m _; unfold moduleLoop; mvcgen
  | succ k ih =>
    intro m hm
    have hA := assignment_clean c hk k
    have hB := (aggClean c hk k).1
    have hH := fun m => moduleHook_clean c hk m k
    unfold moduleLoop
    mvcgen [softCatch, wscUntil_clean, hB, hA, endStatement_clean, hH, next_clean, throwIn_clean, ih]
    fr_close

end P
end Pvl
