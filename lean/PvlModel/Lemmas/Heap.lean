import PvlModel.Model.Heap
/-! Frame reasoning for the heap model: a method writes only to lists its receiver owns or to fresh ones,
    so containers that share no list cannot see each other's changes. -/
namespace Pvl.Heap

/-- the receiver's lists are allocated -/
def FpOK (h : Heap) (c : Cont) : Prop := c.items < h.iNext ∧ ∀ p ∈ c.dict, p.2 < h.vNext

/-- two container objects share no list -/
def Sep (a b : Cont) : Prop := a.items ≠ b.items ∧ ∀ p ∈ a.dict, ∀ q ∈ b.dict, p.2 ≠ q.2

/-- a heap change that is local to the container `c` (which becomes `c'`): allocated lists that are not
    `c`'s keep their content, and `c'` owns old lists of `c` and fresh ones only -/
structure Local (h : Heap) (c : Cont) (h' : Heap) (c' : Cont) : Prop where
  iNext_le : h.iNext ≤ h'.iNext
  vNext_le : h.vNext ≤ h'.vNext
  frameI : ∀ i, i < h.iNext → i ≠ c.items → h'.itemLists i = h.itemLists i
  frameV : ∀ i, i < h.vNext → (∀ p ∈ c.dict, p.2 ≠ i) → h'.valLists i = h.valLists i
  ownI : c'.items = c.items ∨ h.iNext ≤ c'.items
  ownV : ∀ p ∈ c'.dict, (∃ q ∈ c.dict, q.2 = p.2) ∨ h.vNext ≤ p.2
  ok : FpOK h' c'

/-- **frame**: a change local to `c` is invisible through any container that shares no list with `c` -/
theorem Local.frame {h h' : Heap} {c c' b : Cont} (hl : Local h c h' c') (hb : FpOK h b) (hsep : Sep c b) :
    view h' b = view h b ∧ FpOK h' b ∧ Sep c' b := by
  refine ⟨?_, ?_, ?_⟩
  · unfold view
    rw [hl.frameI b.items hb.1 (fun e => hsep.1 e.symm)]
    congr 1
    apply List.map_congr_left
    intro q hq
    rw [hl.frameV q.2 (hb.2 q hq) (fun p hp => hsep.2 p hp q hq)]
  · exact ⟨Nat.lt_of_lt_of_le hb.1 hl.iNext_le, fun p hp => Nat.lt_of_lt_of_le (hb.2 p hp) hl.vNext_le⟩
  · refine ⟨?_, ?_⟩
    · rcases hl.ownI with e | e
      · rw [e]; exact hsep.1
      · intro e2; have := hb.1; omega
    · intro p hp q hq
      rcases hl.ownV p hp with ⟨r, hr, e⟩ | e
      · rw [← e]; exact hsep.2 r hr q hq
      · intro e2; have := hb.2 q hq; omega

theorem Local.refl (h : Heap) (c : Cont) (hc : FpOK h c) : Local h c h c :=
  ⟨Nat.le_refl _, Nat.le_refl _, fun _ _ _ => rfl, fun _ _ _ => rfl, Or.inl rfl,
   fun p hp => Or.inl ⟨p, hp, rfl⟩, hc⟩

theorem mem_of_find? {α} {p : α → Bool} {l : List α} {a : α} (h : l.find? p = some a) : a ∈ l :=
  List.mem_of_find?_eq_some h

theorem append_local (h : Heap) (c : Cont) (k : K) (v : V) (hc : FpOK h c) :
    Local h c (append h c k v).1 (append h c k v).2 := by
  unfold append
  cases hf : c.dict.find? (fun p => p.1 == k) with
  | some p =>
    have hp := mem_of_find? hf
    refine ⟨Nat.le_refl _, Nat.le_refl _, ?_, ?_, Or.inl rfl, fun q hq => Or.inl ⟨q, hq, rfl⟩, hc⟩
    · intro i _ hne; simp [Heap.setVals, Heap.setItems, hne]
    · intro i _ hne
      have : i ≠ p.2 := fun e => hne p hp e.symm
      simp [Heap.setVals, Heap.setItems, this]
  | none =>
    refine ⟨Nat.le_refl _, by simp [Heap.allocVals, Heap.setItems], ?_, ?_, Or.inl rfl, ?_, ?_⟩
    · intro i _ hne; simp [Heap.allocVals, Heap.setItems, hne]
    · intro i hi _
      have : i ≠ h.vNext := by omega
      simp [Heap.allocVals, Heap.setItems, this]
    · intro q hq
      simp only [Heap.allocVals, Heap.setItems, List.mem_append, List.mem_singleton] at hq
      rcases hq with hq | rfl
      · exact Or.inl ⟨q, hq, rfl⟩
      · exact Or.inr (Nat.le_refl _)
    · refine ⟨by simpa [Heap.allocVals, Heap.setItems] using hc.1, ?_⟩
      intro q hq
      simp only [Heap.allocVals, Heap.setItems, List.mem_append, List.mem_singleton] at hq ⊢
      rcases hq with hq | rfl
      · have := hc.2 q hq; omega
      · simp

theorem delitem_local (h : Heap) (c : Cont) (k : K) (hc : FpOK h c) :
    Local h c (delitem h c k).1 (delitem h c k).2 := by
  unfold delitem
  refine ⟨by simp [Heap.allocItems], by simp [Heap.allocItems], ?_, ?_, Or.inr (by simp [Heap.allocItems]), ?_, ?_⟩
  · intro i hi _
    have : i ≠ h.iNext := by omega
    simp [Heap.allocItems, this]
  · intro i _ _; simp [Heap.allocItems]
  · intro q hq
    simp only [Heap.allocItems] at hq
    exact Or.inl ⟨q, (List.mem_filter.mp hq).1, rfl⟩
  · refine ⟨by simp [Heap.allocItems], ?_⟩
    intro q hq
    simp only [Heap.allocItems] at hq ⊢
    exact hc.2 q (List.mem_filter.mp hq).1

theorem setitem_local (h : Heap) (c : Cont) (k : K) (v : V) (hc : FpOK h c) :
    Local h c (setitem h c k v).1 (setitem h c k v).2 := by
  unfold setitem
  split
  · refine ⟨by simp [Heap.allocVals, Heap.setItems], by simp [Heap.allocVals, Heap.setItems], ?_, ?_, Or.inl rfl, ?_, ?_⟩
    · intro i _ hne; simp [Heap.allocVals, Heap.setItems, hne]
    · intro i hi _
      have : i ≠ h.vNext := by omega
      simp [Heap.allocVals, Heap.setItems, this]
    · intro q hq
      simp only [Heap.allocVals, Heap.setItems, List.mem_map] at hq
      obtain ⟨r, hr, e⟩ := hq
      split at e
      · subst e; exact Or.inr (Nat.le_refl _)
      · subst e; exact Or.inl ⟨r, hr, rfl⟩
    · refine ⟨by simpa [Heap.allocVals, Heap.setItems] using hc.1, ?_⟩
      intro q hq
      simp only [Heap.allocVals, Heap.setItems, List.mem_map] at hq ⊢
      obtain ⟨r, hr, e⟩ := hq
      split at e
      · subst e; simp
      · subst e; have := hc.2 r hr; omega
  · exact append_local h c k v hc

theorem popLast_local (h : Heap) (c : Cont) (hc : FpOK h c) :
    Local h c (popLast h c).1 (popLast h c).2 := by
  unfold popLast
  split
  · exact Local.refl h c hc
  · rename_i k _ _
    cases hf : c.dict.find? (fun p => p.1 == k) with
    | none =>
      refine ⟨Nat.le_refl _, Nat.le_refl _, ?_, ?_, Or.inl rfl, fun q hq => Or.inl ⟨q, hq, rfl⟩, hc⟩
      · intro i _ hne; simp [Heap.setItems, hne]
      · intro i _ _; simp [Heap.setItems]
    | some p =>
      have hp := mem_of_find? hf
      simp only
      split
      · refine ⟨Nat.le_refl _, Nat.le_refl _, ?_, ?_, Or.inl rfl, ?_, ?_⟩
        · intro i _ hne; simp [Heap.setItems, hne]
        · intro i _ _; simp [Heap.setItems]
        · intro q hq; exact Or.inl ⟨q, (List.mem_filter.mp hq).1, rfl⟩
        · exact ⟨hc.1, fun q hq => hc.2 q (List.mem_filter.mp hq).1⟩
      · refine ⟨Nat.le_refl _, Nat.le_refl _, ?_, ?_, Or.inl rfl, fun q hq => Or.inl ⟨q, hq, rfl⟩, hc⟩
        · intro i _ hne; simp [Heap.setVals, Heap.setItems, hne]
        · intro i _ hne
          have : i ≠ p.2 := fun e => hne p hp e.symm
          simp [Heap.setVals, Heap.setItems, this]

/-- local changes compose -/
theorem Local.trans {h h1 h2 : Heap} {c c1 c2 : Cont} (a : Local h c h1 c1) (b : Local h1 c1 h2 c2) :
    Local h c h2 c2 := by
  refine ⟨Nat.le_trans a.iNext_le b.iNext_le, Nat.le_trans a.vNext_le b.vNext_le, ?_, ?_, ?_, ?_, b.ok⟩
  · intro i hi hne
    rw [b.frameI i (Nat.lt_of_lt_of_le hi a.iNext_le) ?_, a.frameI i hi hne]
    rcases a.ownI with e | e
    · rw [e]; exact hne
    · omega
  · intro i hi hne
    rw [b.frameV i (Nat.lt_of_lt_of_le hi a.vNext_le) ?_, a.frameV i hi hne]
    intro p hp
    rcases a.ownV p hp with ⟨q, hq, e⟩ | e
    · rw [← e]; exact hne q hq
    · omega
  · rcases b.ownI with e | e
    · rw [e]; exact a.ownI
    · exact Or.inr (Nat.le_trans a.iNext_le e)
  · intro p hp
    rcases b.ownV p hp with ⟨q, hq, e⟩ | e
    · rcases a.ownV q hq with ⟨r, hr, e2⟩ | e2
      · exact Or.inl ⟨r, hr, e2.trans e⟩
      · exact Or.inr (e ▸ e2)
    · exact Or.inr (Nat.le_trans a.vNext_le e)

theorem appendAll_local (ps : List (K × V)) : ∀ (h : Heap) (c : Cont), FpOK h c →
    Local h c (appendAll h c ps).1 (appendAll h c ps).2 := by
  induction ps with
  | nil => intro h c hc; exact Local.refl h c hc
  | cons p r ih =>
    intro h c hc
    obtain ⟨k, v⟩ := p
    have a := append_local h c k v hc
    exact a.trans (ih _ _ a.ok)

theorem setAll_local (ps : List (K × V)) : ∀ (h : Heap) (c : Cont), FpOK h c →
    Local h c (setAll h c ps).1 (setAll h c ps).2 := by
  induction ps with
  | nil => intro h c hc; exact Local.refl h c hc
  | cons p r ih =>
    intro h c hc
    obtain ⟨k, v⟩ := p
    have a := setitem_local h c k v hc
    exact a.trans (ih _ _ a.ok)

theorem clear_local (h : Heap) (c : Cont) (_hc : FpOK h c) :
    Local h c (clear h c).1 (clear h c).2 := by
  unfold clear
  refine ⟨by simp [Heap.allocItems], by simp [Heap.allocItems], ?_, ?_, Or.inr (by simp [Heap.allocItems]), ?_, ?_⟩
  · intro i hi _
    have : i ≠ h.iNext := by omega
    simp [Heap.allocItems, this]
  · intro i _ _; simp [Heap.allocItems]
  · intro q hq; simp [Heap.allocItems] at hq
  · exact ⟨by simp [Heap.allocItems], by simp [Heap.allocItems]⟩

theorem discard_local (h : Heap) (c : Cont) (k : K) (hc : FpOK h c) :
    Local h c (discard h c k).1 (discard h c k).2 := by
  unfold discard
  split
  · exact delitem_local h c k hc
  · exact Local.refl h c hc

theorem insertOne_local (h : Heap) (c : Cont) (i : Nat) (k : K) (v : V) (hc : FpOK h c) :
    Local h c (insertOne h c i k v).1 (insertOne h c i k v).2 := by
  unfold insertOne
  simp only
  split
  · refine ⟨by simp [Heap.allocVals, Heap.setItems], by simp [Heap.allocVals, Heap.setItems], ?_, ?_, Or.inl rfl, ?_, ?_⟩
    · intro j _ hne; simp [Heap.allocVals, Heap.setItems, hne]
    · intro j hj _
      have : j ≠ h.vNext := by omega
      simp [Heap.allocVals, Heap.setItems, this]
    · intro q hq
      simp only [Heap.allocVals, Heap.setItems, List.mem_map] at hq
      obtain ⟨r, hr, e⟩ := hq
      split at e
      · subst e; exact Or.inr (Nat.le_refl _)
      · subst e; exact Or.inl ⟨r, hr, rfl⟩
    · refine ⟨by simpa [Heap.allocVals, Heap.setItems] using hc.1, ?_⟩
      intro q hq
      simp only [Heap.allocVals, Heap.setItems, List.mem_map] at hq ⊢
      obtain ⟨r, hr, e⟩ := hq
      split at e
      · subst e; simp
      · subst e; have := hc.2 r hr; omega
  · refine ⟨Nat.le_refl _, by simp [Heap.allocVals, Heap.setItems], ?_, ?_, Or.inl rfl, ?_, ?_⟩
    · intro j _ hne; simp [Heap.allocVals, Heap.setItems, hne]
    · intro j hj _
      have : j ≠ h.vNext := by omega
      simp [Heap.allocVals, Heap.setItems, this]
    · intro q hq
      simp only [Heap.allocVals, Heap.setItems, List.mem_append, List.mem_singleton] at hq
      rcases hq with hq | rfl
      · exact Or.inl ⟨q, hq, rfl⟩
      · exact Or.inr (Nat.le_refl _)
    · refine ⟨by simpa [Heap.allocVals, Heap.setItems] using hc.1, ?_⟩
      intro q hq
      simp only [Heap.allocVals, Heap.setItems, List.mem_append, List.mem_singleton] at hq ⊢
      rcases hq with hq | rfl
      · have := hc.2 q hq; omega
      · simp

theorem insertAll_local (ps : List (K × V)) : ∀ (h : Heap) (c : Cont) (i : Nat), FpOK h c →
    Local h c (insertAll h c i ps).1 (insertAll h c i ps).2 := by
  induction ps with
  | nil => intro h c _ hc; exact Local.refl h c hc
  | cons p r ih =>
    intro h c i hc
    obtain ⟨k, v⟩ := p
    have a := insertOne_local h c i k v hc
    exact a.trans (ih _ _ (i + 1) a.ok)

theorem step_local (h : Heap) (c : Cont) (o : Op) (hc : FpOK h c) :
    Local h c (step h c o).1 (step h c o).2 := by
  cases o with
  | append k v => exact append_local h c k v hc
  | delitem k => exact delitem_local h c k hc
  | setitem k v => exact setitem_local h c k v hc
  | popLast => exact popLast_local h c hc
  | extend ps => exact appendAll_local ps h c hc
  | update ps => exact setAll_local ps h c hc
  | clear => exact clear_local h c hc
  | discard k => exact discard_local h c k hc
  | popall k => exact discard_local h c k hc
  | insert i ps => exact insertAll_local ps h c i hc

/-- any history of methods on `c` leaves every container that shares no list with `c` as it was -/
theorem run_frame (ops : List Op) : ∀ (h : Heap) (c b : Cont), FpOK h c → FpOK h b → Sep c b →
    view (run h c ops).1 b = view h b := by
  induction ops with
  | nil => intro h c b _ _ _; rfl
  | cons o r ih =>
    intro h c b hc hb hs
    have hl := step_local h c o hc
    obtain ⟨hv, hb', hs'⟩ := hl.frame hb hs
    simp only [run]
    rw [ih (step h c o).1 (step h c o).2 b hl.ok hb' hs', hv]

end Pvl.Heap

namespace Pvl.Heap

/-- `buildDict` only touches value lists at or above the allocation pointer it started from, or those of
    the dict it is extending -/
theorem buildDict_spec (pairs : List (K × V)) : ∀ (h : Heap) (d : List (K × Nat)) (v0 : Nat),
    v0 ≤ h.vNext → (∀ p ∈ d, v0 ≤ p.2 ∧ p.2 < h.vNext) →
    let r := buildDict h pairs d
    r.1.itemLists = h.itemLists ∧ r.1.iNext = h.iNext ∧ h.vNext ≤ r.1.vNext ∧
    (∀ i, i < v0 → r.1.valLists i = h.valLists i) ∧
    (∀ p ∈ r.2, v0 ≤ p.2 ∧ p.2 < r.1.vNext) := by
  induction pairs with
  | nil => intro h d v0 hv hd; exact ⟨rfl, rfl, Nat.le_refl _, fun _ _ => rfl, hd⟩
  | cons kv r ih =>
    intro h d v0 hv hd
    obtain ⟨k, v⟩ := kv
    cases hf : d.find? (fun p => p.1 == k) with
    | some p =>
      simp only [buildDict, hf]
      have hp := hd p (mem_of_find? hf)
      have := ih (h.setVals p.2 (h.valLists p.2 ++ [v])) d v0 (by simpa [Heap.setVals] using hv)
        (by simpa [Heap.setVals] using hd)
      obtain ⟨a, b, c, e, f⟩ := this
      refine ⟨by simpa [Heap.setVals] using a, by simpa [Heap.setVals] using b,
        by simpa [Heap.setVals] using c, ?_, f⟩
      intro i hi
      rw [e i hi]
      have : i ≠ p.2 := by omega
      simp [Heap.setVals, this]
    | none =>
      simp only [buildDict, hf]
      have := ih (h.allocVals [v]).1 (d ++ [(k, (h.allocVals [v]).2)]) v0
        (by simp [Heap.allocVals]; omega)
        (by
          intro p hp
          simp only [Heap.allocVals, List.mem_append, List.mem_singleton] at hp ⊢
          rcases hp with hp | rfl
          · have := hd p hp; omega
          · simp; omega)
      simp only [Heap.allocVals] at this ⊢
      obtain ⟨a, b, c, e, f⟩ := this
      refine ⟨a, b, by omega, ?_, f⟩
      intro i hi
      rw [e i hi]
      have : i ≠ h.vNext := by omega
      simp [this]

/-- **`copy()` makes an equal, separate object and leaves the original alone** -/
theorem copy_spec (h : Heap) (c : Cont) (hc : FpOK h c) :
    (view (copy h c).1 (copy h c).2).1 = (view h c).1 ∧
    view (copy h c).1 c = view h c ∧
    Sep (copy h c).2 c ∧ FpOK (copy h c).1 (copy h c).2 ∧ FpOK (copy h c).1 c := by
  unfold copy
  simp only
  have hb := buildDict_spec (h.itemLists c.items) (h.allocItems (h.itemLists c.items)).1 [] h.vNext
    (by simp [Heap.allocItems]) (by simp)
  simp only [Heap.allocItems] at hb ⊢
  obtain ⟨a, b, cc, e, f⟩ := hb
  have h1 : c.items ≠ h.iNext := by have := hc.1; omega
  refine ⟨?_, ?_, ?_, ?_, ?_⟩
  · simp only [view]; rw [a]; simp
  · unfold view
    congr 1
    · rw [a]; simp [h1]
    · apply List.map_congr_left
      intro q hq
      rw [e q.2 (hc.2 q hq)]
  · refine ⟨?_, ?_⟩
    · have := hc.1; simp; omega
    · intro p hp q hq
      have := (f p hp).1
      have := hc.2 q hq
      omega
  · refine ⟨?_, ?_⟩
    · simp [b]
    · intro p hp; exact (f p hp).2
  · refine ⟨?_, ?_⟩
    · rw [b]; have := hc.1; simp; omega
    · intro p hp
      have := hc.2 p hp
      omega

end Pvl.Heap
