import PvlModel.Lemmas.DateTime
namespace Pvl
open Py Enc

/-! ### ODL zone offsets: `HH:MM[:SS[.ffffff]]±HH[:MM]` -/

theorem lower_ne_of_digit (x ch : Nat) (hx : isDigit x = true)
    (hch : ∀ k, k < 10 → lowerAscii1 (48 + k) ≠ lowerAscii1 ch) : lowerAscii1 x ≠ lowerAscii1 ch := by
  simp only [isDigit, Bool.and_eq_true, decide_eq_true_eq] at hx
  have : x = 48 + (x - 48) := by omega
  rw [this]
  exact hch _ (by omega)

/-- `%f` followed by a literal: fails when the character after the six digits is not that literal -/
theorem f_then_lit_fail (us : Nat) (hus : us < 1000000) (ch : Nat)
    (hch : ∀ k, k < 10 → lowerAscii1 (48 + k) ≠ lowerAscii1 ch) (r : List Item) (c : Nat) (rest : Str)
    (hc : lowerAscii1 c ≠ lowerAscii1 ch) :
    matchItems (itemf :: ⟨.none, [[.lit ch]]⟩ :: r) (pad us 6 ++ c :: rest) = none := by
  rw [matchItems_cons]
  have hl := length_pad us 6 (by omega) (by omega)
  have hd := allDigits_pad us 6
  match hp : pad us 6, hl, hd with
  | [d1, d2, d3, d4, d5, d6], _, hd =>
    apply matchAlts_none_of_drops
    intro a ha
    have : itemf.alts = [List.replicate 6 (dg 0 9), List.replicate 5 (dg 0 9), List.replicate 4 (dg 0 9),
      List.replicate 3 (dg 0 9), List.replicate 2 (dg 0 9), List.replicate 1 (dg 0 9)] := by rfl
    rw [this] at ha
    simp only [List.mem_cons, List.mem_nil_iff, or_false] at ha
    rcases ha with rfl | rfl | rfl | rfl | rfl | rfl
    · exact lit_fail ch c hc r rest
    · exact lit_fail ch d6 (lower_ne_of_digit _ _ (hd d6 (by simp)) hch) r _
    · exact lit_fail ch d5 (lower_ne_of_digit _ _ (hd d5 (by simp)) hch) r _
    · exact lit_fail ch d4 (lower_ne_of_digit _ _ (hd d4 (by simp)) hch) r _
    · exact lit_fail ch d3 (lower_ne_of_digit _ _ (hd d3 (by simp)) hch) r _
    · exact lit_fail ch d2 (lower_ne_of_digit _ _ (hd d2 (by simp)) hch) r _

/-- `HH:MM:SS.ffffff` followed by a character other than the literal the format wants next -/
theorem HMSf_then_lit_fail (h mi s us : Nat) (hh : h < 24) (hm : mi < 60) (hs : s < 60) (hus : us < 1000000)
    (ch : Nat) (hch : ∀ k, k < 10 → lowerAscii1 (48 + k) ≠ lowerAscii1 ch) (r : List Item) (c : Nat) (rest : Str)
    (hc : lowerAscii1 c ≠ lowerAscii1 ch) :
    matchItems (itemH :: litColon :: itemM :: litColon :: itemS :: litDot :: itemf :: ⟨.none, [[.lit ch]]⟩ :: r)
      (pad h 2 ++ 58 :: (pad mi 2 ++ 58 :: (pad s 2 ++ 46 :: (pad us 6 ++ c :: rest)))) = none := by
  apply H_field_none h hh
  · apply lit_cont_none 58 (by decide)
    apply M_field_none mi hm
    · apply lit_cont_none 58 (by decide)
      apply S_field_none s hs
      · apply lit_cont_none 46 (by decide)
        exact f_then_lit_fail us hus ch hch r c rest hc
      · exact lit_fail 46 _ (d46 _ (Nat.mod_lt _ (by omega))) _ _
    · exact lit_fail 58 _ (d58 _ (Nat.mod_lt _ (by omega))) _ _
  · exact lit_fail 58 _ (d58 _ (Nat.mod_lt _ (by omega))) _ _

/-- a sign character -/
def IsSign (c : Nat) : Prop := c = 43 ∨ c = 45

theorem sign_ne (c : Nat) (hc : IsSign c) (ch : Nat) (h : ch = 58 ∨ ch = 46 ∨ ch = 90) :
    lowerAscii1 c ≠ lowerAscii1 ch := by
  rcases hc with rfl | rfl <;> rcases h with rfl | rfl | rfl <;> decide

/-- the grammar's time formats are exactly the six spellings -/
def TimeTablesAll (g : Grammar) : Bool :=
  g.dateFormats.all (fun f => f.take 2 == [37, 89]) &&
  g.timeFormats == [fmtHM, fmtHMS, fmtHMSf, fmtHMZ, fmtHMSZ, fmtHMSfZ] &&
  g.datetimeFormats.all (fun f => f.take 2 == [37, 89])

theorem Y_formats_fail (fs : List Str) (hfs : fs.all (fun f => f.take 2 == [37, 89]) = true) (c1 c2 : Nat) (t : Str) :
    firstSome (strptime (c1 :: c2 :: 58 :: t)) fs = none := by
  apply firstSome_none
  intro f hf
  have h2 := (List.all_eq_true.mp hfs) f hf
  match f, h2 with
  | 37 :: 89 :: f', _ => exact strptime_Y_fails c1 c2 t f'
  | [], h2 => simp at h2
  | [_], h2 => simp at h2
  | a :: b :: f', h2 =>
    simp at h2
    obtain ⟨rfl, rfl⟩ := h2
    exact strptime_Y_fails c1 c2 t f'

/-- **none of the six time formats matches a time followed by a sign and more text** -/
theorem time_formats_fail_signed (h mi s us : Nat) (hv : ValidTime h mi s us) (sg : Nat) (hsg : IsSign sg)
    (z : Str) :
    firstSome (strptime (encodeTimeBase h mi s us ++ sg :: z))
      [fmtHM, fmtHMS, fmtHMSf, fmtHMZ, fmtHMSZ, fmtHMSfZ] = none := by
  obtain ⟨hh, hm, hs, hus⟩ := hv
  have n58 := sign_ne sg hsg 58 (Or.inl rfl)
  have n46 := sign_ne sg hsg 46 (Or.inr (Or.inl rfl))
  have n90 := sign_ne sg hsg 90 (Or.inr (Or.inr rfl))
  rw [encodeTimeBase_eq]
  unfold timeTail
  by_cases h1 : us = 0
  · by_cases h2 : s = 0
    · subst h1 h2
      simp only [bne_self_eq_false, Bool.false_eq_true, if_false, List.append_nil, List.append_assoc,
        List.cons_append]
      rw [firstSome_cons_none _ _ _ (strptime_HM_more h mi hh hm sg z)]
      rw [firstSome_cons_none _ _ _ (strptime_fail_of_match_none _ _ _ compile_HMS
        (HM_then_lit_fail h mi hh hm 58 d58 [itemS] sg z n58))]
      rw [firstSome_cons_none _ _ _ (strptime_fail_of_match_none _ _ _ compile_HMSf
        (HM_then_lit_fail h mi hh hm 58 d58 [itemS, litDot, itemf] sg z n58))]
      rw [firstSome_cons_none _ _ _ (strptime_fail_of_match_none _ _ _ compile_HMZ
        (HM_then_lit_fail h mi hh hm 90 dZ [] sg z n90))]
      rw [firstSome_cons_none _ _ _ (strptime_fail_of_match_none _ _ _ compile_HMSZ
        (HM_then_lit_fail h mi hh hm 58 d58 [itemS, litZ] sg z n58))]
      rw [firstSome_cons_none _ _ _ (strptime_fail_of_match_none _ _ _ compile_HMSfZ
        (HM_then_lit_fail h mi hh hm 58 d58 [itemS, litDot, itemf, litZ] sg z n58))]
      rfl
    · subst h1
      have hsne : (s != 0) = true := by simp [h2]
      simp only [bne_self_eq_false, Bool.false_eq_true, if_false, hsne, if_true, List.append_assoc,
        List.cons_append]
      rw [firstSome_cons_none _ _ _ (strptime_HM_more h mi hh hm 58 (pad s 2 ++ sg :: z))]
      rw [firstSome_cons_none _ _ _ (strptime_HMS_more h mi s hh hm hs sg z)]
      rw [firstSome_cons_none _ _ _ (strptime_fail_of_match_none _ _ _ compile_HMSf
        (HMS_then_lit_fail h mi s hh hm hs 46 d46 [itemf] sg z n46))]
      rw [firstSome_cons_none _ _ _ (strptime_fail_of_match_none _ _ _ compile_HMZ
        (HM_then_lit_fail h mi hh hm 90 dZ [] 58 (pad s 2 ++ sg :: z) (by decide)))]
      rw [firstSome_cons_none _ _ _ (strptime_fail_of_match_none _ _ _ compile_HMSZ
        (HMS_then_lit_fail h mi s hh hm hs 90 dZ [] sg z n90))]
      rw [firstSome_cons_none _ _ _ (strptime_fail_of_match_none _ _ _ compile_HMSfZ
        (HMS_then_lit_fail h mi s hh hm hs 46 d46 [itemf, litZ] sg z n46))]
      rfl
  · have hune : (us != 0) = true := by simp [h1]
    simp only [hune, if_true, List.append_assoc, List.cons_append]
    rw [firstSome_cons_none _ _ _ (strptime_HM_more h mi hh hm 58 (pad s 2 ++ 46 :: (pad us 6 ++ sg :: z)))]
    rw [firstSome_cons_none _ _ _ (strptime_HMS_more h mi s hh hm hs 46 (pad us 6 ++ sg :: z))]
    rw [firstSome_cons_none _ _ _ (strptime_HMSf_more h mi s us hh hm hs hus sg z)]
    rw [firstSome_cons_none _ _ _ (strptime_fail_of_match_none _ _ _ compile_HMZ
      (HM_then_lit_fail h mi hh hm 90 dZ [] 58 (pad s 2 ++ 46 :: (pad us 6 ++ sg :: z)) (by decide)))]
    rw [firstSome_cons_none _ _ _ (strptime_fail_of_match_none _ _ _ compile_HMSZ
      (HMS_then_lit_fail h mi s hh hm hs 90 dZ [] 46 (pad us 6 ++ sg :: z) (by decide)))]
    rw [firstSome_cons_none _ _ _ (strptime_fail_of_match_none _ _ _ compile_HMSfZ
      (HMSf_then_lit_fail h mi s us hh hm hs hus 90 dZ [] sg z n90))]
    rfl


/-- the zone designator the ODL encoder writes after the sign -/
def zoneText (hh mm : Nat) : Str := pad hh 2 ++ (if mm == 0 then [] else [58] ++ pad mm 2)

theorem dd_digit (lo hi k : Nat) : dd lo hi (48 + k) = (decide (lo ≤ k) && decide (k ≤ hi)) := by
  simp [dd]

theorem zoneTail_zoneText (hh mm : Nat) (hh12 : hh ≤ 12) (hmm : mm < 60) :
    zoneTail (zoneText hh mm) = some (hh, mm) := by
  unfold zoneText
  rw [pad2 hh (by omega)]
  have hm2 := pad2 mm (by omega)
  have hnat : natOf [48 + mm / 10, 48 + mm % 10] = some mm := by rw [← hm2]; exact natOf_pad mm 2
  have hdm : Py.isDecimal (48 + mm % 10) = true := isDecimal_digit _ (Nat.mod_lt _ (by omega))
  have hd5 : dd 0 5 (48 + mm / 10) = true := by rw [dd_digit]; simp; omega
  by_cases h10 : hh < 10
  · have e1 : hh / 10 = 0 := by omega
    have e2 : hh % 10 = hh := by omega
    rw [e1, e2]
    have hd9 : dd 0 9 (48 + hh) = true := by rw [dd_digit]; simp; omega
    by_cases hz : mm = 0
    · subst hz
      simp [zoneTail, hd9]
    · have : (mm == 0) = false := by simp [hz]
      simp [zoneTail, hd9, this, hm2, hd5, hdm, hnat]
  · have e1 : hh / 10 = 1 := by omega
    have e2 : hh % 10 ≤ 2 := by omega
    rw [e1]
    have hd9 : dd 0 9 (48 + 1) = true := by decide
    have hd2 : dd 0 2 (48 + hh % 10) = true := by rw [dd_digit]; simp; omega
    by_cases hz : mm = 0
    · subst hz
      simp [zoneTail, hd2]; omega
    · have : (mm == 0) = false := by simp [hz]
      simp [zoneTail, hd2, this, hm2, hd5, hdm, hnat]; omega


/-- the text of a time holds no sign and no line feed -/
def NoSign (t : Str) : Prop := ∀ c ∈ t, c ≠ 43 ∧ c ≠ 45 ∧ c ≠ 10

/-- scanning for the zone: nothing before the first sign can be taken for one -/
theorem zoneSplitGo_first (t : Str) (ht : NoSign t) (sg : Nat) (hsg : sg = 43 ∨ sg = 45) (z : Str) (hh mm : Nat)
    (hz : zoneTail z = some (hh, mm)) :
    ∀ pre : Str, (pre ++ t ≠ []) → zoneSplitGo pre (t ++ sg :: z) = some (pre.reverse ++ t, sg == 45, hh, mm) := by
  induction t with
  | nil =>
    intro pre hne
    have hp : pre.isEmpty = false := by
      cases pre with
      | nil => simp at hne
      | cons a b => rfl
    have hs : (sg == 43 || sg == 45) = true := by rcases hsg with rfl | rfl <;> decide
    simp [zoneSplitGo, hp, hs, hz]
  | cons c r ih =>
    intro pre _
    have hc := ht c (by simp)
    have hr : NoSign r := fun x hx => ht x (by simp [hx])
    have h1 : (c == 43 || c == 45) = false := by simp [hc.1, hc.2.1]
    have h2 : (c == 10) = false := by simp [hc.2.2]
    have := ih hr (c :: pre) (by simp)
    simp only [List.cons_append, zoneSplitGo, h1, Bool.and_false, Bool.false_eq_true, if_false, h2]
    rw [this]
    simp

theorem zoneSplit_first (t : Str) (ht : NoSign t) (hne : t ≠ []) (sg : Nat) (hsg : sg = 43 ∨ sg = 45) (z : Str)
    (hh mm : Nat) (hz : zoneTail z = some (hh, mm)) :
    zoneSplit (t ++ sg :: z) = some (t, sg == 45, hh, mm) := by
  unfold zoneSplit
  rw [zoneSplitGo_first t ht sg hsg z hh mm hz [] (by simpa using hne)]
  simp

theorem noSign_digits (p : Str) (hd : AllDigits p) : NoSign p := by
  intro c hc
  have := hd c hc
  simp only [isDigit, Bool.and_eq_true, decide_eq_true_eq] at this
  omega

theorem noSign_append (a b : Str) (ha : NoSign a) (hb : NoSign b) : NoSign (a ++ b) := by
  intro c hc
  rcases List.mem_append.mp hc with h | h
  · exact ha c h
  · exact hb c h

theorem noSign_cons (c : Nat) (b : Str) (hc : c ≠ 43 ∧ c ≠ 45 ∧ c ≠ 10) (hb : NoSign b) : NoSign (c :: b) := by
  intro x hx
  rcases List.mem_cons.mp hx with rfl | h
  · exact hc
  · exact hb x h

theorem noSign_nil : NoSign [] := by intro c hc; cases hc

theorem encodeTimeBase_noSign (h mi s us : Nat) : NoSign (encodeTimeBase h mi s us) := by
  rw [encodeTimeBase_eq]
  unfold timeTail
  have p := fun n w => noSign_digits (pad n w) (allDigits_pad n w)
  refine noSign_append _ _ (p h 2) (noSign_cons 58 _ (by decide) (noSign_append _ _ (p mi 2) ?_))
  split
  · exact noSign_cons 58 _ (by decide) (noSign_append _ _ (p s 2) (noSign_cons 46 _ (by decide) (p us 6)))
  · split
    · exact noSign_cons 58 _ (by decide) (p s 2)
    · exact noSign_nil


/-- what the zone theorems need of a grammar's tables: formats as listed, no leap-second patterns (ODL, PDS3) -/
def OdlTablesOK (g : Grammar) : Bool :=
  TimeTablesAll g && g.leapYmdPattern.isNone && g.leapYjPattern.isNone

theorem odlTables_time (g : Grammar) (hg : OdlTablesOK g = true) : TimeTablesOK g = true := by
  simp only [OdlTablesOK, TimeTablesAll, Bool.and_eq_true, beq_iff_eq] at hg
  simp only [TimeTablesOK, Bool.and_eq_true, beq_iff_eq]
  refine ⟨hg.1.1.1.1, ?_⟩
  rw [hg.1.1.1.2]
  rfl

/-- a time followed by a sign is not a date, a time or a date-time by itself -/
theorem decodeDatetimeBase_signed_none (g : Grammar) (hg : OdlTablesOK g = true) (h mi s us : Nat)
    (hv : ValidTime h mi s us) (sg : Nat) (hsg : IsSign sg) (z : Str) :
    decodeDatetimeBase g (encodeTimeBase h mi s us ++ sg :: z) = none := by
  have hv' := hv
  obtain ⟨hh, hm, hs, hus⟩ := hv
  simp only [OdlTablesOK, TimeTablesAll, Bool.and_eq_true, beq_iff_eq, Option.isNone_iff_eq_none] at hg
  obtain ⟨⟨⟨⟨hd, ht⟩, hdt⟩, hl1⟩, hl2⟩ := hg
  have hshape : ∃ t, encodeTimeBase h mi s us ++ sg :: z = (48 + h / 10) :: (48 + h % 10) :: 58 :: t := by
    rw [encodeTimeBase_eq, pad2_cons h (by omega)]
    exact ⟨_, rfl⟩
  obtain ⟨t, hshape⟩ := hshape
  unfold decodeDatetimeBase
  have e1 : firstSome (strptime (encodeTimeBase h mi s us ++ sg :: z)) g.dateFormats = none := by
    rw [hshape]; exact Y_formats_fail _ hd _ _ _
  have e2 : firstSome (strptime (encodeTimeBase h mi s us ++ sg :: z)) g.timeFormats = none := by
    rw [ht]; exact time_formats_fail_signed h mi s us hv' sg hsg z
  have e3 : firstSome (strptime (encodeTimeBase h mi s us ++ sg :: z)) g.datetimeFormats = none := by
    rw [hshape]; exact Y_formats_fail _ hdt _ _ _
  rw [e1]
  simp only [e2, e3]
  simp [isLeapSeconds, hl1, hl2]

theorem encodeTimeBase_ne_nil (h mi s us : Nat) : encodeTimeBase h mi s us ≠ [] := by
  rw [encodeTimeBase_eq]
  have := pad_ne_nil h 2
  cases hp : pad h 2 with
  | nil => exact absurd hp this
  | cons a b => simp

/-- **`ODLDecoder.decode_datetime` reads `HH:MM[:SS[.ffffff]]±HH[:MM]`** as that time at that offset -/
theorem decodeDatetimeOdl_zoned (g : Grammar) (hg : OdlTablesOK g = true) (h mi s us : Nat)
    (hv : ValidTime h mi s us) (neg : Bool) (hh mm : Nat) (hh12 : hh ≤ 12) (hmm : mm < 60) :
    decodeDatetimeOdl g (encodeTimeBase h mi s us ++ (if neg then 45 else 43) :: zoneText hh mm) =
      .ok (.time h mi s us (some (((hh : Int) * 3600 + (mm : Int) * 60) * (if neg then -1 else 1)))) := by
  have hsg : IsSign (if neg then 45 else 43) := by cases neg <;> simp [IsSign]
  unfold decodeDatetimeOdl
  rw [decodeDatetimeBase_signed_none g hg h mi s us hv _ hsg]
  simp only
  rw [zoneSplit_first _ (encodeTimeBase_noSign h mi s us) (encodeTimeBase_ne_nil h mi s us) _
    (by cases neg <;> simp) _ hh mm (zoneTail_zoneText hh mm hh12 hmm)]
  simp only
  rw [decodeDatetimeBase_time g (odlTables_time g hg) h mi s us hv]
  cases neg <;> simp

end Pvl

namespace Pvl
open Py Enc

theorem zoneTail_long (a b c d e f : Nat) (r : Str) : zoneTail (a :: b :: c :: d :: e :: f :: r) = none := by
  unfold zoneTail
  by_cases h48 : a = 48
  · subst h48
    simp
  · by_cases h49 : a = 49
    · subst h49
      simp
    · simp [h48, h49]

end Pvl

namespace Pvl
open Py Enc

theorem zoneTail_len (s : Str) (h : 6 ≤ s.length) : zoneTail s = none := by
  match s, h with
  | a :: b :: c :: d :: e :: f :: r, _ => exact zoneTail_long a b c d e f r
  | [], h => simp at h
  | [_], h => simp at h
  | [_, _], h => simp at h
  | [_, _, _], h => simp at h
  | [_, _, _, _], h => simp at h
  | [_, _, _, _, _], h => simp at h

/-- scanning `t` for a zone whose text is `suf`: no line feed in `t`, and a sign inside `t` is followed by
    text that is not a zone designator -/
def SkipOK : Str → Str → Prop
  | [], _ => True
  | c :: r, suf => c ≠ 10 ∧ ((c = 43 ∨ c = 45) → zoneTail (r ++ suf) = none) ∧ SkipOK r suf

theorem skipOK_of_noSign (t suf : Str) (h : NoSign t) : SkipOK t suf := by
  induction t with
  | nil => trivial
  | cons c r ih =>
    have hc := h c (by simp)
    exact ⟨hc.2.2, fun hs => by rcases hs with e | e <;> simp [e] at hc, ih (fun x hx => h x (by simp [hx]))⟩

theorem skipOK_append (p q suf : Str) (hp : NoSign p) (hq : SkipOK q suf) : SkipOK (p ++ q) suf := by
  induction p with
  | nil => exact hq
  | cons c r ih =>
    have hc := hp c (by simp)
    exact ⟨hc.2.2, fun hs => by rcases hs with e | e <;> simp [e] at hc, ih (fun x hx => hp x (by simp [hx]))⟩

theorem skipOK_dash (q suf : Str) (hl : 6 ≤ (q ++ suf).length) (hq : SkipOK q suf) : SkipOK (45 :: q) suf :=
  ⟨by decide, fun _ => zoneTail_len _ hl, hq⟩

theorem zoneSplitGo_skip (t : Str) (sg : Nat) (hsg : sg = 43 ∨ sg = 45) (z : Str) (hh mm : Nat)
    (hz : zoneTail z = some (hh, mm)) (ht : SkipOK t (sg :: z)) :
    ∀ pre : Str, (pre ++ t ≠ []) → zoneSplitGo pre (t ++ sg :: z) = some (pre.reverse ++ t, sg == 45, hh, mm) := by
  induction t with
  | nil =>
    intro pre hne
    have hp : pre.isEmpty = false := by
      cases pre with
      | nil => simp at hne
      | cons a b => rfl
    have hs : (sg == 43 || sg == 45) = true := by rcases hsg with rfl | rfl <;> decide
    simp [zoneSplitGo, hp, hs, hz]
  | cons c r ih =>
    intro pre _
    obtain ⟨h10, hsign, hr⟩ := ht
    have h2 : (c == 10) = false := by simp [h10]
    have := ih hr (c :: pre) (by simp)
    have hhere : (if (!pre.isEmpty && (c == 43 || c == 45)) = true then
        Option.map (fun x => match x with | (h, m) => (pre.reverse, c == 45, h, m)) (zoneTail (r ++ sg :: z))
        else none) = none := by
      by_cases hcs : c = 43 ∨ c = 45
      · rw [hsign hcs]; simp
      · have : (c == 43 || c == 45) = false := by
          simp only [not_or] at hcs; simp [hcs.1, hcs.2]
        simp [this]
    simp only [List.cons_append, zoneSplitGo, hhere, h2, Bool.false_eq_true, if_false]
    rw [this]
    simp

theorem zoneSplit_skip (t : Str) (hne : t ≠ []) (sg : Nat) (hsg : sg = 43 ∨ sg = 45) (z : Str)
    (hh mm : Nat) (hz : zoneTail z = some (hh, mm)) (ht : SkipOK t (sg :: z)) :
    zoneSplit (t ++ sg :: z) = some (t, sg == 45, hh, mm) := by
  unfold zoneSplit
  rw [zoneSplitGo_skip t sg hsg z hh mm hz ht [] (by simpa using hne)]
  simp

end Pvl

namespace Pvl
open Py Enc

/-! ### date-times with a zone offset -/

theorem itemj_len : ∀ a ∈ itemj.alts, a.length = 1 ∨ a.length = 2 ∨ a.length = 3 := by decide

/-- a day-of-year format (`%Y-%jT…`) cannot match a calendar date-time text -/
theorem strptime_doy_fails (y m d : Nat) (hy : y < 10000) (hm : m < 100) (hd : d < 100) (rest tf : Str) :
    strptime (dateT y m d rest) (37 :: 89 :: 45 :: 37 :: 106 :: 84 :: tf) = none := by
  unfold strptime
  cases hc : compileFmt tf with
  | none => simp [compileFmt, hc]
  | some items =>
    have hcomp : compileFmt (37 :: 89 :: 45 :: 37 :: 106 :: 84 :: tf) =
        some (itemY :: litDash :: itemj :: litT :: items) := by
      simp [compileFmt, hc, litDash, litT]
    rw [hcomp]
    have hmatch : matchItems (itemY :: litDash :: itemj :: litT :: items) (dateT y m d rest) = none := by
      unfold dateT
      apply Y_field_none y hy
      apply lit_cont_none 45 (by decide)
      rw [pad2_digit2 m hm, pad2_digit2 d hd]
      rw [matchItems_cons]
      apply matchAlts_none_of_drops
      intro a ha
      rcases itemj_len a ha with e | e | e <;> rw [e]
      · exact lit_fail 84 _ (d84 _ (Nat.mod_lt _ (by omega))) _ _
      · exact lit_fail 84 45 (by decide) _ _
      · exact lit_fail 84 _ (d84 _ (by omega)) _ _
    simp [hmatch]

/-- the six calendar date-time formats, in the tables' order, all fail on a date-time followed by a sign -/
theorem dt_formats_fail_signed (y m d h mi s us : Nat) (hd : ValidDate y m d) (hv : ValidTime h mi s us)
    (sg : Nat) (hsg : IsSign sg) (z : Str) :
    firstSome (strptime (dateT y m d (encodeTimeBase h mi s us ++ sg :: z)))
      [fmtDT fmtHM, fmtDT fmtHMZ, fmtDT fmtHMS, fmtDT fmtHMSZ, fmtDT fmtHMSf, fmtDT fmtHMSfZ] = none := by
  obtain ⟨hh, hm, hs, hus⟩ := hv
  obtain ⟨hy1, hy2, hm1, hm2, hd1, hd2⟩ := hd
  have hd3 := daysInMonth_le y m
  have n58 := sign_ne sg hsg 58 (Or.inl rfl)
  have n46 := sign_ne sg hsg 46 (Or.inr (Or.inl rfl))
  have n90 := sign_ne sg hsg 90 (Or.inr (Or.inr rfl))
  have pre := fun r rest caps fin hk => date_prefix y m d (by omega) hm1 hm2 hd1 (by omega) r rest fin caps hk
  have pren := fun r rest hk => date_prefix_none y m d (by omega) hm2 (by omega) r rest hk
  rw [encodeTimeBase_eq]
  unfold timeTail
  by_cases h1 : us = 0
  · by_cases h2 : s = 0
    · subst h1 h2
      simp only [bne_self_eq_false, Bool.false_eq_true, if_false, List.append_nil, List.append_assoc,
        List.cons_append]
      rw [firstSome_cons_none _ _ _ (strptime_leaves _ _ _ compile_DT_HM _ sg z
        (pre _ _ _ _ (match_HM h mi hh hm (sg :: z))))]
      rw [firstSome_cons_none _ _ _ (strptime_fail_of_match_none _ _ _ compile_DT_HMZ
        (pren _ _ (HM_then_lit_fail h mi hh hm 90 dZ [] sg z n90)))]
      rw [firstSome_cons_none _ _ _ (strptime_fail_of_match_none _ _ _ compile_DT_HMS
        (pren _ _ (HM_then_lit_fail h mi hh hm 58 d58 [itemS] sg z n58)))]
      rw [firstSome_cons_none _ _ _ (strptime_fail_of_match_none _ _ _ compile_DT_HMSZ
        (pren _ _ (HM_then_lit_fail h mi hh hm 58 d58 [itemS, litZ] sg z n58)))]
      rw [firstSome_cons_none _ _ _ (strptime_fail_of_match_none _ _ _ compile_DT_HMSf
        (pren _ _ (HM_then_lit_fail h mi hh hm 58 d58 [itemS, litDot, itemf] sg z n58)))]
      rw [firstSome_cons_none _ _ _ (strptime_fail_of_match_none _ _ _ compile_DT_HMSfZ
        (pren _ _ (HM_then_lit_fail h mi hh hm 58 d58 [itemS, litDot, itemf, litZ] sg z n58)))]
      rfl
    · subst h1
      have hsne : (s != 0) = true := by simp [h2]
      simp only [bne_self_eq_false, Bool.false_eq_true, if_false, hsne, if_true, List.append_assoc,
        List.cons_append]
      rw [firstSome_cons_none _ _ _ (strptime_leaves _ _ _ compile_DT_HM _ 58 (pad s 2 ++ sg :: z)
        (pre _ _ _ _ (match_HM h mi hh hm (58 :: (pad s 2 ++ sg :: z)))))]
      rw [firstSome_cons_none _ _ _ (strptime_fail_of_match_none _ _ _ compile_DT_HMZ
        (pren _ _ (HM_then_lit_fail h mi hh hm 90 dZ [] 58 (pad s 2 ++ sg :: z) (by decide))))]
      rw [firstSome_cons_none _ _ _ (strptime_leaves _ _ _ compile_DT_HMS _ sg z
        (pre _ _ _ _ (match_HMS h mi s hh hm hs (sg :: z))))]
      rw [firstSome_cons_none _ _ _ (strptime_fail_of_match_none _ _ _ compile_DT_HMSZ
        (pren _ _ (HMS_then_lit_fail h mi s hh hm hs 90 dZ [] sg z n90)))]
      rw [firstSome_cons_none _ _ _ (strptime_fail_of_match_none _ _ _ compile_DT_HMSf
        (pren _ _ (HMS_then_lit_fail h mi s hh hm hs 46 d46 [itemf] sg z n46)))]
      rw [firstSome_cons_none _ _ _ (strptime_fail_of_match_none _ _ _ compile_DT_HMSfZ
        (pren _ _ (HMS_then_lit_fail h mi s hh hm hs 46 d46 [itemf, litZ] sg z n46)))]
      rfl
  · have hune : (us != 0) = true := by simp [h1]
    simp only [hune, if_true, List.append_assoc, List.cons_append]
    rw [firstSome_cons_none _ _ _ (strptime_leaves _ _ _ compile_DT_HM _ 58 (pad s 2 ++ 46 :: (pad us 6 ++ sg :: z))
      (pre _ _ _ _ (match_HM h mi hh hm (58 :: (pad s 2 ++ 46 :: (pad us 6 ++ sg :: z))))))]
    rw [firstSome_cons_none _ _ _ (strptime_fail_of_match_none _ _ _ compile_DT_HMZ
      (pren _ _ (HM_then_lit_fail h mi hh hm 90 dZ [] 58 (pad s 2 ++ 46 :: (pad us 6 ++ sg :: z)) (by decide))))]
    rw [firstSome_cons_none _ _ _ (strptime_leaves _ _ _ compile_DT_HMS _ 46 (pad us 6 ++ sg :: z)
      (pre _ _ _ _ (match_HMS h mi s hh hm hs (46 :: (pad us 6 ++ sg :: z)))))]
    rw [firstSome_cons_none _ _ _ (strptime_fail_of_match_none _ _ _ compile_DT_HMSZ
      (pren _ _ (HMS_then_lit_fail h mi s hh hm hs 90 dZ [] 46 (pad us 6 ++ sg :: z) (by decide))))]
    rw [firstSome_cons_none _ _ _ (strptime_leaves _ _ _ compile_DT_HMSf _ sg z
      (pre _ _ _ _ (match_HMSf_rest h mi s us hh hm hs hus (sg :: z))))]
    rw [firstSome_cons_none _ _ _ (strptime_fail_of_match_none _ _ _ compile_DT_HMSfZ
      (pren _ _ (HMSf_then_lit_fail h mi s us hh hm hs hus 90 dZ [] sg z n90)))]
    rfl

end Pvl

namespace Pvl
open Py Enc

/-- what the zoned date-time theorems need of a grammar's tables -/
def OdlDtTablesOK (g : Grammar) : Bool :=
  OdlTablesOK g && DtTablesOK g &&
  (g.datetimeFormats.drop 6).all (fun f => f.take 6 == [37, 89, 45, 37, 106, 84])

theorem firstSome_append {α β} (f : α → Option β) (a b : List α) (ha : firstSome f a = none) :
    firstSome f (a ++ b) = firstSome f b := by
  induction a with
  | nil => rfl
  | cons x r ih =>
    simp only [firstSome] at ha
    cases hx : f x with
    | none =>
      rw [hx] at ha
      simp only [List.cons_append, firstSome, hx]
      exact ih ha
    | some v => rw [hx] at ha; cases ha

/-- a calendar date-time followed by a sign is not a date, a time or a date-time by itself -/
theorem decodeDatetimeBase_dt_signed_none (g : Grammar) (hg : OdlDtTablesOK g = true) (y m d h mi s us : Nat)
    (hd : ValidDate y m d) (hv : ValidTime h mi s us) (sg : Nat) (hsg : IsSign sg) (z : Str) :
    decodeDatetimeBase g (dateT y m d (encodeTimeBase h mi s us ++ sg :: z)) = none := by
  have hd' := hd
  obtain ⟨hy1, hy2, hm1, hm2, hd1, hd2⟩ := hd'
  have hd3 := daysInMonth_le y m
  simp only [OdlDtTablesOK, Bool.and_eq_true] at hg
  obtain ⟨⟨hodl, hdt⟩, hdoy⟩ := hg
  simp only [OdlTablesOK, Bool.and_eq_true, Option.isNone_iff_eq_none] at hodl
  obtain ⟨⟨_, hl1⟩, hl2⟩ := hodl
  simp only [DtTablesOK, Bool.and_eq_true, beq_iff_eq] at hdt
  obtain ⟨⟨hgd, hgt⟩, hgdt⟩ := hdt
  have hsplit : g.datetimeFormats = g.datetimeFormats.take 6 ++ g.datetimeFormats.drop 6 :=
    (List.take_append_drop 6 _).symm
  have hlen : 12 ≤ (dateT y m d (encodeTimeBase h mi s us ++ sg :: z)).length := by
    rw [dateT_length y m d (by omega) (by omega) (by omega)]; simp; omega
  unfold decodeDatetimeBase
  rw [date_formats_fail g hgd _ hlen]
  have htimes : firstSome (strptime (dateT y m d (encodeTimeBase h mi s us ++ sg :: z))) g.timeFormats = none := by
    rw [dateT_head3 y m d (by omega)]
    exact time_formats_fail g hgt _ _ _ (by omega) (Nat.mod_lt _ (by omega)) (Nat.mod_lt _ (by omega)) _
  have hdts : firstSome (strptime (dateT y m d (encodeTimeBase h mi s us ++ sg :: z))) g.datetimeFormats = none := by
    rw [hsplit, hgdt, firstSome_append _ _ _ (dt_formats_fail_signed y m d h mi s us hd hv sg hsg z)]
    apply firstSome_none
    intro f hf
    have h6 := (List.all_eq_true.mp hdoy) f hf
    match f, h6 with
    | 37 :: 89 :: 45 :: 37 :: 106 :: 84 :: tf, _ =>
      exact strptime_doy_fails y m d (by omega) (by omega) (by omega) _ tf
    | [], h6 => simp at h6
    | [_], h6 => simp at h6
    | [_, _], h6 => simp at h6
    | [_, _, _], h6 => simp at h6
    | [_, _, _, _], h6 => simp at h6
    | [_, _, _, _, _], h6 => simp at h6
    | a :: b :: c :: d' :: e :: f' :: tf, h6 =>
      simp at h6
      obtain ⟨rfl, rfl, rfl, rfl, rfl, rfl⟩ := h6
      exact strptime_doy_fails y m d (by omega) (by omega) (by omega) _ tf
  simp only [htimes, hdts]
  simp [isLeapSeconds, hl1, hl2]

theorem dateT_eq_append (y m d : Nat) (a b : Str) : dateT y m d (a ++ b) = dateT y m d a ++ b := by
  simp [dateT]

theorem dateT_skipOK (y m d : Nat) (_hy : y < 10000) (hm : m < 100) (hd : d < 100) (t suf : Str) (ht : NoSign t)
    (hl : 3 ≤ t.length) : SkipOK (dateT y m d t) suf := by
  unfold dateT
  have p := fun n w => noSign_digits (pad n w) (allDigits_pad n w)
  have l2m := length_pad m 2 (by omega) (by omega)
  have l2d := length_pad d 2 (by omega) (by omega)
  refine skipOK_append _ _ _ (p y 4) (skipOK_dash _ _ ?_ (skipOK_append _ _ _ (p m 2) (skipOK_dash _ _ ?_
    (skipOK_append _ _ _ (p d 2) (skipOK_of_noSign _ _ (noSign_cons 84 _ (by decide) ht))))))
  · simp [l2m, l2d]; omega
  · simp [l2d]; omega

theorem dateT_ne_nil (y m d : Nat) (t : Str) : dateT y m d t ≠ [] := by
  unfold dateT
  have := pad_ne_nil y 4
  cases hp : pad y 4 with
  | nil => exact absurd hp this
  | cons a b => simp

theorem encodeTimeBase_len (h mi s us : Nat) : 3 ≤ (encodeTimeBase h mi s us).length := by
  rw [encodeTimeBase_eq]
  have := length_pad h 2
  simp
  have hl : (pad h 2).length ≠ 0 := by
    intro h0; exact pad_ne_nil h 2 (List.length_eq_zero_iff.mp h0)
  have hl2 : (pad mi 2).length ≠ 0 := by
    intro h0; exact pad_ne_nil mi 2 (List.length_eq_zero_iff.mp h0)
  omega

/-- **`ODLDecoder.decode_datetime` reads `YYYY-MM-DDTHH:MM[:SS[.ffffff]]±HH[:MM]`** as that date and time at
    that offset -/
theorem decodeDatetimeOdl_dt_zoned (g : Grammar) (hg : OdlDtTablesOK g = true) (y m d h mi s us : Nat)
    (hd : ValidDate y m d) (hv : ValidTime h mi s us) (neg : Bool) (hh mm : Nat) (hh12 : hh ≤ 12) (hmm : mm < 60) :
    decodeDatetimeOdl g (dateT y m d (encodeTimeBase h mi s us ++ (if neg then 45 else 43) :: zoneText hh mm)) =
      .ok (.datetime y m d h mi s us (some (((hh : Int) * 3600 + (mm : Int) * 60) * (if neg then -1 else 1)))) := by
  have hsg : IsSign (if neg then 45 else 43) := by cases neg <;> simp [IsSign]
  have hg' := hg
  simp only [OdlDtTablesOK, Bool.and_eq_true] at hg'
  obtain ⟨hy1, hy2, hm1, hm2, hd1, hd2⟩ := hd
  have hd3 := daysInMonth_le y m
  unfold decodeDatetimeOdl
  rw [decodeDatetimeBase_dt_signed_none g hg y m d h mi s us ⟨hy1, hy2, hm1, hm2, hd1, hd2⟩ hv _ hsg]
  simp only
  rw [dateT_eq_append]
  rw [zoneSplit_skip _ (dateT_ne_nil y m d _) _ (by cases neg <;> simp) _ hh mm (zoneTail_zoneText hh mm hh12 hmm)
    (dateT_skipOK y m d (by omega) (by omega) (by omega) _ _ (encodeTimeBase_noSign h mi s us)
      (encodeTimeBase_len h mi s us))]
  simp only
  rw [decodeDatetimeBase_datetime g hg'.1.2 y m d h mi s us ⟨hy1, hy2, hm1, hm2, hd1, hd2⟩ hv]
  cases neg <;> simp

end Pvl
