import PvlModel.Lemmas.ParserSpecs

/-! Specifications of the statement-level productions (continues `ParserSpecs`). -/
namespace Pvl.P
open Std.Do

set_option mvcgen.warning false

/-- the last token handed out by the generator was an END statement -/
def EndSeen (c : PCfg) (s : PSt) : Prop :=
  ∃ t, s.gen.last = some t ∧ Tok.isEndStatement c.g t.text = true

/-- how a parse may end with a module: the lexer reached the end of the text normally, or the END
    statement was consumed -/
def Finished (c : PCfg) (s : PSt) : Prop := (s.gen.dead = true ∧ c.tail = .eof) ∨ EndSeen c s

/-- what the module post-hook leaves behind, by outcome: "ignore me" (`Exception`) comes with the
    offending token pushed back; a verdict comes with a consistent generator; anything else is a hard
    error that the callers re-raise -/
def HookPost (c : PCfg) (r : Items × Except PErr Bool) (s : PSt) : Prop :=
  (r.2 = .error .exc ∧ Pend s) ∨ (r.2 = .ok true ∧ Inv c s) ∨
  (r.2 = .ok false ∧ s.gen.dead = true ∧ s.gen.pushed = none ∧ c.tail = .eof) ∨
  (∃ p, r.2 = .error (.lexer p)) ∨ (r.2 = .error (.parse none) ∧ c.tail = .eof) ∨ r.2 = .error .fuel

theorem isLexer_iff (e : PErr) : e.isLexer = true ↔ ∃ p, e = .lexer p := by
  cases e <;> simp [PErr.isLexer]

theorem hard0_cases (e : PErr) (h : Hard0 c e) : (∃ p, e = .lexer p) ∨ e = .parse none ∨ e = .fuel := by
  rcases h with h | h | h
  · exact Or.inl ((isLexer_iff e).mp h)
  · exact Or.inr (Or.inl h.1)
  · exact Or.inr (Or.inr h)

macro "vc_close3" : tactic => `(tactic|
  all_goals (first
    | assumption
    | (intros; simp_all [HookPost, EndSeen, Finished, Hard, Hard0, Inv, Got, GotT, Pend, Rdy, Live, PErr.isLexer, PErr.isValueError]; done)
    | (simp_all (config := {zetaDelta := true}) [HookPost, EndSeen, Finished, Hard, Hard0, Inv, Got, GotT, Pend, Rdy, Live, PErr.isLexer, PErr.isValueError]; done)
    | grind [HookPost, EndSeen, Finished, Hard, Hard0, Inv, Got, GotT, Pend, Rdy, Live, PErr.isLexer, PErr.isValueError]
    | grind [HookPost, EndSeen, Finished, Hard, Hard0, Inv, Got, GotT, Pend, Rdy, Live, isLexer_iff, PErr.isValueError]
    | grind (splits := 40) [HookPost, EndSeen, Finished, Hard, Hard0, Inv, Got, GotT, Pend, Rdy, Live, PErr.isLexer, PErr.isValueError]))


/-- in any consistent state `tokens.throw(...)` raises a LexerError, or the plain ValueError with the
    state untouched (a finished generator) -/
theorem throwIn_Inv_spec {α} (c : PCfg) :
    ⦃fun s => ⌜Inv c s⌝⦄ (throwIn : PM α)
    ⦃post⟨fun _ _ => ⌜False⌝, fun e s => ⌜e.isLexer = true ∨ (e = .value ∧ Inv c s)⌝⟩⦄ := by
  mvcgen [throwIn]
  vc_close3

/-- `PVLParser.parse_assignment_statement`: soft failure only before the name is consumed (or at the
    end of the tokens); a ParseError that carries the name token means "ran out of tokens after `=`". -/
theorem assignmentBase_spec (c : PCfg) (fuel : Nat) :
    ⦃fun s => ⌜Inv c s⌝⦄ (assignmentBase c fuel : PM (Str × Val))
    ⦃post⟨fun _ s => ⌜Inv c s⌝,
          fun e s => ⌜Hard0 c e ∨ ((∃ t, e = .parse (some t)) ∧ Inv c s ∧ c.tail = .eof) ∨ (e = .value ∧ Inv c s)⌝⟩⦄ := by
  unfold assignmentBase
  mvcgen [softCatch, next_spec, send_spec, aroundEquals_spec, throwIn_Live_spec, value_spec, stmtDelim_spec]
  vc_close3

/-- `parse_assignment_statement` including OmniParser's override (an empty value at the end of the
    tokens) -/
theorem assignment_spec (c : PCfg) (fuel : Nat) :
    ⦃fun s => ⌜Inv c s⌝⦄ (assignment c fuel : PM (Str × Val))
    ⦃post⟨fun _ s => ⌜Inv c s⌝, fun e s => ⌜Hard c e ∨ (e = .value ∧ Inv c s)⌝⟩⦄ := by
  unfold assignment
  mvcgen [assignmentBase_spec, emptyValue_Inv_spec]
  vc_close3

/-- `parse_end_statement`: soft failure = some other token was found and pushed back; success = END was
    consumed or the tokens ran out -/
theorem endStatement_spec (c : PCfg) :
    ⦃fun s => ⌜Inv c s⌝⦄ (endStatement c : PM Unit)
    ⦃post⟨fun _ s => ⌜Inv c s ∧ Finished c s⌝, fun e s => ⌜e.isLexer = true ∨ (e = .value ∧ Pend s)⌝⟩⦄ := by
  unfold endStatement
  mvcgen [next_spec, send_spec]
  vc_close3

/-- `parse_begin_aggregation_statement` -/
theorem beginAgg_spec (c : PCfg) (fuel : Nat) :
    ⦃fun s => ⌜Inv c s⌝⦄ (beginAgg c fuel : PM (Str × Str))
    ⦃post⟨fun _ s => ⌜Inv c s⌝, fun e s => ⌜Hard0 c e ∨ (e = .value ∧ Inv c s)⌝⟩⦄ := by
  unfold beginAgg
  mvcgen [softCatch, next_spec, send_spec, aroundEquals_spec, throwIn_Live_spec, stmtDelim_spec]
  vc_close3

/-- `parse_end_aggregation`: StopIteration may leave it (the caller turns that into a ParseError);
    a soft failure = another token was found and pushed back -/
theorem endAgg_spec (c : PCfg) (b n : Str) (fuel : Nat) :
    ⦃fun s => ⌜Inv c s⌝⦄ (endAgg c b n fuel : PM Unit)
    ⦃post⟨fun _ s => ⌜Inv c s⌝, fun e s => ⌜Hard0 c e ∨ (e = .stop ∧ c.tail = .eof) ∨ (e = .value ∧ Pend s)⌝⟩⦄ := by
  unfold endAgg
  mvcgen [next_spec, send_spec, aroundEquals_spec, throwIn_Live_spec, stmtDelim_spec]
  vc_close3

/-- `_empty_value` and the model's `mark` do not touch the generator -/
theorem emptyValue_gen_spec (c : PCfg) (pos : Int) (g0 : Gen) :
    ⦃fun s => ⌜s.gen = g0⌝⦄ (emptyValue c pos : PM Val) ⦃post⟨fun _ s => ⌜s.gen = g0⌝, fun _ _ => ⌜False⌝⟩⦄ := by
  mvcgen [emptyValue]

theorem mark_gen_spec (site : String) (g0 : Gen) :
    ⦃fun s => ⌜s.gen = g0⌝⦄ (mark site : PM Unit) ⦃post⟨fun _ s => ⌜s.gen = g0⌝, fun _ _ => ⌜False⌝⟩⦄ := by
  mvcgen [mark]

/-- `parse_module_post_hook` (both the base class's and OmniParser's) never raises; see `HookPost` -/
theorem moduleHook_spec (c : PCfg) (m : Items) (fuel : Nat) :
    ⦃fun s => ⌜Pend s⌝⦄ (moduleHook c m fuel : PM (Items × Except PErr Bool))
    ⦃post⟨fun r s => ⌜HookPost c r s⌝, fun _ _ => ⌜False⌝⟩⦄ := by
  unfold moduleHook moduleHook.peek
  mvcgen [next_spec, send_spec, emptyValue_gen_spec, mark_gen_spec,
    wscUntil_spec, value_spec, stmtDelim_spec]
  vc_close3

/-- the two mutually recursive block functions at one fuel level: they fail softly only with a
    consistent generator, everything else they raise is a LexerError / ParseError -/
def AggSpecs (c : PCfg) (fuel : Nat) : Prop :=
  (⦃fun s => ⌜Inv c s⌝⦄ (aggBlock c fuel : PM (Str × Val))
    ⦃post⟨fun _ s => ⌜Inv c s⌝, fun e s => ⌜Hard c e ∨ (e = .value ∧ Inv c s)⌝⟩⦄) ∧
  (∀ b n agg, ⦃fun s => ⌜Inv c s⌝⦄ (aggLoop c b n agg fuel : PM Items)
    ⦃post⟨fun _ s => ⌜Inv c s⌝, fun e s => ⌜Hard c e ∨ (e = .value ∧ Inv c s)⌝⟩⦄)

theorem aggSpecs_zero (c : PCfg) : AggSpecs c 0 := by
  refine ⟨?_, ?_⟩
  · unfold aggBlock; mvcgen; vc_close3
  · intro b n a; unfold aggLoop; mvcgen; vc_close3

set_option maxHeartbeats 4000000 in
theorem aggSpecs_succ (c : PCfg) (k : Nat) (ih : AggSpecs c k) : AggSpecs c (k + 1) := by
  obtain ⟨ihBlock, ihLoop⟩ := ih
  have hT : ∀ {α}, ⦃fun s => ⌜Inv c s⌝⦄ (throwIn : PM α)
      ⦃post⟨fun _ _ => ⌜False⌝, fun e s => ⌜e.isLexer = true ∨ (e = .value ∧ Inv c s)⌝⟩⦄ :=
    fun {α} => throwIn_Inv_spec (α := α) c
  refine ⟨?_, ?_⟩
  · unfold aggBlock
    mvcgen [beginAgg_spec, hT, ihLoop]
    vc_close3
  · intro b n a
    unfold aggLoop
    mvcgen [softCatch, wscUntil_spec, ihBlock, ihLoop, assignment_spec, endAgg_spec, moduleHook_spec,
      hT]
    vc_close3

theorem aggSpecs (c : PCfg) (fuel : Nat) : AggSpecs c fuel := by
  induction fuel with
  | zero => exact aggSpecs_zero c
  | succ n ih => exact aggSpecs_succ c n ih

theorem aggBlock_spec (c : PCfg) (fuel : Nat) :
    ⦃fun s => ⌜Inv c s⌝⦄ (aggBlock c fuel : PM (Str × Val))
    ⦃post⟨fun _ s => ⌜Inv c s⌝, fun e s => ⌜Hard c e ∨ (e = .value ∧ Inv c s)⌝⟩⦄ := (aggSpecs c fuel).1

set_option maxHeartbeats 4000000 in
/-- **`parse_module` raises nothing but LexerError and ParseError** (or the model's fuel marker),
    from every consistent generator state, for every fuel. -/
theorem moduleLoop_spec (c : PCfg) (fuel : Nat) :
    ∀ m, ⦃fun s => ⌜Inv c s⌝⦄ (moduleLoop c m fuel : PM Items)
      ⦃post⟨fun _ s => ⌜Finished c s⌝, fun e _ => ⌜Hard c e⌝⟩⦄ := by
  induction fuel with
  | zero => intro m; unfold moduleLoop; mvcgen; vc_close3
  | succ k ih =>
    intro m
    unfold moduleLoop
    mvcgen [softCatch, wscUntil_spec, aggBlock_spec, assignment_spec, endStatement_spec, moduleHook_spec,
      next_pend_spec, throwIn_Live_spec, ih]
    vc_close3

/-- reading a specification as a plain statement about running the computation -/
theorem triple_elim {α} (x : PM α) (P : PSt → Prop) (Q : α → PSt → Prop) (E : PErr → PSt → Prop)
    (h : ⦃fun s => ⌜P s⌝⦄ x ⦃post⟨fun a s => ⌜Q a s⌝, fun e s => ⌜E e s⌝⟩⦄) (s : PSt) (hp : P s) :
    match x.run.run s with
    | (.ok a, s') => Q a s'
    | (.error e, s') => E e s' := by
  have h1 := h s hp
  simp only [WP.wp, PredTrans.apply_pushExcept, PredTrans.apply_pushArg] at h1
  revert h1
  generalize hx : (x.run.run s) = r
  obtain ⟨r1, s'⟩ := r
  intro h1
  simp [Id.run, PredTrans.apply, pure, PredTrans.pure] at h1
  cases r1 <;> simpa using h1

end Pvl.P
