import PvlModel.Lemmas.OdlZone
import PvlModel.Gen.Tables
namespace Pvl
open Py Enc

/-! ### every spelling of a zone offset the ODL pattern admits -/

/-- generalisation of `decodeDatetimeOdl_zoned` to any zone designator the tail pattern reads -/
theorem decodeDatetimeOdl_zoned_any (g : Grammar) (hg : OdlTablesOK g = true) (h mi s us : Nat)
    (hv : ValidTime h mi s us) (neg : Bool) (z : Str) (hh mm : Nat) (hz : zoneTail z = some (hh, mm)) :
    decodeDatetimeOdl g (encodeTimeBase h mi s us ++ (if neg then 45 else 43) :: z) =
      .ok (.time h mi s us (some (((hh : Int) * 3600 + (mm : Int) * 60) * (if neg then -1 else 1)))) := by
  have hsg : IsSign (if neg then 45 else 43) := by cases neg <;> simp [IsSign]
  unfold decodeDatetimeOdl
  rw [decodeDatetimeBase_signed_none g hg h mi s us hv _ hsg]
  simp only
  rw [zoneSplit_first _ (encodeTimeBase_noSign h mi s us) (encodeTimeBase_ne_nil h mi s us) _
    (by cases neg <;> simp) _ hh mm hz]
  simp only
  rw [decodeDatetimeBase_time g (odlTables_time g hg) h mi s us hv]
  cases neg <;> simp

/-- the spellings of an offset of `hh` hours and `mm` minutes: `H`, `HH`, `H:MM`, `HH:MM`, `HMM`, `HHMM` -/
inductive ZoneSpelling (hh mm : Nat) : Str → Prop
  | h1 : hh < 10 → mm = 0 → ZoneSpelling hh mm [48 + hh]
  | h2 : mm = 0 → ZoneSpelling hh mm (pad hh 2)
  | h1c : hh < 10 → ZoneSpelling hh mm ([48 + hh] ++ 58 :: pad mm 2)
  | h2c : ZoneSpelling hh mm (pad hh 2 ++ 58 :: pad mm 2)
  | h1m : hh < 10 → ZoneSpelling hh mm ([48 + hh] ++ pad mm 2)
  | h2m : ZoneSpelling hh mm (pad hh 2 ++ pad mm 2)

theorem zoneTail_spelling (hh mm : Nat) (hh12 : hh ≤ 12) (hmm : mm < 60) (z : Str) (hz : ZoneSpelling hh mm z) :
    zoneTail z = some (hh, mm) := by
  have hm2 := pad2 mm (by omega)
  have hh2 := pad2 hh (by omega)
  have hnat : natOf [48 + mm / 10, 48 + mm % 10] = some mm := by rw [← hm2]; exact natOf_pad mm 2
  have hdm : Py.isDecimal (48 + mm % 10) = true := isDecimal_digit _ (Nat.mod_lt _ (by omega))
  have hd5 : dd 0 5 (48 + mm / 10) = true := by rw [dd_digit]; simp; omega
  have hmd : dd 0 9 (48 + mm / 10) = true := by rw [dd_digit]; simp; omega
  have hm1 : dd 0 2 (48 + mm / 10) = (decide (mm / 10 ≤ 2)) := by rw [dd_digit]; simp
  have hne : ¬ (48 + mm / 10 = 58) := by omega
  have hne' : ¬ (mm / 10 = 10) := by omega
  have hcase : hh = 0 ∨ hh = 1 ∨ hh = 2 ∨ hh = 3 ∨ hh = 4 ∨ hh = 5 ∨ hh = 6 ∨ hh = 7 ∨ hh = 8 ∨ hh = 9 ∨ hh = 10 ∨
      hh = 11 ∨ hh = 12 := by omega
  cases hz with
  | h1 h10 hm0 =>
    subst hm0
    rcases hcase with rfl | rfl | rfl | rfl | rfl | rfl | rfl | rfl | rfl | rfl | rfl | rfl | rfl <;>
      first | (exfalso; omega) | simp [zoneTail, dd]
  | h2 hm0 =>
    subst hm0
    have := zoneTail_zoneText hh 0 hh12 (by omega)
    simpa [zoneText] using this
  | h1c h10 =>
    rw [hm2]
    rcases hcase with rfl | rfl | rfl | rfl | rfl | rfl | rfl | rfl | rfl | rfl | rfl | rfl | rfl <;>
      first | (exfalso; omega) | (simp [zoneTail, dd, hd5, hdm, hnat] <;> simp_all [dd])
  | h2c =>
    by_cases hz0 : mm = 0
    · subst hz0
      rw [hh2]
      rcases hcase with rfl | rfl | rfl | rfl | rfl | rfl | rfl | rfl | rfl | rfl | rfl | rfl | rfl <;>
        first | (exfalso; omega) | (simp [zoneTail, dd, pad2] <;> decide)
    · have := zoneTail_zoneText hh mm hh12 hmm
      have hb : (mm == 0) = false := by simp [hz0]
      simpa [zoneText, hb] using this
  | h1m h10 =>
    rw [hm2]
    rcases hcase with rfl | rfl | rfl | rfl | rfl | rfl | rfl | rfl | rfl | rfl | rfl | rfl | rfl <;>
      first | (exfalso; omega) | (simp [zoneTail, hmd, hd5, hdm, hnat, hne] <;> simp_all [dd])
  | h2m =>
    rw [hh2, hm2]
    rcases hcase with rfl | rfl | rfl | rfl | rfl | rfl | rfl | rfl | rfl | rfl | rfl | rfl | rfl <;>
      first | (exfalso; omega) | (simp [zoneTail, hmd, hd5, hdm, hnat, hne, hne'] <;> simp_all [dd])

end Pvl
