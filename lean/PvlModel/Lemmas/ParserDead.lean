import PvlModel.Lemmas.ParserSpecs2
import PvlModel.Lemmas.ParserLines

/-! A small frame pass: once the lexer generator has finished (`dead`), nothing is left to deliver — no pending
    token and no pushed-back one.  Every parser function preserves this, whether it returns or raises. -/
namespace Pvl.P
open Std.Do

set_option mvcgen.warning false

def DE (s : PSt) : Prop := s.gen.dead = true → s.gen.pending = [] ∧ s.gen.pushed = none

macro "de_close" : tactic => `(tactic|
  all_goals (first
    | assumption
    | (intros; simp_all [DE, PErr.isLexer]; done)
    | (simp_all (config := {zetaDelta := true}) [DE, PErr.isLexer]; done)
    | grind [DE, PErr.isLexer, PErr.isValueError]
    | grind (splits := 30) [DE, PErr.isLexer, PErr.isValueError]
    | grind (splits := 30) [DE, isLexer_iff, PErr.isValueError]))

theorem next_de (c : PCfg) :
    ⦃fun s => ⌜DE s⌝⦄ (next c : PM Token) ⦃post⟨fun _ s => ⌜DE s⌝, fun _ s => ⌜DE s⌝⟩⦄ := by
  mvcgen [next]; de_close

theorem send_de (t : Token) :
    ⦃fun s => ⌜DE s⌝⦄ (send t : PM Unit) ⦃post⟨fun _ s => ⌜DE s⌝, fun e s => ⌜e.isLexer = true ∨ DE s⌝⟩⦄ := by
  mvcgen [send]; de_close

theorem throwIn_de {α} :
    ⦃fun s => ⌜DE s⌝⦄ (throwIn : PM α) ⦃post⟨fun _ _ => ⌜False⌝, fun e s => ⌜e.isLexer = true ∨ DE s⌝⟩⦄ := by
  mvcgen [throwIn]; de_close

theorem mark_de (site : String) :
    ⦃fun s => ⌜DE s⌝⦄ (mark site : PM Unit) ⦃post⟨fun _ s => ⌜DE s⌝, fun _ _ => ⌜False⌝⟩⦄ := by
  mvcgen [mark]; de_close

theorem emptyValue_de (c : PCfg) (pos : Int) :
    ⦃fun s => ⌜DE s⌝⦄ (emptyValue c pos : PM Val) ⦃post⟨fun _ s => ⌜DE s⌝, fun _ _ => ⌜False⌝⟩⦄ := by
  mvcgen [emptyValue]; de_close

theorem wscUntil_de (c : PCfg) (tok : Option Str) (fuel : Nat) :
    ⦃fun s => ⌜DE s⌝⦄ (wscUntil c tok fuel : PM Bool) ⦃post⟨fun _ s => ⌜DE s⌝, fun e s => ⌜e.isLexer = true ∨ DE s⌝⟩⦄ := by
  induction fuel with
  | zero => unfold wscUntil; mvcgen; de_close
  | succ n ih => unfold wscUntil; mvcgen [next_de, send_de, ih]; de_close

theorem stmtDelim_de (c : PCfg) (fuel : Nat) :
    ⦃fun s => ⌜DE s⌝⦄ (stmtDelim c fuel : PM Bool) ⦃post⟨fun _ s => ⌜DE s⌝, fun e s => ⌜e.isLexer = true ∨ DE s⌝⟩⦄ := by
  induction fuel with
  | zero => unfold stmtDelim; mvcgen; de_close
  | succ n ih => unfold stmtDelim; mvcgen [next_de, send_de, ih]; de_close

theorem aroundEquals_de (c : PCfg) (fuel : Nat) :
    ⦃fun s => ⌜DE s⌝⦄ (aroundEquals c fuel : PM Unit) ⦃post⟨fun _ s => ⌜DE s⌝, fun e s => ⌜e.isLexer = true ∨ DE s⌝⟩⦄ := by
  unfold aroundEquals
  mvcgen [wscUntil_de, next_de, send_de]; de_close

theorem units_de (c : PCfg) (v : Val) :
    ⦃fun s => ⌜DE s⌝⦄ (units c v : PM Val) ⦃post⟨fun _ s => ⌜DE s⌝, fun e s => ⌜e.isLexer = true ∨ DE s⌝⟩⦄ := by
  unfold units
  mvcgen [next_de, send_de, throwIn_de]; de_close

theorem valueHook_de (c : PCfg) :
    ⦃fun s => ⌜DE s⌝⦄ (valueHook c : PM Val) ⦃post⟨fun _ s => ⌜DE s⌝, fun e s => ⌜e.isLexer = true ∨ DE s⌝⟩⦄ := by
  unfold valueHook
  mvcgen [next_de, send_de, emptyValue_de]; de_close

def ValueDe (c : PCfg) (fuel : Nat) : Prop :=
  (⦃fun s => ⌜DE s⌝⦄ (value c fuel : PM Val) ⦃post⟨fun _ s => ⌜DE s⌝, fun e s => ⌜e.isLexer = true ∨ DE s⌝⟩⦄) ∧
  (∀ delims, ⦃fun s => ⌜DE s⌝⦄ (setSeq c delims fuel : PM (List Val)) ⦃post⟨fun _ s => ⌜DE s⌝, fun e s => ⌜e.isLexer = true ∨ DE s⌝⟩⦄) ∧
  (∀ delims acc, ⦃fun s => ⌜DE s⌝⦄ (setSeqLoop c delims acc fuel : PM (Option (List Val)))
    ⦃post⟨fun _ s => ⌜DE s⌝, fun e s => ⌜e.isLexer = true ∨ DE s⌝⟩⦄) ∧
  (⦃fun s => ⌜DE s⌝⦄ (pset c fuel : PM Val) ⦃post⟨fun _ s => ⌜DE s⌝, fun e s => ⌜e.isLexer = true ∨ DE s⌝⟩⦄) ∧
  (⦃fun s => ⌜DE s⌝⦄ (pseq c fuel : PM Val) ⦃post⟨fun _ s => ⌜DE s⌝, fun e s => ⌜e.isLexer = true ∨ DE s⌝⟩⦄)

theorem valueDe_zero (c : PCfg) : ValueDe c 0 := by
  refine ⟨?_, ?_, ?_, ?_, ?_⟩
  · unfold value; mvcgen; de_close
  · intro d; unfold setSeq; mvcgen; de_close
  · intro d a; unfold setSeqLoop; mvcgen; de_close
  · unfold pset; mvcgen; de_close
  · unfold pseq; mvcgen; de_close

set_option maxHeartbeats 4000000 in
theorem valueDe_succ (c : PCfg) (n : Nat) (ih : ValueDe c n) : ValueDe c (n + 1) := by
  obtain ⟨ihValue, ihSetSeq, ihLoop, ihSet, ihSeq⟩ := ih
  refine ⟨?_, ?_, ?_, ?_, ?_⟩
  · unfold value
    mvcgen [softCatch, next_de, send_de, ihSet, ihSeq, valueHook_de, throwIn_de, wscUntil_de, units_de]
    all_goals (try (de_close; done))
    all_goals (
      intro s hs
      rename_i e
      by_cases hv : e.isValueError = true
      · simp only [hv, if_true]
        simp_all [DE]
      · simp only [hv]
        simp_all [DE])
  · intro d
    unfold setSeq
    mvcgen [next_de, send_de, wscUntil_de, ihValue, ihLoop]
    de_close
  · intro d a
    unfold setSeqLoop
    mvcgen [next_de, send_de, wscUntil_de, ihValue, ihLoop, throwIn_de]
    de_close
  · unfold pset
    mvcgen [ihSetSeq, throwIn_de]
    de_close
  · unfold pseq
    mvcgen [ihSetSeq]
    de_close

theorem valueDe (c : PCfg) (fuel : Nat) : ValueDe c fuel := by
  induction fuel with
  | zero => exact valueDe_zero c
  | succ n ih => exact valueDe_succ c n ih

theorem assignmentBase_de (c : PCfg) (fuel : Nat) :
    ⦃fun s => ⌜DE s⌝⦄ (assignmentBase c fuel : PM (Str × Val)) ⦃post⟨fun _ s => ⌜DE s⌝, fun e s => ⌜e.isLexer = true ∨ DE s⌝⟩⦄ := by
  have hV := (valueDe c fuel).1
  unfold assignmentBase
  mvcgen [softCatch, next_de, send_de, aroundEquals_de, throwIn_de, hV, stmtDelim_de]
  de_close

theorem assignment_de (c : PCfg) (fuel : Nat) :
    ⦃fun s => ⌜DE s⌝⦄ (assignment c fuel : PM (Str × Val)) ⦃post⟨fun _ s => ⌜DE s⌝, fun e s => ⌜e.isLexer = true ∨ DE s⌝⟩⦄ := by
  have hA := assignmentBase_de c fuel
  unfold assignment
  mvcgen [hA, emptyValue_de]
  de_close

theorem endStatement_de (c : PCfg) :
    ⦃fun s => ⌜DE s⌝⦄ (endStatement c : PM Unit) ⦃post⟨fun _ s => ⌜DE s⌝, fun e s => ⌜e.isLexer = true ∨ DE s⌝⟩⦄ := by
  unfold endStatement
  mvcgen [next_de, send_de]
  de_close

theorem beginAgg_de (c : PCfg) (fuel : Nat) :
    ⦃fun s => ⌜DE s⌝⦄ (beginAgg c fuel : PM (Str × Str)) ⦃post⟨fun _ s => ⌜DE s⌝, fun e s => ⌜e.isLexer = true ∨ DE s⌝⟩⦄ := by
  unfold beginAgg
  mvcgen [softCatch, next_de, send_de, aroundEquals_de, throwIn_de, stmtDelim_de]
  de_close

theorem endAgg_de (c : PCfg) (b n : Str) (fuel : Nat) :
    ⦃fun s => ⌜DE s⌝⦄ (endAgg c b n fuel : PM Unit) ⦃post⟨fun _ s => ⌜DE s⌝, fun e s => ⌜e.isLexer = true ∨ DE s⌝⟩⦄ := by
  unfold endAgg
  mvcgen [next_de, send_de, aroundEquals_de, throwIn_de, stmtDelim_de]
  de_close

set_option maxHeartbeats 4000000 in
theorem moduleHook_de (c : PCfg) (m : Items) (fuel : Nat) :
    ⦃fun s => ⌜DE s⌝⦄ (moduleHook c m fuel : PM (Items × Except PErr Bool))
    ⦃post⟨fun r s => ⌜(∃ p, r.2 = .error (.lexer p)) ∨ DE s⌝, fun _ _ => ⌜False⌝⟩⦄ := by
  have hV := (valueDe c fuel).1
  unfold moduleHook moduleHook.peek
  mvcgen [next_de, send_de, emptyValue_de, mark_de, wscUntil_de, hV, stmtDelim_de]
  de_close

def AggDe (c : PCfg) (fuel : Nat) : Prop :=
  (⦃fun s => ⌜DE s⌝⦄ (aggBlock c fuel : PM (Str × Val)) ⦃post⟨fun _ s => ⌜DE s⌝, fun e s => ⌜e.isLexer = true ∨ DE s⌝⟩⦄) ∧
  (∀ b n agg, ⦃fun s => ⌜DE s⌝⦄ (aggLoop c b n agg fuel : PM Items) ⦃post⟨fun _ s => ⌜DE s⌝, fun e s => ⌜e.isLexer = true ∨ DE s⌝⟩⦄)

theorem aggDe_zero (c : PCfg) : AggDe c 0 := by
  refine ⟨?_, ?_⟩
  · unfold aggBlock; mvcgen; de_close
  · intro b n a; unfold aggLoop; mvcgen; de_close

set_option maxHeartbeats 8000000 in
theorem aggDe_succ (c : PCfg) (k : Nat) (ih : AggDe c k) : AggDe c (k + 1) := by
  obtain ⟨ihBlock, ihLoop⟩ := ih
  have hA := assignment_de c k
  have hH := fun m => moduleHook_de c m k
  refine ⟨?_, ?_⟩
  · unfold aggBlock
    mvcgen [beginAgg_de, throwIn_de, ihLoop]
    de_close
  · intro b n a
    unfold aggLoop
    mvcgen [softCatch, wscUntil_de, ihBlock, ihLoop, hA, endAgg_de, hH, throwIn_de]
    de_close

theorem aggDe (c : PCfg) (fuel : Nat) : AggDe c fuel := by
  induction fuel with
  | zero => exact aggDe_zero c
  | succ n ih => exact aggDe_succ c n ih

set_option maxHeartbeats 8000000 in
/-- **`parse_module` leaves nothing behind a finished lexer** -/
theorem moduleLoop_de (c : PCfg) (fuel : Nat) :
    ∀ m, ⦃fun s => ⌜DE s⌝⦄ (moduleLoop c m fuel : PM Items) ⦃post⟨fun _ s => ⌜DE s⌝, fun e s => ⌜e.isLexer = true ∨ DE s⌝⟩⦄ := by
  induction fuel with
  | zero => intro m; unfold moduleLoop; mvcgen; de_close
  | succ k ih =>
    intro m
    have hA := assignment_de c k
    have hB := (aggDe c k).1
    have hH := fun m => moduleHook_de c m k
    unfold moduleLoop
    mvcgen [softCatch, wscUntil_de, hB, hA, endStatement_de, hH, next_de, throwIn_de, ih]
    de_close

end Pvl.P
