import PvlModel.Lemmas.ParserTerm2
import PvlModel.Lemmas.ParserReals

/-! Sixth pass over the parser functions (C05): **accounting of block keywords**.  `Bc s` / `Ec s` count the
    tokens still to be delivered whose text is a begin / an end keyword of an aggregation block.  Every
    function that succeeds has consumed exactly as many begin keywords, and exactly as many end keywords, as
    there are blocks in what it returns; a production that fails softly has consumed none.  So a module is
    returned only when the begin and end keywords that were read pair up with the blocks of the result: no
    block is closed by the end of the text, no keyword is dropped.

    The statement needs the token stream to be *sane*: a token whose text is a block keyword is not at the
    same time white space, a delimiter, a value, a units expression, a parameter name or the END statement
    (`Sane`), and `=`, `,` and the brackets are not block keywords (`CfgOK`).  `CfgOK` is evaluated on the
    generated tables; `Sane` is a decidable property of a token list that the correspondence run evaluates on
    every input. -/
namespace Pvl
open Py

mutual
/-- the number of blocks (GROUP / OBJECT containers) in a value, at every depth -/
def Val.blocks : Val → Nat
  | .cont _ items => 1 + blocksI items
  | .quant v _ => v.blocks
  | .seq l => blocksL l
  | .set _ l => blocksL l
  | _ => 0
def blocksL : List Val → Nat
  | [] => 0
  | v :: r => v.blocks + blocksL r
def blocksI : List (Str × Val) → Nat
  | [] => 0
  | p :: r => p.2.blocks + blocksI r
end

@[simp] theorem blocksL_nil : blocksL [] = 0 := by simp [blocksL]
@[simp] theorem blocksI_nil : blocksI [] = 0 := by simp [blocksI]
@[simp] theorem blocksL_append (a b : List Val) : blocksL (a ++ b) = blocksL a + blocksL b := by
  induction a with
  | nil => simp
  | cons v r ih => simp [blocksL, ih]; omega
@[simp] theorem blocksI_append (a b : Items) : blocksI (a ++ b) = blocksI a + blocksI b := by
  induction a with
  | nil => simp
  | cons v r ih => simp [blocksI, ih]; omega
@[simp] theorem blocksL_single (v : Val) : blocksL [v] = v.blocks := by simp [blocksL]
@[simp] theorem blocksI_single (p : Str × Val) : blocksI [p] = p.2.blocks := by simp [blocksI]

theorem blocks_of_plain (v : Val) (h : v.plain = true) : v.blocks = 0 := by
  cases v <;> simp [Val.plain] at h <;> simp [Val.blocks]

/-- `decode_simple_value` never makes a container -/
theorem decodeSimple_blocks (d : Dec) (s : Str) (v : Val) (h : decodeSimple d s = .ok v) : v.blocks = 0 := by
  unfold decodeSimple at h
  split at h
  · cases h; simp [Val.blocks]
  split at h
  · cases h; simp [Val.blocks]
  split at h
  · cases h; simp [Val.blocks]
  split at h
  · cases h; simp [Val.blocks]
  split at h
  · cases h; simp [Val.blocks]
  split at h
  · rename_i v' hv
    cases h
    unfold decodeDecimal at hv
    split at hv
    · cases hv; simp [Val.blocks]
    · split at hv
      · cases hv; simp [Val.blocks]
      · cases hv
  split at h
  · cases h
    exact blocks_of_plain _ (decodeDatetime_plain _ _ _ (by assumption))
  split at h
  · cases h; simp [Val.blocks]
  · cases h

/-- a placeholder for a missing value lost its last item: block count of `dropLast` -/
theorem blocksI_dropLast_le (m : Items) : blocksI m.dropLast ≤ blocksI m := by
  induction m with
  | nil => simp
  | cons p r ih =>
    cases r with
    | nil => simp [blocksI]
    | cons q r' =>
      simp only [List.dropLast_cons_cons, blocksI] at ih ⊢
      omega

end Pvl

namespace Pvl.P
open Std.Do Py

set_option mvcgen.warning false

/-- the text is a begin keyword of a block -/
def isBt (c : PCfg) (x : Str) : Bool := Tok.isBeginAggregation c.g x
/-- the text is an end keyword of a block -/
def isEt (c : PCfg) (x : Str) : Bool := c.g.aggKeywords.any (fun p => foldEq x p.2)

def NotKw (c : PCfg) (x : Str) : Prop := isBt c x = false ∧ isEt c x = false

/-- a block keyword is nothing else -/
def Sane (c : PCfg) (x : Str) : Prop :=
  (isBt c x = true → isEt c x = false) ∧
  ((isBt c x = true ∨ isEt c x = true) →
    Tok.isWSC c.g x = false ∧ Tok.isDelimiter c.g x = false ∧ (∀ v, decodeSimple c.d x ≠ .ok v) ∧
    startsWith x [c.g.unitsDelims.1] = false ∧ Tok.isParameterName c.d x = false ∧
    Tok.isEndStatement c.g x = false)

/-- the punctuation the parser compares token texts with is not a block keyword -/
def CfgOK (c : PCfg) : Prop :=
  NotKw c [61] ∧ NotKw c [44] ∧ NotKw c [c.g.setDelims.1] ∧ NotKw c [c.g.setDelims.2] ∧
  NotKw c [c.g.seqDelims.1] ∧ NotKw c [c.g.seqDelims.2]

def b2n (b : Bool) : Nat := if b then 1 else 0

/-- tokens of a kind among those the generator can still deliver -/
def cntG (p : Str → Bool) (g : Gen) : Nat :=
  (g.pending.filter (fun t => p t.text)).length +
    (match g.pushed with | some t => b2n (p t.text) | none => 0)

def Bc (c : PCfg) (s : PSt) : Nat := cntG (isBt c) s.gen
def Ec (c : PCfg) (s : PSt) : Nat := cntG (isEt c) s.gen

/-- the pair of counters (one ghost argument) -/
def K (c : PCfg) (s : PSt) : Nat × Nat := (Bc c s, Ec c s)

/-- every token still to come is sane -/
def TS (c : PCfg) (s : PSt) : Prop :=
  (∀ t ∈ s.gen.pending, Sane c t.text) ∧ (∀ t, s.gen.pushed = some t → Sane c t.text)

/-- nothing was consumed that counts: the counters are where they were -/
def Same (c : PCfg) (k0 : Nat × Nat) (s : PSt) : Prop := Bc c s = k0.1 ∧ Ec c s = k0.2 ∧ TS c s

/-- `n` begin keywords and `n` end keywords were consumed -/
def Used (c : PCfg) (k0 : Nat × Nat) (nb ne : Nat) (s : PSt) : Prop :=
  Bc c s + nb = k0.1 ∧ Ec c s + ne = k0.2 ∧ TS c s

theorem Same.used {c k0 s} (h : Same c k0 s) : Used c k0 0 0 s := by
  simpa [Same, Used] using h

/-! ### the generator protocol -/

theorem next_ct (c : PCfg) (k0 : Nat × Nat) :
    ⦃fun s => ⌜Inv c s ∧ Same c k0 s⌝⦄ (next c : PM Token)
    ⦃post⟨fun r s => ⌜GotT r s ∧ Sane c r.text ∧ Used c k0 (b2n (isBt c r.text)) (b2n (isEt c r.text)) s⌝,
          fun e s => ⌜((e = .stop ∧ s.gen.dead = true ∧ s.gen.pushed = none ∧ c.tail = .eof) ∨
                      (e.isLexer = true ∧ c.tail ≠ .eof)) ∧ Same c k0 s⌝⟩⦄ := by
  mvcgen [next]
  all_goals (simp_all [Inv, GotT, Same, Used, TS, Bc, Ec, cntG, PErr.isLexer, b2n])
  all_goals (try omega)
  all_goals (try grind)


theorem next_rdy_ct (c : PCfg) (k0 : Nat × Nat) :
    ⦃fun s => ⌜Rdy c s ∧ Same c k0 s⌝⦄ (next c : PM Token)
    ⦃post⟨fun r s => ⌜GotT r s ∧ Sane c r.text ∧ Used c k0 (b2n (isBt c r.text)) (b2n (isEt c r.text)) s⌝,
          fun e s => ⌜e = .stop ∧ s.gen.dead = true ∧ s.gen.pushed = none ∧ c.tail = .eof ∧ Same c k0 s⌝⟩⦄ := by
  mvcgen [next]
  all_goals (simp_all [Rdy, Pend, GotT, Same, Used, TS, Bc, Ec, cntG, PErr.isLexer, b2n])
  all_goals (try omega)
  all_goals (try grind)

theorem next_pend_ct (c : PCfg) (k0 : Nat × Nat) :
    ⦃fun s => ⌜Pend s ∧ Same c k0 s⌝⦄ (next c : PM Token)
    ⦃post⟨fun r s => ⌜GotT r s ∧ Sane c r.text ∧ Used c k0 (b2n (isBt c r.text)) (b2n (isEt c r.text)) s⌝,
          fun _ _ => ⌜False⌝⟩⦄ := by
  mvcgen [next]
  all_goals (simp_all [Rdy, Pend, GotT, Same, Used, TS, Bc, Ec, cntG, PErr.isLexer, b2n])
  all_goals (try omega)
  all_goals (try grind)

theorem send_ct (c : PCfg) (t : Token) (k1 : Nat × Nat) :
    ⦃fun s => ⌜GotT t s ∧ Sane c t.text ∧ TS c s ∧ K c s = k1⌝⦄ (send t : PM Unit)
    ⦃post⟨fun _ s => ⌜Pend s ∧ Bc c s = k1.1 + b2n (isBt c t.text) ∧ Ec c s = k1.2 + b2n (isEt c t.text) ∧ TS c s⌝,
          fun _ _ => ⌜False⌝⟩⦄ := by
  mvcgen [send]
  all_goals (simp_all [GotT, Pend, K, TS, Bc, Ec, cntG, b2n])
  all_goals (try omega)
  all_goals (try grind)

macro "ct_ghost" : tactic => `(tactic|
  all_goals (try (first
    | exact K (by assumption) (by assumption)
    | exact (fun s _ => K (by assumption) s)
    | exact (fun s => K (by assumption) s))))

macro "ct_close" : tactic => `(tactic|
  all_goals (first
    | assumption
    | (intros; simp_all [K, Same, Used, NotKw, b2n, Bc, Ec, TS, Val.blocks, HookPost, EndSeen, Finished, Hard, Hard0, Inv, Got, GotT, Pend, Rdy, Live, PErr.isLexer, PErr.isValueError]; done)
    | (intros; simp_all [K, Same, Used, NotKw, b2n, Bc, Ec, TS, Val.blocks, HookPost, EndSeen, Finished, Hard, Hard0, Inv, Got, GotT, Pend, Rdy, Live, PErr.isLexer, PErr.isValueError]; omega)
    | grind [K, Same, Used, NotKw, CfgOK, Sane, b2n, Bc, Ec, TS, Val.blocks, decodeSimple_blocks, blocksI_append, blocksL_append, blocksI_single, blocksL_single, blocksI_nil, blocksL_nil, HookPost, EndSeen, Finished, Hard, Hard0, Inv, Got, GotT, Pend, Rdy, Live, PErr.isLexer, PErr.isValueError]
    | grind (splits := 40) [K, Same, Used, NotKw, CfgOK, Sane, b2n, Bc, Ec, TS, Val.blocks, decodeSimple_blocks, blocksI_append, blocksL_append, blocksI_single, blocksL_single, blocksI_nil, blocksL_nil, HookPost, EndSeen, Finished, Hard, Hard0, Inv, Got, GotT, Pend, Rdy, Live, PErr.isLexer, PErr.isValueError]))

theorem throwIn_Live_ct {α} :
    ⦃fun s => ⌜Live s⌝⦄ (throwIn : PM α) ⦃post⟨fun _ _ => ⌜False⌝, fun e _ => ⌜e.isLexer = true⌝⟩⦄ :=
  throwIn_Live_spec

theorem emptyValue_ct (c : PCfg) (pos : Int) (g0 : Gen) :
    ⦃fun s => ⌜s.gen = g0⌝⦄ (emptyValue c pos : PM Val)
    ⦃post⟨fun r s => ⌜s.gen = g0 ∧ ∃ l, r = .empty l⌝, fun _ _ => ⌜False⌝⟩⦄ := by
  mvcgen [emptyValue]
  rename_i h _
  exact ⟨h, _, rfl⟩

/-! ### white space, delimiters, `=` -/

theorem wscUntil_ct (c : PCfg) (tok : Option Str) (htok : ∀ x, tok = some x → NotKw c x) (fuel : Nat)
    (k0 : Nat × Nat) :
    ⦃fun s => ⌜Inv c s ∧ Same c k0 s⌝⦄ (wscUntil c tok fuel : PM Bool)
    ⦃post⟨fun b s => ⌜(b = true → Got s ∧ tok.isSome = true) ∧ (b = false → Rdy c s) ∧ Same c k0 s⌝,
          fun e _ => ⌜e.isLexer = true ∨ e = .fuel⌝⟩⦄ := by
  induction fuel generalizing k0 with
  | zero => unfold wscUntil; mvcgen; ct_close
  | succ n ih =>
    unfold wscUntil
    mvcgen -trivial [next_ct, send_ct, ih]
    ct_ghost
    ct_close


theorem stmtDelim_ct (c : PCfg) (fuel : Nat) (k0 : Nat × Nat) :
    ⦃fun s => ⌜Inv c s ∧ Same c k0 s⌝⦄ (stmtDelim c fuel : PM Bool)
    ⦃post⟨fun b s => ⌜(b = true → Got s) ∧ (b = false → Rdy c s) ∧ Same c k0 s⌝,
          fun e _ => ⌜e.isLexer = true ∨ e = .fuel⌝⟩⦄ := by
  induction fuel generalizing k0 with
  | zero => unfold stmtDelim; mvcgen; ct_close
  | succ n ih =>
    unfold stmtDelim
    mvcgen -trivial [next_ct, send_ct, ih]
    ct_ghost
    ct_close

theorem aroundEquals_ct (c : PCfg) (hc : CfgOK c) (fuel : Nat) (k0 : Nat × Nat) :
    ⦃fun s => ⌜Inv c s ∧ Same c k0 s⌝⦄ (aroundEquals c fuel : PM Unit)
    ⦃post⟨fun _ s => ⌜Rdy c s ∧ Same c k0 s⌝,
          fun e s => ⌜e.isLexer = true ∨ e = .fuel ∨ (e = .parse none ∧ Inv c s ∧ c.tail = .eof ∧ Same c k0 s) ∨
                      (e = .value ∧ Pend s ∧ Same c k0 s)⌝⟩⦄ := by
  have h61 : ∀ x, some [61] = some x → NotKw c x := by intro x hx; cases hx; exact hc.1
  have hno : ∀ x, (none : Option Str) = some x → NotKw c x := by intro x hx; cases hx
  have hw1 := wscUntil_ct c (some [61]) h61
  have hw2 := wscUntil_ct c none hno
  unfold aroundEquals
  mvcgen -trivial [hw1, hw2, next_ct, send_ct]
  ct_ghost
  ct_close


/-! ### values -/

set_option maxHeartbeats 2000000 in
theorem units_ct (c : PCfg) (v : Val) (k0 : Nat × Nat) :
    ⦃fun s => ⌜Inv c s ∧ Same c k0 s⌝⦄ (units c v : PM Val)
    ⦃post⟨fun r s => ⌜Inv c s ∧ Same c k0 s ∧ r.blocks = v.blocks⌝,
          fun e s => ⌜e.isLexer = true ∨ ((e = .value ∨ e = .stop) ∧ Inv c s ∧ Same c k0 s)⌝⟩⦄ := by
  unfold units
  mvcgen -trivial [next_ct, send_ct, throwIn_Live_ct]
  ct_ghost
  ct_close

theorem valueHook_ct (c : PCfg) (k0 : Nat × Nat) :
    ⦃fun s => ⌜Pend s ∧ Same c k0 s⌝⦄ (valueHook c : PM Val)
    ⦃post⟨fun r s => ⌜Inv c s ∧ Same c k0 s ∧ r.blocks = 0⌝, fun e s => ⌜e = .value ∧ Live s⌝⟩⦄ := by
  unfold valueHook
  mvcgen -trivial [next_pend_ct, send_ct, emptyValue_ct]
  ct_ghost
  ct_close


/-- the five mutually recursive value functions: a value consumes no block keyword and contains no block -/
def ValueCt (c : PCfg) (fuel : Nat) : Prop :=
  (∀ k0, ⦃fun s => ⌜Rdy c s ∧ Same c k0 s⌝⦄ (value c fuel : PM Val)
    ⦃post⟨fun r s => ⌜Inv c s ∧ Same c k0 s ∧ r.blocks = 0⌝,
          fun e s => ⌜Hard0 c e ∨ (e = .stop ∧ s.gen.dead = true ∧ s.gen.pushed = none ∧ c.tail = .eof ∧ Same c k0 s)⌝⟩⦄) ∧
  (∀ delims k0, NotKw c [delims.1] → NotKw c [delims.2] →
    ⦃fun s => ⌜Pend s ∧ Same c k0 s⌝⦄ (setSeq c delims fuel : PM (List Val))
    ⦃post⟨fun r s => ⌜Got s ∧ Same c k0 s ∧ blocksL r = 0⌝,
          fun e s => ⌜Hard0 c e ∨ (e = .value ∧ Pend s ∧ Same c k0 s)⌝⟩⦄) ∧
  (∀ delims acc k0, NotKw c [delims.1] → NotKw c [delims.2] → blocksL acc = 0 →
    ⦃fun s => ⌜Inv c s ∧ Same c k0 s⌝⦄ (setSeqLoop c delims acc fuel : PM (Option (List Val)))
    ⦃post⟨fun r s => ⌜(r.isSome = true → Got s) ∧ (r = none → c.tail = .eof) ∧ Same c k0 s ∧
            (∀ l, r = some l → blocksL l = 0) ∧ 0 ≤ fuel⌝,
          fun e _ => ⌜(Hard0 c e ∨ (e = .stop ∧ c.tail = .eof)) ∧ 0 ≤ fuel⌝⟩⦄) ∧
  (∀ k0, ⦃fun s => ⌜Pend s ∧ Same c k0 s⌝⦄ (pset c fuel : PM Val)
    ⦃post⟨fun r s => ⌜Inv c s ∧ Same c k0 s ∧ r.blocks = 0⌝,
          fun e s => ⌜Hard0 c e ∨ (e = .value ∧ Pend s ∧ Same c k0 s)⌝⟩⦄) ∧
  (∀ k0, ⦃fun s => ⌜Pend s ∧ Same c k0 s⌝⦄ (pseq c fuel : PM Val)
    ⦃post⟨fun r s => ⌜Inv c s ∧ Same c k0 s ∧ r.blocks = 0⌝,
          fun e s => ⌜Hard0 c e ∨ (e = .value ∧ Pend s ∧ Same c k0 s)⌝⟩⦄)

theorem valueCt_zero (c : PCfg) : ValueCt c 0 := by
  refine ⟨?_, ?_, ?_, ?_, ?_⟩
  · intro k0; unfold value; mvcgen; ct_close
  · intro d k0 _ _; unfold setSeq; mvcgen; ct_close
  · intro d a k0 _ _ _; unfold setSeqLoop; mvcgen; ct_close
  · intro k0; unfold pset; mvcgen; ct_close
  · intro k0; unfold pseq; mvcgen; ct_close

set_option maxRecDepth 4000 in
set_option maxHeartbeats 16000000 in
theorem valueCt_succ (c : PCfg) (hc : CfgOK c) (n : Nat) (ih : ValueCt c n) : ValueCt c (n + 1) := by
  obtain ⟨ihValue, ihSetSeq, ihLoop, ihSet, ihSeq⟩ := ih
  have hno : ∀ x, (none : Option Str) = some x → NotKw c x := by intro x hx; cases hx
  have hw0 := wscUntil_ct c none hno
  refine ⟨?_, ?_, ?_, ?_, ?_⟩
  · intro k0
    unfold value
    mvcgen -trivial [softCatch, next_rdy_ct, send_ct, ihSet, ihSeq, valueHook_ct, throwIn_Live_ct, hw0, units_ct]
    ct_ghost
    ct_close
  · intro d k0 hd1 hd2
    have h2 : ∀ x, some [d.2] = some x → NotKw c x := by intro x hx; cases hx; exact hd2
    have hw2 := wscUntil_ct c (some [d.2]) h2
    have ihL := fun acc k0 h => ihLoop d acc k0 hd1 hd2 h
    unfold setSeq
    mvcgen -trivial [next_pend_ct, send_ct, hw2, ihValue, ihL]
    ct_ghost
    ct_close
  · intro d a k0 hd1 hd2 ha
    have h2 : ∀ x, some [d.2] = some x → NotKw c x := by intro x hx; cases hx; exact hd2
    have hw2 := wscUntil_ct c (some [d.2]) h2
    have ihL := fun acc k0 h => ihLoop d acc k0 hd1 hd2 h
    unfold setSeqLoop
    mvcgen -trivial [next_ct, send_ct, hw0, hw2, ihValue, ihL, throwIn_Live_ct]
    ct_ghost
    ct_close
  · intro k0
    have ihS := fun k0 => ihSetSeq c.g.setDelims k0 hc.2.2.1 hc.2.2.2.1
    unfold pset
    mvcgen -trivial [ihS, throwIn_Live_ct]
    ct_ghost
    ct_close
  · intro k0
    have ihS := fun k0 => ihSetSeq c.g.seqDelims k0 hc.2.2.2.2.1 hc.2.2.2.2.2
    unfold pseq
    mvcgen -trivial [ihS]
    ct_ghost
    ct_close


theorem valueCt (c : PCfg) (hc : CfgOK c) (fuel : Nat) : ValueCt c fuel := by
  induction fuel with
  | zero => exact valueCt_zero c
  | succ n ih => exact valueCt_succ c hc n ih

theorem value_ct (c : PCfg) (hc : CfgOK c) (fuel : Nat) (k0 : Nat × Nat) :
    ⦃fun s => ⌜Rdy c s ∧ Same c k0 s⌝⦄ (value c fuel : PM Val)
    ⦃post⟨fun r s => ⌜Inv c s ∧ Same c k0 s ∧ r.blocks = 0⌝,
          fun e s => ⌜Hard0 c e ∨ (e = .stop ∧ s.gen.dead = true ∧ s.gen.pushed = none ∧ c.tail = .eof ∧ Same c k0 s)⌝⟩⦄ :=
  (valueCt c hc fuel).1 k0

end Pvl.P
