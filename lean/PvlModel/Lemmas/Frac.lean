import PvlModel.Lemmas.PdsTime
namespace Pvl
open Py Enc

/-! ### fractions of a second of any length 1–6 -/

theorem matchCCs_short (k : Nat) (ds rest : Str) (hd : AllDigits ds) (hlt : ds.length < k)
    (hrest : ∀ c t, rest = c :: t → ¬ (48 ≤ c ∧ c ≤ 57)) :
    matchCCs (List.replicate k (dg 0 9)) (ds ++ rest) = none := by
  induction ds generalizing k with
  | nil =>
    obtain ⟨j, rfl⟩ : ∃ j, k = j + 1 := ⟨k - 1, by simp at hlt; omega⟩
    cases rest with
    | nil => simp [List.replicate_succ, matchCCs]
    | cons c t =>
      have hc := hrest c t rfl
      have d4 : CC.ok (dg 0 9) c = false := by simp [dg, ccr]; omega
      simp [List.replicate_succ, matchCCs, d4]
  | cons c r ih =>
    obtain ⟨j, rfl⟩ : ∃ j, k = j + 1 := ⟨k - 1, by simp at hlt; omega⟩
    have hc := hd c (by simp)
    simp only [isDigit, Bool.and_eq_true, decide_eq_true_eq] at hc
    have d1 : CC.ok (dg 0 9) c = true := by simp [dg, ccr]; omega
    have := ih j (fun x hx => hd x (by simp [hx])) (by simp at hlt; omega)
    simp [List.replicate_succ, matchCCs, d1, this]

/-- `%f` takes a run of 1–6 digits that is followed by the end of the text or a character that is not a digit -/
theorem fk_field (ds : Str) (hd : AllDigits ds) (h1 : 1 ≤ ds.length) (h6 : ds.length ≤ 6) (r : List Item)
    (rest fin : Str) (caps : List (Field × Str)) (hrest : ∀ c t, rest = c :: t → ¬ (48 ≤ c ∧ c ≤ 57))
    (hk : matchItems r rest = some (caps, fin)) :
    matchItems (itemf :: r) (ds ++ rest) = some ((.f, ds) :: caps, fin) := by
  rw [matchItems_cons]
  have hm := matchCCs_digits ds rest hd
  have : itemf.alts = [List.replicate 6 (dg 0 9), List.replicate 5 (dg 0 9), List.replicate 4 (dg 0 9),
      List.replicate 3 (dg 0 9), List.replicate 2 (dg 0 9), List.replicate 1 (dg 0 9)] := by rfl
  rw [this]
  have hf := fun k hk => matchCCs_short k ds rest hd hk hrest
  have hl : ds.length = 1 ∨ ds.length = 2 ∨ ds.length = 3 ∨ ds.length = 4 ∨ ds.length = 5 ∨ ds.length = 6 := by
    omega
  rcases hl with e | e | e | e | e | e
  · rw [matchAlts_skip _ _ _ _ _ (hf 6 (by omega)), matchAlts_skip _ _ _ _ _ (hf 5 (by omega)),
      matchAlts_skip _ _ _ _ _ (hf 4 (by omega)), matchAlts_skip _ _ _ _ _ (hf 3 (by omega)),
      matchAlts_skip _ _ _ _ _ (hf 2 (by omega))]
    rw [e] at hm
    exact matchAlts_first _ _ _ _ _ _ rest fin caps hm hk
  · rw [matchAlts_skip _ _ _ _ _ (hf 6 (by omega)), matchAlts_skip _ _ _ _ _ (hf 5 (by omega)),
      matchAlts_skip _ _ _ _ _ (hf 4 (by omega)), matchAlts_skip _ _ _ _ _ (hf 3 (by omega))]
    rw [e] at hm
    exact matchAlts_first _ _ _ _ _ _ rest fin caps hm hk
  · rw [matchAlts_skip _ _ _ _ _ (hf 6 (by omega)), matchAlts_skip _ _ _ _ _ (hf 5 (by omega)),
      matchAlts_skip _ _ _ _ _ (hf 4 (by omega))]
    rw [e] at hm
    exact matchAlts_first _ _ _ _ _ _ rest fin caps hm hk
  · rw [matchAlts_skip _ _ _ _ _ (hf 6 (by omega)), matchAlts_skip _ _ _ _ _ (hf 5 (by omega))]
    rw [e] at hm
    exact matchAlts_first _ _ _ _ _ _ rest fin caps hm hk
  · rw [matchAlts_skip _ _ _ _ _ (hf 6 (by omega))]
    rw [e] at hm
    exact matchAlts_first _ _ _ _ _ _ rest fin caps hm hk
  · rw [e] at hm
    exact matchAlts_first _ _ _ _ _ _ rest fin caps hm hk

/-- the microseconds a fraction text denotes: its digits scaled to six places -/
def fracMicros (ds : Str) : Nat := digitsVal ds 0 * 10 ^ (6 - ds.length)

theorem digitsVal_append_zeros (ds : Str) (k : Nat) (acc : Nat) :
    digitsVal (ds ++ List.replicate k 48) acc = digitsVal ds acc * 10 ^ k := by
  induction k with
  | zero => simp
  | succ n ih =>
    have : ds ++ List.replicate (n + 1) 48 = (ds ++ List.replicate n 48) ++ [48] := by
      rw [List.replicate_succ', List.append_assoc]
    rw [this]
    unfold digitsVal at ih ⊢
    rw [List.foldl_append, ih]
    simp [Nat.pow_succ, Nat.mul_assoc]

theorem natOf_frac (ds : Str) (hd : AllDigits ds) (hne : ds ≠ []) :
    natOf (ds ++ List.replicate (6 - ds.length) 48) = some (fracMicros ds) := by
  have hall : AllDigits (ds ++ List.replicate (6 - ds.length) 48) := by
    intro c hc
    rcases List.mem_append.mp hc with h | h
    · exact hd c h
    · have := List.eq_of_mem_replicate h; subst this; decide
  unfold natOf
  rw [int10_digits _ (by simp [hne]) hall, digitsVal_append_zeros]
  simp only [fracMicros, Option.map_some]
  congr 1

end Pvl

namespace Pvl
open Py Enc

theorem match_HMSfk_rest (h mi s : Nat) (hh : h < 24) (hm : mi < 60) (hs : s < 60) (ds : Str) (hd : AllDigits ds)
    (h1 : 1 ≤ ds.length) (h6 : ds.length ≤ 6) (rest : Str) (hrest : ∀ c t, rest = c :: t → ¬ (48 ≤ c ∧ c ≤ 57)) :
    matchItems [itemH, litColon, itemM, litColon, itemS, litDot, itemf]
        (pad h 2 ++ 58 :: (pad mi 2 ++ 58 :: (pad s 2 ++ 46 :: (ds ++ rest)))) =
      some ([(.H, pad h 2), (.none, [58]), (.M, pad mi 2), (.none, [58]), (.S, pad s 2), (.none, [46]),
        (.f, ds)], rest) :=
  H_field h hh _ _ _ _ (colon_field _ _ _ _ (M_field mi hm _ _ _ _ (colon_field _ _ _ _
    (S_field s hs _ _ _ _ (dot_field _ _ _ _ (fk_field ds hd h1 h6 _ _ _ _ hrest (matchItems_nil rest)))))))

theorem strptime_HMSfk (h mi s : Nat) (hh : h < 24) (hm : mi < 60) (hs : s < 60) (ds : Str) (hd : AllDigits ds)
    (h1 : 1 ≤ ds.length) (h6 : ds.length ≤ 6) :
    strptime (pad h 2 ++ 58 :: (pad mi 2 ++ 58 :: (pad s 2 ++ 46 :: ds))) fmtHMSf =
      some ⟨1900, 1, 1, h, mi, s, fracMicros ds⟩ := by
  unfold strptime
  rw [compile_HMSf]
  have := match_HMSfk_rest h mi s hh hm hs ds hd h1 h6 [] (by intro c t h; cases h)
  simp only [List.append_nil] at this
  simp only [this]
  have e : ¬ s > 59 := by omega
  have hne : ds ≠ [] := by intro h0; subst h0; simp at h1
  simp [field?, List.find?, field_beq, natOf_pad, daysInMonth, e, natOf_frac ds hd hne]

theorem strptime_HMSfk_Z_more (h mi s : Nat) (hh : h < 24) (hm : mi < 60) (hs : s < 60) (ds : Str) (hd : AllDigits ds)
    (h1 : 1 ≤ ds.length) (h6 : ds.length ≤ 6) :
    strptime (pad h 2 ++ 58 :: (pad mi 2 ++ 58 :: (pad s 2 ++ 46 :: (ds ++ [90])))) fmtHMSf = none := by
  unfold strptime
  rw [compile_HMSf]
  have := match_HMSfk_rest h mi s hh hm hs ds hd h1 h6 [90] (by intro c t h; cases h; omega)
  simp [this]

theorem strptime_HMSfkZ (h mi s : Nat) (hh : h < 24) (hm : mi < 60) (hs : s < 60) (ds : Str) (hd : AllDigits ds)
    (h1 : 1 ≤ ds.length) (h6 : ds.length ≤ 6) :
    strptime (pad h 2 ++ 58 :: (pad mi 2 ++ 58 :: (pad s 2 ++ 46 :: (ds ++ [90])))) fmtHMSfZ =
      some ⟨1900, 1, 1, h, mi, s, fracMicros ds⟩ := by
  unfold strptime
  rw [compile_HMSfZ]
  have hm' : matchItems [itemH, litColon, itemM, litColon, itemS, litDot, itemf, litZ]
      (pad h 2 ++ 58 :: (pad mi 2 ++ 58 :: (pad s 2 ++ 46 :: (ds ++ [90])))) =
      some ([(.H, pad h 2), (.none, [58]), (.M, pad mi 2), (.none, [58]), (.S, pad s 2), (.none, [46]),
        (.f, ds), (.none, [90])], []) :=
    H_field h hh _ _ _ _ (colon_field _ _ _ _ (M_field mi hm _ _ _ _ (colon_field _ _ _ _
      (S_field s hs _ _ _ _ (dot_field _ _ _ _ (fk_field ds hd h1 h6 _ _ _ _ (by intro c t h; cases h; omega)
        (Z_field _ _ _ _ (matchItems_nil []))))))))
  simp only [hm']
  have e : ¬ s > 59 := by omega
  have hne : ds ≠ [] := by intro h0; subst h0; simp at h1
  simp [field?, List.find?, field_beq, natOf_pad, daysInMonth, e, natOf_frac ds hd hne]

/-- **`decode_datetime` reads `HH:MM:SS.f…` with one to six fraction digits, with or without `Z`**: the
    fraction is scaled to microseconds -/
theorem decodeDatetimeBase_time_frac (g : Grammar) (hg : TimeTablesOK6 g = true) (h mi s : Nat)
    (hh : h < 24) (hm : mi < 60) (hs : s < 60) (ds : Str) (hd : AllDigits ds) (h1 : 1 ≤ ds.length)
    (h6 : ds.length ≤ 6) :
    decodeDatetimeBase g (pad h 2 ++ 58 :: (pad mi 2 ++ 58 :: (pad s 2 ++ 46 :: ds))) =
      some (.time h mi s (fracMicros ds) (defaultTz g)) ∧
    decodeDatetimeBase g (pad h 2 ++ 58 :: (pad mi 2 ++ 58 :: (pad s 2 ++ 46 :: (ds ++ [90])))) =
      some (.time h mi s (fracMicros ds) (some 0)) := by
  have hne : ds ≠ [] := by intro h0; subst h0; simp at h1
  have hg3 : TimeTablesOK g = true := by
    simp only [TimeTablesOK6, Bool.and_eq_true, beq_iff_eq] at hg
    simp only [TimeTablesOK, Bool.and_eq_true, beq_iff_eq]
    refine ⟨hg.1, ?_⟩
    have := congrArg (List.take 3) hg.2
    simpa [List.take_take] using this
  simp only [TimeTablesOK6, Bool.and_eq_true, beq_iff_eq] at hg
  have htf : ∃ r, g.timeFormats = fmtHM :: fmtHMS :: fmtHMSf :: fmtHMZ :: fmtHMSZ :: fmtHMSfZ :: r := by
    have h6' := hg.2
    match hl : g.timeFormats, h6' with
    | a :: b :: c :: d :: e :: f :: r, h6' =>
      simp at h6'
      obtain ⟨rfl, rfl, rfl, rfl, rfl, rfl⟩ := h6'
      exact ⟨r, rfl⟩
    | [], h6' => simp at h6'
    | [_], h6' => simp at h6'
    | [_, _], h6' => simp at h6'
    | [_, _, _], h6' => simp at h6'
    | [_, _, _, _], h6' => simp at h6'
    | [_, _, _, _, _], h6' => simp at h6'
  obtain ⟨r, htf⟩ := htf
  constructor
  · unfold decodeDatetimeBase
    have hdates : firstSome (strptime (pad h 2 ++ 58 :: (pad mi 2 ++ 58 :: (pad s 2 ++ 46 :: ds)))) g.dateFormats = none := by
      rw [pad2_cons h (by omega)]
      exact dates_fail g hg3 _ _ _
    have hz : endsWith (pad h 2 ++ 58 :: (pad mi 2 ++ 58 :: (pad s 2 ++ 46 :: ds))) [90] = false := by
      have : pad h 2 ++ 58 :: (pad mi 2 ++ 58 :: (pad s 2 ++ 46 :: ds)) =
          (pad h 2 ++ 58 :: (pad mi 2 ++ 58 :: (pad s 2 ++ [46]))) ++ ds := by simp
      rw [this]; exact endsWith_digits _ _ hne hd
    rw [hdates]
    simp only [hz, Bool.false_eq_true, if_false]
    rw [htf]
    rw [firstSome_cons_none _ _ _ (strptime_HM_more h mi hh hm 58 (pad s 2 ++ 46 :: ds))]
    rw [firstSome_cons_none _ _ _ (strptime_HMS_more h mi s hh hm hs 46 ds)]
    rw [firstSome_cons_some _ _ _ _ (strptime_HMSfk h mi s hh hm hs ds hd h1 h6)]
    simp [defaultTz]
  · unfold decodeDatetimeBase
    have hdates : firstSome (strptime (pad h 2 ++ 58 :: (pad mi 2 ++ 58 :: (pad s 2 ++ 46 :: (ds ++ [90])))))
        g.dateFormats = none := by
      rw [pad2_cons h (by omega)]
      exact dates_fail g hg3 _ _ _
    have hz : endsWith (pad h 2 ++ 58 :: (pad mi 2 ++ 58 :: (pad s 2 ++ 46 :: (ds ++ [90])))) [90] = true := by
      have : pad h 2 ++ 58 :: (pad mi 2 ++ 58 :: (pad s 2 ++ 46 :: (ds ++ [90]))) =
          (pad h 2 ++ 58 :: (pad mi 2 ++ 58 :: (pad s 2 ++ 46 :: ds))) ++ [90] := by simp
      rw [this]; exact endsWith_snoc _ 90
    rw [hdates]
    simp only [hz, if_true]
    rw [htf]
    rw [firstSome_cons_none _ _ _ (strptime_HM_more h mi hh hm 58 (pad s 2 ++ 46 :: (ds ++ [90])))]
    rw [firstSome_cons_none _ _ _ (strptime_HMS_more h mi s hh hm hs 46 (ds ++ [90]))]
    rw [firstSome_cons_none _ _ _ (strptime_HMSfk_Z_more h mi s hh hm hs ds hd h1 h6)]
    rw [firstSome_cons_none _ _ _ (strptime_fail_of_match_none _ _ _ compile_HMZ
      (HM_then_lit_fail h mi hh hm 90 dZ [] 58 (pad s 2 ++ 46 :: (ds ++ [90])) (by decide)))]
    rw [firstSome_cons_none _ _ _ (strptime_fail_of_match_none _ _ _ compile_HMSZ
      (HMS_then_lit_fail h mi s hh hm hs 90 dZ [] 46 (ds ++ [90]) (by decide)))]
    rw [firstSome_cons_some _ _ _ _ (strptime_HMSfkZ h mi s hh hm hs ds hd h1 h6)]

end Pvl
