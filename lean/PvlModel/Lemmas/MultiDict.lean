import PvlModel.Model.MultiDict

/-! Helper lemmas for the C10 refinement proof. -/
namespace Pvl.MD
variable {K V : Type} [DecidableEq K]

@[simp] theorem dget_dset (d : Dict K V) (k k' : K) (vs : List V) :
    dget (dset d k vs) k' = if k = k' then some vs else dget d k' := by
  induction d with
  | nil => simp [dset, dget]
  | cons p r ih =>
    obtain ⟨a, b⟩ := p
    by_cases h : a = k
    · subst h; by_cases h2 : a = k' <;> simp [dset, dget, h2]
    · by_cases h2 : k = k'
      · subst h2; simp [dset, dget, h, ih]
      · simp only [dset, h, if_false, dget, ih, h2]

@[simp] theorem dget_ddel (d : Dict K V) (k k' : K) :
    dget (ddel d k) k' = if k = k' then none else dget d k' := by
  induction d with
  | nil => simp [ddel, dget]
  | cons p r ih =>
    obtain ⟨a, b⟩ := p
    by_cases h : a = k
    · subst h
      by_cases h2 : a = k'
      · subst h2; simpa [ddel] using ih
      · simpa [ddel, dget, h2] using ih
    · by_cases h2 : k = k'
      · subst h2; simp [ddel, dget, h, ih]
      · simp only [ddel, h, if_false, dget, ih, h2]

namespace Spec

theorem valuesOf_append (a b : List (K × V)) (k : K) :
    valuesOf (a ++ b) k = valuesOf a k ++ valuesOf b k := by
  simp [valuesOf]

@[simp] theorem valuesOf_nil (k : K) : valuesOf ([] : List (K × V)) k = [] := rfl

theorem valuesOf_cons (p : K × V) (l : List (K × V)) (k : K) :
    valuesOf (p :: l) k = if p.1 = k then p.2 :: valuesOf l k else valuesOf l k := by
  by_cases h : p.1 = k <;> simp [valuesOf, h]

theorem valuesOf_single (k k' : K) (v : V) :
    valuesOf [(k, v)] k' = if k = k' then [v] else [] := by
  by_cases h : k = k' <;> simp [valuesOf, h]

theorem hasKey_cons (p : K × V) (l : List (K × V)) (k : K) :
    hasKey (p :: l) k = (decide (p.1 = k) || hasKey l k) := rfl

theorem hasKey_iff_valuesOf (l : List (K × V)) (k : K) :
    hasKey l k = true ↔ valuesOf l k ≠ [] := by
  induction l with
  | nil => simp [hasKey]
  | cons p r ih =>
    rw [valuesOf_cons]
    by_cases h : p.1 = k
    · simp [hasKey, h]
    · simp only [hasKey, List.any_cons, h, decide_false, Bool.false_or, if_false] at *
      exact ih

theorem hasKey_false_iff (l : List (K × V)) (k : K) :
    hasKey l k = false ↔ valuesOf l k = [] := by
  have := hasKey_iff_valuesOf l k
  cases h : hasKey l k <;> simp_all

theorem valuesOf_remove (l : List (K × V)) (k k' : K) :
    valuesOf (remove l k) k' = if k = k' then [] else valuesOf l k' := by
  induction l with
  | nil => simp [remove]
  | cons p r ih =>
    simp only [remove] at ih
    by_cases h : p.1 = k
    · subst h
      by_cases h2 : p.1 = k'
      · simp [remove, h2] at *; exact ih
      · simp [remove, valuesOf_cons, h2] at *; exact ih
    · have h' : (decide (p.1 ≠ k)) = true := by simp [h]
      by_cases h2 : k = k'
      · subst h2
        simp only [remove, List.filter_cons, h', if_true, valuesOf_cons, h, if_false] at *
        exact ih
      · simp only [remove, List.filter_cons, h', if_true, valuesOf_cons, h2, if_false] at *
        rw [ih]

theorem valuesOf_filter_ne (l : List (K × V)) (k k' : K) :
    valuesOf (l.filter (fun p => !decide (p.1 = k))) k' = if k = k' then [] else valuesOf l k' := by
  have := valuesOf_remove l k k'
  simpa [remove] using this

theorem valuesOf_replaceFirst (l : List (K × V)) (k k' : K) (v : V) :
    valuesOf (replaceFirst k v l) k' =
      if k = k' then (if hasKey l k then [v] else []) else valuesOf l k' := by
  induction l with
  | nil => simp [replaceFirst, hasKey]
  | cons p r ih =>
    obtain ⟨a, b⟩ := p
    by_cases h : a = k
    · subst h
      by_cases h2 : a = k'
      · subst h2
        simp [replaceFirst, valuesOf_cons, hasKey, valuesOf_filter_ne]
      · simp [replaceFirst, valuesOf_cons, h2, valuesOf_filter_ne]
    · by_cases h2 : k = k'
      · subst h2
        have hc : hasKey ((a, b) :: r) k = hasKey r k := by
          rw [hasKey_cons]; simp [h]
        simp only [replaceFirst, h, if_false, valuesOf_cons, ih, if_true, hc]
      · simp only [replaceFirst, h, if_false, valuesOf_cons, ih, h2]

end Spec

open Spec

theorem inv_empty : Inv (empty : OMD K V) := by
  intro k; simp [empty, dget]

theorem contains_eq_hasKey {s : OMD K V} (h : Inv s) (k : K) :
    contains s k = hasKey s.items k := by
  unfold contains
  rw [h k]
  cases hk : hasKey s.items k
  · rw [hasKey_false_iff] at hk; simp [hk]
  · rw [hasKey_iff_valuesOf] at hk; simp [hk]

/-- `append` keeps the representations in step and appends to the list. -/
theorem append_items (s : OMD K V) (k : K) (v : V) : (append s k v).items = s.items ++ [(k, v)] := rfl

theorem inv_append {s : OMD K V} (h : Inv s) (k : K) (v : V) : Inv (append s k v) := by
  intro k'
  simp only [append, valuesOf_append, valuesOf_single]
  rw [h k]
  by_cases hk : k = k'
  · subst hk
    by_cases he : valuesOf s.items k = []
    · simp [he]
    · simp [he]
  · by_cases he : valuesOf s.items k = []
    · simp [he, hk, h k']
    · simp [he, hk, h k']

theorem extend_items (s : OMD K V) (ps : List (K × V)) : (extend s ps).items = s.items ++ ps := by
  induction ps generalizing s with
  | nil => simp [extend]
  | cons p r ih =>
    simp only [extend, List.foldl_cons] at *
    rw [ih, append_items]; simp

theorem inv_extend {s : OMD K V} (h : Inv s) (ps : List (K × V)) : Inv (extend s ps) := by
  induction ps generalizing s with
  | nil => simpa [extend]
  | cons p r ih =>
    simp only [extend, List.foldl_cons] at *
    exact ih (inv_append h _ _)

theorem setitem_items {s : OMD K V} (h : Inv s) (k : K) (v : V) :
    (setitem s k v).items = assign s.items k v := by
  unfold setitem assign
  rw [contains_eq_hasKey h]
  cases hk : hasKey s.items k <;> simp [append]

theorem inv_setitem {s : OMD K V} (h : Inv s) (k : K) (v : V) : Inv (setitem s k v) := by
  unfold setitem
  rw [contains_eq_hasKey h]
  cases hk : hasKey s.items k
  · simpa using inv_append h k v
  · intro k'
    simp only [Bool.not_true, Bool.false_eq_true, if_false, dget_dset, valuesOf_replaceFirst, hk,
      if_true]
    by_cases h2 : k = k'
    · simp [h2]
    · simp [h2, h k']

theorem delitem_spec {s : OMD K V} (h : Inv s) (k : K) :
    delitem s k = if hasKey s.items k
      then .ok { items := remove s.items k, dict := ddel s.dict k } else .error .key := by
  unfold delitem
  rw [h k]
  cases hk : hasKey s.items k
  · rw [hasKey_false_iff] at hk; simp [hk]
  · rw [hasKey_iff_valuesOf] at hk; simp [hk, remove]

theorem inv_remove {s : OMD K V} (h : Inv s) (k : K) :
    Inv ({ items := remove s.items k, dict := ddel s.dict k } : OMD K V) := by
  intro k'
  simp only [dget_ddel, valuesOf_remove]
  by_cases h2 : k = k'
  · simp [h2]
  · simp [h2, h k']

theorem getitem_spec {s : OMD K V} (h : Inv s) (k : K) :
    getitem s k = match first s.items k with
      | some v => .ok v
      | none => .error .key := by
  unfold getitem first
  rw [h k]
  cases hv : valuesOf s.items k <;> simp

theorem getall_spec {s : OMD K V} (h : Inv s) (k : K) :
    getall s k = if hasKey s.items k then .ok (valuesOf s.items k) else .error .key := by
  unfold getall
  rw [h k]
  cases hk : hasKey s.items k
  · rw [hasKey_false_iff] at hk; simp [hk]
  · rw [hasKey_iff_valuesOf] at hk; simp [hk]

theorem first_none_iff (l : List (K × V)) (k : K) : first l k = none ↔ hasKey l k = false := by
  rw [hasKey_false_iff]; unfold first
  cases valuesOf l k <;> simp

theorem first_some_hasKey {l : List (K × V)} {k : K} {v : V} (h : first l k = some v) :
    hasKey l k = true := by
  cases hk : hasKey l k
  · rw [← first_none_iff] at hk; rw [hk] at h; cases h
  · rfl

/-! ### pop() -/

theorem valuesOf_dropLast_snoc (l : List (K × V)) (k k' : K) (v : V) :
    valuesOf l k' = if k = k' then (valuesOf (l ++ [(k, v)]) k').dropLast
                    else valuesOf (l ++ [(k, v)]) k' := by
  rw [valuesOf_append, valuesOf_single]
  by_cases h : k = k' <;> simp [h]

theorem popLast_spec {s : OMD K V} (h : Inv s) :
    (∀ p, s.items.getLast? = some p →
      ∃ s', popLast s = .ok (p, s') ∧ s'.items = s.items.dropLast ∧ Inv s') ∧
    (s.items.getLast? = none → popLast s = .error .key) := by
  constructor
  · intro p hp
    obtain ⟨k, v⟩ := p
    have hl : s.items = s.items.dropLast ++ [(k, v)] := by
      obtain ⟨ys, hys⟩ := List.getLast?_eq_some_iff.mp hp
      rw [hys]; simp
    have hv : valuesOf s.items k = valuesOf s.items.dropLast k ++ [v] := by
      conv => lhs; rw [hl]
      rw [valuesOf_append, valuesOf_single]; simp
    unfold popLast
    simp only [hp]
    rw [h k, hv]
    simp only [List.append_eq_nil_iff, List.cons_ne_self, and_false, if_false, List.dropLast_concat]
    refine ⟨_, rfl, rfl, ?_⟩
    intro k'
    have hv' := valuesOf_dropLast_snoc s.items.dropLast k k' v
    rw [← hl] at hv'
    by_cases h2 : k = k'
    · subst h2
      by_cases he : valuesOf s.items.dropLast k = []
      · simp [he]
      · simp [he]
    · simp only [h2, if_false] at hv'
      by_cases he : valuesOf s.items.dropLast k = []
      · simp [he, h2, hv', h k']
      · simp [he, h2, hv', h k']
  · intro hn
    unfold popLast; simp [hn]

/-! ### insert -/

theorem pyInsert_nat (l : List (K × V)) (i : Nat) (x : K × V) (h : i ≤ l.length) :
    pyInsert l (i : Int) x = l.take i ++ x :: l.drop i := by
  unfold pyInsert
  have h1 : ¬ ((i : Int) < 0) := by omega
  have h2 : ¬ ((i : Int) > (l.length : Int)) := by omega
  simp [h1, h2]

theorem normIndex_le (n : Nat) (i : Int) : normIndex n i ≤ n := by
  unfold normIndex
  simp only
  split
  · split <;> omega
  · split <;> omega

theorem valuesOf_insert (l : List (K × V)) (i : Nat) (k k' : K) (v : V) :
    valuesOf (l.take i ++ (k, v) :: l.drop i) k' =
      if k = k' then valuesOf (l.take i) k' ++ v :: valuesOf (l.drop i) k' else valuesOf l k' := by
  rw [valuesOf_append, valuesOf_cons]
  by_cases h : k = k'
  · simp [h]
  · simp only [h, if_false]
    rw [← valuesOf_append, List.take_append_drop]

theorem inv_insertOne {s : OMD K V} (h : Inv s) (i : Nat) (hi : i ≤ s.items.length) (k : K) (v : V) :
    Inv (insertOne s i k v) ∧
    (insertOne s i k v).items = s.items.take i ++ (k, v) :: s.items.drop i := by
  refine ⟨?_, by simp [insertOne, pyInsert_nat _ _ _ hi]⟩
  intro k'
  simp only [insertOne, pyInsert_nat _ _ _ hi]
  rw [contains_eq_hasKey h]
  have hv : valuesOf (s.items.take i ++ (k, v) :: s.items.drop i) k
      = (List.filter (fun p => decide (p.1 = k)) (s.items.take i ++ (k, v) :: s.items.drop i)).map (·.2) := rfl
  by_cases h2 : k = k'
  · subst h2
    cases hk : hasKey s.items k
    · have hk' := hk
      rw [hasKey_false_iff] at hk'
      have e1 : valuesOf (s.items.take i) k = [] := by
        have := congrArg (fun l => valuesOf l k) (List.take_append_drop i s.items)
        simp only [valuesOf_append, hk'] at this
        simp_all
      have e2 : valuesOf (s.items.drop i) k = [] := by
        have := congrArg (fun l => valuesOf l k) (List.take_append_drop i s.items)
        simp only [valuesOf_append, hk'] at this
        simp_all
      simp [valuesOf_insert, e1, e2]
    · simp only [if_true, dget_dset, ← hv]
      rw [valuesOf_insert]; simp
  · cases hk : hasKey s.items k <;>
      simp [dget_dset, h2, valuesOf_insert, h k']

theorem insertLoop_spec {s : OMD K V} (h : Inv s) (i : Nat) (hi : i ≤ s.items.length)
    (ps : List (K × V)) :
    Inv (insertLoop s i ps) ∧
    (insertLoop s i ps).items = s.items.take i ++ ps ++ s.items.drop i := by
  induction ps generalizing s i with
  | nil => simp [insertLoop, h]
  | cons p r ih =>
    obtain ⟨k, v⟩ := p
    obtain ⟨hinv, hitems⟩ := inv_insertOne h i hi k v
    have hlen : i + 1 ≤ (insertOne s i k v).items.length := by
      rw [hitems]; simp; omega
    obtain ⟨h1, h2⟩ := ih hinv (i + 1) hlen
    refine ⟨by simpa [insertLoop] using h1, ?_⟩
    simp only [insertLoop]
    rw [h2, hitems]
    have ht : (s.items.take i).length = i := by simp; omega
    have hc : s.items.take i ++ (k, v) :: s.items.drop i
        = (s.items.take i ++ [(k, v)]) ++ s.items.drop i := by simp
    have hl1 : (s.items.take i ++ [(k, v)]).length = i + 1 := by simp [ht]
    have e1 : List.take (i + 1) (s.items.take i ++ (k, v) :: s.items.drop i)
        = s.items.take i ++ [(k, v)] := by
      rw [hc]; exact List.take_left' hl1
    have e2 : List.drop (i + 1) (s.items.take i ++ (k, v) :: s.items.drop i)
        = s.items.drop i := by
      rw [hc]; exact List.drop_left' hl1
    rw [e1, e2]; simp

theorem insert_spec {s : OMD K V} (h : Inv s) (i : Int) (ps : List (K × V)) :
    Inv (insert s i ps) ∧ (insert s i ps).items = splice s.items i ps := by
  have := insertLoop_spec h (normIndex s.items.length i) (normIndex_le _ _) ps
  exact ⟨this.1, by simpa [insert, splice] using this.2⟩

theorem keyIndex_spec {s : OMD K V} (h : Inv s) (k : K) (inst : Int) :
    keyIndex s k inst = Spec.keyIndex s.items k inst := by
  unfold keyIndex Spec.keyIndex
  rw [contains_eq_hasKey h]

/-! ### update -/

theorem update_spec {s : OMD K V} (h : Inv s) (ps : List (K × V)) :
    Inv (update s ps) ∧ (update s ps).items = ps.foldl (fun l p => assign l p.1 p.2) s.items := by
  induction ps generalizing s with
  | nil => simp [update, h]
  | cons p r ih =>
    simp only [update, List.foldl_cons] at *
    have := ih (inv_setitem h p.1 p.2)
    rw [setitem_items h] at this
    exact this

end Pvl.MD
