import PvlModel.Model.Spec

/-! Bracket accounting for the specification (`Model/Spec.lean`): every `(`, `)`, `{`, `}` the recogniser
    consumes belongs to exactly one sequence / set node of the tree it returns.  So the oracle used for
    C05 cannot accept a text whose brackets do not balance before END. -/
namespace Pvl.Spec

/-- number of tokens of class `c` -/
def cnt (c : STok) (ts : Toks) : Nat := (ts.filter (fun p => p.2 == c)).length

@[simp] theorem cnt_nil (c : STok) : cnt c [] = 0 := rfl
theorem cnt_cons (c : STok) (p : Nat × STok) (ts : Toks) :
    cnt c (p :: ts) = (if p.2 == c then 1 else 0) + cnt c ts := by
  unfold cnt
  by_cases h : (p.2 == c) = true <;> simp [List.filter_cons, h] <;> omega

mutual
def SVal.nSeq : SVal → Nat
  | .seq l => 1 + nSeqL l
  | .set l => nSeqL l
  | .units v _ => v.nSeq
  | _ => 0
def nSeqL : List SVal → Nat
  | [] => 0
  | v :: r => v.nSeq + nSeqL r
end

mutual
def SVal.nSet : SVal → Nat
  | .seq l => nSetL l
  | .set l => 1 + nSetL l
  | .units v _ => v.nSet
  | _ => 0
def nSetL : List SVal → Nat
  | [] => 0
  | v :: r => v.nSet + nSetL r
end

@[simp] theorem nSeqL_append (a b : List SVal) : nSeqL (a ++ b) = nSeqL a + nSeqL b := by
  induction a with
  | nil => simp [nSeqL]
  | cons v r ih => simp [nSeqL, ih]; omega
@[simp] theorem nSetL_append (a b : List SVal) : nSetL (a ++ b) = nSetL a + nSetL b := by
  induction a with
  | nil => simp [nSetL]
  | cons v r ih => simp [nSetL, ih]; omega

/-- the four bracket counts of a token list -/
structure B4 where
  lp : Nat
  rp : Nat
  lb : Nat
  rb : Nat
  deriving DecidableEq

def b4 (ts : Toks) : B4 := ⟨cnt .lpar ts, cnt .rpar ts, cnt .lbrace ts, cnt .rbrace ts⟩

/-- `ts` lost exactly `s` sequences' and `t` sets' worth of brackets on the way to `r` -/
def Used (ts r : Toks) (s t : Nat) : Prop :=
  (b4 ts).lp = s + (b4 r).lp ∧ (b4 ts).rp = s + (b4 r).rp ∧ (b4 ts).lb = t + (b4 r).lb ∧ (b4 ts).rb = t + (b4 r).rb

theorem optUnits_used (d : Dialect) (n : Bool) (v : SVal) (ts : Toks) :
    Used ts (optUnits d n v ts).2 0 0 ∧ (optUnits d n v ts).1.nSeq = v.nSeq ∧ (optUnits d n v ts).1.nSet = v.nSet := by
  unfold optUnits
  split
  · split
    · simp [Used]
    · simp [Used, b4, cnt_cons, SVal.nSeq, SVal.nSet]
  · simp [Used]

end Pvl.Spec

namespace Pvl.Spec

def one (b : Bool) : Nat := if b then 1 else 0

/-- accounting for `sElems` / `sMore`: as `Used`, plus the one closing bracket, plus what was in `acc` -/
def UsedC (close : STok) (ts r : Toks) (acc l : List SVal) : Prop :=
  (b4 ts).lp + nSeqL acc = nSeqL l + (b4 r).lp ∧
  (b4 ts).rp + nSeqL acc = nSeqL l + one (close == .rpar) + (b4 r).rp ∧
  (b4 ts).lb + nSetL acc = nSetL l + (b4 r).lb ∧
  (b4 ts).rb + nSetL acc = nSetL l + one (close == .rbrace) + (b4 r).rb

def ValueAcc (d : Dialect) (fuel : Nat) : Prop :=
  (∀ ts v r, sValue d fuel ts = some (v, r) → Used ts r v.nSeq v.nSet) ∧
  (∀ close ts l r, (close = .rpar ∨ close = .rbrace) → sElems d fuel close ts = some (l, r) →
    UsedC close ts r [] l) ∧
  (∀ close acc ts l r, (close = .rpar ∨ close = .rbrace) → sMore d fuel close acc ts = some (l, r) →
    UsedC close ts r acc l)

theorem valueAcc_zero (d : Dialect) : ValueAcc d 0 := by
  refine ⟨?_, ?_, ?_⟩
  · intro ts v r h; simp [sValue] at h
  · intro c ts l r _ h; simp [sElems] at h
  · intro c a ts l r _ h; simp [sMore] at h

theorem used_trans {a b c : Toks} {s1 t1 s2 t2 : Nat} (h1 : Used a b s1 t1) (h2 : Used b c s2 t2) :
    Used a c (s1 + s2) (t1 + t2) := by
  unfold Used at *; omega

theorem valueAcc_succ (d : Dialect) (n : Nat) (ih : ValueAcc d n) : ValueAcc d (n + 1) := by
  obtain ⟨ihV, ihE, ihM⟩ := ih
  refine ⟨?_, ?_, ?_⟩
  · intro ts v r h
    unfold sValue at h
    split at h
    · -- word
      rename_i i w nn rest
      simp only [Option.some.injEq] at h
      have := optUnits_used d nn (.tok i) rest
      rw [h] at this
      obtain ⟨hu, hs, ht⟩ := this
      simp only [SVal.nSeq, SVal.nSet] at hs ht
      rw [hs, ht]
      simp only [Used, b4, cnt_cons] at hu ⊢
      simp at hu ⊢
      omega
    · rename_i i nn rest
      simp only [Option.some.injEq] at h
      have := optUnits_used d nn (.tok i) rest
      rw [h] at this
      obtain ⟨hu, hs, ht⟩ := this
      simp only [SVal.nSeq, SVal.nSet] at hs ht
      rw [hs, ht]
      simp only [Used, b4, cnt_cons] at hu ⊢
      simp at hu ⊢
      omega
    · -- ( … )
      rename_i i rest
      split at h
      · rename_i l r' he
        simp only [Option.some.injEq] at h
        have hE := ihE .rpar rest l r' (Or.inl rfl) he
        have := optUnits_used d false (.seq l) r'
        rw [h] at this
        obtain ⟨hu, hs, ht⟩ := this
        simp only [SVal.nSeq, SVal.nSet] at hs ht
        rw [hs, ht]
        simp only [Used, UsedC, b4, cnt_cons, nSeqL, nSetL, one] at hu hE ⊢
        simp at hu hE ⊢
        omega
      · cases h
    · rename_i i rest
      split at h
      · rename_i l r' he
        simp only [Option.some.injEq] at h
        have hE := ihE .rbrace rest l r' (Or.inr rfl) he
        have := optUnits_used d false (.set l) r'
        rw [h] at this
        obtain ⟨hu, hs, ht⟩ := this
        simp only [SVal.nSeq, SVal.nSet] at hs ht
        rw [hs, ht]
        simp only [Used, UsedC, b4, cnt_cons, nSeqL, nSetL, one] at hu hE ⊢
        simp at hu hE ⊢
        omega
      · cases h
    · cases h
  · intro close ts l r hc h
    unfold sElems at h
    split at h
    · rename_i i t rest
      split at h
      · rename_i heq
        simp only [Option.some.injEq, Prod.mk.injEq] at h
        obtain ⟨rfl, rfl⟩ := h
        subst heq
        rcases hc with rfl | rfl <;>
          (simp only [UsedC, b4, cnt_cons, nSeqL, nSetL, one]; simp)
      · rename_i hne
        split at h
        · rename_i v r' hv
          have hV := ihV _ v r' hv
          have hM := ihM close [v] r' l r hc h
          simp only [Used, UsedC, b4, nSeqL, nSetL] at hV hM ⊢
          omega
        · cases h
    · cases h
  · intro close acc ts l r hc h
    unfold sMore at h
    split at h
    · rename_i i t rest
      split at h
      · rename_i heq
        simp only [Option.some.injEq, Prod.mk.injEq] at h
        obtain ⟨rfl, rfl⟩ := h
        subst heq
        rcases hc with rfl | rfl <;>
          (simp only [UsedC, b4, cnt_cons, one]; simp; omega)
      · rename_i hne
        split at h
        · rename_i hcomma
          subst hcomma
          split at h
          · rename_i v r' hv
            have hV := ihV _ v r' hv
            have hM := ihM close (acc ++ [v]) r' l r hc h
            have hcc : close ≠ .comma := by rcases hc with rfl | rfl <;> simp
            simp only [Used, UsedC, b4, cnt_cons, nSeqL_append, nSetL_append, nSeqL, nSetL] at hV hM ⊢
            simp at hV hM ⊢
            omega
          · cases h
        · cases h
    · cases h

theorem valueAcc (d : Dialect) (fuel : Nat) : ValueAcc d fuel := by
  induction fuel with
  | zero => exact valueAcc_zero d
  | succ n ih => exact valueAcc_succ d n ih

end Pvl.Spec

namespace Pvl.Spec

/-- `r` is what is left of `ts` -/
def Suf (ts r : Toks) : Prop := ∃ pre, ts = pre ++ r

theorem Suf.refl (ts : Toks) : Suf ts ts := ⟨[], rfl⟩
theorem Suf.cons (p : Nat × STok) {ts r : Toks} (h : Suf ts r) : Suf (p :: ts) r := by
  obtain ⟨pre, rfl⟩ := h; exact ⟨p :: pre, rfl⟩
theorem Suf.trans {a b c : Toks} (h1 : Suf a b) (h2 : Suf b c) : Suf a c := by
  obtain ⟨p, rfl⟩ := h1; obtain ⟨q, rfl⟩ := h2; exact ⟨p ++ q, by simp⟩

theorem optUnits_suf (d : Dialect) (n : Bool) (v : SVal) (ts : Toks) : Suf ts (optUnits d n v ts).2 := by
  unfold optUnits
  split
  · split
    · exact Suf.refl _
    · exact Suf.cons _ (Suf.refl _)
  · exact Suf.refl _

def ValueSuf (d : Dialect) (fuel : Nat) : Prop :=
  (∀ ts v r, sValue d fuel ts = some (v, r) → Suf ts r) ∧
  (∀ close ts l r, sElems d fuel close ts = some (l, r) → Suf ts r) ∧
  (∀ close acc ts l r, sMore d fuel close acc ts = some (l, r) → Suf ts r)

theorem valueSuf (d : Dialect) (fuel : Nat) : ValueSuf d fuel := by
  induction fuel with
  | zero =>
    refine ⟨?_, ?_, ?_⟩
    · intro ts v r h; simp [sValue] at h
    · intro c ts l r h; simp [sElems] at h
    · intro c a ts l r h; simp [sMore] at h
  | succ n ih =>
    obtain ⟨ihV, ihE, ihM⟩ := ih
    refine ⟨?_, ?_, ?_⟩
    · intro ts v r h
      unfold sValue at h
      split at h
      · simp only [Option.some.injEq] at h
        have := optUnits_suf d ‹Bool› (.tok ‹Nat›) ‹Toks›
        rw [h] at this
        exact Suf.cons _ this
      · simp only [Option.some.injEq] at h
        have := optUnits_suf d ‹Bool› (.tok ‹Nat›) ‹Toks›
        rw [h] at this
        exact Suf.cons _ this
      · split at h
        · rename_i l r' he
          simp only [Option.some.injEq] at h
          have := optUnits_suf d false (.seq l) r'
          rw [h] at this
          exact Suf.cons _ ((ihE _ _ _ _ he).trans this)
        · cases h
      · split at h
        · rename_i l r' he
          simp only [Option.some.injEq] at h
          have := optUnits_suf d false (.set l) r'
          rw [h] at this
          exact Suf.cons _ ((ihE _ _ _ _ he).trans this)
        · cases h
      · cases h
    · intro close ts l r h
      unfold sElems at h
      split at h
      · split at h
        · simp only [Option.some.injEq, Prod.mk.injEq] at h
          obtain ⟨_, rfl⟩ := h
          exact Suf.cons _ (Suf.refl _)
        · split at h
          · rename_i v r' hv
            exact (ihV _ _ _ hv).trans (ihM _ _ _ _ _ h)
          · cases h
      · cases h
    · intro close acc ts l r h
      unfold sMore at h
      split at h
      · split at h
        · simp only [Option.some.injEq, Prod.mk.injEq] at h
          obtain ⟨_, rfl⟩ := h
          exact Suf.cons _ (Suf.refl _)
        · split at h
          · split at h
            · rename_i v r' hv
              exact Suf.cons _ ((ihV _ _ _ hv).trans (ihM _ _ _ _ _ h))
            · cases h
          · cases h
      · cases h

end Pvl.Spec

namespace Pvl.Spec

mutual
def SItem.nSeq : SItem → Nat
  | .assign _ v => v.nSeq
  | .block _ _ items => nSeqI items
def nSeqI : List SItem → Nat
  | [] => 0
  | i :: r => i.nSeq + nSeqI r
end

mutual
def SItem.nSet : SItem → Nat
  | .assign _ v => v.nSet
  | .block _ _ items => nSetI items
def nSetI : List SItem → Nat
  | [] => 0
  | i :: r => i.nSet + nSetI r
end

theorem used_refl (ts : Toks) : Used ts ts 0 0 := by simp [Used]

theorem used_cons (p : Nat × STok) (ts r : Toks) (s t : Nat) (h : Used ts r s t)
    (hp : p.2 ≠ .lpar ∧ p.2 ≠ .rpar ∧ p.2 ≠ .lbrace ∧ p.2 ≠ .rbrace) : Used (p :: ts) r s t := by
  obtain ⟨h1, h2, h3, h4⟩ := hp
  simp only [Used, b4, cnt_cons] at h ⊢
  simp [h1, h2, h3, h4] at h ⊢
  omega

theorem optSemi_used (ts : Toks) : Used ts (optSemi ts) 0 0 ∧ Suf ts (optSemi ts) := by
  unfold optSemi
  split
  · exact ⟨used_cons _ _ _ _ _ (used_refl _) (by simp), Suf.cons _ (Suf.refl _)⟩
  · exact ⟨used_refl _, Suf.refl _⟩

theorem nameOf_not_bracket (t : STok) (n : Str) (h : nameOf t = some n) :
    t ≠ .lpar ∧ t ≠ .rpar ∧ t ≠ .lbrace ∧ t ≠ .rbrace := by
  cases t <;> simp [nameOf] at h <;> simp

end Pvl.Spec

namespace Pvl.Spec

/-- bracket accounting and the suffix property for statement lists -/
def ItemsAcc (d : Dialect) (fuel : Nat) : Prop :=
  ∀ ts its r, sItems d fuel ts = some (its, r) → Used ts r (nSeqI its) (nSetI its) ∧ Suf ts r

theorem assign_case (d : Dialect) (n : Nat) (ih : ItemsAcc d n) (i e : Nat) (tk : STok)
    (htk : tk ≠ .lpar ∧ tk ≠ .rpar ∧ tk ≠ .lbrace ∧ tk ≠ .rbrace) (r : Toks) (its : List SItem) (rr : Toks)
    (h : (match (if (d.omni && missingOk r) = true then some (SVal.missing e, r) else sValue d n r) with
          | none => none
          | some (v, r') =>
            match sItems d n (optSemi r') with
            | some (rest, r'') => some (SItem.assign i v :: rest, r'')
            | none => none) = some (its, rr)) :
    Used ((i, tk) :: (e, .eq) :: r) rr (nSeqI its) (nSetI its) ∧ Suf ((i, tk) :: (e, .eq) :: r) rr := by
  split at h
  · cases h
  · rename_i v r' hv
    split at h
    · rename_i rest r'' hrest
      simp only [Option.some.injEq, Prod.mk.injEq] at h
      obtain ⟨rfl, rfl⟩ := h
      obtain ⟨hu2, hs2⟩ := ih _ _ _ hrest
      obtain ⟨hu1, hs1⟩ := optSemi_used r'
      have hval : Used r r' v.nSeq v.nSet ∧ Suf r r' := by
        split at hv
        · simp only [Option.some.injEq, Prod.mk.injEq] at hv
          obtain ⟨rfl, rfl⟩ := hv
          exact ⟨by simpa [SVal.nSeq, SVal.nSet] using used_refl r, Suf.refl _⟩
        · exact ⟨(valueAcc d n).1 _ _ _ hv, (valueSuf d n).1 _ _ _ hv⟩
      have hu := used_trans (used_trans hval.1 hu1) hu2
      refine ⟨?_, Suf.cons _ (Suf.cons _ (hval.2.trans (hs1.trans hs2)))⟩
      have := used_cons (i, tk) _ _ _ _ (used_cons (e, .eq) _ _ _ _ hu (by simp)) htk
      simpa [nSeqI, nSetI, SItem.nSeq, SItem.nSet, Nat.add_assoc] using this
    · cases h

end Pvl.Spec

namespace Pvl.Spec

theorem block_finish (d : Dialect) (n : Nat) (ih : ItemsAcc d n) (g : Bool) (nidx b0 e0 k0 : Nat) (t : STok)
    (name : Str) (hname : nameOf t = some name) (rest r2 r3 : Toks) (g' : Bool) (inner : List SItem)
    (hinner : sItems d n (optSemi rest) = some (inner, (k0, .endKw g') :: r2))
    (hmid : Used r2 r3 0 0 ∧ Suf r2 r3) (its : List SItem) (r : Toks)
    (h : (match sItems d n (optSemi r3) with
          | some (rest', r4) => some (SItem.block g nidx inner :: rest', r4)
          | none => none) = some (its, r)) :
    Used ((b0, STok.beginKw g) :: (e0, STok.eq) :: (nidx, t) :: rest) r (nSeqI its) (nSetI its) ∧
      Suf ((b0, STok.beginKw g) :: (e0, STok.eq) :: (nidx, t) :: rest) r := by
  split at h
  · rename_i rest' r4 hrest
    simp only [Option.some.injEq, Prod.mk.injEq] at h
    obtain ⟨rfl, rfl⟩ := h
    obtain ⟨hu1, hs1⟩ := optSemi_used rest
    obtain ⟨hu2, hs2⟩ := ih _ _ _ hinner
    obtain ⟨hu4, hs4⟩ := optSemi_used r3
    obtain ⟨hu5, hs5⟩ := ih _ _ _ hrest
    have hn := nameOf_not_bracket t name hname
    have hchain := used_trans (used_trans (used_trans (used_trans hu1 hu2)
      (used_cons (k0, .endKw g') _ _ _ _ hmid.1 (by simp))) hu4) hu5
    refine ⟨?_, Suf.cons _ (Suf.cons _ (Suf.cons _ (hs1.trans (hs2.trans
      ((Suf.cons _ hmid.2).trans (hs4.trans hs5))))))⟩
    have := used_cons (b0, .beginKw g) _ _ _ _ (used_cons (e0, .eq) _ _ _ _
      (used_cons (nidx, t) _ _ _ _ hchain hn) (by simp)) (by simp)
    simpa [nSeqI, nSetI, SItem.nSeq, SItem.nSet, Nat.add_assoc] using this
  · cases h

theorem itemsAcc (d : Dialect) (fuel : Nat) : ItemsAcc d fuel := by
  induction fuel with
  | zero => intro ts its r h; simp [sItems] at h
  | succ n ih =>
    intro ts its r h
    unfold sItems at h
    split at h
    · exact assign_case d n ih _ _ _ (by simp) _ _ _ h
    · exact assign_case d n ih _ _ _ (by simp) _ _ _ h
    · -- block
      rename_i b0 g e0 nidx t rest
      split at h
      · cases h
      · rename_i name hname
        split at h
        · cases h
        · rename_i inner r' hinner
          split at h
          · rename_i k0 g' r2
            split at h
            · cases h
            · -- the shape of what follows the end keyword
              split at h
              · rename_i q0 q1 t' r3'
                by_cases hn' : nameOf t' = some name
                · simp only [hn', if_true] at h
                  exact block_finish d n ih g nidx b0 e0 k0 t name hname rest _ r3' g' inner hinner
                    ⟨used_cons _ _ _ _ _ (used_cons _ _ _ _ _ (used_refl _) (nameOf_not_bracket t' _ hn')) (by simp),
                      Suf.cons _ (Suf.cons _ (Suf.refl _))⟩ its r h
                · simp [hn'] at h
              · simp at h
              · simp only at h
                exact block_finish d n ih g nidx b0 e0 k0 t name hname rest _ _ g' inner hinner
                  ⟨used_refl _, Suf.refl _⟩ its r h
          · cases h
    · simp only [Option.some.injEq, Prod.mk.injEq] at h
      obtain ⟨rfl, rfl⟩ := h
      exact ⟨by simpa [nSeqI, nSetI] using used_refl ts, Suf.refl _⟩

end Pvl.Spec

namespace Pvl.Spec

theorem cnt_append (c : STok) (a b : Toks) : cnt c (a ++ b) = cnt c a + cnt c b := by
  simp [cnt, List.filter_append]

/-- **the specification accepts only texts whose brackets balance before END**: whenever `sModule`
    returns a tree, the tokens it consumed — everything, or everything before an END statement — contain
    as many `(` as `)` and as many `{` as `}`, each pair belonging to one sequence / set node -/
theorem sModule_balanced (d : Dialect) (ts : Toks) (items : List SItem) (h : sModule d ts = some items) :
    ∃ pre r, ts = pre ++ r ∧ (r = [] ∨ ∃ i rest, r = (i, .endStmt) :: rest) ∧
      cnt .lpar pre = nSeqI items ∧ cnt .rpar pre = nSeqI items ∧
      cnt .lbrace pre = nSetI items ∧ cnt .rbrace pre = nSetI items := by
  unfold sModule at h
  split at h
  · rename_i its hi
    simp only [Option.some.injEq] at h
    subst h
    obtain ⟨hu, pre, hpre⟩ := itemsAcc d _ _ _ _ hi
    refine ⟨pre, [], hpre, Or.inl rfl, ?_⟩
    simp only [Used, b4, hpre, cnt_append, cnt_nil] at hu
    omega
  · rename_i its i rest hi
    simp only [Option.some.injEq] at h
    subst h
    obtain ⟨hu, pre, hpre⟩ := itemsAcc d _ _ _ _ hi
    refine ⟨pre, _, hpre, Or.inr ⟨i, rest, rfl⟩, ?_⟩
    simp only [Used, b4, cnt_append] at hu
    rw [hpre] at hu
    simp only [cnt_append] at hu
    omega
  · cases h

end Pvl.Spec
