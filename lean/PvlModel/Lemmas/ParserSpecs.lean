import Std.Do
import Std.Tactic.Do
import PvlModel.Model.Parser

/-!
  Hoare-style specifications of the parser model's monadic functions, proved with `mvcgen`
  (Lean core's verification-condition generator for monadic programs).  They are the lemmas behind
  C06 (only documented error types escape) and C05 (a `LexerError` is never swallowed).

  Exception post-conditions say which `PErr` a function may raise *and* what the generator state is
  then, because callers turn a "soft" `ValueError` into "try the next production".
-/
namespace Pvl.P
open Std.Do

set_option mvcgen.warning false

/-- errors that may leave `pvl.loads`: `LexerError`, `ParseError`; `fuel` is the model's marker for
    non-termination -/
def Hard (c : PCfg) (e : PErr) : Prop :=
  e.isLexer = true ∨ ((∃ t, e = .parse t) ∧ c.tail = .eof) ∨ e = .fuel

/-- the hard errors of the value-level functions: their `ParseError`s carry no token.  A `ParseError`
    always means that the tokens ran out *normally* (the lexer reached the end of the text). -/
def Hard0 (c : PCfg) (e : PErr) : Prop :=
  e.isLexer = true ∨ (e = .parse none ∧ c.tail = .eof) ∨ e = .fuel

theorem Hard0.hard {c e} (h : Hard0 c e) : Hard c e := by
  rcases h with h | h | h
  · exact Or.inl h
  · exact Or.inr (Or.inl ⟨⟨none, h.1⟩, h.2⟩)
  · exact Or.inr (Or.inr h)

/-- the generator invariant: a pushed-back token implies a live generator that has lexed something -/
def Inv (c : PCfg) (s : PSt) : Prop :=
  (∀ t, s.gen.pushed = some t → s.gen.last = some t) ∧
  (s.gen.dead = true → (s.gen.pushed = none ∧ c.tail = .eof))

/-- just received the token `t` -/
def GotT (t : Token) (s : PSt) : Prop := s.gen.dead = false ∧ s.gen.pushed = none ∧ s.gen.last = some t

/-- just received a token -/
def Got (s : PSt) : Prop := ∃ t, GotT t s

/-- a token is waiting in the push-back slot (the one most recently lexed) -/
def Pend (s : PSt) : Prop := s.gen.dead = false ∧ ∃ t, s.gen.pushed = some t ∧ s.gen.last = some t

/-- the next `next()` will not run the lexer: it returns the pushed token or raises StopIteration -/
def Rdy (c : PCfg) (s : PSt) : Prop := (s.gen.dead = true ∧ s.gen.pushed = none ∧ c.tail = .eof) ∨ Pend s

theorem GotT.got {t s} (h : GotT t s) : Got s := ⟨t, h⟩
theorem Got.inv {c s} (h : Got s) : Inv c s := by
  obtain ⟨t, h⟩ := h; simp_all [GotT, Inv]
theorem Pend.inv {c s} (h : Pend s) : Inv c s := by
  obtain ⟨hd, t, hp, hl⟩ := h; simp_all [Inv]
theorem Pend.rdy {c s} (h : Pend s) : Rdy c s := Or.inr h
theorem Rdy.inv {c s} (h : Rdy c s) : Inv c s := by
  rcases h with h | h
  · simp_all [Inv]
  · exact h.inv

macro "vc_close" : tactic => `(tactic|
  all_goals (first
    | assumption
    | (intros; simp_all [Hard, Hard0, Inv, Got, GotT, Pend, Rdy, PErr.isLexer, PErr.isValueError]; done)
    | (simp_all (config := {zetaDelta := true}) [Hard, Hard0, Inv, Got, GotT, Pend, Rdy, PErr.isLexer, PErr.isValueError]; done)
    | grind [Hard, Hard0, Inv, Got, GotT, Pend, Rdy, PErr.isLexer, PErr.isValueError]))

/-! ### the generator protocol -/

/-- `next(tokens)`: on success a token was just received; it can only fail with StopIteration (and the
    generator is finished) or with the character-set LexerError. -/
theorem next_spec (c : PCfg) :
    ⦃fun s => ⌜Inv c s⌝⦄ (next c : PM Token)
    ⦃post⟨fun r s => ⌜GotT r s⌝,
          fun e s => ⌜(e = .stop ∧ s.gen.dead = true ∧ s.gen.pushed = none ∧ c.tail = .eof) ∨
                      (e.isLexer = true ∧ c.tail ≠ .eof)⌝⟩⦄ := by
  mvcgen [next]
  vc_close

/-- when a token is waiting (or the generator is finished) `next` cannot raise a LexerError -/
theorem next_rdy_spec (c : PCfg) :
    ⦃fun s => ⌜Rdy c s⌝⦄ (next c : PM Token)
    ⦃post⟨fun r s => ⌜GotT r s⌝,
          fun e s => ⌜e = .stop ∧ s.gen.dead = true ∧ s.gen.pushed = none ∧ c.tail = .eof⌝⟩⦄ := by
  mvcgen [next]
  vc_close

/-- with a token waiting, `next` returns it and cannot fail -/
theorem next_pend_spec (c : PCfg) :
    ⦃fun s => ⌜Pend s⌝⦄ (next c : PM Token) ⦃post⟨fun r s => ⌜GotT r s⌝, fun _ _ => ⌜False⌝⟩⦄ := by
  mvcgen [next]
  vc_close

/-- `tokens.send(t)` right after a token was received never fails and leaves it waiting -/
theorem send_spec (t : Token) :
    ⦃fun s => ⌜GotT t s⌝⦄ (send t : PM Unit) ⦃post⟨fun _ s => ⌜Pend s⌝, fun _ _ => ⌜False⌝⟩⦄ := by
  mvcgen [send]
  vc_close

/-- `tokens.throw(...)` into a live generator that has lexed something is a LexerError -/
theorem throwIn_live_spec {α} :
    ⦃fun s => ⌜s.gen.dead = false ∧ s.gen.last.isSome = true⌝⦄ (throwIn : PM α)
    ⦃post⟨fun _ _ => ⌜False⌝, fun e _ => ⌜e.isLexer = true⌝⟩⦄ := by
  mvcgen [throwIn]
  vc_close

/-- in any state `tokens.throw(...)` raises a LexerError or the plain ValueError -/
theorem throwIn_spec {α} :
    ⦃fun _ => ⌜True⌝⦄ (throwIn : PM α)
    ⦃post⟨fun _ _ => ⌜False⌝, fun e _ => ⌜e.isLexer = true ∨ e = .value⌝⟩⦄ := by
  mvcgen [throwIn]
  vc_close

theorem emptyValue_spec (c : PCfg) (pos : Int) (P : PSt → Prop)
    (hP : ∀ s l, P s → P { s with errors := s.errors ++ [l] }) :
    ⦃fun s => ⌜P s⌝⦄ (emptyValue c pos : PM Val) ⦃post⟨fun _ s => ⌜P s⌝, fun _ _ => ⌜False⌝⟩⦄ := by
  mvcgen [emptyValue]
  rename_i h _
  exact hP _ _ h

theorem emptyValue_Pend_spec (c : PCfg) (pos : Int) :
    ⦃fun s => ⌜Pend s⌝⦄ (emptyValue c pos : PM Val) ⦃post⟨fun _ s => ⌜Pend s⌝, fun _ _ => ⌜False⌝⟩⦄ :=
  emptyValue_spec c pos Pend (by intro s l h; exact h)

theorem emptyValue_Inv_spec (c : PCfg) (pos : Int) :
    ⦃fun s => ⌜Inv c s⌝⦄ (emptyValue c pos : PM Val) ⦃post⟨fun _ s => ⌜Inv c s⌝, fun _ _ => ⌜False⌝⟩⦄ :=
  emptyValue_spec c pos (Inv c) (by intro s l h; exact h)

/-! ### white space, delimiters, `=` -/

/-- `parse_WSC_until`: `true` = the wanted token was just consumed; `false` = a token was pushed back or
    the tokens ran out.  It raises nothing but the LexerError of the lexer (and the fuel marker). -/
theorem wscUntil_spec (c : PCfg) (tok : Option Str) (fuel : Nat) :
    ⦃fun s => ⌜Inv c s⌝⦄ (wscUntil c tok fuel : PM Bool)
    ⦃post⟨fun b s => ⌜(b = true → Got s ∧ tok.isSome = true) ∧ (b = false → Rdy c s)⌝,
          fun e _ => ⌜e.isLexer = true ∨ e = .fuel⌝⟩⦄ := by
  induction fuel with
  | zero => unfold wscUntil; mvcgen; vc_close
  | succ n ih =>
    unfold wscUntil
    mvcgen [next_spec, send_spec, ih]
    vc_close

theorem stmtDelim_spec (c : PCfg) (fuel : Nat) :
    ⦃fun s => ⌜Inv c s⌝⦄ (stmtDelim c fuel : PM Bool)
    ⦃post⟨fun b s => ⌜(b = true → Got s) ∧ (b = false → Rdy c s)⌝,
          fun e _ => ⌜e.isLexer = true ∨ e = .fuel⌝⟩⦄ := by
  induction fuel with
  | zero => unfold stmtDelim; mvcgen; vc_close
  | succ n ih =>
    unfold stmtDelim
    mvcgen [next_spec, send_spec, ih]
    vc_close

/-- `parse_around_equals`: a soft `ValueError` means a token other than `=` was found and pushed back -/
theorem aroundEquals_spec (c : PCfg) (fuel : Nat) :
    ⦃fun s => ⌜Inv c s⌝⦄ (aroundEquals c fuel : PM Unit)
    ⦃post⟨fun _ s => ⌜Rdy c s⌝,
          fun e s => ⌜e.isLexer = true ∨ e = .fuel ∨ (e = .parse none ∧ Inv c s ∧ c.tail = .eof) ∨ (e = .value ∧ Pend s)⌝⟩⦄ := by
  unfold aroundEquals
  mvcgen [wscUntil_spec, next_spec, send_spec]
  vc_close

/-! ### values, sets, sequences, units -/

/-- a live generator that has lexed something: `tokens.throw` gives a LexerError -/
def Live (s : PSt) : Prop := s.gen.dead = false ∧ s.gen.last.isSome = true

theorem Pend.live {s} (h : Pend s) : Live s := by
  obtain ⟨hd, t, hp, hl⟩ := h; exact ⟨hd, by simp [hl]⟩
theorem Got.live {s} (h : Got s) : Live s := by
  obtain ⟨t, hd, hp, hl⟩ := h; exact ⟨hd, by simp [hl]⟩

macro "vc_close2" : tactic => `(tactic|
  all_goals (first
    | assumption
    | (intros; simp_all [Hard, Hard0, Inv, Got, GotT, Pend, Rdy, Live, PErr.isLexer, PErr.isValueError]; done)
    | (simp_all (config := {zetaDelta := true}) [Hard, Hard0, Inv, Got, GotT, Pend, Rdy, Live, PErr.isLexer, PErr.isValueError]; done)
    | grind [Hard, Hard0, Inv, Got, GotT, Pend, Rdy, Live, PErr.isLexer, PErr.isValueError]))

theorem throwIn_Live_spec {α} :
    ⦃fun s => ⌜Live s⌝⦄ (throwIn : PM α)
    ⦃post⟨fun _ _ => ⌜False⌝, fun e _ => ⌜e.isLexer = true⌝⟩⦄ := by
  mvcgen [throwIn]
  vc_close2

/-- `parse_units`: a soft failure (no units expression follows) leaves a consistent generator -/
theorem units_spec (c : PCfg) (v : Val) :
    ⦃fun s => ⌜Inv c s⌝⦄ (units c v : PM Val)
    ⦃post⟨fun _ s => ⌜Inv c s⌝,
          fun e s => ⌜e.isLexer = true ∨ ((e = .value ∨ e = .stop) ∧ Inv c s)⌝⟩⦄ := by
  unfold units
  mvcgen [next_spec, send_spec, throwIn_Live_spec]
  vc_close2

/-- `parse_value_post_hook`: its soft failure leaves a live generator -/
theorem valueHook_spec (c : PCfg) :
    ⦃fun s => ⌜Pend s⌝⦄ (valueHook c : PM Val)
    ⦃post⟨fun _ s => ⌜Inv c s⌝, fun e s => ⌜e = .value ∧ Live s⌝⟩⦄ := by
  unfold valueHook
  mvcgen [next_pend_spec, send_spec, emptyValue_Pend_spec]
  vc_close2

/-- the five mutually recursive value functions, specified together at one fuel level -/
def ValueSpecs (c : PCfg) (fuel : Nat) : Prop :=
  (⦃fun s => ⌜Rdy c s⌝⦄ (value c fuel : PM Val)
    ⦃post⟨fun _ s => ⌜Inv c s⌝, fun e s => ⌜Hard0 c e ∨ (e = .stop ∧ s.gen.dead = true ∧ s.gen.pushed = none ∧ c.tail = .eof)⌝⟩⦄) ∧
  (∀ delims, ⦃fun s => ⌜Pend s⌝⦄ (setSeq c delims fuel : PM (List Val))
    ⦃post⟨fun _ s => ⌜Got s⌝, fun e s => ⌜Hard0 c e ∨ (e = .value ∧ Pend s)⌝⟩⦄) ∧
  (∀ delims acc, ⦃fun s => ⌜Inv c s⌝⦄ (setSeqLoop c delims acc fuel : PM (Option (List Val)))
    ⦃post⟨fun r s => ⌜(r.isSome = true → Got s) ∧ (r = none → c.tail = .eof)⌝,
          fun e _ => ⌜Hard0 c e ∨ (e = .stop ∧ c.tail = .eof)⌝⟩⦄) ∧
  (⦃fun s => ⌜Pend s⌝⦄ (pset c fuel : PM Val)
    ⦃post⟨fun _ s => ⌜Inv c s⌝, fun e s => ⌜Hard0 c e ∨ (e = .value ∧ Pend s)⌝⟩⦄) ∧
  (⦃fun s => ⌜Pend s⌝⦄ (pseq c fuel : PM Val)
    ⦃post⟨fun _ s => ⌜Inv c s⌝, fun e s => ⌜Hard0 c e ∨ (e = .value ∧ Pend s)⌝⟩⦄)

theorem valueSpecs_zero (c : PCfg) : ValueSpecs c 0 := by
  refine ⟨?_, ?_, ?_, ?_, ?_⟩
  · unfold value; mvcgen; vc_close2
  · intro d; unfold setSeq; mvcgen; vc_close2
  · intro d a; unfold setSeqLoop; mvcgen; vc_close2
  · unfold pset; mvcgen; vc_close2
  · unfold pseq; mvcgen; vc_close2

set_option maxHeartbeats 4000000 in
theorem valueSpecs_succ (c : PCfg) (n : Nat) (ih : ValueSpecs c n) : ValueSpecs c (n + 1) := by
  obtain ⟨ihValue, ihSetSeq, ihLoop, ihSet, ihSeq⟩ := ih
  refine ⟨?_, ?_, ?_, ?_, ?_⟩
  · unfold value
    mvcgen [softCatch, next_rdy_spec, send_spec, ihSet, ihSeq, valueHook_spec, throwIn_Live_spec,
      wscUntil_spec, units_spec]
    vc_close2
  · intro d
    unfold setSeq
    mvcgen [next_pend_spec, send_spec, wscUntil_spec, ihValue, ihLoop]
    vc_close2
  · intro d a
    unfold setSeqLoop
    mvcgen [next_spec, send_spec, wscUntil_spec, ihValue, ihLoop, throwIn_Live_spec]
    vc_close2
  · unfold pset
    mvcgen [ihSetSeq, throwIn_Live_spec]
    vc_close2
  · unfold pseq
    mvcgen [ihSetSeq]
    vc_close2

theorem valueSpecs (c : PCfg) (fuel : Nat) : ValueSpecs c fuel := by
  induction fuel with
  | zero => exact valueSpecs_zero c
  | succ n ih => exact valueSpecs_succ c n ih

/-- `parse_value` never fails softly: it raises a LexerError, a ParseError (without token), or
    StopIteration when the tokens had run out before it started. -/
theorem value_spec (c : PCfg) (fuel : Nat) :
    ⦃fun s => ⌜Rdy c s⌝⦄ (value c fuel : PM Val)
    ⦃post⟨fun _ s => ⌜Inv c s⌝, fun e s => ⌜Hard0 c e ∨ (e = .stop ∧ s.gen.dead = true ∧ s.gen.pushed = none ∧ c.tail = .eof)⌝⟩⦄ :=
  (valueSpecs c fuel).1

end Pvl.P
