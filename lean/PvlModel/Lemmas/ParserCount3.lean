import PvlModel.Lemmas.ParserCount2

/-! Accounting pass, continued: the default loader's parser class (`OmniParser`).  Its module post-hook rewrites
    the last item of the container under construction (the previous value is re-read as a parameter name); the
    accounting survives because a value that is re-read is never a block: `parser._simple_value` is reset when a
    block is completed, and the text of a block is not a parameter name.  This needs one more fact carried through
    the functions: productions that fail softly, and white-space skipping, leave `_simple_value` alone. -/
namespace Pvl.P
open Std.Do Py

set_option mvcgen.warning false

/-- the last item of `m`, if any, holds no block -/
def LastOK (m : Items) : Prop := ∀ k v, m.getLast? = some (k, v) → v.blocks = 0

/-- `_simple_value` can only name the last item if that item is not a block -/
def SimpleOK (m : Items) (s : PSt) : Prop := s.simple = none ∨ LastOK m

theorem lastOK_snoc (m : Items) (k : Str) (v : Val) (h : v.blocks = 0) : LastOK (m ++ [(k, v)]) := by
  intro k' v' hl
  simp at hl
  obtain ⟨_, rfl⟩ := hl
  exact h

macro "ct3_ghost" : tactic => `(tactic|
  all_goals (try (first
    | exact K (by assumption) (by assumption)
    | exact (fun s _ => K (by assumption) s)
    | exact (fun s => K (by assumption) s)
    | exact PSt.simple (by assumption)
    | exact (fun s _ => PSt.simple s)
    | exact (fun s => PSt.simple s))))

macro "ct3_close" : tactic => `(tactic|
  all_goals (first
    | assumption
    | (intros; simp_all [K, Same, Used, NotKw, b2n, Bc, Ec, TS, isBt, Val.blocks, HookPost, EndSeen, Finished, Hard, Hard0, Inv, Got, GotT, Pend, Rdy, Live, PErr.isLexer, PErr.isValueError]; done)
    | (intros; simp_all [K, Same, Used, NotKw, b2n, Bc, Ec, TS, isBt, Val.blocks, HookPost, EndSeen, Finished, Hard, Hard0, Inv, Got, GotT, Pend, Rdy, Live, PErr.isLexer, PErr.isValueError]; omega)
    | grind [K, Same, Used, Grew, NotKw, CfgOK, Sane, b2n, Bc, Ec, TS, isBt, SimpleOK, LastOK, lastOK_snoc, Val.blocks, decodeSimple_blocks, blocksI_append, blocksL_append, blocksI_single, blocksL_single, blocksI_nil, blocksL_nil, HookPost, EndSeen, Finished, Hard, Hard0, Inv, Got, GotT, Pend, Rdy, Live, PErr.isLexer, PErr.isValueError]
    | grind (splits := 40) [K, Same, Used, Grew, NotKw, CfgOK, Sane, b2n, Bc, Ec, TS, isBt, SimpleOK, LastOK, lastOK_snoc, Val.blocks, decodeSimple_blocks, blocksI_append, blocksL_append, blocksI_single, blocksL_single, blocksI_nil, blocksL_nil, HookPost, EndSeen, Finished, Hard, Hard0, Inv, Got, GotT, Pend, Rdy, Live, PErr.isLexer, PErr.isValueError]))

macro "ct3_one" : tactic => `(tactic|
  first
    | assumption
    | (intros; simp_all [K, Same, Used, NotKw, b2n, Bc, Ec, TS, isBt, Val.blocks, HookPost, EndSeen, Finished, Hard, Hard0, Inv, Got, GotT, Pend, Rdy, Live, PErr.isLexer, PErr.isValueError]; done)
    | (intros; simp_all [K, Same, Used, NotKw, b2n, Bc, Ec, TS, isBt, Val.blocks, HookPost, EndSeen, Finished, Hard, Hard0, Inv, Got, GotT, Pend, Rdy, Live, PErr.isLexer, PErr.isValueError]; omega)
    | grind [K, Same, Used, Grew, NotKw, CfgOK, Sane, b2n, Bc, Ec, TS, isBt, SimpleOK, LastOK, lastOK_snoc, Val.blocks, decodeSimple_blocks, blocksI_append, blocksL_append, blocksI_single, blocksL_single, blocksI_nil, blocksL_nil, HookPost, EndSeen, Finished, Hard, Hard0, Inv, Got, GotT, Pend, Rdy, Live, PErr.isLexer, PErr.isValueError]
    | grind (splits := 40) [K, Same, Used, Grew, NotKw, CfgOK, Sane, b2n, Bc, Ec, TS, isBt, SimpleOK, LastOK, lastOK_snoc, Val.blocks, decodeSimple_blocks, blocksI_append, blocksL_append, blocksI_single, blocksL_single, blocksI_nil, blocksL_nil, HookPost, EndSeen, Finished, Hard, Hard0, Inv, Got, GotT, Pend, Rdy, Live, PErr.isLexer, PErr.isValueError])

/-! ### the generator protocol, with `_simple_value` framed -/

theorem next_sm (c : PCfg) (k0 : Nat × Nat) (sm0 : Option Token) :
    ⦃fun s => ⌜Inv c s ∧ Same c k0 s ∧ s.simple = sm0⌝⦄ (next c : PM Token)
    ⦃post⟨fun r s => ⌜GotT r s ∧ Sane c r.text ∧ Used c k0 (b2n (isBt c r.text)) (b2n (isEt c r.text)) s ∧ s.simple = sm0⌝,
          fun e s => ⌜((e = .stop ∧ s.gen.dead = true ∧ s.gen.pushed = none ∧ c.tail = .eof) ∨
                      (e.isLexer = true ∧ c.tail ≠ .eof)) ∧ Same c k0 s ∧ s.simple = sm0⌝⟩⦄ := by
  mvcgen [next]
  all_goals (simp_all [Inv, GotT, Same, Used, TS, Bc, Ec, cntG, PErr.isLexer, b2n])
  all_goals (try omega)
  all_goals (try grind)

theorem send_sm (c : PCfg) (t : Token) (k1 : Nat × Nat) (sm0 : Option Token) :
    ⦃fun s => ⌜GotT t s ∧ Sane c t.text ∧ TS c s ∧ K c s = k1 ∧ s.simple = sm0⌝⦄ (send t : PM Unit)
    ⦃post⟨fun _ s => ⌜Pend s ∧ Bc c s = k1.1 + b2n (isBt c t.text) ∧ Ec c s = k1.2 + b2n (isEt c t.text) ∧ TS c s ∧
            s.simple = sm0⌝,
          fun _ _ => ⌜False⌝⟩⦄ := by
  mvcgen [send]
  all_goals (simp_all [GotT, Pend, K, TS, Bc, Ec, cntG, b2n])
  all_goals (try omega)
  all_goals (try grind)

theorem wscUntil_sm (c : PCfg) (tok : Option Str) (htok : ∀ x, tok = some x → NotKw c x) (fuel : Nat)
    (k0 : Nat × Nat) (sm0 : Option Token) :
    ⦃fun s => ⌜Inv c s ∧ Same c k0 s ∧ s.simple = sm0⌝⦄ (wscUntil c tok fuel : PM Bool)
    ⦃post⟨fun b s => ⌜(b = true → Got s ∧ tok.isSome = true) ∧ (b = false → Rdy c s) ∧ Same c k0 s ∧ s.simple = sm0⌝,
          fun e _ => ⌜e.isLexer = true ∨ e = .fuel⌝⟩⦄ := by
  induction fuel generalizing k0 sm0 with
  | zero => unfold wscUntil; mvcgen; ct3_close
  | succ n ih =>
    unfold wscUntil
    mvcgen -trivial [next_sm, send_sm, ih]
    ct3_ghost
    ct3_close


/-! ### statements -/

set_option maxHeartbeats 8000000 in
theorem assignmentBase_sm (c : PCfg) (hc : CfgOK c) (fuel : Nat) (k0 : Nat × Nat) (sm0 : Option Token) :
    ⦃fun s => ⌜Inv c s ∧ Same c k0 s ∧ s.simple = sm0⌝⦄ (assignmentBase c fuel : PM (Str × Val))
    ⦃post⟨fun r s => ⌜Inv c s ∧ Same c k0 s ∧ r.2.blocks = 0⌝,
          fun e s => ⌜Hard0 c e ∨ ((∃ t, e = .parse (some t)) ∧ Inv c s ∧ c.tail = .eof ∧ Same c k0 s) ∨
                      (e = .value ∧ Inv c s ∧ Same c k0 s ∧ s.simple = sm0)⌝⟩⦄ := by
  have hv := value_ct c hc fuel
  have hae := aroundEquals_ct c hc fuel
  unfold assignmentBase
  mvcgen -trivial [softCatch, next_sm, send_sm, hae, throwIn_Live_ct, hv, stmtDelim_ct]
  ct3_ghost
  ct3_close

set_option maxHeartbeats 8000000 in
theorem assignment_sm (c : PCfg) (hc : CfgOK c) (fuel : Nat) (k0 : Nat × Nat) (sm0 : Option Token) :
    ⦃fun s => ⌜Inv c s ∧ Same c k0 s ∧ s.simple = sm0⌝⦄ (assignment c fuel : PM (Str × Val))
    ⦃post⟨fun r s => ⌜Inv c s ∧ Same c k0 s ∧ r.2.blocks = 0⌝,
          fun e s => ⌜Hard c e ∨ (e = .value ∧ Inv c s ∧ Same c k0 s ∧ s.simple = sm0)⌝⟩⦄ := by
  have hA := assignmentBase_sm c hc fuel
  unfold assignment
  mvcgen -trivial [hA, emptyValue_ct]
  ct3_ghost
  ct3_close

theorem endStatement_sm (c : PCfg) (k0 : Nat × Nat) (sm0 : Option Token) :
    ⦃fun s => ⌜Inv c s ∧ Same c k0 s ∧ s.simple = sm0⌝⦄ (endStatement c : PM Unit)
    ⦃post⟨fun _ s => ⌜Inv c s ∧ Finished c s ∧ Same c k0 s⌝,
          fun e s => ⌜e.isLexer = true ∨ (e = .value ∧ Pend s ∧ Same c k0 s ∧ s.simple = sm0)⌝⟩⦄ := by
  unfold endStatement
  mvcgen -trivial [next_sm, send_sm]
  ct3_ghost
  ct3_close

set_option maxHeartbeats 8000000 in
theorem beginAgg_sm (c : PCfg) (hc : CfgOK c) (fuel : Nat) (k0 : Nat × Nat) (sm0 : Option Token) :
    ⦃fun s => ⌜Inv c s ∧ Same c k0 s ∧ s.simple = sm0⌝⦄ (beginAgg c fuel : PM (Str × Str))
    ⦃post⟨fun r s => ⌜Inv c s ∧ Used c k0 1 0 s ∧ isBt c r.1 = true ∧ Tok.isParameterName c.d r.2 = true⌝,
          fun e s => ⌜Hard0 c e ∨ (e = .value ∧ Inv c s ∧ Same c k0 s ∧ s.simple = sm0)⌝⟩⦄ := by
  have hae := aroundEquals_ct c hc fuel
  unfold beginAgg
  mvcgen -trivial [softCatch, next_sm, send_sm, hae, throwIn_Live_ct, stmtDelim_ct]
  ct3_ghost
  ct3_close

set_option maxHeartbeats 8000000 in
theorem endAgg_sm (c : PCfg) (hc : CfgOK c) (b n : Str) (hb : isBt c b = true)
    (hn : Tok.isParameterName c.d n = true) (fuel : Nat) (k0 : Nat × Nat) (sm0 : Option Token) :
    ⦃fun s => ⌜Inv c s ∧ Same c k0 s ∧ s.simple = sm0⌝⦄ (endAgg c b n fuel : PM Unit)
    ⦃post⟨fun _ s => ⌜Inv c s ∧ Used c k0 0 1 s⌝,
          fun e s => ⌜Hard0 c e ∨ (e = .stop ∧ c.tail = .eof) ∨ (e = .value ∧ Pend s ∧ Same c k0 s ∧ s.simple = sm0)⌝⟩⦄ := by
  have hae := aroundEquals_ct c hc fuel
  have hexp := isEt_of_expected c b
  unfold endAgg
  mvcgen -trivial [next_sm, send_sm, hae, throwIn_Live_ct, stmtDelim_ct]
  ct3_ghost
  ct3_close


/-! ### the module post-hook of the default loader -/

theorem tokenTextOf_block (v : Val) (h : v.blocks ≠ 0) : tokenTextOf v = [40] := by
  cases v <;> simp [Val.blocks] at h <;> rfl

theorem blocksI_getLast (m : Items) (k : Str) (v : Val) (h : m.getLast? = some (k, v)) :
    blocksI m = blocksI m.dropLast + v.blocks := by
  induction m with
  | nil => simp at h
  | cons p r ih =>
    cases r with
    | nil =>
      simp at h
      subst h
      simp [blocksI]
    | cons q r' =>
      rw [List.getLast?_cons_cons] at h
      have := ih h
      simp only [List.dropLast_cons_cons, blocksI] at this ⊢
      omega

/-- the value the hook re-reads as a name is never a block -/
theorem reread_not_block (c : PCfg) (hp40 : Tok.isParameterName c.d [40] = false) (m : Items) (st : PSt)
    (hs : SimpleOK m st) (k : Str) (v : Val) (hl : m.getLast? = some (k, v))
    (hn : Tok.isParameterName c.d (match st.simple with | some w => w.text | none => tokenTextOf v) = true) :
    v.blocks = 0 := by
  rcases hs with hs | hs
  · rw [hs] at hn
    simp only at hn
    by_cases hb : v.blocks = 0
    · exact hb
    · rw [tokenTextOf_block v hb, hp40] at hn; cases hn
  · exact hs k v hl

theorem simpleOK_congr (m : Items) (s s' : PSt) (h : SimpleOK m s) (he : s'.simple = s.simple) : SimpleOK m s' := by
  rcases h with h | h
  · exact Or.inl (by rw [he, h])
  · exact Or.inr h

theorem simpleOK_nil (s : PSt) : SimpleOK [] s := Or.inr (by intro k v h; simp at h)

theorem simpleOK_snoc (a : Items) (k : Str) (v : Val) (s : PSt) (h : v.blocks = 0) : SimpleOK (a ++ [(k, v)]) s :=
  Or.inr (lastOK_snoc a k v h)

theorem hook_blocks (c : PCfg) (hp40 : Tok.isParameterName c.d [40] = false) (m : Items) (st : PSt)
    (hs : SimpleOK m st) (k : Str) (v : Val) (hl : m.getLast? = some (k, v))
    (hn : Tok.isParameterName c.d (match st.simple with | some w => w.text | none => tokenTextOf v) = true) :
    blocksI m.dropLast = blocksI m := by
  have := reread_not_block c hp40 m st hs k v hl hn
  have h2 := blocksI_getLast m k v hl
  omega

/-- what the hook leaves, by outcome, with the accounting facts for the outcomes the callers continue from -/
def HookCt (c : PCfg) (k0 : Nat × Nat) (m : Items) (r : Items × Except PErr Bool) (s : PSt) : Prop :=
  HookPost c r s ∧
  ((r.2 = .ok true ∨ r.2 = .ok false ∨ r.2 = .error .exc) →
    Same c k0 s ∧ blocksI r.1 = blocksI m ∧ SimpleOK r.1 s)

set_option maxRecDepth 4000 in
set_option maxHeartbeats 32000000 in
theorem moduleHook_om (c : PCfg) (hc : CfgOK c) (hp40 : Tok.isParameterName c.d [40] = false) (m : Items)
    (fuel : Nat) (k0 : Nat × Nat) (sm0 : Option Token) :
    ⦃fun s => ⌜Pend s ∧ Same c k0 s ∧ s.simple = sm0 ∧ SimpleOK m s⌝⦄
      (moduleHook c m fuel : PM (Items × Except PErr Bool))
    ⦃post⟨fun r s => ⌜HookCt c k0 m r s⌝, fun _ _ => ⌜False⌝⟩⦄ := by
  have hv := value_ct c hc fuel
  have hno : ∀ x, (none : Option Str) = some x → NotKw c x := by intro x hx; cases hx
  have hw0 := wscUntil_ct c none hno
  have hkb := hook_blocks c hp40 m
  have hcg := simpleOK_congr m
  unfold moduleHook moduleHook.peek
  mvcgen -trivial [next_sm, send_sm, next_ct, send_ct, emptyValue_ct, mark_tm, hw0, hv, stmtDelim_ct]
  ct3_ghost
  all_goals (try unfold HookCt)
  all_goals (try ct3_one)
  all_goals (first
    | grind [K, Same, Used, NotKw, CfgOK, Sane, b2n, Bc, Ec, TS, isBt, simpleOK_snoc, Val.blocks, blocksI_append, blocksI_single, blocksI_nil, HookPost, Hard, Hard0, Inv, Got, GotT, Pend, Rdy, Live, PErr.isLexer, PErr.isValueError]
    | grind (splits := 40) [K, Same, Used, NotKw, CfgOK, Sane, b2n, Bc, Ec, TS, isBt, simpleOK_snoc, Val.blocks, blocksI_append, blocksI_single, blocksI_nil, HookPost, Hard, Hard0, Inv, Got, GotT, Pend, Rdy, Live, PErr.isLexer, PErr.isValueError]
    | grind (splits := 40) [K, Same, Used, NotKw, CfgOK, Sane, b2n, Bc, Ec, TS, isBt, simpleOK_snoc, Val.blocks, blocksI_append, blocksI_single, blocksI_nil, HookPost, Hard, Hard0, Inv, Got, GotT, Pend, Rdy, Live, isLexer_iff, PErr.isValueError]
    )


theorem hook_exc_continue (c : PCfg) (k0 : Nat × Nat) (m : Items) (r : Items × Except PErr Bool) (s : PSt)
    (a : PErr) (h : HookCt c k0 m r s) (hx : r.2 = .error a) (h1 : a = .fuel → False)
    (h2 : ∀ p, a = .lexer p → False) (h3 : ∀ t, a = .parse t → False) :
    Inv c s ∧ Same c (K c s) s ∧ SimpleOK r.1 s ∧ Pend s ∧ Same c k0 s ∧ blocksI r.1 = blocksI m := by
  obtain ⟨hp, hcc⟩ := h
  rcases hp with ⟨he, hpend⟩ | ⟨he, _⟩ | ⟨he, _⟩ | ⟨p, he⟩ | ⟨he, _⟩ | he
  · obtain ⟨hs, hb, hso⟩ := hcc (Or.inr (Or.inr he))
    refine ⟨hpend.inv, ?_, hso, hpend, hs, hb⟩
    exact ⟨rfl, rfl, hs.2.2⟩
  · rw [hx] at he; cases he
  · rw [hx] at he; cases he
  · rw [hx] at he; cases he; exact absurd rfl (fun e => h2 p e)
  · rw [hx] at he; cases he; exact absurd rfl (fun e => h3 none e)
  · rw [hx] at he; cases he; exact absurd rfl (fun e => h1 e)

/-! ### blocks and the module loop, any parser class -/

macro "ct3_g" : tactic => `(tactic|
  all_goals (first
    | assumption
    | grind [K, Same, Used, Grew, NotKw, CfgOK, Sane, b2n, Bc, Ec, TS, isBt, SimpleOK, simpleOK_nil, simpleOK_snoc, simpleOK_congr, HookCt, Val.blocks, blocksI_append, blocksI_single, blocksI_nil, HookPost, EndSeen, Finished, Hard, Hard0, Inv, Got, GotT, Pend, Rdy, Live, PErr.isLexer, PErr.isValueError]
    | grind (splits := 40) [K, Same, Used, Grew, NotKw, CfgOK, Sane, b2n, Bc, Ec, TS, isBt, SimpleOK, simpleOK_nil, simpleOK_snoc, simpleOK_congr, HookCt, Val.blocks, blocksI_append, blocksI_single, blocksI_nil, HookPost, EndSeen, Finished, Hard, Hard0, Inv, Got, GotT, Pend, Rdy, Live, PErr.isLexer, PErr.isValueError]
    | grind (splits := 40) [K, Same, Used, Grew, NotKw, CfgOK, Sane, b2n, Bc, Ec, TS, isBt, SimpleOK, simpleOK_nil, simpleOK_snoc, simpleOK_congr, HookCt, Val.blocks, blocksI_append, blocksI_single, blocksI_nil, HookPost, EndSeen, Finished, Hard, Hard0, Inv, Got, GotT, Pend, Rdy, Live, isLexer_iff, PErr.isValueError]))

def AggOm (c : PCfg) (fuel : Nat) : Prop :=
  (∀ k0 sm0, ⦃fun s => ⌜Inv c s ∧ Same c k0 s ∧ s.simple = sm0⌝⦄ (aggBlock c fuel : PM (Str × Val))
    ⦃post⟨fun r s => ⌜Inv c s ∧ Used c k0 r.2.blocks r.2.blocks s ∧ s.simple = none⌝,
          fun e s => ⌜Hard c e ∨ (e = .value ∧ Inv c s ∧ Same c k0 s ∧ s.simple = sm0)⌝⟩⦄) ∧
  (∀ b n agg k1, isBt c b = true → Tok.isParameterName c.d n = true →
    ⦃fun s => ⌜Inv c s ∧ Same c k1 s ∧ SimpleOK agg s⌝⦄ (aggLoop c b n agg fuel : PM Items)
    ⦃post⟨fun r s => ⌜Inv c s ∧ Grew c k1 agg r 1 s ∧ 0 ≤ fuel⌝, fun e _ => ⌜Hard c e ∧ 0 ≤ fuel⌝⟩⦄)

theorem aggOm_zero (c : PCfg) : AggOm c 0 := by
  refine ⟨?_, ?_⟩
  · intro k0 sm0; unfold aggBlock; mvcgen; ct3_close
  · intro b n a k1 _ _; unfold aggLoop; mvcgen; ct3_close

set_option maxRecDepth 4000 in
set_option maxHeartbeats 64000000 in
theorem aggOm_succ (c : PCfg) (hc : CfgOK c) (hp40 : Tok.isParameterName c.d [40] = false)
    (hcls : ∀ b, isBt c b = true → aggregationCls c.g b ≠ none) (k : Nat) (ih : AggOm c k) : AggOm c (k + 1) := by
  obtain ⟨ihBlock, ihLoop⟩ := ih
  have hno : ∀ x, (none : Option Str) = some x → NotKw c x := by intro x hx; cases hx
  have hw0 := wscUntil_sm c none hno
  have hA := assignment_sm c hc k
  have hB := beginAgg_sm c hc k
  have hH := fun m => moduleHook_om c hc hp40 m k
  refine ⟨?_, ?_⟩
  · intro k0 sm0
    unfold aggBlock
    mvcgen -trivial [hB, throwIn_Live_ct, ihLoop]
    ct3_ghost
    ct3_g
  · intro b n a k1 hb hn
    have hE := endAgg_sm c hc b n hb hn k
    have ihL := fun agg k1 => ihLoop b n agg k1 hb hn
    unfold aggLoop
    mvcgen -trivial [softCatch, hw0, ihBlock, ihL, hA, hE, hH, throwIn_Live_ct]
    ct3_ghost
    ct3_g


theorem aggOm (c : PCfg) (hc : CfgOK c) (hp40 : Tok.isParameterName c.d [40] = false)
    (hcls : ∀ b, isBt c b = true → aggregationCls c.g b ≠ none) (fuel : Nat) : AggOm c fuel := by
  induction fuel with
  | zero => exact aggOm_zero c
  | succ n ih => exact aggOm_succ c hc hp40 hcls n ih

set_option maxRecDepth 4000 in
set_option maxHeartbeats 64000000 in
/-- **`parse_module` of any parser class accounts for every block keyword** -/
theorem moduleLoop_om (c : PCfg) (hc : CfgOK c) (hp40 : Tok.isParameterName c.d [40] = false)
    (hcls : ∀ b, isBt c b = true → aggregationCls c.g b ≠ none) (fuel : Nat) :
    ∀ m k1, ⦃fun s => ⌜Inv c s ∧ Same c k1 s ∧ SimpleOK m s⌝⦄ (moduleLoop c m fuel : PM Items)
      ⦃post⟨fun r s => ⌜Grew c k1 m r 0 s ∧ 0 ≤ fuel⌝, fun _ _ => ⌜0 ≤ fuel⌝⟩⦄ := by
  induction fuel with
  | zero => intro m k1; unfold moduleLoop; mvcgen; ct3_g
  | succ k ih =>
    intro m k1
    have hno : ∀ x, (none : Option Str) = some x → NotKw c x := by intro x hx; cases hx
    have hw0 := wscUntil_sm c none hno
    have hA := assignment_sm c hc k
    have hB := (aggOm c hc hp40 hcls k).1
    have hH := fun m => moduleHook_om c hc hp40 m k
    have hxc := hook_exc_continue c
    unfold moduleLoop
    mvcgen -trivial [softCatch, hw0, hB, hA, endStatement_sm, hH, next_pend_ct, throwIn_Live_ct, ih]
    ct3_ghost
    all_goals (first
      | assumption
      | (exact (hook_exc_continue c _ _ _ _ _ (by assumption) (by assumption) (by assumption) (by assumption) (by assumption)).1)
      | (refine ⟨(hook_exc_continue c _ _ _ _ _ (by assumption) (by assumption) (by assumption) (by assumption) (by assumption)).1,
           (hook_exc_continue c _ _ _ _ _ (by assumption) (by assumption) (by assumption) (by assumption) (by assumption)).2.1,
           (hook_exc_continue c _ _ _ _ _ (by assumption) (by assumption) (by assumption) (by assumption) (by assumption)).2.2.1⟩)
      | grind [K, Same, Used, Grew, NotKw, CfgOK, Sane, b2n, Bc, Ec, TS, isBt, SimpleOK, simpleOK_nil, simpleOK_snoc, simpleOK_congr, HookCt, Val.blocks, blocksI_append, blocksI_single, blocksI_nil, HookPost, EndSeen, Finished, Hard, Hard0, Inv, Got, GotT, Pend, Rdy, Live, PErr.isLexer, PErr.isValueError]
      | grind (splits := 40) [K, Same, Used, Grew, NotKw, CfgOK, Sane, b2n, Bc, Ec, TS, isBt, SimpleOK, simpleOK_nil, simpleOK_snoc, simpleOK_congr, HookCt, Val.blocks, blocksI_append, blocksI_single, blocksI_nil, HookPost, EndSeen, Finished, Hard, Hard0, Inv, Got, GotT, Pend, Rdy, Live, isLexer_iff, PErr.isValueError]
      )

end Pvl.P
