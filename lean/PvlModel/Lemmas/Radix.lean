import PvlModel.Lemmas.Based
namespace Pvl
open Py Enc

/-! ### based integers in every radix 2–16 -/

/-- `c` is a digit of base `b`: an ASCII hexadecimal character whose value is below `b` -/
def DigitOf (b c : Nat) : Prop := isHex c = true ∧ digitValue c < b

/-- positional value in base `b`, most significant first -/
def baseVal (b : Nat) (s : Str) (acc : Nat) : Nat := s.foldl (fun a c => a * b + digitValue c) acc

theorem hex_facts (c : Nat) (h : isHex c = true) :
    c < 128 ∧ cSpace c = false ∧ c ≠ 95 ∧ c ≠ 43 ∧ c ≠ 45 ∧ c ≠ 35 := by
  simp only [isHex, Bool.or_eq_true, Bool.and_eq_true, decide_eq_true_eq] at h
  refine ⟨by omega, ?_, by omega, by omega, by omega, by omega⟩
  simp [cSpace]; omega

theorem scanDigits_base (b : Nat) (s : Str) (h : ∀ c ∈ s, DigitOf b c) (acc : Nat) (any : Bool)
    (hne : s ≠ [] ∨ any = true) : scanDigits b s acc false any = some (baseVal b s acc) := by
  induction s generalizing acc any with
  | nil => simp at hne; simp [scanDigits, baseVal, hne]
  | cons c r ih =>
    have hc := h c (by simp)
    have hf := hex_facts c hc.1
    unfold scanDigits
    have h95 : (c == 95) = false := by simp [hf.2.2.1]
    simp only [h95, Bool.false_eq_true, if_false, hc.2, if_true]
    rw [ih (fun x hx => h x (by simp [hx])) _ true (Or.inr rfl)]
    simp [baseVal]

/-- the second character of a digit string is never the letter of a `0b` / `0x` / `0o` prefix of its own base -/
theorem no_prefix (b p : Nat) (hp : DigitOf b p) :
    (b == 2 && (p == 98 || p == 66)) = false ∧ (b == 16 && (p == 120 || p == 88)) = false ∧
    (b == 8 && (p == 111 || p == 79)) = false := by
  obtain ⟨hx, hv⟩ := hp
  simp only [isHex, Bool.or_eq_true, Bool.and_eq_true, decide_eq_true_eq] at hx
  refine ⟨?_, ?_, ?_⟩
  · by_cases hb : b = 2
    · subst hb
      have : p ≠ 98 ∧ p ≠ 66 := by
        constructor <;> (intro e; subst e; simp [digitValue] at hv)
      simp [this.1, this.2]
    · simp [hb]
  · have : p ≠ 120 ∧ p ≠ 88 := by constructor <;> omega
    simp [this.1, this.2]
  · have : p ≠ 111 ∧ p ≠ 79 := by constructor <;> omega
    simp [this.1, this.2]

/-- `int(t, b)` where `t`, free of surrounding white space, splits into a sign and a non-empty string of
    base-`b` digits -/
theorem intBase_of_split (b : Nat) (t ds : Str) (neg : Bool) (ht : cstrip (toAsciiNum t) = t)
    (hs : splitSign t = (neg, ds)) (hd : ∀ c ∈ ds, DigitOf b c) (hne : ds ≠ []) :
    intBase t b = some (if neg then -(baseVal b ds 0 : Int) else (baseVal b ds 0 : Int)) := by
  unfold intBase
  rw [ht]
  simp only [hs]
  have hscan : scanDigits b ds 0 false false = some (baseVal b ds 0) :=
    scanDigits_base b _ hd 0 false (Or.inl hne)
  match ds, hd, hscan with
  | [], _, hscan => simp [hscan]
  | [a], _, hscan => simp [hscan]
  | a :: p :: r, hd, hscan =>
    obtain ⟨n1, n2, n3⟩ := no_prefix b p (hd p (by simp))
    by_cases ha : a = 48
    · subst ha
      simp [n1, n2, n3, hscan]
    · split
      · rename_i n heq
        split at heq
        · rename_i h48; simp at h48; exact absurd h48.1 ha
        · rw [hscan] at heq; cases heq; rfl
      · rename_i heq
        split at heq
        · rename_i h48; simp at h48; exact absurd h48.1 ha
        · rw [hscan] at heq; cases heq

theorem splitSign_hex (ds : Str) (hd : ∀ c ∈ ds, isHex c = true) : splitSign ds = (false, ds) := by
  cases ds with
  | nil => rfl
  | cons c r =>
    have hc := hex_facts c (hd c (by simp))
    unfold splitSign
    split
    · rename_i heq; simp at heq; omega
    · rename_i heq; simp at heq; omega
    · rfl

/-- **`int(digits, b)`** for a non-empty string of base-`b` digits -/
theorem intBase_digits (b : Nat) (ds : Str) (hd : ∀ c ∈ ds, DigitOf b c) (hne : ds ≠ []) :
    intBase ds b = some (baseVal b ds 0 : Int) := by
  have hascii : ∀ c ∈ ds, c < 128 := fun c hc => (hex_facts c (hd c hc).1).1
  have hsp : ∀ c ∈ ds, cSpace c = false := fun c hc => (hex_facts c (hd c hc).1).2.1
  obtain ⟨hh, hl⟩ := head_getLast_of_all (p := fun c => cSpace c = false) _ hsp
  have := intBase_of_split b ds ds false (by rw [toAsciiNum_of_ascii _ hascii, cstrip_id _ hh hl])
    (splitSign_hex ds (fun c hc => (hd c hc).1)) hd hne
  simpa using this

theorem takeWhile_hex (ds rest : Str) (h : ∀ c ∈ ds, isHex c = true) :
    (ds ++ 35 :: rest).takeWhile isHex = ds ∧ (ds ++ 35 :: rest).dropWhile isHex = 35 :: rest := by
  induction ds with
  | nil => simp [isHex]
  | cons c r ih =>
    have hc := h c (by simp)
    have ih' := ih (fun x hx => h x (by simp [hx]))
    simp [hc, ih'.1, ih'.2]

end Pvl

namespace Pvl
open Py Enc

/-- the decimal text of a radix 2–16, as ODL writes it before the first `#` -/
def radText (b : Nat) : Str := if b < 10 then [48 + b] else [49, 48 + (b - 10)]

theorem radixOdl_radText (b : Nat) (h2 : 2 ≤ b) (h16 : b ≤ 16) (rest : Str) :
    radixOdl (radText b ++ 35 :: rest) = some (b, 35 :: rest) := by
  unfold radText
  by_cases h : b < 10
  · simp only [h, if_true, List.cons_append, List.nil_append]
    unfold radixOdl
    split
    · rename_i heq; simp at heq; omega
    · rename_i heq
      simp at heq
      obtain ⟨rfl, rfl⟩ := heq
      have : (50 ≤ 48 + b && 48 + b ≤ 57) = true := by simp; omega
      simp [this]
    · rename_i heq; simp at heq
  · simp only [h, if_false, List.cons_append, List.nil_append]
    unfold radixOdl
    have : (48 ≤ 48 + (b - 10) && 48 + (b - 10) ≤ 54) = true := by simp; omega
    simp [this]; omega

theorem optSign_hex (c : Nat) (r : Str) (h : isHex c = true) : optSign (c :: r) = ([], c :: r) := by
  have := hex_facts c h
  unfold optSign
  split
  · rename_i heq; simp at heq; omega
  · rename_i heq; simp at heq; omega
  · rfl

/-- `int("-" ++ digits, b)` and `int("+" ++ digits, b)` -/
theorem intBase_signed (b : Nat) (ds : Str) (hd : ∀ c ∈ ds, DigitOf b c) (hne : ds ≠ []) (neg : Bool) :
    intBase ((if neg then 45 else 43) :: ds) b = some (if neg then -(baseVal b ds 0 : Int) else (baseVal b ds 0 : Int)) := by
  have hascii : ∀ c ∈ ds, c < 128 := fun c hc => (hex_facts c (hd c hc).1).1
  have hsp : ∀ c ∈ ds, cSpace c = false := fun c hc => (hex_facts c (hd c hc).1).2.1
  obtain ⟨hh, hl⟩ := head_getLast_of_all (p := fun c => cSpace c = false) _ hsp
  have hlast : ∀ c ∈ (((if neg then 45 else 43) : Nat) :: ds).getLast?, cSpace c = false := by
    intro c hc
    cases ds with
    | nil => exact absurd rfl hne
    | cons a r =>
      rw [List.getLast?_cons_cons] at hc
      exact hl c hc
  have hsg : cSpace (if neg then 45 else 43) = false := by cases neg <;> decide
  have hsgl : (if neg then 45 else 43 : Nat) < 128 := by cases neg <;> decide
  apply intBase_of_split b _ ds neg _ _ hd hne
  · rw [toAsciiNum_of_ascii _ (by intro c hc; rcases List.mem_cons.mp hc with rfl | h; exact hsgl; exact hascii c h),
      cstrip_id _ (by simpa using hsg) hlast]
  · cases neg <;> simp [splitSign]

/-- an optional sign: nothing, `+` or `-` -/
def SignText (t : Str) : Prop := t = [] ∨ t = [43] ∨ t = [45]

theorem intBase_sgt (b : Nat) (ds : Str) (hd : ∀ c ∈ ds, DigitOf b c) (hne : ds ≠ []) (sgt : Str)
    (hs : SignText sgt) :
    intBase (sgt ++ ds) b = some (if sgt = [45] then -(baseVal b ds 0 : Int) else (baseVal b ds 0 : Int)) := by
  rcases hs with rfl | rfl | rfl
  · simpa using intBase_digits b ds hd hne
  · simpa using intBase_signed b ds hd hne false
  · simpa using intBase_signed b ds hd hne true

theorem optSign_sgt (sgt : Str) (hs : SignText sgt) (c : Nat) (r : Str) (hc : c ≠ 43 ∧ c ≠ 45) :
    optSign (sgt ++ c :: r) = (sgt, c :: r) := by
  rcases hs with rfl | rfl | rfl
  · simp only [List.nil_append]
    unfold optSign
    split
    · rename_i heq; simp at heq; exact absurd heq.1 hc.1
    · rename_i heq; simp at heq; exact absurd heq.1 hc.2
    · rfl
  · simp [optSign]
  · simp [optSign]

/-- **ODL based integers**: `r#digits#`, `r#+digits#`, `r#-digits#` for every radix 2–16 and every
    non-empty string of digits of that radix denotes the positional value (negated after `-`) -/
theorem decodeNonDecimal_odl (g : Grammar) (k : DecKind) (hk : k = .odl ∨ k = .pds) (hg : g.ndPattern = patOdlNd)
    (b : Nat) (h2 : 2 ≤ b) (h16 : b ≤ 16) (ds : Str) (hd : ∀ c ∈ ds, DigitOf b c) (hne : ds ≠ [])
    (sgt : Str) (hs : SignText sgt) :
    decodeNonDecimal ⟨g, k⟩ (radText b ++ 35 :: (sgt ++ ds ++ [35])) =
      some (if sgt = [45] then -(baseVal b ds 0 : Int) else (baseVal b ds 0 : Int)) := by
  have hhex : ∀ c ∈ ds, isHex c = true := fun c hc => (hd c hc).1
  have htw := takeWhile_hex ds [] hhex
  obtain ⟨c0, r0, rfl⟩ : ∃ c0 r0, ds = c0 :: r0 := by
    cases ds with
    | nil => exact absurd rfl hne
    | cons a r => exact ⟨a, r, rfl⟩
  simp only [List.cons_append] at htw
  have hc0 := hex_facts c0 (hhex c0 (by simp))
  have hnd : ndFull patOdlNd (radText b ++ 35 :: (sgt ++ (c0 :: r0) ++ [35])) = some ⟨sgt, b, none, c0 :: r0⟩ := by
    unfold ndFull
    have h1 : (patOdlNd == patPvlNd || patOdlNd == patBin || patOdlNd == patOct || patOdlNd == patHex) = false := by decide
    have h2' : (patOdlNd == patOdlNd) = true := by decide
    simp only [h1, Bool.false_eq_true, if_false, h2', if_true, radixOdl_radText b h2 h16]
    rw [show sgt ++ (c0 :: r0) ++ [35] = sgt ++ c0 :: (r0 ++ [35]) by simp,
      optSign_sgt sgt hs c0 _ ⟨hc0.2.2.2.1, hc0.2.2.2.2.1⟩]
    simp [digitsHash]
    exact ⟨⟨by rw [htw.1]; simp, htw.2⟩, htw.1⟩
  unfold decodeNonDecimal
  rcases hk with rfl | rfl <;> simp only [hg, hnd] <;> exact intBase_sgt b _ hd hne sgt hs

end Pvl

namespace Pvl
open Py Enc

theorem takeWhile_cls (cls : Nat → Bool) (ds rest : Str) (h : ∀ c ∈ ds, cls c = true) (h35 : cls 35 = false) :
    (ds ++ 35 :: rest).takeWhile cls = ds ∧ (ds ++ 35 :: rest).dropWhile cls = 35 :: rest := by
  induction ds with
  | nil => simp [h35]
  | cons c r ih =>
    have hc := h c (by simp)
    have ih' := ih (fun x hx => h x (by simp [hx]))
    simp [hc, ih'.1, ih'.2]

/-- the radix as the PVL patterns spell it -/
def radTextPvl (b : Nat) : Str := if b = 2 then [50] else if b = 8 then [56] else [49, 54]

theorem digitOf_cls (b c : Nat) (h : DigitOf b c) :
    (b = 2 → (c == 48 || c == 49) = true) ∧ (b = 8 → (48 ≤ c && c ≤ 55) = true) := by
  obtain ⟨hx, hv⟩ := h
  simp only [isHex, Bool.or_eq_true, Bool.and_eq_true, decide_eq_true_eq] at hx
  have hval : digitValue c = if 48 ≤ c ∧ c ≤ 57 then c - 48 else if 97 ≤ c ∧ c ≤ 122 then c - 97 + 10
      else if 65 ≤ c ∧ c ≤ 90 then c - 65 + 10 else 37 := by
    simp [digitValue]
  rw [hval] at hv
  constructor
  · intro e; subst e
    split at hv
    · simp; omega
    · split at hv
      · omega
      · split at hv <;> omega
  · intro e; subst e
    split at hv
    · simp; omega
    · split at hv
      · omega
      · split at hv <;> omega

/-- **PVL based integers**: `2#…#`, `8#…#`, `16#…#` with an optional sign in front of the radix -/
theorem decodeNonDecimal_pvl (g : Grammar) (hg1 : g.binPattern = patBin) (hg2 : g.octPattern = patOct)
    (hg3 : g.hexPattern = patHex) (b : Nat) (hb : b = 2 ∨ b = 8 ∨ b = 16) (ds : Str) (hd : ∀ c ∈ ds, DigitOf b c)
    (hne : ds ≠ []) (sgt : Str) (hs : SignText sgt) :
    decodeNonDecimal ⟨g, .pvl⟩ (sgt ++ radTextPvl b ++
        35 :: (ds ++ [35])) =
      some (if sgt = [45] then -(baseVal b ds 0 : Int) else (baseVal b ds 0 : Int)) := by
  have hhex : ∀ c ∈ ds, isHex c = true := fun c hc => (hd c hc).1
  have hbe : ds.isEmpty = false := by cases ds <;> simp_all
  have hopt : optSign (sgt ++ radTextPvl b ++ 35 :: (ds ++ [35])) =
      (sgt, radTextPvl b ++ 35 :: (ds ++ [35])) := by
    unfold radTextPvl
    rcases hb with rfl | rfl | rfl
    · simpa using optSign_sgt sgt hs 50 (35 :: (ds ++ [35])) (by decide)
    · simpa using optSign_sgt sgt hs 56 (35 :: (ds ++ [35])) (by decide)
    · simpa using optSign_sgt sgt hs 49 (54 :: 35 :: (ds ++ [35])) (by decide)
  have hrad : radixPvl (radTextPvl b ++ 35 :: (ds ++ [35])) = some (b, 35 :: (ds ++ [35])) := by
    unfold radTextPvl
    rcases hb with rfl | rfl | rfl <;> simp [radixPvl]
  have hint : intBase (sgt ++ ds) b =
      some (if sgt = [45] then -(baseVal b ds 0 : Int) else (baseVal b ds 0 : Int)) := by
    exact intBase_sgt b ds hd hne sgt hs
  unfold decodeNonDecimal
  simp only [hg1, hg2, hg3]
  rcases hb with rfl | rfl | rfl
  · -- binary
    have hcls : ∀ c ∈ ds, (c == 48 || c == 49) = true := fun c hc => (digitOf_cls 2 c (hd c hc)).1 rfl
    have htw := takeWhile_cls (fun c => c == 48 || c == 49) ds [] hcls (by decide)
    have hnd : ndFull patBin (sgt ++ radTextPvl 2 ++
        35 :: (ds ++ [35])) = some ⟨sgt, 2, none, ds⟩ := by
      unfold ndFull
      have h1 : (patBin == patPvlNd || patBin == patBin || patBin == patOct || patBin == patHex) = true := by decide
      have h3 : (patBin == patBin) = true := by decide
      have h4 : (patBin == patOct) = false := by decide
      have h5 : (patBin == patHex) = false := by decide
      simp only [h1, if_true, hopt, hrad]
      simp [h3, h4, h5, digitsHash, htw.1, htw.2, hbe]
    simp only [List.findSome?, hnd]
    exact hint
  · -- octal
    have hcls : ∀ c ∈ ds, (48 ≤ c && c ≤ 55) = true := fun c hc => (digitOf_cls 8 c (hd c hc)).2 rfl
    have htw := takeWhile_cls (fun c => 48 ≤ c && c ≤ 55) ds [] hcls (by decide)
    have hnd0 : ndFull patBin (sgt ++ radTextPvl 8 ++
        35 :: (ds ++ [35])) = none := by
      unfold ndFull
      have h1 : (patBin == patPvlNd || patBin == patBin || patBin == patOct || patBin == patHex) = true := by decide
      have h3 : (patBin == patBin) = true := by decide
      simp only [h1, if_true, hopt, hrad]
      simp [h3]
    have hnd : ndFull patOct (sgt ++ radTextPvl 8 ++
        35 :: (ds ++ [35])) = some ⟨sgt, 8, none, ds⟩ := by
      unfold ndFull
      have h1 : (patOct == patPvlNd || patOct == patBin || patOct == patOct || patOct == patHex) = true := by decide
      have h3 : (patOct == patBin) = false := by decide
      have h4 : (patOct == patOct) = true := by decide
      have h5 : (patOct == patHex) = false := by decide
      simp only [h1, if_true, hopt, hrad]
      simp [h3, h4, h5, digitsHash, htw.1, htw.2, hbe]
    simp only [List.findSome?, hnd0, hnd]
    exact hint
  · -- hexadecimal
    have htw := takeWhile_cls isHex ds [] hhex (by decide)
    have hnd0 : ndFull patBin (sgt ++ radTextPvl 16 ++
        35 :: (ds ++ [35])) = none := by
      unfold ndFull
      have h1 : (patBin == patPvlNd || patBin == patBin || patBin == patOct || patBin == patHex) = true := by decide
      have h3 : (patBin == patBin) = true := by decide
      simp only [h1, if_true, hopt, hrad]
      simp [h3]
    have hnd1 : ndFull patOct (sgt ++ radTextPvl 16 ++
        35 :: (ds ++ [35])) = none := by
      unfold ndFull
      have h1 : (patOct == patPvlNd || patOct == patBin || patOct == patOct || patOct == patHex) = true := by decide
      have h3 : (patOct == patBin) = false := by decide
      have h4 : (patOct == patOct) = true := by decide
      simp only [h1, if_true, hopt, hrad]
      simp [h3, h4]
    have hnd : ndFull patHex (sgt ++ radTextPvl 16 ++
        35 :: (ds ++ [35])) = some ⟨sgt, 16, none, ds⟩ := by
      unfold ndFull
      have h1 : (patHex == patPvlNd || patHex == patBin || patHex == patOct || patHex == patHex) = true := by decide
      have h3 : (patHex == patBin) = false := by decide
      have h4 : (patHex == patOct) = false := by decide
      have h5 : (patHex == patHex) = true := by decide
      simp only [h1, if_true, hopt, hrad]
      simp [h3, h4, h5, digitsHash, htw.1, htw.2, hbe]
    simp only [List.findSome?, hnd0, hnd1, hnd]
    exact hint

end Pvl
