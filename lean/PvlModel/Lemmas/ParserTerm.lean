import PvlModel.Lemmas.ParserSpecs2

/-! Third pass over the parser functions: the first pass's specifications extended with a resource
    count.  `R s` is the number of tokens the generator can still hand out (pending ones plus a pushed
    one).  Every function leaves `R` no larger than it found it, the productions that succeed consume at
    least one token, and a function that gives up for lack of fuel was given less than `3·R + K`.  With
    the fuel `parseWith` provides this rules the `fuel` outcome out: the model's loader terminates on
    every text — no production loop spins without consuming tokens. -/
namespace Pvl.P
open Std.Do

set_option mvcgen.warning false

/-- tokens the generator can still deliver -/
def R (s : PSt) : Nat := s.gen.pending.length + (if s.gen.pushed.isSome then 1 else 0)

macro "tm_close" : tactic => `(tactic|
  all_goals (first
    | assumption
    | (intros; simp_all [R, HookPost, EndSeen, Finished, Hard, Hard0, Inv, Got, GotT, Pend, Rdy, Live, PErr.isLexer, PErr.isValueError]; done)
    | (intros; simp_all [R, HookPost, EndSeen, Finished, Hard, Hard0, Inv, Got, GotT, Pend, Rdy, Live, PErr.isLexer, PErr.isValueError]; omega)
    | grind [R, HookPost, EndSeen, Finished, Hard, Hard0, Inv, Got, GotT, Pend, Rdy, Live, PErr.isLexer, PErr.isValueError]
    | grind (splits := 40) [R, HookPost, EndSeen, Finished, Hard, Hard0, Inv, Got, GotT, Pend, Rdy, Live, PErr.isLexer, PErr.isValueError]
    | grind (splits := 40) [R, HookPost, EndSeen, Finished, Hard, Hard0, Inv, Got, GotT, Pend, Rdy, Live, isLexer_iff, PErr.isValueError]))

/-! ### the generator protocol -/

theorem next_tm (c : PCfg) (r0 : Nat) :
    ⦃fun s => ⌜Inv c s ∧ R s = r0⌝⦄ (next c : PM Token)
    ⦃post⟨fun r s => ⌜GotT r s ∧ R s + 1 ≤ r0⌝,
          fun e s => ⌜((e = .stop ∧ s.gen.dead = true ∧ s.gen.pushed = none ∧ c.tail = .eof) ∨
                      (e.isLexer = true ∧ c.tail ≠ .eof)) ∧ R s ≤ r0⌝⟩⦄ := by
  mvcgen [next]
  tm_close

theorem next_rdy_tm (c : PCfg) (r0 : Nat) :
    ⦃fun s => ⌜Rdy c s ∧ R s = r0⌝⦄ (next c : PM Token)
    ⦃post⟨fun r s => ⌜GotT r s ∧ R s + 1 ≤ r0⌝,
          fun e s => ⌜e = .stop ∧ s.gen.dead = true ∧ s.gen.pushed = none ∧ c.tail = .eof ∧ R s ≤ r0⌝⟩⦄ := by
  mvcgen [next]
  tm_close

theorem next_pend_tm (c : PCfg) (r0 : Nat) :
    ⦃fun s => ⌜Pend s ∧ R s = r0⌝⦄ (next c : PM Token)
    ⦃post⟨fun r s => ⌜GotT r s ∧ R s + 1 ≤ r0⌝, fun _ _ => ⌜False⌝⟩⦄ := by
  mvcgen [next]
  tm_close

theorem send_tm (t : Token) (r0 : Nat) :
    ⦃fun s => ⌜GotT t s ∧ R s = r0⌝⦄ (send t : PM Unit)
    ⦃post⟨fun _ s => ⌜Pend s ∧ R s ≤ r0 + 1⌝, fun _ _ => ⌜False⌝⟩⦄ := by
  mvcgen [send]
  tm_close

theorem throwIn_Live_tm {α} (r0 : Nat) :
    ⦃fun s => ⌜Live s ∧ R s = r0⌝⦄ (throwIn : PM α)
    ⦃post⟨fun _ _ => ⌜False⌝, fun e s => ⌜e.isLexer = true ∧ R s ≤ r0⌝⟩⦄ := by
  mvcgen [throwIn]
  tm_close

theorem throwIn_Inv_tm {α} (c : PCfg) (r0 : Nat) :
    ⦃fun s => ⌜Inv c s ∧ R s = r0⌝⦄ (throwIn : PM α)
    ⦃post⟨fun _ _ => ⌜False⌝, fun e s => ⌜(e.isLexer = true ∨ (e = .value ∧ Inv c s)) ∧ R s ≤ r0⌝⟩⦄ := by
  mvcgen [throwIn]
  tm_close

theorem emptyValue_tm (c : PCfg) (pos : Int) (g0 : Gen) :
    ⦃fun s => ⌜s.gen = g0⌝⦄ (emptyValue c pos : PM Val) ⦃post⟨fun _ s => ⌜s.gen = g0⌝, fun _ _ => ⌜False⌝⟩⦄ := by
  mvcgen [emptyValue]

theorem mark_tm (site : String) (g0 : Gen) :
    ⦃fun s => ⌜s.gen = g0⌝⦄ (mark site : PM Unit) ⦃post⟨fun _ s => ⌜s.gen = g0⌝, fun _ _ => ⌜False⌝⟩⦄ := by
  mvcgen [mark]

/-! ### white space, delimiters, `=` -/


/-- instantiate the ghost arguments of the callee specifications (the token count / generator at the
    call) with the current state: `mvcgen -trivial` leaves them as goals whose context ends with the state
    at that program point -/
macro "tm_ghost" : tactic => `(tactic|
  all_goals (try (first | exact R (by assumption) | exact (fun s _ => R s) | exact (fun s => R s) | exact PSt.gen (by assumption) | exact (fun s _ => PSt.gen s) | exact (fun s => PSt.gen s))))

/-! ### white space, delimiters, `=` -/

theorem wscUntil_tm (c : PCfg) (tok : Option Str) (fuel : Nat) (r0 : Nat) :
    ⦃fun s => ⌜Inv c s ∧ R s = r0⌝⦄ (wscUntil c tok fuel : PM Bool)
    ⦃post⟨fun b s => ⌜(b = true → Got s ∧ tok.isSome = true ∧ R s + 1 ≤ r0) ∧ (b = false → Rdy c s) ∧ R s ≤ r0⌝,
          fun e s => ⌜(e.isLexer = true ∨ e = .fuel) ∧ R s ≤ r0 ∧ (e = .fuel → fuel < 3 * r0 + 1)⌝⟩⦄ := by
  induction fuel generalizing r0 with
  | zero => unfold wscUntil; mvcgen; tm_close
  | succ n ih =>
    unfold wscUntil
    mvcgen -trivial [next_tm, send_tm, ih]
    tm_ghost
    tm_close

theorem stmtDelim_tm (c : PCfg) (fuel : Nat) (r0 : Nat) :
    ⦃fun s => ⌜Inv c s ∧ R s = r0⌝⦄ (stmtDelim c fuel : PM Bool)
    ⦃post⟨fun b s => ⌜(b = true → Got s) ∧ (b = false → Rdy c s) ∧ R s ≤ r0⌝,
          fun e s => ⌜(e.isLexer = true ∨ e = .fuel) ∧ R s ≤ r0 ∧ (e = .fuel → fuel < 3 * r0 + 1)⌝⟩⦄ := by
  induction fuel generalizing r0 with
  | zero => unfold stmtDelim; mvcgen; tm_close
  | succ n ih =>
    unfold stmtDelim
    mvcgen -trivial [next_tm, send_tm, ih]
    tm_ghost
    tm_close

theorem aroundEquals_tm (c : PCfg) (fuel : Nat) (r0 : Nat) :
    ⦃fun s => ⌜Inv c s ∧ R s = r0⌝⦄ (aroundEquals c fuel : PM Unit)
    ⦃post⟨fun _ s => ⌜Rdy c s ∧ R s + 1 ≤ r0⌝,
          fun e s => ⌜(e.isLexer = true ∨ e = .fuel ∨ (e = .parse none ∧ Inv c s ∧ c.tail = .eof) ∨ (e = .value ∧ Pend s)) ∧
                      R s ≤ r0 ∧ (e = .fuel → fuel < 3 * r0 + 1)⌝⟩⦄ := by
  unfold aroundEquals
  mvcgen -trivial [wscUntil_tm, next_tm, send_tm]
  tm_ghost
  tm_close

/-! ### values -/

theorem units_tm (c : PCfg) (v : Val) (r0 : Nat) :
    ⦃fun s => ⌜Inv c s ∧ R s = r0⌝⦄ (units c v : PM Val)
    ⦃post⟨fun _ s => ⌜Inv c s ∧ R s ≤ r0⌝,
          fun e s => ⌜(e.isLexer = true ∨ ((e = .value ∨ e = .stop) ∧ Inv c s)) ∧ R s ≤ r0⌝⟩⦄ := by
  unfold units
  mvcgen -trivial [next_tm, send_tm, throwIn_Live_tm]
  tm_ghost
  tm_close

theorem valueHook_tm (c : PCfg) (r0 : Nat) :
    ⦃fun s => ⌜Pend s ∧ R s = r0⌝⦄ (valueHook c : PM Val)
    ⦃post⟨fun _ s => ⌜Inv c s ∧ R s ≤ r0⌝, fun e s => ⌜e = .value ∧ Live s ∧ R s ≤ r0⌝⟩⦄ := by
  unfold valueHook
  mvcgen -trivial [next_pend_tm, send_tm, emptyValue_tm]
  tm_ghost
  tm_close


/-- the five mutually recursive value functions with their resource bounds, at one fuel level -/
def ValueTm (c : PCfg) (fuel : Nat) : Prop :=
  (∀ r0, ⦃fun s => ⌜Rdy c s ∧ R s = r0⌝⦄ (value c fuel : PM Val)
    ⦃post⟨fun _ s => ⌜Inv c s ∧ R s ≤ r0⌝,
          fun e s => ⌜(Hard0 c e ∨ (e = .stop ∧ s.gen.dead = true ∧ s.gen.pushed = none ∧ c.tail = .eof)) ∧
                      R s ≤ r0 ∧ (e = .fuel → fuel < 3 * r0 + 4)⌝⟩⦄) ∧
  (∀ delims r0, ⦃fun s => ⌜Pend s ∧ R s = r0⌝⦄ (setSeq c delims fuel : PM (List Val))
    ⦃post⟨fun _ s => ⌜Got s ∧ R s + 1 ≤ r0⌝,
          fun e s => ⌜(Hard0 c e ∨ (e = .value ∧ Pend s)) ∧ R s ≤ r0 ∧ (e = .fuel → fuel < 3 * r0 + 2)⌝⟩⦄) ∧
  (∀ delims acc r0, ⦃fun s => ⌜Inv c s ∧ R s = r0⌝⦄ (setSeqLoop c delims acc fuel : PM (Option (List Val)))
    ⦃post⟨fun r s => ⌜(r.isSome = true → Got s) ∧ (r = none → c.tail = .eof) ∧ R s ≤ r0⌝,
          fun e s => ⌜(Hard0 c e ∨ (e = .stop ∧ c.tail = .eof)) ∧ R s ≤ r0 ∧ (e = .fuel → fuel < 3 * r0 + 2)⌝⟩⦄) ∧
  (∀ r0, ⦃fun s => ⌜Pend s ∧ R s = r0⌝⦄ (pset c fuel : PM Val)
    ⦃post⟨fun _ s => ⌜Inv c s ∧ R s + 1 ≤ r0⌝,
          fun e s => ⌜(Hard0 c e ∨ (e = .value ∧ Pend s)) ∧ R s ≤ r0 ∧ (e = .fuel → fuel < 3 * r0 + 3)⌝⟩⦄) ∧
  (∀ r0, ⦃fun s => ⌜Pend s ∧ R s = r0⌝⦄ (pseq c fuel : PM Val)
    ⦃post⟨fun _ s => ⌜Inv c s ∧ R s + 1 ≤ r0⌝,
          fun e s => ⌜(Hard0 c e ∨ (e = .value ∧ Pend s)) ∧ R s ≤ r0 ∧ (e = .fuel → fuel < 3 * r0 + 3)⌝⟩⦄)


theorem valueTm_zero (c : PCfg) : ValueTm c 0 := by
  refine ⟨?_, ?_, ?_, ?_, ?_⟩
  · intro r0; unfold value; mvcgen; tm_close
  · intro d r0; unfold setSeq; mvcgen; tm_close
  · intro d a r0; unfold setSeqLoop; mvcgen; tm_close
  · intro r0; unfold pset; mvcgen; tm_close
  · intro r0; unfold pseq; mvcgen; tm_close

set_option maxHeartbeats 8000000 in
theorem valueTm_succ (c : PCfg) (n : Nat) (ih : ValueTm c n) : ValueTm c (n + 1) := by
  obtain ⟨ihValue, ihSetSeq, ihLoop, ihSet, ihSeq⟩ := ih
  refine ⟨?_, ?_, ?_, ?_, ?_⟩
  · intro r0
    unfold value
    mvcgen -trivial [softCatch, next_rdy_tm, send_tm, ihSet, ihSeq, valueHook_tm, throwIn_Live_tm,
      wscUntil_tm, units_tm]
    tm_ghost
    tm_close
  · intro d r0
    unfold setSeq
    mvcgen -trivial [next_pend_tm, send_tm, wscUntil_tm, ihValue, ihLoop]
    tm_ghost
    tm_close
  · intro d a r0
    unfold setSeqLoop
    mvcgen -trivial [next_tm, send_tm, wscUntil_tm, ihValue, ihLoop, throwIn_Live_tm]
    tm_ghost
    tm_close
  · intro r0
    unfold pset
    mvcgen -trivial [ihSetSeq, throwIn_Live_tm]
    tm_ghost
    tm_close
  · intro r0
    unfold pseq
    mvcgen -trivial [ihSetSeq]
    tm_ghost
    tm_close

end Pvl.P
