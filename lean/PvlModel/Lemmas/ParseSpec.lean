import PvlModel.Lemmas.ParserTerm2

/-! The loader-level specification of `parse()`, obtained from the Hoare specifications of the parser
    functions (`ParserSpecs`, `ParserSpecs2`).  C06, C09 and C15 are corollaries. -/
namespace Pvl
open P

/-- the initial generator state of a `parse()` call satisfies the invariant -/
theorem inv_initial (c : PCfg) (toks : List Token) :
    P.Inv c (⟨⟨toks, none, none, false⟩, [], [], none, false⟩ : PSt) := by
  simp [P.Inv]

/-- the text the parser class hands to the lexer -/
def docOf (kind : ParserKind) (text : Str) : Str := if kind == ParserKind.omni then omniPrepass text else text

/-- **The loader-level specification of `parse()`**, for every grammar, decoder, parser class and text:
    * a module is returned only when the lexer ran to the end of the text without a `LexerError`, or
      when the last token the lexer was asked for is an END statement;
    * an error is a `LexerError`, a `ParseError` — the latter only when the lexer reached the end of the
      text normally — or the model's `fuel` marker. -/
theorem parse_spec (g : Grammar) (d : Dec) (kind : ParserKind) (prior : List Int) (text : Str) :
    match (parseWith g d kind prior text).outcome with
    | .ok _ =>
      ((parseWith g d kind prior text).exhausted = true ∧ (lexAll g d (docOf kind text)).2 = .eof) ∨
      (∃ t, (parseWith g d kind prior text).last = some t ∧ Tok.isEndStatement g t.text = true)
    | .error e =>
      e.isLexer = true ∨ ((∃ t, e = .parse t) ∧ (lexAll g d (docOf kind text)).2 = .eof) ∨ e = .fuel := by
  unfold parseWith docOf
  simp only
  generalize (if kind == ParserKind.omni then omniPrepass text else text) = doc
  generalize lexAll g d doc = lx
  obtain ⟨toks, tail⟩ := lx
  simp only
  have hs := triple_elim _ _ _ _ (moduleLoop_spec ⟨g, d, kind, doc, tail⟩ (fuelFor (toks.length + 2)) [])
    ⟨⟨toks, none, none, false⟩, [], [], none, false⟩ (inv_initial _ toks)
  revert hs
  generalize (moduleLoop ⟨g, d, kind, doc, tail⟩ [] (fuelFor (toks.length + 2))).run.run
    ⟨⟨toks, none, none, false⟩, [], [], none, false⟩ = res
  obtain ⟨r, st'⟩ := res
  intro hs
  cases r with
  | ok m => simpa [Finished, EndSeen] using hs
  | error e => simpa [Hard] using hs

/-- the model's `parse()` never runs out of the fuel `parseWith` gives it -/
theorem parse_terminates (g : Grammar) (d : Dec) (kind : ParserKind) (prior : List Int) (text : Str) :
    (parseWith g d kind prior text).outcome ≠ .error .fuel := by
  unfold parseWith
  simp only
  generalize (if kind == ParserKind.omni then omniPrepass text else text) = doc
  generalize lexAll g d doc = lx
  obtain ⟨toks, tail⟩ := lx
  simp only
  have hs := triple_elim _ _ _ _
    (moduleLoop_tm ⟨g, d, kind, doc, tail⟩ (fuelFor (toks.length + 2)) [] toks.length)
    ⟨⟨toks, none, none, false⟩, [], [], none, false⟩ ⟨inv_initial _ toks, by simp [R]⟩
  revert hs
  generalize (moduleLoop ⟨g, d, kind, doc, tail⟩ [] (fuelFor (toks.length + 2))).run.run
    ⟨⟨toks, none, none, false⟩, [], [], none, false⟩ = res
  obtain ⟨r, st'⟩ := res
  intro hs h
  simp only at h
  subst h
  have := hs.2 rfl
  simp [fuelFor] at this
  omega


/-- `parse_spec` without the fuel case -/
theorem parse_spec_total (g : Grammar) (d : Dec) (kind : ParserKind) (prior : List Int) (text : Str) :
    match (parseWith g d kind prior text).outcome with
    | .ok _ =>
      ((parseWith g d kind prior text).exhausted = true ∧ (lexAll g d (docOf kind text)).2 = .eof) ∨
      (∃ t, (parseWith g d kind prior text).last = some t ∧ Tok.isEndStatement g t.text = true)
    | .error e =>
      e.isLexer = true ∨ ((∃ t, e = .parse t) ∧ (lexAll g d (docOf kind text)).2 = .eof) := by
  have hs := parse_spec g d kind prior text
  have ht := parse_terminates g d kind prior text
  revert hs ht
  cases (parseWith g d kind prior text).outcome with
  | ok m => intro hs _; exact hs
  | error e =>
    intro hs ht
    rcases hs with h | h | h
    · exact Or.inl h
    · exact Or.inr h
    · subst h; exact absurd rfl ht

end Pvl
