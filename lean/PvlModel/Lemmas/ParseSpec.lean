import PvlModel.Lemmas.ParserSpecs2

/-! The loader-level specification of `parse()`, obtained from the Hoare specifications of the parser
    functions (`ParserSpecs`, `ParserSpecs2`).  C06, C09 and C15 are corollaries. -/
namespace Pvl
open P

/-- the initial generator state of a `parse()` call satisfies the invariant -/
theorem inv_initial (c : PCfg) (toks : List Token) :
    P.Inv c (⟨⟨toks, none, none, false⟩, [], [], none, false⟩ : PSt) := by
  simp [P.Inv]

/-- the text the parser class hands to the lexer -/
def docOf (kind : ParserKind) (text : Str) : Str := if kind == ParserKind.omni then omniPrepass text else text

/-- **The loader-level specification of `parse()`**, for every grammar, decoder, parser class and text:
    * a module is returned only when the lexer ran to the end of the text without a `LexerError`, or
      when the last token the lexer was asked for is an END statement;
    * an error is a `LexerError`, a `ParseError` — the latter only when the lexer reached the end of the
      text normally — or the model's `fuel` marker. -/
theorem parse_spec (g : Grammar) (d : Dec) (kind : ParserKind) (prior : List Int) (text : Str) :
    match (parseWith g d kind prior text).outcome with
    | .ok _ =>
      ((parseWith g d kind prior text).exhausted = true ∧ (lexAll g d (docOf kind text)).2 = .eof) ∨
      (∃ t, (parseWith g d kind prior text).last = some t ∧ Tok.isEndStatement g t.text = true)
    | .error e =>
      e.isLexer = true ∨ ((∃ t, e = .parse t) ∧ (lexAll g d (docOf kind text)).2 = .eof) ∨ e = .fuel := by
  unfold parseWith docOf
  simp only
  generalize (if kind == ParserKind.omni then omniPrepass text else text) = doc
  generalize lexAll g d doc = lx
  obtain ⟨toks, tail⟩ := lx
  simp only
  have hs := triple_elim _ _ _ _ (moduleLoop_spec ⟨g, d, kind, doc, tail⟩ (fuelFor (toks.length + 2)) [])
    ⟨⟨toks, none, none, false⟩, [], [], none, false⟩ (inv_initial _ toks)
  revert hs
  generalize (moduleLoop ⟨g, d, kind, doc, tail⟩ [] (fuelFor (toks.length + 2))).run.run
    ⟨⟨toks, none, none, false⟩, [], [], none, false⟩ = res
  obtain ⟨r, st'⟩ := res
  intro hs
  cases r with
  | ok m => simpa [Finished, EndSeen] using hs
  | error e => simpa [Hard] using hs

end Pvl
