import PvlModel.Lemmas.ParserCount2
import PvlModel.Lemmas.Based
import PvlModel.Lemmas.DateTime
import PvlModel.Gen.Tables

/-! The lexical sanity hypothesis of the block-accounting theorem holds for **every** text: a text that folds to
    a block keyword consists of ASCII letters and `_` only (the exotic code points whose case-fold lies in the
    keyword alphabet — `ß ſ ẞ ﬀ ﬁ ﬂ ﬃ ﬄ ﬅ ﬆ` — fold to letters no block keyword has), and such a text is not
    white space, a comment, a delimiter, a value of any kind, a units expression, a parameter name or END.  The
    facts about the grammar table this needs are a computation (`saneTable`), evaluated on the generated tables. -/
namespace Pvl
open Py P

/-- ASCII letter or underscore -/
def KwCh (c : Nat) : Prop := (65 ≤ c ∧ c ≤ 90) ∨ (97 ≤ c ∧ c ≤ 122) ∨ c = 95

def kwList : List Nat := (List.range 26).map (· + 65) ++ (List.range 26).map (· + 97) ++ [95]

theorem kwCh_mem (c : Nat) (h : KwCh c) : c ∈ kwList := by
  unfold kwList
  rcases h with h | h | h
  · exact List.mem_append_left _ (List.mem_append_left _ (List.mem_map.mpr ⟨c - 65, List.mem_range.mpr (by omega), by omega⟩))
  · exact List.mem_append_left _ (List.mem_append_right _ (List.mem_map.mpr ⟨c - 97, List.mem_range.mpr (by omega), by omega⟩))
  · subst h; simp

/-- the image of one code point under the restricted case-fold -/
def foldImg (c : Nat) : Str :=
  match Gen.pyCasefold.find? (fun p => p.1 == c) with
  | some p => p.2
  | none => [0x110000]

theorem casefold_eq_flatMap (s : Str) : casefold s = s.flatMap foldImg := rfl

theorem foldImg_sub (x kw : Str) (h : casefold x = casefold kw) : ∀ c ∈ x, ∀ e ∈ foldImg c, e ∈ casefold kw := by
  intro c hc e he
  rw [← h, casefold_eq_flatMap]
  exact List.mem_flatMap.mpr ⟨c, hc, he⟩

/-- every character of the begin / end keywords of blocks, folded -/
def kwAlpha (g : Grammar) : List Nat := g.aggKeywords.flatMap (fun p => casefold p.1 ++ casefold p.2)

/-- the code points whose fold lies inside the block-keyword alphabet are ASCII letters or `_` -/
def kwCharsOK (g : Grammar) : Bool :=
  Gen.pyCasefold.all (fun p => !(p.2.all (fun e => (kwAlpha g).contains e)) ||
    ((65 ≤ p.1 && p.1 ≤ 90) || (97 ≤ p.1 && p.1 ≤ 122) || p.1 == 95)) &&
  !(kwAlpha g).contains 0x110000 && Gen.pyCasefold.all (fun p => !p.2.isEmpty)

/-- the text folds to a block keyword -/
def IsKw (g : Grammar) (x : Str) : Prop := ∃ p ∈ g.aggKeywords, casefold x = casefold p.1 ∨ casefold x = casefold p.2

theorem isKw_chars (g : Grammar) (hg : kwCharsOK g = true) (x : Str) (h : IsKw g x) : ∀ c ∈ x, KwCh c := by
  obtain ⟨p, hp, hx⟩ := h
  simp only [kwCharsOK, Bool.and_eq_true, Bool.not_eq_true'] at hg
  obtain ⟨⟨h1, h2⟩, h3⟩ := hg
  intro c hc
  have hsub : ∀ e ∈ foldImg c, e ∈ kwAlpha g := by
    intro e he
    unfold kwAlpha
    refine List.mem_flatMap.mpr ⟨p, hp, ?_⟩
    rcases hx with hx | hx
    · exact List.mem_append_left _ (foldImg_sub x p.1 hx c hc e he)
    · exact List.mem_append_right _ (foldImg_sub x p.2 hx c hc e he)
  unfold foldImg at hsub
  cases hf : Gen.pyCasefold.find? (fun p => p.1 == c) with
  | none =>
    rw [hf] at hsub
    have := hsub 0x110000 (by simp)
    have h2' : (kwAlpha g).contains 0x110000 = false := h2
    simp [List.contains_iff_mem] at h2'
    exact absurd this h2'
  | some q =>
    rw [hf] at hsub
    have hq := List.mem_of_find?_eq_some hf
    have hqc : q.1 = c := by
      have := List.find?_some hf
      simpa using this
    have := (List.all_eq_true.mp h1) q hq
    simp only [Bool.or_eq_true, Bool.not_eq_true', Bool.and_eq_true, decide_eq_true_eq, beq_iff_eq] at this
    rcases this with hbad | hgood
    · exfalso
      have : q.2.all (fun e => (kwAlpha g).contains e) = true := by
        rw [List.all_eq_true]
        intro e he
        simpa using hsub e he
      rw [this] at hbad; cases hbad
    · rw [← hqc]
      rcases hgood with (h | h) | h
      · exact Or.inl h
      · exact Or.inr (Or.inl h)
      · exact Or.inr (Or.inr h)

theorem isKw_ne_nil (g : Grammar) (hg : kwCharsOK g = true) (hne : ∀ p ∈ g.aggKeywords, casefold p.1 ≠ [] ∧ casefold p.2 ≠ [])
    (x : Str) (h : IsKw g x) : x ≠ [] := by
  obtain ⟨p, hp, hx⟩ := h
  intro h0
  subst h0
  have := hne p hp
  rcases hx with hx | hx
  · exact this.1 (by rw [← hx]; rfl)
  · exact this.2 (by rw [← hx]; rfl)


/-! ### what an all-letters text is not -/

theorem kw_char_facts : ∀ c ∈ kwList,
    Py.isSpace c = false ∧ Py.isDecimal c = false ∧ c < 128 ∧ cSpace c = false ∧ isDigit c = false ∧
    c ≠ 43 ∧ c ≠ 45 ∧ c ≠ 10 ∧ c ≠ 35 ∧ c ≠ 46 ∧ (10 ≤ digitValue c ∨ c = 95) := by
  decide +kernel

theorem kwCh_facts (c : Nat) (h : KwCh c) :
    Py.isSpace c = false ∧ Py.isDecimal c = false ∧ c < 128 ∧ cSpace c = false ∧ isDigit c = false ∧
    c ≠ 43 ∧ c ≠ 45 ∧ c ≠ 10 ∧ c ≠ 35 ∧ c ≠ 46 ∧ (10 ≤ digitValue c ∨ c = 95) :=
  kw_char_facts c (kwCh_mem c h)

/-- `str.split()` of a text without white space is the text itself -/
theorem splitWsGo_nospace (s : Str) (h : ∀ c ∈ s, Py.isSpace c = false) (cur : Str) (acc : List Str) :
    splitWsGo s cur acc = (if (cur.reverse ++ s).isEmpty then acc else (cur.reverse ++ s) :: acc).reverse := by
  induction s generalizing cur with
  | nil => simp [splitWsGo]
  | cons c r ih =>
    have hc := h c (by simp)
    simp only [splitWsGo, hc, Bool.false_eq_true, if_false]
    rw [ih (fun x hx => h x (by simp [hx]))]
    simp

theorem splitWs_nospace (s : Str) (hne : s ≠ []) (h : ∀ c ∈ s, Py.isSpace c = false) : splitWs s = [s] := by
  unfold splitWs
  rw [splitWsGo_nospace s h]
  cases s with
  | nil => exact absurd rfl hne
  | cons a b => simp

/-- `int(x)` fails on a text of letters and underscores -/
theorem int10_kw (x : Str) (hne : x ≠ []) (hx : ∀ c ∈ x, KwCh c) : int10 x = none := by
  have hascii : ∀ c ∈ x, c < 128 := fun c hc => (kwCh_facts c (hx c hc)).2.2.1
  have hsp : ∀ c ∈ x, cSpace c = false := fun c hc => (kwCh_facts c (hx c hc)).2.2.2.1
  obtain ⟨hh, hl⟩ := head_getLast_of_all (p := fun c => cSpace c = false) _ hsp
  unfold int10
  rw [toAsciiNum_of_ascii _ hascii, cstrip_id _ hh hl]
  cases x with
  | nil => exact absurd rfl hne
  | cons c r =>
    have hc := kwCh_facts c (hx c (by simp))
    have hsplit : splitSign (c :: r) = (false, c :: r) := by
      unfold splitSign
      split
      · rename_i heq; simp at heq; exact absurd heq.1 hc.2.2.2.2.2.1
      · rename_i heq; simp at heq; exact absurd heq.1 hc.2.2.2.2.2.2.1
      · rfl
    simp only [hsplit]
    have : scanDigits 10 (c :: r) 0 false false = none := by
      unfold scanDigits
      by_cases h95 : c = 95
      · subst h95; simp
      · have hd : 10 ≤ digitValue c := by
          rcases hc.2.2.2.2.2.2.2.2.2.2 with hd | hu
          · exact hd
          · exact absurd hu h95
        have : (c == 95) = false := by simp [h95]
        simp [this]; omega
    simp [this]


theorem dropUnderscores_kw (s : Str) (hs : ∀ c ∈ s, KwCh c) (h95 : 95 ∈ s) :
    ∀ prev acc, isDigit prev = false → dropUnderscores s prev acc = none := by
  induction s with
  | nil => simp at h95
  | cons c r ih =>
    intro prev acc hp
    have hc := kwCh_facts c (hs c (by simp))
    unfold dropUnderscores
    by_cases hc95 : c = 95
    · subst hc95; simp [hp]
    · have h1 : (c == 95) = false := by simp [hc95]
      simp only [h1, Bool.false_eq_true, if_false, hc.2.2.2.2.1, Bool.not_false, Bool.and_true]
      by_cases hp95 : prev = 95
      · subst hp95; simp
      · have : (prev == 95) = false := by simp [hp95]
        simp only [this, Bool.false_eq_true, if_false]
        have hr : 95 ∈ r := by
          rcases List.mem_cons.mp h95 with h | h
          · exact absurd h.symm hc95
          · exact h
        exact ih (fun x hx => hs x (by simp [hx])) hr c (c :: acc) hc.2.2.2.2.1

theorem floatBody_kw (x : Str) (hne : x ≠ []) (hx : ∀ c ∈ x, KwCh c)
    (hl : lowerStr x ≠ [105, 110, 102] ∧ lowerStr x ≠ [105, 110, 102, 105, 110, 105, 116, 121] ∧ lowerStr x ≠ [110, 97, 110]) :
    floatBody x = false := by
  cases x with
  | nil => exact absurd rfl hne
  | cons c r =>
    have hc := kwCh_facts c (hx c (by simp))
    have hsplit : splitSign (c :: r) = (false, c :: r) := by
      unfold splitSign
      split
      · rename_i heq; simp at heq; exact absurd heq.1 hc.2.2.2.2.2.1
      · rename_i heq; simp at heq; exact absurd heq.1 hc.2.2.2.2.2.2.1
      · rfl
    unfold floatBody
    simp only [hsplit]
    have e1 : (lowerStr (c :: r) == [105, 110, 102]) = false := by simp [hl.1]
    have e2 : (lowerStr (c :: r) == [105, 110, 102, 105, 110, 105, 116, 121]) = false := by simp [hl.2.1]
    have e3 : (lowerStr (c :: r) == [110, 97, 110]) = false := by simp [hl.2.2]
    simp only [e1, e2, e3, Bool.or_false, Bool.false_eq_true, if_false]
    have htd : takeDigits (c :: r) = ([], c :: r) := by
      simp [takeDigits, List.takeWhile, List.dropWhile, hc.2.2.2.2.1]
    simp only [htd]
    have h46 : c ≠ 46 := hc.2.2.2.2.2.2.2.2.2.1
    split
    · rename_i heq; simp at heq; exact absurd heq.1 h46
    · simp

theorem floatOk_kw (x : Str) (hne : x ≠ []) (hx : ∀ c ∈ x, KwCh c)
    (hl : lowerStr x ≠ [105, 110, 102] ∧ lowerStr x ≠ [105, 110, 102, 105, 110, 105, 116, 121] ∧ lowerStr x ≠ [110, 97, 110]) :
    floatOk x = false := by
  have hascii : ∀ c ∈ x, c < 128 := fun c hc => (kwCh_facts c (hx c hc)).2.2.1
  have hsp : ∀ c ∈ x, cSpace c = false := fun c hc => (kwCh_facts c (hx c hc)).2.2.2.1
  obtain ⟨hh, hla⟩ := head_getLast_of_all (p := fun c => cSpace c = false) _ hsp
  unfold floatOk
  rw [toAsciiNum_of_ascii _ hascii, cstrip_id _ hh hla]
  simp only
  by_cases h95 : 95 ∈ x
  · have : x.contains 95 = true := by simpa using h95
    simp only [this, if_true]
    rw [dropUnderscores_kw x hx h95 0 [] (by decide)]
  · have : x.contains 95 = false := by simpa using h95
    simp only [this, Bool.false_eq_true, if_false]
    exact floatBody_kw x hne hx hl

theorem decodeDecimal_kw (x : Str) (hne : x ≠ []) (hx : ∀ c ∈ x, KwCh c)
    (hl : lowerStr x ≠ [105, 110, 102] ∧ lowerStr x ≠ [105, 110, 102, 105, 110, 105, 116, 121] ∧ lowerStr x ≠ [110, 97, 110]) :
    decodeDecimal x = none := by
  simp [decodeDecimal, int10_kw x hne hx, floatOk_kw x hne hx hl]


/-! ### dates and times -/

/-- a format that begins with `%Y` or `%H` cannot match a text that begins with a letter -/
theorem strptime_nondigit (c : Nat) (t f' : Str) (k : Nat) (hk : k = 89 ∨ k = 72)
    (hc1 : Py.isDecimal c = false) (hc2 : isDigit c = false) : strptime (c :: t) (37 :: k :: f') = none := by
  simp only [isDigit, Bool.and_eq_false_iff, decide_eq_false_iff_not, Nat.not_le] at hc2
  unfold strptime
  cases hcf : compileFmt f' with
  | none => rcases hk with rfl | rfl <;> simp [compileFmt, hcf]
  | some rest =>
    rcases hk with rfl | rfl
    · have hcomp : compileFmt (37 :: 89 :: f') = some (itemY :: rest) := by simp [compileFmt, hcf]
      rw [hcomp]
      have hm : matchItems (itemY :: rest) (c :: t) = none := by
        rw [matchItems_cons]
        unfold itemY
        rw [matchAlts_skip _ _ _ _ _ (by simp [matchCCs, CC.ok, hc1])]
        rw [matchAlts]
      simp [hm]
    · have hcomp : compileFmt (37 :: 72 :: f') = some (itemH :: rest) := by simp [compileFmt, hcf]
      rw [hcomp]
      have hm : matchItems (itemH :: rest) (c :: t) = none := by
        rw [matchItems_cons]
        unfold itemH
        rw [matchAlts_skip _ _ _ _ _ (by simp [matchCCs, dg, ccr]; omega)]
        rw [matchAlts_skip _ _ _ _ _ (by simp [matchCCs, dg, ccr]; omega)]
        rw [matchAlts_skip _ _ _ _ _ (by simp [matchCCs, CC.ok, hc1])]
        rw [matchAlts]
      simp [hm]

/-- every format of the three tables begins with `%Y` or `%H` -/
def fmtHeadsOK (g : Grammar) : Bool :=
  (g.dateFormats ++ g.timeFormats ++ g.datetimeFormats).all
    (fun f => f.take 2 == [37, 89] || f.take 2 == [37, 72])

theorem formats_fail_kw (fs : List Str) (hfs : fs.all (fun f => f.take 2 == [37, 89] || f.take 2 == [37, 72]) = true)
    (c : Nat) (t : Str) (hc1 : Py.isDecimal c = false) (hc2 : isDigit c = false) :
    firstSome (strptime (c :: t)) fs = none := by
  apply firstSome_none
  intro f hf
  have h2 := (List.all_eq_true.mp hfs) f hf
  match f, h2 with
  | a :: b :: f', h2 =>
    simp at h2
    rcases h2 with ⟨rfl, rfl⟩ | ⟨rfl, rfl⟩
    · exact strptime_nondigit c t f' 89 (Or.inl rfl) hc1 hc2
    · exact strptime_nondigit c t f' 72 (Or.inr rfl) hc1 hc2
  | [], h2 => simp at h2
  | [_], h2 => simp at h2

theorem isLeapSeconds_kw (g : Grammar) (c : Nat) (t : Str) (hc : KwCh c) : isLeapSeconds g (c :: t) = false := by
  have hf := kwCh_facts c hc
  have hd : Py.isDecimal c = false := hf.2.1
  have h48 : (c == 48) = false ∧ (c == 49) = false ∧ (c == 50) = false := by
    rcases hc with h | h | h <;> refine ⟨?_, ?_, ?_⟩ <;> simp <;> omega
  have hl : leapTimePart (c :: t) = false := by
    unfold leapTimePart
    split
    · rename_i heq
      injection heq with e1 _
      subst e1
      simp [h48.1, h48.2.1, h48.2.2]
    · rfl
  have h1 : leapYmd (c :: t) = false := by
    unfold leapYmd
    rw [hl]
    simp only [Bool.false_or]
    split
    · rename_i heq
      injection heq with e1 _
      subst e1
      simp [leapYear4, hd]
    · rfl
  have h2 : leapYj (c :: t) = false := by
    unfold leapYj
    rw [hl]
    simp only [Bool.false_or]
    split
    · rename_i heq
      injection heq with e1 _
      subst e1
      simp [leapYear4, hd]
    · rfl
  unfold isLeapSeconds
  simp only [h1, h2, Bool.and_false]
  cases g.leapYmdPattern <;> cases g.leapYjPattern <;> simp

theorem decodeDatetimeBase_kw (g : Grammar) (hg : fmtHeadsOK g = true) (c : Nat) (t : Str) (hc : KwCh c) :
    decodeDatetimeBase g (c :: t) = none := by
  have hf := kwCh_facts c hc
  simp only [fmtHeadsOK, List.all_append, Bool.and_eq_true] at hg
  obtain ⟨⟨h1, h2⟩, h3⟩ := hg
  unfold decodeDatetimeBase
  rw [formats_fail_kw _ h1 c t hf.2.1 hf.2.2.2.2.1]
  simp only [formats_fail_kw _ h2 c t hf.2.1 hf.2.2.2.2.1, formats_fail_kw _ h3 c t hf.2.1 hf.2.2.2.2.1,
    isLeapSeconds_kw g c t hc]
  simp

theorem zoneSplitGo_kw (t : Str) (ht : ∀ c ∈ t, KwCh c) : ∀ pre, zoneSplitGo pre t = none := by
  induction t with
  | nil => intro pre; simp [zoneSplitGo]
  | cons c r ih =>
    intro pre
    have hc := kwCh_facts c (ht c (by simp))
    have h1 : (c == 43 || c == 45) = false := by simp [hc.2.2.2.2.2.1, hc.2.2.2.2.2.2.1]
    have h2 : (c == 10) = false := by simp [hc.2.2.2.2.2.2.2.1]
    simp only [zoneSplitGo, h1, Bool.and_false, Bool.false_eq_true, if_false, h2]
    exact ih (fun x hx => ht x (by simp [hx])) _

theorem decodeDatetime_kw (d : Dec) (hg : fmtHeadsOK d.g = true) (x : Str) (hne : x ≠ []) (hx : ∀ c ∈ x, KwCh c) :
    decodeDatetime d x = .error .value := by
  cases x with
  | nil => exact absurd rfl hne
  | cons c t =>
    have hb := decodeDatetimeBase_kw d.g hg c t (hx c (by simp))
    have hz : zoneSplit (c :: t) = none := zoneSplitGo_kw _ hx []
    unfold decodeDatetime
    cases d.kind <;> simp [hb, decodeDatetimeOdl, hz]


/-! ### the table facts, and the theorem -/

def kwChB (c : Nat) : Bool := (65 ≤ c && c ≤ 90) || (97 ≤ c && c ≤ 122) || c == 95

theorem kwChB_iff (c : Nat) : kwChB c = true ↔ KwCh c := by
  simp [kwChB, KwCh, or_assoc]

/-- the folded begin and end keywords of blocks -/
def blockKws (g : Grammar) : List Str := g.aggKeywords.flatMap (fun p => [casefold p.1, casefold p.2])

/-- everything the sanity theorem needs of a grammar table, as one computation -/
def saneTable (g : Grammar) : Bool :=
  kwCharsOK g &&
  Gen.pyCasefold.all (fun p => !(kwChB p.1) || p.2 == [lowerAscii1 p.1]) &&
  (blockKws g).all (fun k => !k.isEmpty && k != [105, 110, 102] && k != [105, 110, 102, 105, 110, 105, 116, 121] &&
    k != [110, 97, 110] && k != casefold g.noneKw && k != casefold g.trueKw && k != casefold g.falseKw &&
    g.endStatements.all (fun e => casefold e != k) && g.reservedKeywords.any (fun w => casefold w == k)) &&
  g.aggKeywords.all (fun p => g.aggKeywords.all (fun q => casefold p.1 != casefold q.2)) &&
  g.whitespace.all (fun w => !kwChB w) && g.quotes.all (fun q => !kwChB q) && !kwChB g.unitsDelims.1 &&
  g.comments.all (fun p => match p.1 with | c :: _ => !kwChB c | [] => false) &&
  g.delimiters.all (fun dl => dl.isEmpty || dl.any (fun c => !kwChB c)) &&
  fmtHeadsOK g

theorem saneTable_tables : ∀ g ∈ [Gen.pvl, Gen.odl, Gen.pds, Gen.isis, Gen.omni], saneTable g = true := by
  decide +kernel


theorem isKw_of (c : PCfg) (x : Str) (h : isBt c x = true ∨ isEt c x = true) : IsKw c.g x := by
  rcases h with h | h
  · simp only [isBt, Tok.isBeginAggregation, List.any_eq_true, foldEq, beq_iff_eq] at h
    obtain ⟨p, hp, he⟩ := h
    exact ⟨p, hp, Or.inl he⟩
  · simp only [isEt, List.any_eq_true, foldEq, beq_iff_eq] at h
    obtain ⟨p, hp, he⟩ := h
    exact ⟨p, hp, Or.inr he⟩

theorem isKw_fold_mem (g : Grammar) (x : Str) (h : IsKw g x) : casefold x ∈ blockKws g := by
  obtain ⟨p, hp, he⟩ := h
  unfold blockKws
  refine List.mem_flatMap.mpr ⟨p, hp, ?_⟩
  rcases he with he | he <;> simp [he]

/-- for a text of block-keyword characters the restricted case-fold is ASCII lower-casing -/
theorem casefold_kw_lower (g : Grammar) (ht : saneTable g = true) (x : Str) (hk : IsKw g x) :
    casefold x = lowerStr x := by
  simp only [saneTable, Bool.and_eq_true] at ht
  have hg1 := ht.1.1.1.1.1.1.1.1.1
  have hg2 := ht.1.1.1.1.1.1.1.1.2
  have hx := isKw_chars g hg1 x hk
  obtain ⟨p, hp, hxe⟩ := hk
  -- every character of x is in the table (its image is not the sentinel)
  have hsent : ¬ (0x110000 ∈ kwAlpha g) := by
    simp only [kwCharsOK, Bool.and_eq_true, Bool.not_eq_true'] at hg1
    have := hg1.1.2
    simpa [List.contains_iff_mem] using this
  have himg : ∀ c ∈ x, foldImg c = [lowerAscii1 c] := by
    intro c hc
    have hsub : ∀ e ∈ foldImg c, e ∈ kwAlpha g := by
      intro e he
      unfold kwAlpha
      refine List.mem_flatMap.mpr ⟨p, hp, ?_⟩
      rcases hxe with hxe | hxe
      · exact List.mem_append_left _ (foldImg_sub x p.1 hxe c hc e he)
      · exact List.mem_append_right _ (foldImg_sub x p.2 hxe c hc e he)
    unfold foldImg at hsub ⊢
    cases hf : Gen.pyCasefold.find? (fun p => p.1 == c) with
    | none => rw [hf] at hsub; exact absurd (hsub _ (by simp)) hsent
    | some q =>
      have hq := List.mem_of_find?_eq_some hf
      have hqc : q.1 = c := by simpa using List.find?_some hf
      have := (List.all_eq_true.mp hg2) q hq
      simp only [Bool.or_eq_true, Bool.not_eq_true', beq_iff_eq] at this
      rcases this with h | h
      · rw [hqc] at h
        have := (kwChB_iff c).mpr (hx c hc)
        rw [this] at h; cases h
      · simp only; rw [h, hqc]
  rw [casefold_eq_flatMap]
  unfold lowerStr
  clear hxe
  induction x with
  | nil => rfl
  | cons c r ih =>
    simp only [List.flatMap_cons, List.map_cons]
    rw [himg c (by simp), ih (fun y hy => hx y (by simp [hy])) (fun y hy => himg y (by simp [hy]))]
    rfl


theorem decodeQuotedBase_head (g : Grammar) (c : Nat) (r : Str) (hq : ∀ q ∈ g.quotes, q ≠ c) :
    decodeQuotedBase g (c :: r) = none := by
  unfold decodeQuotedBase
  have : g.quotes.any (fun q => startsWith (c :: r) [q] && endsWith (c :: r) [q] && decide ((c :: r).length > 1)) = false := by
    rw [List.any_eq_false]
    intro q hqm
    simp only [Bool.and_eq_true, decide_eq_true_eq, not_and]
    intro hst
    exfalso
    have hh := startsWith_head (c :: r) q hst.1
    simp at hh
    exact hq q hqm hh.symm
  rw [if_neg (by rw [this]; simp)]

/-- **every text is sane**: with a grammar table that passes `saneTable`, a text that folds to a block keyword is
    nothing else -/
theorem sane_all (c : PCfg) (hd : c.d.g = c.g) (ht : saneTable c.g = true) (x : Str) : Sane c x := by
  have ht' := ht
  simp only [saneTable, Bool.and_eq_true] at ht'
  obtain ⟨⟨⟨⟨⟨⟨⟨⟨⟨t1, t2⟩, t3⟩, t4⟩, t5⟩, t6⟩, t7⟩, t8⟩, t9⟩, t10⟩ := ht'
  refine ⟨?_, ?_⟩
  · -- a begin keyword is not an end keyword
    intro hb
    cases he : isEt c x with
    | false => rfl
    | true =>
    exfalso
    simp only [isBt, Tok.isBeginAggregation, List.any_eq_true, foldEq, beq_iff_eq] at hb
    simp only [isEt, List.any_eq_true, foldEq, beq_iff_eq] at he
    obtain ⟨p, hp, hpe⟩ := hb
    obtain ⟨q, hq, hqe⟩ := he
    have := (List.all_eq_true.mp ((List.all_eq_true.mp t4) p hp)) q hq
    simp only [bne_iff_ne, ne_eq] at this
    exact this (by rw [← hpe, hqe])
  · intro hkw
    have hk := isKw_of c x hkw
    have hx := isKw_chars c.g t1 x hk
    have hmem := isKw_fold_mem c.g x hk
    have hfacts := (List.all_eq_true.mp t3) _ hmem
    simp only [Bool.and_eq_true, Bool.not_eq_true', bne_iff_ne, ne_eq, List.isEmpty_eq_false_iff] at hfacts
    obtain ⟨⟨⟨⟨⟨⟨⟨⟨k1, k2⟩, k3⟩, k4⟩, k5⟩, k6⟩, k7⟩, k8⟩, k9⟩ := hfacts
    have hlow := casefold_kw_lower c.g ht x hk
    have hne : x ≠ [] := by
      intro h0; subst h0; exact k1 rfl
    obtain ⟨c0, r0, rfl⟩ : ∃ c0 r0, x = c0 :: r0 := by
      cases x with
      | nil => exact absurd rfl hne
      | cons a b => exact ⟨a, b, rfl⟩
    have hc0 : KwCh c0 := hx c0 (by simp)
    have hc0b : kwChB c0 = true := (kwChB_iff c0).mpr hc0
    have hf0 := kwCh_facts c0 hc0
    have hnosp : ∀ y ∈ c0 :: r0, Py.isSpace y = false := fun y hy => (kwCh_facts y (hx y hy)).1
    -- not a comment
    have hcom : Tok.isComment c.g (c0 :: r0) = false := by
      unfold Tok.isComment
      rw [List.any_eq_false]
      intro p hp
      have := (List.all_eq_true.mp t8) p hp
      match hp1 : p.1, this with
      | a :: b, this =>
        simp only [Bool.not_eq_true'] at this
        have hne' : c0 ≠ a := by intro e; subst e; rw [hc0b] at this; cases this
        simp [startsWith, hne']
      | [], this => cases this
    refine ⟨?_, ?_, ?_, ?_, ?_, ?_⟩
    · -- white space or comment
      unfold Tok.isWSC
      have hsp : Tok.isSpace c.g (c0 :: r0) = false := by
        unfold Tok.isSpace
        have : c.g.whitespace.contains c0 = false := by
          rw [Bool.eq_false_iff]
          intro hcon
          have hm : c0 ∈ c.g.whitespace := by simpa [List.contains_iff_mem] using hcon
          have := (List.all_eq_true.mp t5) c0 hm
          rw [hc0b] at this; cases this
        have hnm : c0 ∉ c.g.whitespace := by simpa [List.contains_iff_mem] using this
        simp [hnm]
      have hrepl : ∀ w, w ∈ c.g.whitespace → replaceChar (c0 :: r0) w 32 = c0 :: r0 := by
        intro w hwm
        unfold replaceChar
        have hwk : kwChB w = false := by
          have := (List.all_eq_true.mp t5) w hwm
          simpa using this
        have : ∀ y ∈ c0 :: r0, (if (y == w) = true then 32 else y) = y := by
          intro y hy
          have hyk := (kwChB_iff y).mpr (hx y hy)
          have : y ≠ w := by intro e; subst e; rw [hyk] at hwk; cases hwk
          simp [this]
        conv => rhs; rw [← List.map_id (c0 :: r0)]
        exact List.map_congr_left (by intro y hy; simpa using this y hy)
      simp only [hcom, hsp, Bool.false_or]
      cases hw : c.g.whitespace with
      | nil =>
        simp only
        rw [splitWs_nospace _ (by simp) hnosp]
        simp [hcom]
      | cons w ws =>
        simp only
        rw [hrepl w (by rw [hw]; simp), splitWs_nospace _ (by simp) hnosp]
        simp [hcom]
    · -- delimiter
      unfold Tok.isDelimiter
      rw [Bool.eq_false_iff]
      intro hcon
      have hm : (c0 :: r0) ∈ c.g.delimiters := by simpa [List.contains_iff_mem] using hcon
      have := (List.all_eq_true.mp t9) _ hm
      simp only [List.isEmpty_cons, Bool.false_or, List.any_eq_true, Bool.not_eq_true'] at this
      obtain ⟨y, hy, hyk⟩ := this
      have := (kwChB_iff y).mpr (hx y hy)
      rw [this] at hyk; cases hyk
    · -- a value of no kind
      intro v hv
      have hfold : ∀ kw, casefold kw ≠ casefold (c0 :: r0) → foldEq (c0 :: r0) kw = false := by
        intro kw hk'
        simp only [foldEq, beq_eq_false_iff_ne, ne_eq]
        exact fun e => hk' e.symm
      have hq : decodeQuoted c.d (c0 :: r0) = none := by
        have hb : decodeQuotedBase c.d.g (c0 :: r0) = none := by
          apply decodeQuotedBase_head
          intro q hqm e
          subst e
          rw [hd] at hqm
          have := (List.all_eq_true.mp t6) q hqm
          rw [hc0b] at this; cases this
        unfold decodeQuoted
        rw [hb]
        cases c.d.kind <;> rfl
      have h35 : 35 ∉ c0 :: r0 := by
        intro hm
        exact (kwCh_facts 35 (hx 35 hm)).2.2.2.2.2.2.2.2.1 rfl
      have hdec : decodeDecimal (c0 :: r0) = none :=
        decodeDecimal_kw _ (by simp) hx ⟨by rw [← hlow]; exact fun e => k2 e, by rw [← hlow]; exact fun e => k3 e,
          by rw [← hlow]; exact fun e => k4 e⟩
      have hdt : decodeDatetime c.d (c0 :: r0) = .error .value :=
        decodeDatetime_kw c.d (by rw [hd]; exact t10) _ (by simp) hx
      have hagg : c.d.g.aggKeywords.any (fun p => foldEq p.1 (c0 :: r0) || foldEq p.2 (c0 :: r0)) = true := by
        rw [hd]
        obtain ⟨p, hp, he⟩ := hk
        rw [List.any_eq_true]
        refine ⟨p, hp, ?_⟩
        rcases he with he | he <;> simp [foldEq, he]
      have hunq : decodeUnquoted c.d (c0 :: r0) = .error .value := by
        have hb : decodeUnquotedBase c.d (c0 :: r0) = .error .value := by
          unfold decodeUnquotedBase
          simp only [hagg, if_true]
          split
          · rfl
          · split
            · rfl
            · split <;> rfl
        unfold decodeUnquoted
        cases c.d.kind <;> simp [hb]
      unfold decodeSimple at hv
      rw [hfold _ (by rw [hd]; exact fun e => k5 e.symm), hfold _ (by rw [hd]; exact fun e => k6 e.symm),
        hfold _ (by rw [hd]; exact fun e => k7 e.symm)] at hv
      simp only [Bool.false_eq_true, if_false, hq, decodeNonDecimal_no_hash c.d _ h35, hdec, hdt, hunq] at hv
      cases hv
    · -- units
      simp only [startsWith, Bool.and_true, beq_eq_false_iff_ne, ne_eq]
      intro e
      subst e
      simp only [Bool.not_eq_true'] at t7
      rw [hc0b] at t7; cases t7
    · -- parameter name
      unfold Tok.isParameterName
      have : c.d.g.reservedKeywords.any (fun w => foldEq w (c0 :: r0)) = true := by
        rw [hd]
        simp only [List.any_eq_true, beq_iff_eq] at k9
        obtain ⟨w, hw, hwe⟩ := k9
        rw [List.any_eq_true]
        exact ⟨w, hw, by simp [foldEq, hwe]⟩
      simp [this]
    · -- END
      unfold Tok.isEndStatement
      rw [List.any_eq_false]
      intro e he
      have := (List.all_eq_true.mp k8) e he
      simp only [bne_iff_ne, ne_eq] at this
      simp only [foldEq, beq_iff_eq]
      exact this

end Pvl
