import PvlModel.Lemmas.ParserTerm
import PvlModel.Lemmas.ParserFrame

/-! Fourth pass over the parser functions: `parser.errors` only ever grows, and every
    `EmptyValueAtLine` placeholder in a value that a function returns has its line number in
    `parser.errors` by then.  (The converse — every recorded line belongs to a placeholder that is still in
    the module — is not proved; the check compares `module.errors` with the generator's expectation.) -/
namespace Pvl

mutual
/-- the line numbers of the placeholders in a value, in document order -/
def Val.lines : Val → List Int
  | .empty l => [l]
  | .quant v _ => v.lines
  | .seq l => linesL l
  | .set _ l => linesL l
  | .cont _ items => linesI items
  | _ => []
def linesL : List Val → List Int
  | [] => []
  | v :: r => v.lines ++ linesL r
def linesI : List (Str × Val) → List Int
  | [] => []
  | p :: r => p.2.lines ++ linesI r
end

@[simp] theorem linesL_nil : linesL [] = [] := by simp [linesL]
@[simp] theorem linesI_nil : linesI [] = [] := by simp [linesI]
@[simp] theorem linesL_append (a b : List Val) : linesL (a ++ b) = linesL a ++ linesL b := by
  induction a with
  | nil => simp
  | cons v r ih => simp [linesL, ih]
@[simp] theorem linesI_append (a b : Items) : linesI (a ++ b) = linesI a ++ linesI b := by
  induction a with
  | nil => simp
  | cons v r ih => simp [linesI, ih]
@[simp] theorem linesL_single (v : Val) : linesL [v] = v.lines := by simp [linesL]
@[simp] theorem linesI_single (p : Str × Val) : linesI [p] = p.2.lines := by simp [linesI]

theorem linesI_dropLast_subset (m : Items) : ∀ x ∈ linesI m.dropLast, x ∈ linesI m := by
  induction m with
  | nil => simp
  | cons p r ih =>
    cases r with
    | nil => simp
    | cons q r' =>
      intro x hx
      simp only [List.dropLast_cons₂, linesI, List.mem_append] at hx ⊢
      rcases hx with h | h
      · exact Or.inl h
      · exact Or.inr (by simpa [linesI] using ih x h)

mutual
theorem lines_of_noEmpty : ∀ v : Val, v.noEmpty = true → v.lines = []
  | .empty _, h => by simp [Val.noEmpty] at h
  | .quant v _, h => by simp only [Val.noEmpty] at h; simp only [Val.lines]; exact lines_of_noEmpty v h
  | .seq l, h => by simp only [Val.noEmpty] at h; simp only [Val.lines]; exact linesL_of_noEmpty l h
  | .set _ l, h => by simp only [Val.noEmpty] at h; simp only [Val.lines]; exact linesL_of_noEmpty l h
  | .cont _ items, h => by simp only [Val.noEmpty] at h; simp only [Val.lines]; exact linesI_of_noEmpty items h
  | .none, _ => by simp [Val.lines]
  | .bool _, _ => by simp [Val.lines]
  | .int _, _ => by simp [Val.lines]
  | .real _, _ => by simp [Val.lines]
  | .str _, _ => by simp [Val.lines]
  | .date _ _ _, _ => by simp [Val.lines]
  | .time _ _ _ _ _, _ => by simp [Val.lines]
  | .datetime _ _ _ _ _ _ _ _, _ => by simp [Val.lines]
theorem linesL_of_noEmpty : ∀ l : List Val, noEmptyL l = true → linesL l = []
  | [], _ => by simp
  | v :: r, h => by
    simp only [noEmptyL, Bool.and_eq_true] at h
    simp [linesL, lines_of_noEmpty v h.1, linesL_of_noEmpty r h.2]
theorem linesI_of_noEmpty : ∀ l : List (Str × Val), noEmptyI l = true → linesI l = []
  | [], _ => by simp
  | p :: r, h => by
    simp only [noEmptyI, Bool.and_eq_true] at h
    simp [linesI, lines_of_noEmpty p.2 h.1, linesI_of_noEmpty r h.2]
end

theorem decodeSimple_lines (d : Dec) (s : Str) (v : Val) (h : decodeSimple d s = .ok v) : v.lines = [] :=
  lines_of_noEmpty v (decodeSimple_noEmpty d s v h)

namespace P
open Std.Do

set_option mvcgen.warning false

/-- `a` is an initial segment of `b` -/
def Pre (a b : List Int) : Prop := ∃ x, b = a ++ x

theorem Pre.refl (a : List Int) : Pre a a := ⟨[], by simp⟩
theorem Pre.trans {a b c : List Int} (h1 : Pre a b) (h2 : Pre b c) : Pre a c := by
  obtain ⟨x, rfl⟩ := h1; obtain ⟨y, rfl⟩ := h2; exact ⟨x ++ y, by simp⟩
theorem Pre.mem {a b : List Int} (h : Pre a b) {x : Int} (hx : x ∈ a) : x ∈ b := by
  obtain ⟨y, rfl⟩ := h; simp [hx]
theorem Pre.snoc (a : List Int) (x : Int) : Pre a (a ++ [x]) := ⟨[x], rfl⟩

macro "ln_ghost" : tactic => `(tactic|
  all_goals (try (first | exact PSt.errors (by assumption) | exact (fun s _ => PSt.errors s) | exact (fun s => PSt.errors s))))

macro "ln_close" : tactic => `(tactic|
  all_goals (first
    | assumption
    | (intros; simp_all [Pre.refl, Val.lines]; done)
    | (simp_all (config := {zetaDelta := true}) [Pre.refl, Val.lines]; done)
    | grind [Pre.refl, Pre.trans, Pre.mem, Pre.snoc, Val.lines, linesL_append, linesI_append, linesL_single,
        linesI_single, linesL_nil, linesI_nil, linesI_dropLast_subset, lines_of_noEmpty, decodeSimple_noEmpty]
    | grind (splits := 30) [Pre.refl, Pre.trans, Pre.mem, Pre.snoc, Val.lines, linesL_append, linesI_append,
        linesL_single, linesI_single, linesL_nil, linesI_nil, linesI_dropLast_subset, lines_of_noEmpty,
        decodeSimple_noEmpty]))

theorem next_ln (c : PCfg) (E0 : List Int) :
    ⦃fun s => ⌜s.errors = E0⌝⦄ (next c : PM Token)
    ⦃post⟨fun _ s => ⌜s.errors = E0⌝, fun _ s => ⌜s.errors = E0⌝⟩⦄ := by
  mvcgen [next]; ln_close

theorem send_ln (t : Token) (E0 : List Int) :
    ⦃fun s => ⌜s.errors = E0⌝⦄ (send t : PM Unit)
    ⦃post⟨fun _ s => ⌜s.errors = E0⌝, fun _ s => ⌜s.errors = E0⌝⟩⦄ := by
  mvcgen [send]; ln_close

theorem throwIn_ln {α} (E0 : List Int) :
    ⦃fun s => ⌜s.errors = E0⌝⦄ (throwIn : PM α)
    ⦃post⟨fun _ _ => ⌜False⌝, fun _ s => ⌜s.errors = E0⌝⟩⦄ := by
  mvcgen [throwIn]; ln_close

theorem mark_ln (site : String) (E0 : List Int) :
    ⦃fun s => ⌜s.errors = E0⌝⦄ (mark site : PM Unit)
    ⦃post⟨fun _ s => ⌜s.errors = E0⌝, fun _ _ => ⌜False⌝⟩⦄ := by
  mvcgen [mark]

theorem emptyValue_ln (c : PCfg) (pos : Int) (E0 : List Int) :
    ⦃fun s => ⌜s.errors = E0⌝⦄ (emptyValue c pos : PM Val)
    ⦃post⟨fun r s => ⌜Pre E0 s.errors ∧ ∀ x ∈ r.lines, x ∈ s.errors⌝, fun _ _ => ⌜False⌝⟩⦄ := by
  mvcgen [emptyValue]
  rename_i lc s h t
  simp only [Val.lines, List.mem_singleton, forall_eq, Pre]
  have ht : t.snd.errors = E0 ++ [lc] := by
    show s.errors ++ [lc] = E0 ++ [lc]
    rw [h]
  rw [ht]
  exact ⟨⟨[lc], rfl⟩, by simp⟩

theorem wscUntil_ln (c : PCfg) (tok : Option Str) (fuel : Nat) (E0 : List Int) :
    ⦃fun s => ⌜s.errors = E0⌝⦄ (wscUntil c tok fuel : PM Bool)
    ⦃post⟨fun _ s => ⌜s.errors = E0⌝, fun _ s => ⌜s.errors = E0⌝⟩⦄ := by
  induction fuel generalizing E0 with
  | zero => unfold wscUntil; mvcgen
  | succ n ih => unfold wscUntil; mvcgen -trivial [next_ln, send_ln, ih]; ln_ghost; ln_close

theorem stmtDelim_ln (c : PCfg) (fuel : Nat) (E0 : List Int) :
    ⦃fun s => ⌜s.errors = E0⌝⦄ (stmtDelim c fuel : PM Bool)
    ⦃post⟨fun _ s => ⌜s.errors = E0⌝, fun _ s => ⌜s.errors = E0⌝⟩⦄ := by
  induction fuel generalizing E0 with
  | zero => unfold stmtDelim; mvcgen
  | succ n ih => unfold stmtDelim; mvcgen -trivial [next_ln, send_ln, ih]; ln_ghost; ln_close

theorem aroundEquals_ln (c : PCfg) (fuel : Nat) (E0 : List Int) :
    ⦃fun s => ⌜s.errors = E0⌝⦄ (aroundEquals c fuel : PM Unit)
    ⦃post⟨fun _ s => ⌜s.errors = E0⌝, fun _ s => ⌜s.errors = E0⌝⟩⦄ := by
  unfold aroundEquals
  mvcgen -trivial [wscUntil_ln, next_ln, send_ln]; ln_ghost; ln_close

theorem units_ln (c : PCfg) (v : Val) (E0 : List Int) :
    ⦃fun s => ⌜s.errors = E0⌝⦄ (units c v : PM Val)
    ⦃post⟨fun r s => ⌜s.errors = E0 ∧ r.lines = v.lines⌝, fun _ s => ⌜s.errors = E0⌝⟩⦄ := by
  unfold units
  mvcgen -trivial [next_ln, send_ln, throwIn_ln]; ln_ghost; ln_close

theorem valueHook_ln (c : PCfg) (E0 : List Int) :
    ⦃fun s => ⌜s.errors = E0⌝⦄ (valueHook c : PM Val)
    ⦃post⟨fun r s => ⌜Pre E0 s.errors ∧ ∀ x ∈ r.lines, x ∈ s.errors⌝, fun _ s => ⌜s.errors = E0⌝⟩⦄ := by
  unfold valueHook
  mvcgen -trivial [next_ln, send_ln, emptyValue_ln]; ln_ghost; ln_close


/-- the value functions: `errors` only grows, and the placeholders of the returned value are listed.
    (`0 ≤ fuel` in the loop's post-condition is there for the proof engine only: it keeps mvcgen from
    identifying the ghost of a tail call with the caller's by unifying the two post-conditions.) -/
def ValueLn (c : PCfg) (fuel : Nat) : Prop :=
  (∀ E0, ⦃fun s => ⌜s.errors = E0⌝⦄ (value c fuel : PM Val)
    ⦃post⟨fun r s => ⌜Pre E0 s.errors ∧ ∀ x ∈ r.lines, x ∈ s.errors⌝, fun _ s => ⌜Pre E0 s.errors⌝⟩⦄) ∧
  (∀ delims E0, ⦃fun s => ⌜s.errors = E0⌝⦄ (setSeq c delims fuel : PM (List Val))
    ⦃post⟨fun r s => ⌜Pre E0 s.errors ∧ ∀ x ∈ linesL r, x ∈ s.errors⌝,
          fun _ s => ⌜Pre E0 s.errors⌝⟩⦄) ∧
  (∀ delims acc E0, ⦃fun s => ⌜s.errors = E0 ∧ ∀ x ∈ linesL acc, x ∈ E0⌝⦄
      (setSeqLoop c delims acc fuel : PM (Option (List Val)))
    ⦃post⟨fun r s => ⌜Pre E0 s.errors ∧ (∀ l, r = some l → ∀ x ∈ linesL l, x ∈ s.errors) ∧ 0 ≤ fuel⌝,
          fun _ s => ⌜Pre E0 s.errors ∧ 0 ≤ fuel⌝⟩⦄) ∧
  (∀ E0, ⦃fun s => ⌜s.errors = E0⌝⦄ (pset c fuel : PM Val)
    ⦃post⟨fun r s => ⌜Pre E0 s.errors ∧ ∀ x ∈ r.lines, x ∈ s.errors⌝,
          fun _ s => ⌜Pre E0 s.errors⌝⟩⦄) ∧
  (∀ E0, ⦃fun s => ⌜s.errors = E0⌝⦄ (pseq c fuel : PM Val)
    ⦃post⟨fun r s => ⌜Pre E0 s.errors ∧ ∀ x ∈ r.lines, x ∈ s.errors⌝,
          fun _ s => ⌜Pre E0 s.errors⌝⟩⦄)

theorem valueLn_zero (c : PCfg) : ValueLn c 0 := by
  refine ⟨?_, ?_, ?_, ?_, ?_⟩
  · intro E0; unfold value; mvcgen; ln_close
  · intro d E0; unfold setSeq; mvcgen; ln_close
  · intro d a E0; unfold setSeqLoop; mvcgen; ln_close
  · intro E0; unfold pset; mvcgen; ln_close
  · intro E0; unfold pseq; mvcgen; ln_close

set_option maxHeartbeats 8000000 in
theorem valueLn_succ (c : PCfg) (n : Nat) (ih : ValueLn c n) : ValueLn c (n + 1) := by
  obtain ⟨ihValue, ihSetSeq, ihLoop, ihSet, ihSeq⟩ := ih
  refine ⟨?_, ?_, ?_, ?_, ?_⟩
  · intro E0
    unfold value
    mvcgen -trivial [softCatch, next_ln, send_ln, ihSet, ihSeq, valueHook_ln, throwIn_ln, wscUntil_ln, units_ln]
    ln_ghost
    all_goals (try (ln_close; done))
    all_goals (
      intro s hs
      rename_i e
      by_cases hv : e.isValueError = true
      · simp only [hv, if_true]
        simp_all [Pre.refl]
      · simp only [hv]
        simp_all [Pre.refl])
  · intro d E0
    unfold setSeq
    mvcgen -trivial [next_ln, send_ln, wscUntil_ln, ihValue, ihLoop]
    ln_ghost
    ln_close
  · intro d a E0
    unfold setSeqLoop
    mvcgen -trivial [next_ln, send_ln, wscUntil_ln, ihValue, ihLoop, throwIn_ln]
    ln_ghost
    ln_close
  · intro E0
    unfold pset
    mvcgen -trivial [ihSetSeq, throwIn_ln]
    ln_ghost
    ln_close
  · intro E0
    unfold pseq
    mvcgen -trivial [ihSetSeq]
    ln_ghost
    ln_close

theorem valueLn (c : PCfg) (fuel : Nat) : ValueLn c fuel := by
  induction fuel with
  | zero => exact valueLn_zero c
  | succ n ih => exact valueLn_succ c n ih

theorem value_ln (c : PCfg) (fuel : Nat) (E0 : List Int) :
    ⦃fun s => ⌜s.errors = E0⌝⦄ (value c fuel : PM Val)
    ⦃post⟨fun r s => ⌜Pre E0 s.errors ∧ ∀ x ∈ r.lines, x ∈ s.errors⌝, fun _ s => ⌜Pre E0 s.errors⌝⟩⦄ :=
  (valueLn c fuel).1 E0

theorem assignmentBase_ln (c : PCfg) (fuel : Nat) (E0 : List Int) :
    ⦃fun s => ⌜s.errors = E0⌝⦄ (assignmentBase c fuel : PM (Str × Val))
    ⦃post⟨fun r s => ⌜Pre E0 s.errors ∧ ∀ x ∈ r.2.lines, x ∈ s.errors⌝, fun _ s => ⌜Pre E0 s.errors⌝⟩⦄ := by
  unfold assignmentBase
  mvcgen -trivial [softCatch, next_ln, send_ln, aroundEquals_ln, throwIn_ln, value_ln, stmtDelim_ln]
  ln_ghost
  ln_close

theorem assignment_ln (c : PCfg) (fuel : Nat) (E0 : List Int) :
    ⦃fun s => ⌜s.errors = E0⌝⦄ (assignment c fuel : PM (Str × Val))
    ⦃post⟨fun r s => ⌜Pre E0 s.errors ∧ ∀ x ∈ r.2.lines, x ∈ s.errors⌝, fun _ s => ⌜Pre E0 s.errors⌝⟩⦄ := by
  unfold assignment
  mvcgen -trivial [assignmentBase_ln, emptyValue_ln]
  ln_ghost
  ln_close

theorem endStatement_ln (c : PCfg) (E0 : List Int) :
    ⦃fun s => ⌜s.errors = E0⌝⦄ (endStatement c : PM Unit)
    ⦃post⟨fun _ s => ⌜s.errors = E0⌝, fun _ s => ⌜s.errors = E0⌝⟩⦄ := by
  unfold endStatement
  mvcgen -trivial [next_ln, send_ln]; ln_ghost; ln_close

theorem beginAgg_ln (c : PCfg) (fuel : Nat) (E0 : List Int) :
    ⦃fun s => ⌜s.errors = E0⌝⦄ (beginAgg c fuel : PM (Str × Str))
    ⦃post⟨fun _ s => ⌜s.errors = E0⌝, fun _ s => ⌜s.errors = E0⌝⟩⦄ := by
  unfold beginAgg
  mvcgen -trivial [softCatch, next_ln, send_ln, aroundEquals_ln, throwIn_ln, stmtDelim_ln]; ln_ghost; ln_close

theorem endAgg_ln (c : PCfg) (b n : Str) (fuel : Nat) (E0 : List Int) :
    ⦃fun s => ⌜s.errors = E0⌝⦄ (endAgg c b n fuel : PM Unit)
    ⦃post⟨fun _ s => ⌜s.errors = E0⌝, fun _ s => ⌜s.errors = E0⌝⟩⦄ := by
  unfold endAgg
  mvcgen -trivial [next_ln, send_ln, aroundEquals_ln, throwIn_ln, stmtDelim_ln]; ln_ghost; ln_close

set_option maxHeartbeats 4000000 in
/-- the module post-hook: the placeholders of the container it hands back are all listed -/
theorem moduleHook_ln (c : PCfg) (m : Items) (fuel : Nat) (E0 : List Int) :
    ⦃fun s => ⌜s.errors = E0 ∧ ∀ x ∈ linesI m, x ∈ E0⌝⦄ (moduleHook c m fuel : PM (Items × Except PErr Bool))
    ⦃post⟨fun r s => ⌜Pre E0 s.errors ∧ ∀ x ∈ linesI r.1, x ∈ s.errors⌝, fun _ _ => ⌜False⌝⟩⦄ := by
  unfold moduleHook moduleHook.peek
  mvcgen -trivial [next_ln, send_ln, emptyValue_ln, mark_ln, wscUntil_ln, value_ln, stmtDelim_ln]
  ln_ghost
  ln_close

macro "ln_close_g" : tactic => `(tactic|
  all_goals (first
    | assumption
    | grind [Pre.refl, Pre.trans, Pre.mem, Pre.snoc, Val.lines, linesL_append, linesI_append, linesL_single,
        linesI_single, linesL_nil, linesI_nil, linesI_dropLast_subset, lines_of_noEmpty, decodeSimple_noEmpty]
    | grind (splits := 30) [Pre.refl, Pre.trans, Pre.mem, Pre.snoc, Val.lines, linesL_append, linesI_append,
        linesL_single, linesI_single, linesL_nil, linesI_nil, linesI_dropLast_subset, lines_of_noEmpty,
        decodeSimple_noEmpty]))

def AggLn (c : PCfg) (fuel : Nat) : Prop :=
  (∀ E0, ⦃fun s => ⌜s.errors = E0⌝⦄ (aggBlock c fuel : PM (Str × Val))
    ⦃post⟨fun r s => ⌜Pre E0 s.errors ∧ ∀ x ∈ r.2.lines, x ∈ s.errors⌝, fun _ s => ⌜Pre E0 s.errors⌝⟩⦄) ∧
  (∀ b n agg E0, ⦃fun s => ⌜s.errors = E0 ∧ ∀ x ∈ linesI agg, x ∈ E0⌝⦄ (aggLoop c b n agg fuel : PM Items)
    ⦃post⟨fun r s => ⌜Pre E0 s.errors ∧ (∀ x ∈ linesI r, x ∈ s.errors) ∧ 0 ≤ fuel⌝,
          fun _ s => ⌜Pre E0 s.errors ∧ 0 ≤ fuel⌝⟩⦄)

theorem aggLn_zero (c : PCfg) : AggLn c 0 := by
  refine ⟨?_, ?_⟩
  · intro E0; unfold aggBlock; mvcgen; ln_close
  · intro b n a E0; unfold aggLoop; mvcgen; ln_close

set_option maxRecDepth 4000 in
set_option maxHeartbeats 16000000 in
theorem aggLn_succ (c : PCfg) (k : Nat) (ih : AggLn c k) : AggLn c (k + 1) := by
  obtain ⟨ihBlock, ihLoop⟩ := ih
  refine ⟨?_, ?_⟩
  · intro E0
    unfold aggBlock
    mvcgen -trivial [beginAgg_ln, throwIn_ln, ihLoop]
    ln_ghost
    ln_close
  · intro b n a E0
    unfold aggLoop
    mvcgen -trivial [softCatch, wscUntil_ln, ihBlock, ihLoop, assignment_ln, endAgg_ln, moduleHook_ln, throwIn_ln]
    ln_ghost
    ln_close_g

theorem aggLn (c : PCfg) (fuel : Nat) : AggLn c fuel := by
  induction fuel with
  | zero => exact aggLn_zero c
  | succ n ih => exact aggLn_succ c n ih

theorem aggBlock_ln (c : PCfg) (fuel : Nat) (E0 : List Int) :
    ⦃fun s => ⌜s.errors = E0⌝⦄ (aggBlock c fuel : PM (Str × Val))
    ⦃post⟨fun r s => ⌜Pre E0 s.errors ∧ ∀ x ∈ r.2.lines, x ∈ s.errors⌝, fun _ s => ⌜Pre E0 s.errors⌝⟩⦄ :=
  (aggLn c fuel).1 E0

set_option maxRecDepth 4000 in
set_option maxHeartbeats 16000000 in
/-- **`parse_module`: every placeholder in the module it returns is listed in `parser.errors`** -/
theorem moduleLoop_ln (c : PCfg) (fuel : Nat) :
    ∀ m E0, ⦃fun s => ⌜s.errors = E0 ∧ ∀ x ∈ linesI m, x ∈ E0⌝⦄ (moduleLoop c m fuel : PM Items)
      ⦃post⟨fun r s => ⌜(∀ x ∈ linesI r, x ∈ s.errors) ∧ 0 ≤ fuel⌝, fun _ _ => ⌜0 ≤ fuel⌝⟩⦄ := by
  induction fuel with
  | zero => intro m E0; unfold moduleLoop; mvcgen; ln_close
  | succ k ih =>
    intro m E0
    unfold moduleLoop
    mvcgen -trivial [softCatch, wscUntil_ln, aggBlock_ln, assignment_ln, endStatement_ln, moduleHook_ln,
      next_ln, throwIn_ln, ih]
    ln_ghost
    ln_close_g

end P
end Pvl
