import PvlModel.Model.Lexer

/-! White space between tokens (C04): lemmas about `lexGo`. -/
namespace Pvl
open Py

/-- a white-space character with no other role in the grammar: allowed, in `whitespace`, not a comment
    character, not `#`, `/`, `*`, `+`, `-`, not a units or quotation delimiter, not part of a comment opener
    (openers have at most two characters), and never completing a number with the character before it -/
def plainWs (g : Grammar) (w : Nat) : Bool :=
  charAllowed g w && g.whitespace.contains w && !(commentChars g).contains w && w != 35 && w != 47 && w != 42 &&
  w != g.unitsDelims.1 && !g.quotes.contains w && !g.reserved.contains w &&
  g.comments.all (fun p => !p.1.contains w && p.1.length ≤ 2) && !g.numericStart.contains w && w != 43 && w != 45 &&
  g.numericStart.all (fun ch => !Tok.isNumeric ⟨g, .pvl⟩ [ch, w, 48])

/-- the lexer is between lexemes and outside any quoted string, comment, units expression -/
def LS.clean (ls : LS) : Prop := ls.lexeme = [] ∧ ls.st = .off

/-- the texts of the tokens, and whether the lexer reached the end of the text -/
def texts (r : List Token × Tail) : List Str × Bool := (r.1.map Token.text, r.2 == .eof)

theorem plainWs_facts (g : Grammar) (w : Nat) (hw : plainWs g w = true) :
    charAllowed g w = true ∧ g.whitespace.contains w = true ∧ (commentChars g).contains w = false ∧ w ≠ 35 ∧
    w ≠ 47 ∧ w ≠ 42 ∧ w ≠ g.unitsDelims.1 ∧ g.quotes.contains w = false ∧ g.reserved.contains w = false ∧
    (∀ p ∈ g.comments, p.1.contains w = false ∧ p.1.length ≤ 2) ∧ g.numericStart.contains w = false ∧ w ≠ 43 ∧
    w ≠ 45 ∧ (∀ ch ∈ g.numericStart, Tok.isNumeric ⟨g, .pvl⟩ [ch, w, 48] = false) := by
  simp only [plainWs, Bool.and_eq_true, Bool.not_eq_true', bne_iff_ne, ne_eq, List.all_eq_true,
    decide_eq_true_eq] at hw
  obtain ⟨⟨⟨⟨⟨⟨⟨⟨⟨⟨⟨⟨⟨h1, h2⟩, h3⟩, h4⟩, h5⟩, h6⟩, h7⟩, h8⟩, h9⟩, h10⟩, h11⟩, h13⟩, h14⟩, h12⟩ := hw
  exact ⟨h1, h2, h3, h4, h5, h6, h7, h8, h9, h10, h11, h13, h14, h12⟩

theorem lexChar_ws (g : Grammar) (w : Nat) (hw : plainWs g w = true) (prev next : Option Nat) (ls : LS)
    (hc : ls.clean) : lexChar g w prev next ls = ls := by
  simp only [plainWs, Bool.and_eq_true, Bool.not_eq_true', bne_iff_ne, ne_eq] at hw
  obtain ⟨⟨⟨⟨⟨⟨⟨⟨⟨⟨⟨⟨⟨h1, h2⟩, h3⟩, h4⟩, h5⟩, h6⟩, h7⟩, h8⟩, h9⟩, h10⟩, h11⟩, h13⟩, h14⟩, h12⟩ := hw
  obtain ⟨hl, hs⟩ := hc
  unfold lexChar
  have e2 : (w == 35) = false := by simpa using h4
  have e3 : (w == g.unitsDelims.1) = false := by simpa using h7
  have e4 : (commentChars g).contains w = false := h3
  have e5 : g.quotes.contains w = false := h8
  have e6 : g.whitespace.contains w = true := h2
  rw [hs]
  simp only [bne_self_eq_false, Bool.false_eq_true, if_false, e2, Bool.false_and, e4, e3, e5, e6,
    Bool.not_true]

/-- one plain white-space character at a clean boundary is skipped -/
theorem lexGo_ws_step (g : Grammar) (d : Dec) (w : Nat) (hw : plainWs g w = true) (rest : Str) (i : Nat)
    (prev : Option Nat) (ls : LS) (hc : ls.clean) (acc : List Token) :
    lexGo g d (w :: rest) i prev ls acc = lexGo g d rest (i + 1) (some w) ls acc := by
  have ha : charAllowed g w = true := by
    simp only [plainWs, Bool.and_eq_true] at hw
    exact hw.1.1.1.1.1.1.1.1.1.1.1.1.1
  rw [lexGo]
  simp only [ha, Bool.not_true, Bool.false_eq_true, if_false]
  rw [lexChar_ws g w hw prev _ ls hc]
  simp [hc.1]

/-- a run of plain white space at a clean boundary is skipped -/
theorem lexGo_ws_run (g : Grammar) (d : Dec) (ws : Str) (hws : ∀ w ∈ ws, plainWs g w = true) (hne : ws ≠ []) :
    ∀ (rest : Str) (i : Nat) (prev : Option Nat) (ls : LS), ls.clean → ∀ acc,
    ∃ w, plainWs g w = true ∧
      lexGo g d (ws ++ rest) i prev ls acc = lexGo g d rest (i + ws.length) (some w) ls acc := by
  induction ws with
  | nil => exact absurd rfl hne
  | cons w r ih =>
    intro rest i prev ls hc acc
    have hw := hws w (by simp)
    rw [List.cons_append, lexGo_ws_step g d w hw _ i prev ls hc acc]
    cases hr : r with
    | nil => exact ⟨w, hw, by simp⟩
    | cons w' r' =>
      obtain ⟨w2, hw2, e⟩ := ih (fun x hx => hws x (by simp [hx])) (by simp [hr]) rest (i + 1) (some w) ls hc acc
      refine ⟨w2, hw2, ?_⟩
      rw [← hr, e]
      simp [Nat.add_assoc, Nat.add_comm 1]

end Pvl

namespace Pvl
open Py

theorem plainWs_ne (g : Grammar) (w : Nat) (hw : plainWs g w = true) : w ≠ 47 ∧ w ≠ 42 := by
  simp only [plainWs, Bool.and_eq_true, Bool.not_eq_true', bne_iff_ne, ne_eq] at hw
  exact ⟨hw.1.1.1.1.1.1.1.1.1.2, hw.1.1.1.1.1.1.1.1.2⟩

/-- which plain white-space character came before does not matter to the lexer -/
theorem lexChar_prev (g : Grammar) (ch : Nat) (w w' : Nat) (hw : plainWs g w = true) (hw' : plainWs g w' = true)
    (next : Option Nat) (ls : LS) : lexChar g ch (some w) next ls = lexChar g ch (some w') next ls := by
  obtain ⟨a1, a2⟩ := plainWs_ne g w hw
  obtain ⟨b1, b2⟩ := plainWs_ne g w' hw'
  have e1 : (some w == some 47) = false := by simp [a1]
  have e2 : (some w' == some 47) = false := by simp [b1]
  have e3 : (some w != some 42) = true := by simp [a2]
  have e4 : (some w' != some 42) = true := by simp [b2]
  unfold lexChar lexComment
  simp only [e1, e2, e3, e4]

theorem lexGo_prev (g : Grammar) (d : Dec) (w w' : Nat) (hw : plainWs g w = true) (hw' : plainWs g w' = true)
    (s : Str) (i : Nat) (ls : LS) (acc : List Token) :
    lexGo g d s i (some w) ls acc = lexGo g d s i (some w') ls acc := by
  cases s with
  | nil => simp [lexGo]
  | cons ch rest =>
    rw [lexGo, lexGo]
    simp only [lexChar_prev g ch w w' hw hw']

@[simp] theorem lexerr_beq_eof (p : Int) : (Tail.lexerr p == Tail.eof) = false := by
  simp [BEq.beq, instBEqOfDecidableEq]

/-- token texts and the eof flag do not depend on the running index or on the positions recorded so far -/
theorem lexGo_texts_shift (g : Grammar) (d : Dec) :
    ∀ (s : Str) (i i' : Nat) (prev : Option Nat) (ls : LS) (acc acc' : List Token),
      acc.map Token.text = acc'.map Token.text →
      texts (lexGo g d s i prev ls acc) = texts (lexGo g d s i' prev ls acc') := by
  intro s
  induction s with
  | nil =>
    intro i i' prev ls acc acc' h
    simp [lexGo, texts, List.map_reverse, h]
  | cons ch rest ih =>
    intro i i' prev ls acc acc' h
    rw [lexGo, lexGo]
    split
    · simp [texts, List.map_reverse, h]
    · simp only
      split
      · exact ih _ _ _ _ _ _ h
      · split
        · exact ih _ _ _ _ _ _ h
        · split
          · exact ih _ _ _ _ _ _ (by simp [h])
          · exact ih _ _ _ _ _ _ h

end Pvl

namespace Pvl
open Py

/-- result of lexing a prefix of the text -/
inductive PreRes
  | err (r : List Token × Tail)
  | ok (i : Nat) (prev : Option Nat) (ls : LS) (acc : List Token)

/-- `lexGo` restricted to the characters of `A`, knowing only that the character after `A` is `la` -/
def lexPre (g : Grammar) (d : Dec) : Str → Nat → Nat → Option Nat → LS → List Token → PreRes
  | [], _, i, prev, ls, acc => .ok i prev ls acc
  | ch :: rest, la, i, prev, ls, acc =>
    if !charAllowed g ch then
      .err (acc.reverse, .lexerr (if ls.lexeme.isEmpty then (i : Int) else (i : Int) - ls.lexeme.length + 1))
    else
      let next := (rest ++ [la]).head?
      let ls1 := lexChar g ch prev next ls
      if ls1.lexeme.isEmpty then lexPre g d rest la (i + 1) (some ch) ls1 acc
      else
        match lexContinue g d ch next ls1 with
        | true => lexPre g d rest la (i + 1) (some ch) ls1 acc
        | false =>
          if yieldCond g d next (rest ++ [la]) ls1.lexeme then
            lexPre g d rest la (i + 1) (some ch) { ls1 with lexeme := [] }
              (⟨ls1.lexeme, (i : Int) - ls1.lexeme.length + 1, i⟩ :: acc)
          else lexPre g d rest la (i + 1) (some ch) ls1 acc

/-- a comment opener of at most two characters that does not contain `la` cannot tell `r ++ la :: B` from
    `r ++ [la]` -/
theorem startsWith_ext (r B p : Str) (la : Nat) (hp : p.length ≤ 2) (hla : p.contains la = false) :
    startsWith (r ++ la :: B) p = startsWith (r ++ [la]) p := by
  have hmem : ∀ c ∈ p, (la == c) = false := by
    intro c hc
    cases h : (la == c) with
    | false => rfl
    | true =>
      have : la = c := by simpa using h
      subst this
      have : p.contains la = true := by simpa using hc
      rw [hla] at this; cases this
  match p, hp, hmem with
  | [], _, _ => simp [startsWith]
  | [c], _, hm =>
    cases r with
    | nil => simp [startsWith, hm c (by simp)]
    | cons a t => simp [startsWith]
  | [c1, c2], _, hm =>
    cases r with
    | nil => simp [startsWith, hm c1 (by simp)]
    | cons a t =>
      cases t with
      | nil => simp [startsWith, hm c2 (by simp)]
      | cons b t' => simp [startsWith]
  | _ :: _ :: _ :: _, hp, _ => simp at hp

theorem yieldCond_ext (g : Grammar) (d : Dec) (la : Nat) (hw : plainWs g la = true) (next : Option Nat)
    (r B lex : Str) : yieldCond g d next (r ++ la :: B) lex = yieldCond g d next (r ++ [la]) lex := by
  obtain ⟨_, _, _, _, _, _, _, _, _, f10, _⟩ := plainWs_facts g la hw
  unfold yieldCond
  cases next with
  | none => rfl
  | some n =>
    have : g.comments.any (fun p => startsWith (r ++ la :: B) p.1) = g.comments.any (fun p => startsWith (r ++ [la]) p.1) := by
      have hall : ∀ l : List (Str × Str), (∀ p ∈ l, p ∈ g.comments) →
          l.any (fun p => startsWith (r ++ la :: B) p.1) = l.any (fun p => startsWith (r ++ [la]) p.1) := by
        intro l
        induction l with
        | nil => intro _; rfl
        | cons p t ih =>
          intro hsub
          have hp := hsub p (by simp)
          simp only [List.any_cons, startsWith_ext r B p.1 la (f10 p hp).2 (f10 p hp).1,
            ih (fun q hq => hsub q (by simp [hq]))]
      exact hall g.comments (fun _ h => h)
    simp only [this]

end Pvl

namespace Pvl
open Py

theorem head?_ext (r B : Str) (la : Nat) : (r ++ la :: B).head? = (r ++ [la]).head? := by
  cases r <;> simp

/-- **locality**: how the lexer treats the characters of `A` does not depend on what comes after the
    (plain white-space) character that follows `A` -/
theorem lexGo_prefix (g : Grammar) (d : Dec) (la : Nat) (hw : plainWs g la = true) (B : Str) :
    ∀ (A : Str) (i : Nat) (prev : Option Nat) (ls : LS) (acc : List Token),
      lexGo g d (A ++ la :: B) i prev ls acc =
        match lexPre g d A la i prev ls acc with
        | .err r => r
        | .ok i' p' l' a' => lexGo g d (la :: B) i' p' l' a' := by
  intro A
  induction A with
  | nil => intro i prev ls acc; simp [lexPre]
  | cons ch rest ih =>
    intro i prev ls acc
    rw [List.cons_append, lexGo, lexPre]
    simp only [head?_ext rest B la, yieldCond_ext g d la hw]
    by_cases h1 : (!charAllowed g ch) = true
    · simp only [h1, if_true]
    · simp only [h1, Bool.false_eq_true, if_false]
      generalize lexChar g ch prev (rest ++ [la]).head? ls = ls1
      by_cases h2 : ls1.lexeme.isEmpty = true
      · simp only [h2, if_true]; exact ih _ _ _ _
      · simp only [h2, Bool.false_eq_true, if_false]
        cases h3 : lexContinue g d ch (rest ++ [la]).head? ls1
        · simp only
          by_cases h4 : yieldCond g d (rest ++ [la]).head? (rest ++ [la]) ls1.lexeme = true
          · simp only [h4, if_true]; exact ih _ _ _ _
          · simp only [h4, Bool.false_eq_true, if_false]; exact ih _ _ _ _
        · simp only; exact ih _ _ _ _

end Pvl

namespace Pvl
open Py

/-! ### which plain white-space character follows does not matter -/

theorem optSign_split (s : Str) : s = (optSign s).1 ++ (optSign s).2 := by
  unfold optSign; split <;> simp

theorem radixPvl_split (r t : Str) (rad : Nat) (h : radixPvl r = some (rad, t)) : ∃ pre, r = pre ++ t := by
  unfold radixPvl at h
  split at h
  · simp at h; exact ⟨[50], by simp [h.2]⟩
  · simp at h; exact ⟨[56], by simp [h.2]⟩
  · simp at h; exact ⟨[49, 54], by simp [h.2]⟩
  · cases h

theorem radixOdl_split (r t : Str) (rad : Nat) (h : radixOdl r = some (rad, t)) : ∃ pre, r = pre ++ t := by
  cases r with
  | nil => simp [radixOdl] at h
  | cons a r1 =>
    cases r1 with
    | nil =>
      simp [radixOdl] at h
      exact ⟨[a], by simp [h.2.2]⟩
    | cons c r2 =>
      by_cases ha : a = 49
      · subst ha
        simp [radixOdl] at h
        exact ⟨[49, c], by simp [h.2.2]⟩
      · unfold radixOdl at h
        split at h
        · rename_i heq; simp at heq; exact absurd heq.1 ha
        · rename_i heq
          simp at heq
          obtain ⟨rfl, rfl⟩ := heq
          split at h
          · simp at h; exact ⟨[a], by simp [h.2]⟩
          · cases h
        · cases h

theorem getLast?_append_cons (a : Str) (c : Nat) (b : Str) :
    (a ++ c :: b).getLast? = (c :: b).getLast? := by
  induction a with
  | nil => rfl
  | cons x r ih =>
    cases hr : r ++ c :: b with
    | nil => simp at hr
    | cons y t => simp only [List.cons_append, hr, List.getLast?_cons_cons]; rw [← hr]; exact ih

/-- the "radix and `#` so far" prefix pattern can only match text that ends in `#`, `+` or `-` -/
theorem ndPreFull_last (pat : String) (s : Str) (h : ndPreFull pat s = true) :
    s.getLast? = some 35 ∨ s.getLast? = some 43 ∨ s.getLast? = some 45 := by
  have signTail : ∀ r : Str, (optSign r).2.isEmpty = true → r = [] ∨ r = [43] ∨ r = [45] := by
    intro r hr
    unfold optSign at hr
    split at hr
    · rename_i t; cases t <;> simp_all
    · rename_i t; cases t <;> simp_all
    · rename_i h1 h2
      cases r with
      | nil => exact Or.inl rfl
      | cons a t => simp at hr
  unfold ndPreFull at h
  split at h
  · -- pvl
    simp only at h
    split at h
    · rename_i rad heq
      obtain ⟨pre, hpre⟩ := radixPvl_split _ _ _ heq
      have hs := optSign_split s
      rw [hpre] at hs
      left
      rw [hs, ← List.append_assoc, getLast?_append_cons]
      rfl
    · cases h
  · split at h
    · -- odl
      split at h
      · rename_i rad r heq
        obtain ⟨pre, hpre⟩ := radixOdl_split _ _ _ heq
        rcases signTail r h with rfl | rfl | rfl
        · left; rw [hpre, getLast?_append_cons]; rfl
        · right; left; rw [hpre, getLast?_append_cons]; rfl
        · right; right; rw [hpre, getLast?_append_cons]; rfl
      · cases h
    · split at h
      · -- omni
        simp only at h
        split at h
        · rename_i rad r' heq
          obtain ⟨pre, hpre⟩ := radixOdl_split _ _ _ heq
          have hs := optSign_split s
          rw [hpre] at hs
          rcases signTail r' h with rfl | rfl | rfl
          · left; rw [hs, ← List.append_assoc, getLast?_append_cons]; rfl
          · right; left; rw [hs, ← List.append_assoc, getLast?_append_cons]; rfl
          · right; right; rw [hs, ← List.append_assoc, getLast?_append_cons]; rfl
        · cases h
      · cases h

theorem ndPreFull_ws (g : Grammar) (w : Nat) (hw : plainWs g w = true) (pat : String) (x : Str) :
    ndPreFull pat (x ++ [w]) = false := by
  obtain ⟨_, _, _, f4, _, _, _, _, _, _, _, f12, f13, _⟩ := plainWs_facts g w hw
  cases h : ndPreFull pat (x ++ [w]) with
  | false => rfl
  | true =>
    have := ndPreFull_last pat (x ++ [w]) h
    simp at this
    rcases this with h1 | h1 | h1 <;> omega

end Pvl

namespace Pvl
open Py

theorem lexChar_next (g : Grammar) (ch : Nat) (w w' : Nat) (hw : plainWs g w = true) (hw' : plainWs g w' = true)
    (prev : Option Nat) (ls : LS) : lexChar g ch prev (some w) ls = lexChar g ch prev (some w') ls := by
  obtain ⟨a1, a2⟩ := plainWs_ne g w hw
  obtain ⟨b1, b2⟩ := plainWs_ne g w' hw'
  have e1 : (some w == some 47) = false := by simp [a1]
  have e2 : (some w' == some 47) = false := by simp [b1]
  have e3 : (some w != some 42) = true := by simp [a2]
  have e4 : (some w' != some 42) = true := by simp [b2]
  unfold lexChar lexComment
  simp only [e1, e2, e3, e4]

/-- before a plain white-space character a lexeme continues only inside a quoted string, comment, … -/
theorem lexContinue_ws (g : Grammar) (d : Dec) (ch w : Nat) (hw : plainWs g w = true) (ls : LS) :
    lexContinue g d ch (some w) ls = (ls.st != .off) := by
  obtain ⟨f1, _, _, _, _, _, _, _, _, _, f11, _, _, f14⟩ := plainWs_facts g w hw
  unfold lexContinue
  simp only [f1, Bool.not_true, Bool.false_eq_true, if_false]
  by_cases hs : (ls.st != PS.off) = true
  · simp [hs]
  · have hs' : (ls.st != PS.off) = false := by simpa using hs
    simp only [hs', Bool.false_eq_true, if_false]
    have h1 : (g.numericStart.contains ch && Tok.isNumeric ⟨g, .pvl⟩ [ch, w, 48]) = false := by
      cases hc : g.numericStart.contains ch with
      | false => simp
      | true => simp [f14 ch (by simpa using hc)]
    simp only [h1, Bool.false_eq_true, if_false, ndPreFull_ws g w hw, f11, Bool.and_false, Bool.false_and]

theorem contains_false_beq (p : Str) (x : Nat) (h : p.contains x = false) : ∀ c ∈ p, (x == c) = false := by
  intro c hc
  cases hx : (x == c) with
  | false => rfl
  | true =>
    have : x = c := by simpa using hx
    subst this
    have : p.contains x = true := by simpa using hc
    rw [h] at this; cases this

theorem startsWith_ws (r p : Str) (w w' : Nat) (hp : p.length ≤ 2) (h1 : p.contains w = false)
    (h2 : p.contains w' = false) : startsWith (r ++ [w]) p = startsWith (r ++ [w']) p := by
  have m1 := contains_false_beq p w h1
  have m2 := contains_false_beq p w' h2
  match p, hp, m1, m2 with
  | [], _, _, _ => simp [startsWith]
  | [c], _, m1, m2 =>
    cases r with
    | nil => simp [startsWith, m1 c (by simp), m2 c (by simp)]
    | cons a t => simp [startsWith]
  | [c1, c2], _, m1, m2 =>
    cases r with
    | nil => simp [startsWith, m1 c1 (by simp), m2 c1 (by simp)]
    | cons a t =>
      cases t with
      | nil => simp [startsWith, m1 c2 (by simp), m2 c2 (by simp)]
      | cons b t' => simp [startsWith]
  | _ :: _ :: _ :: _, hp, _, _ => simp at hp

end Pvl

namespace Pvl
open Py

/-- two prefix results that agree on everything but positions -/
def PreEq : PreRes → PreRes → Prop
  | .err r, .err r' => texts r = texts r'
  | .ok _ p l a, .ok _ p' l' a' => p = p' ∧ l = l' ∧ a.map Token.text = a'.map Token.text
  | _, _ => False

theorem yieldCond_ws2 (g : Grammar) (d : Dec) (w w' : Nat) (hw : plainWs g w = true) (hw' : plainWs g w' = true)
    (next : Option Nat) (r lex : Str) :
    yieldCond g d next (r ++ [w]) lex = yieldCond g d next (r ++ [w']) lex := by
  obtain ⟨_, _, _, _, _, _, _, _, _, f10, _⟩ := plainWs_facts g w hw
  obtain ⟨_, _, _, _, _, _, _, _, _, f10', _⟩ := plainWs_facts g w' hw'
  unfold yieldCond
  cases next with
  | none => rfl
  | some n =>
    have : g.comments.any (fun p => startsWith (r ++ [w]) p.1) = g.comments.any (fun p => startsWith (r ++ [w']) p.1) := by
      have hall : ∀ l : List (Str × Str), (∀ p ∈ l, p ∈ g.comments) →
          l.any (fun p => startsWith (r ++ [w]) p.1) = l.any (fun p => startsWith (r ++ [w']) p.1) := by
        intro l
        induction l with
        | nil => intro _; rfl
        | cons p t ih =>
          intro hsub
          have hp := hsub p (by simp)
          simp only [List.any_cons, startsWith_ws r p.1 w w' (f10 p hp).2 (f10 p hp).1 (f10' p hp).1,
            ih (fun q hq => hsub q (by simp [hq]))]
      exact hall g.comments (fun _ h => h)
    simp only [this]

theorem yieldCond_at_ws (g : Grammar) (d : Dec) (w : Nat) (hw : plainWs g w = true) (rest lex : Str) :
    yieldCond g d (some w) rest lex = true := by
  obtain ⟨_, f2, _⟩ := plainWs_facts g w hw
  unfold yieldCond
  simp only [f2, Bool.or_true, Bool.true_or]

/-- the prefix is lexed the same way whichever plain white-space character follows it -/
theorem lexPre_ws (g : Grammar) (d : Dec) (w w' : Nat) (hw : plainWs g w = true) (hw' : plainWs g w' = true) :
    ∀ (A : Str) (i i' : Nat) (prev : Option Nat) (ls : LS) (acc acc' : List Token),
      acc.map Token.text = acc'.map Token.text →
      PreEq (lexPre g d A w i prev ls acc) (lexPre g d A w' i' prev ls acc') := by
  intro A
  induction A with
  | nil => intro i i' prev ls acc acc' h; exact ⟨rfl, rfl, h⟩
  | cons ch rest ih =>
    intro i i' prev ls acc acc' h
    rw [lexPre, lexPre]
    by_cases h1 : (!charAllowed g ch) = true
    · simp only [h1, if_true]
      simp [PreEq, texts, List.map_reverse, h]
    · simp only [h1, Bool.false_eq_true, if_false]
      cases rest with
      | nil =>
        simp only [List.nil_append, List.head?_cons, lexChar_next g ch w w' hw hw',
          lexContinue_ws g d ch w hw, lexContinue_ws g d ch w' hw', yieldCond_at_ws g d w hw,
          yieldCond_at_ws g d w' hw', if_true]
        by_cases h2 : (lexChar g ch prev (some w') ls).lexeme.isEmpty = true
        · simp only [h2, if_true]; exact ih _ _ _ _ _ _ h
        · simp only [h2, Bool.false_eq_true, if_false]
          cases h3 : ((lexChar g ch prev (some w') ls).st != PS.off)
          · simp only; exact ih _ _ _ _ _ _ (by simp [h])
          · simp only; exact ih _ _ _ _ _ _ h
      | cons a t =>
        simp only [List.cons_append, List.head?_cons]
        have hy := fun lex => yieldCond_ws2 g d w w' hw hw' (some a) (a :: t) lex
        simp only [List.cons_append] at hy
        by_cases h2 : (lexChar g ch prev (some a) ls).lexeme.isEmpty = true
        · simp only [h2, if_true]; exact ih _ _ _ _ _ _ h
        · simp only [h2, Bool.false_eq_true, if_false]
          cases h3 : lexContinue g d ch (some a) (lexChar g ch prev (some a) ls)
          · simp only [hy]
            by_cases h4 : yieldCond g d (some a) (a :: (t ++ [w'])) (lexChar g ch prev (some a) ls).lexeme = true
            · simp only [h4, if_true]; exact ih _ _ _ _ _ _ (by simp [h])
            · simp only [h4, Bool.false_eq_true, if_false]; exact ih _ _ _ _ _ _ h
          · simp only; exact ih _ _ _ _ _ _ h

end Pvl

namespace Pvl
open Py

/-- the lexer state when the whole of `A` has been read, given that a plain white-space character follows -/
def cleanAfter (g : Grammar) (d : Dec) (A : Str) (la : Nat) : Prop :=
  match lexPre g d A la 0 none ⟨[], .off, []⟩ [] with
  | .ok _ _ l _ => l.clean
  | .err _ => False

/-- **white space between lexemes**: if, after `A`, the lexer is between lexemes and outside any quoted
    string, comment or units expression, then replacing one non-empty run of plain white space at that
    place by any other changes neither the texts of the tokens nor whether the lexer reaches the end of
    the text -/
theorem ws_run_irrelevant (g : Grammar) (d : Dec) (A B ws1 ws2 : Str)
    (h1 : ∀ w ∈ ws1, plainWs g w = true) (h2 : ∀ w ∈ ws2, plainWs g w = true)
    (n1 : ws1 ≠ []) (n2 : ws2 ≠ [])
    (hclean : cleanAfter g d A (ws1.head n1)) :
    texts (lexAll g d (A ++ ws1 ++ B)) = texts (lexAll g d (A ++ ws2 ++ B)) := by
  obtain ⟨la1, r1, rfl⟩ : ∃ a r, ws1 = a :: r := by cases ws1 with | nil => exact absurd rfl n1 | cons a r => exact ⟨a, r, rfl⟩
  obtain ⟨la2, r2, rfl⟩ : ∃ a r, ws2 = a :: r := by cases ws2 with | nil => exact absurd rfl n2 | cons a r => exact ⟨a, r, rfl⟩
  have hw1 := h1 la1 (by simp)
  have hw2 := h2 la2 (by simp)
  simp only [List.head_cons] at hclean
  unfold lexAll
  have e1 : A ++ la1 :: r1 ++ B = A ++ la1 :: (r1 ++ B) := by simp
  have e2 : A ++ la2 :: r2 ++ B = A ++ la2 :: (r2 ++ B) := by simp
  rw [e1, e2, lexGo_prefix g d la1 hw1 (r1 ++ B) A, lexGo_prefix g d la2 hw2 (r2 ++ B) A]
  have hrel := lexPre_ws g d la1 la2 hw1 hw2 A 0 0 none ⟨[], .off, []⟩ [] [] rfl
  unfold cleanAfter at hclean
  cases hp1 : lexPre g d A la1 0 none ⟨[], .off, []⟩ [] with
  | err r => rw [hp1] at hclean; exact hclean.elim
  | ok i1 p1 l1 a1 =>
    rw [hp1] at hclean hrel
    cases hp2 : lexPre g d A la2 0 none ⟨[], .off, []⟩ [] with
    | err r => rw [hp2] at hrel; exact hrel.elim
    | ok i2 p2 l2 a2 =>
      rw [hp2] at hrel
      obtain ⟨hp, hl, hacc⟩ := hrel
      subst hp
      subst hl
      have hc : l1.clean := hclean
      obtain ⟨w1, hpw1, er1⟩ := lexGo_ws_run g d (la1 :: r1) h1 (by simp) B i1 p1 l1 hc a1
      obtain ⟨w2, hpw2, er2⟩ := lexGo_ws_run g d (la2 :: r2) h2 (by simp) B i2 p1 l1 hc a2
      simp only [List.cons_append] at er1 er2
      simp only [er1, er2]
      rw [lexGo_prev g d w1 w2 hpw1 hpw2]
      exact lexGo_texts_shift g d B _ _ _ _ _ _ hacc

end Pvl
